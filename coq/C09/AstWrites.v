(* C09, "cached ASTs are immutable; the linker works on clones of everything it
   mutates" (internal/cache/cache.go contract, graph.CloneLinkerGraph).

   Translator T9 (gen/cmd/t9astwrites) regenerates on every run the inventory
   of every write, in internal/linker/linker.go and internal/bundler/bundler.go,
   whose target is reached through AST-derived storage, with its class:
     OwnedField / OwnedSlice  the target belongs to a local copy or to a value
                              built in that function (a slice or map field
                              counts only if the function re-created it on the copy)
     ClonedLevel              a level cloned by CloneLinkerGraph / parseFile
     Shared                   the write lands in storage the cached AST still references;
                              this includes append(s, ...) and copy(s, ...) where s is (derived
                              from) AST storage - directly, or held in a field of a local struct
                              that is given AST storage somewhere in the function - unless the
                              function re-created s first (make, append to a fresh or clipped
                              slice); what a conditional branch re-creates counts only inside it
   (V.gen.AstWritesGen).  The obligation: the Shared sites are exactly the
   allow-list below, each entry with the argument why it is harmless.  A new
   write into a cached object - e.g. dropping the re-creation of
   objectClone.Properties in generateCodeForFileInChunkJS, which makes
   objectClone.Properties[i].ValueOrNil a Shared site - breaks the theorem.
   Executable definitions only. *)
From V Require Import Common.Base.
From V Require Import gen.AstWritesGen.
Require Import Coq.Strings.String.
Open Scope string_scope.

Definition is_shared (c : wclass) : bool := match c with Shared => true | _ => false end.

(* (function, target, occurrences) of the sites classified Shared *)
Definition shared_sites (l : list wsite) : list (string * string * nat) :=
  map (fun s => (ws_func s, ws_lhs s, ws_count s)) (filter (fun s => is_shared (ws_class s)) l).

Definition ast_write_allowlist : list (string * string * nat) :=
  [ (* a genuine write into a cached node (s : *js_ast.SExportFrom comes from the
       type switch on stmt.Data): the alias of every item is overwritten by its
       original name.  Idempotent, and the alias of an "export {a as b} from"
       statement is read again only by the printer when the statement is kept,
       which needs shouldStripExports = false, i.e. pass-through mode, while the
       write happens only when it is true; the mode of a context never changes.
       (The exported names themselves live in AST.NamedExports, computed by the parser.) *)
    ("*linkerContext.convertStmtsForChunk", "s.Items[i].Alias", 1%nat);
    (* prev is a copy of wipOrder[prevIndex]; its layers slice may be
       AST.LayersPreImport / LayersPostImport of a (cached, possibly shared by
       several entries) css_ast.AST.  The append is safe because of the didClone
       protocol: the first time an index is merged into, prev.layers is replaced
       by append([][]string{}, prev.layers...) (the conditional re-creation the
       inventory notes), the result is stored back into wipOrder[prevIndex], and
       later merges into the same index start from that private slice
       (didClone == prevIndex).  Removing the re-creation (seeded change C08-3)
       turns this into a different site and breaks the theorem. *)
    ("*linkerContext.findImportedFilesInCSSOrder",
     "wipOrder[prevIndex].layers = append(prev.layers, entry.layers...) {after a conditional re-creation of prev.layers}", 1%nat);
    (* lazyValue is a local js_ast.Expr (a struct value copied out of the
       SLazyExport node); the assignment changes the local, and the part's
       statements are then replaced by fresh ones (ClonedLevel sites
       repr.AST.Parts[partIndex].Stmts).  Syntactically indistinguishable from a
       pointer-typed field, hence listed. *)
    ("*linkerContext.generateCodeForLazyExport", "lazyValue.Data", 1%nat);
    (* reExports starts as the parameter reExportsIn, which the only external
       caller passes as nil (scanImportsAndExports: matchImportWithExport(..., nil))
       and the recursion passes on; it only ever holds dependencies computed in
       this link and ends up in ImportData (JSReprMeta), never in an AST *)
    ("*linkerContext.matchImportWithExport",
     "reExports = append(reExports, js_ast.Dependency{ SourceIndex: tracker.sourceIndex, PartIndex: resolvedPartIndex, })", 1%nat);
    (* The next four extend a slice whose header was copied out of the cached
       AST (NamedImport value of the cloned NamedImports map; element of the
       cloned Parts slice) and store the result in the link's own copy.  If the
       cached backing array has spare capacity the new elements are written into
       it, beyond the length every cached header has: the cached AST never reads
       them, each file has one clone per link, and the links of one context
       never overlap (internalContext.rebuild hands out the active build), so a
       later link can only overwrite what an earlier, finished link appended.
       The rebuild-vs-fresh histories exercise exactly this. *)
    ("*linkerContext.scanImportsAndExports",
     "namedImport.LocalPartsWithUses = append(namedImport.LocalPartsWithUses, uint32(partIndex))", 1%nat);
    ("*linkerContext.scanImportsAndExports", "part.Dependencies = append(part.Dependencies, importData.ReExports...)", 1%nat);
    ("*linkerContext.scanImportsAndExports",
     "part.Dependencies = append(part.Dependencies, js_ast.Dependency{ SourceIndex: importData.SourceIndex, PartIndex: resolvedPartIndex, })", 1%nat);
    ("*linkerContext.scanImportsAndExports",
     "part.Dependencies = append(part.Dependencies, js_ast.Dependency{ SourceIndex: sourceIndex, PartIndex: otherPartIndex, })", 1%nat);
    (* before is reached by pointer from stmts[end-1].Data, but this branch runs
       only when didMergeWithPreviousLocal is true, which is set together with
       "clone := *before; clone.Decls = make(...); ...; stmts[end-1].Data = &clone"
       in the same call: before is that clone, whose Decls slice was created by
       make with room for exactly the first merge, so the append reallocates or
       extends a private array *)
    ("mergeAdjacentLocalStmts", "before.Decls", 1%nat);
    ("mergeAdjacentLocalStmts", "before.Decls = append(before.Decls, after.Decls...)", 1%nat);
    (* stmts is the statement list assembled for the chunk by
       generateCodeForFileInChunkJS (stmtList.insideWrapperPrefix/Suffix, built
       by convertStmtsForChunk with append onto fresh slices), never a Part's
       Stmts slice; its elements are overwritten in place *)
    ("mergeAdjacentLocalStmts", "stmts[end-1].Data", 1%nat);
    ("mergeAdjacentLocalStmts", "stmts[end]", 1%nat) ].

Definition count_class (c : wclass) (l : list wsite) : nat :=
  List.length (filter (fun s => match ws_class s, c with
                                | OwnedField, OwnedField | OwnedSlice, OwnedSlice
                                | ClonedLevel, ClonedLevel | Shared, Shared => true
                                | _, _ => false end) l).

(* the levels the ClonedLevel class relies on *)
Definition expected_cloned_levels : list string :=
  ["AST.ImportRecords"; "AST.ModuleScope"; "AST.NamedImports"; "AST.Parts"; "AST.Parts.[].SymbolUses"].
