(* C09 property theorems. This file contains only statements closed by
   [exact lemma] and Print Assumptions. *)
From V Require Import Common.Base C09.Cache C09.CacheProofs.

(* JSCache/CSSCache/JSONCache: if the source comparison is equality and the
   option comparison is sound for the parser, then over EVERY history of calls
   the cache returns exactly what the parser would return. *)
Theorem memo_transparent :
  forall (src opts res : Type) (key_of : src -> Z) (src_eqb : src -> src -> bool)
         (opt_equal : opts -> opts -> bool) (parse : src -> opts -> res),
    (forall a b, src_eqb a b = true -> a = b) ->
    (forall s o o', opt_equal o o' = true -> parse s o = parse s o') ->
    forall calls, run_memo key_of src_eqb opt_equal parse [] calls
                  = map (fun c => parse (fst c) (snd c)) calls.
Proof. exact memo_transparent_all. Qed.
Print Assumptions memo_transparent.

(* FSCache.ReadFile over every access/edit history: provided a usable mod key
   that was seen before with successfully read contents still denotes those
   contents ("modification times advance normally"), every cached read returns
   what fs.ReadFile answers at that moment. *)
Theorem fscache_transparent :
  forall h, ModKeySoundH h -> run_fs [] h = map a_rd h.
Proof. exact fscache_transparent_all. Qed.
Print Assumptions fscache_transparent.

(* SourceIndexCache: indices are stable and injective over every key sequence *)
Theorem source_index_injective :
  forall keys c, si_ok c -> forall k1 k2 n1 n2 i,
    nth_error keys n1 = Some k1 -> nth_error keys n2 = Some k2 ->
    nth_error (run_si c keys) n1 = Some i -> nth_error (run_si c keys) n2 = Some i -> k1 = k2.
Proof. exact source_index_stable_injective. Qed.
Print Assumptions source_index_injective.

(* The lifted statement: for every finite edit history (an arbitrary world
   before each step) and every build program written against the observation
   interface, rebuilding on the context's cache set returns what a fresh build
   of the current tree returns. *)
Theorem rebuild_eq_fresh :
  forall (src opts res R : Type) (key_of : src -> Z) (src_eqb : src -> src -> bool)
         (opt_equal : opts -> opts -> bool) (parse : src -> opts -> res),
    (forall a b, src_eqb a b = true -> a = b) ->
    (forall s o o', opt_equal o o' = true -> parse s o = parse s o') ->
    forall steps : list (world * build src opts res R),
      ModKeySound (map fst steps) ->
      rebuilds key_of src_eqb opt_equal parse ([], []) steps
      = map (fun wb => run_fresh parse (fst wb) (snd wb)) steps.
Proof. exact rebuild_eq_fresh_all. Qed.
Print Assumptions rebuild_eq_fresh.
