(* C09 property theorems. This file contains only statements closed by
   [exact lemma] and Print Assumptions. *)
From V Require Import Common.Base C09.Cache C09.CacheProofs C09.OptionFields C09.OptionFieldsProofs C09.Watch C09.WatchProofs.
From V Require Import gen.OptionFieldsGen.
Require Import Coq.Strings.String.
Open Scope string_scope.
Open Scope Z_scope.

(* JSCache/CSSCache/JSONCache: if the source comparison is equality and the
   option comparison is sound for the parser, then over EVERY history of calls
   the cache returns exactly what the parser would return. *)
Theorem memo_transparent :
  forall (src opts res : Type) (key_of : src -> Z) (src_eqb : src -> src -> bool)
         (opt_equal : opts -> opts -> bool) (parse : src -> opts -> res),
    (forall a b, src_eqb a b = true -> a = b) ->
    (forall s o o', opt_equal o o' = true -> parse s o = parse s o') ->
    forall calls, run_memo key_of src_eqb opt_equal parse [] calls
                  = map (fun c => parse (fst c) (snd c)) calls.
Proof. exact memo_transparent_all. Qed.
Print Assumptions memo_transparent.

(* FSCache.ReadFile over every access/edit history: provided a usable mod key
   that was seen before with successfully read contents still denotes those
   contents ("modification times advance normally"), every cached read returns
   what fs.ReadFile answers at that moment. *)
Theorem fscache_transparent :
  forall h, ModKeySoundH h -> run_fs [] h = map a_rd h.
Proof. exact fscache_transparent_all. Qed.
Print Assumptions fscache_transparent.

(* SourceIndexCache: indices are stable and injective over every key sequence *)
Theorem source_index_injective :
  forall keys c, si_ok c -> forall k1 k2 n1 n2 i,
    nth_error keys n1 = Some k1 -> nth_error keys n2 = Some k2 ->
    nth_error (run_si c keys) n1 = Some i -> nth_error (run_si c keys) n2 = Some i -> k1 = k2.
Proof. exact source_index_stable_injective. Qed.
Print Assumptions source_index_injective.

(* The lifted statement: for every finite edit history (an arbitrary world
   before each step) and every build program written against the observation
   interface, rebuilding on the context's cache set returns what a fresh build
   of the current tree returns. *)
Theorem rebuild_eq_fresh :
  forall (src opts res R : Type) (key_of : src -> Z) (src_eqb : src -> src -> bool)
         (opt_equal : opts -> opts -> bool) (parse : src -> opts -> res),
    (forall a b, src_eqb a b = true -> a = b) ->
    (forall s o o', opt_equal o o' = true -> parse s o = parse s o') ->
    forall steps : list (world * build src opts res R),
      ModKeySound (map fst steps) ->
      rebuilds key_of src_eqb opt_equal parse ([], []) steps
      = map (fun wb => run_fresh parse (fst wb) (snd wb)) steps.
Proof. exact rebuild_eq_fresh_all. Qed.
Print Assumptions rebuild_eq_fresh.

(* ---- option-field coverage over translator T3's regenerated inventory ----
   every field of js_parser.Options that the parser package reads is compared
   by Options.Equal or is on the justified list (finding C of DESIGN section
   7-C is fixed in /repo; its witness is replayed by the harness stream
   c09/known and kept in corpus/C09-C-tsconfig-jsx.json) *)
Theorem equal_covers_all_fields : equal_covers js_irrelevant js_option_fields = true.
Proof. exact js_covers. Qed.
Print Assumptions equal_covers_all_fields.

(* the former witness: Equal now distinguishes options that differ in jsx.AutomaticRuntime *)
Theorem jsx_gap_closed : table_equal js_option_fields gap_o gap_o' = false.
Proof. exact js_former_gap_closed. Qed.
Print Assumptions jsx_gap_closed.

(* css_parser.Options and js_parser.JSONOptions are fully covered, and all
   three caches compare the source as well *)
Theorem css_equal_covers_all_fields : equal_covers [] css_option_fields = true.
Proof. exact css_covers. Qed.
Print Assumptions css_equal_covers_all_fields.

Theorem json_equal_covers_all_fields : equal_covers [] json_option_fields = true.
Proof. exact json_covers. Qed.
Print Assumptions json_equal_covers_all_fields.

Theorem all_caches_compare_source : caches_comparing_source = ["CSSCache"; "JSCache"; "JSONCache"]%string.
Proof. exact caches_compare_source. Qed.
Print Assumptions all_caches_compare_source.

(* why coverage matters: for ANY inventory and ANY parser that depends only on
   the fields marked read, a clean coverage check gives the soundness
   hypothesis of memo_transparent, hence transparency over every history *)
Theorem coverage_implies_memo_transparent :
  forall (S R : Type) (parse : S -> oassign -> R) (fs : list ofield) (irr : list string)
         (key_of : S -> Z) (src_eqb : S -> S -> bool),
    (forall a b, src_eqb a b = true -> a = b) ->
    equal_covers irr fs = true -> reads_only S R parse fs irr ->
    forall calls, run_memo key_of src_eqb (table_equal fs) parse [] calls
                  = map (fun c => parse (fst c) (snd c)) calls.
Proof. exact covered_table_memo_transparent. Qed.
Print Assumptions coverage_implies_memo_transparent.

(* ---- watch mode ----
   For EVERY log of observations (ReadDirectory, per-name lookups, full
   listings, ReadFile, ModKey) made on a file system w, in which each path is
   observed either as a directory or as a file, and every later file system w':
   if none of the watch predicates computed by WatchData() is dirty on w', then
   every observation of the log answers on w' what it answered on w - in
   particular the "looked for and not found" lookups (wasPresent = false,
   stateFileMissing, stateDirUnreadable).  Hypotheses on paths read as files:
   each is a readable regular file or absent in both worlds (coherent_at), an
   unchanged usable mod key means unchanged contents, a real mod key is not the
   zero value.  Not covered (no watch record exists): the kind of an entry
   (lstat) and the original-case spelling of a present entry. *)
Theorem watch_covers_observations :
  forall w w' log,
    (forall o, In o log -> wf_path log (obs_path o)) ->
    (forall o, In o log -> is_file_op o = true -> file_hyps w w' (obs_path o)) ->
    clean w' (finalize w (record w log)) = true ->
    all_same w w' log = true.
Proof. exact watch_covers_observations_all. Qed.
Print Assumptions watch_covers_observations.

(* without "each path is observed either as a directory or as a file" the
   statement is false of the faithful model (finding F, replayed on the real
   code by harness stream c09/known): a directory whose listing was consulted
   for a missing name and that is afterwards read as a file loses its record *)
Theorem watch_covers_observations_unrestricted_refuted :
  clean f_w' (finalize f_w (record f_w f_log)) = true /\ all_same f_w f_w' f_log = false.
Proof. exact watch_unrestricted_refuted. Qed.
Print Assumptions watch_covers_observations_unrestricted_refuted.
