(* C09 property theorems. This file contains only statements closed by
   [exact lemma] and Print Assumptions. *)
From V Require Import Common.Base C09.Cache C09.CacheProofs C09.OptionFields C09.OptionFieldsProofs C09.Watch C09.WatchProofs.
From V Require Import C09.CacheSet C09.CacheSetProofs C09.AstWrites C09.AstWritesProofs.
From V Require Import gen.AstWritesGen.
From V Require Import gen.OptionFieldsGen.
Require Import Coq.Strings.String.
Open Scope string_scope.
Open Scope Z_scope.

(* JSCache/CSSCache/JSONCache: if the source comparison is equality and the
   option comparison is sound for the parser, then over EVERY history of calls
   the cache returns exactly what the parser would return. *)
Theorem memo_transparent :
  forall (src opts res : Type) (key_of : src -> Z) (src_eqb : src -> src -> bool)
         (opt_equal : opts -> opts -> bool) (parse : src -> opts -> res),
    (forall a b, src_eqb a b = true -> a = b) ->
    (forall s o o', opt_equal o o' = true -> parse s o = parse s o') ->
    forall calls, run_memo key_of src_eqb opt_equal parse [] calls
                  = map (fun c => parse (fst c) (snd c)) calls.
Proof. exact memo_transparent_all. Qed.
Print Assumptions memo_transparent.

(* FSCache.ReadFile over every access/edit history: provided a usable mod key
   that was seen before with successfully read contents still denotes those
   contents ("modification times advance normally"), every cached read returns
   what fs.ReadFile answers at that moment. *)
Theorem fscache_transparent :
  forall h, ModKeySoundH h -> run_fs [] h = map a_rd h.
Proof. exact fscache_transparent_all. Qed.
Print Assumptions fscache_transparent.

(* SourceIndexCache: indices are stable and injective over every key sequence *)
Theorem source_index_injective :
  forall keys c, si_ok c -> forall k1 k2 n1 n2 i,
    nth_error keys n1 = Some k1 -> nth_error keys n2 = Some k2 ->
    nth_error (run_si c keys) n1 = Some i -> nth_error (run_si c keys) n2 = Some i -> k1 = k2.
Proof. exact source_index_stable_injective. Qed.
Print Assumptions source_index_injective.

(* The lifted statement: for every finite edit history (an arbitrary world
   before each step) and every build program written against the observation
   interface, rebuilding on the context's cache set returns what a fresh build
   of the current tree returns. *)
Theorem rebuild_eq_fresh :
  forall (src opts res R : Type) (key_of : src -> Z) (src_eqb : src -> src -> bool)
         (opt_equal : opts -> opts -> bool) (parse : src -> opts -> res),
    (forall a b, src_eqb a b = true -> a = b) ->
    (forall s o o', opt_equal o o' = true -> parse s o = parse s o') ->
    forall steps : list (world * build src opts res R),
      ModKeySound (map fst steps) ->
      rebuilds key_of src_eqb opt_equal parse ([], []) steps
      = map (fun wb => run_fresh parse (fst wb) (snd wb)) steps.
Proof. exact rebuild_eq_fresh_all. Qed.
Print Assumptions rebuild_eq_fresh.

(* ---- option-field coverage over translator T3's regenerated inventory ----
   every field of js_parser.Options that the parser package reads is compared
   by Options.Equal or is on the justified list (finding C of DESIGN section
   7-C is fixed in /repo; its witness is replayed by the harness stream
   c09/known and kept in corpus/C09-C-tsconfig-jsx.json) *)
Theorem equal_covers_all_fields : equal_covers js_irrelevant js_option_fields = true.
Proof. exact js_covers. Qed.
Print Assumptions equal_covers_all_fields.

(* the former witness: Equal now distinguishes options that differ in jsx.AutomaticRuntime *)
Theorem jsx_gap_closed : table_equal js_option_fields gap_o gap_o' = false.
Proof. exact js_former_gap_closed. Qed.
Print Assumptions jsx_gap_closed.

(* css_parser.Options and js_parser.JSONOptions are fully covered, and all
   three caches compare the source as well *)
Theorem css_equal_covers_all_fields : equal_covers [] css_option_fields = true.
Proof. exact css_covers. Qed.
Print Assumptions css_equal_covers_all_fields.

Theorem json_equal_covers_all_fields : equal_covers [] json_option_fields = true.
Proof. exact json_covers. Qed.
Print Assumptions json_equal_covers_all_fields.

Theorem all_caches_compare_source : caches_comparing_source = ["CSSCache"; "JSCache"; "JSONCache"]%string.
Proof. exact caches_compare_source. Qed.
Print Assumptions all_caches_compare_source.

(* why coverage matters: for ANY inventory and ANY parser that depends only on
   the fields marked read, a clean coverage check gives the soundness
   hypothesis of memo_transparent, hence transparency over every history *)
Theorem coverage_implies_memo_transparent :
  forall (S R : Type) (parse : S -> oassign -> R) (fs : list ofield) (irr : list string)
         (key_of : S -> Z) (src_eqb : S -> S -> bool),
    (forall a b, src_eqb a b = true -> a = b) ->
    equal_covers irr fs = true -> reads_only S R parse fs irr ->
    forall calls, run_memo key_of src_eqb (table_equal fs) parse [] calls
                  = map (fun c => parse (fst c) (snd c)) calls.
Proof. exact covered_table_memo_transparent. Qed.
Print Assumptions coverage_implies_memo_transparent.

(* ---- watch mode ---- (model follows the recorder after the fixes 0717f2b and dbd24f7)
   For EVERY log of observations (ReadDirectory, per-name lookups, full
   listings, ReadFile, ModKey, entry kind / symlink target) made on a file
   system w and every later file system w': if none of the watch predicates
   computed by WatchData() is dirty on w', then every observation of the log
   answers on w' what it answered on w - in particular the "looked for and not
   found" lookups (wasPresent = false, stateFileMissing, stateDirUnreadable) and
   what a symlink resolves to.
   Hypotheses that remain, and why:
   - wf_path: the first observation of a directory path is its ReadDirectory;
     reads of that same path as a file may follow when it really is a listable
     directory (the shape of former finding F, now inside the theorem).  Still
     excluded is the opposite mix - ReadDirectory after file observations, or
     file observations of a path whose ReadDirectory failed: the recorder keeps
     one record per path.  On the real code that mix is a regular file probed as
     a directory, for which the resolver reports "Cannot read directory: not a
     directory" and the build fails whatever the file contains.
   - kind_hyps / kind_companions: entry kinds agree with the file system (the
     kind of an entry is the kind of what it resolves to; a plain present entry
     resolves to itself; a symlink never resolves to its own path and what it
     resolves to has a kind) and the build used the entry the way the resolver
     does (it came from a Get; a file was then read, a directory then listed).
     Symlinks are inside the theorem now (former findings G and G2); what
     remains is "a plain entry is not replaced by a symlink of the same name":
     with a usable mod key the inode in the key changes, with an unusable one
     only the contents are compared and nothing records that the entry was plain.
   - file_hyps, dir_coh: a path read only as a file is a readable regular file
     or absent in both worlds, an unchanged usable mod key means unchanged
     contents ("modification times advance normally"), a real mod key is not the
     zero value; a listable directory is not readable as a file and stat works on it.
   Not covered: the original-case spelling of a present entry. *)
Theorem watch_covers_observations :
  forall (child : path -> name -> path) w w' log,
    (forall o, In o log -> wf_path w log (obs_path o)) ->
    (forall o, In o log -> forallb is_file_op (proj (obs_path o) log) = true -> file_hyps w w' (obs_path o)) ->
    (forall p, dir_coh w p /\ dir_coh w' p) ->
    (forall d n, In (OKind d n) log ->
       kind_hyps child w d n /\ kind_hyps child w' d n /\ kind_companions child log w d n /\
       (ww_islink w d n = false -> ww_islink w' d n = false)) ->
    clean w' (finalize w (record w log)) = true ->
    all_same w w' log = true.
Proof. exact watch_covers_observations_all. Qed.
Print Assumptions watch_covers_observations.

(* The three former counterexamples of the unrestricted statement (refuted
   theorems until the fixes landed; still replayed on the real code by stream
   c09/known as must-pass cases) are now detected by the recorded predicates:
   F - a listed directory that is also read as a file keeps its record; the
       log is inside the theorem's domain and the new entry is reported; *)
Theorem watch_finding_F_shape_covered :
  (forall o, In o f_log -> wf_path f_w f_log (obs_path o)) /\
  dirty_paths f_w' (finalize f_w (record f_w f_log)) = [1] /\ all_same f_w f_w' f_log = false.
Proof. exact (conj finding_F_shape_in_domain finding_F_shape_detected). Qed.
Print Assumptions watch_finding_F_shape_covered.

(* G - a re-pointed symlink makes the directory's record dirty (and an
       unchanged one leaves it clean); *)
Theorem watch_finding_G_shape_covered :
  dirty_paths (g_world 6) (finalize (g_world 5) (record (g_world 5) g_log)) = [1] /\
  clean (g_world 5) (finalize (g_world 5) (record (g_world 5) g_log)) = true.
Proof. exact finding_G_shape_detected. Qed.
Print Assumptions watch_finding_G_shape_covered.

(* G2 - so does the appearance of the missing target of a dangling symlink. *)
Theorem watch_finding_G2_shape_covered :
  dirty_paths (g2_world false) (finalize (g2_world true) (record (g2_world true) g2_log)) = [1] /\
  clean (g2_world true) (finalize (g2_world true) (record (g2_world true) g2_log)) = true.
Proof. exact finding_G2_shape_detected. Qed.
Print Assumptions watch_finding_G2_shape_covered.

(* ---- the whole cache set, including the resolver's cached reads ----
   For every edit history and every build program over the full interface
   (FSCache.ReadFile, JSCache, CSSCache, JSONCache - three parsers, three
   option comparisons), rebuilding on the context's cache set returns what a
   fresh build returns. *)
Theorem rebuild_eq_fresh_cacheset :
  forall (src jopts jres copts cres nopts nres R : Type) (key_of : src -> Z) (src_eqb : src -> src -> bool)
         (jequal : jopts -> jopts -> bool) (cequal : copts -> copts -> bool) (nequal : nopts -> nopts -> bool)
         (jparse : src -> jopts -> jres) (cparse : src -> copts -> cres) (nparse : src -> nopts -> nres),
    (forall a b, src_eqb a b = true -> a = b) ->
    (forall s o o', jequal o o' = true -> jparse s o = jparse s o') ->
    (forall s o o', cequal o o' = true -> cparse s o = cparse s o') ->
    (forall s o o', nequal o o' = true -> nparse s o = nparse s o') ->
    forall steps : list (world * build3 src jopts jres copts cres nopts nres R),
      ModKeySound (map fst steps) ->
      rebuilds3 src jopts jres copts cres nopts nres R key_of src_eqb jequal cequal nequal jparse cparse nparse cs_empty steps
      = map (fun wb => run_fresh3 src jopts jres copts cres nopts nres R jparse cparse nparse (fst wb) (snd wb)) steps.
Proof. exact rebuild_eq_fresh_cacheset_all. Qed.
Print Assumptions rebuild_eq_fresh_cacheset.

(* the resolver's package.json / tsconfig.json read (file cache keyed by path
   and mod key in front of the JSON cache keyed by path and compared on the
   source): on any cache state left by earlier builds it continues with the
   parsed value of the file's CURRENT contents, or with "unreadable" *)
Theorem resolver_json_read_transparent :
  forall (src jopts jres copts cres nopts nres R : Type) (key_of : src -> Z) (src_eqb : src -> src -> bool)
         (jequal : jopts -> jopts -> bool) (cequal : copts -> copts -> bool) (nequal : nopts -> nopts -> bool)
         (jparse : src -> jopts -> jres) (cparse : src -> copts -> cres) (nparse : src -> nopts -> nres),
    (forall a b, src_eqb a b = true -> a = b) ->
    (forall s o o', jequal o o' = true -> jparse s o = jparse s o') ->
    (forall s o o', cequal o o' = true -> cparse s o = cparse s o') ->
    (forall s o o', nequal o o' = true -> nparse s o = nparse s o') ->
    forall ws, ModKeySound ws ->
    forall (mk_src : path -> Z -> src) p o (k : option nres -> build3 src jopts jres copts cres nopts nres R) w c,
      In w ws -> cs_ok src jopts jres copts cres nopts nres jparse cparse nparse ws c ->
      fst (run_cached3 src jopts jres copts cres nopts nres R key_of src_eqb jequal cequal nequal jparse cparse nparse w c
             (read_json mk_src p o k))
      = run_fresh3 src jopts jres copts cres nopts nres R jparse cparse nparse w
          (k (match w_read w p with RdOk cts => Some (nparse (mk_src p cts) o) | RdErr _ => None end)).
Proof. exact resolver_json_read_transparent_all. Qed.
Print Assumptions resolver_json_read_transparent.

(* ---- cached ASTs are immutable: the linker and the bundler write on clones ----
   over translator T9's regenerated inventory of every write whose target is
   reached through AST-derived storage in internal/linker/linker.go and
   internal/bundler/bundler.go: the writes that land in storage the cached AST
   still references are EXACTLY the justified allow-list (AstWrites.v), and the
   levels the "cloned level" class relies on are the ones CloneLinkerGraph clones *)
Theorem linker_writes_only_on_clones : shared_sites ast_write_sites = ast_write_allowlist.
Proof. exact shared_sites_exact. Qed.
Print Assumptions linker_writes_only_on_clones.

Theorem cloned_levels_as_expected : cloned_levels = expected_cloned_levels.
Proof. exact cloned_levels_exact. Qed.
Print Assumptions cloned_levels_as_expected.

(* the rewrite of a JSON module's default-export object happens on a property
   list the function re-created (the obligation the second seeded change broke) *)
Theorem json_default_export_rewrite_on_clone :
  existsb (fun s => String.eqb (ws_lhs s) "objectClone.Properties[i].ValueOrNil" &&
                    negb (is_shared (ws_class s))) ast_write_sites = true.
Proof. exact json_default_export_rewrite_is_on_a_clone. Qed.
Print Assumptions json_default_export_rewrite_on_clone.

(* the merge of adjacent "@layer" entries in findImportedFilesInCSSOrder appends
   to a layer list that may belong to a cached css_ast.AST only after the
   didClone re-creation (the obligation seeded change C08-3 broke) *)
Theorem css_layer_merge_on_clone :
  existsb (fun s => String.eqb (ws_lhs s)
     "wipOrder[prevIndex].layers = append(prev.layers, entry.layers...) {after a conditional re-creation of prev.layers}")
    ast_write_sites = true.
Proof. exact css_layer_merge_after_recreation. Qed.
Print Assumptions css_layer_merge_on_clone.
