(* C09 model, part 3: watch data of the real file system.
   Mirrors /repo/internal/fs/fs_real.go  realFS.ReadDirectory / ReadFile / ModKey
                                          (the "Store data for watch mode" blocks),
                                          realFS.WatchData (finalisation + the five predicates)
           /repo/internal/fs/fs.go       DirEntries.Get / SortedKeys (accessedEntries)
   Executable definitions only (no proofs).

   Modelling notes (trusted-base relevant):
   * The per-build real FS caches directory listings (doNotCacheEntries is false
     in rebuildImpl): only the first ReadDirectory of a path touches the watch
     data; [dircache] is that cache.  The accessedEntries object is shared by
     pointer between the cached DirEntries and watchData[dir]; since there is
     exactly one per directory and build it is a field of the record.  Go keeps
     the pointer when ReadFile/ModKey rewrite the record, and so does the model.
   * Names are byte strings; DirEntries keys are strings.ToLower(name), modelled
     for ASCII.  Two entries whose names differ only in case are not modelled.
   * What the file system answers is an input ([wworld]): directory listing or
     error, file contents or error, mod key / unusable / error, and "os.Stat
     succeeds and is not a directory".  Error kinds are not distinguished; file
     contents are identifiers with 0 standing for the empty string.
   * Entry kind and symlink target (Entry.Kind / Entry.Symlink, realFS.kind)
     are the observation [OKind]; since the fix for findings G/G2 the target of
     a symlink entry is recorded in the directory's accessedEntries and
     re-evaluated by the directory's predicate; the kind of a plain entry has
     no record.  Since the fix for finding F a failed ReadFile on a path whose
     record is stateDirHasAccessedEntries keeps that record. *)
From V Require Import Common.Base C09.Cache.

Definition name := list Z.

Definition lower_c (c : Z) : Z := if (65 <=? c) && (c <=? 90) then c + 32 else c.
Definition lower (n : name) : name := map lower_c n.

Fixpoint name_ltb (a b : name) : bool :=
  match a, b with
  | [], [] => false
  | [], _ :: _ => true
  | _ :: _, [] => false
  | x :: a', y :: b' => if x <? y then true else if y <? x then false else name_ltb a' b'
  end.

Fixpoint insert_sorted (n : name) (l : list name) : list name :=
  match l with
  | [] => [n]
  | x :: r => if name_ltb x n then x :: insert_sorted n r else n :: l
  end.
(* sort.Strings *)
Definition sort_names (l : list name) : list name := fold_right insert_sorted [] l.

Definition name_eqb := zlist_eqb.
Definition names_eqb (a b : list name) : bool := list_eqb zlist_eqb a b.
Definition name_in (n : name) (l : list name) : bool := existsb (name_eqb n) l.

Inductive wstate :=
| SNone | SDirHasAccessedEntries | SDirUnreadable | SFileHasModKey | SFileNeedModKey | SFileMissing | SFileUnusableModKey.

Definition wstate_code (s : wstate) : Z :=
  match s with
  | SNone => 0 | SDirHasAccessedEntries => 1 | SDirUnreadable => 2 | SFileHasModKey => 3
  | SFileNeedModKey => 4 | SFileMissing => 5 | SFileUnusableModKey => 6
  end.

(* accessedEntries: wasPresent (newest binding first) and allEntries (nil = None) *)
(* symlinks (added by the fix for findings G/G2): entry name -> what the link resolved to *)
Record accessed := mkAcc { ac_present : list (name * bool); ac_all : option (list name); ac_links : list (name * option Z) }.
(* privateWatchData *)
Record wdata := mkWd { wd_acc : option accessed; wd_contents : Z; wd_key : list Z; wd_state : wstate }.

Definition wd_zero : wdata := mkWd None 0 [] SNone.

Record wfs := mkWfs {
  wf_data : list (path * wdata);                   (* watchData, newest binding first *)
  wf_dirs : list (path * option (list name))       (* entries cache: listing, or None for an error *)
}.
Definition wfs_empty : wfs := mkWfs [] [].

(* the file system at one moment *)
Record wworld := mkWw {
  ww_readdir : path -> option (list name);
  ww_read : path -> rdres;
  ww_modkey : path -> mkres;
  ww_isfile : path -> bool;       (* os.Stat succeeds and !IsDir *)
  (* realFS.kind on entry n of directory d: lstat, and for a symlink
     EvalSymlinks + lstat of the target.
     ww_kind   0 = neither (absent, dangling link, lstat error), 1 = directory, 2 = file
     ww_islink lstat says the entry is a symlink
     ww_eval   what EvalSymlinks(d/n) returns (None when it fails, e.g. dangling or absent) *)
  ww_kind : path -> name -> Z;
  ww_islink : path -> name -> bool;
  ww_eval : path -> name -> option Z
}.

(* realFS.ReadDirectory (cached per build) *)
Definition op_readdir (f : wfs) (d : path) (ans : option (list name)) : wfs :=
  match lookup d (wf_dirs f) with
  | Some _ => f
  | None =>
      let st := match ans with Some _ => SDirHasAccessedEntries | None => SDirUnreadable end in
      mkWfs ((d, mkWd (Some (mkAcc [] None [])) 0 [] st) :: wf_data f) ((d, ans) :: wf_dirs f)
  end.

Definition upd_acc (f : wfs) (d : path) (g : accessed -> accessed) : wfs :=
  match lookup d (wf_data f) with
  | Some r =>
      match wd_acc r with
      | Some a => mkWfs ((d, mkWd (Some (g a)) (wd_contents r) (wd_key r) (wd_state r)) :: wf_data f) (wf_dirs f)
      | None => f
      end
  | None => f
  end.

(* DirEntries.Get on the cached entries of d: records presence of the lowered name *)
Definition op_get (f : wfs) (d : path) (n : name) : wfs :=
  match lookup d (wf_dirs f) with
  | Some (Some names) =>
      let key := lower n in
      upd_acc f d (fun a => mkAcc ((key, name_in key (map lower names)) :: ac_present a) (ac_all a) (ac_links a))
  | _ => f
  end.

(* DirEntries.SortedKeys *)
Definition op_sortedkeys (f : wfs) (d : path) : wfs :=
  match lookup d (wf_dirs f) with
  | Some (Some names) => upd_acc f d (fun a => mkAcc (ac_present a) (Some (sort_names names)) (ac_links a))
  | _ => f
  end.

(* realFS.ReadFile *)
Definition op_readfile (f : wfs) (p : path) (ans : rdres) : wfs :=
  let (r, ok) := match lookup p (wf_data f) with Some r => (r, true) | None => (wd_zero, false) end in
  let st :=
    match ans with
    | RdErr _ =>
        (* a listed directory that is also read as a file stays a directory record (fix for finding F) *)
        if ok then match wd_state r with SDirHasAccessedEntries => SDirHasAccessedEntries | _ => SFileMissing end
        else SFileMissing
    | RdOk _ =>
        if negb ok then SFileNeedModKey
        else match wd_state r with SDirUnreadable => SFileNeedModKey | s => s end
    end in
  let c := match ans with RdOk c => c | RdErr _ => 0 end in
  mkWfs ((p, mkWd (wd_acc r) c (wd_key r) st) :: wf_data f) (wf_dirs f).

(* realFS.ModKey *)
Definition op_modkey (f : wfs) (p : path) (ans : mkres) : wfs :=
  let key := mk_key ans in
  match lookup p (wf_data f) with
  | None =>
      let st := match ans with MKUnusable => SFileUnusableModKey | MKErr _ => SFileMissing | MKOk _ => SFileHasModKey end in
      mkWfs ((p, mkWd None 0 key st) :: wf_data f) (wf_dirs f)
  | Some r =>
      let st := match wd_state r with SFileNeedModKey => SFileHasModKey | s => s end in
      mkWfs ((p, mkWd (wd_acc r) (wd_contents r) key st) :: wf_data f) (wf_dirs f)
  end.

(* realFS.kind: for a symlink entry, remember what it resolved to in the
   accessedEntries of the directory's record (fix for findings G/G2); nothing
   is stored for a plain entry *)
Definition op_kind (f : wfs) (d : path) (n : name) (islink : bool) (ev : option Z) : wfs :=
  if islink then upd_acc f d (fun a => mkAcc (ac_present a) (ac_all a) ((n, ev) :: ac_links a)) else f.

(* observations a build makes *)
Inductive obs :=
| OReadDir (d : path) | OGet (d : path) (n : name) | OSortedKeys (d : path)
| OReadFile (p : path) | OModKey (p : path)
| OKind (d : path) (n : name).   (* Entry.Kind / Entry.Symlink on an entry obtained from Get *)

Definition obs_path (o : obs) : path :=
  match o with OReadDir d | OGet d _ | OSortedKeys d | OReadFile d | OModKey d | OKind d _ => d end.

Definition step_obs (w : wworld) (f : wfs) (o : obs) : wfs :=
  match o with
  | OReadDir d => op_readdir f d (ww_readdir w d)
  | OGet d n => op_get f d n
  | OSortedKeys d => op_sortedkeys f d
  | OReadFile p => op_readfile f p (ww_read w p)
  | OModKey p => op_modkey f p (ww_modkey w p)
  | OKind d n => op_kind f d n (ww_islink w d n) (ww_eval w d n)
  end.

Definition record (w : wworld) (log : list obs) : wfs := fold_left (step_obs w) log wfs_empty.

(* the distinct paths of the map, each with its newest record *)
Fixpoint newest {A} (l : list (Z * A)) (seen : list Z) : list (Z * A) :=
  match l with
  | [] => []
  | (p, a) :: r => if existsb (Z.eqb p) seen then newest r seen else (p, a) :: newest r (p :: seen)
  end.

(* WatchData(): resolve stateFileNeedModKey with the mod key at that moment *)
Definition finalize1 (w : wworld) (p : path) (r : wdata) : wdata :=
  match wd_state r with
  | SFileNeedModKey =>
      match ww_modkey w p with
      | MKUnusable => mkWd (wd_acc r) (wd_contents r) (wd_key r) SFileUnusableModKey
      | MKErr _ => mkWd (wd_acc r) (wd_contents r) (wd_key r) SFileMissing
      | MKOk k => mkWd (wd_acc r) (wd_contents r) k SFileHasModKey
      end
  | _ => r
  end.
Definition finalize (w : wworld) (f : wfs) : list (path * wdata) :=
  map (fun pr => (fst pr, finalize1 w (fst pr) (snd pr))) (newest (wf_data f) []).

(* wasPresent as a map: newest binding per key *)
Fixpoint present_map (l : list (name * bool)) (seen : list name) : list (name * bool) :=
  match l with
  | [] => []
  | (k, b) :: r => if name_in k seen then present_map r seen else (k, b) :: present_map r (k :: seen)
  end.

(* symlinks as a map: newest binding per name *)
Fixpoint link_map (l : list (name * option Z)) (seen : list name) : list (name * option Z) :=
  match l with
  | [] => []
  | (k, b) :: r => if name_in k seen then link_map r seen else (k, b) :: link_map r (k :: seen)
  end.

(* the predicate of one record evaluated on a (later) world: true = dirty *)
Definition dirty1 (w' : wworld) (p : path) (r : wdata) : bool :=
  match wd_state r with
  | SDirUnreadable => match ww_readdir w' p with Some _ => true | None => false end
  | SDirHasAccessedEntries =>
      match ww_readdir w' p, wd_acc r with
      | None, _ => true
      | Some names, Some a =>
          match ac_all a with
          | Some all => negb (names_eqb (sort_names names) all)
          | None =>
              existsb (fun kb => negb (Bool.eqb (snd kb) (name_in (fst kb) (map lower names))))
                      (present_map (ac_present a) [])
          end
          (* every symlink still resolves to the same thing *)
          || existsb (fun nl => negb (option_eqb Z.eqb (ww_eval w' p (fst nl)) (snd nl)))
                     (link_map (ac_links a) [])
      | Some _, None => false
      end
  | SFileMissing => ww_isfile w' p
  | SFileHasModKey =>
      match ww_modkey w' p with MKOk k => negb (zlist_eqb k (wd_key r)) | _ => true end
  | SFileUnusableModKey =>
      match ww_read w' p with RdOk c => negb (c =? wd_contents r) | RdErr _ => true end
  | SFileNeedModKey | SNone => false
  end.

Definition dirty_paths (w' : wworld) (wd : list (path * wdata)) : list path :=
  map fst (filter (fun pr => dirty1 w' (fst pr) (snd pr)) wd).

Definition clean (w' : wworld) (wd : list (path * wdata)) : bool :=
  match dirty_paths w' wd with [] => true | _ => false end.

(* ---- what an observation answers, up to the classes the watch data can see ---- *)
Inductive answer :=
| ADir (ok : bool)                 (* directory readable? *)
| APresent (b : option bool)       (* entry present (None: directory unreadable) *)
| AKeys (l : option (list name))   (* sorted listing *)
| ARead (c : option Z)             (* contents, or "an error" *)
| AStat (exists_ : bool)
| AKind (k : Z) (target : option Z).   (* entry kind and resolved symlink target *)          (* ModKey: does stat succeed; the key itself is only ever
                                      used as a cache key (ModKeySound), never as a build input *)

Definition answer_of (w : wworld) (o : obs) : answer :=
  match o with
  | OReadDir d => ADir (match ww_readdir w d with Some _ => true | None => false end)
  | OGet d n => APresent (match ww_readdir w d with Some names => Some (name_in (lower n) (map lower names)) | None => None end)
  | OSortedKeys d => AKeys (match ww_readdir w d with Some names => Some (sort_names names) | None => None end)
  | OReadFile p => ARead (match ww_read w p with RdOk c => Some c | RdErr _ => None end)
  | OModKey p => AStat (match ww_modkey w p with MKErr _ => false | _ => true end)
  | OKind d n => AKind (ww_kind w d n) (if ww_islink w d n then ww_eval w d n else None)
  end.

Definition answer_eqb (a b : answer) : bool :=
  match a, b with
  | ADir x, ADir y => Bool.eqb x y
  | APresent x, APresent y => option_eqb Bool.eqb x y
  | AKeys x, AKeys y => option_eqb names_eqb x y
  | ARead x, ARead y => option_eqb Z.eqb x y
  | AStat x, AStat y => Bool.eqb x y
  | AKind x s, AKind y t => (x =? y) && option_eqb Z.eqb s t
  | _, _ => false
  end.

(* every observation of the log answers the same on w' as it did on w *)
Definition all_same (w w' : wworld) (log : list obs) : bool :=
  forallb (fun o => answer_eqb (answer_of w o) (answer_of w' o)) log.
