(* rebuild = fresh build for programs over the whole cache set, including the
   resolver's package.json / tsconfig.json reads. *)
From V Require Import Common.Base C09.Cache C09.CacheProofs C09.CacheSet.

Section CacheSetProofs.
  Variables src jopts jres copts cres nopts nres R : Type.
  Variable key_of : src -> Z.
  Variable src_eqb : src -> src -> bool.
  Variable jequal : jopts -> jopts -> bool.
  Variable cequal : copts -> copts -> bool.
  Variable nequal : nopts -> nopts -> bool.
  Variable jparse : src -> jopts -> jres.
  Variable cparse : src -> copts -> cres.
  Variable nparse : src -> nopts -> nres.
  Hypothesis src_eqb_sound : forall a b, src_eqb a b = true -> a = b.
  Hypothesis jequal_sound : forall s o o', jequal o o' = true -> jparse s o = jparse s o'.
  Hypothesis cequal_sound : forall s o o', cequal o o' = true -> cparse s o = cparse s o'.
  Hypothesis nequal_sound : forall s o o', nequal o o' = true -> nparse s o = nparse s o'.

  Notation B := (build3 src jopts jres copts cres nopts nres R).
  Notation CS := (cacheset src jopts jres copts cres nopts nres).

  Definition cs_ok (ws : list world) (c : CS) : Prop :=
    (forall p e, In (p, e) (cs_fs c) -> fe_usable e = true ->
       exists w, In w ws /\ w_modkey w p = MKOk (fe_key e) /\ w_read w p = RdOk (fe_contents e)) /\
    memo_ok src jopts jres jparse (cs_js c) /\
    memo_ok src copts cres cparse (cs_css c) /\
    memo_ok src nopts nres nparse (cs_json c).

  Lemma run_cached3_ok ws (Hs : ModKeySound ws) (b : B) :
    forall w c, In w ws -> cs_ok ws c ->
      fst (run_cached3 src jopts jres copts cres nopts nres R key_of src_eqb jequal cequal nequal jparse cparse nparse w c b)
        = run_fresh3 src jopts jres copts cres nopts nres R jparse cparse nparse w b /\
      cs_ok ws (snd (run_cached3 src jopts jres copts cres nopts nres R key_of src_eqb jequal cequal nequal jparse cparse nparse w c b)).
  Proof.
    induction b as [r | p k IH | s o k IH | s o k IH | s o k IH]; intros w c Hw (Hf & Hj & Hc & Hn).
    - simpl. split; [reflexivity | repeat split; assumption].
    - cbn [run_cached3 run_fresh3]. unfold FSCache_ReadFile.
      destruct (fs_hit (lookup p (cs_fs c)) (w_modkey w p)) as [x|] eqn:Hh.
      + apply fs_hit_Some in Hh as (en & L & Hu & Hk & Hx). apply lookup_In in L.
        destruct (Hf _ _ L Hu) as (w0 & Hw0 & Hk0 & Hr0).
        assert (E : w_read w p = RdOk x) by (subst x; eapply Hs; eauto).
        rewrite E. apply IH; [exact Hw | repeat split; assumption].
      + destruct (w_read w p) as [x|e] eqn:Hr.
        * apply IH; [exact Hw|]. split; [|repeat split; assumption]. cbn [cs_fs].
          intros p0 e0 [H|H] Hu; [|now apply Hf].
          inversion H; subst; clear H. simpl in *. exists w. split; [exact Hw|]. split; [|exact Hr].
          destruct (w_modkey w p0); simpl in *; try discriminate; reflexivity.
        * apply IH; [exact Hw | repeat split; assumption].
    - cbn [run_cached3 run_fresh3].
      pose proof (memo_parse_ok src jopts jres key_of src_eqb jequal jparse src_eqb_sound jequal_sound (cs_js c) s o Hj) as [H1 H2].
      destruct (memo_parse key_of src_eqb jequal jparse (cs_js c) s o) as [[x m] h]. simpl in H1, H2.
      rewrite <- H1. apply IH; [exact Hw | repeat split; assumption].
    - cbn [run_cached3 run_fresh3].
      pose proof (memo_parse_ok src copts cres key_of src_eqb cequal cparse src_eqb_sound cequal_sound (cs_css c) s o Hc) as [H1 H2].
      destruct (memo_parse key_of src_eqb cequal cparse (cs_css c) s o) as [[x m] h]. simpl in H1, H2.
      rewrite <- H1. apply IH; [exact Hw | repeat split; assumption].
    - cbn [run_cached3 run_fresh3].
      pose proof (memo_parse_ok src nopts nres key_of src_eqb nequal nparse src_eqb_sound nequal_sound (cs_json c) s o Hn) as [H1 H2].
      destruct (memo_parse key_of src_eqb nequal nparse (cs_json c) s o) as [[x m] h]. simpl in H1, H2.
      rewrite <- H1. apply IH; [exact Hw | repeat split; assumption].
  Qed.

  Lemma rebuilds3_eq_fresh ws (Hs : ModKeySound ws) (steps : list (world * B)) :
    forall c, cs_ok ws c -> (forall w b, In (w, b) steps -> In w ws) ->
      rebuilds3 src jopts jres copts cres nopts nres R key_of src_eqb jequal cequal nequal jparse cparse nparse c steps
      = map (fun wb => run_fresh3 src jopts jres copts cres nopts nres R jparse cparse nparse (fst wb) (snd wb)) steps.
  Proof.
    induction steps as [|[w b] r IH]; intros c Hc Hin; [reflexivity|].
    cbn [rebuilds3 map fst snd].
    pose proof (run_cached3_ok ws Hs b w c (Hin w b (or_introl eq_refl)) Hc) as [H1 H2].
    destruct (run_cached3 src jopts jres copts cres nopts nres R key_of src_eqb jequal cequal nequal jparse cparse nparse w c b) as [x c']. simpl in H1, H2.
    rewrite H1. f_equal. apply IH; [exact H2|]. intros w0 b0 H. eapply Hin. right. exact H.
  Qed.

  Lemma rebuild_eq_fresh_cacheset_all (steps : list (world * B)) :
    ModKeySound (map fst steps) ->
    rebuilds3 src jopts jres copts cres nopts nres R key_of src_eqb jequal cequal nequal jparse cparse nparse cs_empty steps
    = map (fun wb => run_fresh3 src jopts jres copts cres nopts nres R jparse cparse nparse (fst wb) (snd wb)) steps.
  Proof.
    intro Hs. eapply rebuilds3_eq_fresh; [exact Hs| |].
    - repeat split; intros ? ? [].
    - intros w b H. apply in_map_iff. exists (w, b). split; [reflexivity|exact H].
  Qed.

  (* the resolver's cached package.json / tsconfig.json read, on any cache
     state reached by earlier builds, answers what an uncached read answers:
     the parsed value of the file's current contents, or "unreadable" *)
  Lemma resolver_json_read_transparent_all ws (Hs : ModKeySound ws) (mk_src : path -> Z -> src)
        (p : path) (o : nopts) (k : option nres -> B) w c :
    In w ws -> cs_ok ws c ->
    fst (run_cached3 src jopts jres copts cres nopts nres R key_of src_eqb jequal cequal nequal jparse cparse nparse w c
           (read_json mk_src p o k))
    = run_fresh3 src jopts jres copts cres nopts nres R jparse cparse nparse w
        (k (match w_read w p with RdOk cts => Some (nparse (mk_src p cts) o) | RdErr _ => None end)).
  Proof.
    intros Hw Hc.
    rewrite (proj1 (run_cached3_ok ws Hs (read_json mk_src p o k) w c Hw Hc)).
    unfold read_json. cbn [run_fresh3]. destruct (w_read w p); reflexivity.
  Qed.
End CacheSetProofs.
