(* C09 non-vacuity: concrete values meeting the hypotheses of each theorem. *)
From V Require Import Common.Base C09.Cache C09.CacheProofs C09.Watch C09.WatchProofs C09.CacheSet C09.CacheSetProofs.

(* a history with a hit (same usable key), a miss after an edit that changed
   the key, and an unusable key: the hypothesis holds and the hit is real *)
Definition ex_hist : list access :=
  [ mkAccess 1 (MKOk [7;10;100;5;420;0]) (RdOk 11);
    mkAccess 1 (MKOk [7;10;100;5;420;0]) (RdOk 11);
    mkAccess 1 (MKOk [7;10;100;6;420;0]) (RdOk 12);
    mkAccess 2 MKUnusable (RdOk 20);
    mkAccess 2 MKUnusable (RdOk 21);
    mkAccess 3 (MKErr 2) (RdErr 2) ].
Example ex_hist_sound : ModKeySoundH ex_hist.
Proof.
  unfold ModKeySoundH, ex_hist; simpl; repeat split; intros b k x Hin Hp Hb Ha Hr; simpl in *;
    repeat (destruct Hin as [Hin|Hin]; [subst b; simpl in *; try discriminate; try congruence|]); try contradiction.
Qed.
Example ex_hist_obs : run_fs_obs [] ex_hist =
  [(RdOk 11, true); (RdOk 11, false); (RdOk 12, true); (RdOk 20, true); (RdOk 21, true); (RdErr 2, true)].
Proof. vm_compute. reflexivity. Qed.

(* the hypothesis of fscache_transparent is necessary: a same-key edit is served stale *)
Example ex_stale : run_fs [] [mkAccess 1 (MKOk [1]) (RdOk 5); mkAccess 1 (MKOk [1]) (RdOk 6)] = [RdOk 5; RdOk 5].
Proof. vm_compute. reflexivity. Qed.

(* memo: options = (a, b) where the parser reads only a and Equal compares only a *)
Definition ex_parse (s : Z) (o : Z * Z) : Z := s * 10 + fst o.
Definition ex_equal (o o' : Z * Z) : bool := fst o =? fst o'.
Example ex_equal_sound : forall s o o', ex_equal o o' = true -> ex_parse s o = ex_parse s o'.
Proof. intros s [a b] [a' b']; unfold ex_equal, ex_parse; simpl; intro H; apply Z.eqb_eq in H; now subst. Qed.
Example ex_memo_hits :
  run_memo_hits (fun s => s) Z.eqb ex_equal ex_parse [] [(1, (0, 0)); (1, (0, 5)); (1, (1, 5)); (2, (1, 5)); (1, (1, 5))]
  = [false; true; false; false; true].
Proof. vm_compute. reflexivity. Qed.

(* source indices *)
Example ex_si : run_si (mkSi [] 1) [10; 11; 10; 12; 11] = [1; 2; 1; 3; 2].
Proof. vm_compute. reflexivity. Qed.
Example ex_si_ok : si_ok (mkSi [] 1).
Proof. split; simpl; [intros k i []|intros k1 k2 i H; discriminate]. Qed.

(* a build program: read file 1; if readable parse it with options depending on file 2 *)
Definition ex_build : build Z (Z * Z) Z Z :=
  ReadFile 2 (fun cfg => ReadFile 1 (fun r =>
    match r with
    | RdOk c => Parse c (match cfg with RdOk j => (j, 0) | RdErr _ => (0, 0) end) (fun ast => Ret ast)
    | RdErr e => Ret (- e)
    end)).
Definition ex_w (c1 k1 c2 k2 : Z) : world :=
  mkWorld (fun p => if p =? 1 then MKOk [k1] else if p =? 2 then MKOk [k2] else MKErr 2)
          (fun p => if p =? 1 then RdOk c1 else if p =? 2 then RdOk c2 else RdErr 2).
Example ex_rebuilds :
  rebuilds (fun s => 1) Z.eqb ex_equal ex_parse ([], [])
    [(ex_w 5 1 0 1, ex_build); (ex_w 5 1 0 1, ex_build); (ex_w 6 2 0 1, ex_build); (ex_w 6 2 3 2, ex_build)]
  = [50; 50; 60; 63].
Proof. vm_compute. reflexivity. Qed.

(* watch: a log over a directory (1) and two files (2 present, 3 looked for and
   missing) that satisfies every hypothesis of watch_covers_observations with a
   world w' in which an unrelated entry was added: all predicates are clean *)
Definition ex_a : name := [97; 46; 106; 115].
Definition ex_b : name := [98; 46; 116; 115].
Definition ex_u : name := [117; 46; 109; 100].
Definition ex_ww (names : list name) : wworld :=
  mkWw (fun p => if p =? 1 then Some names else None)
       (fun p => if p =? 2 then RdOk 5 else RdErr 2)
       (fun p => if p =? 2 then MKOk [9; 9] else if p =? 1 then MKOk [1; 1] else MKErr 2)
       (fun p => p =? 2)
       (fun d n => if (d =? 1) && name_in n names then 2 else 0)
       (fun _ _ => false)
       (fun d n => if (d =? 1) && name_in n names then Some (if name_eqb n [97; 46; 106; 115] then 2 else 9) else None).
Definition ex_log : list obs := [OReadDir 1; OGet 1 ex_a; OGet 1 ex_b; OModKey 2; OReadFile 2; OModKey 3; OReadFile 3].
Example ex_watch_clean : clean (ex_ww [ex_a; ex_u]) (finalize (ex_ww [ex_a]) (record (ex_ww [ex_a]) ex_log)) = true.
Proof. vm_compute. reflexivity. Qed.
Example ex_watch_dirty_when_missing_file_appears :
  dirty_paths (ex_ww [ex_a; ex_b]) (finalize (ex_ww [ex_a]) (record (ex_ww [ex_a]) ex_log)) = [1].
Proof. vm_compute. reflexivity. Qed.
Example ex_watch_wf : forall o, In o ex_log -> wf_path (ex_ww [ex_a]) ex_log (obs_path o).
Proof.
  intros o H. unfold ex_log in H. simpl in H.
  repeat (destruct H as [H|H]; [subst o; cbn [obs_path];
    first [ left; eexists; split; [vm_compute; reflexivity|];
            let o' := fresh in let H' := fresh in intros o' H'; simpl in H';
            repeat (destruct H' as [H'|H']; [subst o'; left; reflexivity|]); contradiction
          | right; vm_compute; reflexivity ]|]).
  contradiction.
Qed.
Example ex_watch_file_hyps : forall p, p = 2 \/ p = 3 -> file_hyps (ex_ww [ex_a]) (ex_ww [ex_a; ex_u]) p.
Proof.
  intros p [H|H]; subst p; unfold file_hyps, coherent_at; cbn; repeat split; intros; try discriminate; try congruence; eauto.
Qed.
Example ex_watch_dir_coh : forall names p, dir_coh (ex_ww names) p.
Proof.
  intros names p H. unfold ex_ww in *. cbn in *. destruct (p =? 1) eqn:E; [|contradiction].
  apply Z.eqb_eq in E. subst p. cbn. split; [eexists; reflexivity|]. split; [intros e; discriminate|reflexivity].
Qed.

(* entry kinds: the build asks for the kind of a.js (a plain file, which it then
   reads); all kind hypotheses hold in both worlds and the theorem's conclusion
   is checked by computation *)
Definition ex_child (d : path) (n : name) : path := if name_eqb n ex_a then 2 else 9.
Definition ex_log_k : list obs := [OReadDir 1; OGet 1 ex_a; OKind 1 ex_a; OModKey 2; OReadFile 2].
Ltac kind_hyps_plain_file :=
  unfold kind_hyps;
  split; [vm_compute; split; [intros _; exists 2; split; reflexivity | reflexivity]|];
  split; [vm_compute; split; [discriminate |
            let t := fresh in let E := fresh in let N := fresh in
            intros (t & E & N); inversion E; subst; vm_compute in N; exfalso; apply N; reflexivity]|];
  split; [vm_compute; right; right; reflexivity|];
  split; [intros _; split; [let n0 := fresh in let E := fresh in
                             intros n0 E; vm_compute in E; inversion E; subst; vm_compute; split; intro; [reflexivity | discriminate]|];
                    split; [let E := fresh in intro E; vm_compute in E; discriminate|];
                    split; [intros _; vm_compute; reflexivity | let E := fresh in intro E; vm_compute in E; discriminate]
         | let E := fresh in intro E; vm_compute in E; discriminate].
Example ex_kind_hyps : kind_hyps ex_child (ex_ww [ex_a]) 1 ex_a.
Proof. kind_hyps_plain_file. Qed.
Example ex_kind_hyps' : kind_hyps ex_child (ex_ww [ex_a; ex_u]) 1 ex_a.
Proof. kind_hyps_plain_file. Qed.
Example ex_kind_companions : kind_companions ex_child ex_log_k (ex_ww [ex_a]) 1 ex_a.
Proof.
  unfold kind_companions. split; [right; left; reflexivity|].
  split; [intros _; exists 2; split; [reflexivity | do 4 right; left; reflexivity] | intro H; vm_compute in H; discriminate].
Qed.
Example ex_kind_all_same :
  clean (ex_ww [ex_a; ex_u]) (finalize (ex_ww [ex_a]) (record (ex_ww [ex_a]) ex_log_k)) = true /\
  all_same (ex_ww [ex_a]) (ex_ww [ex_a; ex_u]) ex_log_k = true.
Proof. split; vm_compute; reflexivity. Qed.

(* a symlink entry: the world of the former finding G (link.js -> file 5)
   meets the symlink clause of kind_hyps, and on an unchanged world everything is clean *)
Example ex_kind_hyps_symlink : kind_hyps (fun _ _ => 99) (g_world 5) 1 g_link.
Proof.
  unfold kind_hyps.
  split; [vm_compute; split; [intros _; exists 5; split; reflexivity | reflexivity]|].
  split; [vm_compute; split; [discriminate | intros (t & E & N); inversion E; subst; vm_compute in N; exfalso; apply N; reflexivity]|].
  split; [vm_compute; right; right; reflexivity|].
  split; [intro E; vm_compute in E; discriminate|].
  intros _. split; [vm_compute; discriminate|]. split; [vm_compute; discriminate|]. intros _. vm_compute. discriminate.
Qed.
Example ex_symlink_clean_when_unchanged :
  clean (g_world 5) (finalize (g_world 5) (record (g_world 5) g_log)) = true /\ all_same (g_world 5) (g_world 5) g_log = true.
Proof. split; vm_compute; reflexivity. Qed.

(* the whole cache set: a build that reads package.json through the resolver's
   cached read, then parses a JS file with an option taken from it and a CSS file *)
Definition ex_b3 : build3 (Z * Z) Z Z Z Z Z Z Z :=
  read_json (fun p c => (p, c)) 2 0 (fun cfg =>
    ReadFile3 1 (fun r => match r with
      | RdOk c => ParseJS (1, c) (match cfg with Some j => j | None => 0 end) (fun a =>
                  ParseCSS (3, 7) 0 (fun s => Ret3 (a + s)))
      | RdErr e => Ret3 (- e) end)).
Definition ex_p3 (s : Z * Z) (o : Z) : Z := snd s * 10 + o.
Example ex_rebuilds3 :
  rebuilds3 (Z * Z) Z Z Z Z Z Z Z fst (fun a b => (fst a =? fst b) && (snd a =? snd b)) Z.eqb Z.eqb Z.eqb ex_p3 ex_p3 (fun s _ => snd s)
    cs_empty [(ex_w 5 1 2 1, ex_b3); (ex_w 5 1 2 1, ex_b3); (ex_w 6 2 2 1, ex_b3); (ex_w 6 2 3 2, ex_b3)]
  = [122; 122; 132; 133].
Proof. vm_compute. reflexivity. Qed.
