(* C09 model, part 1: the cache set owned by a build context.
   Mirrors /repo/internal/cache/cache_fs.go   FSCache.ReadFile
           /repo/internal/cache/cache_ast.go  JSCache.Parse, CSSCache.Parse, JSONCache.Parse
           /repo/internal/cache/cache.go      SourceIndexCache.Get
   Executable definitions only (no proofs).

   Modelling notes (trusted-base relevant):
   * Go maps keyed by path are association lists, newest binding first;
     [lookup] returns the newest binding, which is what map overwrite gives.
   * Paths, contents, error values and source-file identities are integers
     (identifiers); a ModKey (a Go struct of six integers compared with ==) is a
     list of integers compared element-wise.
   * What the file system answers is an input of every step (the answer of
     fs.ModKey and of fs.ReadFile at that moment); a "world" packages the
     answers for every path.
   * The three AST caches have the same shape: look the entry up by
     source.KeyPath; hit iff entry.source == source (Go struct equality) and
     the option comparison says equal; otherwise parse and overwrite.  They are
     one generic definition [memo_parse], parametrised by the comparison and
     the parser.  Log messages are part of the parse result.
   * The mutexes only protect the maps; a lookup and the later store are two
     critical sections, so concurrent parses of one path are last-writer-wins.
     Every stored entry is individually valid, which is all the invariants of
     CacheProofs.v use; scheduling is not modelled. *)
From V Require Import Common.Base.

Definition path := Z.

(* answer of fs.ModKey(path): (key, nil) | (_, modKeyUnusable) | (_, other error) *)
Inductive mkres := MKOk (k : list Z) | MKUnusable | MKErr (e : Z).
(* answer of fs.ReadFile(path): (contents, nil) | ("", err) *)
Inductive rdres := RdOk (c : Z) | RdErr (e : Z).

Definition rdres_eqb (a b : rdres) : bool :=
  match a, b with
  | RdOk x, RdOk y => x =? y
  | RdErr x, RdErr y => x =? y
  | _, _ => false
  end.

Fixpoint lookup {A} (p : Z) (l : list (Z * A)) : option A :=
  match l with
  | [] => None
  | (q, a) :: r => if q =? p then Some a else lookup p r
  end.

(* ---------- FSCache ---------- *)

Record fsEntry := mkFsEntry { fe_contents : Z; fe_key : list Z; fe_usable : bool }.
Definition fscache := list (path * fsEntry).

Definition mk_key (mk : mkres) : list Z := match mk with MKOk k => k | _ => [] end.
Definition mk_isok (mk : mkres) : bool := match mk with MKOk _ => true | _ => false end.

(* entry != nil && entry.isModKeyUsable && modKeyErr == nil && entry.modKey == modKey *)
Definition fs_hit (e : option fsEntry) (mk : mkres) : option Z :=
  match e, mk with
  | Some e, MKOk k => if fe_usable e && zlist_eqb (fe_key e) k then Some (fe_contents e) else None
  | _, _ => None
  end.

(* FSCache.ReadFile: result, new cache, whether fs.ReadFile was called *)
Definition FSCache_ReadFile (c : fscache) (p : path) (mk : mkres) (rd : rdres) : rdres * fscache * bool :=
  match fs_hit (lookup p c) mk with
  | Some x => (RdOk x, c, false)
  | None =>
      match rd with
      | RdErr e => (RdErr e, c, true)
      | RdOk x => (RdOk x, (p, mkFsEntry x (mk_key mk) (mk_isok mk)) :: c, true)
      end
  end.

(* one access: the path and what the file system answers at that moment *)
Record access := mkAccess { a_path : path; a_mk : mkres; a_rd : rdres }.

Fixpoint run_fs (c : fscache) (h : list access) : list rdres :=
  match h with
  | [] => []
  | a :: r =>
      let '(res, c', _) := FSCache_ReadFile c (a_path a) (a_mk a) (a_rd a) in
      res :: run_fs c' r
  end.

(* same, also reporting whether the underlying ReadFile was called *)
Fixpoint run_fs_obs (c : fscache) (h : list access) : list (rdres * bool) :=
  match h with
  | [] => []
  | a :: r =>
      let '(res, c', called) := FSCache_ReadFile c (a_path a) (a_mk a) (a_rd a) in
      (res, called) :: run_fs_obs c' r
  end.

(* ---------- JSCache / CSSCache / JSONCache ---------- *)

Section Memo.
  Variables src opts res : Type.
  Variable key_of : src -> Z.                 (* source.KeyPath *)
  Variable src_eqb : src -> src -> bool.      (* entry.source == source *)
  Variable opt_equal : opts -> opts -> bool.  (* entry.options.Equal(&options), or == for JSON *)
  Variable parse : src -> opts -> res.        (* js_parser.Parse etc. with the messages it logs *)

  Record mentry := mkMentry { me_src : src; me_opts : opts; me_res : res }.
  Definition memo := list (Z * mentry).

  (* result, new table, hit? *)
  Definition memo_parse (m : memo) (s : src) (o : opts) : res * memo * bool :=
    match lookup (key_of s) m with
    | Some e =>
        if src_eqb (me_src e) s && opt_equal (me_opts e) o then (me_res e, m, true)
        else let r := parse s o in (r, (key_of s, mkMentry s o r) :: m, false)
    | None => let r := parse s o in (r, (key_of s, mkMentry s o r) :: m, false)
    end.

  Fixpoint run_memo (m : memo) (calls : list (src * opts)) : list res :=
    match calls with
    | [] => []
    | (s, o) :: r => let '(x, m', _) := memo_parse m s o in x :: run_memo m' r
    end.

  Fixpoint run_memo_hits (m : memo) (calls : list (src * opts)) : list bool :=
    match calls with
    | [] => []
    | (s, o) :: r => let '(_, m', h) := memo_parse m s o in h :: run_memo_hits m' r
    end.
End Memo.

Arguments mkMentry {src opts res}.
Arguments me_src {src opts res}.
Arguments me_opts {src opts res}.
Arguments me_res {src opts res}.
Arguments memo_parse {src opts res}.
Arguments run_memo {src opts res}.
Arguments run_memo_hits {src opts res}.

(* ---------- SourceIndexCache.Get ---------- *)

Record sicache := mkSi { si_entries : list (Z * Z); si_next : Z }.

Definition SourceIndex_Get (c : sicache) (key : Z) : Z * sicache :=
  match lookup key (si_entries c) with
  | Some i => (i, c)
  | None => (si_next c, mkSi ((key, si_next c) :: si_entries c) (si_next c + 1))
  end.

Fixpoint run_si (c : sicache) (keys : list Z) : list Z :=
  match keys with
  | [] => []
  | k :: r => let '(i, c') := SourceIndex_Get c k in i :: run_si c' r
  end.

(* ---------- builds against an observation interface ---------- *)

(* A build is any program that observes the world only through the cache
   set: file contents through FSCache.ReadFile, parse results through the AST
   cache.  (Directory listings are not cached across builds: the real FS object
   is created per build; they are the subject of Watch.v.) *)
Section Build.
  Variables src opts res R : Type.

  Inductive build : Type :=
  | Ret (r : R)
  | ReadFile (p : path) (k : rdres -> build)
  | Parse (s : src) (o : opts) (k : res -> build).

  Record world := mkWorld { w_modkey : path -> mkres; w_read : path -> rdres }.

  Variable key_of : src -> Z.
  Variable src_eqb : src -> src -> bool.
  Variable opt_equal : opts -> opts -> bool.
  Variable parse : src -> opts -> res.

  (* a build from scratch: every observation goes to the world / the parser *)
  Fixpoint run_fresh (w : world) (b : build) : R :=
    match b with
    | Ret r => r
    | ReadFile p k => run_fresh w (k (w_read w p))
    | Parse s o k => run_fresh w (k (parse s o))
    end.

  Definition caches := (fscache * memo src opts res)%type.

  (* the same program run against the context's cache set *)
  Fixpoint run_cached (w : world) (c : caches) (b : build) : R * caches :=
    match b with
    | Ret r => (r, c)
    | ReadFile p k =>
        let '(x, fc, _) := FSCache_ReadFile (fst c) p (w_modkey w p) (w_read w p) in
        run_cached w (fc, snd c) (k x)
    | Parse s o k =>
        let '(x, m, _) := memo_parse key_of src_eqb opt_equal parse (snd c) s o in
        run_cached w (fst c, m) (k x)
    end.

  (* a context: rebuild after every edit; each step has the world after the
     edit and the build program of that step (options may change the program) *)
  Fixpoint rebuilds (c : caches) (steps : list (world * build)) : list R :=
    match steps with
    | [] => []
    | (w, b) :: r => let '(x, c') := run_cached w c b in x :: rebuilds c' r
    end.
End Build.

Arguments Ret {src opts res R}.
Arguments ReadFile {src opts res R}.
Arguments Parse {src opts res R}.
Arguments run_fresh {src opts res R}.
Arguments run_cached {src opts res R}.
Arguments rebuilds {src opts res R}.
