(* C09 proofs about the watch data (Watch.v): if every watch predicate of a
   build is clean on a later file system, every observation the build made
   answers the same there. *)
From V Require Import Common.Base C09.Cache C09.CacheProofs C09.Watch.

(* ---------- per-path view of the recorder ---------- *)

Definition vstate := (option wdata * option (option (list name)))%type.
Definition view (p : path) (f : wfs) : vstate := (lookup p (wf_data f), lookup p (wf_dirs f)).

Definition set_acc (r : option wdata) (g : accessed -> accessed) : option wdata :=
  match r with
  | Some r0 =>
      match wd_acc r0 with
      | Some a => Some (mkWd (Some (g a)) (wd_contents r0) (wd_key r0) (wd_state r0))
      | None => r
      end
  | None => r
  end.

(* the recorder restricted to one path *)
Definition vstep (w : wworld) (p : path) (v : vstate) (o : obs) : vstate :=
  let '(r, d) := v in
  match o with
  | OReadDir _ =>
      match d with
      | Some _ => v
      | None =>
          let ans := ww_readdir w p in
          (Some (mkWd (Some (mkAcc [] None [])) 0 []
                   (match ans with Some _ => SDirHasAccessedEntries | None => SDirUnreadable end)), Some ans)
      end
  | OGet _ n =>
      match d with
      | Some (Some names) =>
          (set_acc r (fun a => mkAcc ((lower n, name_in (lower n) (map lower names)) :: ac_present a) (ac_all a) (ac_links a)), d)
      | _ => v
      end
  | OSortedKeys _ =>
      match d with
      | Some (Some names) => (set_acc r (fun a => mkAcc (ac_present a) (Some (sort_names names)) (ac_links a)), d)
      | _ => v
      end
  | OReadFile _ =>
      let ans := ww_read w p in
      let r0 := match r with Some r0 => r0 | None => wd_zero end in
      let st := match ans with
                | RdErr _ => match r with
                             | None => SFileMissing
                             | Some _ => match wd_state r0 with SDirHasAccessedEntries => SDirHasAccessedEntries | _ => SFileMissing end
                             end
                | RdOk _ => match r with
                            | None => SFileNeedModKey
                            | Some _ => match wd_state r0 with SDirUnreadable => SFileNeedModKey | s => s end
                            end
                end in
      (Some (mkWd (wd_acc r0) (match ans with RdOk c => c | RdErr _ => 0 end) (wd_key r0) st), d)
  | OModKey _ =>
      let ans := ww_modkey w p in
      match r with
      | None => (Some (mkWd None 0 (mk_key ans)
                         (match ans with MKUnusable => SFileUnusableModKey | MKErr _ => SFileMissing | MKOk _ => SFileHasModKey end)), d)
      | Some r0 => (Some (mkWd (wd_acc r0) (wd_contents r0) (mk_key ans)
                            (match wd_state r0 with SFileNeedModKey => SFileHasModKey | s => s end)), d)
      end
  | OKind _ n =>
      if ww_islink w p n
      then (set_acc r (fun a => mkAcc (ac_present a) (ac_all a) ((n, ww_eval w p n) :: ac_links a)), d)
      else v
  end.

Lemma lookup_cons_eq {A} p (x : A) l : lookup p ((p, x) :: l) = Some x.
Proof. simpl. now rewrite Z.eqb_refl. Qed.

Lemma view_step_same w f o : view (obs_path o) (step_obs w f o) = vstep w (obs_path o) (view (obs_path o) f) o.
Proof.
  unfold view. destruct o as [d|d n|d|p|p|d n]; cbn [obs_path step_obs vstep].
  - unfold op_readdir. destruct (lookup d (wf_dirs f)) as [x|] eqn:E; [now rewrite E|].
    cbn [wf_data wf_dirs]. now rewrite !lookup_cons_eq.
  - unfold op_get. destruct (lookup d (wf_dirs f)) as [[names|]|] eqn:E; try (now rewrite E).
    unfold upd_acc, set_acc. destruct (lookup d (wf_data f)) as [r|] eqn:R; [|now rewrite R, E].
    destruct (wd_acc r) as [a|]; [|now rewrite R, E]. cbn [wf_data wf_dirs]. now rewrite lookup_cons_eq, E.
  - unfold op_sortedkeys. destruct (lookup d (wf_dirs f)) as [[names|]|] eqn:E; try (now rewrite E).
    unfold upd_acc, set_acc. destruct (lookup d (wf_data f)) as [r|] eqn:R; [|now rewrite R, E].
    destruct (wd_acc r) as [a|]; [|now rewrite R, E]. cbn [wf_data wf_dirs]. now rewrite lookup_cons_eq, E.
  - unfold op_readfile. destruct (lookup p (wf_data f)) as [r|]; cbn [wf_data wf_dirs negb]; rewrite lookup_cons_eq; reflexivity.
  - unfold op_modkey. destruct (lookup p (wf_data f)) as [r|]; cbn [wf_data wf_dirs]; rewrite lookup_cons_eq; reflexivity.
  - unfold op_kind. destruct (ww_islink w d n); [|reflexivity].
    unfold upd_acc, set_acc. destruct (lookup d (wf_data f)) as [r|] eqn:R; [|now rewrite R].
    destruct (wd_acc r) as [a|]; [|now rewrite R]. cbn [wf_data wf_dirs]. now rewrite lookup_cons_eq.
Qed.

Lemma view_step_other w f o p : obs_path o <> p -> view p (step_obs w f o) = view p f.
Proof.
  intro Hne. unfold view.
  assert (L : forall A (x : A) l, lookup p ((obs_path o, x) :: l) = lookup p l)
    by (intros; now apply lookup_cons_ne).
  destruct o as [d|d n|d|q|q|d n]; cbn [obs_path step_obs] in *.
  - unfold op_readdir. destruct (lookup d (wf_dirs f)); [reflexivity|]. cbn [wf_data wf_dirs]. now rewrite !L.
  - unfold op_get. destruct (lookup d (wf_dirs f)) as [[names|]|]; try reflexivity.
    unfold upd_acc. destruct (lookup d (wf_data f)) as [r|]; [|reflexivity].
    destruct (wd_acc r); [|reflexivity]. cbn [wf_data wf_dirs]. now rewrite L.
  - unfold op_sortedkeys. destruct (lookup d (wf_dirs f)) as [[names|]|]; try reflexivity.
    unfold upd_acc. destruct (lookup d (wf_data f)) as [r|]; [|reflexivity].
    destruct (wd_acc r); [|reflexivity]. cbn [wf_data wf_dirs]. now rewrite L.
  - unfold op_readfile. destruct (lookup q (wf_data f)); cbn [wf_data wf_dirs]; now rewrite L.
  - unfold op_modkey. destruct (lookup q (wf_data f)); cbn [wf_data wf_dirs]; now rewrite L.
  - unfold op_kind. destruct (ww_islink w d n); [|reflexivity].
    unfold upd_acc. destruct (lookup d (wf_data f)) as [r|]; [|reflexivity].
    destruct (wd_acc r); [|reflexivity]. cbn [wf_data wf_dirs]. now rewrite L.
Qed.

Definition proj (p : path) (log : list obs) : list obs := filter (fun o => obs_path o =? p) log.

Lemma view_fold w p log : forall f,
  view p (fold_left (step_obs w) log f) = fold_left (vstep w p) (proj p log) (view p f).
Proof.
  induction log as [|o log IH]; intro f; [reflexivity|].
  cbn [fold_left proj filter]. rewrite IH. fold (proj p log).
  destruct (obs_path o =? p) eqn:E.
  - apply Z.eqb_eq in E. cbn [fold_left]. subst p. now rewrite view_step_same.
  - apply Z.eqb_neq in E. now rewrite view_step_other.
Qed.

Lemma view_record w p log : view p (record w log) = fold_left (vstep w p) (proj p log) (None, None).
Proof. unfold record. now rewrite view_fold. Qed.

(* ---------- clean means: every newest record's predicate is false ---------- *)

Lemma newest_complete {A} (l : list (Z * A)) : forall seen p a,
  lookup p l = Some a -> existsb (Z.eqb p) seen = false -> In (p, a) (newest l seen).
Proof.
  induction l as [|[q b] l IH]; intros seen p a L Hs; [discriminate|].
  simpl in L. cbn [newest]. destruct (q =? p) eqn:E.
  - apply Z.eqb_eq in E. subst q. inversion L; subst. rewrite Hs. now left.
  - destruct (existsb (Z.eqb q) seen) eqn:S.
    + now apply IH.
    + right. apply IH; [exact L|]. simpl. rewrite Hs. rewrite Z.eqb_sym in E. now rewrite E.
Qed.

Lemma clean_spec w w' f p r :
  clean w' (finalize w f) = true -> lookup p (wf_data f) = Some r ->
  dirty1 w' p (finalize1 w p r) = false.
Proof.
  unfold clean, dirty_paths. intros Hc L.
  destruct (dirty1 w' p (finalize1 w p r)) eqn:D; [exfalso|reflexivity].
  assert (Hin : In (p, finalize1 w p r) (finalize w f)).
  { unfold finalize. apply in_map_iff. exists (p, r). split; [reflexivity|].
    apply newest_complete; [exact L|reflexivity]. }
  assert (Hf : In (p, finalize1 w p r) (filter (fun pr => dirty1 w' (fst pr) (snd pr)) (finalize w f))).
  { apply filter_In. split; [exact Hin|exact D]. }
  apply (in_map fst) in Hf. destruct (map fst _); [contradiction|discriminate].
Qed.

(* ---------- names ---------- *)

Lemma name_eqb_eq a b : name_eqb a b = true <-> a = b.
Proof. apply zlist_eqb_eq. Qed.

Lemma name_in_In n l : name_in n l = true <-> In n l.
Proof.
  unfold name_in. rewrite existsb_exists. split.
  - intros (x & Hx & E). apply name_eqb_eq in E. now subst.
  - intro H. exists n. split; [exact H|now apply name_eqb_eq].
Qed.

Lemma names_eqb_eq a b : names_eqb a b = true <-> a = b.
Proof. apply list_eqb_eq. intros; apply zlist_eqb_eq. Qed.

Lemma insert_sorted_In x n l : In x (insert_sorted n l) <-> x = n \/ In x l.
Proof.
  induction l as [|y l IH]; simpl.
  - intuition congruence.
  - destruct (name_ltb y n); simpl; rewrite ?IH; intuition congruence.
Qed.

Lemma sort_names_In x l : In x (sort_names l) <-> In x l.
Proof.
  induction l as [|y l IH]; simpl; [tauto|].
  unfold sort_names in *. simpl. rewrite insert_sorted_In, IH. intuition congruence.
Qed.

(* equal sorted listings have the same lower-cased members *)
Lemma same_sorted_same_members a b n :
  sort_names a = sort_names b -> name_in n (map lower a) = name_in n (map lower b).
Proof.
  intro E.
  assert (M : forall x, In x a <-> In x b) by (intro x; rewrite <- (sort_names_In x a), <- (sort_names_In x b), E; tauto).
  destruct (name_in n (map lower b)) eqn:B.
  - apply name_in_In in B. apply in_map_iff in B as (x & Hx & Hin). apply name_in_In. apply in_map_iff.
    exists x. split; [exact Hx|now apply M].
  - destruct (name_in n (map lower a)) eqn:A; [|reflexivity].
    apply name_in_In in A. apply in_map_iff in A as (x & Hx & Hin).
    assert (C : name_in n (map lower b) = true) by (apply name_in_In; apply in_map_iff; exists x; split; [exact Hx|now apply M]).
    congruence.
Qed.

Lemma present_map_complete l : forall seen k b,
  In (k, b) l -> name_in k seen = false -> exists b', In (k, b') (present_map l seen).
Proof.
  induction l as [|[k0 b0] l IH]; intros seen k b Hin Hs; [contradiction|].
  cbn [present_map]. destruct Hin as [H|H].
  - inversion H; subst. rewrite Hs. exists b. now left.
  - destruct (name_in k0 seen) eqn:S.
    + now apply (IH seen k b).
    + destruct (name_eqb k k0) eqn:E.
      * apply name_eqb_eq in E. subst. exists b0. now left.
      * destruct (IH (k0 :: seen) k b H) as (b' & Hb').
        { unfold name_in in *. simpl. rewrite E. exact Hs. }
        exists b'. now right.
Qed.

Lemma present_map_sub l : forall seen x, In x (present_map l seen) -> In x l.
Proof.
  induction l as [|[k0 b0] l IH]; intros seen x H; [contradiction|].
  cbn [present_map] in H. destruct (name_in k0 seen).
  - right. eapply IH; eauto.
  - destruct H as [H|H]; [now left|right; eapply IH; eauto].
Qed.

(* ---------- answers ---------- *)

Lemma answer_eqb_refl a : answer_eqb a a = true.
Proof.
  destruct a as [b|[b|]|[l|]|[c|]|b|k [t|]]; simpl; try reflexivity.
  - now destruct b.
  - now destruct b.
  - now apply names_eqb_eq.
  - apply Z.eqb_refl.
  - now destruct b.
  - now rewrite !Z.eqb_refl.
  - now rewrite Z.eqb_refl.
Qed.

Definition is_dir_op (o : obs) : bool :=
  match o with OReadDir _ | OGet _ _ | OSortedKeys _ | OKind _ _ => true | _ => false end.

Definition is_kind_op (o : obs) : bool := match o with OKind _ _ => true | _ => false end.

Definition is_file_op (o : obs) : bool :=
  match o with OReadFile _ | OModKey _ => true | _ => false end.

Lemma link_map_complete l : forall seen k b,
  In (k, b) l -> name_in k seen = false -> exists b', In (k, b') (link_map l seen).
Proof.
  induction l as [|[k0 b0] l IH]; intros seen k b Hin Hs; [contradiction|].
  cbn [link_map]. destruct Hin as [H|H].
  - inversion H; subst. rewrite Hs. exists b. now left.
  - destruct (name_in k0 seen) eqn:S.
    + now apply (IH seen k b).
    + destruct (name_eqb k k0) eqn:E.
      * apply name_eqb_eq in E. subst. exists b0. now left.
      * destruct (IH (k0 :: seen) k b H) as (b' & Hb').
        { unfold name_in in *. simpl. rewrite E. exact Hs. }
        exists b'. now right.
Qed.

Lemma link_map_sub l : forall seen x, In x (link_map l seen) -> In x l.
Proof.
  induction l as [|[k0 b0] l IH]; intros seen x H; [contradiction|].
  cbn [link_map] in H. destruct (name_in k0 seen).
  - right. eapply IH; eauto.
  - destruct H as [H|H]; [now left|right; eapply IH; eauto].
Qed.

(* a listable directory cannot be read as a file and is not a regular file, but stat succeeds on it *)
Definition dir_coh (w : wworld) (p : path) : Prop :=
  ww_readdir w p <> None ->
  (exists e, ww_read w p = RdErr e) /\ (forall e, ww_modkey w p <> MKErr e) /\ ww_isfile w p = false.

(* ---------- one directory ---------- *)
Section Dir.
  Variables (w w' : wworld) (p : path).
  Hypothesis Hdc : dir_coh w p.
  Hypothesis Hdc' : dir_coh w' p.

  Definition dir_state (ans : option (list name)) : wstate :=
    match ans with Some _ => SDirHasAccessedEntries | None => SDirUnreadable end.

  (* which observations may follow the first ReadDirectory of the path: the
     directory observations, and - when the path really is a listable
     directory - also reads of the same path as a file (they fail, and since
     the fix for finding F they leave the directory record in place) *)
  Definition dir_step_ok (o : obs) : Prop :=
    is_dir_op o = true \/ (is_file_op o = true /\ ww_readdir w p <> None).

  (* invariant of the view of a directory path after its first ReadDirectory,
     relative to the observations processed so far *)
  Definition dir_inv (v : vstate) (done : list obs) : Prop :=
    exists r a,
      v = (Some r, Some (ww_readdir w p)) /\ wd_acc r = Some a /\ wd_state r = dir_state (ww_readdir w p) /\
      (forall k b names, In (k, b) (ac_present a) -> ww_readdir w p = Some names -> b = name_in k (map lower names)) /\
      (forall l names, ac_all a = Some l -> ww_readdir w p = Some names -> l = sort_names names) /\
      (forall d n names, In (OGet d n) done -> ww_readdir w p = Some names -> exists b, In (lower n, b) (ac_present a)) /\
      (forall d names, In (OSortedKeys d) done -> ww_readdir w p = Some names -> ac_all a <> None) /\
      (forall n ev, In (n, ev) (ac_links a) -> ev = ww_eval w p n) /\
      (forall d n, In (OKind d n) done -> ww_islink w p n = true -> exists ev, In (n, ev) (ac_links a)).

  Ltac keep_done Hin :=
    let H := fresh in
    apply in_app_or in Hin as [H|[H|[]]]; [eauto | try discriminate].

  Lemma dir_inv_step v done o :
    dir_step_ok o -> dir_inv v done -> dir_inv (vstep w p v o) (done ++ [o]).
  Proof.
    intros Hd (r & a & Hv & Hacc & Hst & Hp & Ha & Hg & Hs & Hl & Hk). subst v.
    destruct o as [d|d n|d|q|q|d n]; cbn [vstep]; unfold dir_inv.
    - (* ReadDirectory again: cached *)
      exists r, a. repeat split; auto.
      + intros d0 n names Hin. keep_done Hin.
      + intros d0 names Hin. keep_done Hin.
      + intros d0 n Hin. keep_done Hin.
    - (* Get *)
      destruct (ww_readdir w p) as [names|] eqn:R.
      + unfold set_acc. rewrite Hacc.
        eexists. exists (mkAcc ((lower n, name_in (lower n) (map lower names)) :: ac_present a) (ac_all a) (ac_links a)).
        split; [reflexivity|]. cbn [wd_acc wd_state ac_present ac_all ac_links]. repeat split; auto.
        * intros k b names0 [H|H] E; [inversion H; inversion E; subst; reflexivity | eauto].
        * intros d0 n0 names0 Hin E. apply in_app_or in Hin as [Hin|[Hin|[]]].
          -- destruct (Hg d0 n0 names0 Hin E) as (b & Hb). exists b. now right.
          -- inversion Hin; subst. eexists. now left.
        * intros d0 names0 Hin E. keep_done Hin.
        * intros d0 n0 Hin. keep_done Hin.
      + exists r, a. repeat split; auto; try (intros; discriminate).
        intros d0 n0 Hin. keep_done Hin.
    - (* SortedKeys *)
      destruct (ww_readdir w p) as [names|] eqn:R.
      + unfold set_acc. rewrite Hacc.
        eexists. exists (mkAcc (ac_present a) (Some (sort_names names)) (ac_links a)).
        split; [reflexivity|]. cbn [wd_acc wd_state ac_present ac_all ac_links]. repeat split; auto.
        * intros l names0 E1 E2. inversion E1; inversion E2; subst; reflexivity.
        * intros d0 n0 names0 Hin E. keep_done Hin.
        * intros; discriminate.
        * intros d0 n0 Hin. keep_done Hin.
      + exists r, a. repeat split; auto; try (intros; discriminate).
        intros d0 n0 Hin. keep_done Hin.
    - (* ReadFile on a listable directory: fails, the directory record stays *)
      destruct Hd as [Hd|[_ Hne]]; [discriminate|].
      destruct (Hdc Hne) as ((e & He) & _). rewrite He.
      destruct (ww_readdir w p) as [names|] eqn:R; [|contradiction].
      cbn [dir_state] in Hst. rewrite Hst.
      eexists. exists a. split; [reflexivity|]. cbn [wd_acc wd_state]. repeat split; auto.
      + intros d0 n names0 Hin. keep_done Hin.
      + intros d0 names0 Hin. keep_done Hin.
      + intros d0 n Hin. keep_done Hin.
    - (* ModKey on a listable directory *)
      destruct Hd as [Hd|[_ Hne]]; [discriminate|].
      destruct (ww_readdir w p) as [names|] eqn:R; [|contradiction].
      cbn [dir_state] in Hst. rewrite Hst.
      eexists. exists a. split; [reflexivity|]. cbn [wd_acc wd_state]. repeat split; auto.
      + intros d0 n names0 Hin. keep_done Hin.
      + intros d0 names0 Hin. keep_done Hin.
      + intros d0 n Hin. keep_done Hin.
    - (* Entry.Kind: a symlink's target is remembered *)
      destruct (ww_islink w p n) eqn:L.
      + unfold set_acc. rewrite Hacc.
        eexists. exists (mkAcc (ac_present a) (ac_all a) ((n, ww_eval w p n) :: ac_links a)).
        split; [reflexivity|]. cbn [wd_acc wd_state ac_present ac_all ac_links]. repeat split; auto.
        * intros d0 n0 names0 Hin E. keep_done Hin.
        * intros d0 names0 Hin E. keep_done Hin.
        * intros n0 ev [H|H]; [inversion H; subst; reflexivity | eauto].
        * intros d0 n0 Hin L0. apply in_app_or in Hin as [Hin|[Hin|[]]].
          -- destruct (Hk d0 n0 Hin L0) as (ev & Hev). exists ev. now right.
          -- inversion Hin; subst. eexists. now left.
      + exists r, a. repeat split; auto.
        * intros d0 n0 names0 Hin E. keep_done Hin.
        * intros d0 names0 Hin E. keep_done Hin.
        * intros d0 n0 Hin L0. apply in_app_or in Hin as [Hin|[Hin|[]]]; [eauto|].
          inversion Hin; subst. congruence.
  Qed.

  Lemma dir_inv_fold ops : forall v done,
    (forall o, In o ops -> dir_step_ok o) -> dir_inv v done -> dir_inv (fold_left (vstep w p) ops v) (done ++ ops).
  Proof.
    induction ops as [|o ops IH]; intros v done Hd Hi; [now rewrite app_nil_r|].
    cbn [fold_left].
    replace (done ++ o :: ops) with ((done ++ [o]) ++ ops) by (rewrite <- app_assoc; reflexivity).
    apply IH; [intros o' H; apply Hd; now right|]. apply dir_inv_step; [apply Hd; now left|exact Hi].
  Qed.

  Lemma dir_inv_start : dir_inv (vstep w p (None, None) (OReadDir p)) [OReadDir p].
  Proof.
    cbn [vstep]. eexists. exists (mkAcc [] None []). split; [reflexivity|]. cbn [wd_acc wd_state ac_present ac_all ac_links].
    repeat split; try (intros; contradiction); try (intros; discriminate).
    - intros d n names [H|[]]; discriminate.
    - intros d names [H|[]]; discriminate.
    - intros d n [H|[]]; discriminate.
  Qed.

  (* the directory, per-name, listing and same-path file observations are covered by the record *)
  Lemma dir_covered v done r :
    dir_inv v done -> fst v = Some r -> dirty1 w' p (finalize1 w p r) = false ->
    forall o, In o done -> obs_path o = p -> dir_step_ok o -> is_kind_op o = false -> answer_of w o = answer_of w' o.
  Proof.
    intros (r0 & a & Hv & Hacc & Hst & Hp & Ha & Hg & Hs & Hl & Hk) Hr Hc o Hin Hpath Hd Hnk. subst v.
    simpl in Hr. inversion Hr; subst r0; clear Hr.
    assert (Hfin : finalize1 w p r = r).
    { unfold finalize1. rewrite Hst. destruct (ww_readdir w p); reflexivity. }
    rewrite Hfin in Hc. unfold dirty1 in Hc. rewrite Hst, Hacc in Hc.
    destruct (ww_readdir w p) as [names|] eqn:R; cbn [dir_state] in Hc.
    - destruct (ww_readdir w' p) as [names'|] eqn:R'; [|discriminate].
      apply orb_false_iff in Hc as [Hc _].
      assert (Hmem : forall n, In (OGet p n) done -> name_in (lower n) (map lower names) = name_in (lower n) (map lower names')).
      { intros n Hn. destruct (ac_all a) as [l|] eqn:A.
        - apply negb_false_iff in Hc. apply names_eqb_eq in Hc.
          apply same_sorted_same_members. rewrite Hc. symmetry. now apply (Ha l names).
        - destruct (Hg p n names Hn eq_refl) as (b & Hb).
          destruct (present_map_complete _ [] _ _ Hb eq_refl) as (b' & Hb').
          pose proof (present_map_sub _ _ _ Hb') as Hb''.
          rewrite (Hp _ _ names Hb'' eq_refl) in Hb'.
          rewrite <- Bool.not_true_iff_false in Hc. rewrite existsb_exists in Hc.
          destruct (Bool.eqb (name_in (lower n) (map lower names)) (name_in (lower n) (map lower names'))) eqn:Q.
          + now apply Bool.eqb_prop in Q.
          + exfalso. apply Hc. eexists. split; [exact Hb'|]. cbn [fst snd]. now rewrite Q. }
      assert (Hne : ww_readdir w p <> None) by (rewrite R; discriminate).
      assert (Hne' : ww_readdir w' p <> None) by (rewrite R'; discriminate).
      destruct (Hdc Hne) as ((e & He) & Hm & _). destruct (Hdc' Hne') as ((e' & He') & Hm' & _).
      destruct o as [d|d n|d|q|q|d n]; try discriminate; cbn [obs_path] in Hpath; subst; cbn [answer_of]; rewrite ?R, ?R'.
      + reflexivity.
      + now rewrite Hmem.
      + destruct (ac_all a) as [l|] eqn:A.
        * apply negb_false_iff in Hc. apply names_eqb_eq in Hc. rewrite Hc. f_equal. f_equal. symmetry. now apply (Ha l names).
        * exfalso. now apply (Hs p names Hin eq_refl).
      + now rewrite He, He'.
      + destruct (ww_modkey w p) eqn:A1; destruct (ww_modkey w' p) eqn:A2; try reflexivity;
          solve [exfalso; eapply Hm; eauto | exfalso; eapply Hm'; eauto].
    - destruct (ww_readdir w' p) as [names'|] eqn:R'; [discriminate|].
      destruct Hd as [Hd|[_ Hne]]; [|rewrite R in Hne; contradiction].
      destruct o as [d|d n|d|q|q|d n]; try discriminate; cbn [obs_path] in Hpath; subst; cbn [answer_of]; now rewrite R, R'.
  Qed.

  (* since the fix for findings G/G2: a symlink whose kind was asked still
     resolves to the same thing *)
  Lemma dir_links_covered v done r :
    dir_inv v done -> fst v = Some r -> dirty1 w' p (finalize1 w p r) = false ->
    ww_readdir w p <> None ->
    forall n, In (OKind p n) done -> ww_islink w p n = true -> ww_eval w' p n = ww_eval w p n.
  Proof.
    intros (r0 & a & Hv & Hacc & Hst & Hp & Ha & Hg & Hs & Hl & Hk) Hr Hc Hne n Hin L. subst v.
    simpl in Hr. inversion Hr; subst r0; clear Hr.
    assert (Hfin : finalize1 w p r = r).
    { unfold finalize1. rewrite Hst. destruct (ww_readdir w p); reflexivity. }
    rewrite Hfin in Hc. unfold dirty1 in Hc. rewrite Hst, Hacc in Hc.
    destruct (ww_readdir w p) as [names|] eqn:R; [|contradiction]. cbn [dir_state] in Hc.
    destruct (ww_readdir w' p) as [names'|] eqn:R'; [|discriminate].
    apply orb_false_iff in Hc as [_ Hc].
    destruct (Hk p n Hin L) as (ev & Hev).
    destruct (link_map_complete _ [] _ _ Hev eq_refl) as (ev' & Hev').
    pose proof (link_map_sub _ _ _ Hev') as Hev''. rewrite (Hl _ _ Hev'') in Hev'.
    rewrite <- Bool.not_true_iff_false in Hc. rewrite existsb_exists in Hc.
    destruct (option_eqb Z.eqb (ww_eval w' p n) (ww_eval w p n)) eqn:Q.
    - destruct (ww_eval w' p n), (ww_eval w p n); simpl in Q; try discriminate; [apply Z.eqb_eq in Q; now subst|reflexivity].
    - exfalso. apply Hc. eexists. split; [exact Hev'|]. cbn [fst snd]. now rewrite Q.
  Qed.
End Dir.

(* a path observed as a file is, in a given world, either a readable regular
   file (stat and read succeed) or absent (both fail): no permission errors and
   no directory at that path *)
Definition coherent_at (w : wworld) (p : path) : Prop :=
  (ww_isfile w p = true -> (exists c, ww_read w p = RdOk c) /\ (forall e, ww_modkey w p <> MKErr e)) /\
  (ww_isfile w p = false -> (exists e, ww_read w p = RdErr e) /\ (exists e, ww_modkey w p = MKErr e)).

(* ---------- one file ---------- *)
Section File.
  Variables (w w' : wworld) (p : path).
  Hypothesis Hcoh : coherent_at w p.
  Hypothesis Hcoh' : coherent_at w' p.
  (* "modification times advance normally" between the two worlds *)
  Hypothesis Hsound : forall k, ww_modkey w p = MKOk k -> ww_modkey w' p = MKOk k -> ww_read w' p = ww_read w p.
  (* a real mod key is never the zero value *)
  Hypothesis Hkey' : forall k, ww_modkey w' p = MKOk k -> k <> [].

  Definition seen_read (done : list obs) : Prop := exists q, In (OReadFile q) done.

  (* invariant of the view of a file path *)
  Definition file_inv (v : vstate) (done : list obs) : Prop :=
    exists r, v = (Some r, None) /\
      match ww_isfile w p with
      | false => wd_state r = SFileMissing
      | true =>
          match ww_modkey w p with
          | MKOk k => (wd_state r = SFileHasModKey /\ wd_key r = k) \/ wd_state r = SFileNeedModKey
          | _ => (wd_state r = SFileUnusableModKey /\
                    (ww_read w p = RdOk (wd_contents r) \/ ~ seen_read done))
                 \/ (wd_state r = SFileNeedModKey /\ ww_read w p = RdOk (wd_contents r))
                 \/ (wd_state r = SFileHasModKey /\ wd_key r = [])
          end
      end.

  Lemma file_inv_step v done o :
    is_file_op o = true -> (v = (None, None) /\ done = [] \/ file_inv v done) ->
    file_inv (vstep w p v o) (done ++ [o]).
  Proof.
    intros Hf Hv. destruct Hcoh as [Ht Hfalse].
    destruct o as [d|d n|d|q|q|d n]; try discriminate; cbn [vstep].
    - (* ReadFile *)
      destruct Hv as [[Hv Hd]|(r & Hv & Hi)]; subst v.
      + subst done. unfold file_inv. eexists. split; [reflexivity|]. cbn [wd_state wd_key wd_contents wd_zero].
        destruct (ww_isfile w p) eqn:F.
        * destruct (Ht eq_refl) as ((c & Hc) & Hm). rewrite Hc.
          destruct (ww_modkey w p) as [k| |e] eqn:M; [now right | right; left; auto | exfalso; eapply Hm; eauto].
        * destruct (Hfalse eq_refl) as ((e & He) & _). now rewrite He.
      + unfold file_inv. eexists. split; [reflexivity|]. cbn [wd_state wd_key wd_contents].
        destruct (ww_isfile w p) eqn:F.
        * destruct (Ht eq_refl) as ((c & Hc) & Hm). rewrite Hc.
          destruct (ww_modkey w p) as [k| |e] eqn:M.
          -- destruct Hi as [[S K]|S]; rewrite S; [now left | now right].
          -- destruct Hi as [[S _]|[[S _]|[S K]]]; rewrite S; [left; auto | right; left; auto | right; right; auto].
          -- exfalso; eapply Hm; eauto.
        * destruct (Hfalse eq_refl) as ((e & He) & _). rewrite He. cbn [wd_state]. now rewrite Hi.
    - (* ModKey *)
      destruct Hv as [[Hv Hd]|(r & Hv & Hi)]; subst v.
      + subst done. unfold file_inv. eexists. split; [reflexivity|]. cbn [wd_state wd_key wd_contents].
        destruct (ww_isfile w p) eqn:F.
        * destruct (Ht eq_refl) as ((c & Hc) & Hm).
          destruct (ww_modkey w p) as [k| |e] eqn:M; [now left | | exfalso; eapply Hm; eauto].
          left. split; [reflexivity|]. right. intros (q0 & [H|[]]). discriminate.
        * destruct (Hfalse eq_refl) as (_ & (e & He)). now rewrite He.
      + unfold file_inv. eexists. split; [reflexivity|]. cbn [wd_state wd_key wd_contents].
        destruct (ww_isfile w p) eqn:F.
        * destruct (Ht eq_refl) as ((c & Hc) & Hm).
          destruct (ww_modkey w p) as [k| |e] eqn:M.
          -- destruct Hi as [[S K]|S]; rewrite S; left; auto.
          -- destruct Hi as [[S [C|C]]|[[S C]|[S K]]]; rewrite S; cbn [mk_key].
             ++ left. split; [reflexivity|now left].
             ++ left. split; [reflexivity|]. right. intros (q0 & Hq). apply C.
                apply in_app_or in Hq as [Hq|[Hq|[]]]; [now exists q0|discriminate].
             ++ right; right; auto.
             ++ right; right; auto.
          -- exfalso; eapply Hm; eauto.
        * now rewrite Hi.
  Qed.

  Lemma file_inv_fold ops : forall v done,
    forallb is_file_op ops = true -> ops <> [] ->
    (v = (None, None) /\ done = [] \/ file_inv v done) ->
    file_inv (fold_left (vstep w p) ops v) (done ++ ops).
  Proof.
    induction ops as [|o ops IH]; intros v done Hf Hne Hv; [contradiction|].
    cbn [forallb] in Hf. apply andb_true_iff in Hf as [H1 H2]. cbn [fold_left].
    replace (done ++ o :: ops) with ((done ++ [o]) ++ ops) by (rewrite <- app_assoc; reflexivity).
    pose proof (file_inv_step v done o H1 Hv) as Hi.
    destruct ops as [|o2 ops2]; [now rewrite app_nil_r|].
    apply IH; [exact H2|discriminate|now right].
  Qed.

  (* the ReadFile step of the invariant also pins the contents once a read
     was processed in the unusable state; for the readable-with-key case the
     contents are recovered through ModKeySound *)
  Lemma file_covered v done r :
    file_inv v done -> fst v = Some r -> dirty1 w' p (finalize1 w p r) = false ->
    forall o, In o done -> obs_path o = p -> is_file_op o = true -> answer_of w o = answer_of w' o.
  Proof.
    intros (r0 & Hv & Hi) Hr Hc o Hin Hpath Hf. subst v. simpl in Hr. inversion Hr; subst r0; clear Hr.
    destruct Hcoh as [Ht Hfalse]. destruct Hcoh' as [Ht' Hfalse'].
    assert (Hans : (ww_read w' p = ww_read w p \/ (exists e e', ww_read w p = RdErr e /\ ww_read w' p = RdErr e') \/
                    (~ seen_read done /\ exists c, ww_read w' p = RdOk c)) /\
                   ((forall e, ww_modkey w p <> MKErr e) /\ (forall e, ww_modkey w' p <> MKErr e) \/
                    (exists e e', ww_modkey w p = MKErr e /\ ww_modkey w' p = MKErr e'))).
    { destruct (ww_isfile w p) eqn:F.
      - destruct (Ht eq_refl) as ((c & Hrd) & Hm).
        assert (Hex' : forall c', ww_read w' p = RdOk c' -> forall e, ww_modkey w' p <> MKErr e).
        { intros c' Hc' e He. destruct (ww_isfile w' p) eqn:F'; [eapply (proj2 (Ht' eq_refl)); eauto|].
          destruct (Hfalse' eq_refl) as ((e1 & He1) & _). congruence. }
        destruct (ww_modkey w p) as [k| |e] eqn:M; [| |exfalso; eapply Hm; eauto].
        + (* usable key *)
          assert (Hfin : wd_state (finalize1 w p r) = SFileHasModKey /\ wd_key (finalize1 w p r) = k).
          { unfold finalize1. destruct Hi as [[S K]|S]; rewrite S; [auto|]. rewrite M. auto. }
          destruct Hfin as [S K]. unfold dirty1 in Hc. rewrite S, K in Hc.
          destruct (ww_modkey w' p) as [k'| |] eqn:M'; try discriminate.
          apply negb_false_iff in Hc. apply zlist_eqb_eq in Hc. subst k'.
          pose proof (Hsound k eq_refl eq_refl) as Hs. split; [now left|]. left. split; [congruence|].
          intros e0; discriminate.
        + (* unusable key *)
          destruct Hi as [[S C]|[[S C]|[S K]]].
          * unfold finalize1, dirty1 in Hc. rewrite S in Hc. rewrite S in Hc.
            destruct (ww_read w' p) as [c'|] eqn:R'; [|discriminate].
            apply negb_false_iff in Hc. apply Z.eqb_eq in Hc. subst c'.
            split; [|left; split; [congruence|eapply Hex'; eauto]].
            destruct C as [C|C]; [left; congruence|]. right; right. split; [exact C|eauto].
          * unfold finalize1 in Hc. rewrite S, M in Hc. unfold dirty1 in Hc. cbn [wd_state wd_contents] in Hc.
            destruct (ww_read w' p) as [c'|] eqn:R'; [|discriminate].
            apply negb_false_iff in Hc. apply Z.eqb_eq in Hc. subst c'.
            split; [left; congruence|left; split; [congruence|eapply Hex'; eauto]].
          * exfalso. unfold finalize1, dirty1 in Hc. rewrite S in Hc. rewrite S, K in Hc.
            destruct (ww_modkey w' p) as [k'| |] eqn:M'; try discriminate.
            apply negb_false_iff in Hc. apply zlist_eqb_eq in Hc. exact (Hkey' k' eq_refl Hc).
      - destruct (Hfalse eq_refl) as ((e & He) & (e2 & He2)).
        unfold finalize1, dirty1 in Hc. rewrite Hi in Hc. rewrite Hi in Hc.
        destruct (Hfalse' Hc) as ((e' & He') & (e2' & He2')).
        split; [right; left; eauto | right; eauto]. }
    destruct Hans as [Hrd Hmk].
    destruct o as [d|d n|d|q|q|d n]; try discriminate; cbn [obs_path] in Hpath; subst q; cbn [answer_of].
    - destruct Hrd as [E|[(e & e' & E1 & E2)|[Hn _]]].
      + now rewrite E.
      + now rewrite E1, E2.
      + exfalso. apply Hn. now exists p.
    - destruct Hmk as [[H1 H2]|(e & e' & E1 & E2)].
      + destruct (ww_modkey w p) eqn:A; destruct (ww_modkey w' p) eqn:B; try reflexivity;
          solve [exfalso; eapply H1; eauto | exfalso; eapply H2; eauto].
      + now rewrite E1, E2.
  Qed.
End File.

(* ---------- all paths together ---------- *)

(* How one path may be observed in a log.  Either its first observation is the
   ReadDirectory that yields the entries the later Get / SortedKeys / Kind
   calls use, followed by directory observations and - if the path really is a
   listable directory on w - also by reads of the same path as a file (the
   shape of finding F, harmless since its fix); or it is observed only as a
   file.  Still excluded: a ReadDirectory AFTER file observations of the same
   path, and file observations of a path whose ReadDirectory failed: the
   recorder keeps one record per path and the later observation replaces the
   earlier one.  (For a regular file that is also probed as a directory the
   resolver reports "Cannot read directory ...: not a directory" and the build
   fails whatever the file contains, so no successful build has that shape.) *)
Definition wf_path (w : wworld) (log : list obs) (p : path) : Prop :=
  (exists rest, proj p log = OReadDir p :: rest /\
     forall o, In o rest -> is_dir_op o = true \/ (is_file_op o = true /\ ww_readdir w p <> None)) \/
  forallb is_file_op (proj p log) = true.

Definition file_hyps (w w' : wworld) (p : path) : Prop :=
  coherent_at w p /\ coherent_at w' p /\
  (forall k, ww_modkey w p = MKOk k -> ww_modkey w' p = MKOk k -> ww_read w' p = ww_read w p) /\
  (forall k, ww_modkey w' p = MKOk k -> k <> []).

Section All.
  Variables (w w' : wworld) (log : list obs).
  Hypothesis Hwf : forall o, In o log -> wf_path w log (obs_path o).
  (* paths observed only as files *)
  Hypothesis Hfile : forall o, In o log -> forallb is_file_op (proj (obs_path o) log) = true -> file_hyps w w' (obs_path o).
  (* a listable directory is not readable as a file, and stat works on it *)
  Hypothesis Hdir : forall p, dir_coh w p /\ dir_coh w' p.
  Hypothesis Hclean : clean w' (finalize w (record w log)) = true.

  (* the state of a path whose first observation is ReadDirectory *)
  Lemma dir_path_inv p rest :
    proj p log = OReadDir p :: rest ->
    (forall o, In o rest -> is_dir_op o = true \/ (is_file_op o = true /\ ww_readdir w p <> None)) ->
    exists r, dir_inv w p (view p (record w log)) ([OReadDir p] ++ rest) /\
              fst (view p (record w log)) = Some r /\ dirty1 w' p (finalize1 w p r) = false.
  Proof.
    intros Hops Hrest. pose proof (view_record w p log) as Hview.
    rewrite Hops in Hview. cbn [fold_left] in Hview.
    pose proof (dir_inv_fold w p (proj1 (Hdir p)) rest _ _ Hrest (dir_inv_start w p)) as Hinv.
    rewrite <- Hview in Hinv.
    pose proof Hinv as (r & a & Hv & _).
    exists r. split; [exact Hinv|]. split; [rewrite Hv; reflexivity|].
    apply (clean_spec w w' _ _ _ Hclean). unfold view in Hv. now inversion Hv.
  Qed.

  Lemma watch_covers_nonkind :
    forall o, In o log -> is_kind_op o = false -> answer_of w o = answer_of w' o.
  Proof.
    intros o Hin Hnk.
    remember (obs_path o) as p eqn:Hp.
    assert (Hproj : In o (proj p log)) by (apply filter_In; split; [exact Hin|subst p; apply Z.eqb_refl]).
    pose proof (Hwf o Hin) as W. rewrite <- Hp in W.
    destruct W as [(rest & Hops & Hrest)|Hf].
    - (* directory *)
      destruct (dir_path_inv p rest Hops Hrest) as (r & Hinv & Hr & Hd).
      rewrite Hops in Hproj.
      assert (Hok : dir_step_ok w p o).
      { destruct Hproj as [H|H]; [subst o; now left|now apply Hrest]. }
      eapply (dir_covered w w' p (proj1 (Hdir p)) (proj2 (Hdir p)) _ _ r Hinv Hr Hd o); auto.
    - (* file *)
      assert (Hfo : is_file_op o = true) by (rewrite forallb_forall in Hf; now apply Hf).
      pose proof (Hfile o Hin) as C. rewrite <- Hp in C. destruct (C Hf) as (C1 & C2 & C3 & C4).
      pose proof (view_record w p log) as Hview.
      assert (Hne : proj p log <> []) by (intro N; rewrite N in Hproj; contradiction).
      pose proof (file_inv_fold w w' p C1 C3 (proj p log) (None, None) [] Hf Hne (or_introl (conj eq_refl eq_refl))) as Hinv.
      rewrite <- Hview in Hinv. cbn [app] in Hinv.
      pose proof Hinv as (r & Hv & Hi).
      assert (Hl : lookup p (wf_data (record w log)) = Some r) by (unfold view in Hv; now inversion Hv).
      pose proof (clean_spec w w' _ _ _ Hclean Hl) as Hd.
      eapply (file_covered w w' p C1 C2 C3 C4 (view p (record w log)) (proj p log)).
      + exact Hinv.
      + rewrite Hv. reflexivity.
      + exact Hd.
      + exact Hproj.
      + now symmetry.
      + exact Hfo.
  Qed.

  (* a symlink entry whose kind the build asked for resolves to the same thing on w' *)
  Lemma watch_covers_links d n :
    In (OKind d n) log -> ww_islink w d n = true -> ww_readdir w d <> None -> ww_eval w' d n = ww_eval w d n.
  Proof.
    intros Hin L Hne.
    assert (Hproj : In (OKind d n) (proj d log)) by (apply filter_In; split; [exact Hin|apply Z.eqb_refl]).
    destruct (Hwf _ Hin) as [(rest & Hops & Hrest)|Hf]; cbn [obs_path] in *.
    - destruct (dir_path_inv d rest Hops Hrest) as (r & Hinv & Hr & Hd).
      rewrite Hops in Hproj.
      eapply (dir_links_covered w w' d _ _ r Hinv Hr Hd Hne n); [|exact L].
      exact Hproj.
    - rewrite forallb_forall in Hf. specialize (Hf _ Hproj). discriminate.
  Qed.
End All.

(* ---------- entry kinds ----------
   The kind of an entry is the kind of what it resolves to: the entry itself
   for a plain entry, the target for a symlink.  Since the fix for findings
   G/G2 the target of a symlink is recorded and re-checked; the kind of the
   resolved path is determined by observations that are recorded, because of
   how the resolver uses an entry: it came from a Get on the directory, what
   was found to be a file is then read, what was found to be a directory is
   then listed. *)
Definition target (child : path -> name -> path) (w : wworld) (d : path) (n : name) : option Z :=
  if ww_islink w d n then ww_eval w d n else Some (child d n).

Definition kind_hyps (child : path -> name -> path) (w : wworld) (d : path) (n : name) : Prop :=
  (ww_kind w d n = 2 <-> exists t, target child w d n = Some t /\ ww_isfile w t = true) /\
  (ww_kind w d n = 1 <-> exists t, target child w d n = Some t /\ ww_readdir w t <> None) /\
  (ww_kind w d n = 0 \/ ww_kind w d n = 1 \/ ww_kind w d n = 2) /\
  (* a plain entry has a kind iff it is listed, and resolves to itself *)
  (ww_islink w d n = false ->
     (forall names, ww_readdir w d = Some names ->
        (ww_kind w d n <> 0 <-> name_in (lower n) (map lower names) = true)) /\
     (ww_readdir w d = None -> ww_kind w d n = 0) /\
     (ww_kind w d n <> 0 -> ww_eval w d n = Some (child d n)) /\
     (ww_kind w d n = 0 -> ww_eval w d n = None)) /\
  (* a symlink is an entry of a listable directory, never resolves to its own
     path, and what it resolves to has a kind *)
  (ww_islink w d n = true ->
     ww_readdir w d <> None /\ ww_eval w d n <> Some (child d n) /\
     (ww_eval w d n <> None -> ww_kind w d n <> 0)).

Definition kind_companions (child : path -> name -> path) (log : list obs) (w : wworld) (d : path) (n : name) : Prop :=
  In (OGet d n) log /\
  (ww_kind w d n = 2 -> exists t, target child w d n = Some t /\ In (OReadFile t) log) /\
  (ww_kind w d n = 1 -> exists t, target child w d n = Some t /\ In (OReadDir t) log).

Lemma watch_covers_observations_all (child : path -> name -> path) w w' log :
  (forall o, In o log -> wf_path w log (obs_path o)) ->
  (forall o, In o log -> forallb is_file_op (proj (obs_path o) log) = true -> file_hyps w w' (obs_path o)) ->
  (forall p, dir_coh w p /\ dir_coh w' p) ->
  (forall d n, In (OKind d n) log ->
     kind_hyps child w d n /\ kind_hyps child w' d n /\ kind_companions child log w d n /\
     (* a plain entry is not replaced by a symlink of the same name (with a
        usable mod key the inode in the key would change; with an unusable one
        only the contents are compared) *)
     (ww_islink w d n = false -> ww_islink w' d n = false)) ->
  clean w' (finalize w (record w log)) = true ->
  all_same w w' log = true.
Proof.
  intros Hwf Hfile Hdir Hkind Hclean. unfold all_same. apply forallb_forall. intros o Hin.
  assert (E : answer_of w o = answer_of w' o); [|rewrite E; apply answer_eqb_refl].
  pose proof (watch_covers_nonkind w w' log Hwf Hfile Hdir Hclean) as NK.
  destruct (is_kind_op o) eqn:K; [|now apply NK].
  destruct o as [d|d n|d|q|q|d n]; try discriminate.
  destruct (Hkind d n Hin) as ((F1 & D1 & T1 & P1 & L1) & (F2 & D2 & T2 & P2 & L2) & (CG & CF & CD) & Hstay).
  (* the observations on the resolved path t pin its kind *)
  assert (Hfile_t : forall t, In (OReadFile t) log -> ww_isfile w t = true -> ww_isfile w' t = true).
  { intros t Ht It. pose proof (NK (OReadFile t) Ht eq_refl) as G. cbn [answer_of] in G.
    assert (Hff : forallb is_file_op (proj t log) = true).
    { destruct (Hwf _ Ht) as [(rest & Hops & Hrest)|Hf]; [|exact Hf]. cbn [obs_path] in *.
      exfalso. assert (Hp : In (OReadFile t) (proj t log)) by (apply filter_In; split; [exact Ht|apply Z.eqb_refl]).
      rewrite Hops in Hp. destruct Hp as [Hp|Hp]; [discriminate|].
      destruct (Hrest _ Hp) as [Hd|[_ Hne]]; [discriminate|].
      (* a listable directory is not a regular file *)
      destruct (proj1 (Hdir t) Hne) as (_ & _ & Hnf). congruence. }
    destruct (Hfile _ Ht Hff) as ((Ct & _) & (_ & Cf') & _). cbn [obs_path] in *.
    destruct (Ct It) as ((c & Hc) & _). rewrite Hc in G.
    destruct (ww_isfile w' t) eqn:I'; [reflexivity|exfalso].
    destruct (Cf' eq_refl) as ((e & He) & _). rewrite He in G. discriminate. }
  assert (Hdir_t : forall t, In (OReadDir t) log -> ww_readdir w t <> None -> ww_readdir w' t <> None).
  { intros t Ht Nt. pose proof (NK (OReadDir t) Ht eq_refl) as G. cbn [answer_of] in G.
    destruct (ww_readdir w t); [|contradiction]. destruct (ww_readdir w' t); [discriminate|discriminate]. }
  cbn [answer_of].
  destruct (ww_islink w d n) eqn:Lk.
  - (* a symlink on w *)
    destruct (L1 eq_refl) as (Hne & Hself & Hres).
    pose proof (watch_covers_links w w' log Hwf Hdir Hclean d n Hin Lk Hne) as Hev.
    destruct (ww_eval w d n) as [t|] eqn:Ev.
    + (* resolved to t: still a symlink, to t *)
      assert (Lk' : ww_islink w' d n = true).
      { destruct (ww_islink w' d n) eqn:Lk'; [reflexivity|exfalso].
        destruct (P2 eq_refl) as (_ & _ & Pe & Pn).
        destruct (Z.eq_dec (ww_kind w' d n) 0) as [Z0|NZ].
        - rewrite (Pn Z0) in Hev. discriminate.
        - rewrite (Pe NZ) in Hev. apply Hself. now rewrite Hev. }
      rewrite Lk', Hev. f_equal.
      assert (Tg : target child w d n = Some t) by (unfold target; now rewrite Lk, Ev).
      assert (Tg' : target child w' d n = Some t) by (unfold target; now rewrite Lk', Hev).
      destruct T1 as [T1|[T1|T1]].
      * exfalso. apply (Hres ltac:(discriminate)). exact T1.
      * destruct (CD T1) as (t0 & Tg0 & Hlog). rewrite Tg in Tg0. inversion Tg0; subst t0.
        apply D1 in T1 as Hex. destruct Hex as (t1 & Tg1 & Hn1). rewrite Tg in Tg1. inversion Tg1; subst t1.
        rewrite T1. symmetry. apply D2. exists t. split; [exact Tg'|]. now apply Hdir_t.
      * destruct (CF T1) as (t0 & Tg0 & Hlog). rewrite Tg in Tg0. inversion Tg0; subst t0.
        apply F1 in T1 as Hex. destruct Hex as (t1 & Tg1 & Hi1). rewrite Tg in Tg1. inversion Tg1; subst t1.
        rewrite T1. symmetry. apply F2. exists t. split; [exact Tg'|]. now apply Hfile_t.
    + (* dangling on w: nothing resolves on w' either *)
      assert (K0 : ww_kind w d n = 0).
      { destruct T1 as [T1|[T1|T1]]; [exact T1| |]; exfalso.
        - apply D1 in T1 as (t & Tg & _). unfold target in Tg. rewrite Lk, Ev in Tg. discriminate.
        - apply F1 in T1 as (t & Tg & _). unfold target in Tg. rewrite Lk, Ev in Tg. discriminate. }
      assert (K0' : ww_kind w' d n = 0).
      { destruct (ww_islink w' d n) eqn:Lk'.
        - destruct T2 as [T2|[T2|T2]]; [exact T2| |]; exfalso.
          + apply D2 in T2 as (t & Tg & _). unfold target in Tg. rewrite Lk', Hev in Tg. discriminate.
          + apply F2 in T2 as (t & Tg & _). unfold target in Tg. rewrite Lk', Hev in Tg. discriminate.
        - destruct (P2 eq_refl) as (_ & _ & Pe & _).
          destruct (Z.eq_dec (ww_kind w' d n) 0) as [Z0|NZ]; [exact Z0|]. rewrite (Pe NZ) in Hev. discriminate. }
      rewrite K0, K0', Hev. now destruct (ww_islink w' d n).
  - (* a plain entry on w stays plain *)
    rewrite (Hstay eq_refl). f_equal.
    destruct (P1 eq_refl) as (Pp1 & Pu1 & _ & _). destruct (P2 (Hstay eq_refl)) as (Pp2 & Pu2 & _ & _).
    assert (Tg : target child w d n = Some (child d n)) by (unfold target; now rewrite Lk).
    assert (Tg' : target child w' d n = Some (child d n)) by (unfold target; now rewrite (Hstay eq_refl)).
    destruct T1 as [T1|[T1|T1]].
    + pose proof (NK (OGet d n) CG eq_refl) as G. cbn [answer_of] in G.
      rewrite T1. symmetry.
      destruct (ww_readdir w d) as [names|] eqn:R; destruct (ww_readdir w' d) as [names'|] eqn:R'; try discriminate.
      * inversion G as [G1].
        destruct (Z.eq_dec (ww_kind w' d n) 0) as [Z0|NZ]; [exact Z0|exfalso].
        apply (Pp2 names' eq_refl) in NZ. rewrite <- G1 in NZ. apply (Pp1 names eq_refl) in NZ. contradiction.
      * now apply Pu2.
    + destruct (CD T1) as (t0 & Tg0 & Hlog). rewrite Tg in Tg0. inversion Tg0; subst t0.
      apply D1 in T1 as Hex. destruct Hex as (t1 & Tg1 & Hn1). rewrite Tg in Tg1. inversion Tg1; subst t1.
      rewrite T1. symmetry. apply D2. exists (child d n). split; [exact Tg'|]. now apply Hdir_t.
    + destruct (CF T1) as (t0 & Tg0 & Hlog). rewrite Tg in Tg0. inversion Tg0; subst t0.
      apply F1 in T1 as Hex. destruct Hex as (t1 & Tg1 & Hi1). rewrite Tg in Tg1. inversion Tg1; subst t1.
      rewrite T1. symmetry. apply F2. exists (child d n). split; [exact Tg'|]. now apply Hfile_t.
Qed.

(* ---------- the three former counterexamples ----------
   Before the fixes 0717f2b (F) and dbd24f7 (G, G2) each of these was a
   machine-checked refutation of the unrestricted statement.  The model follows
   the fixed recorder, the logs are inside the domain of the theorem, and the
   edits are now reported dirty. *)
Definition f_bts : name := [98; 46; 116; 115].
Definition f_bjs : name := [98; 46; 106; 115].
Definition f_world (names : list name) (key : Z) : wworld :=
  mkWw (fun p => if p =? 1 then Some names else None) (fun _ => RdErr 21)
       (fun p => if p =? 1 then MKOk [1; key] else MKErr 2) (fun _ => false)
       (fun _ _ => 0) (fun _ _ => false) (fun _ _ => None).
Definition f_w : wworld := f_world [f_bjs] 1.
Definition f_w' : wworld := f_world [f_bjs; f_bts] 2.
(* the directory 1 is listed, "b.ts" is looked up and absent, then path 1 is read as a file (EISDIR) *)
Definition f_log : list obs := [OReadDir 1; OGet 1 f_bts; OModKey 1; OReadFile 1].

Lemma finding_F_shape_in_domain : forall o, In o f_log -> wf_path f_w f_log (obs_path o).
Proof.
  intros o H. assert (E : obs_path o = 1) by (simpl in H; intuition (subst; reflexivity)). rewrite E.
  left. eexists. split; [vm_compute; reflexivity|].
  intros o' [H'|[H'|[H'|[]]]]; subst o'; [left; reflexivity | right | right]; (split; [reflexivity|vm_compute; discriminate]).
Qed.

Lemma finding_F_shape_detected :
  dirty_paths f_w' (finalize f_w (record f_w f_log)) = [1] /\ all_same f_w f_w' f_log = false.
Proof. split; vm_compute; reflexivity. Qed.

(* G: link.js in directory 1 is a symlink; on w it resolves to file 5, which the
   build reads; on w' it was re-pointed to file 6 *)
Definition g_link : name := [108; 105; 110; 107; 46; 106; 115].
Definition g_world (target : Z) : wworld :=
  mkWw (fun p => if p =? 1 then Some [g_link] else None)
       (fun p => if (p =? 5) || (p =? 6) then RdOk (p * 10) else RdErr 2)
       (fun p => if (p =? 5) || (p =? 6) then MKOk [p; 1] else MKErr 2)
       (fun p => (p =? 5) || (p =? 6))
       (fun d n => if (d =? 1) && name_eqb n g_link then 2 else 0)
       (fun d n => (d =? 1) && name_eqb n g_link)
       (fun d n => if (d =? 1) && name_eqb n g_link then Some target else None).
Definition g_log : list obs := [OReadDir 1; OGet 1 g_link; OKind 1 g_link; OModKey 5; OReadFile 5].

Lemma finding_G_shape_detected :
  dirty_paths (g_world 6) (finalize (g_world 5) (record (g_world 5) g_log)) = [1] /\
  clean (g_world 5) (finalize (g_world 5) (record (g_world 5) g_log)) = true.
Proof. split; vm_compute; reflexivity. Qed.

(* G2: the link is dangling on w (EvalSymlinks fails, kind 0) and the build stops there; on w' the target exists *)
Definition g2_world (dangling : bool) : wworld :=
  mkWw (fun p => if p =? 1 then Some [g_link] else None)
       (fun p => if (p =? 5) && negb dangling then RdOk 50 else RdErr 2)
       (fun p => if (p =? 5) && negb dangling then MKOk [5; 1] else MKErr 2)
       (fun p => (p =? 5) && negb dangling)
       (fun d n => if (d =? 1) && name_eqb n g_link && negb dangling then 2 else 0)
       (fun d n => (d =? 1) && name_eqb n g_link)
       (fun d n => if (d =? 1) && name_eqb n g_link && negb dangling then Some 5 else None).
Definition g2_log : list obs := [OReadDir 1; OGet 1 g_link; OKind 1 g_link].

Lemma finding_G2_shape_detected :
  dirty_paths (g2_world false) (finalize (g2_world true) (record (g2_world true) g2_log)) = [1] /\
  clean (g2_world true) (finalize (g2_world true) (record (g2_world true) g2_log)) = true.
Proof. split; vm_compute; reflexivity. Qed.
