(* C09 proofs about the watch data (Watch.v): if every watch predicate of a
   build is clean on a later file system, every observation the build made
   answers the same there. *)
From V Require Import Common.Base C09.Cache C09.CacheProofs C09.Watch.

(* ---------- per-path view of the recorder ---------- *)

Definition vstate := (option wdata * option (option (list name)))%type.
Definition view (p : path) (f : wfs) : vstate := (lookup p (wf_data f), lookup p (wf_dirs f)).

Definition set_acc (r : option wdata) (g : accessed -> accessed) : option wdata :=
  match r with
  | Some r0 =>
      match wd_acc r0 with
      | Some a => Some (mkWd (Some (g a)) (wd_contents r0) (wd_key r0) (wd_state r0))
      | None => r
      end
  | None => r
  end.

(* the recorder restricted to one path *)
Definition vstep (w : wworld) (p : path) (v : vstate) (o : obs) : vstate :=
  let '(r, d) := v in
  match o with
  | OReadDir _ =>
      match d with
      | Some _ => v
      | None =>
          let ans := ww_readdir w p in
          (Some (mkWd (Some (mkAcc [] None)) 0 []
                   (match ans with Some _ => SDirHasAccessedEntries | None => SDirUnreadable end)), Some ans)
      end
  | OGet _ n =>
      match d with
      | Some (Some names) =>
          (set_acc r (fun a => mkAcc ((lower n, name_in (lower n) (map lower names)) :: ac_present a) (ac_all a)), d)
      | _ => v
      end
  | OSortedKeys _ =>
      match d with
      | Some (Some names) => (set_acc r (fun a => mkAcc (ac_present a) (Some (sort_names names))), d)
      | _ => v
      end
  | OReadFile _ =>
      let ans := ww_read w p in
      let r0 := match r with Some r0 => r0 | None => wd_zero end in
      let st := match ans with
                | RdErr _ => SFileMissing
                | RdOk _ => match r with
                            | None => SFileNeedModKey
                            | Some _ => match wd_state r0 with SDirUnreadable => SFileNeedModKey | s => s end
                            end
                end in
      (Some (mkWd (wd_acc r0) (match ans with RdOk c => c | RdErr _ => 0 end) (wd_key r0) st), d)
  | OModKey _ =>
      let ans := ww_modkey w p in
      match r with
      | None => (Some (mkWd None 0 (mk_key ans)
                         (match ans with MKUnusable => SFileUnusableModKey | MKErr _ => SFileMissing | MKOk _ => SFileHasModKey end)), d)
      | Some r0 => (Some (mkWd (wd_acc r0) (wd_contents r0) (mk_key ans)
                            (match wd_state r0 with SFileNeedModKey => SFileHasModKey | s => s end)), d)
      end
  | OKind _ _ => v
  end.

Lemma lookup_cons_eq {A} p (x : A) l : lookup p ((p, x) :: l) = Some x.
Proof. simpl. now rewrite Z.eqb_refl. Qed.

Lemma view_step_same w f o : view (obs_path o) (step_obs w f o) = vstep w (obs_path o) (view (obs_path o) f) o.
Proof.
  unfold view. destruct o as [d|d n|d|p|p|d n]; cbn [obs_path step_obs vstep]; [| | | | |reflexivity].
  - unfold op_readdir. destruct (lookup d (wf_dirs f)) as [x|] eqn:E; [now rewrite E|].
    cbn [wf_data wf_dirs]. now rewrite !lookup_cons_eq.
  - unfold op_get. destruct (lookup d (wf_dirs f)) as [[names|]|] eqn:E; try (now rewrite E).
    unfold upd_acc, set_acc. destruct (lookup d (wf_data f)) as [r|] eqn:R; [|now rewrite R, E].
    destruct (wd_acc r) as [a|]; [|now rewrite R, E]. cbn [wf_data wf_dirs]. now rewrite lookup_cons_eq, E.
  - unfold op_sortedkeys. destruct (lookup d (wf_dirs f)) as [[names|]|] eqn:E; try (now rewrite E).
    unfold upd_acc, set_acc. destruct (lookup d (wf_data f)) as [r|] eqn:R; [|now rewrite R, E].
    destruct (wd_acc r) as [a|]; [|now rewrite R, E]. cbn [wf_data wf_dirs]. now rewrite lookup_cons_eq, E.
  - unfold op_readfile. destruct (lookup p (wf_data f)) as [r|]; cbn [wf_data wf_dirs negb]; rewrite lookup_cons_eq; reflexivity.
  - unfold op_modkey. destruct (lookup p (wf_data f)) as [r|]; cbn [wf_data wf_dirs]; rewrite lookup_cons_eq; reflexivity.
Qed.

Lemma view_step_other w f o p : obs_path o <> p -> view p (step_obs w f o) = view p f.
Proof.
  intro Hne. unfold view.
  assert (L : forall A (x : A) l, lookup p ((obs_path o, x) :: l) = lookup p l)
    by (intros; now apply lookup_cons_ne).
  destruct o as [d|d n|d|q|q|d n]; cbn [obs_path step_obs] in *; [| | | | |reflexivity].
  - unfold op_readdir. destruct (lookup d (wf_dirs f)); [reflexivity|]. cbn [wf_data wf_dirs]. now rewrite !L.
  - unfold op_get. destruct (lookup d (wf_dirs f)) as [[names|]|]; try reflexivity.
    unfold upd_acc. destruct (lookup d (wf_data f)) as [r|]; [|reflexivity].
    destruct (wd_acc r); [|reflexivity]. cbn [wf_data wf_dirs]. now rewrite L.
  - unfold op_sortedkeys. destruct (lookup d (wf_dirs f)) as [[names|]|]; try reflexivity.
    unfold upd_acc. destruct (lookup d (wf_data f)) as [r|]; [|reflexivity].
    destruct (wd_acc r); [|reflexivity]. cbn [wf_data wf_dirs]. now rewrite L.
  - unfold op_readfile. destruct (lookup q (wf_data f)); cbn [wf_data wf_dirs]; now rewrite L.
  - unfold op_modkey. destruct (lookup q (wf_data f)); cbn [wf_data wf_dirs]; now rewrite L.
Qed.

Definition proj (p : path) (log : list obs) : list obs := filter (fun o => obs_path o =? p) log.

Lemma view_fold w p log : forall f,
  view p (fold_left (step_obs w) log f) = fold_left (vstep w p) (proj p log) (view p f).
Proof.
  induction log as [|o log IH]; intro f; [reflexivity|].
  cbn [fold_left proj filter]. rewrite IH. fold (proj p log).
  destruct (obs_path o =? p) eqn:E.
  - apply Z.eqb_eq in E. cbn [fold_left]. subst p. now rewrite view_step_same.
  - apply Z.eqb_neq in E. now rewrite view_step_other.
Qed.

Lemma view_record w p log : view p (record w log) = fold_left (vstep w p) (proj p log) (None, None).
Proof. unfold record. now rewrite view_fold. Qed.

(* ---------- clean means: every newest record's predicate is false ---------- *)

Lemma newest_complete {A} (l : list (Z * A)) : forall seen p a,
  lookup p l = Some a -> existsb (Z.eqb p) seen = false -> In (p, a) (newest l seen).
Proof.
  induction l as [|[q b] l IH]; intros seen p a L Hs; [discriminate|].
  simpl in L. cbn [newest]. destruct (q =? p) eqn:E.
  - apply Z.eqb_eq in E. subst q. inversion L; subst. rewrite Hs. now left.
  - destruct (existsb (Z.eqb q) seen) eqn:S.
    + now apply IH.
    + right. apply IH; [exact L|]. simpl. rewrite Hs. rewrite Z.eqb_sym in E. now rewrite E.
Qed.

Lemma clean_spec w w' f p r :
  clean w' (finalize w f) = true -> lookup p (wf_data f) = Some r ->
  dirty1 w' p (finalize1 w p r) = false.
Proof.
  unfold clean, dirty_paths. intros Hc L.
  destruct (dirty1 w' p (finalize1 w p r)) eqn:D; [exfalso|reflexivity].
  assert (Hin : In (p, finalize1 w p r) (finalize w f)).
  { unfold finalize. apply in_map_iff. exists (p, r). split; [reflexivity|].
    apply newest_complete; [exact L|reflexivity]. }
  assert (Hf : In (p, finalize1 w p r) (filter (fun pr => dirty1 w' (fst pr) (snd pr)) (finalize w f))).
  { apply filter_In. split; [exact Hin|exact D]. }
  apply (in_map fst) in Hf. destruct (map fst _); [contradiction|discriminate].
Qed.

(* ---------- names ---------- *)

Lemma name_eqb_eq a b : name_eqb a b = true <-> a = b.
Proof. apply zlist_eqb_eq. Qed.

Lemma name_in_In n l : name_in n l = true <-> In n l.
Proof.
  unfold name_in. rewrite existsb_exists. split.
  - intros (x & Hx & E). apply name_eqb_eq in E. now subst.
  - intro H. exists n. split; [exact H|now apply name_eqb_eq].
Qed.

Lemma names_eqb_eq a b : names_eqb a b = true <-> a = b.
Proof. apply list_eqb_eq. intros; apply zlist_eqb_eq. Qed.

Lemma insert_sorted_In x n l : In x (insert_sorted n l) <-> x = n \/ In x l.
Proof.
  induction l as [|y l IH]; simpl.
  - intuition congruence.
  - destruct (name_ltb y n); simpl; rewrite ?IH; intuition congruence.
Qed.

Lemma sort_names_In x l : In x (sort_names l) <-> In x l.
Proof.
  induction l as [|y l IH]; simpl; [tauto|].
  unfold sort_names in *. simpl. rewrite insert_sorted_In, IH. intuition congruence.
Qed.

(* equal sorted listings have the same lower-cased members *)
Lemma same_sorted_same_members a b n :
  sort_names a = sort_names b -> name_in n (map lower a) = name_in n (map lower b).
Proof.
  intro E.
  assert (M : forall x, In x a <-> In x b) by (intro x; rewrite <- (sort_names_In x a), <- (sort_names_In x b), E; tauto).
  destruct (name_in n (map lower b)) eqn:B.
  - apply name_in_In in B. apply in_map_iff in B as (x & Hx & Hin). apply name_in_In. apply in_map_iff.
    exists x. split; [exact Hx|now apply M].
  - destruct (name_in n (map lower a)) eqn:A; [|reflexivity].
    apply name_in_In in A. apply in_map_iff in A as (x & Hx & Hin).
    assert (C : name_in n (map lower b) = true) by (apply name_in_In; apply in_map_iff; exists x; split; [exact Hx|now apply M]).
    congruence.
Qed.

Lemma present_map_complete l : forall seen k b,
  In (k, b) l -> name_in k seen = false -> exists b', In (k, b') (present_map l seen).
Proof.
  induction l as [|[k0 b0] l IH]; intros seen k b Hin Hs; [contradiction|].
  cbn [present_map]. destruct Hin as [H|H].
  - inversion H; subst. rewrite Hs. exists b. now left.
  - destruct (name_in k0 seen) eqn:S.
    + now apply (IH seen k b).
    + destruct (name_eqb k k0) eqn:E.
      * apply name_eqb_eq in E. subst. exists b0. now left.
      * destruct (IH (k0 :: seen) k b H) as (b' & Hb').
        { unfold name_in in *. simpl. rewrite E. exact Hs. }
        exists b'. now right.
Qed.

Lemma present_map_sub l : forall seen x, In x (present_map l seen) -> In x l.
Proof.
  induction l as [|[k0 b0] l IH]; intros seen x H; [contradiction|].
  cbn [present_map] in H. destruct (name_in k0 seen).
  - right. eapply IH; eauto.
  - destruct H as [H|H]; [now left|right; eapply IH; eauto].
Qed.

(* ---------- answers ---------- *)

Lemma answer_eqb_refl a : answer_eqb a a = true.
Proof.
  destruct a as [b|[b|]|[l|]|[c|]|b|k [t|]]; simpl; try reflexivity.
  - now destruct b.
  - now destruct b.
  - now apply names_eqb_eq.
  - apply Z.eqb_refl.
  - now destruct b.
  - now rewrite !Z.eqb_refl.
  - now rewrite Z.eqb_refl.
Qed.

Definition is_dir_op (o : obs) : bool :=
  match o with OReadDir _ | OGet _ _ | OSortedKeys _ | OKind _ _ => true | _ => false end.

Definition is_kind_op (o : obs) : bool := match o with OKind _ _ => true | _ => false end.

(* ---------- one directory ---------- *)
Section Dir.
  Variables (w w' : wworld) (p : path).

  Definition dir_state (ans : option (list name)) : wstate :=
    match ans with Some _ => SDirHasAccessedEntries | None => SDirUnreadable end.

  (* invariant of the view of a directory path after its first ReadDirectory,
     relative to the observations processed so far *)
  Definition dir_inv (v : vstate) (done : list obs) : Prop :=
    exists a,
      v = (Some (mkWd (Some a) 0 [] (dir_state (ww_readdir w p))), Some (ww_readdir w p)) /\
      (forall k b names, In (k, b) (ac_present a) -> ww_readdir w p = Some names -> b = name_in k (map lower names)) /\
      (forall l names, ac_all a = Some l -> ww_readdir w p = Some names -> l = sort_names names) /\
      (forall d n names, In (OGet d n) done -> ww_readdir w p = Some names -> exists b, In (lower n, b) (ac_present a)) /\
      (forall d names, In (OSortedKeys d) done -> ww_readdir w p = Some names -> ac_all a <> None).

  Lemma dir_inv_step v done o :
    is_dir_op o = true -> dir_inv v done -> dir_inv (vstep w p v o) (done ++ [o]).
  Proof.
    intros Hd (a & Hv & Hp & Ha & Hg & Hs). subst v.
    destruct o as [d|d n|d|q|q|d n]; try discriminate; cbn [vstep]; unfold dir_inv.
    4: { exists a. repeat split; auto.
         - intros d0 n0 names Hin. apply in_app_or in Hin as [Hin|[Hin|[]]]; [eauto|discriminate].
         - intros d0 names Hin. apply in_app_or in Hin as [Hin|[Hin|[]]]; [eauto|discriminate]. }
    - exists a. repeat split; auto.
      + intros d0 n names Hin. apply in_app_or in Hin as [Hin|[Hin|[]]]; [eauto|discriminate].
      + intros d0 names Hin. apply in_app_or in Hin as [Hin|[Hin|[]]]; [eauto|discriminate].
    - destruct (ww_readdir w p) as [names|] eqn:R.
      + cbn [set_acc wd_acc wd_contents wd_key wd_state dir_state].
        exists (mkAcc ((lower n, name_in (lower n) (map lower names)) :: ac_present a) (ac_all a)).
        split; [reflexivity|]. cbn [ac_present ac_all]. repeat split.
        * intros k b names0 [H|H] E; [inversion H; inversion E; subst; reflexivity | eauto].
        * exact Ha.
        * intros d0 n0 names0 Hin E. apply in_app_or in Hin as [Hin|[Hin|[]]].
          -- destruct (Hg d0 n0 names0 Hin E) as (b & Hb). exists b. now right.
          -- inversion Hin; subst. eexists. now left.
        * intros d0 names0 Hin E. apply in_app_or in Hin as [Hin|[Hin|[]]]; [eauto|discriminate].
      + exists a. repeat split; auto; intros; discriminate.
    - destruct (ww_readdir w p) as [names|] eqn:R.
      + cbn [set_acc wd_acc wd_contents wd_key wd_state dir_state].
        exists (mkAcc (ac_present a) (Some (sort_names names))).
        split; [reflexivity|]. cbn [ac_present ac_all]. repeat split.
        * exact Hp.
        * intros l names0 E1 E2. inversion E1; inversion E2; subst; reflexivity.
        * intros d0 n0 names0 Hin E. apply in_app_or in Hin as [Hin|[Hin|[]]]; [eauto|discriminate].
        * intros; discriminate.
      + exists a. repeat split; auto; intros; discriminate.
  Qed.

  Lemma dir_inv_fold ops : forall v done,
    forallb is_dir_op ops = true -> dir_inv v done -> dir_inv (fold_left (vstep w p) ops v) (done ++ ops).
  Proof.
    induction ops as [|o ops IH]; intros v done Hd Hi; [now rewrite app_nil_r|].
    cbn [forallb] in Hd. apply andb_true_iff in Hd as [H1 H2]. cbn [fold_left].
    replace (done ++ o :: ops) with ((done ++ [o]) ++ ops) by (rewrite <- app_assoc; reflexivity).
    apply IH; [exact H2|]. now apply dir_inv_step.
  Qed.

  Lemma dir_inv_start : dir_inv (vstep w p (None, None) (OReadDir p)) [OReadDir p].
  Proof.
    cbn [vstep]. exists (mkAcc [] None). split; [reflexivity|]. cbn [ac_present ac_all].
    repeat split; try (intros; contradiction); try (intros; discriminate).
    - intros d n names [H|[]]; discriminate.
    - intros d names [H|[]]; discriminate.
  Qed.

  (* the observations of one directory are covered by its record *)
  Lemma dir_covered v done r :
    dir_inv v done -> fst v = Some r -> dirty1 w' p (finalize1 w p r) = false ->
    forall o, In o done -> obs_path o = p -> is_dir_op o = true -> is_kind_op o = false -> answer_of w o = answer_of w' o.
  Proof.
    intros (a & Hv & Hp & Ha & Hg & Hs) Hr Hc o Hin Hpath Hd Hnk. subst v. simpl in Hr. inversion Hr; subst r; clear Hr.
    unfold finalize1, dirty1 in Hc. cbn [wd_state wd_acc] in Hc.
    destruct (ww_readdir w p) as [names|] eqn:R; cbn [dir_state] in Hc.
    - cbn in Hc. destruct (ww_readdir w' p) as [names'|] eqn:R'; [|discriminate].
      assert (Hmem : forall n, In (OGet p n) done -> name_in (lower n) (map lower names) = name_in (lower n) (map lower names')).
      { intros n Hn. destruct (ac_all a) as [l|] eqn:A.
        - apply negb_false_iff in Hc. apply names_eqb_eq in Hc.
          apply same_sorted_same_members. rewrite Hc. symmetry. now apply (Ha l names).
        - destruct (Hg p n names Hn eq_refl) as (b & Hb).
          destruct (present_map_complete _ [] _ _ Hb eq_refl) as (b' & Hb').
          pose proof (present_map_sub _ _ _ Hb') as Hb''.
          rewrite (Hp _ _ names Hb'' eq_refl) in Hb'.
          destruct (existsb _ _) eqn:Ex in Hc; [discriminate|].
          rewrite <- Bool.not_true_iff_false in Ex. rewrite existsb_exists in Ex.
          destruct (Bool.eqb (name_in (lower n) (map lower names)) (name_in (lower n) (map lower names'))) eqn:Q.
          + now apply Bool.eqb_prop in Q.
          + exfalso. apply Ex. eexists. split; [exact Hb'|]. cbn [fst snd]. now rewrite Q. }
      destruct o as [d|d n|d|q|q|d n]; try discriminate; cbn [obs_path] in Hpath; subst d; cbn [answer_of]; rewrite R, R'.
      + reflexivity.
      + now rewrite Hmem.
      + destruct (ac_all a) as [l|] eqn:A.
        * apply negb_false_iff in Hc. apply names_eqb_eq in Hc. rewrite Hc. f_equal. f_equal. symmetry. now apply (Ha l names).
        * exfalso. now apply (Hs p names Hin eq_refl).
    - cbn in Hc. destruct (ww_readdir w' p) as [names'|] eqn:R'; [discriminate|].
      destruct o as [d|d n|d|q|q|d n]; try discriminate; cbn [obs_path] in Hpath; subst d; cbn [answer_of]; now rewrite R, R'.
  Qed.
End Dir.

Definition is_file_op (o : obs) : bool :=
  match o with OReadFile _ | OModKey _ => true | _ => false end.

(* a path observed as a file is, in a given world, either a readable regular
   file (stat and read succeed) or absent (both fail): no permission errors and
   no directory at that path *)
Definition coherent_at (w : wworld) (p : path) : Prop :=
  (ww_isfile w p = true -> (exists c, ww_read w p = RdOk c) /\ (forall e, ww_modkey w p <> MKErr e)) /\
  (ww_isfile w p = false -> (exists e, ww_read w p = RdErr e) /\ (exists e, ww_modkey w p = MKErr e)).

(* ---------- one file ---------- *)
Section File.
  Variables (w w' : wworld) (p : path).
  Hypothesis Hcoh : coherent_at w p.
  Hypothesis Hcoh' : coherent_at w' p.
  (* "modification times advance normally" between the two worlds *)
  Hypothesis Hsound : forall k, ww_modkey w p = MKOk k -> ww_modkey w' p = MKOk k -> ww_read w' p = ww_read w p.
  (* a real mod key is never the zero value *)
  Hypothesis Hkey' : forall k, ww_modkey w' p = MKOk k -> k <> [].

  Definition seen_read (done : list obs) : Prop := exists q, In (OReadFile q) done.

  (* invariant of the view of a file path *)
  Definition file_inv (v : vstate) (done : list obs) : Prop :=
    exists r, v = (Some r, None) /\
      match ww_isfile w p with
      | false => wd_state r = SFileMissing
      | true =>
          match ww_modkey w p with
          | MKOk k => (wd_state r = SFileHasModKey /\ wd_key r = k) \/ wd_state r = SFileNeedModKey
          | _ => (wd_state r = SFileUnusableModKey /\
                    (ww_read w p = RdOk (wd_contents r) \/ ~ seen_read done))
                 \/ (wd_state r = SFileNeedModKey /\ ww_read w p = RdOk (wd_contents r))
                 \/ (wd_state r = SFileHasModKey /\ wd_key r = [])
          end
      end.

  Lemma file_inv_step v done o :
    is_file_op o = true -> (v = (None, None) /\ done = [] \/ file_inv v done) ->
    file_inv (vstep w p v o) (done ++ [o]).
  Proof.
    intros Hf Hv. destruct Hcoh as [Ht Hfalse].
    destruct o as [d|d n|d|q|q|d n]; try discriminate; cbn [vstep].
    - (* ReadFile *)
      destruct Hv as [[Hv Hd]|(r & Hv & Hi)]; subst v.
      + subst done. unfold file_inv. eexists. split; [reflexivity|]. cbn [wd_state wd_key wd_contents wd_zero].
        destruct (ww_isfile w p) eqn:F.
        * destruct (Ht eq_refl) as ((c & Hc) & Hm). rewrite Hc.
          destruct (ww_modkey w p) as [k| |e] eqn:M; [now right | right; left; auto | exfalso; eapply Hm; eauto].
        * destruct (Hfalse eq_refl) as ((e & He) & _). now rewrite He.
      + unfold file_inv. eexists. split; [reflexivity|]. cbn [wd_state wd_key wd_contents].
        destruct (ww_isfile w p) eqn:F.
        * destruct (Ht eq_refl) as ((c & Hc) & Hm). rewrite Hc.
          destruct (ww_modkey w p) as [k| |e] eqn:M.
          -- destruct Hi as [[S K]|S]; rewrite S; [now left | now right].
          -- destruct Hi as [[S _]|[[S _]|[S K]]]; rewrite S; [left; auto | right; left; auto | right; right; auto].
          -- exfalso; eapply Hm; eauto.
        * destruct (Hfalse eq_refl) as ((e & He) & _). now rewrite He.
    - (* ModKey *)
      destruct Hv as [[Hv Hd]|(r & Hv & Hi)]; subst v.
      + subst done. unfold file_inv. eexists. split; [reflexivity|]. cbn [wd_state wd_key wd_contents].
        destruct (ww_isfile w p) eqn:F.
        * destruct (Ht eq_refl) as ((c & Hc) & Hm).
          destruct (ww_modkey w p) as [k| |e] eqn:M; [now left | | exfalso; eapply Hm; eauto].
          left. split; [reflexivity|]. right. intros (q0 & [H|[]]). discriminate.
        * destruct (Hfalse eq_refl) as (_ & (e & He)). now rewrite He.
      + unfold file_inv. eexists. split; [reflexivity|]. cbn [wd_state wd_key wd_contents].
        destruct (ww_isfile w p) eqn:F.
        * destruct (Ht eq_refl) as ((c & Hc) & Hm).
          destruct (ww_modkey w p) as [k| |e] eqn:M.
          -- destruct Hi as [[S K]|S]; rewrite S; left; auto.
          -- destruct Hi as [[S [C|C]]|[[S C]|[S K]]]; rewrite S; cbn [mk_key].
             ++ left. split; [reflexivity|now left].
             ++ left. split; [reflexivity|]. right. intros (q0 & Hq). apply C.
                apply in_app_or in Hq as [Hq|[Hq|[]]]; [now exists q0|discriminate].
             ++ right; right; auto.
             ++ right; right; auto.
          -- exfalso; eapply Hm; eauto.
        * now rewrite Hi.
  Qed.

  Lemma file_inv_fold ops : forall v done,
    forallb is_file_op ops = true -> ops <> [] ->
    (v = (None, None) /\ done = [] \/ file_inv v done) ->
    file_inv (fold_left (vstep w p) ops v) (done ++ ops).
  Proof.
    induction ops as [|o ops IH]; intros v done Hf Hne Hv; [contradiction|].
    cbn [forallb] in Hf. apply andb_true_iff in Hf as [H1 H2]. cbn [fold_left].
    replace (done ++ o :: ops) with ((done ++ [o]) ++ ops) by (rewrite <- app_assoc; reflexivity).
    pose proof (file_inv_step v done o H1 Hv) as Hi.
    destruct ops as [|o2 ops2]; [now rewrite app_nil_r|].
    apply IH; [exact H2|discriminate|now right].
  Qed.

  (* the ReadFile step of the invariant also pins the contents once a read
     was processed in the unusable state; for the readable-with-key case the
     contents are recovered through ModKeySound *)
  Lemma file_covered v done r :
    file_inv v done -> fst v = Some r -> dirty1 w' p (finalize1 w p r) = false ->
    forall o, In o done -> obs_path o = p -> is_file_op o = true -> answer_of w o = answer_of w' o.
  Proof.
    intros (r0 & Hv & Hi) Hr Hc o Hin Hpath Hf. subst v. simpl in Hr. inversion Hr; subst r0; clear Hr.
    destruct Hcoh as [Ht Hfalse]. destruct Hcoh' as [Ht' Hfalse'].
    assert (Hans : (ww_read w' p = ww_read w p \/ (exists e e', ww_read w p = RdErr e /\ ww_read w' p = RdErr e') \/
                    (~ seen_read done /\ exists c, ww_read w' p = RdOk c)) /\
                   ((forall e, ww_modkey w p <> MKErr e) /\ (forall e, ww_modkey w' p <> MKErr e) \/
                    (exists e e', ww_modkey w p = MKErr e /\ ww_modkey w' p = MKErr e'))).
    { destruct (ww_isfile w p) eqn:F.
      - destruct (Ht eq_refl) as ((c & Hrd) & Hm).
        assert (Hex' : forall c', ww_read w' p = RdOk c' -> forall e, ww_modkey w' p <> MKErr e).
        { intros c' Hc' e He. destruct (ww_isfile w' p) eqn:F'; [eapply (proj2 (Ht' eq_refl)); eauto|].
          destruct (Hfalse' eq_refl) as ((e1 & He1) & _). congruence. }
        destruct (ww_modkey w p) as [k| |e] eqn:M; [| |exfalso; eapply Hm; eauto].
        + (* usable key *)
          assert (Hfin : wd_state (finalize1 w p r) = SFileHasModKey /\ wd_key (finalize1 w p r) = k).
          { unfold finalize1. destruct Hi as [[S K]|S]; rewrite S; [auto|]. rewrite M. auto. }
          destruct Hfin as [S K]. unfold dirty1 in Hc. rewrite S, K in Hc.
          destruct (ww_modkey w' p) as [k'| |] eqn:M'; try discriminate.
          apply negb_false_iff in Hc. apply zlist_eqb_eq in Hc. subst k'.
          pose proof (Hsound k eq_refl eq_refl) as Hs. split; [now left|]. left. split; [congruence|].
          intros e0; discriminate.
        + (* unusable key *)
          destruct Hi as [[S C]|[[S C]|[S K]]].
          * unfold finalize1, dirty1 in Hc. rewrite S in Hc. rewrite S in Hc.
            destruct (ww_read w' p) as [c'|] eqn:R'; [|discriminate].
            apply negb_false_iff in Hc. apply Z.eqb_eq in Hc. subst c'.
            split; [|left; split; [congruence|eapply Hex'; eauto]].
            destruct C as [C|C]; [left; congruence|]. right; right. split; [exact C|eauto].
          * unfold finalize1 in Hc. rewrite S, M in Hc. unfold dirty1 in Hc. cbn [wd_state wd_contents] in Hc.
            destruct (ww_read w' p) as [c'|] eqn:R'; [|discriminate].
            apply negb_false_iff in Hc. apply Z.eqb_eq in Hc. subst c'.
            split; [left; congruence|left; split; [congruence|eapply Hex'; eauto]].
          * exfalso. unfold finalize1, dirty1 in Hc. rewrite S in Hc. rewrite S, K in Hc.
            destruct (ww_modkey w' p) as [k'| |] eqn:M'; try discriminate.
            apply negb_false_iff in Hc. apply zlist_eqb_eq in Hc. exact (Hkey' k' eq_refl Hc).
      - destruct (Hfalse eq_refl) as ((e & He) & (e2 & He2)).
        unfold finalize1, dirty1 in Hc. rewrite Hi in Hc. rewrite Hi in Hc.
        destruct (Hfalse' Hc) as ((e' & He') & (e2' & He2')).
        split; [right; left; eauto | right; eauto]. }
    destruct Hans as [Hrd Hmk].
    destruct o as [d|d n|d|q|q|d n]; try discriminate; cbn [obs_path] in Hpath; subst q; cbn [answer_of].
    - destruct Hrd as [E|[(e & e' & E1 & E2)|[Hn _]]].
      + now rewrite E.
      + now rewrite E1, E2.
      + exfalso. apply Hn. now exists p.
    - destruct Hmk as [[H1 H2]|(e & e' & E1 & E2)].
      + destruct (ww_modkey w p) eqn:A; destruct (ww_modkey w' p) eqn:B; try reflexivity;
          solve [exfalso; eapply H1; eauto | exfalso; eapply H2; eauto].
      + now rewrite E1, E2.
  Qed.
End File.

(* ---------- all paths together ---------- *)

(* a path is observed either as a directory (its first observation is the
   ReadDirectory that yields the entries the later Get/SortedKeys calls use)
   or as a file; never both (finding F is what happens otherwise) *)
Definition wf_path (log : list obs) (p : path) : Prop :=
  (exists rest, proj p log = OReadDir p :: rest /\ forallb is_dir_op rest = true) \/
  forallb is_file_op (proj p log) = true.

Definition file_hyps (w w' : wworld) (p : path) : Prop :=
  coherent_at w p /\ coherent_at w' p /\
  (forall k, ww_modkey w p = MKOk k -> ww_modkey w' p = MKOk k -> ww_read w' p = ww_read w p) /\
  (forall k, ww_modkey w' p = MKOk k -> k <> []).

Lemma watch_covers_nonkind w w' log :
  (forall o, In o log -> wf_path log (obs_path o)) ->
  (forall o, In o log -> is_file_op o = true -> file_hyps w w' (obs_path o)) ->
  clean w' (finalize w (record w log)) = true ->
  forall o, In o log -> is_kind_op o = false -> answer_of w o = answer_of w' o.
Proof.
  intros Hwf Hfile Hclean o Hin Hnk.
  remember (obs_path o) as p eqn:Hp.
  assert (Hproj : In o (proj p log)) by (apply filter_In; split; [exact Hin|subst p; apply Z.eqb_refl]).
  pose proof (view_record w p log) as Hview.
  pose proof (Hwf o Hin) as W. rewrite <- Hp in W.
  destruct W as [(rest & Hops & Hrest)|Hf].
  - (* directory *)
    rewrite Hops in Hview, Hproj. cbn [fold_left] in Hview.
    pose proof (dir_inv_fold w p rest _ _ Hrest (dir_inv_start w p)) as Hinv.
    rewrite <- Hview in Hinv.
    pose proof Hinv as (a & Hv & Hrest').
    assert (Hl : lookup p (wf_data (record w log)) = Some (mkWd (Some a) 0 [] (dir_state (ww_readdir w p)))).
    { unfold view in Hv. now inversion Hv. }
    pose proof (clean_spec w w' _ _ _ Hclean Hl) as Hd.
    assert (Hdo : is_dir_op o = true).
    { destruct Hproj as [H|H]; [now subst o|]. rewrite forallb_forall in Hrest. now apply Hrest. }
    eapply (dir_covered w w' p (view p (record w log)) ([OReadDir p] ++ rest)).
    + exact Hinv.
    + rewrite Hv. reflexivity.
    + exact Hd.
    + exact Hproj.
    + now symmetry.
    + exact Hdo.
    + exact Hnk.
  - (* file *)
    assert (Hfo : is_file_op o = true) by (rewrite forallb_forall in Hf; now apply Hf).
    pose proof (Hfile o Hin Hfo) as C. rewrite <- Hp in C. destruct C as (C1 & C2 & C3 & C4).
    assert (Hne : proj p log <> []) by (intro N; rewrite N in Hproj; contradiction).
    pose proof (file_inv_fold w w' p C1 C3 (proj p log) (None, None) [] Hf Hne (or_introl (conj eq_refl eq_refl))) as Hinv.
    rewrite <- Hview in Hinv. cbn [app] in Hinv.
    pose proof Hinv as (r & Hv & Hi).
    assert (Hl : lookup p (wf_data (record w log)) = Some r) by (unfold view in Hv; now inversion Hv).
    pose proof (clean_spec w w' _ _ _ Hclean Hl) as Hd.
    eapply (file_covered w w' p C1 C2 C3 C4 (view p (record w log)) (proj p log)).
    + exact Hinv.
    + rewrite Hv. reflexivity.
    + exact Hd.
    + exact Hproj.
    + now symmetry.
    + exact Hfo.
Qed.

(* ---------- entry kinds ----------
   Entry.Kind / Entry.Symlink leave no watch record.  For a plain entry (no
   symlink involved) the answer is nevertheless determined by observations
   that ARE recorded, because of how the resolver uses it: the entry came from
   a Get on the directory, an entry found to be a file is then read, an entry
   found to be a directory is then listed. *)
Definition kind_hyps (child : path -> name -> path) (w : wworld) (d : path) (n : name) : Prop :=
  snd (ww_kind w d n) = None /\                                   (* no symlink resolution *)
  (fst (ww_kind w d n) = 2 <-> ww_isfile w (child d n) = true) /\
  (fst (ww_kind w d n) = 1 <-> ww_readdir w (child d n) <> None) /\
  (fst (ww_kind w d n) = 0 \/ fst (ww_kind w d n) = 1 \/ fst (ww_kind w d n) = 2) /\
  (forall names, ww_readdir w d = Some names ->
     (fst (ww_kind w d n) <> 0 <-> name_in (lower n) (map lower names) = true)) /\
  (ww_readdir w d = None -> fst (ww_kind w d n) = 0).

Definition kind_companions (child : path -> name -> path) (log : list obs) (w : wworld) (d : path) (n : name) : Prop :=
  In (OGet d n) log /\
  (fst (ww_kind w d n) = 2 -> In (OReadFile (child d n)) log) /\
  (fst (ww_kind w d n) = 1 -> In (OReadDir (child d n)) log).

Lemma watch_covers_observations_all (child : path -> name -> path) w w' log :
  (forall o, In o log -> wf_path log (obs_path o)) ->
  (forall o, In o log -> is_file_op o = true -> file_hyps w w' (obs_path o)) ->
  (forall d n, In (OKind d n) log ->
     kind_hyps child w d n /\ kind_hyps child w' d n /\ kind_companions child log w d n) ->
  clean w' (finalize w (record w log)) = true ->
  all_same w w' log = true.
Proof.
  intros Hwf Hfile Hkind Hclean. unfold all_same. apply forallb_forall. intros o Hin.
  assert (E : answer_of w o = answer_of w' o); [|rewrite E; apply answer_eqb_refl].
  destruct (is_kind_op o) eqn:K; [|now apply (watch_covers_nonkind w w' log)].
  destruct o as [d|d n|d|q|q|d n]; try discriminate.
  destruct (Hkind d n Hin) as ((S1 & F1 & D1 & T1 & P1 & U1) & (S2 & F2 & D2 & T2 & P2 & U2) & (CG & CF & CD)).
  pose proof (watch_covers_nonkind w w' log Hwf Hfile Hclean) as NK.
  cbn [answer_of]. rewrite S1, S2. f_equal.
  destruct T1 as [T1|[T1|T1]].
  - (* not an entry (or neither file nor directory) on w: the Get observation pins presence *)
    pose proof (NK (OGet d n) CG eq_refl) as G. cbn [answer_of] in G.
    rewrite T1. symmetry.
    destruct (ww_readdir w d) as [names|] eqn:R; destruct (ww_readdir w' d) as [names'|] eqn:R'; try discriminate.
    + inversion G as [G1].
      destruct (Z.eq_dec (fst (ww_kind w' d n)) 0) as [Z0|NZ]; [exact Z0|exfalso].
      apply (P2 names' eq_refl) in NZ. rewrite <- G1 in NZ. apply (P1 names eq_refl) in NZ. contradiction.
    + now apply U2.
  - (* a directory on w: it was listed *)
    pose proof (NK (OReadDir (child d n)) (CD T1) eq_refl) as G. cbn [answer_of] in G.
    rewrite T1. symmetry. apply D2. apply D1 in T1.
    destruct (ww_readdir w (child d n)); [|contradiction].
    destruct (ww_readdir w' (child d n)); [discriminate|discriminate].
  - (* a file on w: it was read *)
    pose proof (NK (OReadFile (child d n)) (CF T1) eq_refl) as G. cbn [answer_of] in G.
    rewrite T1. symmetry. apply F2. apply F1 in T1.
    destruct (Hfile (OReadFile (child d n)) (CF (proj2 F1 T1)) eq_refl) as ((Ct & _) & (Ct' & Cf') & _).
    cbn [obs_path] in *.
    destruct (Ct T1) as ((c & Hc) & _). rewrite Hc in G.
    destruct (ww_isfile w' (child d n)) eqn:I'; [reflexivity|exfalso].
    destruct (Cf' eq_refl) as ((e & He) & _). rewrite He in G. discriminate.
Qed.

(* ---------- the statement without the "never both" hypothesis is false ----------
   finding F: the directory 1 is listed, entry "b.ts" is looked up and absent,
   then path 1 is read as a file (EISDIR): the record of the directory becomes
   stateFileMissing; on w', where b.ts exists, no predicate is dirty although the
   Get observation answers differently *)
Definition f_bts : name := [98; 46; 116; 115].
Definition f_bjs : name := [98; 46; 106; 115].
Definition f_w : wworld :=
  mkWw (fun p => if p =? 1 then Some [f_bjs] else None) (fun _ => RdErr 21) (fun p => if p =? 1 then MKOk [1;1] else MKErr 2) (fun _ => false) (fun _ _ => (0, None)).
Definition f_w' : wworld :=
  mkWw (fun p => if p =? 1 then Some [f_bjs; f_bts] else None) (fun _ => RdErr 21) (fun p => if p =? 1 then MKOk [1;2] else MKErr 2) (fun _ => false) (fun _ _ => (0, None)).
Definition f_log : list obs := [OReadDir 1; OGet 1 f_bts; OModKey 1; OReadFile 1].

Lemma watch_unrestricted_refuted :
  clean f_w' (finalize f_w (record f_w f_log)) = true /\ all_same f_w f_w' f_log = false.
Proof. split; vm_compute; reflexivity. Qed.

(* finding G: directory 1 has the entry link.js, a symlink.  On w it resolves
   to file 5 (x.js), which the build reads; on w' the link was re-pointed to
   file 6 (y.js).  Nothing that was recorded changed. *)
Definition g_link : name := [108; 105; 110; 107; 46; 106; 115].
Definition g_world (target : Z) : wworld :=
  mkWw (fun p => if p =? 1 then Some [g_link] else None)
       (fun p => if (p =? 5) || (p =? 6) then RdOk (p * 10) else RdErr 2)
       (fun p => if (p =? 5) || (p =? 6) then MKOk [p; 1] else MKErr 2)
       (fun p => (p =? 5) || (p =? 6))
       (fun d n => if (d =? 1) && name_eqb n g_link then (2, Some target) else (0, None)).
Definition g_log : list obs := [OReadDir 1; OGet 1 g_link; OKind 1 g_link; OModKey 5; OReadFile 5].

Lemma watch_symlink_retarget_refuted :
  clean (g_world 6) (finalize (g_world 5) (record (g_world 5) g_log)) = true /\
  all_same (g_world 5) (g_world 6) g_log = false.
Proof. split; vm_compute; reflexivity. Qed.

(* finding G2: the link is dangling on w (kind 0: EvalSymlinks fails) and the
   build stops there; on w' its target exists *)
Definition g2_world (dangling : bool) : wworld :=
  mkWw (fun p => if p =? 1 then Some [g_link] else None)
       (fun p => if (p =? 5) && negb dangling then RdOk 50 else RdErr 2)
       (fun p => if (p =? 5) && negb dangling then MKOk [5; 1] else MKErr 2)
       (fun p => (p =? 5) && negb dangling)
       (fun d n => if (d =? 1) && name_eqb n g_link then (if dangling then (0, None) else (2, Some 5)) else (0, None)).
Definition g2_log : list obs := [OReadDir 1; OGet 1 g_link; OKind 1 g_link].

Lemma watch_dangling_symlink_refuted :
  clean (g2_world false) (finalize (g2_world true) (record (g2_world true) g2_log)) = true /\
  all_same (g2_world true) (g2_world false) g2_log = false.
Proof. split; vm_compute; reflexivity. Qed.
