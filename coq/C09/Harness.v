(* Checkers evaluated by the correspondence run: each returns the indices of
   the cases on which the model and the implementation's observed output
   differ. *)
From V Require Import Common.Base C09.Cache C09.OptionFields.
From V Require Import gen.OptionFieldsGen.
Require Import Coq.Strings.String.
Open Scope string_scope.
Open Scope Z_scope.

Fixpoint mism_from {A} (f : A -> bool) (l : list A) (i : nat) : list nat :=
  match l with
  | [] => []
  | x :: r => if f x then mism_from f r (S i) else i :: mism_from f r (S i)
  end.
Definition mismatches {A} (f : A -> bool) (l : list A) : list nat := mism_from f l 0.

(* encodings used by the Go harness:
   ModKey answer: 0 :: k = (k, nil) ; [1] = modKeyUnusable ; [2; e] = error e
   ReadFile answer / result: [0; c] = contents c ; [1; e] = error e *)
Definition dec_mk (l : list Z) : mkres :=
  match l with
  | 0 :: k => MKOk k
  | [1] => MKUnusable
  | [_; e] => MKErr e
  | _ => MKErr (-1)
  end.
Definition dec_rd (l : list Z) : rdres :=
  match l with
  | [0; c] => RdOk c
  | [_; e] => RdErr e
  | _ => RdErr (-1)
  end.

(* one step: path, ModKey answer, ReadFile answer, observed result, observed "fs.ReadFile was called" *)
Definition fs_step := (Z * list Z * list Z * list Z * bool)%type.

Fixpoint fs_steps_ok (c : fscache) (l : list fs_step) : bool :=
  match l with
  | [] => true
  | (p, mk, rd, obs, called) :: r =>
      let '(res, c', cl) := FSCache_ReadFile c p (dec_mk mk) (dec_rd rd) in
      rdres_eqb res (dec_rd obs) && Bool.eqb cl called && fs_steps_ok c' r
  end.
(* a case is a whole history on a fresh FSCache *)
Definition check_fscache := mismatches (fs_steps_ok []).

(* SourceIndexCache.Get: (first free index, keys, observed indices) *)
Definition si_ok_case (c : Z * list Z * list Z) : bool :=
  let '(next, keys, obs) := c in zlist_eqb (run_si (mkSi [] next) keys) obs.
Definition check_si := mismatches si_ok_case.

(* option comparison of the real caches, one field toggled at a time:
   (cache: 0 js 1 css 2 json, flattened field name, observed "second lookup was a hit") *)
Definition table_of (c : Z) : list ofield :=
  if c =? 0 then js_option_fields else if c =? 1 then css_option_fields else json_option_fields.
Definition opteq_ok (c : Z * string * bool) : bool :=
  let '(cache, name, hit) := c in
  match predicted_hit (table_of cache) name with
  | Some h => Bool.eqb h hit
  | None => false
  end.
Definition check_opteq := mismatches opteq_ok.

(* every inventory field that OptionsFromConfig sets was toggled by the harness:
   one case per cache = (cache, names toggled); mismatch if some field is missing *)
Definition opteq_complete_ok (c : Z * list string) : bool :=
  let '(cache, names) := c in
  forallb (fun f => negb (of_set f) || str_in (of_name f) names) (table_of cache).
Definition check_opteq_complete := mismatches opteq_complete_ok.
