(* Checkers evaluated by the correspondence run: each returns the indices of
   the cases on which the model and the implementation's observed output
   differ. *)
From V Require Import Common.Base C09.Cache.

Fixpoint mism_from {A} (f : A -> bool) (l : list A) (i : nat) : list nat :=
  match l with
  | [] => []
  | x :: r => if f x then mism_from f r (S i) else i :: mism_from f r (S i)
  end.
Definition mismatches {A} (f : A -> bool) (l : list A) : list nat := mism_from f l 0.

(* encodings used by the Go harness:
   ModKey answer: 0 :: k = (k, nil) ; [1] = modKeyUnusable ; [2; e] = error e
   ReadFile answer / result: [0; c] = contents c ; [1; e] = error e *)
Definition dec_mk (l : list Z) : mkres :=
  match l with
  | 0 :: k => MKOk k
  | [1] => MKUnusable
  | [_; e] => MKErr e
  | _ => MKErr (-1)
  end.
Definition dec_rd (l : list Z) : rdres :=
  match l with
  | [0; c] => RdOk c
  | [_; e] => RdErr e
  | _ => RdErr (-1)
  end.

(* one step: path, ModKey answer, ReadFile answer, observed result, observed "fs.ReadFile was called" *)
Definition fs_step := (Z * list Z * list Z * list Z * bool)%type.

Fixpoint fs_steps_ok (c : fscache) (l : list fs_step) : bool :=
  match l with
  | [] => true
  | (p, mk, rd, obs, called) :: r =>
      let '(res, c', cl) := FSCache_ReadFile c p (dec_mk mk) (dec_rd rd) in
      rdres_eqb res (dec_rd obs) && Bool.eqb cl called && fs_steps_ok c' r
  end.
(* a case is a whole history on a fresh FSCache *)
Definition check_fscache := mismatches (fs_steps_ok []).

(* SourceIndexCache.Get: (first free index, keys, observed indices) *)
Definition si_ok_case (c : Z * list Z * list Z) : bool :=
  let '(next, keys, obs) := c in zlist_eqb (run_si (mkSi [] next) keys) obs.
Definition check_si := mismatches si_ok_case.
