(* Checkers evaluated by the correspondence run: each returns the indices of
   the cases on which the model and the implementation's observed output
   differ. *)
From V Require Import Common.Base C09.Cache C09.OptionFields C09.Watch.
From V Require Import gen.OptionFieldsGen.
Require Import Coq.Strings.String.
Open Scope string_scope.
Open Scope Z_scope.

Fixpoint mism_from {A} (f : A -> bool) (l : list A) (i : nat) : list nat :=
  match l with
  | [] => []
  | x :: r => if f x then mism_from f r (S i) else i :: mism_from f r (S i)
  end.
Definition mismatches {A} (f : A -> bool) (l : list A) : list nat := mism_from f l 0.

(* encodings used by the Go harness:
   ModKey answer: 0 :: k = (k, nil) ; [1] = modKeyUnusable ; [2; e] = error e
   ReadFile answer / result: [0; c] = contents c ; [1; e] = error e *)
Definition dec_mk (l : list Z) : mkres :=
  match l with
  | 0 :: k => MKOk k
  | [1] => MKUnusable
  | [_; e] => MKErr e
  | _ => MKErr (-1)
  end.
Definition dec_rd (l : list Z) : rdres :=
  match l with
  | [0; c] => RdOk c
  | [_; e] => RdErr e
  | _ => RdErr (-1)
  end.

(* one step: path, ModKey answer, ReadFile answer, observed result, observed "fs.ReadFile was called" *)
Definition fs_step := (Z * list Z * list Z * list Z * bool)%type.

Fixpoint fs_steps_ok (c : fscache) (l : list fs_step) : bool :=
  match l with
  | [] => true
  | (p, mk, rd, obs, called) :: r =>
      let '(res, c', cl) := FSCache_ReadFile c p (dec_mk mk) (dec_rd rd) in
      rdres_eqb res (dec_rd obs) && Bool.eqb cl called && fs_steps_ok c' r
  end.
(* a case is a whole history on a fresh FSCache *)
Definition check_fscache := mismatches (fs_steps_ok []).

(* SourceIndexCache.Get: (first free index, keys, observed indices) *)
Definition si_ok_case (c : Z * list Z * list Z) : bool :=
  let '(next, keys, obs) := c in zlist_eqb (run_si (mkSi [] next) keys) obs.
Definition check_si := mismatches si_ok_case.

(* option comparison of the real caches, one field toggled at a time:
   (cache: 0 js 1 css 2 json, flattened field name, observed "second lookup was a hit") *)
Definition table_of (c : Z) : list ofield :=
  if c =? 0 then js_option_fields else if c =? 1 then css_option_fields else json_option_fields.
Definition opteq_ok (c : Z * string * bool) : bool :=
  let '(cache, name, hit) := c in
  match predicted_hit (table_of cache) name with
  | Some h => Bool.eqb h hit
  | None => false
  end.
Definition check_opteq := mismatches opteq_ok.

(* every inventory field that OptionsFromConfig sets was toggled by the harness:
   one case per cache = (cache, names toggled); mismatch if some field is missing *)
Definition opteq_complete_ok (c : Z * list string) : bool :=
  let '(cache, names) := c in
  forallb (fun f => negb (of_set f) || str_in (of_name f) names) (table_of cache).
Definition check_opteq_complete := mismatches opteq_complete_ok.

(* ---- watch data of the real FS ----
   world entry: (path, listing or None, ReadFile answer, ModKey answer, isfile) *)
Definition wentry := (Z * option (list name) * list Z * list Z * bool)%type.
(* entry kinds of a world: (directory, entry name, kind, is a symlink, EvalSymlinks result or None) *)
Definition kentry := (Z * name * Z * bool * option Z)%type.
Definition mk_world_k (l : list wentry) (ks : list kentry) : wworld :=
  let find p := List.find (fun e : wentry => let '(q, _, _, _, _) := e in q =? p) l in
  let findk d n := List.find (fun e : kentry => let '(q, m, _, _, _) := e in (q =? d) && name_eqb m n) ks in
  mkWw (fun p => match find p with Some (_, d, _, _, _) => d | None => None end)
       (fun p => match find p with Some (_, _, r, _, _) => dec_rd r | None => RdErr 2 end)
       (fun p => match find p with Some (_, _, _, m, _) => dec_mk m | None => MKErr 2 end)
       (fun p => match find p with Some (_, _, _, _, b) => b | None => false end)
       (fun d n => match findk d n with Some (_, _, k, _, _) => k | None => 0 end)
       (fun d n => match findk d n with Some (_, _, _, b, _) => b | None => false end)
       (fun d n => match findk d n with Some (_, _, _, _, e) => e | None => None end).
Definition mk_world (l : list wentry) : wworld := mk_world_k l [].

(* op: (kind, path, name) kind 0 ReadDirectory 1 Get 2 SortedKeys 3 ReadFile 4 ModKey 5 Entry.Kind *)
Definition dec_obs (o : Z * Z * name) : obs :=
  let '(k, p, n) := o in
  if k =? 0 then OReadDir p else if k =? 1 then OGet p n else if k =? 2 then OSortedKeys p
  else if k =? 3 then OReadFile p else if k =? 4 then OModKey p else OKind p n.

(* observed record: (path, state code, key, contents, wasPresent sorted by key, allEntries or None) *)
Definition wobs := (Z * Z * list Z * Z * list (name * bool) * option (list name) * list (name * option Z))%type.

Fixpoint insert_pb (x : name * bool) (l : list (name * bool)) : list (name * bool) :=
  match l with
  | [] => [x]
  | y :: r => if name_ltb (fst y) (fst x) then y :: insert_pb x r else x :: l
  end.
Definition sort_pb (l : list (name * bool)) := fold_right insert_pb [] l.
Definition pb_eqb (a b : list (name * bool)) : bool :=
  list_eqb (fun x y => name_eqb (fst x) (fst y) && Bool.eqb (snd x) (snd y)) a b.

Fixpoint insert_nl (x : name * option Z) (l : list (name * option Z)) : list (name * option Z) :=
  match l with
  | [] => [x]
  | y :: r => if name_ltb (fst y) (fst x) then y :: insert_nl x r else x :: l
  end.
Definition sort_nl (l : list (name * option Z)) := fold_right insert_nl [] l.
Definition nl_eqb (a b : list (name * option Z)) : bool :=
  list_eqb (fun x y => name_eqb (fst x) (fst y) && option_eqb Z.eqb (snd x) (snd y)) a b.

Definition wobs_ok (f : wfs) (o : wobs) : bool :=
  let '(p, st, key, c, pres, all, links) := o in
  match lookup p (wf_data f) with
  | None => false
  | Some r =>
      (wstate_code (wd_state r) =? st) && zlist_eqb (wd_key r) key && (wd_contents r =? c) &&
      match wd_acc r with
      | Some a => pb_eqb (sort_pb (present_map (ac_present a) [])) pres && option_eqb names_eqb (ac_all a) all
                  && nl_eqb (sort_nl (link_map (ac_links a) [])) links
      | None => match pres, all, links with [], None, [] => true | _, _, _ => false end
      end
  end.

Fixpoint insert_z (x : Z) (l : list Z) : list Z :=
  match l with [] => [x] | y :: r => if y <? x then y :: insert_z x r else x :: l end.
Definition sort_z (l : list Z) := fold_right insert_z [] l.

(* (world at build time with its entry kinds, log, observed records, world after the edit with its entry kinds,
   observed dirty paths (sorted)) *)
Definition watch_case := (list wentry * list kentry * list (Z * Z * name) * list wobs * list wentry * list kentry * list Z)%type.
Definition watch_ok (c : watch_case) : bool :=
  let '(w, ks, log, obsd, w2, ks2, dirty) := c in
  let f := record (mk_world_k w ks) (map dec_obs log) in
  Nat.eqb (List.length (newest (wf_data f) [])) (List.length obsd) &&
  forallb (wobs_ok f) obsd &&
  zlist_eqb (sort_z (dirty_paths (mk_world_k w2 ks2) (finalize (mk_world_k w ks) f))) dirty.
Definition check_watch := mismatches watch_ok.

(* ---- the resolver's cached JSON read: FSCache.ReadFile then JSONCache.Parse ----
   source = (path, contents id); JSON options = an integer compared with ==;
   the parsed value of contents id c is c itself (the harness writes {"v": c}) *)
From V Require Import C09.CacheSet.
Definition jsrc := (Z * Z)%type.
Definition jsrc_eqb (a b : jsrc) : bool := (fst a =? fst b) && (snd a =? snd b).
Definition jparse_id (s : jsrc) (o : Z) : Z := snd s.

(* one step: path, ModKey answer, ReadFile answer, JSON options, observed value (-1 = unreadable),
   observed "fs.ReadFile was called", observed "JSONCache returned a stored expression" *)
Definition json_step := (Z * list Z * list Z * Z * Z * bool * bool)%type.

Definition json_world (p : Z) (mk rd : list Z) : world :=
  mkWorld (fun q => if q =? p then dec_mk mk else MKErr 2) (fun q => if q =? p then dec_rd rd else RdErr 2).

Fixpoint json_steps_ok (c : cacheset jsrc Z Z Z Z Z Z) (l : list json_step) : bool :=
  match l with
  | [] => true
  | (p, mk, rd, opt, obs, called, hit) :: r =>
      (* the two caches step by step, as the resolver calls them *)
      let '(res, fc, cl) := FSCache_ReadFile (cs_fs c) p (dec_mk mk) (dec_rd rd) in
      let '(val, m, h) :=
        match res with
        | RdOk cts => let '(x, m, h) := memo_parse fst jsrc_eqb Z.eqb jparse_id (cs_json c) (p, cts) opt in (x, m, h)
        | RdErr _ => (-1, cs_json c, false)
        end in
      (* the same read as a program of the cache-set interface *)
      let '(val2, c2) :=
        run_cached3 jsrc Z Z Z Z Z Z Z fst jsrc_eqb Z.eqb Z.eqb Z.eqb jparse_id jparse_id jparse_id
          (json_world p mk rd) c
          (read_json (fun p c => (p, c)) p opt (fun x => Ret3 (match x with Some v => v | None => -1 end))) in
      (val =? obs) && Bool.eqb cl called && Bool.eqb h hit && (val2 =? obs) &&
      json_steps_ok c2 r
  end.
Definition check_jsonread := mismatches (json_steps_ok cs_empty).
