(* C09 model, part 2: what the caches' option comparison covers, over the
   inventory that translator T3 regenerates from the Go sources on every run
   (V.gen.OptionFieldsGen: every flattened field of js_parser.Options,
   css_parser.Options and js_parser.JSONOptions with "set by OptionsFromConfig",
   "read by the parser package" and "how Equal treats it").
   Executable definitions only. *)
From V Require Import Common.Base C09.Cache.
From V Require Import gen.OptionFieldsGen.
Require Import Coq.Strings.String.
Open Scope string_scope.
Open Scope Z_scope.

Definition is_compared (c : ocmp) : bool :=
  match c with CmpStructural | CmpDirect => true | CmpAssertOnly | CmpNone => false end.

Definition str_in (s : string) (l : list string) : bool := existsb (String.eqb s) l.

(* Fields the parser reads that need not be compared, each with its reason:
   - defines: the pointer differs per build; the contents are derived from the
     context's fixed build options (Equal asserts the sizes);
   - jsx.*.InjectedDefineIndex: only "--define" entries backed by injected
     files carry an index (pkg/api/api_impl.go); JSX factory/fragment
     expressions are built by validateJSXExpr with Parts/Constant only, so the
     field is always the zero value;
   - injectedFiles[].IsCopyLoader: the loader of an injected file, a function
     of the file's path and the context's fixed loader table. *)
Definition js_irrelevant : list string :=
  ["defines"; "jsx.Factory.InjectedDefineIndex"; "jsx.Fragment.InjectedDefineIndex";
   "injectedFiles[].IsCopyLoader"].

(* fields read by the parser, not compared by Equal and not justified *)
Definition uncovered (irr : list string) (fs : list ofield) : list string :=
  map of_name (filter (fun f => of_read f && negb (is_compared (of_cmp f)) && negb (str_in (of_name f) irr)) fs).

Definition equal_covers (irr : list string) (fs : list ofield) : bool :=
  match uncovered irr fs with [] => true | _ => false end.

(* finding C (the five JSX fields Options.Equal used to omit) is fixed in
   /repo: jsx.Preserve, AutomaticRuntime, ImportSource, Development and
   SideEffects are compared; there is no known gap *)
Definition known_gap_C : list string := [].

(* --- the comparison as a function, for the memo-table theorems ---
   an options value assigns an (abstract) value to every field name *)
Definition oassign := string -> Z.

(* Equal over the inventory: all compared fields agree *)
Definition table_equal (fs : list ofield) (o o' : oassign) : bool :=
  forallb (fun f => negb (is_compared (of_cmp f)) || (o (of_name f) =? o' (of_name f))) fs.

Definition lookup_field (name : string) (fs : list ofield) : option ofield :=
  find (fun f => String.eqb (of_name f) name) fs.

(* expected outcome of a second cache lookup whose options differ from the
   first in exactly the named field: a hit iff the field is not compared *)
Definition predicted_hit (fs : list ofield) (name : string) : option bool :=
  match lookup_field name fs with
  | Some f => Some (negb (is_compared (of_cmp f)))
  | None => None
  end.
