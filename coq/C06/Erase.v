(* C06: erase / annotate at the token level.

   A typed program is a JavaScript token stream with type syntax placed at
   sites.  The parser knows from the JavaScript context which kind of type
   syntax may start at a position (after a binding: ": T"; after a parameter
   list: ": T" with predicates allowed; after an expression: "as T",
   "satisfies T", "!"; after a callee: "<T, U>"; before a class member:
   modifiers; after a name: "?") and calls the skipper there
   (internal/js_parser/js_parser.go: the call sites of skipTypeScriptType,
   skipTypeScriptReturnType, skipTypeScriptTypeArguments).  [shape] is that
   knowledge (site kinds without their payload); [erase] replays the parser on
   the typed token stream. *)
From V Require Import Common.Base C06.TsTokens C06.SkipType C06.SkipMono C06.TypeGrammar C06.SkipProofs C06.SkipProofs6.

Inductive site : Type :=
| SColon (t : ty)          (* ": T" on a binding, parameter, property *)
| SRet (t : ty)            (* ": T" return type *)
| SAs (sat : bool) (t : ty)  (* "as T" / "satisfies T" *)
| SBang                    (* postfix "!" (non-null / definite assignment) *)
| SArgs (ts : list ty)     (* "<T, U>" call / new / extends type arguments *)
| SMod (c : Z)             (* public private protected readonly declare abstract override *)
| SOpt.                    (* "?" on a parameter or member *)

Inductive elem : Type := J (t : token) | S (s : site).

Inductive kind : Type := KJ | KColonT | KRetT | KAsT | KBangT | KArgsT | KModT | KOptT.
Definition kind_of (e : elem) : kind :=
  match e with
  | J _ => KJ
  | S (SColon _) => KColonT | S (SRet _) => KRetT | S (SAs _ _) => KAsT | S SBang => KBangT
  | S (SArgs _) => KArgsT | S (SMod _) => KModT | S SOpt => KOptT
  end.
Definition shape (p : list elem) : list kind := map kind_of p.

Section Erase.
Variable mg : bool.

(* annotate: the typed token stream *)
Fixpoint typed (p : list elem) : toks :=
  match p with
  | [] => []
  | J t :: r => t :: typed r
  | S (SColon t) :: r => tk1 KColon :: R mg t (typed r)
  | S (SRet t) :: r => tk1 KColon :: R mg t (typed r)
  | S (SAs sat t) :: r => tk1 (KIdent (if sat then c_satisfies else c_as)) :: R mg t (typed r)
  | S SBang :: r => tk1 KBang :: typed r
  | S (SArgs ts) :: r => tk1 KLt :: join [tk1 KComma] (map (R mg) ts) (push_gt mg (typed r))
  | S (SMod c) :: r => tk1 (KIdent c) :: typed r
  | S SOpt :: r => tk1 KQuestion :: typed r
  end.

(* the untyped counterpart *)
Fixpoint untyped (p : list elem) : toks :=
  match p with
  | [] => []
  | J t :: r => t :: untyped r
  | S _ :: r => untyped r
  end.

(* the parser: JavaScript tokens are kept, type syntax is skipped *)
Fixpoint erase (n : nat) (ks : list kind) (ts : toks) : res toks :=
  match ks with
  | [] => match ts with [] => Ok [] | _ => Fail end
  | k :: kr =>
      match k with
      | KJ => match ts with t :: r => (o <- erase n kr r ;; Ok (t :: o)) | [] => Fail end
      | KColonT => r <- expect KColon ts ;; r' <- snd_of (run n (CType LLowest fl0 r)) ;; erase n kr r'
      | KRetT => r <- expect KColon ts ;; r' <- snd_of (run n (CType LLowest fl_ret r)) ;; erase n kr r'
      | KAsT => if is_ctx c_as ts || is_ctx c_satisfies ts
                then r' <- snd_of (run n (CType LLowest fl0 (tl ts))) ;; erase n kr r' else Fail
      | KBangT => r <- expect KBang ts ;; erase n kr r
      | KArgsT => '(code, r) <- run n (CArgs false ts) ;; if code =? 1 then erase n kr r else Fail
      | KModT => r <- expect_ident ts ;; erase n kr r
      | KOptT => r <- expect KQuestion ts ;; erase n kr r
      end
  end.

(* every site holds grammar types and is followed by a token that cannot
   continue a type *)
Fixpoint sites_ok (p : list elem) : bool :=
  match p with
  | [] => true
  | J _ :: r => sites_ok r
  | S (SColon t) :: r | S (SAs _ t) :: r => wfb t && follow_ok (typed r) && sites_ok r
  | S (SRet t) :: r => wf_ret_with wfb t && follow_ok (typed r) && sites_ok r
  | S (SArgs ts) :: r => match ts with [] => false | _ => forallb wfb ts end && sites_ok r
  | S _ :: r => sites_ok r
  end.

Lemma erase_annotate_all p : sites_ok p = true ->
  exists N, forall n, (N <= n)%nat -> erase n (shape p) (typed p) = Ok (untyped p).
Proof.
  induction p as [|e r IH]; intros H.
  - exists 0%nat. reflexivity.
  - destruct e as [t|s].
    + cbn [sites_ok] in H. destruct (IH H) as [N HN]. exists N. intros n Hn.
      cbn [shape map kind_of typed untyped erase]. fold (shape r). rewrite (HN n Hn). reflexivity.
    + destruct s; cbn [sites_ok] in H;
        repeat match goal with H : _ && _ = true |- _ => apply andb_true_iff in H as [? ?] end.
      * destruct (IH ltac:(assumption)) as [N HN].
        destruct (skip_exact_R mg t (typed r) LLowest fl0) as [N2 H2]; auto; try reflexivity.
        { unfold LLowest, LPrefix; lia. } { apply lvl_ok_lowest. }
        exists (N + N2)%nat. intros n Hn. cbn [shape map kind_of typed untyped erase]. fold (shape r).
        change (expect KColon (tk1 KColon :: R mg t (typed r))) with (Ok (A:=toks) (R mg t (typed r))).
        unfold bind, snd_of. rewrite H2 by lia. cbn iota. unfold bind. apply HN. lia.
      * destruct (IH ltac:(assumption)) as [N HN].
        destruct (skip_exact_ret mg t (typed r)) as [N2 H2]; auto.
        exists (N + N2)%nat. intros n Hn. cbn [shape map kind_of typed untyped erase]. fold (shape r).
        change (expect KColon (tk1 KColon :: R mg t (typed r))) with (Ok (A:=toks) (R mg t (typed r))).
        unfold bind, snd_of. rewrite H2 by lia. cbn iota. unfold bind. apply HN. lia.
      * destruct (IH ltac:(assumption)) as [N HN].
        destruct (skip_exact_R mg t (typed r) LLowest fl0) as [N2 H2]; auto; try reflexivity.
        { unfold LLowest, LPrefix; lia. } { apply lvl_ok_lowest. }
        exists (N + N2)%nat. intros n Hn. cbn [shape map kind_of typed untyped erase]. fold (shape r).
        assert (E : is_ctx c_as (tk1 (KIdent (if sat then c_satisfies else c_as)) :: R mg t (typed r))
                    || is_ctx c_satisfies (tk1 (KIdent (if sat then c_satisfies else c_as)) :: R mg t (typed r)) = true)
          by (destruct sat; reflexivity).
        rewrite E. cbn [tl]. unfold bind, snd_of. rewrite H2 by lia. cbn iota. apply HN. lia.
      * destruct (IH H) as [N HN]. exists N. intros n Hn.
        cbn [shape map kind_of typed untyped erase]. fold (shape r).
        change (expect KBang (tk1 KBang :: typed r)) with (Ok (A:=toks) (typed r)). unfold bind. apply HN. exact Hn.
      * destruct (IH ltac:(assumption)) as [N HN].
        assert (Hne : ts <> []) by (destruct ts; [discriminate|discriminate]).
        assert (W : forallb wfb ts = true) by (destruct ts; [discriminate|assumption]).
        destruct (Ev_all _ _ (cargs_ok mg ts (typed r) Hne W)) as [N2 H2].
        exists (N + N2)%nat. intros n Hn. cbn [shape map kind_of typed untyped erase]. fold (shape r).
        unfold bind. rewrite H2 by lia. cbn. apply HN. lia.
      * destruct (IH H) as [N HN]. exists N. intros n Hn.
        cbn [shape map kind_of typed untyped erase]. fold (shape r).
        change (expect_ident (tk1 (KIdent c) :: typed r)) with (Ok (A:=toks) (typed r)). unfold bind. apply HN. exact Hn.
      * destruct (IH H) as [N HN]. exists N. intros n Hn.
        cbn [shape map kind_of typed untyped erase]. fold (shape r).
        change (expect KQuestion (tk1 KQuestion :: typed r)) with (Ok (A:=toks) (typed r)). unfold bind. apply HN. exact Hn.
Qed.
End Erase.
