(* Checkers evaluated by the correspondence run (indices of mismatching cases). *)
From V Require Import Common.Base C06.TsTokens C06.SkipType C06.Enum C06.TsTarget C06.ParamProps.

Fixpoint mism_from {A} (f : A -> bool) (l : list A) (i : nat) : list nat :=
  match l with
  | [] => []
  | x :: r => if f x then mism_from f r (S i) else i :: mism_from f r (S i)
  end.
Definition mismatches {A} (f : A -> bool) (l : list A) : list nat := mism_from f l 0.

(* entry points of internal/js_parser/export_verif_c06.go *)
Definition call_of (which lvl flags : Z) (ts : toks) : call :=
  if which =? 0 then CType lvl (fl_of_Z flags) ts
  else if which =? 1 then CObject ts
  else if which =? 2 then CParams (Z.testbit flags 2) ts
  else if which =? 3 then CArgs (negb (flags =? 0)) ts
  else if which =? 4 then CFnArgs ts
  else if which =? 5 then CBinding ts
  else CTryArgsExpr ts.

(* (which, level, flags, tokens, Go returned without panic, Go result code,
    kinds of the tokens left in the Go lexer) *)
Definition skip_ok (c : Z * Z * Z * toks * bool * Z * list tk) : bool :=
  let '(which, lvl, flags, ts, ok, code, rest) := c in
  match run (fuel_for ts) (call_of which lvl flags ts) with
  | Ok (cd, r) =>
      ok && list_eqb tk_eqb (map fst r) rest
         && (if (which =? 2) || (which =? 3) || (which =? 6) then cd =? code else true)
  | Fail => negb ok
  | Oof => false
  end.
Definition check_skip := mismatches skip_ok.

Definition check_enum := mismatches enum_case_ok.

Definition check_target := mismatches target_case_ok.
Definition check_pp := mismatches pp_case_ok.
Definition check_resolve := mismatches resolve_case_ok.
