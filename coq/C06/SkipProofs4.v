(* C06: skip_exact, cases for function types and return positions (continues SkipProofs3.v) *)
From V Require Import Common.Base C06.TsTokens C06.SkipType C06.SkipMono C06.TypeGrammar C06.SkipProofs C06.SkipProofs2 C06.SkipProofs3.

Section Main4.
Variable mg : bool.
Notation R := (R mg).
Notation Kst := (Kst mg).
Notation Pst := (Pst mg).
Notation RetSt := (RetSt mg).
Notation ParamsSt := (ParamsSt mg).

Lemma bind_is (x : Z) Y : bind_ok x = true ->
  (is_ident (tk1 (bind_tk x) :: Y) || is KThis (tk1 (bind_tk x) :: Y)) = true.
Proof. intros _. unfold bind_tk. destruct (x <? 0); reflexivity. Qed.

(* return positions: a type, or an assertion signature *)
Lemma ret_st ret : Pst ret -> RetSt ret.
Proof.
  intros [K Kin] W post Hs Ht. destruct ret; try (apply K_delim; auto; fail).
  (* TAsserts x hasis ret *)
  cbn [wf_ret_with] in W. apply andb_true_iff in W as [Hx W]. cbn [R tail_ok] in *.
  destruct hasis.
  - apply type_of_prefix0.
    eapply (ev1 _ (CType LLowest fl0 (R ret post)) (0, post)); [apply K_delim; auto|].
    intros s E1. cbn [F]. unfold F_prefix. cbn [hd_tk tk1 fst tl].
    change (ident_kind c_asserts) with IkAsserts. cbn iota.
    unfold bind_tk. destruct (x <? 0); cbn; unfold type_at, snd_of, bind; rewrite E1; reflexivity.
  - apply andb_true_iff in Ht as [Hi Hl]. unfold no_is in Hi. apply negb_true_iff in Hi.
    eapply type_of_prefix; [|apply suffix_stop; exact Hs].
    assert (HA : EvA post post).
    { unfold no_lt in Hl. destruct (hd_nl post) eqn:E; [apply EvA_nl; exact E|]. apply EvA_nolt. cbn in Hl. apply negb_true_iff in Hl. exact Hl. }
    destruct HA as [N HA]. exists (S N). cbn [run F]. unfold F_prefix. cbn [hd_tk tk1 fst tl].
    change (ident_kind c_asserts) with IkAsserts. cbn iota.
    specialize (HA N (le_n N)). unfold args_opt in HA.
    unfold bind_tk. destruct (x <? 0); cbn [fRet fl_ret hd_nl tk1 snd negb andb is_ident hd_tk fst is tk_eqb orb tl];
      try (change (tk_eqb KThis KThis) with true); cbn [orb tl]; unfold ident_tail; rewrite Hi; cbn [andb];
      (destruct (hd_nl post); cbn [negb]; [inversion HA; subst; reflexivity|unfold bind; rewrite HA; reflexivity]).
Qed.

Lemma binding_ev x Y : bind_ok x = true -> Ev (CBinding (tk1 (bind_tk x) :: Y)) (0, Y).
Proof. intros _. apply ev0. intros s. cbn [F]. unfold F_binding, bind_tk. destruct (x <? 0); reflexivity. Qed.

Lemma params_loop : forall ps, Forall Pst ps -> ParamsSt ps.
Proof.
  induction ps as [|p l IH]; intros HP W post.
  - cbn [map join]. apply ev0. intros s. reflexivity.
  - inversion HP as [|? ? Pp Pl]; subst. cbn [wf_params_with] in W.
    destruct p; try discriminate. destruct Pp as [_ Kt].
    apply andb_true_iff in W as [W Wl]. apply andb_true_iff in W as [Hx Wt].
    specialize (IH Pl Wl post).
    assert (Hrest : exists rest, join [tk1 KComma] (map R (TParam dots x opt ann p :: l)) (tk1 KRParen :: post) = R (TParam dots x opt ann p) rest /\
              (rest = tk1 KRParen :: post \/
               (exists J, rest = tk1 KComma :: J /\ Ev (CFnArgLoop J) (0, post)))).
    { destruct l as [|y l'].
      - exists (tk1 KRParen :: post). split; [reflexivity|left; auto].
      - exists (tk1 KComma :: join [tk1 KComma] (map R (y :: l')) (tk1 KRParen :: post)). split; [reflexivity|].
        right. eexists; split; [reflexivity|exact IH]. }
    destruct Hrest as [rest [-> Hrest]]. clear IH.
    assert (Hst : stop_tk (hd_tk rest) = true /\ harmless (hd_tk rest) = true /\ is KQuestion rest = false /\ is KColon rest = false)
      by (destruct Hrest as [->|[J [-> _]]]; repeat split; reflexivity).
    destruct Hst as [S1 [S2 [S3 S4]]].
    cbn [R].
    set (after := if ann then tk1 KColon :: R p rest else rest).
    pose proof (binding_ev x (optq opt ++ after) Hx) as HB.
    assert (HT : ann = true -> Ev (CType LLowest fl0 (R p rest)) (0, rest)).
    { intros ->. apply K_delim; auto. apply tail_ok_harmless. exact S2. }
    assert (Hfirst : is KRParen (tk1 (bind_tk x) :: optq opt ++ after) = false /\ is KDotDotDot (tk1 (bind_tk x) :: optq opt ++ after) = false)
      by (unfold bind_tk; destruct (x <? 0); split; reflexivity).
    destruct Hfirst as [F1 F2].
    destruct Hrest as [->|[J [-> HJ]]].
    + (* last parameter *)
      destruct ann.
      * eapply ev2; [exact HB|exact (HT eq_refl)|]. intros s E1 E2. cbn [F]. unfold F_fnargloop.
        destruct dots; cbn [app]; [cbn [is tk1 fst tl]; change (tk_eqb KDotDotDot KRParen) with false; change (tk_eqb KDotDotDot KDotDotDot) with true; cbn iota|rewrite F1, F2];
          unfold snd_of, bind; rewrite E1; subst after; destruct opt; cbn; unfold type_at, snd_of, bind; rewrite E2; reflexivity.
      * eapply ev1; [exact HB|]. intros s E1. cbn [F]. unfold F_fnargloop.
        destruct dots; cbn [app]; [cbn [is tk1 fst tl]; change (tk_eqb KDotDotDot KRParen) with false; change (tk_eqb KDotDotDot KDotDotDot) with true; cbn iota|rewrite F1, F2];
          unfold snd_of, bind; rewrite E1; subst after; destruct opt; reflexivity.
    + destruct ann.
      * eapply ev3; [exact HB|exact (HT eq_refl)|exact HJ|]. intros s E1 E2 E3. cbn [F]. unfold F_fnargloop.
        destruct dots; cbn [app]; [cbn [is tk1 fst tl]; change (tk_eqb KDotDotDot KRParen) with false; change (tk_eqb KDotDotDot KDotDotDot) with true; cbn iota|rewrite F1, F2];
          unfold snd_of, bind; rewrite E1; subst after; destruct opt; cbn; unfold type_at, snd_of, bind; rewrite E2; cbn; exact E3.
      * eapply ev2; [exact HB|exact HJ|]. intros s E1 E3. cbn [F]. unfold F_fnargloop.
        destruct dots; cbn [app]; [cbn [is tk1 fst tl]; change (tk_eqb KDotDotDot KRParen) with false; change (tk_eqb KDotDotDot KDotDotDot) with true; cbn iota|rewrite F1, F2];
          unfold snd_of, bind; rewrite E1; subst after; destruct opt; cbn; exact E3.
Qed.

Lemma fnargs_ev ps post : Forall Pst ps -> wf_params_with wfb ps = true ->
  Ev (CFnArgs (tk1 KLParen :: join [tk1 KComma] (map R ps) (tk1 KRParen :: post))) (0, post).
Proof.
  intros HP W. eapply ev1; [apply (params_loop ps HP W post)|].
  intros s E1. cbn [F]. unfold F_fnargs. reflexivity || (cbn; exact E1).
Qed.

(* "( params ) => ret" through skipTypeScriptParenOrFnType *)
Lemma parenfn_ev ps ret post : Forall Pst ps -> wf_params_with wfb ps = true -> RetSt ret -> wf_ret_with wfb ret = true ->
  StopAll post -> tail_ok ret post = true ->
  Ev (CParenOrFn (tk1 KLParen :: join [tk1 KComma] (map R ps) (tk1 KRParen :: tk1 KArrow :: R ret post))) (0, post).
Proof.
  intros HP W HR Wr Hs Ht.
  eapply ev2; [apply (fnargs_ev ps (tk1 KArrow :: R ret post) HP W)|apply (HR Wr post Hs Ht)|].
  intros s E1 E2. cbn [F]. unfold F_parenorfn, snd_of, bind. rewrite E1. cbn. unfold type_at, snd_of, bind. rewrite E2. reflexivity.
Qed.

Lemma K_fn kind ps ret : Forall Pst ps -> Pst ret -> Kst (TFn kind ps ret).
Proof.
  intros HP Pr W lvl f post r Hl _ Hf Ht Hst Hs. cbn [wfb tail_ok prec] in *. specialize (Hst eq_refl).
  repeat match goal with H : _ && _ = true |- _ => apply andb_true_iff in H as [? ?] end.
  pose proof (parenfn_ev ps ret post HP ltac:(assumption) (ret_st ret Pr) ltac:(assumption) Hst Ht) as HF.
  remember (tk1 KLParen :: join [tk1 KComma] (map R ps) (tk1 KRParen :: tk1 KArrow :: R ret post)) as body eqn:EB.
  assert (ER : R (TFn kind ps ret) post =
     (if kind =? 2 then [tk1 (KIdent c_abstract); tk1 KNew] else if kind =? 1 then [tk1 KNew] else []) ++ body)
    by (subst body; reflexivity).
  rewrite ER. clear ER.
  assert (Hcq : colon_or_q body = false) by (subst body; reflexivity).
  assert (Hhd : hd_tk body = KLParen) by (subst body; reflexivity).
  assert (Hpar : Ev (CParams false body) (0, body)).
  { apply ev0. intros s. cbn [F]. unfold F_params. assert (E : is KLt body = false) by (subst body; reflexivity). rewrite E. reflexivity. }
  assert (Hplain : Ev (CPrefix lvl f body) (1, post)).
  { eapply ev1; [exact HF|]. intros s E1. cbn [F]. unfold F_prefix. rewrite Hhd. unfold snd_of, bind. rewrite E1. reflexivity. }
  assert (Hnew : Ev (CPrefix lvl f (tk1 KNew :: body)) (1, post)).
  { eapply ev2; [exact Hpar|exact HF|]. intros s E1 E2. cbn [F]. unfold F_prefix. cbn [hd_tk tk1 fst tl].
    rewrite Hcq, andb_false_r. unfold snd_of, bind. rewrite E1, E2. reflexivity. }
  eapply type_of_prefix; [|exact Hs].
  destruct (kind =? 2); [|destruct (kind =? 1); [exact Hnew|exact Hplain]].
  cbn [app]. eapply ev1; [exact Hnew|]. intros s E1. cbn [F]. unfold F_prefix. cbn [hd_tk tk1 fst tl].
  change (ident_kind c_abstract) with IkAbstract. cbn iota. cbn [is tk1 fst]. change (tk_eqb KNew KNew) with true. exact E1.
Qed.
End Main4.
