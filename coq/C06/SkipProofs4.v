(* C06: skip_exact, cases for function types and return positions (continues SkipProofs3.v) *)
From V Require Import Common.Base C06.TsTokens C06.SkipType C06.SkipMono C06.TypeGrammar C06.SkipProofs C06.SkipProofs2 C06.SkipProofs3.

(* n-ary version of ev1..ev4 *)
Lemma ev_list (l : list (call * (Z * toks))) c r :
  Forall (fun p => Ev (fst p) (snd p)) l ->
  (forall s, Forall (fun p => s (fst p) = Ok (snd p)) l -> F s c = Ok r) -> Ev c r.
Proof.
  intros Hl.
  assert (HN : exists N, forall m, (N <= m)%nat -> Forall (fun p => run m (fst p) = Ok (snd p)) l).
  { induction Hl as [|p l' Hp Hl' IH]; [exists 0%nat; intros; constructor|].
    destruct IH as [N1 H1]. apply Ev_all in Hp as [N2 H2]. exists (N1 + N2)%nat. intros m Hm.
    constructor; [apply H2; lia|apply H1; lia]. }
  intros H. destruct HN as [N HN]. exists (S N). cbn [run]. apply H. apply HN. lia.
Qed.

Ltac inv_forall :=
  repeat match goal with H : Forall _ (_ :: _) |- _ => inversion H; subst; clear H end;
  cbn [fst snd] in *.


Section Main4.
Variable mg : bool.
Notation R := (R mg).
Notation Kst := (Kst mg).
Notation Pst := (Pst mg).
Notation RetSt := (RetSt mg).
Notation ParamsSt := (ParamsSt mg).
Notation TParamsSt := (TParamsSt mg).
Notation tparamsR := (tparamsR mg).

Lemma bind_is (x : Z) Y : bind_ok x = true ->
  (is_ident (tk1 (bind_tk x) :: Y) || is KThis (tk1 (bind_tk x) :: Y)) = true.
Proof. intros _. unfold bind_tk. destruct (x <? 0); reflexivity. Qed.

(* return positions: a type, or an assertion signature *)
Lemma ret_st ret : Pst ret -> RetSt ret.
Proof.
  intros [K Kin] W post Hs Ht. destruct ret; try (apply K_delim; auto; fail).
  (* TAsserts x hasis ret *)
  cbn [wf_ret_with] in W. apply andb_true_iff in W as [Hx W]. cbn [R tail_ok] in *.
  destruct hasis.
  - apply type_of_prefix0.
    eapply (ev1 _ (CType LLowest fl0 (R ret post)) (0, post)); [apply K_delim; auto|].
    intros s E1. cbn [F]. unfold F_prefix. cbn [hd_tk tk1 fst tl].
    change (ident_kind c_asserts) with IkAsserts. cbn iota.
    unfold bind_tk. destruct (x <? 0); cbn; unfold type_at, snd_of, bind; rewrite E1; reflexivity.
  - apply andb_true_iff in Ht as [Hi Hl]. unfold no_is in Hi. apply negb_true_iff in Hi.
    eapply type_of_prefix; [|apply suffix_stop; exact Hs].
    assert (HA : EvA post post).
    { unfold no_lt in Hl. destruct (hd_nl post) eqn:E; [apply EvA_nl; exact E|]. apply EvA_nolt. cbn in Hl. apply negb_true_iff in Hl. exact Hl. }
    destruct HA as [N HA]. exists (S N). cbn [run F]. unfold F_prefix. cbn [hd_tk tk1 fst tl].
    change (ident_kind c_asserts) with IkAsserts. cbn iota.
    specialize (HA N (le_n N)). unfold args_opt in HA.
    unfold bind_tk. destruct (x <? 0); cbn [fRet fl_ret hd_nl tk1 snd negb andb is_ident hd_tk fst is tk_eqb orb tl];
      try (change (tk_eqb KThis KThis) with true); cbn [orb tl]; unfold ident_tail; rewrite Hi; cbn [andb];
      (destruct (hd_nl post); cbn [negb]; [inversion HA; subst; reflexivity|unfold bind; rewrite HA; reflexivity]).
Qed.

Lemma binding_ev x Y : bind_ok x = true -> Ev (CBinding (tk1 (bind_tk x) :: Y)) (0, Y).
Proof. intros _. apply ev0. intros s. cbn [F]. unfold F_binding, bind_tk. destruct (x <? 0); reflexivity. Qed.

(* ---- destructuring patterns (skipTypeScriptBinding) ---- *)
Lemma skip_commas_repeat h X : is KComma X = false -> skip_commas (repeat (tk1 KComma) h ++ X) = X.
Proof.
  intros H. induction h as [|h IH]; cbn [repeat app].
  - destruct X as [|[k n] r]; [reflexivity|]. destruct k; try reflexivity. discriminate.
  - cbn. exact IH.
Qed.

Definition BindSt (p : pat) : Prop := top_pat p = true -> forall Y, Ev (CBinding (Rp p Y)) (0, Y).
Definition BindSt' (p : pat) : Prop := BindSt p /\ match p with PRest q | PProp _ q => BindSt q | _ => True end.

Lemma pat_first p Y : top_pat p = true ->
  is KRBrack (Rp p Y) = false /\ is KDotDotDot (Rp p Y) = false /\ is KRParen (Rp p Y) = false /\ is KComma (Rp p Y) = false.
Proof.
  destruct p; try discriminate; intros _; cbn [Rp]; unfold bind_tk;
    try match goal with |- context [?a <? 0] => destruct (a <? 0) end; repeat split; reflexivity.
Qed.

Lemma arr_loop : forall es, Forall BindSt' es ->
  forallb (fun e => match e with PRest q => (match q with PId _ | PArr _ _ | PObj _ => wf_pat q | _ => false end)
                              | PId _ | PArr _ _ | PObj _ => wf_pat e | _ => false end) es = true ->
  forall Y, Ev (CBindArr (join [tk1 KComma] (map Rp es) (tk1 KRBrack :: Y))) (0, tk1 KRBrack :: Y).
Proof.
  induction es as [|e l IH]; intros HB W Y.
  - cbn [map join]. apply ev0. intros s. reflexivity.
  - inversion HB as [|? ? Be Bl]; subst. cbn [forallb] in W. apply andb_true_iff in W as [We Wl].
    specialize (IH Bl Wl Y).
    set (rest := match l with [] => tk1 KRBrack :: Y | _ => tk1 KComma :: join [tk1 KComma] (map Rp l) (tk1 KRBrack :: Y) end).
    assert (EJ : join [tk1 KComma] (map Rp (e :: l)) (tk1 KRBrack :: Y) = Rp e rest) by (subst rest; destruct l; reflexivity).
    rewrite EJ. clear EJ.
    (* the element proper (without "...") and its binding *)
    assert (Hel : exists (q : pat) (d : bool), Rp e rest = (if d then [tk1 KDotDotDot] else []) ++ Rp q rest /\ top_pat q = true /\ Ev (CBinding (Rp q rest)) (0, rest)).
    { destruct e; try discriminate.
      - exists (PId x), false. repeat split; auto. apply (proj1 Be); exact We.
      - exists (PArr holes es), false. repeat split; auto. apply (proj1 Be); exact We.
      - exists e, true. destruct Be as [_ Bq]. assert (T : top_pat e = true) by (destruct e; try discriminate; exact We).
        repeat split; auto.
      - exists (PObj ps), false. repeat split; auto. apply (proj1 Be); exact We. }
    destruct Hel as [q [d [-> [Tq Hq]]]].
    destruct (pat_first q rest Tq) as [F1 [F2 [F3 F4]]].
    destruct l as [|y l'].
    + eapply ev1; [exact Hq|]. intros s E1. cbn [F]. unfold F_bindarr. subst rest.
      destruct d; cbn [app]; [cbn [is tk1 fst tl]; change (tk_eqb KDotDotDot KRBrack) with false; change (tk_eqb KDotDotDot KDotDotDot) with true; cbn iota|rewrite F1, F2];
        unfold snd_of, bind; rewrite E1; reflexivity.
    + eapply ev2; [exact Hq|exact IH|]. intros s E1 E2. cbn [F]. unfold F_bindarr. subst rest.
      destruct d; cbn [app]; [cbn [is tk1 fst tl]; change (tk_eqb KDotDotDot KRBrack) with false; change (tk_eqb KDotDotDot KDotDotDot) with true; cbn iota|rewrite F1, F2];
        unfold snd_of, bind; rewrite E1; cbn; exact E2.
Qed.

Lemma objpat_loop : forall ps, Forall BindSt' ps ->
  forallb (fun m => match m with PShort x | PObjRest x => normal x
                              | PProp _ q => (match q with PId _ | PArr _ _ | PObj _ => wf_pat q | _ => false end)
                              | _ => false end) ps = true ->
  forall Y, Ev (CBindObj (join [tk1 KComma] (map Rp ps) (tk1 KRBrace :: Y))) (0, Y).
Proof.
  induction ps as [|m l IH]; intros HB W Y.
  - cbn [map join]. apply ev0. intros s. reflexivity.
  - inversion HB as [|? ? Bm Bl]; subst. cbn [forallb] in W. apply andb_true_iff in W as [Wm Wl].
    specialize (IH Bl Wl Y).
    set (rest := match l with [] => tk1 KRBrace :: Y | _ => tk1 KComma :: join [tk1 KComma] (map Rp l) (tk1 KRBrace :: Y) end).
    assert (EJ : join [tk1 KComma] (map Rp (m :: l)) (tk1 KRBrace :: Y) = Rp m rest) by (subst rest; destruct l; reflexivity).
    rewrite EJ. clear EJ.
    (* after the member: "," and the loop, or "}" *)
    assert (Hfin : forall s, (match l with [] => True | _ => s (CBindObj (join [tk1 KComma] (map Rp l) (tk1 KRBrace :: Y))) = Ok (0, Y) end) ->
              (if is KComma rest then s (CBindObj (tl rest)) else r2 <- expect KRBrace rest;; ok0 r2) = Ok (0, Y)).
    { intros s E. subst rest. destruct l; [reflexivity|exact E]. }
    assert (Hrc : is KColon rest = false) by (subst rest; destruct l; reflexivity).
    destruct m; try discriminate; cbn [Rp].
    + (* PShort *)
      destruct l as [|y l'].
      * apply ev0. intros s. cbn [F]. unfold F_bindobj. cbn [is tk1 fst hd_tk tl]. unfold bind at 1. cbn iota beta.
        rewrite Hrc. cbn [orb negb]. unfold bind at 1. cbn iota beta. apply (Hfin s I).
      * eapply ev1; [exact IH|]. intros s E. cbn [F]. unfold F_bindobj. cbn [is tk1 fst hd_tk tl]. unfold bind at 1. cbn iota beta.
        rewrite Hrc. cbn [orb negb]. unfold bind at 1. cbn iota beta. apply (Hfin s E).
    + (* PProp key: q *)
      destruct Bm as [_ Bq]. assert (Tq : top_pat m = true) by (destruct m; try discriminate; exact Wm).
      pose proof (Bq Tq rest) as Hq.
      assert (Hstep : forall s, s (CBinding (Rp m rest)) = Ok (0, rest) ->
                (match l with [] => True | _ => s (CBindObj (join [tk1 KComma] (map Rp l) (tk1 KRBrace :: Y))) = Ok (0, Y) end) ->
                F s (CBindObj (tk1 (key_tk key) :: tk1 KColon :: Rp m rest)) = Ok (0, Y)).
      { intros s E1 E2. specialize (Hfin s E2). clearbody rest. cbn [F]. unfold F_bindobj, key_tk.
        destruct (0 <=? key); [|destruct (key =? -1); [|destruct (key =? -2); [|destruct (key =? -3)]]];
          cbn; unfold snd_of, bind; rewrite E1; cbn; exact Hfin. }
      destruct l as [|y l'].
      * eapply ev1; [exact Hq|]. intros s E1. apply Hstep; auto.
      * eapply ev2; [exact Hq|exact IH|]. intros s E1 E2. apply Hstep; auto.
    + (* PObjRest *)
      destruct l as [|y l'].
      * apply ev0. intros s. cbn [F]. unfold F_bindobj. cbn [is tk1 fst hd_tk tl is_ident]. unfold bind at 1. cbn iota beta.
        rewrite Hrc. cbn [orb negb]. unfold bind at 1. cbn iota beta. apply (Hfin s I).
      * eapply ev1; [exact IH|]. intros s E. cbn [F]. unfold F_bindobj. cbn [is tk1 fst hd_tk tl is_ident]. unfold bind at 1. cbn iota beta.
        rewrite Hrc. cbn [orb negb]. unfold bind at 1. cbn iota beta. apply (Hfin s E).
Qed.

Lemma binding_pat_all p : BindSt' p.
Proof.
  induction p using pat_ind'; unfold BindSt'; (split; [|try exact I; try (apply IHp)]); intros T Y; try discriminate.
  - apply binding_ev. exact T.
  - cbn [top_pat wf_pat] in T. cbn [Rp].
    eapply ev1; [apply (arr_loop es H T Y)|]. intros s E1. cbn [F]. unfold F_binding. cbn [hd_tk tk1 fst tl].
    rewrite skip_commas_repeat.
    + unfold snd_of, bind. rewrite E1. reflexivity.
    + destruct es as [|e l]; [reflexivity|]. cbn [forallb] in T. apply andb_true_iff in T as [Te _].
      assert (X : forall rest, is KComma (Rp e rest) = false).
      { intros rest. destruct e; try discriminate; cbn [Rp]; unfold bind_tk;
          try match goal with |- context [?a <? 0] => destruct (a <? 0) end; reflexivity. }
      destruct l; cbn [map join]; apply X.
  - cbn [top_pat wf_pat] in T. cbn [Rp].
    eapply ev1; [apply (objpat_loop ps H T Y)|]. intros s E1. cbn [F]. unfold F_binding. cbn [hd_tk tk1 fst tl]. exact E1.
Qed.

Lemma binding_pat p Y : top_pat p = true -> Ev (CBinding (Rp p Y)) (0, Y).
Proof. intros T. apply (proj1 (binding_pat_all p) T Y). Qed.

Lemma params_loop : forall ps, Forall Pst ps -> ParamsSt ps.
Proof.
  induction ps as [|pm l IH]; intros HP W post.
  - cbn [map join]. apply ev0. intros s. reflexivity.
  - inversion HP as [|? ? Pp Pl]; subst. cbn [wf_params_with] in W.
    destruct pm; try discriminate. destruct Pp as [_ Kt].
    apply andb_true_iff in W as [W Wl]. apply andb_true_iff in W as [Hx Wt].
    specialize (IH Pl Wl post).
    assert (Hrest : exists rest, join [tk1 KComma] (map R (TParam dots p opt ann pm :: l)) (tk1 KRParen :: post) = R (TParam dots p opt ann pm) rest /\
              (rest = tk1 KRParen :: post \/
               (exists J, rest = tk1 KComma :: J /\ Ev (CFnArgLoop J) (0, post)))).
    { destruct l as [|y l'].
      - exists (tk1 KRParen :: post). split; [reflexivity|left; auto].
      - exists (tk1 KComma :: join [tk1 KComma] (map R (y :: l')) (tk1 KRParen :: post)). split; [reflexivity|].
        right. eexists; split; [reflexivity|exact IH]. }
    destruct Hrest as [rest [-> Hrest]]. clear IH.
    assert (Hst : stop_tk (hd_tk rest) = true /\ harmless (hd_tk rest) = true /\ is KQuestion rest = false /\ is KColon rest = false)
      by (destruct Hrest as [->|[J [-> _]]]; repeat split; reflexivity).
    destruct Hst as [S1 [S2 [S3 S4]]].
    cbn [R].
    set (after := if ann then tk1 KColon :: R pm rest else rest).
    pose proof (binding_pat p (optq opt ++ after) Hx) as HB.
    assert (HT : ann = true -> Ev (CType LLowest fl0 (R pm rest)) (0, rest)).
    { intros ->. apply K_delim; auto. apply tail_ok_harmless. exact S2. }
    assert (Hfirst : is KRParen (Rp p (optq opt ++ after)) = false /\ is KDotDotDot (Rp p (optq opt ++ after)) = false)
      by (destruct (pat_first p (optq opt ++ after) Hx) as [? [? [? ?]]]; split; assumption).
    destruct Hfirst as [F1 F2].
    destruct Hrest as [->|[J [-> HJ]]].
    + (* last parameter *)
      destruct ann.
      * eapply ev2; [exact HB|exact (HT eq_refl)|]. intros s E1 E2. cbn [F]. unfold F_fnargloop.
        destruct dots; cbn [app]; [cbn [is tk1 fst tl]; change (tk_eqb KDotDotDot KRParen) with false; change (tk_eqb KDotDotDot KDotDotDot) with true; cbn iota|rewrite F1, F2];
          unfold snd_of, bind; rewrite E1; subst after; destruct opt; cbn; unfold type_at, snd_of, bind; rewrite E2; reflexivity.
      * eapply ev1; [exact HB|]. intros s E1. cbn [F]. unfold F_fnargloop.
        destruct dots; cbn [app]; [cbn [is tk1 fst tl]; change (tk_eqb KDotDotDot KRParen) with false; change (tk_eqb KDotDotDot KDotDotDot) with true; cbn iota|rewrite F1, F2];
          unfold snd_of, bind; rewrite E1; subst after; destruct opt; reflexivity.
    + destruct ann.
      * eapply ev3; [exact HB|exact (HT eq_refl)|exact HJ|]. intros s E1 E2 E3. cbn [F]. unfold F_fnargloop.
        destruct dots; cbn [app]; [cbn [is tk1 fst tl]; change (tk_eqb KDotDotDot KRParen) with false; change (tk_eqb KDotDotDot KDotDotDot) with true; cbn iota|rewrite F1, F2];
          unfold snd_of, bind; rewrite E1; subst after; destruct opt; cbn; unfold type_at, snd_of, bind; rewrite E2; cbn; exact E3.
      * eapply ev2; [exact HB|exact HJ|]. intros s E1 E3. cbn [F]. unfold F_fnargloop.
        destruct dots; cbn [app]; [cbn [is tk1 fst tl]; change (tk_eqb KDotDotDot KRParen) with false; change (tk_eqb KDotDotDot KDotDotDot) with true; cbn iota|rewrite F1, F2];
          unfold snd_of, bind; rewrite E1; subst after; destruct opt; cbn; exact E3.
Qed.

Lemma fnargs_ev ps post : Forall Pst ps -> wf_params_with wfb ps = true ->
  Ev (CFnArgs (tk1 KLParen :: join [tk1 KComma] (map R ps) (tk1 KRParen :: post))) (0, post).
Proof.
  intros HP W. eapply ev1; [apply (params_loop ps HP W post)|].
  intros s E1. cbn [F]. unfold F_fnargs. reflexivity || (cbn; exact E1).
Qed.

(* "( params ) => ret" through skipTypeScriptParenOrFnType *)
Lemma parenfn_ev ps ret post : Forall Pst ps -> wf_params_with wfb ps = true -> RetSt ret -> wf_ret_with wfb ret = true ->
  StopAll post -> tail_ok ret post = true ->
  Ev (CParenOrFn (tk1 KLParen :: join [tk1 KComma] (map R ps) (tk1 KRParen :: tk1 KArrow :: R ret post))) (0, post).
Proof.
  intros HP W HR Wr Hs Ht.
  eapply ev2; [apply (fnargs_ev ps (tk1 KArrow :: R ret post) HP W)|apply (HR Wr post Hs Ht)|].
  intros s E1 E2. cbn [F]. unfold F_parenorfn, snd_of, bind. rewrite E1. cbn. unfold type_at, snd_of, bind. rewrite E2. reflexivity.
Qed.

(* ---- type-parameter lists  <const in out T extends C = D, ...> ---- *)
Definition mod_tk (m : Z) : token := tk1 (if m =? 0 then KConst else if m =? 1 then KIn else KIdent c_out).

Lemma mods_ev : forall ms res e x Y, normal x = true ->
  exists code, Ev (CParamMods res e (map mod_tk ms ++ tk1 (KIdent x) :: Y)) (code, tk1 (KIdent x) :: Y).
Proof.
  induction ms as [|m r IH]; intros res e x Y Hx.
  - eexists. apply ev0. intros s. cbn [F map app]. unfold F_parammods.
    assert (E : is_ctx c_out (tk1 (KIdent x) :: Y) = false).
    { unfold is_ctx, is, tk1. cbn [fst]. unfold tk_eqb. destruct (tk_eq_dec (KIdent x) (KIdent c_out)) as [E|E]; [|reflexivity].
      inversion E. subst x. discriminate. }
    assert (E1 : is KConst (tk1 (KIdent x) :: Y) = false) by reflexivity.
    assert (E2 : is KIn (tk1 (KIdent x) :: Y) = false) by reflexivity.
    rewrite E1, E2, E. reflexivity.
  - cbn [map app]. unfold mod_tk at 1. destruct (m =? 0).
    + destruct (IH 2 true x Y Hx) as [code H]. exists code. eapply ev1; [exact H|]. intros s E. cbn [F]. unfold F_parammods. cbn. exact E.
    + destruct (m =? 1).
      * destruct (IH res true x Y Hx) as [code H]. exists code. eapply ev1; [exact H|]. intros s E. cbn [F]. unfold F_parammods. cbn. exact E.
      * destruct (IH res false x Y Hx) as [code H]. exists code. eapply ev1; [exact H|]. intros s E. cbn [F]. unfold F_parammods. cbn. exact E.
Qed.

Ltac crunch s :=
  cbn [F]; unfold F_paramloop; unfold bind, snd_of, type_at in *;
  repeat (match goal with H : s _ = Ok _ |- _ => rewrite H end; cbn iota beta).

Lemma ident_first x A : is_ident (tk1 (KIdent x) :: A) = true /\ expect_ident (tk1 (KIdent x) :: A) = Ok A.
Proof. split; reflexivity. Qed.

Lemma tparam_step mods x hc hd c d rest res post' :
  normal x = true -> (hc = true -> Kst c /\ wfb c = true) -> (hd = true -> Kst d /\ wfb d = true) ->
  StopAll rest -> harmless (hd_tk rest) = true -> is KExtends rest = false -> is KEq rest = false ->
  ((rest = post' /\ is KComma post' = false) \/
   (exists J, rest = tk1 KComma :: J /\ is KGt J = false /\ forall r0, exists code, Ev (CParamLoop r0 J) (code, post'))) ->
  exists code, Ev (CParamLoop res (R (TTParam mods x hc hd c d) rest)) (code, post').
Proof.
  intros Hx Hc Hd R1 R2 R3 R4 Hrest.
  set (B := if hd then tk1 KEq :: R d rest else rest).
  set (A := if hc then tk1 KExtends :: R c B else B).
  assert (ER : R (TTParam mods x hc hd c d) rest = map mod_tk mods ++ tk1 (KIdent x) :: A)
    by (subst A B; cbn [R]; unfold mod_tk; destruct hc, hd; reflexivity).
  rewrite ER. clear ER.
  destruct (mods_ev mods res true x A Hx) as [mcode HM].
  assert (HB : StopAll B /\ harmless (hd_tk B) = true) by (subst B; destruct hd; split; auto; reflexivity).
  assert (HC : hc = true -> Ev (CType LLowest fl0 (R c B)) (0, B)).
  { intros E. destruct (Hc E). apply K_delim; auto; try apply HB. apply tail_ok_harmless. apply HB. }
  assert (HD : hd = true -> Ev (CType LLowest fl0 (R d rest)) (0, rest)).
  { intros E. destruct (Hd E). apply K_delim; auto. apply tail_ok_harmless. exact R2. }
  destruct (ident_first x A) as [I1 I2].
  (* one iteration, up to the decision about the comma *)
  assert (Hiter : forall s, s (CParamMods res true (map mod_tk mods ++ tk1 (KIdent x) :: A)) = Ok (mcode, tk1 (KIdent x) :: A) ->
            (hc = true -> s (CType LLowest fl0 (R c B)) = Ok (0, B)) -> (hd = true -> s (CType LLowest fl0 (R d rest)) = Ok (0, rest)) ->
            F s (CParamLoop res (map mod_tk mods ++ tk1 (KIdent x) :: A)) =
              (let r3 := if hd then 2 else if hc then 2 else (if 10 <=? mcode then mcode - 10 else mcode) in
               if negb (is KComma rest) then Ok (r3, rest)
               else if is KGt (tl rest) then Ok (2, tl rest) else s (CParamLoop r3 (tl rest)))).
  { intros s E1 E2 E3. cbn zeta. cbn [F]. unfold F_paramloop, bind. rewrite E1. cbn iota beta. rewrite I1, orb_true_r, I2. cbn iota beta.
    subst A B. destruct hc, hd.
    - assert (X1 : is KExtends (tk1 KExtends :: R c (tk1 KEq :: R d rest)) = true) by reflexivity. rewrite X1. cbn [tl].
      unfold type_at, snd_of, bind. rewrite (E2 eq_refl). cbn iota beta.
      assert (X2 : is KEq (tk1 KEq :: R d rest) = true) by reflexivity. rewrite X2. cbn [tl]. rewrite (E3 eq_refl). cbn iota beta. reflexivity.
    - assert (X1 : is KExtends (tk1 KExtends :: R c rest) = true) by reflexivity. rewrite X1. cbn [tl].
      unfold type_at, snd_of, bind. rewrite (E2 eq_refl). cbn iota beta. rewrite R4. cbn iota beta. reflexivity.
    - assert (X1 : is KExtends (tk1 KEq :: R d rest) = false) by reflexivity. rewrite X1. cbn iota beta.
      assert (X2 : is KEq (tk1 KEq :: R d rest) = true) by reflexivity. rewrite X2. cbn [tl].
      unfold type_at, snd_of, bind. rewrite (E3 eq_refl). cbn iota beta. reflexivity.
    - rewrite R3. cbn iota beta. rewrite R4. cbn iota beta. reflexivity. }
  (* fuel: all sub-evaluations hold from some N on *)
  apply Ev_all in HM as [N0 HM].
  assert (HCn : exists N1, forall m, (N1 <= m)%nat -> hc = true -> run m (CType LLowest fl0 (R c B)) = Ok (0, B)).
  { destruct hc; [destruct (Ev_all _ _ (HC eq_refl)) as [N H]; exists N; intros; apply H; assumption|exists 0%nat; intros; discriminate]. }
  assert (HDn : exists N2, forall m, (N2 <= m)%nat -> hd = true -> run m (CType LLowest fl0 (R d rest)) = Ok (0, rest)).
  { destruct hd; [destruct (Ev_all _ _ (HD eq_refl)) as [N H]; exists N; intros; apply H; assumption|exists 0%nat; intros; discriminate]. }
  destruct HCn as [N1 HCn]. destruct HDn as [N2 HDn].
  set (r3 := if hd then 2 else if hc then 2 else (if 10 <=? mcode then mcode - 10 else mcode)) in *.
  destruct Hrest as [[-> Hcm]|[J [-> [HG HJ]]]].
  - exists r3. exists (S (N0 + N1 + N2)). cbn [run].
    rewrite (Hiter (run (N0 + N1 + N2)) (HM (N0 + N1 + N2)%nat ltac:(lia)) (HCn (N0 + N1 + N2)%nat ltac:(lia)) (HDn (N0 + N1 + N2)%nat ltac:(lia))). cbn zeta. rewrite Hcm. reflexivity.
  - destruct (HJ r3) as [code HJr]. apply Ev_all in HJr as [N3 HJr].
    exists code. exists (S (N0 + N1 + N2 + N3)). cbn [run].
    rewrite (Hiter (run (N0 + N1 + N2 + N3)) (HM (N0 + N1 + N2 + N3)%nat ltac:(lia)) (HCn (N0 + N1 + N2 + N3)%nat ltac:(lia)) (HDn (N0 + N1 + N2 + N3)%nat ltac:(lia))). cbn zeta.
    assert (X : is KComma (tk1 KComma :: J) = true) by reflexivity. rewrite X. cbn [negb tl]. rewrite HG. apply HJr. lia.
Qed.

Lemma tparam_first tp : forall l post', is KGt (join [tk1 KComma] (map R (tp :: l)) post') = false \/ match tp with TTParam _ _ _ _ _ _ => False | _ => True end.
Proof.
  intros l post'. destruct tp; try (right; exact I). left.
  assert (E : forall rest, is KGt (R (TTParam mods x hc hd tp1 tp2) rest) = false).
  { intros rest. cbn [R]. destruct mods as [|m ms]; cbn [map app]; [reflexivity|].
    destruct (m =? 0); [reflexivity|]. destruct (m =? 1); reflexivity. }
  destruct l; cbn [map join]; apply E.
Qed.

Lemma tparam_loop : forall tps, tps <> [] -> Forall Pst tps -> wf_tparams_with wfb tps = true ->
  forall res post', StopAll post' -> harmless (hd_tk post') = true -> is KComma post' = false ->
  is KExtends post' = false -> is KEq post' = false ->
  exists code, Ev (CParamLoop res (join [tk1 KComma] (map R tps) post')) (code, post').
Proof.
  induction tps as [|tp l IH]; intros Hne HP W res post' Hs Hh Hc He Hq; [congruence|].
  inversion HP as [|? ? Ptp Pl]; subst. cbn [wf_tparams_with] in W.
  destruct tp; try discriminate. destruct Ptp as [_ [Kc Kd]].
  repeat match goal with H : _ && _ = true |- _ => apply andb_true_iff in H as [? ?] end.
  destruct l as [|y l'].
  - cbn [map join]. apply tparam_step; auto.
    + intros ->. auto. + intros ->. auto.
  - change (join [tk1 KComma] (map R (TTParam mods x hc hd tp1 tp2 :: y :: l')) post')
      with (R (TTParam mods x hc hd tp1 tp2) (tk1 KComma :: join [tk1 KComma] (map R (y :: l')) post')).
    apply tparam_step; auto; try reflexivity.
    + intros ->. auto. + intros ->. auto.
    + right. eexists. split; [reflexivity|]. split.
      * destruct (tparam_first y l' post') as [E|E]; [exact E|]. destruct y; try contradiction; discriminate.
      * intros r0. apply IH; auto. discriminate.
Qed.

(* "<" type parameters ">" through skipTypeScriptTypeParameters *)
Lemma tparams_st tps : Forall Pst tps -> TParamsSt tps.
Proof.
  intros HP W post Hlt. destruct tps as [|tp l]; [exists 0; apply ev0; intros s; cbn [F]; unfold F_params; cbn [SkipProofs3.tparamsR]; rewrite Hlt; reflexivity|].
  destruct (push_gt_ok mg post) as [P1 [P2 [P3 P4]]].
  assert (P5 : is KExtends (push_gt mg post) = false /\ is KEq (push_gt mg post) = false).
  { unfold push_gt. destruct mg; [|split; reflexivity]. destruct post as [|[k n] p]; [split; reflexivity|]. destruct k, n; split; reflexivity. }
  destruct (tparam_loop (tp :: l) ltac:(discriminate) HP W 1 (push_gt mg post) P1 P2 P3 (proj1 P5) (proj2 P5)) as [code HL].
  exists code. unfold SkipProofs3.tparamsR.
  remember (join [tk1 KComma] (map R (tp :: l)) (push_gt mg post)) as J eqn:EJ.
  assert (EG : is KGt J = false).
  { subst J. destruct (tparam_first tp l (push_gt mg post)) as [E|E]; [exact E|]. cbn [wf_tparams_with] in W. destruct tp; try contradiction; discriminate. }
  clear EJ. eapply ev1; [exact HL|]. intros s E1. cbn [F]. unfold F_params. cbn [is tk1 fst tl negb].
  change (tk_eqb KLt KLt) with true. cbn [negb andb]. rewrite E1. unfold bind. rewrite P4. reflexivity.
Qed.


Lemma K_fn kind tps ps ret : Forall Pst tps -> Forall Pst ps -> Pst ret -> Kst (TFn kind tps ps ret).
Proof.
  intros HT HP Pr W lvl f post r Hl _ Hf Ht Hst Hs. cbn [wfb tail_ok prec] in *. specialize (Hst eq_refl).
  repeat match goal with H : _ && _ = true |- _ => apply andb_true_iff in H as [? ?] end.
  pose proof (parenfn_ev ps ret post HP ltac:(assumption) (ret_st ret Pr) ltac:(assumption) Hst Ht) as HF.
  remember (tk1 KLParen :: join [tk1 KComma] (map R ps) (tk1 KRParen :: tk1 KArrow :: R ret post)) as body eqn:EB.
  assert (ER : R (TFn kind tps ps ret) post =
     (if kind =? 2 then [tk1 (KIdent c_abstract); tk1 KNew] else if kind =? 1 then [tk1 KNew] else []) ++ tparamsR tps body)
    by (subst body; reflexivity).
  rewrite ER. clear ER.
  assert (Hlt : is KLt body = false) by (subst body; reflexivity).
  destruct (tparams_st tps HT ltac:(assumption) body Hlt) as [pcode Hpar].
  set (TB := tparamsR tps body) in *.
  assert (Hcq : colon_or_q TB = false) by (subst TB body; destruct tps; reflexivity).
  assert (Hplain : Ev (CPrefix lvl f TB) (1, post)).
  { subst TB. destruct tps as [|tp l].
    - cbn [SkipProofs3.tparamsR]. eapply ev1; [exact HF|]. intros s E1. cbn [F]. unfold F_prefix.
      assert (Hhd : hd_tk body = KLParen) by (subst body; reflexivity). rewrite Hhd. unfold snd_of, bind. rewrite E1. reflexivity.
    - eapply ev2; [exact Hpar|exact HF|]. intros s E1 E2. cbn [F]. unfold F_prefix.
      assert (Hhd : hd_tk (tparamsR (tp :: l) body) = KLt) by reflexivity. rewrite Hhd. unfold snd_of, bind. rewrite E1, E2. reflexivity. }
  assert (Hnew : Ev (CPrefix lvl f (tk1 KNew :: TB)) (1, post)).
  { eapply ev2; [exact Hpar|exact HF|]. intros s E1 E2. cbn [F]. unfold F_prefix. cbn [hd_tk tk1 fst tl].
    rewrite Hcq, andb_false_r. unfold snd_of, bind. rewrite E1, E2. reflexivity. }
  eapply type_of_prefix; [|exact Hs].
  destruct (kind =? 2); [|destruct (kind =? 1); [exact Hnew|exact Hplain]].
  cbn [app]. eapply ev1; [exact Hnew|]. intros s E1. cbn [F]. unfold F_prefix. cbn [hd_tk tk1 fst tl].
  change (ident_kind c_abstract) with IkAbstract. cbn iota. cbn [is tk1 fst]. change (tk_eqb KNew KNew) with true. exact E1.
Qed.
End Main4.
