(* C06: parameter properties (constructor(private x, public y = e)) and instance
   field initialisers under assign semantics.

   Model: js_parser_lower_class.go -- the constructor arguments with
   IsTypeScriptCtorField yield "this.x = x" statements in argument order
   (ctx.parameterFields), the instance field initialisers follow in declaration
   order (ctx.instanceMembers), and insertStmtsAfterSuperCall places the
   generated statements at the start of the body of a base class, or right after
   the (single, top-level) "super(...)" statement of a derived class.

   Specification: TypeScript's emit rule (handbook, "Parameter Properties";
   tsc's transformConstructorBody): after super() returns -- at the start of the
   constructor when there is no base class -- the parameter properties are
   assigned in parameter order, then the property initialisers run in
   declaration order, then the rest of the body; everything runs exactly once
   and the relative order of the user's statements is unchanged. *)
From V Require Import Common.Base.

Inductive stmt : Type :=
| SSuper                      (* super(...) as a top-level expression statement *)
| SOther (id : Z)             (* any other user statement *)
| SAssignParam (name : Z)     (* this.name = name *)
| SFieldInit (id : Z).        (* this.f = <initialiser id> *)

Definition stmt_eqb (a b : stmt) : bool :=
  match a, b with
  | SSuper, SSuper => true
  | SOther x, SOther y | SAssignParam x, SAssignParam y | SFieldInit x, SFieldInit y => x =? y
  | _, _ => false
  end.

(* parameters: (name, is a parameter property) *)
Definition generated (params : list (Z * bool)) (fields : list Z) : list stmt :=
  map SAssignParam (map fst (filter snd params)) ++ map SFieldInit fields.

Fixpoint insert_after_super (gen body : list stmt) : option (list stmt) :=
  match body with
  | [] => None                                  (* no top-level super(): the general path (not modelled) *)
  | SSuper :: r => Some (SSuper :: gen ++ r)
  | s :: r => match insert_after_super gen r with Some l => Some (s :: l) | None => None end
  end.

Definition lower (derived : bool) (params : list (Z * bool)) (fields : list Z) (body : list stmt) : option (list stmt) :=
  if derived then insert_after_super (generated params fields) body
  else Some (generated params fields ++ body).

(* a user body: no generated statements; a derived class calls super() exactly once at top level *)
Definition user_stmt (s : stmt) : bool := match s with SSuper | SOther _ => true | _ => false end.
Definition is_super (s : stmt) : bool := match s with SSuper => true | _ => false end.

Lemma insert_spec gen : forall body, existsb is_super body = true ->
  exists pre post, body = pre ++ SSuper :: post /\ existsb is_super pre = false /\
                   insert_after_super gen body = Some (pre ++ SSuper :: gen ++ post).
Proof.
  induction body as [|s r IH]; intros H; [discriminate|].
  destruct s; cbn [insert_after_super].
  - exists [], r. repeat split.
  - cbn in H. destruct (IH H) as [pre [post [E [Hp Hi]]]]. exists (SOther id :: pre), post. subst r. rewrite Hi. repeat split. exact Hp.
  - cbn in H. destruct (IH H) as [pre [post [E [Hp Hi]]]]. exists (SAssignParam name :: pre), post. subst r. rewrite Hi. repeat split. exact Hp.
  - cbn in H. destruct (IH H) as [pre [post [E [Hp Hi]]]]. exists (SFieldInit id :: pre), post. subst r. rewrite Hi. repeat split. exact Hp.
Qed.

(* ORDER: the lowered constructor is  [statements before super] super()
   [parameter properties in parameter order] [field initialisers in declaration
   order] [rest of the body] *)
Theorem lower_order_all derived params fields body :
  (derived = true -> existsb is_super body = true) ->
  exists pre post,
    body = pre ++ (if derived then [SSuper] else []) ++ post /\
    (derived = true -> existsb is_super pre = false) /\ (derived = false -> pre = []) /\
    lower derived params fields body =
      Some (pre ++ (if derived then [SSuper] else []) ++
            map SAssignParam (map fst (filter snd params)) ++ map SFieldInit fields ++ post).
Proof.
  intros H. unfold lower. destruct derived.
  - destruct (insert_spec (generated params fields) body (H eq_refl)) as [pre [post [E [Hp Hi]]]].
    exists pre, post. repeat split; auto; try discriminate. rewrite Hi. unfold generated. cbn [app]. rewrite <- app_assoc. reflexivity.
  - exists [], body. repeat split; auto; try discriminate. unfold generated. cbn [app]. rewrite <- app_assoc. reflexivity.
Qed.

(* ONCE: removing the generated statements gives back the user's body, and the
   generated statements occur exactly as often as listed *)
Lemma filter_user_generated params fields : filter user_stmt (generated params fields) = [].
Proof.
  unfold generated. rewrite filter_app.
  assert (A : forall l, filter user_stmt (map SAssignParam l) = []) by (induction l; cbn; auto).
  assert (B : forall l, filter user_stmt (map SFieldInit l) = []) by (induction l; cbn; auto).
  rewrite A, B. reflexivity.
Qed.

Theorem lower_preserves_body_all derived params fields body out :
  forallb user_stmt body = true -> lower derived params fields body = Some out ->
  filter user_stmt out = body /\
  filter (fun s => negb (user_stmt s)) out = generated params fields.
Proof.
  intros Hu H.
  assert (Fu : forall l, forallb user_stmt l = true -> filter user_stmt l = l /\ filter (fun s => negb (user_stmt s)) l = []).
  { induction l as [|s r IH]; cbn; intros E; [auto|]. apply andb_true_iff in E as [E1 E2]. rewrite E1. cbn.
    destruct (IH E2) as [A B]. rewrite A, B. auto. }
  assert (Fg : filter (fun s => negb (user_stmt s)) (generated params fields) = generated params fields).
  { unfold generated. rewrite filter_app.
    assert (A : forall l, filter (fun s => negb (user_stmt s)) (map SAssignParam l) = map SAssignParam l) by (induction l; cbn; congruence).
    assert (B : forall l, filter (fun s => negb (user_stmt s)) (map SFieldInit l) = map SFieldInit l) by (induction l; cbn; congruence).
    rewrite A, B. reflexivity. }
  unfold lower in H. destruct derived.
  - assert (Hs : existsb is_super body = true \/ existsb is_super body = false) by (destruct (existsb is_super body); auto).
    destruct Hs as [Hs|Hs].
    + destruct (insert_spec (generated params fields) body Hs) as [pre [post [E [Hp Hi]]]]. rewrite Hi in H. inversion H; subst.
      rewrite forallb_app in Hu. apply andb_true_iff in Hu as [U1 U2]. cbn in U2.
      destruct (Fu pre U1) as [A1 A2]. destruct (Fu post U2) as [B1 B2].
      rewrite !filter_app. cbn [filter user_stmt negb]. rewrite !filter_app, filter_user_generated, A1, A2, B1, B2, Fg.
      cbn [app]. rewrite app_nil_r. auto.
    + exfalso. clear Hu Fu Fg. revert out H. induction body as [|s r IH]; intros out H; [discriminate|].
      destruct s; cbn in *; try discriminate; destruct (insert_after_super (generated params fields) r); try discriminate; eapply IH; eauto.
  - inversion H; subst. destruct (Fu body Hu) as [A B]. rewrite !filter_app, filter_user_generated, A, B, Fg. rewrite app_nil_r. auto.
Qed.

(* with distinct parameter names every parameter property is assigned exactly once *)
Theorem param_assigned_once_all derived params fields body out x :
  forallb user_stmt body = true -> lower derived params fields body = Some out ->
  NoDup (map fst params) -> In (x, true) params ->
  count_occ Z.eq_dec (flat_map (fun s => match s with SAssignParam n => [n] | _ => [] end) out) x = 1%nat.
Proof.
  intros Hu H Hnd Hin.
  destruct (lower_preserves_body_all derived params fields body out Hu H) as [_ G].
  assert (E : flat_map (fun s => match s with SAssignParam n => [n] | _ => [] end) out = map fst (filter snd params)).
  { transitivity (flat_map (fun s => match s with SAssignParam n => [n] | _ => [] end) (filter (fun s => negb (user_stmt s)) out)).
    - clear. induction out as [|s r IH]; [reflexivity|]. destruct s; cbn; rewrite <- IH; reflexivity.
    - rewrite G. unfold generated. rewrite flat_map_app.
      assert (A : forall l, flat_map (fun s => match s with SAssignParam n => [n] | _ => [] end) (map SAssignParam l) = l) by (induction l; cbn; congruence).
      assert (B : forall l, flat_map (fun s => match s with SAssignParam n => [n] | _ => [] end) (map SFieldInit l) = []) by (induction l; cbn; auto).
      rewrite A, B, app_nil_r. reflexivity. }
  rewrite E. clear E G H Hu.
  induction params as [|[n b] r IH]; [contradiction|]. cbn [map fst] in Hnd. inversion Hnd as [|? ? Hn Hr]; subst.
  destruct Hin as [Hin|Hin].
  - inversion Hin; subst. cbn. destruct (Z.eq_dec x x); [|congruence]. f_equal.
    apply count_occ_not_In. intros Hc. apply Hn. apply in_map_iff in Hc as [[n' b'] [E1 E2]]. apply filter_In in E2 as [E2 _].
    apply in_map_iff. exists (n', b'). auto.
  - assert (n <> x) by (intros ->; apply Hn; apply in_map_iff; exists (x, true); auto).
    destruct b; cbn; [destruct (Z.eq_dec n x); [congruence|]|]; apply IH; auto.
Qed.

(* ---- correspondence cases: (derived, params, fields, body, observed constructor body) ---- *)
(* statements are encoded (tag, payload): 0 super, 1 other id, 2 assign-param name, 3 field-init id *)
Definition dec (p : Z * Z) : stmt :=
  let '(t, x) := p in if t =? 0 then SSuper else if t =? 1 then SOther x else if t =? 2 then SAssignParam x else SFieldInit x.
Definition pp_case := (bool * list (Z * bool) * list Z * list (Z * Z) * list (Z * Z))%type.
Definition pp_case_ok (c : pp_case) : bool :=
  let '(derived, params, fields, body, obs) := c in
  match lower derived params fields (map dec body) with
  | Some out => list_eqb stmt_eqb out (map dec obs)
  | None => false
  end.
