(* C06 property theorems: statements closed by [exact lemma] + Print Assumptions. *)
From V Require Import Common.Base C06.TsTokens C06.SkipType C06.SkipMono C06.TypeGrammar C06.SkipProofs C06.Erase C06.Enum.

(* fuel is a model artefact: a result other than "out of fuel" never changes
   when more fuel is given (all 19 mutually recursive routines) *)
Theorem skipper_fuel_monotone : forall n m c, (n <= m)%nat -> run n c <> Oof -> run m c = run n c.
Proof. exact run_mono. Qed.
Print Assumptions skipper_fuel_monotone.

(* skip_exact (partial: the grammar of TypeGrammar.v -- names, generic
   references with nested argument lists, literal/primitive/this/unique symbol,
   arrays, indexed access, tuples with rest/optional elements, unions,
   intersections, keyof/readonly, infer, parentheses, conditional types,
   predicates; NOT function/constructor types, object/mapped types, template
   literal types, typeof/import types, qualified names, which are tied by the
   correspondence run only).  For every well-formed type t, every level at which
   TypeScript would parse t without parentheses, every flag set without
   disallowConditionalTypes, and every following token sequence that cannot
   continue a type: the skipper started on the tokens of t followed by rest stops
   exactly at rest -- whether adjacent ">" characters were lexed as one token
   (mg = true: ">>", ">>>", ">=", ">>=") or separately. *)
Theorem skip_exact_partial : forall mg t rest lvl f,
  wfb t = true -> lvl <= LPrefix -> lvl_ok t lvl = true -> fNoCond f = false ->
  follow_ok rest = true ->
  exists N, forall m, (N <= m)%nat -> run m (CType lvl f (R mg t rest)) = Ok (0, rest).
Proof. exact skip_exact_R. Qed.
Print Assumptions skip_exact_partial.

(* when the loop at a higher level stops, the enclosing loop at the lower level
   finishes the same work (the reason the skipper's sloppy precedence is harmless) *)
Theorem suffix_loop_split : forall n lvl lvl' f f' post r,
  lvl <= lvl' -> fNoCond f' = fNoCond f -> (f' = f \/ LBitAnd <= lvl') ->
  run n (CSuffix lvl f post) = Ok (0, r) ->
  exists r1, Ev (CSuffix lvl' f' post) (0, r1) /\ Ev (CSuffix lvl f r1) (0, r).
Proof. exact split. Qed.
Print Assumptions suffix_loop_split.

(* erase (annotate p) = p at the token level: for every JavaScript token
   stream with type syntax at sites (": T", return types, "as"/"satisfies",
   "!", "<T,...>", modifiers, "?"), the parser's skipping leaves exactly the
   JavaScript tokens *)
Theorem erase_annotate : forall mg p, sites_ok mg p = true ->
  exists N, forall n, (N <= n)%nat -> erase n (shape p) (typed mg p) = Ok (untyped p).
Proof. exact erase_annotate_all. Qed.
Print Assumptions erase_annotate.

(* enum member values computed by the visitor satisfy the TypeScript handbook
   rules, for every member list whose values stay in the modelled domain and
   whose initialisers avoid the operand pairs on which math.Pow differs from
   ECMA-262 *)
Theorem enum_values_spec : forall ms,
  pow_ok_members st0 ms = true ->
  forallb (fun v => match v with VOut => false | _ => true end) (enum_values ms) = true ->
  SpecEnum [] None ms (enum_values ms).
Proof. exact enum_values_spec_all. Qed.
Print Assumptions enum_values_spec.

(* constant folding of initialisers agrees with ECMAScript evaluation *)
Theorem enum_fold_sound : forall known e, pow_ok known e = true -> eval go_pow known e = eval js_pow known e.
Proof. exact eval_agree. Qed.
Print Assumptions enum_fold_sound.

(* without that side condition the statement is false of the faithful model
   (DESIGN section 7-B): enum E { A = 1 ** (0/0) } *)
Theorem enum_pow_special_refuted :
  enum_values pow_witness = [VNum 1] /\ ~ SpecEnum [] None pow_witness [VNum 1] /\ SpecEnum [] None pow_witness [VNaN].
Proof. exact enum_pow_witness. Qed.
Print Assumptions enum_pow_special_refuted.
