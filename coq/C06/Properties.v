(* C06 property theorems: statements closed by [exact lemma] + Print Assumptions. *)
From V Require Import Common.Base C06.TsTokens C06.SkipType C06.SkipMono C06.TypeGrammar C06.SkipProofs C06.SkipProofs6 C06.TypeArgsExpr C06.Erase C06.Enum gen.TsTargetsGen C06.TsTarget C06.ParamProps.

(* fuel is a model artefact: a result other than "out of fuel" never changes
   when more fuel is given (all 19 mutually recursive routines) *)
Theorem skipper_fuel_monotone : forall n m c, (n <= m)%nat -> run n c <> Oof -> run m c = run n c.
Proof. exact run_mono. Qed.
Print Assumptions skipper_fuel_monotone.

(* skip_exact over the type grammar of TypeGrammar.v:
     primitive / literal / this / unique symbol; qualified names with (nested)
     type arguments; typeof queries and [typeof] import("m") types with qualified
     names and type arguments; arrays, indexed access; tuples with labelled,
     optional and rest elements; unions, intersections; keyof / readonly; infer;
     parenthesised types; function types, constructor types and abstract
     constructor types with type-parameter lists (const / in / out modifiers,
     extends constraint, = default) and parameter lists (this, optional, rest, annotated or
     not, destructuring patterns [a, ...b] / {a, k: p, ...r} with leading holes) and return types incl. predicates "x is T" / "this is T"; object types
     with property, method (with type-parameter lists), call, construct, accessor, index-signature and
     mapped-type members (+/- readonly, +/- ?, "as" clause) and ";" / "," / no
     separator; conditional types (extends operand: any union-or-higher type
     without an exposed keyof/readonly, incl. a bare "infer U", or
     "infer U extends C"); template-literal types.
   For every well-formed type t, every level at which TypeScript parses t without
   parentheses, every flag set without disallowConditionalTypes and every
   following token sequence that cannot continue a type, the skipper started on
   the tokens of t followed by rest stops exactly at rest -- whether adjacent ">"
   characters were lexed as one token (mg = true: ">>", ">>>", ">=", ">>=") or not.
   Still named _partial; excluded (tied by the correspondence run only):
     "infer U extends C" elsewhere than directly as the extends operand of a
     conditional type (e.g. inside a tuple or type-argument list there);
     "asserts x [is T]" outside return positions (see skip_exact_return);
     parenthesised types whose content starts with "[" or "{" (the
     arrow-parameter attempt of skipTypeScriptParenOrFnType may run arbitrarily
     far on them, or even succeed as a parameter list); a keyof/readonly operand exposed in the extends
     clause of a conditional type; computed keys "[expr]:" and "import(..., {with})". *)
Theorem skip_exact_partial : forall mg t rest lvl f,
  wfb t = true -> lvl <= LPrefix -> lvl_ok t lvl = true -> fNoCond f = false ->
  follow_ok rest = true ->
  exists N, forall m, (N <= m)%nat -> run m (CType lvl f (R mg t rest)) = Ok (0, rest).
Proof. exact skip_exact_R. Qed.
Print Assumptions skip_exact_partial.

(* return positions (isReturnTypeFlag): a type of the grammar or an assertion
   signature "asserts x" / "asserts x is T" / "asserts this is T" *)
Theorem skip_exact_return : forall mg ret rest,
  wf_ret_with wfb ret = true -> follow_ok rest = true ->
  exists N, forall m, (N <= m)%nat -> run m (CType LLowest fl_ret (R mg ret rest)) = Ok (0, rest).
Proof. exact skip_exact_ret. Qed.
Print Assumptions skip_exact_return.

(* "f<T>(x)" versus "a < b > c": the model's transcription of
   tsCanFollowTypeArgumentsInExpression equals the TypeScript compiler's rule
   (canFollowTypeArgumentsInExpression / isBinaryOperator / isStartOfExpression)
   on every token sequence, i.e. for every kind of following token *)
Theorem can_follow_type_arguments_is_typescript_rule : forall ts, can_follow_type_args ts = spec_can_follow ts.
Proof. exact can_follow_is_spec. Qed.
Print Assumptions can_follow_type_arguments_is_typescript_rule.

(* trySkipTypeArgumentsInExpressionWithBacktracking: "<" args ">" is consumed as a
   type-argument list iff the following token may follow type arguments under the
   TypeScript rule; otherwise the lexer is back at the "<" (less-than operator) *)
Theorem type_arguments_in_expression_decision : forall mg args post,
  args <> [] -> forallb wfb args = true ->
  let ts := tk1 KLt :: join [tk1 KComma] (map (R mg) args) (tk1 KGt :: post) in
  Ev (CTryArgsExpr ts) (if spec_can_follow post then (1, post) else (0, ts)).
Proof. exact tryargs_decision. Qed.
Print Assumptions type_arguments_in_expression_decision.

(* when the loop at a higher level stops, the enclosing loop at the lower level
   finishes the same work (the reason the skipper's sloppy precedence is harmless) *)
Theorem suffix_loop_split : forall n lvl lvl' f f' post r,
  lvl <= lvl' -> fNoCond f' = fNoCond f -> (f' = f \/ LBitAnd <= lvl') ->
  run n (CSuffix lvl f post) = Ok (0, r) ->
  exists r1, Ev (CSuffix lvl' f' post) (0, r1) /\ Ev (CSuffix lvl f r1) (0, r).
Proof. exact split. Qed.
Print Assumptions suffix_loop_split.

(* erase (annotate p) = p at the token level: for every JavaScript token
   stream with type syntax at sites (": T", return types incl. assertion
   signatures, "as"/"satisfies", "!", "<T,...>", modifiers, "?") drawn from the
   whole grammar of skip_exact_partial, the parser's skipping leaves exactly the
   JavaScript tokens *)
Theorem erase_annotate : forall mg p, sites_ok mg p = true ->
  exists N, forall n, (N <= n)%nat -> erase n (shape p) (typed mg p) = Ok (untyped p).
Proof. exact erase_annotate_all. Qed.
Print Assumptions erase_annotate.

(* enum member values computed by the visitor satisfy the TypeScript handbook
   rules, for every member list whose values stay in the modelled domain
   (integer-valued numbers |v| <= 2^53, NaN, +-Infinity, strings) -- "**" included
   since /repo 9e1822e *)
Theorem enum_values_spec : forall ms,
  forallb (fun v => match v with VOut => false | _ => true end) (enum_values ms) = true ->
  SpecEnum [] None ms (enum_values ms).
Proof. exact enum_values_spec_all. Qed.
Print Assumptions enum_values_spec.

(* constant folding of initialisers agrees with ECMAScript evaluation, for every
   expression and every environment of earlier members (no side condition: the
   special cases 1 ** NaN, (+-1) ** +-Infinity are now NaN as in ECMA-262) *)
Theorem enum_fold_sound : forall known e, eval go_pow known e = eval js_pow known e.
Proof. exact eval_agree. Qed.
Print Assumptions enum_fold_sound.

(* domain of this statement: the model gives a numeric value for x ** y only when the exact
   result is an integer with |x ** y| <= 2^53 (there math.Pow is exact: checked by the harness on a
   grid on every run) or when an operand is NaN / +-Infinity; every other finite result is VOut on
   both sides (no claim) -- large finite results of math.Pow are some ulps away from V8's
   (known finding C06-M, C03-G family) *)
Theorem enum_pow_is_ecmascript : forall a b, go_pow a b = js_pow a b.
Proof. exact pow_agree. Qed.
Print Assumptions enum_pow_is_ecmascript.

(* the former counter-example (DESIGN section 7-B): enum E { A = 1 ** (0/0) } *)
Theorem enum_pow_special_witness :
  enum_values pow_witness = [VNaN] /\ SpecEnum [] None pow_witness [VNaN] /\ ~ SpecEnum [] None pow_witness [VNum 1].
Proof. exact enum_pow_witness. Qed.
Print Assumptions enum_pow_special_witness.

(* class-field semantics selected by tsconfig: the table generated from the
   switch over "target" in ParseTSConfigJSON is TypeScript's rule for the default
   of useDefineForClassFields (true iff target >= ES2022, ESNext included), for
   EVERY target string (recognised names in any letter case; every other string is
   unrecognised on both sides) *)
Theorem use_define_default_is_typescript_rule : forall name,
  match go_target name, spec_year name with
  | Some above, Some y => above = ts_default_use_define y
  | None, None => True
  | _, _ => False
  end.
Proof. exact go_target_is_rule. Qed.
Print Assumptions use_define_default_is_typescript_rule.

(* ... and combined with an explicit useDefineForClassFields as in parseClass *)
Theorem effective_use_define_is_typescript_rule : forall explicit target,
  effective_define explicit (match target with Some n => go_target n | None => None end) = spec_define explicit target.
Proof. exact effective_define_is_rule. Qed.
Print Assumptions effective_use_define_is_typescript_rule.

(* parameter properties + instance field initialisers under assign semantics
   (constructor(private x, public y = e) and f = init): ORDER -- the lowered
   constructor is [statements before super()] super() [this.x = x in parameter
   order] [field initialisers in declaration order] [rest of the body]; without a
   base class the generated statements come first *)
Theorem parameter_properties_order : forall derived params fields body,
  (derived = true -> existsb is_super body = true) ->
  exists pre post,
    body = pre ++ (if derived then [SSuper] else []) ++ post /\
    (derived = true -> existsb is_super pre = false) /\ (derived = false -> pre = []) /\
    lower derived params fields body =
      Some (pre ++ (if derived then [SSuper] else []) ++
            map SAssignParam (map fst (filter snd params)) ++ map SFieldInit fields ++ post).
Proof. exact lower_order_all. Qed.
Print Assumptions parameter_properties_order.

(* ONCE: the user's statements are all kept, in their order, and the generated
   statements are exactly the listed ones *)
Theorem parameter_properties_preserve_body : forall derived params fields body out,
  forallb user_stmt body = true -> lower derived params fields body = Some out ->
  filter user_stmt out = body /\ filter (fun s => negb (user_stmt s)) out = generated params fields.
Proof. exact lower_preserves_body_all. Qed.
Print Assumptions parameter_properties_preserve_body.

Theorem parameter_property_assigned_once : forall derived params fields body out x,
  forallb user_stmt body = true -> lower derived params fields body = Some out ->
  NoDup (map fst params) -> In (x, true) params ->
  count_occ Z.eq_dec (flat_map (fun s => match s with SAssignParam n => [n] | _ => [] end) out) x = 1%nat.
Proof. exact param_assigned_once_all. Qed.
Print Assumptions parameter_property_assigned_once.

(* names in an enum body resolve against enum members first (this block and the
   sibling blocks of a merged enum), then lexically; the exports of a namespace
   merged with the enum are never captured -- findSymbol's rule equals
   TypeScript's resolveName rule for every name *)
Theorem enum_name_resolution_is_typescript_rule : forall block exported n,
  NoDup (map fst exported) -> (forall m, In m block -> lookup_flag m exported = Some true) ->
  resolve_name block exported n = spec_resolve (map fst (filter snd exported)) n.
Proof. exact resolve_is_spec. Qed.
Print Assumptions enum_name_resolution_is_typescript_rule.

(* ... hence the run-time value of a name in an initialiser, given the enum object
   and the OUTER environment, is the value the specification's lookup order gives *)
Theorem enum_name_value_with_outer_environment : forall block exported obj outer n,
  NoDup (map fst exported) -> (forall m, In m block -> lookup_flag m exported = Some true) ->
  rt_name block exported obj outer n = spec_name (map fst (filter snd exported)) obj outer n.
Proof. exact rt_name_is_spec. Qed.
Print Assumptions enum_name_value_with_outer_environment.
