(* C06: TypeScript enum member values.

   Model: the SEnum case of visitAndAppendStmt (internal/js_parser/js_parser.go:
   nextNumericValue / hasNumericValue / exportedMembers updates) together with
   the constant folding it switches on (js_ast.FoldBinaryOperator, the unary
   folds, inlining of references to earlier members), over the domain of
   integer-valued numbers |v| <= 2^53, NaN, +-Infinity and strings.  Results
   outside that domain are [VOut] (no claim); expressions esbuild leaves for
   run time are [VDyn].

   Specification: the TypeScript handbook rules for enum member values (first
   member 0, previous numeric + 1, constant enum expressions evaluated with
   ECMAScript semantics, earlier members in scope) as an inductive relation. *)
From V Require Import Common.Base.

Inductive val : Type :=
| VNum (z : Z) | VNaN | VInf (neg : bool) | VStr (s : list Z) | VUndef | VDyn | VOut.

Inductive ex : Type :=
| XNum (z : Z) | XStr (s : list Z) | XNaN | XInf
| XRef (name : Z)                 (* A  or  E.A  or  E["A"] *)
| XNeg (e : ex) | XPos (e : ex) | XNot (e : ex)
| XBin (op : Z) (a b : ex)       (* 0 + 1 - 2 * 3 / 4 % 5 ** 6 | 7 & 8 ^ 9 << 10 >> 11 >>> *)
| XOpaque.                        (* anything esbuild does not fold, e.g. a call *)

Definition lim := 2 ^ 53.
Definition num (z : Z) : val := if (Z.abs z <=? lim) then VNum z else VOut.

Definition to_int32 (z : Z) : Z := let m := z mod 2 ^ 32 in if m >=? 2 ^ 31 then m - 2 ^ 32 else m.
Definition to_uint32 (z : Z) : Z := z mod 2 ^ 32.
Definition i32 (v : val) : option Z :=
  match v with VNum z => Some (to_int32 z) | VNaN | VInf _ => Some 0 | _ => None end.
Definition u32 (v : val) : option Z :=
  match v with VNum z => Some (to_uint32 z) | VNaN | VInf _ => Some 0 | _ => None end.

Definition is_numeric (v : val) : bool := match v with VNum _ | VNaN | VInf _ => true | _ => false end.

(* IEEE arithmetic on the modelled domain (shared by model and specification;
   Go's float64 + - * / and math.Mod are trusted, see DESIGN.md section 4) *)
Definition arith (op : Z) (a b : val) : val :=
  match a, b with
  | VNum x, VNum y =>
      if op =? 0 then num (x + y) else if op =? 1 then num (x - y)
      else if op =? 2 then (if (x * y =? 0) && ((x <? 0) || (y <? 0)) then VOut (* -0 *) else num (x * y))
      else if op =? 3 then
        (if y =? 0 then (if x =? 0 then VNaN else VInf (x <? 0))
         else if x mod y =? 0 then (if (x =? 0) && (y <? 0) then VOut else num (x / y)) else VOut)
      else (* % *)
        (if y =? 0 then VNaN else if (Z.rem x y =? 0) && (x <? 0) then VOut else num (Z.rem x y))
  | VNaN, _ | _, VNaN => if is_numeric a && is_numeric b then VNaN else VDyn
  | _, _ => VOut
  end.

Definition bitop (op : Z) (a b : val) : val :=
  match i32 a, i32 b, u32 a, u32 b with
  | Some x, Some y, Some ux, Some uy =>
      let s := uy mod 32 in
      if op =? 6 then VNum (Z.lor x y) else if op =? 7 then VNum (Z.land x y)
      else if op =? 8 then VNum (Z.lxor x y)
      else if op =? 9 then VNum (to_int32 (x * 2 ^ s))
      else if op =? 10 then VNum (Z.shiftr x s)
      else VNum (Z.shiftr ux s)
  | _, _, _, _ => VDyn
  end.

(* integer powers inside the modelled domain: |x| > 1 and y >= 64 is beyond 2^53.
   ASSUMPTION made explicit: where the exact result is an integer of magnitude <= 2^53
   Go's math.Pow returns it exactly (checked on a grid by the harness); larger finite
   results are VOut -- math.Pow is not correctly rounded there (known finding C06-M) *)
Definition pow_int (x y : Z) : val :=
  if y <? 0 then VOut
  else if x =? 0 then VNum 0                      (* y = 0 is handled before *)
  else if 1 <? Z.abs x then (if 64 <=? y then VOut else num (x ^ y))
  else num (x ^ (y mod 2)).                       (* x = 1 or -1 *)

(* x ** y as computed by FoldBinaryOperator after /repo 9e1822e: NaN when the
   exponent is NaN or when |base| = 1 and the exponent is infinite (the cases in
   which Go's math.Pow returns 1), math.Pow otherwise (Pow(x, +-0) = 1 for any x,
   Pow(1, y) = 1, NaN when the base is NaN) *)
Definition go_pow (a b : val) : val :=
  match a, b with
  | _, VNaN => VNaN
  | VNum 1, VInf _ | VNum (-1), VInf _ => VNaN
  | _, VNum 0 => VNum 1
  | VNum 1, _ => VNum 1
  | VNaN, _ => VNaN
  | VNum x, VNum y => pow_int x y
  | _, _ => VOut
  end.

(* ECMA-262 Number::exponentiate: exponent NaN -> NaN; exponent +-0 -> 1;
   base NaN -> NaN; |base| = 1 and exponent +-Infinity -> NaN *)
Definition js_pow (a b : val) : val :=
  match a, b with
  | _, VNaN => VNaN
  | _, VNum 0 => VNum 1
  | VNaN, _ => VNaN
  | VNum 1, VInf _ | VNum (-1), VInf _ => VNaN
  | VNum 1, _ => VNum 1
  | VNum x, VNum y => pow_int x y
  | _, _ => VOut
  end.

Definition env := list (Z * val).
Fixpoint lookup (n : Z) (e : env) : option val :=
  match e with [] => None | (k, v) :: r => if k =? n then Some v else lookup n r end.

Section Eval.
Variable pow : val -> val -> val.

(* FoldBinaryOperator: folds only when both sides are numeric (or both strings for +) *)
Definition binop (op : Z) (a b : val) : val :=
  match a, b with
  | VOut, _ | _, VOut => VOut
  | _, _ =>
    if is_numeric a && is_numeric b then
      (if op <=? 4 then arith op a b else if op =? 5 then pow a b else bitop op a b)
    else match a, b with
         | VStr x, VStr y => if op =? 0 then VStr (x ++ y) else VDyn
         | _, _ => VDyn
         end
  end.

Fixpoint eval (known : env) (e : ex) : val :=
  match e with
  | XNum z => num z
  | XStr s => VStr s
  | XNaN => VNaN
  | XInf => VInf false
  | XRef n => match lookup n known with Some v => v | None => VDyn end
  | XNeg a =>
      match eval known a with
      | VNum z => if z =? 0 then VOut else VNum (- z)
      | VNaN => VNaN | VInf s => VInf (negb s) | VOut => VOut | _ => VDyn
      end
  | XPos a => match eval known a with VNum z => VNum z | VNaN => VNaN | VInf s => VInf s | VOut => VOut | _ => VDyn end
  | XNot a => match eval known a with VOut => VOut | v => match i32 v with Some x => VNum (- x - 1) | None => VDyn end end
  | XBin op a b => binop op (eval known a) (eval known b)
  | XOpaque => VDyn
  end.
End Eval.

Definition constant (v : val) : bool := match v with VNum _ | VNaN | VInf _ | VStr _ => true | _ => false end.

(* ---- model of the SEnum visit loop ---- *)
Record st := mkSt { next : val; hasNum : bool; known : env }.
Definition st0 := mkSt (VNum 0) true [].
Definition succ (v : val) : val := match v with VNum z => num (z + 1) | v => v end.

Definition member := (Z * option ex)%type.

Definition step (s : st) (m : member) : st * val :=
  let '(name, init) := m in
  match init with
  | Some e =>
      let v := eval go_pow (known s) e in
      match v with
      | VNum _ | VNaN | VInf _ => (mkSt (succ v) true ((name, v) :: known s), v)
      | VStr _ => (mkSt (next s) false ((name, v) :: known s), v)
      | VOut => (mkSt VOut true ((name, VOut) :: known s), VOut)   (* a number outside the modelled domain *)
      | _ => (mkSt (next s) false (known s), v)
      end
  | None =>
      if hasNum s then (mkSt (succ (next s)) true ((name, next s) :: known s), next s)
      else (mkSt (next s) false (known s), VUndef)
  end.

Fixpoint enum_loop (s : st) (ms : list member) : list val :=
  match ms with
  | [] => []
  | m :: r => let '(s', v) := step s m in v :: enum_loop s' r
  end.
Definition enum_values (ms : list member) : list val := enum_loop st0 ms.

(* ---- specification: the handbook rules ---- *)
(* prev: the value of the previous member (None before the first member) *)
Inductive SpecEnum : env -> option val -> list member -> list val -> Prop :=
| SE_nil : forall en prev, SpecEnum en prev [] []
| SE_init : forall en prev name e r v vs,
    v = eval js_pow en e ->
    SpecEnum (if constant v then (name, v) :: en else en) (Some v) r vs ->
    SpecEnum en prev ((name, Some e) :: r) (v :: vs)
| SE_first : forall en name r vs,
    SpecEnum ((name, VNum 0) :: en) (Some (VNum 0)) r vs ->
    SpecEnum en None ((name, None) :: r) (VNum 0 :: vs)
| SE_next : forall en p name r vs,
    is_numeric p = true ->
    SpecEnum ((name, succ p) :: en) (Some (succ p)) r vs ->
    SpecEnum en (Some p) ((name, None) :: r) (succ p :: vs)
| SE_error : forall en p name r vs,           (* "Enum member must have initializer": undefined at run time *)
    is_numeric p = false ->
    SpecEnum en (Some p) r vs ->
    SpecEnum en (Some p) ((name, None) :: r) (VUndef :: vs).

Lemma pow_agree a b : go_pow a b = js_pow a b.
Proof.
  destruct a as [x| | | | | |], b as [y| | | | | |]; cbn; try reflexivity;
    repeat match goal with
    | |- context [match ?z with 0 => _ | Z.pos _ => _ | Z.neg _ => _ end] => destruct z
    | |- context [match ?p with xH => _ | xO _ => _ | xI _ => _ end] => destruct p
    end; cbn in *; try reflexivity.
Qed.

(* constant folding of initialisers agrees with ECMAScript evaluation, "**" included *)
Lemma eval_agree known e : eval go_pow known e = eval js_pow known e.
Proof.
  induction e; cbn [eval]; try reflexivity.
  all: try (rewrite IHe; reflexivity).
  all: try (rewrite IHe1, IHe2; unfold binop; destruct (op =? 5);
            [rewrite pow_agree; reflexivity|];
            destruct (eval js_pow known e1), (eval js_pow known e2); try reflexivity;
            cbn [is_numeric andb]; destruct (op <=? 4); reflexivity).
Qed.

(* loop invariant linking the visitor state to the specification's context *)
Definition inv (s : st) (prev : option val) : Prop :=
  match prev with
  | None => s = st0
  | Some p => if is_numeric p then hasNum s = true /\ next s = succ p else hasNum s = false
  end.

Lemma is_numeric_succ p : is_numeric p = true -> is_numeric (succ p) = true \/ succ p = VOut.
Proof. destruct p; cbn; try discriminate; auto. unfold num. destruct (Z.abs (z + 1) <=? lim); auto. Qed.

(* the model's member values satisfy the handbook rules, as long as no value
   leaves the modelled domain (VOut) *)
Lemma enum_loop_spec : forall ms s prev en,
  en = known s ->
  inv s prev ->
  forallb (fun v => match v with VOut => false | _ => true end) (enum_loop s ms) = true ->
  SpecEnum en prev ms (enum_loop s ms).
Proof.
  induction ms as [|[name init] r IH]; intros s prev en Hen Hi Ho; [constructor|]. subst en.
  cbn [enum_loop] in *.
  destruct init as [e|].
  - cbn [step] in *. pose proof (eval_agree (known s) e) as Ea.
    destruct (eval go_pow (known s) e) eqn:Ev; cbn [fst enum_loop] in *; cbn [forallb] in Ho;
      try discriminate; apply andb_true_iff in Ho as [_ Ho];
      (eapply SE_init; [exact Ea|]); cbn [constant];
      (eapply IH; [reflexivity| |exact Ho]); cbn; auto.
    all: try (destruct prev as [p|]; cbn in Hi; [destruct (is_numeric p); intuition|subst; reflexivity]).
  - cbn [step] in *. destruct prev as [p|]; cbn [inv] in Hi.
    + destruct (is_numeric p) eqn:Enp.
      * destruct Hi as [Hh Hn]. rewrite Hh in *. cbn [fst enum_loop forallb] in *. rewrite Hn in *.
        apply andb_true_iff in Ho as [Ho1 Ho].
        apply SE_next; [exact Enp|]. eapply IH; [reflexivity| |exact Ho]. cbn.
        destruct (is_numeric_succ p Enp) as [E|E]; [rewrite E; cbn; auto|rewrite E in Ho1; discriminate].
      * rewrite Hi in *. cbn [fst enum_loop forallb] in *. apply SE_error; [exact Enp|].
        eapply IH; [reflexivity| |exact Ho]. cbn. rewrite Enp. reflexivity.
    + subst s. cbn [hasNum st0 next fst enum_loop forallb succ known] in *.
      apply SE_first. eapply IH; [reflexivity| |exact Ho]. cbn. auto.
Qed.

Lemma enum_values_spec_all ms :
  forallb (fun v => match v with VOut => false | _ => true end) (enum_values ms) = true ->
  SpecEnum [] None ms (enum_values ms).
Proof. intros. apply (enum_loop_spec ms st0 None []); auto; reflexivity. Qed.

(* DESIGN section 7-B, fixed in /repo by 9e1822e: enum E { A = 1 ** (0/0) } is NaN in
   the model as in the specification (before the fix the model gave 1) *)
Definition pow_witness : list member := [(100, Some (XBin 5 (XNum 1) (XBin 3 (XNum 0) (XNum 0))))].
Lemma enum_pow_witness :
  enum_values pow_witness = [VNaN] /\ SpecEnum [] None pow_witness [VNaN] /\ ~ SpecEnum [] None pow_witness [VNum 1].
Proof.
  split; [reflexivity|]. split.
  - eapply SE_init; [reflexivity|]. constructor.
  - intros H. inversion H; subst. match goal with E : VNum 1 = eval js_pow _ _ |- _ => cbn in E; discriminate end.
Qed.

(* ---- correspondence cases ---- *)
(* (members, observed values): values are encoded (tag, payload) :
   0 number z | 1 NaN | 2 +Inf | 3 -Inf | 4 string | 5 undefined | 6 not constant *)
Definition enum_case := (list (Z * option ex) * list (Z * list Z))%type.
Definition val_matches (v : val) (o : Z * list Z) : bool :=
  let '(tag, pl) := o in
  match v with
  | VNum z => (tag =? 0) && zlist_eqb pl [z]
  | VNaN => tag =? 1
  | VInf false => tag =? 2
  | VInf true => tag =? 3
  | VStr s => (tag =? 4) && zlist_eqb pl s
  | VUndef => tag =? 5
  | VDyn => tag =? 6
  | VOut => true
  end.
Fixpoint all2 {A B} (f : A -> B -> bool) (a : list A) (b : list B) : bool :=
  match a, b with [], [] => true | x :: a', y :: b' => f x y && all2 f a' b' | _, _ => false end.
Definition enum_case_ok (c : enum_case) : bool :=
  let '(ms, obs) := c in all2 val_matches (enum_values ms) obs.

(* ---- name resolution inside an enum body ----
   Model: findSymbol (js_parser.go) -- the names declared in this block's scope
   (its own members), then the exported members of the scope's TypeScript
   namespace object when "tsNamespace.IsEnumScope == member.IsEnumValue" (inside an
   enum: only enum values, i.e. members of sibling blocks of the merged enum; the
   exports of a merged namespace are not visible), then the enclosing scopes.
   Specification: TypeScript's resolveName at an EnumDeclaration looks in the
   enum symbol's exports restricted to enum members, then continues lexically. *)
Inductive res_kind : Type := RMember | ROuter.
Definition res_kind_eqb (a b : res_kind) : bool := match a, b with RMember, RMember | ROuter, ROuter => true | _, _ => false end.

Fixpoint lookup_flag (n : Z) (e : list (Z * bool)) : option bool :=
  match e with [] => None | (k, v) :: r => if k =? n then Some v else lookup_flag n r end.

(* block: the members of the block being visited; exported: the merged object's
   exported members with their IsEnumValue flag (earlier entries win) *)
Definition resolve_name (block : list Z) (exported : list (Z * bool)) (n : Z) : res_kind :=
  if existsb (Z.eqb n) block then RMember
  else match lookup_flag n exported with Some true => RMember | _ => ROuter end.

Definition spec_resolve (enum_members : list Z) (n : Z) : res_kind :=
  if existsb (Z.eqb n) enum_members then RMember else ROuter.

Lemma existsb_filter_flag n : forall exported, NoDup (map fst exported) ->
  existsb (Z.eqb n) (map fst (filter snd exported)) = match lookup_flag n exported with Some true => true | _ => false end.
Proof.
  induction exported as [|[k b] r IH]; intros Hnd; [reflexivity|].
  cbn [map fst] in Hnd. inversion Hnd as [|? ? Hk Hr]; subst. cbn [filter snd lookup_flag].
  destruct (k =? n) eqn:E.
  - apply Z.eqb_eq in E. subst k. destruct b; cbn [map fst existsb].
    + rewrite Z.eqb_refl. reflexivity.
    + rewrite (IH Hr). destruct (lookup_flag n r) as [[|]|] eqn:El; auto.
      exfalso. apply Hk. clear -El. induction r as [|[k' b'] r' IH']; [discriminate|]. cbn in *.
      destruct (k' =? n) eqn:E'; [left; apply Z.eqb_eq; exact E'|right; apply IH'; exact El].
  - destruct b; cbn [map fst existsb]; [rewrite Z.eqb_sym, E; cbn|]; apply IH; exact Hr.
Qed.

(* every member of the visited block is registered as an enum value of the merged object *)
Lemma resolve_is_spec block exported n :
  NoDup (map fst exported) -> (forall m, In m block -> lookup_flag m exported = Some true) ->
  resolve_name block exported n = spec_resolve (map fst (filter snd exported)) n.
Proof.
  intros Hnd Hb. unfold resolve_name, spec_resolve. rewrite (existsb_filter_flag n exported Hnd).
  destruct (existsb (Z.eqb n) block) eqn:E; [|destruct (lookup_flag n exported) as [[|]|]; reflexivity].
  apply existsb_exists in E as [m [Hin Hm]]. apply Z.eqb_eq in Hm. subst m. rewrite (Hb n Hin). reflexivity.
Qed.

(* run-time value of a name in an initialiser: a member is read from the enum
   object, anything else lexically; with the specification's lookup order
   (members first, then the outer environment) this is the same value *)
Definition rt_name (block : list Z) (exported : list (Z * bool)) (obj outer : env) (n : Z) : option val :=
  match resolve_name block exported n with RMember => lookup n obj | ROuter => lookup n outer end.
Definition spec_name (enum_members : list Z) (obj outer : env) (n : Z) : option val :=
  if existsb (Z.eqb n) enum_members then lookup n obj else lookup n outer.

Lemma rt_name_is_spec block exported obj outer n :
  NoDup (map fst exported) -> (forall m, In m block -> lookup_flag m exported = Some true) ->
  rt_name block exported obj outer n = spec_name (map fst (filter snd exported)) obj outer n.
Proof.
  intros Hnd Hb. unfold rt_name, spec_name. rewrite (resolve_is_spec block exported n Hnd Hb). unfold spec_resolve.
  destruct (existsb (Z.eqb n) (map fst (filter snd exported))); reflexivity.
Qed.

(* correspondence: (block members, exported (name, IsEnumValue), name, observed: 1 = property of the enum object / inlined member, 0 = lexical reference) *)
Definition resolve_case := (list Z * list (Z * bool) * Z * Z)%type.
Definition resolve_case_ok (c : resolve_case) : bool :=
  let '(block, exported, n, obs) := c in
  res_kind_eqb (resolve_name block exported n) (if obs =? 1 then RMember else ROuter).
