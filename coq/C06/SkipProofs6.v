(* C06: skip_exact, object types assembled; the induction over the whole grammar *)
From V Require Import Common.Base C06.TsTokens C06.SkipType C06.SkipMono C06.TypeGrammar
  C06.SkipProofs C06.SkipProofs2 C06.SkipProofs3 C06.SkipProofs4 C06.SkipProofs5.

Section Main6.
Variable mg : bool.
Notation R := (R mg).
Notation Kst := (Kst mg).
Notation Pst := (Pst mg).

Lemma obj_loop : forall ms, Forall Pst ms -> wf_members_with wfb ms = true ->
  forall post, Ev (CObjLoop (join [] (map R ms) (tk1 KRBrace :: post))) (0, post).
Proof.
  induction ms as [|m r IH]; intros HP W post.
  - cbn [map join]. apply ev0. intros s. reflexivity.
  - inversion HP as [|? ? Pm Pr]; subst. cbn [wf_members_with] in W. apply andb_true_iff in W as [Wm Wr].
    specialize (IH Pr Wr post).
    set (T := join [] (map R r) (tk1 KRBrace :: post)) in *.
    assert (EJ : join [] (map R (m :: r)) (tk1 KRBrace :: post) = R m T) by (destruct r; reflexivity).
    rewrite EJ. clear EJ.
    assert (Hsep : forall s, sep_ok (match r with [] => true | _ => false end) s = true -> sep_fits s T).
    { intros s Hs. unfold sep_ok in Hs. unfold sep_fits.
      destruct (s =? 0) eqn:E0; [left; lia|]. destruct (s =? 1) eqn:E1; [right; left; lia|].
      cbn [orb] in Hs. apply andb_true_iff in Hs as [Hl E2]. right; right. split; [lia|].
      destruct r; [reflexivity|discriminate]. }
    destruct m; try discriminate; cbn [wf_member_with] in Wm; destruct Pm as [_ Pm];
      repeat match goal with H : _ && _ = true |- _ => apply andb_true_iff in H as [? ?] end.
    + (* TMProp *) apply member_prop; auto.
      match goal with H : match ?k with [] => false | _ :: _ => true end = true |- _ => destruct k; [discriminate H|discriminate] end.
    + (* TMMeth *) destruct Pm as [PTs [PPs PRet]].
      apply member_meth; auto.
      * intros ->. assumption.
      * intros ->. match goal with H : negb ?o = true |- _ => apply negb_true_iff in H; exact H end.
      * intros _. apply tail_ok_harmless. apply (sep_head sep T (Hsep sep ltac:(assumption))).
    + (* TMIndex *) destruct Pm as [Pk Pv]. apply member_index; auto.
    + (* TMMapped *) destruct Pm as [Ps [Pa Pv]]. apply member_mapped; auto. intros ->. assumption.
Qed.

Lemma K_obj ms : Forall Pst ms -> Kst (TObj ms).
Proof.
  intros HP W lvl f post r Hl _ Hf Ht _ Hs. cbn [R wfb] in *.
  eapply type_of_prefix; [|exact Hs].
  assert (HO : Ev (CObject (tk1 KLBrace :: join [] (map R ms) (tk1 KRBrace :: post))) (0, post)).
  { eapply ev1; [apply (obj_loop ms HP W post)|]. intros s E1. cbn [F]. unfold F_object. cbn. exact E1. }
  eapply ev1; [exact HO|]. intros s E1. cbn [F]. unfold F_prefix. cbn [hd_tk tk1 fst]. unfold snd_of, bind.
  change ((KLBrace, false) :: join [] (map R ms) (tk1 KRBrace :: post)) with (tk1 KLBrace :: join [] (map R ms) (tk1 KRBrace :: post)).
  rewrite E1. reflexivity.
Qed.

Lemma Forall_Kst l : Forall Pst l -> Forall Kst l.
Proof. intros H. eapply Forall_impl; [|exact H]. intros a [Ha _]. exact Ha. Qed.

Lemma K_all t : Pst t.
Proof.
  induction t using ty_ind'; unfold SkipProofs3.Pst; (split; [|try exact I]).
  - apply K_prim. - apply K_lit. - apply K_this. - apply K_unique.
  - apply K_ref, Forall_Kst; assumption.
  - apply K_typeof, Forall_Kst; assumption.
  - apply K_import, Forall_Kst; assumption.
  - apply K_arr, IHt. - apply K_idx; [apply IHt1|apply IHt2].
  - apply K_tuple. assumption.
  - intros W; discriminate. - apply IHt.
  - apply K_union; [apply IHt1|apply IHt2].
  - apply K_inter; [apply IHt1|apply IHt2].
  - apply K_keyof, IHt.
  - apply K_infer.
  - intros W; discriminate. - apply IHt.
  - apply K_paren, IHt.
  - apply K_fn; assumption.
  - intros W; discriminate. - split; [apply IHt1|apply IHt2].
  - intros W; discriminate. - apply IHt.
  - intros W; discriminate. - apply IHt.
  - apply K_obj. assumption.
  - intros W; discriminate. - apply IHt.
  - intros W; discriminate. - split; [apply tparams_st; assumption|split; [apply params_loop; assumption|apply ret_st; assumption]].
  - intros W; discriminate. - split; [apply IHt1|apply IHt2].
  - intros W; discriminate. - split; [apply IHt1|split; [apply IHt2|apply IHt3]].
  - apply K_cond; [apply IHt1| |apply IHt3|apply IHt4]. destruct t2; apply IHt2.
  - apply K_pred, IHt.
  - apply K_template, Forall_Kst; assumption.
Qed.

Lemma cargs_ok args post : args <> [] -> forallb wfb args = true ->
  Ev (CArgs false (tk1 KLt :: join [tk1 KComma] (map R args) (push_gt mg post))) (1, post).
Proof.
  intros Hne W. destruct (push_gt_ok mg post) as [P1 [P2 [P3 P4]]].
  assert (HK : Forall Kst args).
  { apply Forall_forall. intros x _. apply (proj1 (K_all x)). }
  pose proof (args_loop mg args Hne HK W (push_gt mg post) P1 P2 P3) as HJ.
  remember (join [tk1 KComma] (map R args) (push_gt mg post)) as J eqn:EJ. clear EJ.
  eapply (ev1 _ (CArgLoop J) (0, push_gt mg post)); [exact HJ|].
  intros s E1. cbn [F]. unfold F_args. cbn [hd_tk tk1 fst expect_lt]. unfold snd_of, bind. rewrite E1. rewrite P4. reflexivity.
Qed.

(* tokens that cannot continue a type (at any level): the follow set *)
Definition follow_ok (rest : toks) : bool :=
  stop_tk (hd_tk rest) && harmless (hd_tk rest).

Lemma skip_exact_R t rest lvl f :
  wfb t = true -> lvl <= LPrefix -> lvl_ok t lvl = true -> fNoCond f = false ->
  follow_ok rest = true ->
  exists N, forall m, (N <= m)%nat -> run m (CType lvl f (R t rest)) = Ok (0, rest).
Proof.
  intros W Hl Hlv Hf Hfo. apply andb_true_iff in Hfo as [Hs Hh].
  apply Ev_all. apply (proj1 (K_all t)); auto.
  - congruence.
  - apply tail_ok_harmless. exact Hh.
  - apply suffix_stop. exact Hs.
Qed.

(* return positions (isReturnTypeFlag): also assertion signatures *)
Lemma skip_exact_ret ret rest :
  wf_ret_with wfb ret = true -> follow_ok rest = true ->
  exists N, forall m, (N <= m)%nat -> run m (CType LLowest fl_ret (R ret rest)) = Ok (0, rest).
Proof.
  intros W Hfo. apply andb_true_iff in Hfo as [Hs Hh]. apply Ev_all.
  apply (ret_st mg ret (K_all ret) W rest Hs). apply tail_ok_harmless. exact Hh.
Qed.
End Main6.
