(* C06: skip_exact, cases for tuples, parentheses, function types (continues SkipProofs2.v) *)
From V Require Import Common.Base C06.TsTokens C06.SkipType C06.SkipMono C06.TypeGrammar C06.SkipProofs C06.SkipProofs2.

Section Main3.
Variable mg : bool.
Notation R := (R mg).
Notation Kst := (Kst mg).

Definition RetSt (ret : ty) : Prop :=
  wf_ret_with wfb ret = true -> forall post, StopAll post -> tail_ok ret post = true ->
  Ev (CType LLowest fl_ret (R ret post)) (0, post).
Definition ParamsSt (ps : list ty) : Prop :=
  wf_params_with wfb ps = true -> forall post,
  Ev (CFnArgLoop (join [tk1 KComma] (map R ps) (tk1 KRParen :: post))) (0, post).

Definition tparamsR (tps : list ty) (post : toks) : toks :=
  match tps with [] => post | _ => tk1 KLt :: join [tk1 KComma] (map R tps) (push_gt mg post) end.
Definition TParamsSt (tps : list ty) : Prop :=
  wf_tparams_with wfb tps = true -> forall post, is KLt post = false ->
  exists code, Ev (CParams false (tparamsR tps post)) (code, post).

Definition Pst (t : ty) : Prop :=
  Kst t /\
  match t with
  | TElem _ _ _ _ x | TParam _ _ _ _ x | TAsserts _ _ x | TMProp _ _ x _ | TInferC _ x => Kst x
  | TMMeth _ _ tps ps _ ret _ => TParamsSt tps /\ ParamsSt ps /\ RetSt ret
  | TTParam _ _ _ _ c d => Kst c /\ Kst d
  | TMIndex _ _ kt vt _ => Kst kt /\ Kst vt
  | TMMapped _ _ _ src _ ast _ _ vt _ => Kst src /\ Kst ast /\ Kst vt
  | _ => True
  end.

(* ---- tuples ---- *)
Lemma label_type l Y : normal l = true -> harmless (hd_tk Y) = true -> stop_tk (hd_tk Y) = true ->
  Ev (CType LLowest fl_tup (tk1 (KIdent l) :: Y)) (0, Y).
Proof.
  intros Hl Hh Hs.
  change (tk1 (KIdent l) :: Y) with (R (TRef l [] []) Y).
  apply K_delim; auto.
  - apply K_ref. constructor.
  - cbn. rewrite Hl. reflexivity.
  - apply tail_ok_harmless. exact Hh.
Qed.

Lemma tuple_loop : forall es, Forall Pst es ->
  forallb (fun e => match e with TElem _ l _ _ x => ((l <? 0) || normal l) && wfb x | _ => false end) es = true ->
  forall post, Ev (CTuple (join [tk1 KComma] (map R es) (tk1 KRBrack :: post))) (0, tk1 KRBrack :: post).
Proof.
  induction es as [|e l IH]; intros HP W post.
  - cbn [map join]. apply ev0. intros s. reflexivity.
  - inversion HP as [|? ? Pe Pl]; subst. cbn [forallb] in W. apply andb_true_iff in W as [We Wl].
    destruct e; try discriminate. destruct Pe as [_ Kx]. apply andb_true_iff in We as [Hlb Wx].
    specialize (IH Pl Wl post).
    (* rest: what follows this element *)
    assert (Hrest : exists rest, join [tk1 KComma] (map R (TElem dots lbl lopt opt e :: l)) (tk1 KRBrack :: post) = R (TElem dots lbl lopt opt e) rest /\
              ((rest = tk1 KRBrack :: post /\ l = []) \/
               (exists J, rest = tk1 KComma :: J /\ Ev (CTuple J) (0, tk1 KRBrack :: post)))).
    { destruct l as [|y l'].
      - exists (tk1 KRBrack :: post). split; [reflexivity|left; auto].
      - exists (tk1 KComma :: join [tk1 KComma] (map R (y :: l')) (tk1 KRBrack :: post)). split; [reflexivity|].
        right. eexists; split; [reflexivity|exact IH]. }
    destruct Hrest as [rest [-> Hrest]]. clear IH.
    assert (Hst : stop_tk (hd_tk rest) = true /\ harmless (hd_tk rest) = true /\ is KQuestion rest = false /\ is KColon rest = false)
      by (destruct Hrest as [[-> _]|[J [-> _]]]; repeat split; reflexivity).
    destruct Hst as [S1 [S2 [S3 S4]]].
    assert (Hstart : forall p, is KRBrack (R e p) = false /\ is KDotDotDot (R e p) = false)
      by (intros p; split; apply not_is_of_start; auto).
    cbn [R]. destruct (lbl <? 0) eqn:El.
    + (* unlabelled *)
      assert (HT : Ev (CType LLowest fl_tup (R e (optq opt ++ rest))) (0, optq opt ++ rest)).
      { apply K_delim; auto; try reflexivity.
        - destruct opt; [reflexivity|exact S1].
        - apply tail_ok_harmless. destruct opt; [reflexivity|exact S2]. }
      destruct (Hstart (optq opt ++ rest)) as [A B].
      destruct Hrest as [[-> _]|[J [-> HJ]]].
      * eapply ev1; [exact HT|]. intros s E1. cbn [F]. unfold F_tuple.
        destruct dots; cbn [app]; [cbn [is tk1 fst tl]; change (tk_eqb KDotDotDot KRBrack) with false; change (tk_eqb KDotDotDot KDotDotDot) with true; cbn iota|rewrite A, B];
          unfold type_at, snd_of, bind; rewrite E1; destruct opt; reflexivity.
      * eapply ev2; [exact HT|exact HJ|]. intros s E1 E2. cbn [F]. unfold F_tuple.
        destruct dots; cbn [app]; [cbn [is tk1 fst tl]; change (tk_eqb KDotDotDot KRBrack) with false; change (tk_eqb KDotDotDot KDotDotDot) with true; cbn iota|rewrite A, B];
          unfold type_at, snd_of, bind; rewrite E1; destruct opt; cbn; exact E2.
    + (* labelled: name?: t *)
      cbn [orb] in Hlb.
      assert (HL : Ev (CType LLowest fl_tup (tk1 (KIdent lbl) :: optq lopt ++ tk1 KColon :: R e rest)) (0, optq lopt ++ tk1 KColon :: R e rest))
        by (apply label_type; auto; destruct lopt; reflexivity).
      assert (HT : Ev (CType LLowest fl0 (R e rest)) (0, rest))
        by (apply K_delim; auto; apply tail_ok_harmless; exact S2).
      remember (R e rest) as Re eqn:ERe.
      destruct Hrest as [[-> _]|[J [-> HJ]]].
      * eapply ev2; [exact HL|exact HT|]. intros s E1 E2. cbn [F]. unfold F_tuple.
        destruct dots; cbn [app]; cbn [is tk1 fst tl];
          [change (tk_eqb KDotDotDot KRBrack) with false; change (tk_eqb KDotDotDot KDotDotDot) with true; cbn iota|];
          unfold type_at, snd_of, bind; try (unfold tk_eqb at 1 2; destruct (tk_eq_dec (KIdent lbl) KRBrack); [discriminate|]; destruct (tk_eq_dec (KIdent lbl) KDotDotDot); [discriminate|]);
          rewrite E1; destruct lopt; cbn; rewrite E2; reflexivity.
      * eapply ev3; [exact HL|exact HT|exact HJ|]. intros s E1 E2 E3. cbn [F]. unfold F_tuple.
        destruct dots; cbn [app]; cbn [is tk1 fst tl];
          [change (tk_eqb KDotDotDot KRBrack) with false; change (tk_eqb KDotDotDot KDotDotDot) with true; cbn iota|];
          unfold type_at, snd_of, bind; try (unfold tk_eqb at 1 2; destruct (tk_eq_dec (KIdent lbl) KRBrack); [discriminate|]; destruct (tk_eq_dec (KIdent lbl) KDotDotDot); [discriminate|]);
          rewrite E1; destruct lopt; cbn; rewrite E2; cbn; exact E3.
Qed.

Lemma K_tuple es : Forall Pst es -> Kst (TTuple es).
Proof.
  intros HP W lvl f post r Hl _ Hf Ht _ Hs. cbn [R wfb] in *.
  eapply type_of_prefix; [|exact Hs].
  eapply (ev1 _ (CTuple (join [tk1 KComma] (map R es) (tk1 KRBrack :: post))) (0, tk1 KRBrack :: post)).
  - apply tuple_loop; auto.
  - intros s E1. cbn [F]. unfold F_prefix. cbn [hd_tk tk1 fst tl]. unfold snd_of, bind. rewrite E1. reflexivity.
Qed.
(* the arrow-argument attempt of skipTypeScriptParenOrFnType on "( ts" fails
   after at most two tokens *)
Definition paren_try_fails (ts : toks) : bool :=
  match ts with
  | (k1, _) :: rest =>
      match k1 with
      | KLBrack | KLBrace | KDotDotDot | KRParen => false
      | KIdent _ | KThis =>
          match rest with
          | (k2, _) :: rest2 =>
              match k2 with
              | KQuestion | KColon | KComma => false
              | KRParen => negb (is KArrow rest2)
              | _ => true
              end
          | [] => true
          end
      | _ => true
      end
  | [] => true
  end.

Lemma fnargs_try ts : paren_try_fails ts = true ->
  (exists n, run n (CFnArgs (tk1 KLParen :: ts)) = Fail) \/
  (exists r', Ev (CFnArgs (tk1 KLParen :: ts)) (0, r') /\ expect KArrow r' = Fail).
Proof.
  intros H. destruct ts as [|[k1 n1] rest]; [left; exists 3%nat; reflexivity|].
  destruct k1; cbn in H; try discriminate; try (left; exists 3%nat; reflexivity).
  all: destruct rest as [|[k2 n2] rest2]; [left; exists 3%nat; reflexivity|].
  all: destruct k2; cbn in H; try discriminate; try (left; exists 3%nat; reflexivity).
  all: right; exists rest2; (split; [exists 3%nat; reflexivity|]); unfold expect; apply negb_true_iff in H; rewrite H; reflexivity.
Qed.

Lemma paren_step ts r1 r2 : paren_try_fails ts = true ->
  Ev (CType LLowest fl0 ts) (0, r1) -> expect KRParen r1 = Ok r2 ->
  Ev (CParenOrFn (tk1 KLParen :: ts)) (0, r2).
Proof.
  intros Ht H1 He. apply Ev_all in H1 as [N1 H1].
  destruct (fnargs_try ts Ht) as [[n Hn]|[r' [[n Hn] Hr']]].
  - exists (S (N1 + n)). cbn [run F]. unfold F_parenorfn, snd_of, bind.
    rewrite (run_mono n (N1 + n) _ ltac:(lia)) by (rewrite Hn; discriminate). rewrite Hn.
    change (expect KLParen (tk1 KLParen :: ts)) with (Ok (A:=toks) ts). cbn iota.
    unfold type_at, snd_of, bind. rewrite H1 by lia. rewrite He. reflexivity.
  - exists (S (N1 + n)). cbn [run F]. unfold F_parenorfn, snd_of, bind.
    rewrite (run_mono n (N1 + n) _ ltac:(lia)) by (rewrite Hn; discriminate). rewrite Hn, Hr'.
    change (expect KLParen (tk1 KLParen :: ts)) with (Ok (A:=toks) ts). cbn iota.
    unfold type_at, snd_of, bind. rewrite H1 by lia. rewrite He. reflexivity.
Qed.

Definition bad2 (post : toks) : bool :=
  match post with
  | (k, _) :: rest => match k with KQuestion | KColon | KComma => true | KRParen => is KArrow rest | _ => false end
  | [] => false
  end.

Lemma paren_content t : head_atomic t = true -> wfb t = true ->
  forall post, bad2 post = false -> paren_try_fails (R t post) = true.
Proof.
  induction t; intros Ha W post Hb; cbn [head_atomic wfb R] in *; try discriminate;
    repeat match goal with H : _ && _ = true |- _ => apply andb_true_iff in H as [? ?] end.
  all: try solve [apply IHt; auto | apply IHt1; auto].
  all: try solve [reflexivity].
  all: try solve [destruct k; try discriminate; reflexivity].
  all: try solve [destruct tof; reflexivity].
  all: try solve [unfold bind_tk; destruct (x <? 0); reflexivity].
  all: try solve [destruct post as [|[k n] p]; [reflexivity|]; cbn in *; destruct k; try discriminate; auto; rewrite Hb; reflexivity].
  - (* TRef *) destruct q; [|reflexivity]. destruct args; [|reflexivity]. cbn [dots].
    destruct post as [|[k n] p]; [reflexivity|]. cbn in *. destruct k; try discriminate; auto. rewrite Hb. reflexivity.
  - (* TKeyof *) match goal with Ht : wfb ?t0 = true |- paren_try_fails (_ :: R ?t0 post) = true =>
      pose proof (R_hd mg t0 Ht post) as Hh; destruct (R t0 post) as [|[k2 n2] r2]; [reflexivity|]; cbn in Hh; destruct k2; try discriminate; reflexivity end.
  - (* TFn *) destruct (kind =? 2); [reflexivity|]. destruct (kind =? 1); [reflexivity|]. destruct tps; reflexivity.
Qed.

Lemma K_paren t : Kst t -> Kst (TParen t).
Proof.
  intros K W lvl f post r Hl _ Hf Ht _ Hs. cbn [R wfb tail_ok] in *.
  apply andb_true_iff in W as [W Hp]. unfold paren_content_ok in Hp.
  eapply type_of_prefix; [|exact Hs].
  eapply (ev1 _ (CParenOrFn (tk1 KLParen :: R t (tk1 KRParen :: post))) (0, post)).
  - eapply paren_step.
    + apply paren_content; auto. cbn. apply negb_true_iff in Ht. exact Ht.
    + apply K_delim; auto; try reflexivity; apply tail_ok_harmless; reflexivity.
    + reflexivity.
  - intros s E1. cbn [F]. unfold F_prefix. cbn [hd_tk tk1 fst]. unfold snd_of, bind.
    change ((KLParen, false) :: R t ((KRParen, false) :: post)) with (tk1 KLParen :: R t (tk1 KRParen :: post)).
    rewrite E1. reflexivity.
Qed.

End Main3.
