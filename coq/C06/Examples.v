(* non-vacuity: concrete values meeting the hypotheses of each theorem *)
From V Require Import Common.Base C06.TsTokens C06.SkipType C06.TypeGrammar C06.SkipProofs C06.SkipProofs6 C06.TypeArgsExpr C06.Erase C06.Enum gen.TsTargetsGen C06.TsTarget C06.ParamProps.

(* Array<Array<number>> = 1 : the ">>" token is split by the inner list *)
Example nested_generic :
  skip_type LLowest fl0 [(KIdent 114,false);(KLt,false);(KIdent 114,false);(KLt,false);(KIdent 11,false);(KGtGt,false);(KEq,false);(KNum,false)]
  = Ok [(KEq,false);(KNum,false)].
Proof. vm_compute. reflexivity. Qed.

(* T extends [infer U, ...any[]] ? Array<Array<U>> | null : (keyof T)[]   followed by "=" glued to ">" is not here; "=" follows "]" *)
Definition ex_type : ty :=
  TCond (TRef 103 [] []) (TTuple [TElem false (-1) false false (TInfer 104); TElem true (-1) false false (TArr TPrim)])
        (TUnion (TRef 114 [] [TRef 114 [] [TRef 104 [] []]]) (TLit KNull))
        (TArr (TParen (TUnion (TLit KNull) (TKeyof false (TRef 103 [] []))))).
Example ex_wf : wfb ex_type = true /\ lvl_ok ex_type LLowest = true /\ follow_ok [(KEq,false)] = true.
Proof. vm_compute. auto. Qed.
Example ex_tokens_glued : map fst (R true ex_type [(KEq,false)]) =
  [KIdent 103; KExtends; KLBrack; KIdent 6; KIdent 104; KComma; KDotDotDot; KIdent 11; KLBrack; KRBrack; KRBrack; KQuestion;
   KIdent 114; KLt; KIdent 114; KLt; KIdent 104; KGtGt; KBar; KNull; KColon; KLParen; KNull; KBar; KIdent 1; KIdent 103; KRParen; KLBrack; KRBrack; KEq].
Proof. vm_compute. reflexivity. Qed.
Example ex_skip_glued : skip_type LLowest fl0 (R true ex_type [(KEq,false)]) = Ok [(KEq,false)].
Proof. vm_compute. reflexivity. Qed.
Example ex_skip_unglued : skip_type LLowest fl0 (R false ex_type [(KEq,false)]) = Ok [(KEq,false)].
Proof. vm_compute. reflexivity. Qed.
(* "let x: Array<T>= 1": the ">=" token *)
Example ex_gteq : map fst (R true (TRef 114 [] [TRef 103 [] []]) [(KEq,false);(KNum,false)]) = [KIdent 114; KLt; KIdent 103; KGtEq; KNum].
Proof. vm_compute. reflexivity. Qed.

(* erase/annotate: f<Array<T>>(x as T[])!   ->   f(x)  *)
Definition ex_prog : list elem :=
  [J (KIdent 120,false); S (SArgs [TRef 114 [] [TRef 103 [] []]]); J (KLParen,false); J (KIdent 109,false);
   S (SAs false (TArr (TRef 103 [] []))); J (KRParen,false); S SBang; J (KSemi,false)].
Example ex_prog_ok : sites_ok true ex_prog = true.
Proof. vm_compute. reflexivity. Qed.
Example ex_prog_erase : erase 200 (shape ex_prog) (typed true ex_prog) = Ok (untyped ex_prog)
  /\ map fst (untyped ex_prog) = [KIdent 120; KLParen; KIdent 109; KRParen; KSemi].
Proof. vm_compute. auto. Qed.

(* enum E { A, B = 1 << 4, C, D = "x", F = B | 3, G = -F, H = ~G, I } *)
Definition ex_enum : list member :=
  [(100, None); (101, Some (XBin 9 (XNum 1) (XNum 4))); (102, None); (103, Some (XStr [120]));
   (104, Some (XBin 6 (XRef 101) (XNum 3))); (105, Some (XNeg (XRef 104))); (106, Some (XNot (XRef 105))); (107, None)].
Example ex_enum_values : enum_values ex_enum = [VNum 0; VNum 16; VNum 17; VStr [120]; VNum 19; VNum (-19); VNum 18; VNum 19].
Proof. vm_compute. reflexivity. Qed.
Example ex_enum_hyps : forallb (fun v => match v with VOut => false | _ => true end) (enum_values ex_enum) = true.
Proof. vm_compute. reflexivity. Qed.
Example ex_pow : map (fun p => go_pow (fst p) (snd p)) [(VNum 1, VNaN); (VNum (-1), VInf true); (VNaN, VNum 0); (VNum 2, VNum 10)] = [VNaN; VNaN; VNum 1; VNum 1024].
Proof. vm_compute. reflexivity. Qed.

(* the widened grammar:
   { readonly a?: A.B<T>; [k: string]: typeof x.y; m<const P extends T = "s", in out Q>(this: T, {a, "s": [, b, ...c], ...d}: any, ...r: U[]): r is V, -readonly [K in keyof T as `p${K}`]+?: T[K] }
   | (abstract new <P extends keyof T>(x?: import("m").C) => void) | [first: T, second?: U] | (T extends infer U extends any[] ? U : never) *)
Definition ex_wide : ty :=
  TUnion (TUnion (TUnion
    (TObj [TMProp [2; 120] true (TRef 100 [101] [TRef 103 [] []]) 0;
           TMIndex [] 105 TPrim (TTypeof 109 [110] []) 0;
           TMMeth [121] false [TTParam [0] 107 true true (TRef 103 [] []) (TLit KStr); TTParam [1; 2] 108 false false TPrim TPrim] [TParam false (PId (-1)) false true (TRef 103 [] []); TParam false (PObj [PShort 125; PProp (-2) (PArr 1 [PId 126; PRest (PId 127)]); PObjRest 128]) false true TPrim; TParam true (PId 122) false true (TArr (TRef 104 [] []))] true
                  (TPred 122 (TRef 106 [] [])) 1;
           TMMapped 2 [2] 105 (TKeyof false (TRef 103 [] [])) true (TTemplate [TRef 105 [] []]) 1 true
                    (TIdx (TRef 103 [] []) (TRef 105 [] [])) 2])
    (TParen (TFn 2 [TTParam [] 107 true false (TKeyof false (TRef 103 [] [])) TPrim] [TParam false (PId 109) true true (TImport false [102] [])] (TLit KVoid))))
    (TTuple [TElem false 123 false false (TRef 103 [] []); TElem false 124 true false (TRef 104 [] [])]))
    (TParen (TCond (TRef 103 [] []) (TInferC 104 (TArr TPrim)) (TRef 104 [] []) TPrim)).
Example ex_wide_wf : wfb ex_wide = true /\ lvl_ok ex_wide LLowest = true.
Proof. vm_compute. auto. Qed.
Example ex_wide_skip : skip_type LLowest fl0 (R true ex_wide [(KSemi,false)]) = Ok [(KSemi,false)].
Proof. vm_compute. reflexivity. Qed.
Example ex_wide_len : length (R true ex_wide []) = 142%nat.
Proof. vm_compute. reflexivity. Qed.
(* return position: asserts this is T *)
Example ex_ret : wf_ret_with wfb (TAsserts (-1) true (TRef 103 [] [])) = true /\
  skip_type LLowest fl_ret (R false (TAsserts (-1) true (TRef 103 [] [])) [(KLBrace,false)]) = Ok [(KLBrace,false)].
Proof. vm_compute. auto. Qed.
(* f<T>(x) is a call; a < b > c and a < b > -c are comparisons *)
Example ex_follow : spec_can_follow [(KLParen,false)] = true /\ spec_can_follow [(KIdent 102,false)] = false /\ spec_can_follow [(KMinus,false)] = false
  /\ spec_can_follow [(KIdent 102,true)] = true /\ spec_can_follow [(KRParen,false)] = true.
Proof. vm_compute. auto. Qed.

(* "ES2022" -> define, "es2021" -> assign, "ESNext" -> define, unrecognised -> esbuild's default *)
Example ex_targets : map go_target [[69;83;50;48;50;50]; [101;115;50;48;50;49]; [69;83;78;101;120;116]; [101;115;55]] = [Some true; Some false; Some true; None]
  /\ spec_define 0 (Some [69;83;50;48;50;50]) = true /\ spec_define 0 (Some [101;115;50;48;50;49]) = false /\ spec_define 2 (Some [69;83;50;48;50;50]) = false.
Proof. vm_compute. auto. Qed.

(* class P extends B { f = i1; constructor(public x, y, private z) { s1; super(); s2 } g = i2 } *)
Example ex_pp : lower true [(1, true); (2, false); (3, true)] [10; 11] [SOther 1; SSuper; SOther 2]
  = Some [SOther 1; SSuper; SAssignParam 1; SAssignParam 3; SFieldInit 10; SFieldInit 11; SOther 2]
  /\ forallb user_stmt [SOther 1; SSuper; SOther 2] = true /\ NoDup (map fst [(1, true); (2, false); (3, true)]).
Proof. split; [reflexivity|]. split; [reflexivity|]. repeat constructor; cbn; intuition; discriminate. Qed.

(* const DEFAULT = 10; namespace Level { export const DEFAULT = 5 } enum Level { Low = DEFAULT } : DEFAULT (100) is lexical,
   a sibling enum member (101) is a member *)
Example ex_resolve : resolve_name [200] [(100, false); (101, true); (200, true)] 100 = ROuter
  /\ resolve_name [200] [(100, false); (101, true); (200, true)] 101 = RMember
  /\ rt_name [200] [(100, false); (101, true); (200, true)] [(100, VNum 5); (101, VNum 1)] [(100, VNum 10)] 100 = Some (VNum 10)
  /\ NoDup (map fst [(100, false); (101, true); (200, true)]).
Proof. repeat split; try reflexivity. repeat constructor; cbn; intuition; discriminate. Qed.

(* parenthesised contents starting with "(" and keyof: ((x: T) => void)[] | (keyof T)[] | ((T))  *)
Definition ex_paren : ty :=
  TUnion (TUnion (TArr (TParen (TFn 0 [] [TParam false (PId 109) false true (TRef 103 [] [])] (TLit KVoid))))
                 (TArr (TParen (TKeyof false (TRef 103 [] [])))))
         (TParen (TParen (TRef 103 [] []))).
Example ex_paren_ok : wfb ex_paren = true /\ skip_type LLowest fl0 (R false ex_paren [(KEq,false)]) = Ok [(KEq,false)].
Proof. vm_compute. auto. Qed.
