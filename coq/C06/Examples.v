(* non-vacuity: concrete values meeting the hypotheses of each theorem *)
From V Require Import Common.Base C06.TsTokens C06.SkipType C06.TypeGrammar C06.SkipProofs C06.Erase C06.Enum.

(* Array<Array<number>> = 1 : the ">>" token is split by the inner list *)
Example nested_generic :
  skip_type LLowest fl0 [(KIdent 114,false);(KLt,false);(KIdent 114,false);(KLt,false);(KIdent 11,false);(KGtGt,false);(KEq,false);(KNum,false)]
  = Ok [(KEq,false);(KNum,false)].
Proof. vm_compute. reflexivity. Qed.

(* T extends [infer U, ...any[]] ? Array<Array<U>> | null : (keyof T)[]   followed by "=" glued to ">" is not here; "=" follows "]" *)
Definition ex_type : ty :=
  TCond (TRef 103 []) (TTuple [TElem false false (TInfer 104); TElem true false (TArr TPrim)])
        (TUnion (TRef 114 [TRef 114 [TRef 104 []]]) (TLit KNull))
        (TArr (TParen (TUnion (TLit KNull) (TKeyof false (TRef 103 []))))).
Example ex_wf : wfb ex_type = true /\ lvl_ok ex_type LLowest = true /\ follow_ok [(KEq,false)] = true.
Proof. vm_compute. auto. Qed.
Example ex_tokens_glued : map fst (R true ex_type [(KEq,false)]) =
  [KIdent 103; KExtends; KLBrack; KIdent 6; KIdent 104; KComma; KDotDotDot; KIdent 11; KLBrack; KRBrack; KRBrack; KQuestion;
   KIdent 114; KLt; KIdent 114; KLt; KIdent 104; KGtGt; KBar; KNull; KColon; KLParen; KNull; KBar; KIdent 1; KIdent 103; KRParen; KLBrack; KRBrack; KEq].
Proof. vm_compute. reflexivity. Qed.
Example ex_skip_glued : skip_type LLowest fl0 (R true ex_type [(KEq,false)]) = Ok [(KEq,false)].
Proof. vm_compute. reflexivity. Qed.
Example ex_skip_unglued : skip_type LLowest fl0 (R false ex_type [(KEq,false)]) = Ok [(KEq,false)].
Proof. vm_compute. reflexivity. Qed.
(* "let x: Array<T>= 1": the ">=" token *)
Example ex_gteq : map fst (R true (TRef 114 [TRef 103 []]) [(KEq,false);(KNum,false)]) = [KIdent 114; KLt; KIdent 103; KGtEq; KNum].
Proof. vm_compute. reflexivity. Qed.

(* erase/annotate: f<Array<T>>(x as T[])!   ->   f(x)  *)
Definition ex_prog : list elem :=
  [J (KIdent 120,false); S (SArgs [TRef 114 [TRef 103 []]]); J (KLParen,false); J (KIdent 109,false);
   S (SAs false (TArr (TRef 103 []))); J (KRParen,false); S SBang; J (KSemi,false)].
Example ex_prog_ok : sites_ok true ex_prog = true.
Proof. vm_compute. reflexivity. Qed.
Example ex_prog_erase : erase 200 (shape ex_prog) (typed true ex_prog) = Ok (untyped ex_prog)
  /\ map fst (untyped ex_prog) = [KIdent 120; KLParen; KIdent 109; KRParen; KSemi].
Proof. vm_compute. auto. Qed.

(* enum E { A, B = 1 << 4, C, D = "x", F = B | 3, G = -F, H = ~G, I } *)
Definition ex_enum : list member :=
  [(100, None); (101, Some (XBin 9 (XNum 1) (XNum 4))); (102, None); (103, Some (XStr [120]));
   (104, Some (XBin 6 (XRef 101) (XNum 3))); (105, Some (XNeg (XRef 104))); (106, Some (XNot (XRef 105))); (107, None)].
Example ex_enum_values : enum_values ex_enum = [VNum 0; VNum 16; VNum 17; VStr [120]; VNum 19; VNum (-19); VNum 18; VNum 19].
Proof. vm_compute. reflexivity. Qed.
Example ex_enum_hyps : pow_ok_members st0 ex_enum = true.
Proof. vm_compute. reflexivity. Qed.
