(* C06 specification side: an inductive grammar of TypeScript types, written
   from the TypeScript grammar (parser.ts: parseType / parseUnionTypeOrHigher /
   parseIntersectionTypeOrHigher / parseTypeOperatorOrHigher /
   parsePostfixTypeOrHigher / parseNonArrayType), and its rendering to tokens.

   [prec] is the TypeScript grammar level of a form; [wfb] demands that every
   operand sits at a level where TypeScript would parse it without parentheses
   (otherwise it must be wrapped in [TParen]).

   Rendering is continuation-passing: [R t post] are the tokens of [t] followed
   by [post].  This makes the lexer's maximal munch expressible: the closing
   ">" of a type-argument list is glued to an adjacent following ">" / ">>" /
   "=" / ">=" / ">>=" of [post] when [mg] is set (text without white space), and
   kept apart otherwise. *)
From V Require Import Common.Base C06.TsTokens.

(* binding patterns of parameters in function types (skipTypeScriptBinding): no
   types and no defaults inside *)
Inductive pat : Type :=
| PId (x : Z)                      (* x ; negative: this *)
| PArr (holes : nat) (es : list pat)   (* [, , a, ...b] : leading holes, then elements *)
| PRest (p : pat)                  (* ...p  (array element) *)
| PObj (ps : list pat)             (* { a, k: p, ...r } *)
| PShort (x : Z)                   (* a        (object member) *)
| PProp (key : Z) (p : pat)        (* key: p   (object member; key as in object types) *)
| PObjRest (x : Z).                (* ...r     (object member) *)

Section pat_ind'.
  Variable P : pat -> Prop.
  Hypothesis HId : forall x, P (PId x).
  Hypothesis HArr : forall h es, Forall P es -> P (PArr h es).
  Hypothesis HRest : forall p, P p -> P (PRest p).
  Hypothesis HObj : forall ps, Forall P ps -> P (PObj ps).
  Hypothesis HShort : forall x, P (PShort x).
  Hypothesis HProp : forall k p, P p -> P (PProp k p).
  Hypothesis HObjRest : forall x, P (PObjRest x).
  Fixpoint pat_ind' (p : pat) : P p :=
    let fix go (l : list pat) : Forall P l :=
      match l with [] => Forall_nil P | x :: r => Forall_cons x (pat_ind' x) (go r) end in
    match p with
    | PId x => HId x | PArr h es => HArr h es (go es) | PRest p => HRest p (pat_ind' p)
    | PObj ps => HObj ps (go ps) | PShort x => HShort x | PProp k p => HProp k p (pat_ind' p) | PObjRest x => HObjRest x
    end.
End pat_ind'.

Inductive ty : Type :=
| TPrim                                   (* any number string ... *)
| TLit (k : tk)                           (* literal types and void/null/true/false *)
| TThis
| TUnique                                 (* unique symbol *)
| TRef (c : Z) (q : list Z) (args : list ty)      (* A.B.C<args> *)
| TTypeof (c : Z) (q : list Z) (args : list ty)   (* typeof a.b.c<args> *)
| TImport (tof : bool) (q : list Z) (args : list ty)  (* [typeof] import("m").A.B<args> *)
| TArr (t : ty)                           (* t[] *)
| TIdx (t u : ty)                         (* t[u] *)
| TTuple (es : list ty)                   (* [e1, e2] ; elements are TElem *)
| TElem (dots : bool) (lbl : Z) (lopt opt : bool) (t : ty)   (* ...t / t? / name: t / name?: t  (lbl < 0: no label) *)
| TUnion (a b : ty) | TInter (a b : ty)
| TKeyof (ro : bool) (t : ty)             (* keyof t / readonly t *)
| TInfer (x : Z)
| TInferC (x : Z) (c : ty)                 (* infer x extends c   (only as the extends operand of a conditional type) *)
| TParen (t : ty)
| TFn (kind : Z) (tps : list ty) (ps : list ty) (ret : ty)   (* kind 0: <tps>(ps) => ret ; 1: new <tps>(ps) => ret ; 2: abstract new ... ; tps are TTParam, ps are TParam *)
| TTParam (mods : list Z) (x : Z) (hc hd : bool) (c d : ty)   (* const in out x extends c = d   (mods: 0 const, 1 in, 2 out) *)
| TParam (dots : bool) (p : pat) (opt ann : bool) (t : ty)   (* ...p?: t ; p a binding pattern (PId x, x < 0 is "this"); ann = false: no annotation *)
| TAsserts (x : Z) (hasis : bool) (t : ty)   (* asserts x / asserts x is t  (return position only; x < 0 is "this") *)
| TObj (ms : list ty)                     (* { members } ; members are TMProp / TMMeth / TMIndex / TMMapped *)
| TMProp (keys : list Z) (opt : bool) (t : ty) (sep : Z)       (* readonly key?: t ;   sep 0 ";" 1 "," 2 none (last member) *)
| TMMeth (keys : list Z) (opt : bool) (tps : list ty) (ps : list ty) (hasret : bool) (ret : ty) (sep : Z)
                                           (* key?(ps): ret ; keys = [] is a call signature, [new] a construct signature, [get; x] an accessor *)
| TMIndex (keys : list Z) (k : Z) (kt vt : ty) (sep : Z)       (* readonly [k: kt]: vt *)
| TMMapped (pm1 : Z) (keys : list Z) (k : Z) (src : ty) (hasas : bool) (ast : ty) (pm2 : Z) (q : bool) (vt : ty) (sep : Z)
                                           (* +readonly [k in src as ast]-?: vt    pm: 0 none 1 "+" 2 "-" *)
| TCond (c e a b : ty)                    (* c extends e ? a : b *)
| TPred (x : Z) (t : ty)                  (* x is t  (x < 0: this is t) *)
| TTemplate (ts : list ty).               (* `${t1}${t2}` *)

Section ty_ind'.
  Variable P : ty -> Prop.
  Hypothesis HPrim : P TPrim.
  Hypothesis HLit : forall k, P (TLit k).
  Hypothesis HThis : P TThis.
  Hypothesis HUnique : P TUnique.
  Hypothesis HRef : forall c q args, Forall P args -> P (TRef c q args).
  Hypothesis HTypeof : forall c q args, Forall P args -> P (TTypeof c q args).
  Hypothesis HImport : forall tof q args, Forall P args -> P (TImport tof q args).
  Hypothesis HArr : forall t, P t -> P (TArr t).
  Hypothesis HIdx : forall t u, P t -> P u -> P (TIdx t u).
  Hypothesis HTuple : forall es, Forall P es -> P (TTuple es).
  Hypothesis HElem : forall d l lo o t, P t -> P (TElem d l lo o t).
  Hypothesis HUnion : forall a b, P a -> P b -> P (TUnion a b).
  Hypothesis HInter : forall a b, P a -> P b -> P (TInter a b).
  Hypothesis HKeyof : forall ro t, P t -> P (TKeyof ro t).
  Hypothesis HInfer : forall x, P (TInfer x).
  Hypothesis HInferC : forall x c, P c -> P (TInferC x c).
  Hypothesis HParen : forall t, P t -> P (TParen t).
  Hypothesis HFn : forall k tps ps ret, Forall P tps -> Forall P ps -> P ret -> P (TFn k tps ps ret).
  Hypothesis HTParam : forall ms x hc hd c d, P c -> P d -> P (TTParam ms x hc hd c d).
  Hypothesis HParam : forall d p o a t, P t -> P (TParam d p o a t).
  Hypothesis HAsserts : forall x h t, P t -> P (TAsserts x h t).
  Hypothesis HObj : forall ms, Forall P ms -> P (TObj ms).
  Hypothesis HMProp : forall ks o t s, P t -> P (TMProp ks o t s).
  Hypothesis HMMeth : forall ks o tps ps h ret s, Forall P tps -> Forall P ps -> P ret -> P (TMMeth ks o tps ps h ret s).
  Hypothesis HMIndex : forall ks k kt vt s, P kt -> P vt -> P (TMIndex ks k kt vt s).
  Hypothesis HMMapped : forall p1 ks k src h ast p2 q vt s, P src -> P ast -> P vt -> P (TMMapped p1 ks k src h ast p2 q vt s).
  Hypothesis HCond : forall c e a b, P c -> P e -> P a -> P b -> P (TCond c e a b).
  Hypothesis HPred : forall x t, P t -> P (TPred x t).
  Hypothesis HTemplate : forall ts, Forall P ts -> P (TTemplate ts).

  Fixpoint ty_ind' (t : ty) : P t :=
    let fix go (l : list ty) : Forall P l :=
      match l with [] => Forall_nil P | x :: r => Forall_cons x (ty_ind' x) (go r) end in
    match t with
    | TPrim => HPrim | TLit k => HLit k | TThis => HThis | TUnique => HUnique
    | TRef c q args => HRef c q args (go args)
    | TTypeof c q args => HTypeof c q args (go args)
    | TImport tof q args => HImport tof q args (go args)
    | TArr t => HArr t (ty_ind' t)
    | TIdx t u => HIdx t u (ty_ind' t) (ty_ind' u)
    | TTuple es => HTuple es (go es)
    | TElem d l lo o t => HElem d l lo o t (ty_ind' t)
    | TUnion a b => HUnion a b (ty_ind' a) (ty_ind' b)
    | TInter a b => HInter a b (ty_ind' a) (ty_ind' b)
    | TKeyof ro t => HKeyof ro t (ty_ind' t)
    | TInfer x => HInfer x
    | TInferC x c => HInferC x c (ty_ind' c)
    | TParen t => HParen t (ty_ind' t)
    | TFn k tps ps ret => HFn k tps ps ret (go tps) (go ps) (ty_ind' ret)
    | TTParam ms x hc hd c d => HTParam ms x hc hd c d (ty_ind' c) (ty_ind' d)
    | TParam d p o a t => HParam d p o a t (ty_ind' t)
    | TAsserts x h t => HAsserts x h t (ty_ind' t)
    | TObj ms => HObj ms (go ms)
    | TMProp ks o t s => HMProp ks o t s (ty_ind' t)
    | TMMeth ks o tps ps h ret s => HMMeth ks o tps ps h ret s (go tps) (go ps) (ty_ind' ret)
    | TMIndex ks k kt vt s => HMIndex ks k kt vt s (ty_ind' kt) (ty_ind' vt)
    | TMMapped p1 ks k src h ast p2 q vt s => HMMapped p1 ks k src h ast p2 q vt s (ty_ind' src) (ty_ind' ast) (ty_ind' vt)
    | TCond c e a b => HCond c e a b (ty_ind' c) (ty_ind' e) (ty_ind' a) (ty_ind' b)
    | TPred x t => HPred x t (ty_ind' t)
    | TTemplate ts => HTemplate ts (go ts)
    end.
End ty_ind'.

(* TypeScript grammar level: 0 conditional / function / predicate, 1 union,
   2 intersection, 3 type operator, 4 postfix, 5 primary *)
Definition prec (t : ty) : Z :=
  match t with
  | TCond _ _ _ _ | TPred _ _ | TFn _ _ _ _ | TAsserts _ _ _ => 0
  | TUnion _ _ => 1
  | TInter _ _ => 2
  | TKeyof _ _ | TInfer _ | TInferC _ _ | TUnique => 3
  | TArr _ | TIdx _ _ => 4
  | _ => 5
  end.

Definition lit_tk (k : tk) : bool :=
  match k with KNum | KBig | KStr | KNoSubst | KTrue | KFalse | KNull | KVoid => true | _ => false end.

(* ordinary identifiers (not contextual keywords of the type grammar) *)
Definition normal (c : Z) : bool := 100 <=? c.

(* binding names of parameters / predicates: an ordinary identifier, or "this" (negative) *)
Definition bind_tk (x : Z) : tk := if x <? 0 then KThis else KIdent x.
Definition bind_ok (x : Z) : bool := (x <? 0) || normal x.

(* property-name tokens of object type members: identifiers (any class: modifiers
   such as readonly / get / set are identifiers), "new", string and numeric literals, keywords *)
Definition key_tk (c : Z) : tk :=
  if 0 <=? c then KIdent c else if c =? -1 then KNew else if c =? -2 then KStr else if c =? -3 then KNum else KKeyword.

Fixpoint ends_infer (t : ty) : bool :=
  match t with
  | TInfer _ | TInferC _ _ => true
  | TUnion _ b | TInter _ b | TKeyof _ b | TCond _ _ _ b | TPred _ b | TFn _ _ _ b => ends_infer b
  | TAsserts _ true b => ends_infer b
  | _ => false
  end.

(* types in which no "keyof"/"readonly" operand is exposed to the enclosing suffix loop:
   allowed as the extends-operand of a conditional type (skipped with
   disallowConditionalTypes, which keyof's operand skip resets) *)
Fixpoint nc_ok (t : ty) : bool :=
  match t with
  | TUnion a b | TInter a b => nc_ok a && nc_ok b
  | TKeyof _ _ | TCond _ _ _ _ | TPred _ _ | TAsserts _ _ _ => false
  | _ => true
  end.

Definition is_elem (t : ty) := match t with TElem _ _ _ _ _ => true | _ => false end.

(* the condition under which the parenthesised form "( t )" is recognised as a
   parenthesised type by skipTypeScriptParenOrFnType after ONE token of
   look-ahead by the arrow-argument attempt (forms whose content starts with
   "[" or "{" make that attempt run arbitrarily far; they are exercised by the
   correspondence run only) *)
Fixpoint head_atomic (x : ty) : bool :=
  match x with
  | TArr y | TIdx y _ | TUnion y _ | TInter y _ | TCond y _ _ _ => head_atomic y
  | TPrim | TThis | TRef _ _ _ | TLit _ | TUnique | TInfer _ | TPred _ _ | TTypeof _ _ _ | TImport _ _ _ | TTemplate _ => true
  | TFn _ _ _ _ | TParen _ | TKeyof _ _ => true
  | _ => false
  end.
Definition paren_content_ok (t : ty) : bool := head_atomic t.

Definition sep_ok (last : bool) (s : Z) : bool := (s =? 0) || (s =? 1) || (last && (s =? 2)).
Definition pm_ok (p : Z) : bool := (0 <=? p) && (p <=? 2).

(* parameter lists and return positions, parametric in the well-formedness of types
   (so that they can be named outside [wfb]) *)
(* well-formed binding positions: top = a parameter / array element / property value *)
Fixpoint wf_pat (p : pat) : bool :=
  match p with
  | PId x => bind_ok x
  | PArr _ es => forallb (fun e => match e with PRest q => (match q with PId _ | PArr _ _ | PObj _ => wf_pat q | _ => false end)
                                              | PId _ | PArr _ _ | PObj _ => wf_pat e | _ => false end) es
  | PObj ps => forallb (fun m => match m with PShort x | PObjRest x => normal x
                                            | PProp _ q => (match q with PId _ | PArr _ _ | PObj _ => wf_pat q | _ => false end)
                                            | _ => false end) ps
  | _ => false
  end.
Definition top_pat (p : pat) : bool := match p with PId _ | PArr _ _ | PObj _ => wf_pat p | _ => false end.

Section WfWith.
Variable w : ty -> bool.
Definition wf_ret_with (ret : ty) : bool :=
  match ret with TAsserts x _ u => bind_ok x && w u | _ => w ret end.
Fixpoint wf_params_with (ps : list ty) : bool :=
  match ps with
  | [] => true
  | TParam _ p _ ann t :: r => top_pat p && (if ann then w t else true) && wf_params_with r
  | _ => false
  end.
Fixpoint wf_tparams_with (tps : list ty) : bool :=
  match tps with
  | [] => true
  | TTParam ms x hc hd c d :: r =>
      forallb (fun m => (0 <=? m) && (m <=? 2)) ms && normal x && (if hc then w c else true) && (if hd then w d else true) && wf_tparams_with r
  | _ => false
  end.
Definition wf_member_with (last : bool) (m : ty) : bool :=
  match m with
  | TMProp ks _ t s => match ks with [] => false | _ => true end && w t && sep_ok last s
  | TMMeth ks o tps ps h ret s =>
      (match ks with [] => negb o | _ => true end) && wf_tparams_with tps && wf_params_with ps && (if h then wf_ret_with ret else true) && sep_ok last s
  | TMIndex ks k kt vt s => normal k && w kt && w vt && sep_ok last s
  | TMMapped p1 ks k src h ast p2 q vt s =>
      pm_ok p1 && pm_ok p2 && normal k && w src && (if h then w ast else true) && w vt && sep_ok last s
  | _ => false
  end.
Fixpoint wf_members_with (ms : list ty) : bool :=
  match ms with
  | [] => true
  | m :: r => wf_member_with (match r with [] => true | _ => false end) m && wf_members_with r
  end.
End WfWith.

Fixpoint wfb (t : ty) : bool :=
  match t with
  | TPrim | TThis | TUnique => true
  | TLit k => lit_tk k
  | TRef c q args => normal c && forallb normal q && forallb wfb args
  | TTypeof c q args => normal c && forallb normal q && forallb wfb args
  | TImport _ q args => forallb normal q && forallb wfb args && match q, args with [], _ :: _ => false | _, _ => true end
  | TArr t => wfb t && (4 <=? prec t)
  | TIdx t u => wfb t && (4 <=? prec t) && wfb u
  | TTuple es => forallb (fun e => match e with TElem _ l _ _ x => ((l <? 0) || normal l) && wfb x | _ => false end) es
  | TElem _ _ _ _ _ => false
  | TUnion a b => wfb a && (1 <=? prec a) && negb (ends_infer a) && wfb b && (2 <=? prec b)
  | TInter a b => wfb a && (2 <=? prec a) && negb (ends_infer a) && wfb b && (3 <=? prec b)
  | TKeyof _ t => wfb t && (3 <=? prec t)
  | TInfer x => normal x
  | TInferC _ _ => false
  | TParen t => wfb t && paren_content_ok t
  | TFn k tps ps ret => (0 <=? k) && (k <=? 2) && wf_tparams_with wfb tps && wf_params_with wfb ps && wf_ret_with wfb ret
  | TTParam _ _ _ _ _ _ => false
  | TParam _ _ _ _ _ => false
  | TAsserts _ _ _ => false
  | TObj ms => wf_members_with wfb ms
  | TMProp _ _ _ _ | TMMeth _ _ _ _ _ _ _ | TMIndex _ _ _ _ _ | TMMapped _ _ _ _ _ _ _ _ _ _ => false
  | TCond c e a b =>
      wfb c && (1 <=? prec c) && negb (ends_infer c) &&
      (match e with
       | TInferC x c' => normal x && wfb c' && (4 <=? prec c')      (* T extends infer U extends C ? a : b *)
       | _ => wfb e && (1 <=? prec e) && nc_ok e
       end) && wfb a && wfb b
  | TPred x t => bind_ok x && wfb t
  | TTemplate ts => match ts with [] => false | _ => forallb wfb ts end
  end.

Section Render.
Variable mg : bool.   (* glue a closing ">" to an adjacent following ">"-token *)

Definition push_gt (post : toks) : toks :=
  if mg then
    match post with
    | (KGt, false) :: p => (KGtGt, false) :: p
    | (KGtGt, false) :: p => (KGtGtGt, false) :: p
    | (KEq, false) :: p => (KGtEq, false) :: p
    | (KGtEq, false) :: p => (KGtGtEq, false) :: p
    | (KGtGtEq, false) :: p => (KGtGtGtEq, false) :: p
    | _ => (KGt, false) :: post
    end
  else (KGt, false) :: post.

Fixpoint join (sep : list token) (fs : list (toks -> toks)) (post : toks) : toks :=
  match fs with
  | [] => post
  | [f] => f post
  | f :: r => f (sep ++ join sep r post)
  end.

Definition tk1 (k : tk) : token := (k, false).

(* ".b.c" *)
Fixpoint dots (q : list Z) (post : toks) : toks :=
  match q with
  | [] => post
  | c :: r => tk1 KDot :: tk1 (KIdent c) :: dots r post
  end.

Definition keys_toks (ks : list Z) (post : toks) : toks := map (fun c => tk1 (key_tk c)) ks ++ post.
Definition pm_toks (p : Z) : toks := if p =? 1 then [tk1 KPlus] else if p =? 2 then [tk1 KMinus] else [].
Definition sep_toks (s : Z) : toks := if s =? 0 then [tk1 KSemi] else if s =? 1 then [tk1 KComma] else [].
Definition optq (o : bool) : toks := if o then [tk1 KQuestion] else [].

Fixpoint Rp (p : pat) (post : toks) : toks :=
  match p with
  | PId x => tk1 (bind_tk x) :: post
  | PArr h es => tk1 KLBrack :: repeat (tk1 KComma) h ++ join [tk1 KComma] (map Rp es) (tk1 KRBrack :: post)
  | PRest q => tk1 KDotDotDot :: Rp q post
  | PObj ps => tk1 KLBrace :: join [tk1 KComma] (map Rp ps) (tk1 KRBrace :: post)
  | PShort x => tk1 (KIdent x) :: post
  | PProp k q => tk1 (key_tk k) :: tk1 KColon :: Rp q post
  | PObjRest x => tk1 KDotDotDot :: tk1 (KIdent x) :: post
  end.

Fixpoint R (t : ty) (post : toks) : toks :=
  let targs := fun (args : list ty) (post : toks) =>
    match args with
    | [] => post
    | _ => tk1 KLt :: join [tk1 KComma] (map R args) (push_gt post)
    end in
  let tparams := fun (tps : list ty) (post : toks) =>
    match tps with
    | [] => post
    | _ => tk1 KLt :: join [tk1 KComma] (map R tps) (push_gt post)
    end in
  let params := fun (ps : list ty) (post : toks) =>
    tk1 KLParen :: join [tk1 KComma] (map R ps) (tk1 KRParen :: post) in
  match t with
  | TPrim => tk1 (KIdent c_prim) :: post
  | TLit k => tk1 k :: post
  | TThis => tk1 KThis :: post
  | TUnique => tk1 (KIdent c_unique) :: tk1 (KIdent c_symbol) :: post
  | TRef c q args => tk1 (KIdent c) :: dots q (targs args post)
  | TTypeof c q args => tk1 KTypeof :: tk1 (KIdent c) :: dots q (targs args post)
  | TImport tof q args =>
      (if tof then [tk1 KTypeof] else []) ++
      tk1 KImport :: tk1 KLParen :: tk1 KStr :: tk1 KRParen :: dots q (targs args post)
  | TArr t => R t (tk1 KLBrack :: tk1 KRBrack :: post)
  | TIdx t u => R t (tk1 KLBrack :: R u (tk1 KRBrack :: post))
  | TTuple es => tk1 KLBrack :: join [tk1 KComma] (map R es) (tk1 KRBrack :: post)
  | TElem d l lo o t =>
      (if d then [tk1 KDotDotDot] else []) ++
      (if l <? 0 then R t (optq o ++ post)
       else tk1 (KIdent l) :: optq lo ++ tk1 KColon :: R t post)
  | TUnion a b => R a (tk1 KBar :: R b post)
  | TInter a b => R a (tk1 KAmp :: R b post)
  | TKeyof ro t => tk1 (KIdent (if ro then c_readonly else c_keyof)) :: R t post
  | TInfer x => tk1 (KIdent c_infer) :: tk1 (KIdent x) :: post
  | TInferC x c => tk1 (KIdent c_infer) :: tk1 (KIdent x) :: tk1 KExtends :: R c post
  | TParen t => tk1 KLParen :: R t (tk1 KRParen :: post)
  | TFn k tps ps ret =>
      (if k =? 2 then [tk1 (KIdent c_abstract); tk1 KNew] else if k =? 1 then [tk1 KNew] else []) ++
      tparams tps (params ps (tk1 KArrow :: R ret post))
  | TTParam ms x hc hd c d =>
      map (fun m => tk1 (if m =? 0 then KConst else if m =? 1 then KIn else KIdent c_out)) ms ++
      tk1 (KIdent x) :: (if hc then tk1 KExtends :: R c (if hd then tk1 KEq :: R d post else post)
                         else if hd then tk1 KEq :: R d post else post)
  | TParam d x o ann t =>
      (if d then [tk1 KDotDotDot] else []) ++ Rp x (optq o ++
      (if ann then tk1 KColon :: R t post else post))
  | TAsserts x h t =>
      tk1 (KIdent c_asserts) :: tk1 (bind_tk x) :: (if h then tk1 (KIdent c_is) :: R t post else post)
  | TObj ms => tk1 KLBrace :: join [] (map R ms) (tk1 KRBrace :: post)
  | TMProp ks o t s => keys_toks ks (optq o ++ tk1 KColon :: R t (sep_toks s ++ post))
  | TMMeth ks o tps ps h ret s =>
      keys_toks ks (optq o ++ tparams tps (params ps (if h then tk1 KColon :: R ret (sep_toks s ++ post) else sep_toks s ++ post)))
  | TMIndex ks k kt vt s =>
      keys_toks ks (tk1 KLBrack :: tk1 (KIdent k) :: tk1 KColon :: R kt (tk1 KRBrack :: tk1 KColon :: R vt (sep_toks s ++ post)))
  | TMMapped p1 ks k src h ast p2 q vt s =>
      pm_toks p1 ++ keys_toks ks (tk1 KLBrack :: tk1 (KIdent k) :: tk1 KIn ::
        R src ((if h then tk1 (KIdent c_as) :: R ast (tk1 KRBrack :: pm_toks p2 ++ optq q ++ tk1 KColon :: R vt (sep_toks s ++ post))
                else tk1 KRBrack :: pm_toks p2 ++ optq q ++ tk1 KColon :: R vt (sep_toks s ++ post))))
  | TCond c e a b => R c (tk1 KExtends :: R e (tk1 KQuestion :: R a (tk1 KColon :: R b post)))
  | TPred x t => tk1 (bind_tk x) :: tk1 (KIdent c_is) :: R t post
  | TTemplate ts => tk1 KTplHead :: join [tk1 KTplMid] (map R ts) (tk1 KTplTail :: post)
  end.
End Render.

(* plain rendering: no gluing, tokens of t followed by nothing *)
Definition tokens (t : ty) : toks := R false t [].
