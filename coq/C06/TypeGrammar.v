(* C06 specification side: an inductive grammar of TypeScript types, written
   from the TypeScript grammar (parser.ts: parseType / parseUnionTypeOrHigher /
   parseIntersectionTypeOrHigher / parseTypeOperatorOrHigher /
   parsePostfixTypeOrHigher / parseNonArrayType), and its rendering to tokens.

   [prec] is the TypeScript grammar level of a form; [wfb] demands that every
   operand sits at a level where TypeScript would parse it without parentheses
   (otherwise it must be wrapped in [TParen]).

   Rendering is continuation-passing: [R t post] are the tokens of [t] followed
   by [post].  This makes the lexer's maximal munch expressible: the closing
   ">" of a type-argument list is glued to an adjacent following ">" / ">>" /
   "=" / ">=" / ">>=" of [post] when [mg] is set (text without white space), and
   kept apart otherwise. *)
From V Require Import Common.Base C06.TsTokens.

Inductive ty : Type :=
| TPrim                                   (* any number string ... *)
| TLit (k : tk)                           (* literal types and void/null/true/false *)
| TThis
| TUnique                                 (* unique symbol *)
| TRef (c : Z) (args : list ty)           (* A<args> *)
| TArr (t : ty)                           (* t[] *)
| TIdx (t u : ty)                         (* t[u] *)
| TTuple (es : list ty)                   (* [e1, e2] ; elements are TElem *)
| TElem (dots opt : bool) (t : ty)        (* ...t  /  t?   (tuple element) *)
| TUnion (a b : ty) | TInter (a b : ty)
| TKeyof (ro : bool) (t : ty)             (* keyof t / readonly t *)
| TInfer (x : Z)
| TParen (t : ty)
| TCond (c e a b : ty)                    (* c extends e ? a : b *)
| TPred (x : Z) (t : ty).                 (* x is t *)

Section ty_ind'.
  Variable P : ty -> Prop.
  Hypothesis HPrim : P TPrim.
  Hypothesis HLit : forall k, P (TLit k).
  Hypothesis HThis : P TThis.
  Hypothesis HUnique : P TUnique.
  Hypothesis HRef : forall c args, Forall P args -> P (TRef c args).
  Hypothesis HArr : forall t, P t -> P (TArr t).
  Hypothesis HIdx : forall t u, P t -> P u -> P (TIdx t u).
  Hypothesis HTuple : forall es, Forall P es -> P (TTuple es).
  Hypothesis HElem : forall d o t, P t -> P (TElem d o t).
  Hypothesis HUnion : forall a b, P a -> P b -> P (TUnion a b).
  Hypothesis HInter : forall a b, P a -> P b -> P (TInter a b).
  Hypothesis HKeyof : forall ro t, P t -> P (TKeyof ro t).
  Hypothesis HInfer : forall x, P (TInfer x).
  Hypothesis HParen : forall t, P t -> P (TParen t).
  Hypothesis HCond : forall c e a b, P c -> P e -> P a -> P b -> P (TCond c e a b).
  Hypothesis HPred : forall x t, P t -> P (TPred x t).

  Fixpoint ty_ind' (t : ty) : P t :=
    let fix go (l : list ty) : Forall P l :=
      match l with [] => Forall_nil P | x :: r => Forall_cons x (ty_ind' x) (go r) end in
    match t with
    | TPrim => HPrim | TLit k => HLit k | TThis => HThis | TUnique => HUnique
    | TRef c args => HRef c args (go args)
    | TArr t => HArr t (ty_ind' t)
    | TIdx t u => HIdx t u (ty_ind' t) (ty_ind' u)
    | TTuple es => HTuple es (go es)
    | TElem d o t => HElem d o t (ty_ind' t)
    | TUnion a b => HUnion a b (ty_ind' a) (ty_ind' b)
    | TInter a b => HInter a b (ty_ind' a) (ty_ind' b)
    | TKeyof ro t => HKeyof ro t (ty_ind' t)
    | TInfer x => HInfer x
    | TParen t => HParen t (ty_ind' t)
    | TCond c e a b => HCond c e a b (ty_ind' c) (ty_ind' e) (ty_ind' a) (ty_ind' b)
    | TPred x t => HPred x t (ty_ind' t)
    end.
End ty_ind'.

(* TypeScript grammar level: 0 conditional / function / predicate, 1 union,
   2 intersection, 3 type operator, 4 postfix, 5 primary *)
Definition prec (t : ty) : Z :=
  match t with
  | TCond _ _ _ _ | TPred _ _ => 0
  | TUnion _ _ => 1
  | TInter _ _ => 2
  | TKeyof _ _ | TInfer _ | TUnique => 3
  | TArr _ | TIdx _ _ => 4
  | _ => 5
  end.

Definition lit_tk (k : tk) : bool :=
  match k with KNum | KBig | KStr | KNoSubst | KTrue | KFalse | KNull | KVoid => true | _ => false end.

(* ordinary identifiers (not contextual keywords of the type grammar) *)
Definition normal (c : Z) : bool := 100 <=? c.

Fixpoint ends_infer (t : ty) : bool :=
  match t with
  | TInfer _ => true
  | TUnion _ b | TInter _ b | TKeyof _ b | TCond _ _ _ b | TPred _ b => ends_infer b
  | _ => false
  end.

Definition is_elem (t : ty) := match t with TElem _ _ _ => true | _ => false end.

(* first token of the rendering *)
Definition first_tk (t : ty) : tk :=
  match t with
  | TPrim => KIdent c_prim
  | TLit k => k
  | TThis => KThis
  | TUnique => KIdent c_unique
  | TRef c _ => KIdent c
  | TTuple _ => KLBrack
  | TKeyof ro _ => KIdent (if ro then c_readonly else c_keyof)
  | TInfer _ => KIdent c_infer
  | TParen _ => KLParen
  | TPred x _ => KIdent x
  | _ => KOther
  end.

(* the condition under which the parenthesised form "( t )" is recognised as a
   parenthesised type by skipTypeScriptParenOrFnType after ONE token of
   look-ahead by the arrow-argument attempt (forms whose content starts with
   "[" or "{" make that attempt run arbitrarily far; they are exercised by the
   correspondence run only) *)
Fixpoint head_atomic (x : ty) : bool :=
  match x with
  | TArr y | TIdx y _ | TUnion y _ | TInter y _ | TCond y _ _ _ => head_atomic y
  | TPrim | TThis | TRef _ _ | TLit _ | TUnique | TInfer _ | TPred _ _ => true
  | _ => false
  end.
Definition paren_content_ok (t : ty) : bool := head_atomic t.

Fixpoint wfb (t : ty) : bool :=
  match t with
  | TPrim | TThis | TUnique => true
  | TLit k => lit_tk k
  | TRef c args => normal c && forallb wfb args
  | TArr t => wfb t && (4 <=? prec t)
  | TIdx t u => wfb t && (4 <=? prec t) && wfb u
  | TTuple es => forallb (fun e => match e with TElem _ _ x => wfb x | _ => false end) es
  | TElem _ _ _ => false
  | TUnion a b => wfb a && (1 <=? prec a) && wfb b && (2 <=? prec b)
  | TInter a b => wfb a && (2 <=? prec a) && wfb b && (3 <=? prec b)
  | TKeyof _ t => wfb t && (3 <=? prec t)
  | TInfer x => normal x
  | TParen t => wfb t && paren_content_ok t
  | TCond c e a b => wfb c && (1 <=? prec c) && negb (ends_infer c) && wfb e && (4 <=? prec e) && wfb a && wfb b
  | TPred x t => normal x && wfb t
  end.

(* a proper type (not one of the element / parameter / member wrappers) *)
Definition proper (t : ty) : bool := negb (is_elem t).

Section Render.
Variable mg : bool.   (* glue a closing ">" to an adjacent following ">"-token *)

Definition push_gt (post : toks) : toks :=
  if mg then
    match post with
    | (KGt, false) :: p => (KGtGt, false) :: p
    | (KGtGt, false) :: p => (KGtGtGt, false) :: p
    | (KEq, false) :: p => (KGtEq, false) :: p
    | (KGtEq, false) :: p => (KGtGtEq, false) :: p
    | (KGtGtEq, false) :: p => (KGtGtGtEq, false) :: p
    | _ => (KGt, false) :: post
    end
  else (KGt, false) :: post.

Fixpoint join (sep : list token) (fs : list (toks -> toks)) (post : toks) : toks :=
  match fs with
  | [] => post
  | [f] => f post
  | f :: r => f (sep ++ join sep r post)
  end.

Fixpoint idents (q : list Z) (post : toks) : toks :=
  match q with
  | [] => post
  | [c] => (KIdent c, false) :: post
  | c :: r => (KIdent c, false) :: (KDot, false) :: idents r post
  end.

Definition tk1 (k : tk) : token := (k, false).

Fixpoint R (t : ty) (post : toks) : toks :=
  match t with
  | TPrim => tk1 (KIdent c_prim) :: post
  | TLit k => tk1 k :: post
  | TThis => tk1 KThis :: post
  | TUnique => tk1 (KIdent c_unique) :: tk1 (KIdent c_symbol) :: post
  | TRef c args =>
      tk1 (KIdent c) :: (match args with
                         | [] => post
                         | _ => tk1 KLt :: join [tk1 KComma] (map R args) (push_gt post)
                         end)
  | TArr t => R t (tk1 KLBrack :: tk1 KRBrack :: post)
  | TIdx t u => R t (tk1 KLBrack :: R u (tk1 KRBrack :: post))
  | TTuple es => tk1 KLBrack :: join [tk1 KComma] (map R es) (tk1 KRBrack :: post)
  | TElem d o t =>
      (if d then [tk1 KDotDotDot] else []) ++ R t ((if o then [tk1 KQuestion] else []) ++ post)
  | TUnion a b => R a (tk1 KBar :: R b post)
  | TInter a b => R a (tk1 KAmp :: R b post)
  | TKeyof ro t => tk1 (KIdent (if ro then c_readonly else c_keyof)) :: R t post
  | TInfer x => tk1 (KIdent c_infer) :: tk1 (KIdent x) :: post
  | TParen t => tk1 KLParen :: R t (tk1 KRParen :: post)
  | TCond c e a b => R c (tk1 KExtends :: R e (tk1 KQuestion :: R a (tk1 KColon :: R b post)))
  | TPred x t => tk1 (KIdent x) :: tk1 (KIdent c_is) :: R t post
  end.
End Render.

(* plain rendering: no gluing, tokens of t followed by nothing *)
Definition tokens (t : ty) : toks := R false t [].
