(* C06: token alphabet of the TypeScript type skipper.

   The Go parser (internal/js_parser/ts_parser.go) never builds a tree for
   types: it advances the lexer.  The model therefore works on token lists.
   A token is (kind, HasNewlineBefore).  The alphabet contains every token
   kind that skipTypeScriptTypeWithFlags / skipTypeScriptObjectType /
   skipTypeScriptTypeParameters / skipTypeScriptTypeArguments /
   skipTypeScriptFnArgs / skipTypeScriptBinding distinguish; all remaining
   keywords are [KKeyword] and all remaining punctuation is [KOther].

   Identifiers carry a class code because the skipper looks at the text of
   contextual keywords (tsTypeIdentifierMap and IsContextualKeyword). *)
From V Require Import Common.Base.

Inductive tk : Type :=
| KNum | KBig | KStr | KNoSubst | KTrue | KFalse | KNull | KVoid
| KConst | KThis | KMinus | KPlus | KAmp | KBar | KImport | KNew
| KLt | KLtEq | KLtLt | KLtLtEq
| KGt | KGtEq | KGtGt | KGtGtEq | KGtGtGt | KGtGtGtEq
| KEq | KArrow
| KLParen | KRParen | KLBrack | KRBrack | KLBrace | KRBrace
| KTplHead | KTplMid | KTplTail
| KIdent (i : Z)
| KTypeof | KFunction | KIn | KExtends | KKeyword
| KColon | KQuestion | KComma | KSemi | KDot | KDotDotDot | KBang
| KPrivate | KOther.

Definition tk_eq_dec : forall a b : tk, {a = b} + {a <> b}.
Proof. decide equality. apply Z.eq_dec. Defined.

Definition tk_eqb (a b : tk) : bool := if tk_eq_dec a b then true else false.
Lemma tk_eqb_eq a b : tk_eqb a b = true <-> a = b.
Proof. unfold tk_eqb. destruct (tk_eq_dec a b); split; congruence. Qed.
Lemma tk_eqb_refl a : tk_eqb a a = true.
Proof. apply tk_eqb_eq. reflexivity. Qed.

Definition token := (tk * bool)%type.     (* kind, HasNewlineBefore *)
Definition toks := list token.

(* identifier class codes *)
Definition c_keyof := 1.
Definition c_readonly := 2.
Definition c_unique := 3.
Definition c_abstract := 4.
Definition c_asserts := 5.
Definition c_infer := 6.
Definition c_is := 7.
Definition c_symbol := 8.      (* also a primitive type name *)
Definition c_out := 9.
Definition c_as := 10.
Definition c_prim := 11.
Definition c_satisfies := 12.       (* any never unknown undefined object number string boolean bigint *)
(* codes >= 100: ordinary identifiers *)

(* lexer.Token at the head of the remaining input; end of file is [KOther]
   with no newline (TEndOfFile matches no case of the skipper) *)
Definition hd_tk (ts : toks) : tk := match ts with [] => KOther | (k, _) :: _ => k end.
Definition hd_nl (ts : toks) : bool := match ts with [] => false | (_, n) :: _ => n end.
Definition is (k : tk) (ts : toks) : bool := match ts with [] => false | (k', _) :: _ => tk_eqb k' k end.
Definition is_ctx (c : Z) (ts : toks) : bool := is (KIdent c) ts.
Definition is_ident (ts : toks) : bool := match hd_tk ts with KIdent _ => true | _ => false end.

(* lexer.IsIdentifierOrKeyword(): Token >= TIdentifier *)
Definition tk_ident_or_kw (k : tk) : bool :=
  match k with
  | KIdent _ | KTrue | KFalse | KNull | KVoid | KConst | KThis | KImport | KNew
  | KTypeof | KFunction | KIn | KExtends | KKeyword => true
  | _ => false
  end.
Definition is_ident_or_kw (ts : toks) : bool := match ts with [] => false | (k, _) :: _ => tk_ident_or_kw k end.

(* js_ast.L values used by the skipper *)
Definition LLowest := 0.
Definition LBitOr := 9.
Definition LBitAnd := 11.
Definition LPrefix := 18.

(* skipTypeFlags *)
Record fl := mkFl { fRet : bool; fIdx : bool; fTup : bool; fNoCond : bool }.
Definition fl0 := mkFl false false false false.
Definition fl_ret := mkFl true false false false.
Definition fl_idx := mkFl false true false false.
Definition fl_tup := mkFl false false true false.
Definition fl_nocond := mkFl false false false true.
Definition fl_of_Z (z : Z) : fl := mkFl (Z.testbit z 0) (Z.testbit z 1) (Z.testbit z 2) (Z.testbit z 3).

(* three-valued results: running out of fuel is distinguished from a syntax
   error (lexer panic) because the parser backtracks on errors *)
Inductive res (A : Type) : Type := Oof | Fail | Ok (a : A).
Arguments Oof {A}. Arguments Fail {A}. Arguments Ok {A} a.

Definition bind {A B} (x : res A) (k : A -> res B) : res B :=
  match x with Oof => Oof | Fail => Fail | Ok a => k a end.
Notation "x <- e ;; k" := (bind e (fun x => k)) (at level 61, e at next level, right associativity).
Notation "' p <- e ;; k" := (bind e (fun x => match x with p => k end)) (at level 61, p pattern, e at next level, right associativity).

(* lexer.Expect(T) *)
Definition expect (k : tk) (ts : toks) : res toks := if is k ts then Ok (tl ts) else Fail.
(* lexer.Expect(TIdentifier) *)
Definition expect_ident (ts : toks) : res toks := if is_ident ts then Ok (tl ts) else Fail.

(* lexer.ExpectLessThan(false) / ExpectGreaterThan(false): the first character
   is split off a longer token and the remainder stays the current token.
   (maybeExpandEquals re-joins "=" with an ADJACENT ">" or "=" character; the
   model assumes the character after ">=" / "<=" is not one of those -- the
   renderer separates tokens by white space -- and the text level is exercised
   by the glue stream.) *)
Definition expect_lt (ts : toks) : res toks :=
  match ts with
  | (KLt, _) :: r => Ok r
  | (KLtEq, _) :: r => Ok ((KEq, false) :: r)
  | (KLtLt, _) :: r => Ok ((KLt, false) :: r)
  | (KLtLtEq, _) :: r => Ok ((KLtEq, false) :: r)
  | _ => Fail
  end.
Definition expect_gt (ts : toks) : res toks :=
  match ts with
  | (KGt, _) :: r => Ok r
  | (KGtEq, _) :: r => Ok ((KEq, false) :: r)
  | (KGtGt, _) :: r => Ok ((KGt, false) :: r)
  | (KGtGtEq, _) :: r => Ok ((KGtEq, false) :: r)
  | (KGtGtGt, _) :: r => Ok ((KGtGt, false) :: r)
  | (KGtGtGtEq, _) :: r => Ok ((KGtGtEq, false) :: r)
  | _ => Fail
  end.

(* tsTypeIdentifierMap *)
Inductive ikind := IkNormal | IkUnique | IkAbstract | IkAsserts | IkPrefix | IkPrimitive | IkInfer.
Definition ident_kind (c : Z) : ikind :=
  if c =? c_keyof then IkPrefix else if c =? c_readonly then IkPrefix
  else if c =? c_unique then IkUnique else if c =? c_abstract then IkAbstract
  else if c =? c_asserts then IkAsserts else if c =? c_infer then IkInfer
  else if c =? c_symbol then IkPrimitive else if c =? c_prim then IkPrimitive
  else IkNormal.
