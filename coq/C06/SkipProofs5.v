(* C06: skip_exact, object types: property, method / call / construct / accessor
   signatures, index signatures, mapped-type members (continues SkipProofs4.v) *)
From V Require Import Common.Base C06.TsTokens C06.SkipType C06.SkipMono C06.TypeGrammar C06.SkipProofs C06.SkipProofs2 C06.SkipProofs3 C06.SkipProofs4.

Definition keyish (k : tk) : bool := tk_ident_or_kw k || tk_eqb k KStr || tk_eqb k KNum.
Definition key_stop (Y : toks) : bool := match Y with (k, _) :: _ => negb (keyish k) | [] => true end.

Lemma key_tk_keyish c : keyish (key_tk c) = true.
Proof. unfold key_tk. destruct (0 <=? c); [reflexivity|]. destruct (c =? -1); [reflexivity|]. destruct (c =? -2); [reflexivity|]. destruct (c =? -3); reflexivity. Qed.

Lemma key_tk_not k c : keyish k = false -> tk_eqb (key_tk c) k = false.
Proof.
  intros H. unfold tk_eqb. destruct (tk_eq_dec (key_tk c) k) as [E|E]; [|reflexivity].
  subst k. rewrite key_tk_keyish in H. discriminate.
Qed.

Lemma skip_keys_keys ks : forall b Y, key_stop Y = true ->
  skip_keys b (keys_toks ks Y) = (b || match ks with [] => false | _ => true end, Y).
Proof.
  induction ks as [|c ks' IH]; intros b Y H; unfold keys_toks in *; cbn [map app].
  - rewrite orb_false_r. destruct Y as [|[k n] p]; [reflexivity|]. cbn [skip_keys]. cbn in H. unfold keyish in H.
    apply negb_true_iff in H. rewrite H. reflexivity.
  - cbn [skip_keys tk1]. pose proof (key_tk_keyish c) as Hk. unfold keyish in Hk. rewrite Hk.
    rewrite (IH true Y H). rewrite orb_true_r. reflexivity.
Qed.

Lemma is_keys_not k ks Y : keyish k = false -> is k Y = false -> is k (keys_toks ks Y) = false.
Proof.
  intros Hk HY. destruct ks as [|c ks']; [exact HY|]. unfold keys_toks. cbn [map app is tk1 fst]. apply key_tk_not. exact Hk.
Qed.

Section Main5.
Variable mg : bool.
Notation R := (R mg).
Notation Kst := (Kst mg).
Notation Pst := (Pst mg).

(* the separator handling at the end of a member *)
Definition sep_fits (s : Z) (T : toks) : Prop := s = 0 \/ s = 1 \/ (s = 2 /\ is KRBrace T = true).

Lemma sep_head s T : sep_fits s T ->
  stop_tk (hd_tk (sep_toks s ++ T)) = true /\ harmless (hd_tk (sep_toks s ++ T)) = true /\
  is KColon (sep_toks s ++ T) = false /\
  (if is KRBrace (sep_toks s ++ T) then Ok (sep_toks s ++ T)
   else if is KComma (sep_toks s ++ T) || is KSemi (sep_toks s ++ T) then Ok (tl (sep_toks s ++ T))
   else if hd_nl (sep_toks s ++ T) then Ok (sep_toks s ++ T) else Fail) = Ok T.
Proof.
  intros [->|[->|[-> H]]]; cbn [sep_toks Z.eqb app]; try (repeat split; reflexivity).
  destruct T as [|[k n] p]; [discriminate|]. cbn in H. unfold tk_eqb in H. destruct (tk_eq_dec k KRBrace); [subst k|discriminate].
  repeat split; reflexivity.
Qed.

Lemma params_none_ev Y : is KLt Y = false -> Ev (CParams false Y) (0, Y).
Proof. intros H. apply ev0. intros s. cbn [F]. unfold F_params. rewrite H. reflexivity. Qed.

(* one property member *)
Lemma member_prop ks opt t s T post :
  Kst t -> wfb t = true -> ks <> [] -> sep_fits s T -> Ev (CObjLoop T) (0, post) ->
  Ev (CObjLoop (R (TMProp ks opt t s) T)) (0, post).
Proof.
  intros K W Hks Hsep HT. cbn [R].
  destruct (sep_head s T Hsep) as [S1 [S2 [S3 S6]]].
  set (Y := tk1 KColon :: R t (sep_toks s ++ T)).
  assert (HTy : Ev (CType LLowest fl0 (R t (sep_toks s ++ T))) (0, sep_toks s ++ T))
    by (apply K_delim; auto; apply tail_ok_harmless; exact S2).
  assert (HP : Ev (CParams false Y) (0, Y)) by (apply params_none_ev; reflexivity).
  eapply ev3; [exact HP|exact HTy|exact HT|]. intros s0 E1 E2 E3. cbn [F]. unfold F_objloop.
  rewrite (is_keys_not KRBrace ks _ eq_refl) by (destruct opt; reflexivity).
  rewrite (is_keys_not KPlus ks _ eq_refl) by (destruct opt; reflexivity).
  rewrite (is_keys_not KMinus ks _ eq_refl) by (destruct opt; reflexivity).
  cbn [orb]. rewrite skip_keys_keys by (destruct opt; reflexivity).
  replace (false || match ks with [] => false | _ :: _ => true end) with true by (destruct ks; [congruence|reflexivity]).
  assert (E4 : is KLBrack (optq opt ++ Y) = false) by (destruct opt; reflexivity). rewrite E4.
  unfold bind at 1. cbn iota beta.
  replace (if true && (is KQuestion (optq opt ++ Y) || is KBang (optq opt ++ Y)) then tl (optq opt ++ Y) else optq opt ++ Y) with Y
    by (destruct opt; reflexivity).
  unfold snd_of, bind. rewrite E1. cbn [is tk1 fst Y]. change (tk_eqb KColon KColon) with true. cbn iota. cbn [tl].
  change (tl Y) with (R t (sep_toks s ++ T)). unfold type_at, snd_of, bind. rewrite E2. cbn iota beta.
  match goal with |- match ?X with _ => _ end = _ => replace X with (Ok (A:=toks) T) by (symmetry; exact S6) end. exact E3.
Qed.

Lemma name_type f l Y : fNoCond f = false -> normal l = true -> harmless (hd_tk Y) = true -> stop_tk (hd_tk Y) = true ->
  Ev (CType LLowest f (tk1 (KIdent l) :: Y)) (0, Y).
Proof.
  intros Hf Hl Hh Hs.
  change (tk1 (KIdent l) :: Y) with (R (TRef l [] []) Y).
  apply K_delim; auto.
  - apply K_ref. constructor.
  - cbn. rewrite Hl. reflexivity.
  - apply tail_ok_harmless. exact Hh.
Qed.

(* method / call / construct / accessor signature *)
Lemma member_meth ks opt tps ps h ret s T post :
  TParamsSt mg tps -> wf_tparams_with wfb tps = true -> ParamsSt mg ps -> RetSt mg ret -> wf_params_with wfb ps = true -> (h = true -> wf_ret_with wfb ret = true) ->
  (ks = [] -> opt = false) -> (h = true -> tail_ok ret (sep_toks s ++ T) = true) ->
  sep_fits s T -> Ev (CObjLoop T) (0, post) ->
  Ev (CObjLoop (R (TMMeth ks opt tps ps h ret s) T)) (0, post).
Proof.
  intros HTs Wt HPs HRs Wp Wr Hko Htl Hsep HT.
  destruct (sep_head s T Hsep) as [S1 [S2 [S3 S6]]].
  set (A := if h then tk1 KColon :: R ret (sep_toks s ++ T) else sep_toks s ++ T).
  set (P := tk1 KLParen :: join [tk1 KComma] (map R ps) (tk1 KRParen :: A)).
  assert (HFn : Ev (CFnArgs P) (0, A)).
  { eapply ev1; [apply (HPs Wp A)|]. intros s0 E1. cbn [F]. unfold F_fnargs, P. cbn. exact E1. }
  set (TP := tparamsR mg tps P).
  assert (ER : R (TMMeth ks opt tps ps h ret s) T = keys_toks ks (optq opt ++ TP)) by (subst TP P A; destruct h; reflexivity).
  rewrite ER. clear ER.
  destruct (HTs Wt P ltac:(reflexivity)) as [pcode HP].
  assert (HTP : key_stop (optq opt ++ TP) = true /\ is KRBrace (optq opt ++ TP) = false /\ is KPlus (optq opt ++ TP) = false /\ is KMinus (optq opt ++ TP) = false /\ is KLBrack (optq opt ++ TP) = false)
    by (subst TP; destruct opt, tps; repeat split; reflexivity).
  destruct HTP as [T0 [T1 [T2 [T3 T4]]]].
  assert (HRet : h = true -> Ev (CType LLowest fl_ret (R ret (sep_toks s ++ T))) (0, sep_toks s ++ T)).
  { intros E. apply HRs; auto. }
  assert (Hfirst : is KRBrace (keys_toks ks (optq opt ++ TP)) = false /\ is KPlus (keys_toks ks (optq opt ++ TP)) = false /\
                   is KMinus (keys_toks ks (optq opt ++ TP)) = false).
  { repeat split; apply is_keys_not; try reflexivity; assumption. }
  destruct Hfirst as [F1 [F2 F3]].
  assert (Hstep : forall s0, s0 (CParams false TP) = Ok (pcode, P) -> s0 (CFnArgs P) = Ok (0, A) ->
            (h = true -> s0 (CType LLowest fl_ret (R ret (sep_toks s ++ T))) = Ok (0, sep_toks s ++ T)) ->
            s0 (CObjLoop T) = Ok (0, post) -> F s0 (CObjLoop (keys_toks ks (optq opt ++ TP))) = Ok (0, post)).
  { intros s0 E1 E2 E3 E4. cbn [F]. unfold F_objloop. rewrite F1, F2, F3. cbn [orb].
    rewrite skip_keys_keys by exact T0. cbn [orb].
    rewrite T4.
    unfold bind at 1. cbn iota beta.
    replace (if (match ks with [] => false | _ :: _ => true end) && (is KQuestion (optq opt ++ TP) || is KBang (optq opt ++ TP)) then tl (optq opt ++ TP) else optq opt ++ TP) with TP
      by (subst TP; destruct ks; [rewrite (Hko eq_refl); reflexivity|destruct opt, tps; reflexivity]).
    unfold snd_of, bind. rewrite E1. cbn iota beta.
    assert (E6 : is KColon P = false) by reflexivity. assert (E7 : is KLParen P = true) by reflexivity.
    rewrite E6, E7. rewrite E2. cbn iota beta.
    destruct h; subst A.
    - cbn [is tk1 fst]. change (tk_eqb KColon KColon) with true. cbn iota. cbn [tl].
      unfold type_at, snd_of, bind. rewrite (E3 eq_refl). cbn iota beta.
      match goal with |- match ?X with _ => _ end = _ => replace X with (Ok (A:=toks) T) by (symmetry; exact S6) end. exact E4.
    - rewrite S3.
      match goal with |- match ?X with _ => _ end = _ => replace X with (Ok (A:=toks) T) by (symmetry; exact S6) end. exact E4. }
  destruct h.
  - eapply (ev_list [(CParams false TP, (pcode, P)); (CFnArgs P, (0, A));
                     (CType LLowest fl_ret (R ret (sep_toks s ++ T)), (0, sep_toks s ++ T)); (CObjLoop T, (0, post))]).
    + repeat constructor; cbn [fst snd]; auto.
    + intros s0 Hs. inv_forall. apply Hstep; auto.
  - eapply (ev_list [(CParams false TP, (pcode, P)); (CFnArgs P, (0, A)); (CObjLoop T, (0, post))]).
    + repeat constructor; cbn [fst snd]; auto.
    + intros s0 Hs. inv_forall. apply Hstep; auto. discriminate.
Qed.

Ltac finish_sep S6 E T := cbn iota beta;
  match goal with |- match ?X with _ => _ end = _ => replace X with (Ok (A:=toks) T) by (symmetry; exact S6) end; exact E.

(* index signature: readonly [k: kt]: vt *)
Lemma member_index ks k kt vt s T post :
  Kst kt -> Kst vt -> wfb kt = true -> wfb vt = true -> normal k = true ->
  sep_fits s T -> Ev (CObjLoop T) (0, post) ->
  Ev (CObjLoop (R (TMIndex ks k kt vt s) T)) (0, post).
Proof.
  intros Kk Kv Wk Wv Hk Hsep HT. cbn [R].
  destruct (sep_head s T Hsep) as [S1 [S2 [S3 S6]]].
  set (V := tk1 KColon :: R vt (sep_toks s ++ T)).
  set (B := tk1 KRBrack :: V).
  set (C := tk1 KColon :: R kt B).
  set (I := tk1 (KIdent k) :: C).
  assert (H1 : Ev (CType LLowest fl_idx I) (0, C)) by (apply name_type; auto).
  assert (H2 : Ev (CType LLowest fl0 (R kt B)) (0, B)) by (apply K_delim; auto; try reflexivity; apply tail_ok_harmless; reflexivity).
  assert (H3 : Ev (CParams false V) (0, V)) by (apply params_none_ev; reflexivity).
  assert (H4 : Ev (CType LLowest fl0 (R vt (sep_toks s ++ T))) (0, sep_toks s ++ T)) by (apply K_delim; auto; apply tail_ok_harmless; exact S2).
  eapply (ev_list [(CType LLowest fl_idx I, (0, C)); (CType LLowest fl0 (R kt B), (0, B)); (CParams false V, (0, V));
                   (CType LLowest fl0 (R vt (sep_toks s ++ T)), (0, sep_toks s ++ T)); (CObjLoop T, (0, post))]).
  { repeat constructor; cbn [fst snd]; auto. }
  intros s0 Hs. inv_forall. cbn [F]. unfold F_objloop.
  rewrite (is_keys_not KRBrace ks _ eq_refl) by reflexivity.
  rewrite (is_keys_not KPlus ks _ eq_refl) by reflexivity.
  rewrite (is_keys_not KMinus ks _ eq_refl) by reflexivity.
  cbn [orb]. rewrite skip_keys_keys by reflexivity.
  cbn [is tk1 fst]. change (tk_eqb KLBrack KLBrack) with true. cbn iota. cbn [tl].
  unfold type_at, snd_of, bind.
  match goal with H : s0 (CType LLowest fl_idx I) = _ |- _ => rewrite H end. cbn iota beta.
  assert (EC1 : is KColon C = true) by reflexivity. assert (EC2 : tl C = R kt B) by reflexivity. rewrite EC1, EC2.
  match goal with H : s0 (CType LLowest fl0 (R kt B)) = _ |- _ => rewrite H end. cbn iota beta.
  assert (EB : expect KRBrack B = Ok V) by reflexivity. rewrite EB. cbn iota beta.
  assert (EV1 : is KPlus V = false) by reflexivity. assert (EV2 : is KMinus V = false) by reflexivity.
  assert (EV3 : is KQuestion V = false) by reflexivity. assert (EV4 : is KBang V = false) by reflexivity.
  assert (EV5 : is KColon V = true) by reflexivity. assert (EV6 : tl V = R vt (sep_toks s ++ T)) by reflexivity.
  rewrite EV1, EV2. cbn [orb]. rewrite EV3, EV4. cbn [orb andb].
  match goal with H : s0 (CParams false V) = _ |- _ => rewrite H end. cbn iota beta.
  rewrite EV5, EV6.
  match goal with H : s0 (CType LLowest fl0 (R vt _)) = _ |- _ => rewrite H end.
  match goal with H : s0 (CObjLoop T) = _ |- _ => finish_sep S6 H T end.
Qed.

Lemma pm_cases p : pm_ok p = true -> p = 0 \/ p = 1 \/ p = 2.
Proof. unfold pm_ok. intros H. apply andb_true_iff in H as [A B]. lia. Qed.

(* mapped-type member: +readonly [k in src as ast]-?: vt *)
Lemma member_mapped p1 ks k src h ast p2 q vt s T post :
  Kst src -> Kst ast -> Kst vt -> wfb src = true -> (h = true -> wfb ast = true) -> wfb vt = true -> normal k = true ->
  pm_ok p1 = true -> pm_ok p2 = true ->
  sep_fits s T -> Ev (CObjLoop T) (0, post) ->
  Ev (CObjLoop (R (TMMapped p1 ks k src h ast p2 q vt s) T)) (0, post).
Proof.
  intros Ks Ka Kv Ws Wa Wv Hk Hp1 Hp2 Hsep HT. cbn [R].
  destruct (sep_head s T Hsep) as [S1 [S2 [S3 S6]]].
  set (V := tk1 KColon :: R vt (sep_toks s ++ T)).
  set (W := pm_toks p2 ++ optq q ++ V).
  set (Z := tk1 KRBrack :: W).
  set (X := if h then tk1 (KIdent c_as) :: R ast Z else Z).
  set (Kn := tk1 KIn :: R src X).
  set (I := tk1 (KIdent k) :: Kn).
  set (Lb := tk1 KLBrack :: I).
  assert (H1 : Ev (CType LLowest fl_idx I) (0, Kn)) by (apply name_type; auto).
  assert (HX : stop_tk (hd_tk X) = true /\ harmless (hd_tk X) = true) by (subst X; destruct h; split; reflexivity).
  assert (H2 : Ev (CType LLowest fl0 (R src X)) (0, X)) by (apply K_delim; auto; try apply HX; apply tail_ok_harmless; apply HX).
  assert (H3 : h = true -> Ev (CType LLowest fl0 (R ast Z)) (0, Z))
    by (intros E; apply K_delim; auto; try reflexivity; apply tail_ok_harmless; reflexivity).
  assert (H4 : Ev (CParams false V) (0, V)) by (apply params_none_ev; reflexivity).
  assert (H5 : Ev (CType LLowest fl0 (R vt (sep_toks s ++ T))) (0, sep_toks s ++ T)) by (apply K_delim; auto; apply tail_ok_harmless; exact S2).
  assert (F0 : is KRBrace (pm_toks p1 ++ keys_toks ks Lb) = false /\
               (if is KPlus (pm_toks p1 ++ keys_toks ks Lb) || is KMinus (pm_toks p1 ++ keys_toks ks Lb)
                then tl (pm_toks p1 ++ keys_toks ks Lb) else pm_toks p1 ++ keys_toks ks Lb) = keys_toks ks Lb).
  { destruct (pm_cases p1 Hp1) as [-> | [-> | ->]]; cbn [pm_toks Z.eqb app]; try (split; reflexivity).
    split; [apply is_keys_not; reflexivity|].
    rewrite (is_keys_not KPlus ks Lb eq_refl eq_refl), (is_keys_not KMinus ks Lb eq_refl eq_refl). reflexivity. }
  destruct F0 as [F1 F2].
  assert (FW : (if is KPlus W || is KMinus W then tl W else W) = optq q ++ V)
    by (subst W; destruct (pm_cases p2 Hp2) as [-> | [-> | ->]]; destruct q; reflexivity).
  assert (FQ : (if true && (is KQuestion (optq q ++ V) || is KBang (optq q ++ V)) then tl (optq q ++ V) else optq q ++ V) = V)
    by (destruct q; reflexivity).
  assert (Hstep : forall s0, s0 (CType LLowest fl_idx I) = Ok (0, Kn) -> s0 (CType LLowest fl0 (R src X)) = Ok (0, X) ->
            (h = true -> s0 (CType LLowest fl0 (R ast Z)) = Ok (0, Z)) -> s0 (CParams false V) = Ok (0, V) ->
            s0 (CType LLowest fl0 (R vt (sep_toks s ++ T))) = Ok (0, sep_toks s ++ T) -> s0 (CObjLoop T) = Ok (0, post) ->
            F s0 (CObjLoop (pm_toks p1 ++ keys_toks ks Lb)) = Ok (0, post)).
  { intros s0 E1 E2 E3 E4 E5 E6. cbn [F]. unfold F_objloop. rewrite F1, F2.
    rewrite skip_keys_keys by reflexivity.
    assert (EL : is KLBrack Lb = true) by reflexivity. assert (EL2 : tl Lb = I) by reflexivity. rewrite EL, EL2.
    unfold type_at, snd_of, bind. rewrite E1. cbn iota beta.
    assert (EK1 : is KColon Kn = false) by reflexivity. assert (EK2 : is KIn Kn = true) by reflexivity.
    assert (EK3 : tl Kn = R src X) by reflexivity. rewrite EK1, EK2, EK3. rewrite E2. cbn iota beta.
    assert (EZ : expect KRBrack Z = Ok W) by reflexivity.
    destruct h; subst X.
    - assert (EA : is_ctx c_as (tk1 (KIdent c_as) :: R ast Z) = true) by reflexivity. rewrite EA. cbn [tl].
      rewrite (E3 eq_refl). cbn iota beta. rewrite EZ. cbn iota beta. rewrite FW, FQ.
      rewrite E4. cbn iota beta.
      assert (EV5 : is KColon V = true) by reflexivity. assert (EV6 : tl V = R vt (sep_toks s ++ T)) by reflexivity.
      rewrite EV5, EV6, E5. finish_sep S6 E6 T.
    - assert (EA : is_ctx c_as Z = false) by reflexivity. rewrite EA. cbn iota beta.
      rewrite EZ. cbn iota beta. rewrite FW, FQ.
      rewrite E4. cbn iota beta.
      assert (EV5 : is KColon V = true) by reflexivity. assert (EV6 : tl V = R vt (sep_toks s ++ T)) by reflexivity.
      rewrite EV5, EV6, E5. finish_sep S6 E6 T. }
  destruct h.
  - eapply (ev_list [(CType LLowest fl_idx I, (0, Kn)); (CType LLowest fl0 (R src X), (0, X)); (CType LLowest fl0 (R ast Z), (0, Z));
                     (CParams false V, (0, V)); (CType LLowest fl0 (R vt (sep_toks s ++ T)), (0, sep_toks s ++ T)); (CObjLoop T, (0, post))]).
    + repeat constructor; cbn [fst snd]; auto.
    + intros s0 Hs. inv_forall. apply Hstep; auto.
  - eapply (ev_list [(CType LLowest fl_idx I, (0, Kn)); (CType LLowest fl0 (R src X), (0, X));
                     (CParams false V, (0, V)); (CType LLowest fl0 (R vt (sep_toks s ++ T)), (0, sep_toks s ++ T)); (CObjLoop T, (0, post))]).
    + repeat constructor; cbn [fst snd]; auto.
    + intros s0 Hs. inv_forall. apply Hstep; auto. discriminate.
Qed.
End Main5.
