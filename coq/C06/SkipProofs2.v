(* C06: skip_exact, cases for names, queries, import types, templates, tuples,
   parentheses (continues SkipProofs.v) *)
From V Require Import Common.Base C06.TsTokens C06.SkipType C06.SkipMono C06.TypeGrammar C06.SkipProofs.

(* what happens right after a name: optional type arguments (not after a newline) *)
Definition EvA (Y Z : toks) : Prop := exists N, forall m, (N <= m)%nat -> args_opt (run m) Y = Ok Z.

Lemma EvA_nl Y : hd_nl Y = true -> EvA Y Y.
Proof. intros H. exists 0%nat. intros m _. unfold args_opt. rewrite H. reflexivity. Qed.

Lemma EvA_nolt Y : lt_tk (hd_tk Y) = false -> EvA Y Y.
Proof.
  intros H. exists 1%nat. intros m Hm. destruct m; [lia|]. unfold args_opt. destruct (hd_nl Y); [reflexivity|].
  cbn [run F]. unfold F_args, snd_of, bind. destruct (hd_tk Y); try discriminate; reflexivity.
Qed.

Lemma EvA_of_Ev Y code Z : Ev (CArgs false Y) (code, Z) -> hd_nl Y = false -> EvA Y Z.
Proof.
  intros H Hn. apply Ev_all in H as [N H]. exists N. intros m Hm. unfold args_opt. rewrite Hn.
  unfold snd_of, bind. rewrite (H m Hm). reflexivity.
Qed.

Lemma suffix_dot_step lvl f d Y Z r :
  EvA Y Z -> Ev (CSuffix lvl f Z) (0, r) -> Ev (CSuffix lvl f (tk1 KDot :: tk1 (KIdent d) :: Y)) (0, r).
Proof.
  intros [N1 H1] H2. apply Ev_all in H2 as [N2 H2]. exists (S (N1 + N2)). cbn [run F]. unfold F_suffix.
  cbn [hd_tk tk1 fst tl]. cbn [is_ident_or_kw tk_ident_or_kw negb]. rewrite H1 by lia. unfold bind. apply H2. lia.
Qed.

Lemma suffix_dots q : forall lvl f X post r, EvA X post -> Ev (CSuffix lvl f post) (0, r) -> q <> [] ->
  Ev (CSuffix lvl f (dots q X)) (0, r).
Proof.
  induction q as [|d q' IH]; intros lvl f X post r HA Hs Hne; [congruence|].
  destruct q' as [|d' q''].
  - cbn [dots]. eapply suffix_dot_step; eassumption.
  - change (dots (d :: d' :: q'') X) with (tk1 KDot :: tk1 (KIdent d) :: dots (d' :: q'') X).
    eapply suffix_dot_step.
    + apply EvA_nolt. reflexivity.
    + eapply IH; eauto. discriminate.
Qed.

Lemma prefix_ident c Y Z lvl f : normal c = true -> EvA Y Z -> is_ctx c_is Y && negb (hd_nl Y) = false ->
  Ev (CPrefix lvl f (tk1 (KIdent c) :: Y)) (1, Z).
Proof.
  intros Hc [N H] Hi. exists (S N). cbn [run F]. unfold F_prefix. cbn [hd_tk tk1 fst tl].
  rewrite (ident_kind_normal c Hc). cbn iota. unfold ident_tail. rewrite Hi. cbn [andb].
  specialize (H N (le_n N)). unfold args_opt in H. destruct (hd_nl Y); cbn [negb].
  - inversion H; subst. reflexivity.
  - unfold bind. rewrite H. reflexivity.
Qed.

Lemma skip_dots_dots q : forall X, is KDot X = false -> skip_dots (dots q X) = Ok X.
Proof.
  induction q as [|d q' IH]; intros X H; cbn [dots].
  - destruct X as [|[k n] p]; [reflexivity|]. destruct k; try reflexivity. discriminate.
  - cbn. apply IH. exact H.
Qed.

Section Main2.
Variable mg : bool.
Notation R := (R mg).
Notation Kst := (Kst mg).

Definition targsR (args : list ty) (post : toks) : toks :=
  match args with [] => post | _ => tk1 KLt :: join [tk1 KComma] (map R args) (push_gt mg post) end.

Lemma targs_EvA args post : Forall Kst args -> forallb wfb args = true -> (args = [] -> no_lt post = true) -> EvA (targsR args post) post.
Proof.
  intros HK W Hlt. destruct args as [|a l].
  - specialize (Hlt eq_refl). cbn [targsR]. unfold no_lt in Hlt. destruct (hd_nl post) eqn:E; [apply EvA_nl; exact E|].
    apply EvA_nolt. cbn in Hlt. apply negb_true_iff in Hlt. exact Hlt.
  - destruct (push_gt_ok mg post) as [P1 [P2 [P3 P4]]].
    assert (HJ : Ev (CArgLoop (join [tk1 KComma] (map R (a :: l)) (push_gt mg post))) (0, push_gt mg post))
      by (apply args_loop; auto; discriminate).
    unfold targsR. remember (join [tk1 KComma] (map R (a :: l)) (push_gt mg post)) as J eqn:EJ. clear EJ.
    eapply (EvA_of_Ev _ 1); [|reflexivity].
    eapply (ev1 _ (CArgLoop J) (0, push_gt mg post)); [exact HJ|].
    intros s E1. cbn [F]. unfold F_args. cbn [hd_tk tk1 fst expect_lt]. unfold snd_of, bind. rewrite E1. rewrite P4. reflexivity.
Qed.

Lemma targs_hd args post : is KDot (targsR args post) = is KDot post \/ is KDot (targsR args post) = false.
Proof. destruct args; [left|right]; reflexivity. Qed.

Lemma K_ref c q args : Forall Kst args -> Kst (TRef c q args).
Proof.
  intros HK W lvl f post r Hl _ Hf Ht _ Hs. cbn [wfb] in W.
  apply andb_true_iff in W as [W Wa]. apply andb_true_iff in W as [Hc Wq].
  change (R (TRef c q args) post) with (tk1 (KIdent c) :: dots q (targsR args post)).
  assert (Hlt : args = [] -> no_lt post = true /\ no_is post = true).
  { intros ->. cbn [tail_ok] in Ht. apply andb_true_iff in Ht as [A B]. auto. }
  assert (HA : EvA (targsR args post) post) by (apply targs_EvA; auto; intros E; apply Hlt; exact E).
  destruct q as [|d q'].
  - cbn [dots]. eapply type_of_prefix; [|exact Hs].
    apply prefix_ident; auto.
    destruct args; [|reflexivity]. cbn [targsR]. destruct (Hlt eq_refl) as [_ B]. unfold no_is in B. apply negb_true_iff in B. exact B.
  - eapply type_of_prefix.
    + apply prefix_ident; [exact Hc|apply EvA_nolt; reflexivity|reflexivity].
    + eapply suffix_dots; eauto. discriminate.
Qed.

Lemma K_typeof c q args : Forall Kst args -> Kst (TTypeof c q args).
Proof.
  intros HK W lvl f post r Hl _ Hf Ht _ Hs. cbn [wfb] in W.
  apply andb_true_iff in W as [W Wa]. apply andb_true_iff in W as [Hc Wq].
  change (R (TTypeof c q args) post) with (tk1 KTypeof :: tk1 (KIdent c) :: dots q (targsR args post)).
  assert (Hlt : args = [] -> no_lt post = true /\ is KDot post = false).
  { intros ->. cbn [tail_ok] in Ht. apply andb_true_iff in Ht as [A B]. apply negb_true_iff in B. auto. }
  assert (HA : EvA (targsR args post) post) by (apply targs_EvA; auto; intros E; apply Hlt; exact E).
  assert (HD : is KDot (targsR args post) = false) by (destruct args; [apply Hlt; reflexivity|reflexivity]).
  eapply type_of_prefix; [|exact Hs].
  destruct HA as [N HA]. exists (S N). cbn [run F]. unfold F_prefix. cbn [hd_tk tk1 fst tl].
  remember (dots q (targsR args post)) as Y eqn:EY.
  assert (E1 : colon_or_q (tk1 (KIdent c) :: Y) = false) by reflexivity.
  assert (E2 : is KImport (tk1 (KIdent c) :: Y) = false) by reflexivity.
  assert (E3 : is_ident_or_kw (tk1 (KIdent c) :: Y) = true) by reflexivity.
  rewrite E1, andb_false_r, E2, E3. cbn [negb]. subst Y. rewrite (skip_dots_dots q _ HD). unfold bind.
  rewrite (HA N (le_n N)). reflexivity.
Qed.

Lemma K_import tof q args : Forall Kst args -> Kst (TImport tof q args).
Proof.
  intros HK W lvl f post r Hl _ Hf Ht _ Hs. cbn [wfb] in W.
  apply andb_true_iff in W as [W Wqa]. apply andb_true_iff in W as [Wq Wa].
  set (rest := dots q (targsR args post)).
  set (body := tk1 KImport :: tk1 KLParen :: tk1 KStr :: tk1 KRParen :: rest).
  change (R (TImport tof q args) post) with ((if tof then [tk1 KTypeof] else []) ++ body).
  assert (Hrest : Ev (CSuffix lvl f rest) (0, r)).
  { subst rest. destruct q as [|d q'].
    - destruct args; [exact Hs|discriminate].
    - eapply suffix_dots; eauto; [|discriminate]. apply targs_EvA; auto. intros ->. cbn [tail_ok] in Ht. exact Ht. }
  assert (Hbody : Ev (CPrefix lvl f body) (1, rest)).
  { apply ev0. intros s. cbn [F]. unfold F_prefix, body. cbn [hd_tk tk1 fst tl].
    assert (E : colon_or_q (tk1 KLParen :: tk1 KStr :: tk1 KRParen :: rest) = false) by reflexivity.
    rewrite E, andb_false_r. reflexivity. }
  eapply type_of_prefix; [|exact Hrest].
  destruct tof; cbn [app]; [|exact Hbody].
  eapply (ev1 _ (CPrefix lvl f body) (1, rest)); [exact Hbody|].
  intros s E1. cbn [F]. unfold F_prefix. cbn [hd_tk tk1 fst tl].
  assert (E : colon_or_q body = false) by reflexivity.
  assert (E' : is KImport body = true) by reflexivity.
  rewrite E, andb_false_r, E'. exact E1.
Qed.

Lemma template_loop : forall ts, ts <> [] -> Forall Kst ts -> forallb wfb ts = true ->
  forall h post, Ev (CTemplate (h :: join [tk1 KTplMid] (map R ts) (tk1 KTplTail :: post))) (0, post).
Proof.
  induction ts as [|x l IH]; intros Hne HK W h post; [congruence|].
  inversion HK as [|? ? Kx Kl]; subst. cbn [forallb] in W. apply andb_true_iff in W as [Wx Wl].
  destruct l as [|y l'].
  - cbn [map join]. eapply (ev1 _ (CType LLowest fl0 (R x (tk1 KTplTail :: post))) (0, tk1 KTplTail :: post)).
    + apply K_delim; auto; try reflexivity; apply tail_ok_harmless; reflexivity.
    + intros s E1. cbn [F]. unfold F_template. cbn [tl]. unfold type_at, snd_of, bind. rewrite E1. reflexivity.
  - change (join [tk1 KTplMid] (map R (x :: y :: l')) (tk1 KTplTail :: post))
      with (R x (tk1 KTplMid :: join [tk1 KTplMid] (map R (y :: l')) (tk1 KTplTail :: post))).
    specialize (IH ltac:(discriminate) Kl Wl (tk1 KTplMid) post).
    remember (join [tk1 KTplMid] (map R (y :: l')) (tk1 KTplTail :: post)) as J eqn:EJ. clear EJ.
    eapply (ev2 _ (CType LLowest fl0 (R x (tk1 KTplMid :: J))) (0, tk1 KTplMid :: J) (CTemplate (tk1 KTplMid :: J)) (0, post)).
    + apply K_delim; auto; try reflexivity; apply tail_ok_harmless; reflexivity.
    + exact IH.
    + intros s E1 E2. cbn [F]. unfold F_template. cbn [tl]. unfold type_at, snd_of, bind. rewrite E1. cbn. exact E2.
Qed.

Lemma K_template ts : Forall Kst ts -> Kst (TTemplate ts).
Proof.
  intros HK W lvl f post r Hl _ Hf Ht _ Hs. cbn [R wfb] in *.
  assert (Hne : ts <> []) by (destruct ts; [discriminate|discriminate]).
  assert (Wt : forallb wfb ts = true) by (destruct ts; [discriminate|exact W]).
  eapply type_of_prefix; [|exact Hs].
  eapply (ev1 _ (CTemplate (tk1 KTplHead :: join [tk1 KTplMid] (map R ts) (tk1 KTplTail :: post))) (0, post)).
  - apply template_loop; auto.
  - intros s E1. cbn [F]. unfold F_prefix. cbn [hd_tk tk1 fst]. unfold snd_of, bind.
    change ((KTplHead, false) :: join [tk1 KTplMid] (map R ts) (tk1 KTplTail :: post)) with
           (tk1 KTplHead :: join [tk1 KTplMid] (map R ts) (tk1 KTplTail :: post)).
    rewrite E1. reflexivity.
Qed.
End Main2.
