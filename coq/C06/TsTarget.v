(* C06: class-field semantics selected by tsconfig: the default of
   useDefineForClassFields derived from "target".

   Model: the table generated from the switch in ParseTSConfigJSON
   (gen/TsTargetsGen.v, regenerated from the Go source on every run) and the
   combination rule of js_parser.go (classLoweringInfo / parseClass:
   useDefineForClassFields := !ts.Parse || explicit == True ||
   (explicit == Unspecified && Target != TSTargetBelowES2022)).

   Specification: TypeScript's documented rule (tsconfig reference,
   useDefineForClassFields: "true if target is ES2022 or higher, including
   ESNext, else false"), over the ordering of ScriptTarget written as years.
   esbuild's documented deviation is kept explicit: with no (recognised) target
   at all esbuild uses define semantics (TypeScript would assume ES5). *)
From V Require Import Common.Base gen.TsTargetsGen.

(* the target names of the tsconfig reference (lower case) and the year of the
   edition; es2025 / es2026 are editions esbuild accepts ahead of TypeScript *)
Definition ts_years : list (list Z * Z) := [
  ([101;115;51], 1999); ([101;115;53], 2009); ([101;115;54], 2015);
  ([101;115;50;48;49;53], 2015); ([101;115;50;48;49;54], 2016); ([101;115;50;48;49;55], 2017);
  ([101;115;50;48;49;56], 2018); ([101;115;50;48;49;57], 2019); ([101;115;50;48;50;48], 2020);
  ([101;115;50;48;50;49], 2021); ([101;115;50;48;50;50], 2022); ([101;115;50;48;50;51], 2023);
  ([101;115;50;48;50;52], 2024); ([101;115;50;48;50;53], 2025); ([101;115;50;48;50;54], 2026);
  ([101;115;110;101;120;116], 9999) ].

Definition ts_default_use_define (year : Z) : bool := 2022 <=? year.

Definition lower (c : Z) : Z := if (65 <=? c) && (c <=? 90) then c + 32 else c.

Fixpoint lookup {A} (n : list Z) (t : list (list Z * A)) : option A :=
  match t with [] => None | (k, v) :: r => if zlist_eqb k n then Some v else lookup n r end.

(* strings.ToLower + the switch *)
Definition go_target (name : list Z) : option bool := lookup (map lower name) ts_target_cases.
Definition spec_year (name : list Z) : option Z := lookup (map lower name) ts_years.

(* explicit: 0 unspecified, 1 true, 2 false;  target: None = no / unrecognised target *)
Definition effective_define (explicit : Z) (target : option bool) : bool :=
  (explicit =? 1) || ((explicit =? 0) && negb (match target with Some false => true | _ => false end)).

Definition spec_define (explicit : Z) (target : option (list Z)) : bool :=
  if explicit =? 1 then true else if explicit =? 0 then
    match target with
    | None => true                                   (* esbuild's documented default without a target *)
    | Some n => match spec_year n with
                | Some y => ts_default_use_define y  (* TypeScript's rule *)
                | None => true                       (* unrecognised target: warning, treated as absent *)
                end
    end
  else false.

Lemma lookup_related {A B} (rel : A -> B -> bool) : forall (t1 : list (list Z * A)) (t2 : list (list Z * B)),
  list_eqb zlist_eqb (map fst t1) (map fst t2) = true ->
  forallb (fun p => rel (snd (fst p)) (snd (snd p))) (combine t1 t2) = true ->
  forall n, match lookup n t1, lookup n t2 with
            | Some a, Some b => rel a b = true
            | None, None => True
            | _, _ => False
            end.
Proof.
  induction t1 as [|[k1 v1] r1 IH]; intros [|[k2 v2] r2] Hk Hv n; cbn in *; try discriminate; auto.
  apply andb_true_iff in Hk as [Hk1 Hk]. apply andb_true_iff in Hv as [Hv1 Hv].
  apply zlist_eqb_eq in Hk1. subst k2.
  destruct (zlist_eqb k1 n); [exact Hv1|]. apply IH; assumption.
Qed.

(* the generated table is TypeScript's rule, for every string *)
Lemma go_target_is_rule name :
  match go_target name, spec_year name with
  | Some above, Some y => above = ts_default_use_define y
  | None, None => True
  | _, _ => False
  end.
Proof.
  unfold go_target, spec_year.
  pose proof (lookup_related (fun (a : bool) (y : Z) => Bool.eqb a (ts_default_use_define y)) ts_target_cases ts_years
                ltac:(vm_compute; reflexivity) ltac:(vm_compute; reflexivity) (map lower name)) as H.
  destruct (lookup (map lower name) ts_target_cases), (lookup (map lower name) ts_years); auto.
  apply Bool.eqb_prop in H. exact H.
Qed.

Lemma effective_define_is_rule explicit target :
  effective_define explicit (match target with Some n => go_target n | None => None end) = spec_define explicit target.
Proof.
  unfold effective_define, spec_define.
  destruct (explicit =? 1); [reflexivity|]. destruct (explicit =? 0); [|reflexivity]. cbn [orb andb].
  destruct target as [n|]; [|reflexivity].
  pose proof (go_target_is_rule n) as H.
  destruct (go_target n) as [[|]|], (spec_year n); try contradiction; try reflexivity; rewrite <- H; reflexivity.
Qed.

(* ---- correspondence cases ---- *)
(* (target name or [] for absent, explicit, Go TSTarget: 0 unspecified 1 below 2 at-or-above, define semantics observed in node: 1/0, or 2 = not run) *)
Definition target_case := (list Z * Z * Z * Z)%type.
Definition target_case_ok (c : target_case) : bool :=
  let '(name, explicit, gotgt, observed) := c in
  let tgt := match name with [] => None | _ => go_target name end in
  (match tgt with None => gotgt =? 0 | Some false => gotgt =? 1 | Some true => gotgt =? 2 end)
  && ((observed =? 2) ||
      Bool.eqb (observed =? 1) (spec_define explicit (match name with [] => None | _ => Some name end))).
