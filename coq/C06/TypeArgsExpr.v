(* C06: type arguments in an expression, "f<T>(x)" versus "a < b > c".

   trySkipTypeArgumentsInExpressionWithBacktracking accepts "<" args ">" as a
   type-argument list exactly when the token after the ">" may follow type
   arguments (tsCanFollowTypeArgumentsInExpression); otherwise the lexer is
   restored and "<" is the less-than operator.  [spec_can_follow] is the rule of
   the TypeScript compiler (parser.ts: canFollowTypeArgumentsInExpression,
   isBinaryOperator, isStartOfExpression, isStartOfLeftHandSideExpression)
   written over the token alphabet independently of the model's transcription
   of the Go code.  Conventions of the alphabet: KOther stands for the binary
   operator punctuation that has no constructor of its own ( * / % ^ && || ??
   == != === !== ) and for end of file; KKeyword for keywords that neither are
   operators nor start an expression (if var while do else return for with). *)
From V Require Import Common.Base C06.TsTokens C06.SkipType C06.SkipMono C06.TypeGrammar C06.SkipProofs C06.SkipProofs3 C06.SkipProofs6.

(* getBinaryOperatorPrecedence(token) > 0, with "in" allowed *)
Definition spec_is_binary_operator (k : tk) : bool :=
  match k with
  | KOther                       (* ?? || && ^ == != === !== * / % ** *)
  | KBar | KAmp | KLt | KGt | KLtEq | KGtEq | KIn | KLtLt | KGtGt | KGtGtGt | KPlus | KMinus => true
  | KIdent c => (c =? c_as) || (c =? c_satisfies)
  | _ => false                   (* instanceof is not in the alphabet; assignment operators have precedence 0 *)
  end.

(* isStartOfLeftHandSideExpression; next = the token after an "import" *)
Definition spec_is_start_of_lhs (k : tk) (next : tk) : bool :=
  match k with
  | KThis | KNull | KTrue | KFalse | KNum | KBig | KStr | KNoSubst | KTplHead
  | KLParen | KLBrack | KLBrace | KFunction | KNew | KIdent _ => true
  | KImport => match next with KLParen | KLt | KDot => true | _ => false end
  | _ => false                   (* super, class, "/" and "/=" are not in the alphabet *)
  end.

Definition spec_is_start_of_expression (k : tk) (next : tk) : bool :=
  spec_is_start_of_lhs k next ||
  match k with
  | KPlus | KMinus | KBang | KTypeof | KVoid | KLt | KPrivate => true   (* ~ delete ++ -- @ await yield: not in the alphabet *)
  | _ => spec_is_binary_operator k
  end.

Definition spec_can_follow (ts : toks) : bool :=
  match hd_tk ts with
  | KLParen | KNoSubst | KTplHead => true
  | KLt | KPlus | KMinus => false
  (* the TypeScript scanner yields ">" for every token that starts with ">" *)
  | KGt | KGtEq | KGtGt | KGtGtEq | KGtGtGt | KGtGtGtEq => false
  | k => hd_nl ts || spec_is_binary_operator k || negb (spec_is_start_of_expression k (hd_tk (tl ts)))
  end.

Lemma can_follow_is_spec ts : can_follow_type_args ts = spec_can_follow ts.
Proof.
  unfold can_follow_type_args, spec_can_follow, spec_is_start_of_expression, spec_is_start_of_lhs, spec_is_binary_operator.
  destruct ts as [|[k n] r]; [reflexivity|]. cbn [hd_tk hd_nl tl].
  destruct k; try reflexivity; try (destruct n; reflexivity).
  destruct n; [reflexivity|]. destruct r as [|[k2 n2] r2]; [reflexivity|]. destruct k2; reflexivity.
Qed.

Section Decide.
Variable mg : bool.

Lemma cargs_expr_ok args post : args <> [] -> forallb wfb args = true ->
  Ev (CArgs true (tk1 KLt :: join [tk1 KComma] (map (R mg) args) (tk1 KGt :: post))) (1, post).
Proof.
  intros Hne W.
  assert (HK : Forall (Kst mg) args).
  { apply Forall_forall. intros x _. apply (proj1 (K_all mg x)). }
  pose proof (args_loop mg args Hne HK W (tk1 KGt :: post) eq_refl eq_refl eq_refl) as HJ.
  remember (join [tk1 KComma] (map (R mg) args) (tk1 KGt :: post)) as J eqn:EJ. clear EJ.
  eapply (ev1 _ (CArgLoop J) (0, tk1 KGt :: post)); [exact HJ|].
  intros s E1. cbn [F]. unfold F_args. cbn [hd_tk tk1 fst expect_lt]. unfold snd_of, bind. rewrite E1. reflexivity.
Qed.

(* the decision: the list is consumed iff the following token may follow type
   arguments; otherwise nothing is consumed *)
Lemma tryargs_decision args post : args <> [] -> forallb wfb args = true ->
  let ts := tk1 KLt :: join [tk1 KComma] (map (R mg) args) (tk1 KGt :: post) in
  Ev (CTryArgsExpr ts) (if spec_can_follow post then (1, post) else (0, ts)).
Proof.
  intros Hne W ts. rewrite <- can_follow_is_spec.
  eapply (ev1 _ (CArgs true ts) (1, post)); [apply cargs_expr_ok; assumption|].
  intros s E1. cbn [F]. unfold F_tryargsexpr, bind. rewrite E1. cbn [Z.eqb Pos.eqb andb].
  destruct (can_follow_type_args post); reflexivity.
Qed.

(* no "<" at all: the Go function returns true without moving *)
Lemma tryargs_no_lt ts : lt_tk (hd_tk ts) = false -> Ev (CTryArgsExpr ts) (1, ts).
Proof.
  intros H. eapply (ev1 _ (CArgs true ts) (0, ts)).
  - apply ev0. intros s. cbn [F]. unfold F_args. destruct (hd_tk ts); try discriminate; reflexivity.
  - intros s E1. cbn [F]. unfold F_tryargsexpr, bind. rewrite E1. reflexivity.
Qed.
End Decide.
