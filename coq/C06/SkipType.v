(* C06 model: the TypeScript type skipper of internal/js_parser/ts_parser.go.

   Mirrors, branch for branch:
     skipTypeScriptBinding            -> CBinding / CBindArr / CBindObj
     skipTypeScriptFnArgs             -> CFnArgs / CFnArgLoop
     skipTypeScriptParenOrFnType      -> CParenOrFn  (trySkipTypeScriptArrowArgsWithBacktracking)
     skipTypeScriptTypeWithFlags      -> CType = CPrefix (first loop) ; CSuffix (second loop)
     skipTypeScriptObjectType         -> CObject / CObjLoop
     skipTypeScriptTypeParameters     -> CParams / CParamLoop / CParamMods
     skipTypeScriptTypeArguments      -> CArgs / CArgLoop
     trySkipTypeScriptConstraintOfInferTypeWithBacktracking (inside CPrefix)
     trySkipTypeArgumentsInExpressionWithBacktracking + tsCanFollowTypeArgumentsInExpression -> CTryArgsExpr

   The Go functions are mutually recursive and loop; the model is one open
   functional [F] over a sum type of calls, iterated [run n] times (fuel).
   A lexer panic is [Fail]; fuel exhaustion is [Oof] (kept apart because the
   parser backtracks on panics).  Non-fatal logged errors ("Unexpected const",
   invalid variance modifiers) do not move the lexer and are not modelled.

   Every result is (code, remaining tokens); code is the Go function's own
   result where it has one (type parameters: 0 nothing / 1 could be cast /
   2 definitely; type arguments: 0/1; CPrefix: 1 = fall into the second loop,
   0 = the Go code returned from the function). *)
From V Require Import Common.Base C06.TsTokens.

Inductive call : Type :=
| CType (lvl : Z) (f : fl) (ts : toks)
| CPrefix (lvl : Z) (f : fl) (ts : toks)
| CSuffix (lvl : Z) (f : fl) (ts : toks)
| CTuple (ts : toks)
| CTemplate (ts : toks)
| CObject (ts : toks)
| CObjLoop (ts : toks)
| CParams (allowEmpty : bool) (ts : toks)
| CParamLoop (result : Z) (ts : toks)
| CParamMods (result : Z) (expId : bool) (ts : toks)
| CArgs (expr : bool) (ts : toks)
| CArgLoop (ts : toks)
| CFnArgs (ts : toks)
| CFnArgLoop (ts : toks)
| CBinding (ts : toks)
| CBindArr (ts : toks)
| CBindObj (ts : toks)
| CParenOrFn (ts : toks)
| CTryArgsExpr (ts : toks).

Definition R := res (Z * toks).
Definition ok0 (ts : toks) : R := Ok (0, ts).
Definition snd_of (x : R) : res toks := '(_, r) <- x ;; Ok r.

(* pure loops (no type is skipped inside them) *)
Fixpoint skip_keys (found : bool) (ts : toks) : bool * toks :=
  match ts with
  | (k, _) :: r =>
      if tk_ident_or_kw k || tk_eqb k KStr || tk_eqb k KNum then skip_keys true r else (found, ts)
  | [] => (found, ts)
  end.
Fixpoint skip_commas (ts : toks) : toks :=
  match ts with (KComma, _) :: r => skip_commas r | _ => ts end.
(* "typeof x.y.#z": the dotted tail *)
Fixpoint skip_dots (ts : toks) : res toks :=
  match ts with
  | (KDot, _) :: (k, _) :: r => if tk_ident_or_kw k || tk_eqb k KPrivate then skip_dots r else Fail
  | (KDot, _) :: [] => Fail
  | _ => Ok ts
  end.

Definition colon_or_q (ts : toks) : bool := is KColon ts || is KQuestion ts.
Definition colon_q_in (ts : toks) : bool := is KColon ts || is KQuestion ts || is KIn ts.

(* tsIsBinaryOperator / tsIsStartOfExpression / tsCanFollowTypeArgumentsInExpression
   restricted to the alphabet (allowIn = true; "await"/"yield" are not in the
   alphabet; KOther stands for operators and for end of file) *)
Definition can_follow_type_args (ts : toks) : bool :=
  match hd_tk ts with
  | KLParen | KNoSubst | KTplHead => true
  | KLt | KGt | KPlus | KMinus | KGtEq | KGtGt | KGtGtEq | KGtGtGt | KGtGtGtEq => false
  | k =>
      hd_nl ts
      || (* tsIsBinaryOperator *)
         (match k with
          | KIn | KBar | KAmp | KLtEq | KLtLt => true
          | KIdent c => (c =? c_as) || (c =? c_satisfies)
          | _ => false
          end)
      || negb (* tsIsStartOfExpression *)
           (match k with
            | KThis | KNull | KTrue | KFalse | KNum | KBig | KStr | KLBrack | KLBrace
            | KFunction | KNew | KIdent _ | KBang | KTypeof | KVoid | KPrivate
            | KIn | KBar | KAmp | KLtEq | KLtLt => true
            | KImport => is KLParen (tl ts) || is KLt (tl ts) || is KDot (tl ts)
            | _ => false
            end)
  end.

Section Functional.
Variable self : call -> R.

Definition type_at lvl f ts : res toks := snd_of (self (CType lvl f ts)).
Definition args_opt (ts : toks) : res toks :=
  if hd_nl ts then Ok ts else snd_of (self (CArgs false ts)).

(* the code shared by the identifier cases after the identifier itself *)
Definition ident_tail (chk : bool) (r : toks) : R :=
  if is_ctx c_is r && negb (hd_nl r) then
    r' <- type_at LLowest fl0 (tl r) ;; ok0 r'
  else if chk && negb (hd_nl r) then
    r' <- snd_of (self (CArgs false r)) ;; Ok (1, r')
  else Ok (1, r).

Definition F_prefix (lvl : Z) (f : fl) (ts : toks) : R :=
  match hd_tk ts with
  | KNum | KBig | KStr | KNoSubst | KTrue | KFalse | KNull | KVoid | KConst => Ok (1, tl ts)
  | KThis =>
      let r := tl ts in
      if is_ctx c_is r && negb (hd_nl r) then r' <- type_at LLowest fl0 (tl r) ;; ok0 r'
      else Ok (1, r)
  | KMinus =>
      let r := tl ts in
      if is KBig r then Ok (1, tl r) else r' <- expect KNum r ;; Ok (1, r')
  | KAmp => Ok (1, ts)                       (* "case js_lexer.TAmpersand:" has an empty body *)
  | KBar => self (CPrefix lvl f (tl ts))     (* continue *)
  | KImport =>
      let r := tl ts in
      if fTup f && colon_or_q r then ok0 r
      else
        r1 <- expect KLParen r ;;
        r2 <- expect KStr r1 ;;
        r3 <- (if is KComma r2 then
                 r' <- snd_of (self (CObject (tl r2))) ;;
                 Ok (if is KComma r' then tl r' else r')
               else Ok r2) ;;
        r4 <- expect KRParen r3 ;;
        Ok (1, r4)
  | KNew =>
      let r := tl ts in
      if fTup f && colon_or_q r then ok0 r
      else
        r1 <- snd_of (self (CParams false r)) ;;
        r2 <- snd_of (self (CParenOrFn r1)) ;;
        Ok (1, r2)
  | KLt =>
      r1 <- snd_of (self (CParams false ts)) ;;
      r2 <- snd_of (self (CParenOrFn r1)) ;;
      Ok (1, r2)
  | KLParen => r <- snd_of (self (CParenOrFn ts)) ;; Ok (1, r)
  | KIdent c =>
      let r := tl ts in
      match ident_kind c with
      | IkPrefix =>
          if negb (colon_q_in r) || (negb (fIdx f) && negb (fTup f)) then
            r' <- type_at LPrefix fl0 r ;; Ok (1, r')
          else Ok (1, r)
      | IkInfer =>
          if negb (colon_q_in r) || (negb (fIdx f) && negb (fTup f)) then
            r1 <- expect_ident r ;;
            if is KExtends r1 then
              (* trySkipTypeScriptConstraintOfInferTypeWithBacktracking *)
              match (r2 <- type_at LPrefix fl_nocond (tl r1) ;;
                     if negb (fNoCond f) && is KQuestion r2 then Fail else Ok r2) with
              | Ok r2 => Ok (1, r2)
              | Fail => Ok (1, r1)
              | Oof => Oof
              end
            else Ok (1, r1)
          else Ok (1, r)
      | IkUnique => if is_ctx c_symbol r then Ok (1, tl r) else ident_tail true r
      | IkAbstract => if is KNew r then self (CPrefix lvl f r) else ident_tail true r
      | IkAsserts =>
          let r' := if fRet f && negb (hd_nl r) && (is_ident r || is KThis r) then tl r else r in
          ident_tail true r'
      | IkPrimitive => ident_tail false r
      | IkNormal => ident_tail true r
      end
  | KTypeof =>
      let r := tl ts in
      if fTup f && colon_or_q r then ok0 r
      else if is KImport r then self (CPrefix lvl f r)
      else if negb (is_ident_or_kw r) then Fail
      else
        r2 <- skip_dots (tl r) ;;
        r3 <- args_opt r2 ;;
        Ok (1, r3)
  | KLBrack =>
      r1 <- snd_of (self (CTuple (tl ts))) ;;
      r2 <- expect KRBrack r1 ;;
      Ok (1, r2)
  | KLBrace => r <- snd_of (self (CObject ts)) ;; Ok (1, r)
  | KTplHead => r <- snd_of (self (CTemplate ts)) ;; Ok (1, r)
  | _ =>
      if fTup f && is_ident_or_kw ts then
        let r := tl ts in if colon_or_q r then ok0 r else Fail
      else Fail
  end.

Definition F_suffix (lvl : Z) (f : fl) (ts : toks) : R :=
  match hd_tk ts with
  | KBar =>
      if lvl >=? LBitOr then ok0 ts
      else r <- type_at LBitOr f (tl ts) ;; self (CSuffix lvl f r)
  | KAmp =>
      if lvl >=? LBitAnd then ok0 ts
      else r <- type_at LBitAnd f (tl ts) ;; self (CSuffix lvl f r)
  | KBang => if hd_nl ts then ok0 ts else self (CSuffix lvl f (tl ts))
  | KDot =>
      let r := tl ts in
      if negb (is_ident_or_kw r) then Fail
      else r2 <- args_opt (tl r) ;; self (CSuffix lvl f r2)
  | KLBrack =>
      if hd_nl ts then ok0 ts
      else
        let r := tl ts in
        r1 <- (if is KRBrack r then Ok r else type_at LLowest fl0 r) ;;
        r2 <- expect KRBrack r1 ;;
        self (CSuffix lvl f r2)
  | KExtends =>
      if hd_nl ts || fNoCond f then ok0 ts
      else
        r1 <- type_at LLowest fl_nocond (tl ts) ;;
        r2 <- expect KQuestion r1 ;;
        r3 <- type_at LLowest fl0 r2 ;;
        r4 <- expect KColon r3 ;;
        r5 <- type_at LLowest fl0 r4 ;;
        self (CSuffix lvl f r5)
  | _ => ok0 ts
  end.

Definition F_type (lvl : Z) (f : fl) (ts : toks) : R :=
  '(code, r) <- self (CPrefix lvl f ts) ;;
  if code =? 1 then self (CSuffix lvl f r) else ok0 r.

(* the element loop of a tuple type, entered after "[" ; the caller expects "]" *)
Definition F_tuple (ts : toks) : R :=
  if is KRBrack ts then ok0 ts
  else
    let r0 := if is KDotDotDot ts then tl ts else ts in
    r1 <- type_at LLowest fl_tup r0 ;;
    let r2 := if is KQuestion r1 then tl r1 else r1 in
    r3 <- (if is KColon r2 then type_at LLowest fl0 (tl r2) else Ok r2) ;;
    if is KComma r3 then self (CTuple (tl r3)) else ok0 r3.

(* at TTemplateHead / TTemplateMiddle: Next; type; rescan "}" *)
Definition F_template (ts : toks) : R :=
  r <- type_at LLowest fl0 (tl ts) ;;
  if is KTplTail r then ok0 (tl r)
  else if is KTplMid r then self (CTemplate r)
  else Fail.

Definition F_object (ts : toks) : R := r <- expect KLBrace ts ;; self (CObjLoop r).

Definition F_objloop (ts : toks) : R :=
  if is KRBrace ts then ok0 (tl ts)
  else
    let r0 := if is KPlus ts || is KMinus ts then tl ts else ts in
    let '(found, r1) := skip_keys false r0 in
    '(found2, r2) <-
      (if is KLBrack r1 then
         r <- type_at LLowest fl_idx (tl r1) ;;
         r' <- (if is KColon r then type_at LLowest fl0 (tl r)
                else if is KIn r then
                  x <- type_at LLowest fl0 (tl r) ;;
                  if is_ctx c_as x then type_at LLowest fl0 (tl x) else Ok x
                else Ok r) ;;
         r'' <- expect KRBrack r' ;;
         Ok (true, if is KPlus r'' || is KMinus r'' then tl r'' else r'')
       else Ok (found, r1)) ;;
    let r3 := if found2 && (is KQuestion r2 || is KBang r2) then tl r2 else r2 in
    r4 <- snd_of (self (CParams false r3)) ;;
    r5 <- (if is KColon r4 then (if found2 then type_at LLowest fl0 (tl r4) else Fail)
           else if is KLParen r4 then
             r <- snd_of (self (CFnArgs r4)) ;;
             if is KColon r then type_at LLowest fl_ret (tl r) else Ok r
           else if found2 then Ok r4 else Fail) ;;
    r6 <- (if is KRBrace r5 then Ok r5
           else if is KComma r5 || is KSemi r5 then Ok (tl r5)
           else if hd_nl r5 then Ok r5 else Fail) ;;
    self (CObjLoop r6).

Definition F_params (allowEmpty : bool) (ts : toks) : R :=
  if negb (is KLt ts) then ok0 ts
  else
    let r := tl ts in
    if allowEmpty && is KGt r then Ok (2, tl r)
    else
      '(code, r1) <- self (CParamLoop 1 r) ;;
      r2 <- expect_gt r1 ;;
      Ok (code, r2).

(* modifier scan: result code = result + 10 * expectIdentifier *)
Definition F_parammods (result : Z) (expId : bool) (ts : toks) : R :=
  if is KConst ts then self (CParamMods 2 true (tl ts))
  else if is KIn ts then self (CParamMods result true (tl ts))
  else if is_ctx c_out ts then self (CParamMods result false (tl ts))
  else Ok (result + (if expId then 10 else 0), ts).

Definition F_paramloop (result : Z) (ts : toks) : R :=
  '(code, r) <- self (CParamMods result true ts) ;;
  let expId := 10 <=? code in
  let res1 := if expId then code - 10 else code in
  r1 <- (if expId || is_ident r then expect_ident r else Ok r) ;;
  '(res2, r2) <- (if is KExtends r1 then r' <- type_at LLowest fl0 (tl r1) ;; Ok (2, r') else Ok (res1, r1)) ;;
  '(res3, r3) <- (if is KEq r2 then r' <- type_at LLowest fl0 (tl r2) ;; Ok (2, r') else Ok (res2, r2)) ;;
  if negb (is KComma r3) then Ok (res3, r3)
  else
    let r4 := tl r3 in
    if is KGt r4 then Ok (2, r4) else self (CParamLoop res3 r4).

Definition F_args (expr : bool) (ts : toks) : R :=
  match hd_tk ts with
  | KLt | KLtEq | KLtLt | KLtLtEq =>
      r0 <- expect_lt ts ;;
      r1 <- snd_of (self (CArgLoop r0)) ;;
      r2 <- (if expr then expect KGt r1 else expect_gt r1) ;;
      Ok (1, r2)
  | _ => ok0 ts
  end.

Definition F_argloop (ts : toks) : R :=
  r <- type_at LLowest fl0 ts ;;
  if is KComma r then self (CArgLoop (tl r)) else ok0 r.

Definition F_fnargs (ts : toks) : R := r <- expect KLParen ts ;; self (CFnArgLoop r).

Definition F_fnargloop (ts : toks) : R :=
  if is KRParen ts then ok0 (tl ts)
  else
    let r0 := if is KDotDotDot ts then tl ts else ts in
    r1 <- snd_of (self (CBinding r0)) ;;
    let r2 := if is KQuestion r1 then tl r1 else r1 in
    r3 <- (if is KColon r2 then type_at LLowest fl0 (tl r2) else Ok r2) ;;
    if is KComma r3 then self (CFnArgLoop (tl r3))
    else r4 <- expect KRParen r3 ;; ok0 r4.

Definition F_binding (ts : toks) : R :=
  match hd_tk ts with
  | KIdent _ | KThis => ok0 (tl ts)
  | KLBrack =>
      r1 <- snd_of (self (CBindArr (skip_commas (tl ts)))) ;;
      r2 <- expect KRBrack r1 ;; ok0 r2
  | KLBrace => self (CBindObj (tl ts))
  | _ => Fail
  end.

Definition F_bindarr (ts : toks) : R :=
  if is KRBrack ts then ok0 ts
  else
    let r0 := if is KDotDotDot ts then tl ts else ts in
    r1 <- snd_of (self (CBinding r0)) ;;
    if is KComma r1 then self (CBindArr (tl r1)) else ok0 r1.

Definition F_bindobj (ts : toks) : R :=
  if is KRBrace ts then ok0 (tl ts)
  else
    '(found, r) <-
      (match hd_tk ts with
       | KDotDotDot => let r := tl ts in if is_ident r then Ok (true, tl r) else Fail
       | KIdent _ => Ok (true, tl ts)
       | KStr | KNum => Ok (false, tl ts)
       | _ => if is_ident_or_kw ts then Ok (false, tl ts) else Fail
       end) ;;
    r1 <- (if is KColon r || negb found then
             r' <- expect KColon r ;; snd_of (self (CBinding r'))
           else Ok r) ;;
    if is KComma r1 then self (CBindObj (tl r1))
    else r2 <- expect KRBrace r1 ;; ok0 r2.

Definition F_parenorfn (ts : toks) : R :=
  match (r <- snd_of (self (CFnArgs ts)) ;; expect KArrow r) with
  | Ok r => r' <- type_at LLowest fl_ret r ;; ok0 r'
  | Fail =>
      r <- expect KLParen ts ;;
      r1 <- type_at LLowest fl0 r ;;
      r2 <- expect KRParen r1 ;; ok0 r2
  | Oof => Oof
  end.

(* trySkipTypeArgumentsInExpressionWithBacktracking: code 1 = the Go function
   returned true (also when there was no "<" at all), 0 = backtracked *)
Definition F_tryargsexpr (ts : toks) : R :=
  match ('(code, r) <- self (CArgs true ts) ;;
         if (code =? 1) && negb (can_follow_type_args r) then Fail else Ok r) with
  | Ok r => Ok (1, r)
  | Fail => Ok (0, ts)
  | Oof => Oof
  end.

Definition F (c : call) : R :=
  match c with
  | CType lvl f ts => F_type lvl f ts
  | CPrefix lvl f ts => F_prefix lvl f ts
  | CSuffix lvl f ts => F_suffix lvl f ts
  | CTuple ts => F_tuple ts
  | CTemplate ts => F_template ts
  | CObject ts => F_object ts
  | CObjLoop ts => F_objloop ts
  | CParams e ts => F_params e ts
  | CParamLoop r ts => F_paramloop r ts
  | CParamMods r e ts => F_parammods r e ts
  | CArgs e ts => F_args e ts
  | CArgLoop ts => F_argloop ts
  | CFnArgs ts => F_fnargs ts
  | CFnArgLoop ts => F_fnargloop ts
  | CBinding ts => F_binding ts
  | CBindArr ts => F_bindarr ts
  | CBindObj ts => F_bindobj ts
  | CParenOrFn ts => F_parenorfn ts
  | CTryArgsExpr ts => F_tryargsexpr ts
  end.
End Functional.

Fixpoint run (n : nat) (c : call) : R :=
  match n with
  | O => Oof
  | S n' => F (run n') c
  end.

(* fuel used by the executable entry points: every iteration of F either
   consumes a token or descends through a bounded chain of non-consuming
   calls (CType -> CPrefix -> CParenOrFn -> CFnArgs -> CFnArgLoop -> CBinding) *)
Definition fuel_for (ts : toks) : nat := 8 * length ts + 16.

Definition skip_type (lvl : Z) (f : fl) (ts : toks) : res toks :=
  snd_of (run (fuel_for ts) (CType lvl f ts)).
