(* C06: the skipper model consumes exactly a type of the grammar. *)
From V Require Import Common.Base C06.TsTokens C06.SkipType C06.SkipMono C06.TypeGrammar.

(* big-step view of the fuelled model: "evaluates to" for some (hence every
   larger) amount of fuel *)
Definition Ev (c : call) (r : Z * toks) : Prop := exists n, run n c = Ok r.

Lemma Ev_all c r : Ev c r -> exists N, forall m, (N <= m)%nat -> run m c = Ok r.
Proof.
  intros [n H]. exists n. intros m Hm. rewrite (run_mono n m c Hm); [exact H|]. rewrite H. discriminate.
Qed.

Lemma ev0 c r : (forall s, F s c = Ok r) -> Ev c r.
Proof. intros H. exists 1%nat. cbn [run]. apply H. Qed.

Lemma ev1 c c1 r1 r : Ev c1 r1 -> (forall s, s c1 = Ok r1 -> F s c = Ok r) -> Ev c r.
Proof.
  intros H1 H. apply Ev_all in H1 as [N1 H1]. exists (S N1). cbn [run]. apply H. apply H1. lia.
Qed.

Lemma ev2 c c1 r1 c2 r2 r : Ev c1 r1 -> Ev c2 r2 ->
  (forall s, s c1 = Ok r1 -> s c2 = Ok r2 -> F s c = Ok r) -> Ev c r.
Proof.
  intros H1 H2 H. apply Ev_all in H1 as [N1 H1]. apply Ev_all in H2 as [N2 H2].
  exists (S (N1 + N2)). cbn [run]. apply H; [apply H1|apply H2]; lia.
Qed.

Lemma ev3 c c1 r1 c2 r2 c3 r3 r : Ev c1 r1 -> Ev c2 r2 -> Ev c3 r3 ->
  (forall s, s c1 = Ok r1 -> s c2 = Ok r2 -> s c3 = Ok r3 -> F s c = Ok r) -> Ev c r.
Proof.
  intros H1 H2 H3 H. apply Ev_all in H1 as [N1 H1]. apply Ev_all in H2 as [N2 H2]. apply Ev_all in H3 as [N3 H3].
  exists (S (N1 + N2 + N3)). cbn [run]. apply H; [apply H1|apply H2|apply H3]; lia.
Qed.

Lemma ev4 c c1 r1 c2 r2 c3 r3 c4 r4 r : Ev c1 r1 -> Ev c2 r2 -> Ev c3 r3 -> Ev c4 r4 ->
  (forall s, s c1 = Ok r1 -> s c2 = Ok r2 -> s c3 = Ok r3 -> s c4 = Ok r4 -> F s c = Ok r) -> Ev c r.
Proof.
  intros H1 H2 H3 H4 H. apply Ev_all in H1 as [N1 H1]. apply Ev_all in H2 as [N2 H2].
  apply Ev_all in H3 as [N3 H3]. apply Ev_all in H4 as [N4 H4].
  exists (S (N1 + N2 + N3 + N4)). cbn [run]. apply H; [apply H1|apply H2|apply H3|apply H4]; lia.
Qed.

(* inversion of one step *)
Lemma Ev_inv c r : Ev c r -> exists n, F (run n) c = Ok r.
Proof. intros [[|n] H]; [discriminate|]. exists n. exact H. Qed.

Lemma Ev_run n c r : run n c = Ok r -> Ev c r.
Proof. intros H. exists n. exact H. Qed.

(* tokens on which every suffix loop stops *)
Definition stop_tk (k : tk) : bool :=
  match k with KBar | KAmp | KBang | KDot | KLBrack | KExtends => false | _ => true end.
Definition StopAll (post : toks) : Prop := stop_tk (hd_tk post) = true.

Lemma suffix_stop lvl f post : StopAll post -> Ev (CSuffix lvl f post) (0, post).
Proof.
  intros H. apply ev0. intros s. cbn [F]. unfold F_suffix, StopAll in *.
  destruct (hd_tk post); try discriminate; reflexivity.
Qed.

(* the loop at a higher level stops earlier; the rest of the work is done by
   the loop at the lower level *)
Lemma split n : forall lvl lvl' f f' post r,
  lvl <= lvl' -> fNoCond f' = fNoCond f -> (f' = f \/ LBitAnd <= lvl') ->
  run n (CSuffix lvl f post) = Ok (0, r) ->
  exists r1, Ev (CSuffix lvl' f' post) (0, r1) /\ Ev (CSuffix lvl f r1) (0, r).
Proof.
  induction n as [|n IH]; intros lvl lvl' f f' post r Hl Hnc Hf H; [discriminate|].
  cbn [run F] in H. unfold F_suffix in H.
  destruct (hd_tk post) eqn:Hk;
    try (exists post; split;
         [ apply ev0; intros s; cbn [F]; unfold F_suffix; rewrite Hk; reflexivity
         | inversion H; subst; apply ev0; intros s; cbn [F]; unfold F_suffix; rewrite Hk; reflexivity ]).
  - (* KAmp *)
    destruct (lvl >=? LBitAnd) eqn:E1.
    + inversion H; subst. exists r. split.
      * apply ev0. intros s. cbn [F]. unfold F_suffix. rewrite Hk.
        replace (lvl' >=? LBitAnd) with true by (unfold LBitAnd in *; lia). reflexivity.
      * apply ev0. intros s. cbn [F]. unfold F_suffix. rewrite Hk, E1. reflexivity.
    + destruct (lvl' >=? LBitAnd) eqn:E2.
      * exists post. split.
        -- apply ev0. intros s. cbn [F]. unfold F_suffix. rewrite Hk, E2. reflexivity.
        -- apply (Ev_run (S n)). cbn [run F]. unfold F_suffix. rewrite Hk, E1. exact H.
      * destruct Hf as [->|Hf]; [|unfold LBitAnd in *; lia].
        unfold type_at, snd_of, bind in H.
        destruct (run n (CType LBitAnd f (tl post))) as [| |[cd r2]] eqn:E3; try discriminate.
        destruct (IH _ lvl' f f _ _ Hl eq_refl (or_introl eq_refl) H) as [r1 [A B]].
        exists r1. split; [|exact B].
        eapply ev2; [apply (Ev_run _ _ _ E3)|exact A|].
        intros s H1 H2. cbn [F]. unfold F_suffix. rewrite Hk, E2. unfold type_at, snd_of, bind. rewrite H1. exact H2.
  - (* KBar *)
    destruct (lvl >=? LBitOr) eqn:E1.
    + inversion H; subst. exists r. split.
      * apply ev0. intros s. cbn [F]. unfold F_suffix. rewrite Hk.
        replace (lvl' >=? LBitOr) with true by (unfold LBitOr in *; lia). reflexivity.
      * apply ev0. intros s. cbn [F]. unfold F_suffix. rewrite Hk, E1. reflexivity.
    + destruct (lvl' >=? LBitOr) eqn:E2.
      * exists post. split.
        -- apply ev0. intros s. cbn [F]. unfold F_suffix. rewrite Hk, E2. reflexivity.
        -- apply (Ev_run (S n)). cbn [run F]. unfold F_suffix. rewrite Hk, E1. exact H.
      * destruct Hf as [->|Hf]; [|unfold LBitAnd, LBitOr in *; lia].
        unfold type_at, snd_of, bind in H.
        destruct (run n (CType LBitOr f (tl post))) as [| |[cd r2]] eqn:E3; try discriminate.
        destruct (IH _ lvl' f f _ _ Hl eq_refl (or_introl eq_refl) H) as [r1 [A B]].
        exists r1. split; [|exact B].
        eapply ev2; [apply (Ev_run _ _ _ E3)|exact A|].
        intros s H1 H2. cbn [F]. unfold F_suffix. rewrite Hk, E2. unfold type_at, snd_of, bind. rewrite H1. exact H2.
  - (* KLBrack *)
    destruct (hd_nl post) eqn:E1.
    + inversion H; subst. exists r. split; apply ev0; intros s; cbn [F]; unfold F_suffix; rewrite Hk, E1; reflexivity.
    + unfold type_at, snd_of, bind in H.
      destruct (is KRBrack (tl post)) eqn:E2.
      * destruct (expect KRBrack (tl post)) as [| |r2] eqn:E4; try discriminate.
        destruct (IH _ lvl' f f' _ _ Hl Hnc Hf H) as [rr [A B]]. exists rr. split; [|exact B].
        eapply ev1; [exact A|]. intros s H1. cbn [F]. unfold F_suffix. rewrite Hk, E1, E2. unfold bind. rewrite E4. exact H1.
      * destruct (run n (CType LLowest fl0 (tl post))) as [| |[cd1 r1]] eqn:E3; try discriminate.
        destruct (expect KRBrack r1) as [| |r2] eqn:E4; try discriminate.
        destruct (IH _ lvl' f f' _ _ Hl Hnc Hf H) as [rr [A B]]. exists rr. split; [|exact B].
        eapply ev2; [apply (Ev_run _ _ _ E3)|exact A|].
        intros s H1 H2. cbn [F]. unfold F_suffix. rewrite Hk, E1, E2. unfold type_at, snd_of, bind. rewrite H1, E4. exact H2.
  - (* KExtends *)
    destruct (hd_nl post || fNoCond f) eqn:E1.
    + inversion H; subst. exists r. split; apply ev0; intros s; cbn [F]; unfold F_suffix; rewrite Hk; [rewrite Hnc|]; rewrite E1; reflexivity.
    + unfold type_at, snd_of, bind in H.
      destruct (run n (CType LLowest fl_nocond (tl post))) as [| |[cd1 r1]] eqn:E3; try discriminate.
      destruct (expect KQuestion r1) as [| |r2] eqn:E4; try discriminate.
      destruct (run n (CType LLowest fl0 r2)) as [| |[cd3 r3]] eqn:E5; try discriminate.
      destruct (expect KColon r3) as [| |r4] eqn:E6; try discriminate.
      destruct (run n (CType LLowest fl0 r4)) as [| |[cd5 r5]] eqn:E7; try discriminate.
      destruct (IH _ lvl' f f' _ _ Hl Hnc Hf H) as [rr [A B]].
      exists rr. split; [|exact B].
      eapply ev4; [apply (Ev_run _ _ _ E3)|apply (Ev_run _ _ _ E5)|apply (Ev_run _ _ _ E7)|exact A|].
      intros s H1 H2 H3 H4. cbn [F]. unfold F_suffix. rewrite Hk, Hnc, E1. unfold type_at, snd_of, bind.
      rewrite H1, E4, H2, E6, H3. exact H4.
  - (* KDot *)
    destruct (negb (is_ident_or_kw (tl post))) eqn:E1; try discriminate.
    unfold args_opt, snd_of, bind in H.
    destruct (hd_nl (tl (tl post))) eqn:E2.
    + destruct (IH _ lvl' f f' _ _ Hl Hnc Hf H) as [rr [A B]]. exists rr. split; [|exact B].
      eapply ev1; [exact A|]. intros s H1. cbn [F]. unfold F_suffix. rewrite Hk, E1. unfold args_opt. rewrite E2. exact H1.
    + destruct (run n (CArgs false (tl (tl post)))) as [| |[cd1 r1]] eqn:E3; try discriminate.
      destruct (IH _ lvl' f f' _ _ Hl Hnc Hf H) as [rr [A B]]. exists rr. split; [|exact B].
      eapply ev2; [apply (Ev_run _ _ _ E3)|exact A|].
      intros s H1 H2. cbn [F]. unfold F_suffix. rewrite Hk, E1. unfold args_opt, snd_of, bind. rewrite E2, H1. exact H2.
  - (* KBang *)
    destruct (hd_nl post) eqn:E1.
    + inversion H; subst. exists r. split; apply ev0; intros s; cbn [F]; unfold F_suffix; rewrite Hk, E1; reflexivity.
    + destruct (IH _ lvl' f f' _ _ Hl Hnc Hf H) as [rr [A B]]. exists rr. split; [|exact B].
      eapply ev1; [exact A|]. intros s H1. cbn [F]. unfold F_suffix. rewrite Hk, E1. exact H1.
Qed.

Lemma type_of_prefix lvl f ts r1 r :
  Ev (CPrefix lvl f ts) (1, r1) -> Ev (CSuffix lvl f r1) (0, r) -> Ev (CType lvl f ts) (0, r).
Proof.
  intros H1 H2. eapply ev2; [exact H1|exact H2|]. intros s A B. cbn [F]. unfold F_type, bind. rewrite A. cbn. exact B.
Qed.
Lemma type_of_prefix0 lvl f ts r1 :
  Ev (CPrefix lvl f ts) (0, r1) -> Ev (CType lvl f ts) (0, r1).
Proof.
  intros H1. eapply ev1; [exact H1|]. intros s A. cbn [F]. unfold F_type, bind. rewrite A. reflexivity.
Qed.

Definition lt_tk (k : tk) : bool := match k with KLt | KLtEq | KLtLt | KLtLtEq => true | _ => false end.
Definition no_is (post : toks) : bool := negb (is_ctx c_is post && negb (hd_nl post)).
Definition no_lt (post : toks) : bool := hd_nl post || negb (lt_tk (hd_tk post)).

Fixpoint lvl_ok (t : ty) (lvl : Z) : bool :=
  match t with
  | TUnion _ _ => lvl <? LBitOr
  | TInter _ _ => lvl <? LBitAnd
  | TCond c _ _ _ => lvl_ok c lvl
  | _ => true
  end.

Fixpoint tail_ok (t : ty) (post : toks) : bool :=
  match t with
  | TPrim | TThis => no_is post
  | TRef _ _ [] => no_is post && no_lt post
  | TTypeof _ _ [] => no_lt post && negb (is KDot post)
  | TImport _ (_ :: _) [] => no_lt post
  | TInfer _ => negb (is KExtends post)
  | TParen _ => negb (is KArrow post)
  | TUnion _ b | TInter _ b | TKeyof _ b | TCond _ _ _ b | TPred _ b | TFn _ _ _ b => tail_ok b post
  | TAsserts _ h b => if h then tail_ok b post else no_is post && no_lt post
  | _ => true
  end.

Definition harmless (k : tk) : bool :=
  match k with
  | KIdent c => negb (c =? c_is)
  | KLt | KLtEq | KLtLt | KLtLtEq | KDot | KExtends | KArrow => false
  | _ => true
  end.

Lemma tail_ok_harmless t : forall post, harmless (hd_tk post) = true -> tail_ok t post = true.
Proof.
  induction t; intros post H; cbn [tail_ok]; auto;
    try (destruct q); try (destruct args); try (destruct hasis); auto;
    unfold no_is, no_lt, is_ctx, is, hd_tk in *; destruct post as [|[k n] p]; cbn in *; auto;
    destruct k; cbn in *; try discriminate; auto; rewrite ?orb_true_r, ?andb_true_r; auto;
    unfold tk_eqb; destruct (tk_eq_dec (KIdent i) (KIdent c_is)) as [E|E]; auto;
    inversion E; subst; discriminate.
Qed.

Lemma tail_ok_extends t : forall post, hd_tk post = KExtends -> ends_infer t = false -> tail_ok t post = true.
Proof.
  induction t; intros post H E; cbn [tail_ok ends_infer] in *; auto; try discriminate;
    try (destruct q); try (destruct args); try (destruct hasis); auto;
    unfold no_is, no_lt, is_ctx, is, hd_tk in *; destruct post as [|[k n] p]; cbn in *; subst; auto;
    cbn; rewrite ?orb_true_r; reflexivity.
Qed.

Lemma Ev_det c r1 r2 : Ev c r1 -> Ev c r2 -> r1 = r2.
Proof.
  intros H1 H2. apply Ev_all in H1 as [N1 H1]. apply Ev_all in H2 as [N2 H2].
  specialize (H1 (N1 + N2)%nat ltac:(lia)). specialize (H2 (N1 + N2)%nat ltac:(lia)). congruence.
Qed.

Lemma ident_kind_normal c : normal c = true -> ident_kind c = IkNormal.
Proof.
  unfold normal, ident_kind, c_keyof, c_readonly, c_unique, c_abstract, c_asserts, c_infer, c_symbol, c_prim.
  intros H. repeat match goal with |- context [?a =? ?b] => replace (a =? b) with false by lia end. reflexivity.
Qed.

Definition start_tk (k : tk) : bool :=
  match k with
  | KRBrack | KRBrace | KRParen | KColon | KQuestion | KIn | KComma | KDotDotDot | KTplMid | KTplTail | KPlus | KMinus => false
  | _ => true
  end.

Lemma nc_ok_prec4 t : 4 <= prec t -> nc_ok t = true.
Proof. destruct t; cbn; intros; try reflexivity; lia. Qed.

Lemma lvl_ok_prec t l : 3 <= prec t -> lvl_ok t l = true.
Proof. destruct t; cbn; intros; try reflexivity; lia. Qed.

Lemma lvl_ok_lowest t : lvl_ok t LLowest = true.
Proof. induction t; cbn; auto. Qed.

Lemma prec_cases t : wfb t = true -> 4 <= prec t -> lvl_ok t LLowest = true.
Proof. intros. apply lvl_ok_lowest. Qed.

Section Main.
Variable mg : bool.
Notation R := (R mg).

Lemma R_hd t : wfb t = true -> forall post, start_tk (hd_tk (R t post)) = true.
Proof.
  induction t; intros W post; cbn [R wfb] in *; try reflexivity; try discriminate;
    repeat match goal with H : _ && _ = true |- _ => apply andb_true_iff in H as [? ?] end; auto.
  all: try (destruct k; try discriminate; reflexivity).
  all: try (destruct ro; reflexivity).
  all: try (destruct tof; reflexivity).
  all: try (unfold bind_tk; destruct (x <? 0); reflexivity).
  all: try (destruct (kind =? 2); [reflexivity|destruct (kind =? 1); [reflexivity|destruct tps; reflexivity]]).
Qed.

Lemma not_is_of_start t k post : wfb t = true -> start_tk k = false -> is k (R t post) = false.
Proof.
  intros W Hk. pose proof (R_hd t W post) as Hh. unfold is, hd_tk in *.
  destruct (R t post) as [|[k' n] p]; auto. unfold tk_eqb. destruct (tk_eq_dec k' k); auto. subst. congruence.
Qed.

Definition Kst (t : ty) : Prop :=
  wfb t = true ->
  forall lvl f post r,
    lvl <= LPrefix ->
    lvl_ok t lvl = true ->
    (fNoCond f = true -> nc_ok t = true) ->
    tail_ok t post = true ->
    (prec t = 0 -> StopAll post) ->
    Ev (CSuffix lvl f post) (0, r) ->
    Ev (CType lvl f (R t post)) (0, r).

(* the form used at delimited positions *)
Lemma K_delim t : Kst t -> wfb t = true ->
  forall f post, fNoCond f = false -> StopAll post -> tail_ok t post = true ->
  Ev (CType LLowest f (R t post)) (0, post).
Proof.
  intros K W f post Hf Hs Ht. apply K; auto.
  - unfold LLowest, LPrefix. lia.
  - apply lvl_ok_lowest.
  - congruence.
  - apply suffix_stop. exact Hs.
Qed.

Lemma K_prim : Kst TPrim.
Proof.
  intros _ lvl f post r _ _ _ Ht _ Hs. cbn [R]. eapply type_of_prefix; [|exact Hs].
  apply ev0. intros s. cbn [F]. unfold F_prefix. cbn [hd_tk tk1 fst].
  change (ident_kind c_prim) with IkPrimitive. cbn iota. unfold ident_tail. cbn [tl].
  cbn [tail_ok] in Ht. unfold no_is in Ht. apply negb_true_iff in Ht. rewrite Ht. reflexivity.
Qed.

Lemma K_lit k : Kst (TLit k).
Proof.
  intros W lvl f post r _ _ _ Ht _ Hs. cbn [R]. eapply type_of_prefix; [|exact Hs].
  apply ev0. intros s. cbn [F]. unfold F_prefix. cbn in W. destruct k; try discriminate; reflexivity.
Qed.

Lemma K_this : Kst TThis.
Proof.
  intros _ lvl f post r _ _ _ Ht _ Hs. cbn [R]. eapply type_of_prefix; [|exact Hs].
  apply ev0. intros s. cbn [F]. unfold F_prefix. cbn [hd_tk tk1 fst tl].
  cbn [tail_ok] in Ht. unfold no_is in Ht. apply negb_true_iff in Ht. rewrite Ht. reflexivity.
Qed.

Lemma K_unique : Kst TUnique.
Proof.
  intros _ lvl f post r _ _ _ Ht _ Hs. cbn [R]. eapply type_of_prefix; [|exact Hs].
  apply ev0. intros s. cbn [F]. unfold F_prefix. cbn [hd_tk tk1 fst tl].
  change (ident_kind c_unique) with IkUnique. cbn iota. reflexivity.
Qed.

Lemma K_infer x : Kst (TInfer x).
Proof.
  intros W lvl f post r _ _ _ Ht _ Hs. cbn [R]. eapply type_of_prefix; [|exact Hs].
  apply ev0. intros s. cbn [F]. unfold F_prefix. cbn [hd_tk tk1 fst tl].
  change (ident_kind c_infer) with IkInfer. cbn iota.
  cbn [tail_ok] in Ht. apply negb_true_iff in Ht.
  cbn. rewrite Ht. reflexivity.
Qed.

Lemma suffix_bracket_empty lvl f post r :
  Ev (CSuffix lvl f post) (0, r) -> Ev (CSuffix lvl f (tk1 KLBrack :: tk1 KRBrack :: post)) (0, r).
Proof. intros H. eapply ev1; [exact H|]. intros s A. cbn [F]. unfold F_suffix. cbn. exact A. Qed.

Lemma K_arr t : Kst t -> Kst (TArr t).
Proof.
  intros K W lvl f post r Hl _ Hf Ht _ Hs. cbn [R wfb] in *.
  apply andb_true_iff in W as [W Hp].
  apply K; auto.
  - apply lvl_ok_prec. lia.
  - intros _. apply nc_ok_prec4. lia.
  - apply tail_ok_harmless. reflexivity.
  - intros E. lia.
  - apply suffix_bracket_empty. exact Hs.
Qed.

Lemma K_idx t u : Kst t -> Kst u -> Kst (TIdx t u).
Proof.
  intros K Ku W lvl f post r Hl _ Hf Ht _ Hs. cbn [R wfb] in *.
  apply andb_true_iff in W as [W Wu]. apply andb_true_iff in W as [W Hp].
  apply K; auto.
  - apply lvl_ok_prec. lia.
  - intros _. apply nc_ok_prec4. lia.
  - apply tail_ok_harmless. reflexivity.
  - intros E. lia.
  - eapply ev2; [apply (K_delim u Ku Wu fl0 (tk1 KRBrack :: post)); [reflexivity|reflexivity|apply tail_ok_harmless; reflexivity]|exact Hs|].
    intros s A B. cbn [F]. unfold F_suffix. cbn [hd_tk tk1 fst hd_nl snd tl].
    rewrite (not_is_of_start u KRBrack _ Wu eq_refl).
    unfold type_at, snd_of, bind. rewrite A. cbn. exact B.
Qed.

Lemma K_union a b : Kst a -> Kst b -> Kst (TUnion a b).
Proof.
  intros Ka Kb W lvl f post r Hl Hlv Hf Ht _ Hs. cbn [R wfb lvl_ok tail_ok prec] in *.
  repeat match goal with H : _ && _ = true |- _ => apply andb_true_iff in H as [? ?] end.
  assert (Hfa : fNoCond f = true -> nc_ok a = true) by (intros E; specialize (Hf E); apply andb_true_iff in Hf; tauto).
  assert (Hfb : fNoCond f = true -> nc_ok b = true) by (intros E; specialize (Hf E); apply andb_true_iff in Hf; tauto).
  destruct Hs as [n Hs].
  destruct (split n lvl LBitOr f f post r ltac:(unfold LBitOr in *; lia) eq_refl (or_introl eq_refl) Hs) as [r1 [A B]].
  apply Ka; auto.
  - destruct a; cbn in *; auto; unfold LBitOr, LBitAnd in *; try lia.
  - apply tail_ok_harmless. reflexivity.
  - intros E. lia.
  - eapply (ev2 _ (CType LBitOr f (R b post)) (0, r1) (CSuffix lvl f r1) (0, r)); [|exact B|].
    + apply Kb; auto; try (unfold LBitOr, LBitAnd, LPrefix in *; lia); try (intros; congruence); try (intros; lia).
      destruct b; cbn in *; auto; unfold LBitOr, LBitAnd in *; try lia.
    + intros s E1 E2. cbn [F]. unfold F_suffix. cbn [hd_tk tk1 fst tl].
      replace (lvl >=? LBitOr) with false by lia. unfold type_at, snd_of, bind. rewrite E1. exact E2.
Qed.

Lemma K_inter a b : Kst a -> Kst b -> Kst (TInter a b).
Proof.
  intros Ka Kb W lvl f post r Hl Hlv Hf Ht _ Hs. cbn [R wfb lvl_ok tail_ok prec] in *.
  repeat match goal with H : _ && _ = true |- _ => apply andb_true_iff in H as [? ?] end.
  assert (Hfa : fNoCond f = true -> nc_ok a = true) by (intros E; specialize (Hf E); apply andb_true_iff in Hf; tauto).
  assert (Hfb : fNoCond f = true -> nc_ok b = true) by (intros E; specialize (Hf E); apply andb_true_iff in Hf; tauto).
  destruct Hs as [n Hs].
  destruct (split n lvl LBitAnd f f post r ltac:(unfold LBitAnd in *; lia) eq_refl (or_introl eq_refl) Hs) as [r1 [A B]].
  apply Ka; auto.
  - destruct a; cbn in *; auto; unfold LBitOr, LBitAnd in *; try lia.
  - apply tail_ok_harmless. reflexivity.
  - intros E. lia.
  - eapply (ev2 _ (CType LBitAnd f (R b post)) (0, r1) (CSuffix lvl f r1) (0, r)); [|exact B|].
    + apply Kb; auto; try (unfold LBitOr, LBitAnd, LPrefix in *; lia); try (intros; congruence); try (intros; lia).
      destruct b; cbn in *; auto; unfold LBitOr, LBitAnd in *; try lia.
    + intros s E1 E2. cbn [F]. unfold F_suffix. cbn [hd_tk tk1 fst tl].
      replace (lvl >=? LBitAnd) with false by lia. unfold type_at, snd_of, bind. rewrite E1. exact E2.
Qed.

Lemma K_keyof ro t : Kst t -> Kst (TKeyof ro t).
Proof.
  intros K W lvl f post r Hl _ Hf Ht _ Hs. cbn [R wfb tail_ok prec] in *.
  apply andb_true_iff in W as [W Hp].
  assert (Hnc : fNoCond f = false) by (destruct (fNoCond f); auto; specialize (Hf eq_refl); discriminate).
  destruct Hs as [n Hs].
  assert (HL : LBitAnd <= LPrefix) by (unfold LBitAnd, LPrefix; lia).
  destruct (split n lvl LPrefix f fl0 post r Hl (eq_sym Hnc) (or_intror HL) Hs) as [r1 [A B]].
  eapply type_of_prefix; [|exact B].
  eapply (ev1 _ (CType LPrefix fl0 (R t post)) (0, r1)).
  - apply K; auto; try (unfold LPrefix; lia); try (intros; discriminate); try (intros; lia).
    apply lvl_ok_prec. lia.
  - intros s E1. cbn [F]. unfold F_prefix. cbn [hd_tk tk1 fst tl].
    assert (Hc : colon_q_in (R t post) = false).
    { unfold colon_q_in. rewrite !(not_is_of_start t _ _ W) by reflexivity. reflexivity. }
    destruct ro; [change (ident_kind c_readonly) with IkPrefix | change (ident_kind c_keyof) with IkPrefix];
      cbn iota; rewrite Hc; cbn [negb orb]; unfold type_at, snd_of, bind; rewrite E1; reflexivity.
Qed.

(* the extends operand of a conditional type, skipped with disallowConditionalTypes *)
Lemma extends_operand e Q :
  (match e with TInferC _ c' => Kst c' | _ => Kst e end) ->
  (match e with TInferC x c' => normal x && wfb c' && (4 <=? prec c') | _ => wfb e && (1 <=? prec e) && nc_ok e end) = true ->
  Ev (CType LLowest fl_nocond (R e (tk1 KQuestion :: Q))) (0, tk1 KQuestion :: Q).
Proof.
  intros Ke We.
  assert (Hgen : forall e', Kst e' -> wfb e' && (1 <=? prec e') && nc_ok e' = true ->
            Ev (CType LLowest fl_nocond (R e' (tk1 KQuestion :: Q))) (0, tk1 KQuestion :: Q)).
  { intros e' K W. apply andb_true_iff in W as [W N]. apply andb_true_iff in W as [W P].
    apply K; auto; try (unfold LLowest, LPrefix; lia); try (intros; lia).
    - apply lvl_ok_lowest.
    - apply tail_ok_harmless. reflexivity.
    - apply suffix_stop. reflexivity. }
  destruct e; try (apply Hgen; assumption).
  (* infer x extends c' *)
  apply andb_true_iff in We as [We Hp]. apply andb_true_iff in We as [Hx Wc].
  cbn [R].
  assert (HC : Ev (CType LPrefix fl_nocond (R e (tk1 KQuestion :: Q))) (0, tk1 KQuestion :: Q)).
  { apply Ke; auto; try (unfold LPrefix; lia); try (intros; lia).
    - apply lvl_ok_prec. lia.
    - intros _. apply nc_ok_prec4. lia.
    - apply tail_ok_harmless. reflexivity.
    - apply suffix_stop. reflexivity. }
  eapply type_of_prefix; [|apply suffix_stop; reflexivity].
  eapply ev1; [exact HC|]. intros s E1. cbn [F]. unfold F_prefix. cbn [hd_tk tk1 fst tl].
  change (ident_kind c_infer) with IkInfer. cbn iota.
  assert (X1 : colon_q_in ((KIdent x, false) :: (KExtends, false) :: R e (tk1 KQuestion :: Q)) = false) by reflexivity.
  change (tk1 (KIdent x) :: tk1 KExtends :: R e (tk1 KQuestion :: Q)) with ((KIdent x, false) :: (KExtends, false) :: R e (tk1 KQuestion :: Q)).
  rewrite X1. cbn [negb orb].
  assert (X2 : expect_ident ((KIdent x, false) :: (KExtends, false) :: R e (tk1 KQuestion :: Q)) = Ok ((KExtends, false) :: R e (tk1 KQuestion :: Q))) by reflexivity.
  rewrite X2. unfold bind at 1. cbn iota beta.
  assert (X3 : is KExtends ((KExtends, false) :: R e (tk1 KQuestion :: Q)) = true) by reflexivity. rewrite X3. cbn [tl].
  unfold type_at, snd_of, bind. rewrite E1. cbn iota beta. reflexivity.
Qed.

Lemma K_cond c e a b : Kst c -> (match e with TInferC _ c' => Kst c' | _ => Kst e end) -> Kst a -> Kst b -> Kst (TCond c e a b).
Proof.
  intros Kc Ke Ka Kb W lvl f post r Hl Hlv Hf Ht Hst Hs. cbn [R wfb tail_ok prec lvl_ok] in *.
  repeat match goal with H : _ && _ = true |- _ => apply andb_true_iff in H as [? ?] end.
  assert (Hnc : fNoCond f = false) by (destruct (fNoCond f); auto; specialize (Hf eq_refl); discriminate).
  specialize (Hst eq_refl).
  apply Kc; auto; try (intros; congruence); try (intros; lia).
  - apply tail_ok_extends; [reflexivity|]. apply negb_true_iff. assumption.
  - eapply (ev4 _ (CType LLowest fl_nocond (R e (tk1 KQuestion :: R a (tk1 KColon :: R b post)))) (0, tk1 KQuestion :: R a (tk1 KColon :: R b post))
                  (CType LLowest fl0 (R a (tk1 KColon :: R b post))) (0, tk1 KColon :: R b post)
                  (CType LLowest fl0 (R b post)) (0, post)
                  (CSuffix lvl f post) (0, r)).
    + apply extends_operand; assumption.
    + apply K_delim; auto. reflexivity. apply tail_ok_harmless. reflexivity.
    + apply K_delim; auto.
    + exact Hs.
    + intros s E1 E2 E3 E4. cbn [F]. unfold F_suffix. cbn [hd_tk tk1 fst tl hd_nl snd]. rewrite Hnc. cbn [orb].
      unfold type_at, snd_of, bind. rewrite E1. cbn. rewrite E2. cbn. rewrite E3. exact E4.
Qed.

Lemma K_pred x t : Kst t -> Kst (TPred x t).
Proof.
  intros K W lvl f post r Hl _ Hf Ht Hst Hs. cbn [R wfb tail_ok prec] in *.
  apply andb_true_iff in W as [Hx W]. specialize (Hst eq_refl).
  assert (r = post) as ->.
  { pose proof (Ev_det _ _ _ Hs (suffix_stop lvl f post Hst)) as E. congruence. }
  apply type_of_prefix0.
  eapply (ev1 _ (CType LLowest fl0 (R t post)) (0, post)).
  - apply K_delim; auto.
  - intros s E1. cbn [F]. unfold F_prefix, bind_tk, bind_ok in *. destruct (x <? 0).
    + cbn [hd_tk tk1 fst tl]. cbn. unfold type_at, snd_of, bind. rewrite E1. reflexivity.
    + cbn [hd_tk tk1 fst tl]. cbn [orb] in Hx. rewrite (ident_kind_normal x Hx). cbn iota. unfold ident_tail. cbn.
      unfold type_at, snd_of, bind. rewrite E1. reflexivity.
Qed.

Lemma push_gt_ok post :
  StopAll (push_gt mg post) /\ harmless (hd_tk (push_gt mg post)) = true /\
  is KComma (push_gt mg post) = false /\ expect_gt (push_gt mg post) = Ok post.
Proof.
  unfold push_gt, StopAll. destruct mg; [|repeat split; reflexivity].
  destruct post as [|[k n] p]; [repeat split; reflexivity|].
  destruct k; destruct n; repeat split; reflexivity.
Qed.

Lemma args_loop : forall args, args <> [] -> Forall Kst args -> forallb wfb args = true ->
  forall post', StopAll post' -> harmless (hd_tk post') = true -> is KComma post' = false ->
  Ev (CArgLoop (join [tk1 KComma] (map R args) post')) (0, post').
Proof.
  induction args as [|x l IH]; intros Hne HK W post' Hs Hh Hc; [congruence|].
  inversion HK as [|? ? Kx Kl]; subst. cbn [forallb] in W. apply andb_true_iff in W as [Wx Wl].
  destruct l as [|y l'].
  - cbn [map join]. eapply (ev1 _ (CType LLowest fl0 (R x post')) (0, post')).
    + apply K_delim; auto. apply tail_ok_harmless. exact Hh.
    + intros s E1. cbn [F]. unfold F_argloop, type_at, snd_of, bind. rewrite E1. rewrite Hc. reflexivity.
  - change (join [tk1 KComma] (map R (x :: y :: l')) post') with (R x (tk1 KComma :: join [tk1 KComma] (map R (y :: l')) post')).
    eapply (ev2 _ (CType LLowest fl0 (R x (tk1 KComma :: join [tk1 KComma] (map R (y :: l')) post'))) (0, tk1 KComma :: join [tk1 KComma] (map R (y :: l')) post')
                  (CArgLoop (join [tk1 KComma] (map R (y :: l')) post')) (0, post')).
    + apply K_delim; auto. reflexivity. apply tail_ok_harmless. reflexivity.
    + apply IH; auto. discriminate.
    + intros s E1 E2. cbn [F]. unfold F_argloop, type_at, snd_of, bind. rewrite E1. cbn. exact E2.
Qed.

End Main.
