(* Fuel monotonicity of the skipper model: once [run n c] is not [Oof], every
   larger fuel gives the same result.  Proved body by body. *)
From V Require Import Common.Base C06.TsTokens C06.SkipType.

Definition le (s s' : call -> R) : Prop := forall c, s c <> Oof -> s' c = s c.

Ltac unf := cbv beta delta [bind snd_of type_at args_opt ident_tail ok0] iota.

(* destruct pure scrutinees (not mentioning s / s') *)
Ltac pure_step s s' :=
  match goal with
  | |- context [match ?x with _ => _ end] =>
      lazymatch x with
      | context [s] => fail
      | context [s'] => fail
      | _ => destruct x eqn:?
      end
  end.

Ltac self_step s s' Hle :=
  match goal with
  | |- ?L <> Oof -> _ =>
      match L with
      | context [s ?c] =>
          let E := fresh "E" in
          destruct (s c) as [| | [? ?]] eqn:E;
          [ let Hne := fresh in intro Hne; exfalso; apply Hne; reflexivity
          | rewrite (Hle c) by (rewrite E; discriminate); rewrite ?E; unf
          | rewrite (Hle c) by (rewrite E; discriminate); rewrite ?E; unf ]
      end
  end.

Ltac finish := try (intros _; reflexivity); try (intros H; exfalso; apply H; reflexivity).

Ltac mono s s' Hle :=
  unf; repeat (first [ progress finish | pure_step s s'; unf | self_step s s' Hle ]).

Section Mono.
Variables s s' : call -> R.
Hypothesis Hle : le s s'.

Lemma F_suffix_mono lvl f ts : F_suffix s lvl f ts <> Oof -> F_suffix s' lvl f ts = F_suffix s lvl f ts.
Proof. unfold F_suffix. mono s s' Hle. all: try (apply Hle). Qed.

Lemma F_prefix_mono lvl f ts : F_prefix s lvl f ts <> Oof -> F_prefix s' lvl f ts = F_prefix s lvl f ts.
Proof. unfold F_prefix. mono s s' Hle. all: try (apply Hle). Qed.

Lemma F_type_mono lvl f ts : F_type s lvl f ts <> Oof -> F_type s' lvl f ts = F_type s lvl f ts.
Proof. unfold F_type. mono s s' Hle. all: try (apply Hle). Qed.

Lemma F_tuple_mono ts : F_tuple s ts <> Oof -> F_tuple s' ts = F_tuple s ts.
Proof. unfold F_tuple. mono s s' Hle. all: try (apply Hle). Qed.

Lemma F_template_mono ts : F_template s ts <> Oof -> F_template s' ts = F_template s ts.
Proof. unfold F_template. mono s s' Hle. all: try (apply Hle). Qed.

Lemma F_object_mono ts : F_object s ts <> Oof -> F_object s' ts = F_object s ts.
Proof. unfold F_object. mono s s' Hle. all: try (apply Hle). Qed.

Lemma F_objloop_mono ts : F_objloop s ts <> Oof -> F_objloop s' ts = F_objloop s ts.
Proof. unfold F_objloop. mono s s' Hle. all: try (apply Hle). Qed.

Lemma F_params_mono e ts : F_params s e ts <> Oof -> F_params s' e ts = F_params s e ts.
Proof. unfold F_params. mono s s' Hle. all: try (apply Hle). Qed.

Lemma F_paramloop_mono r ts : F_paramloop s r ts <> Oof -> F_paramloop s' r ts = F_paramloop s r ts.
Proof. unfold F_paramloop. mono s s' Hle. all: try (apply Hle). Qed.

Lemma F_parammods_mono r e ts : F_parammods s r e ts <> Oof -> F_parammods s' r e ts = F_parammods s r e ts.
Proof. unfold F_parammods. mono s s' Hle. all: try (apply Hle). Qed.

Lemma F_args_mono e ts : F_args s e ts <> Oof -> F_args s' e ts = F_args s e ts.
Proof. unfold F_args. mono s s' Hle. all: try (apply Hle). Qed.

Lemma F_argloop_mono ts : F_argloop s ts <> Oof -> F_argloop s' ts = F_argloop s ts.
Proof. unfold F_argloop. mono s s' Hle. all: try (apply Hle). Qed.

Lemma F_fnargs_mono ts : F_fnargs s ts <> Oof -> F_fnargs s' ts = F_fnargs s ts.
Proof. unfold F_fnargs. mono s s' Hle. all: try (apply Hle). Qed.

Lemma F_fnargloop_mono ts : F_fnargloop s ts <> Oof -> F_fnargloop s' ts = F_fnargloop s ts.
Proof. unfold F_fnargloop. mono s s' Hle. all: try (apply Hle). Qed.

Lemma F_binding_mono ts : F_binding s ts <> Oof -> F_binding s' ts = F_binding s ts.
Proof. unfold F_binding. mono s s' Hle. all: try (apply Hle). Qed.

Lemma F_bindarr_mono ts : F_bindarr s ts <> Oof -> F_bindarr s' ts = F_bindarr s ts.
Proof. unfold F_bindarr. mono s s' Hle. all: try (apply Hle). Qed.

Lemma F_bindobj_mono ts : F_bindobj s ts <> Oof -> F_bindobj s' ts = F_bindobj s ts.
Proof. unfold F_bindobj. mono s s' Hle. all: try (apply Hle). Qed.

Lemma F_parenorfn_mono ts : F_parenorfn s ts <> Oof -> F_parenorfn s' ts = F_parenorfn s ts.
Proof. unfold F_parenorfn. mono s s' Hle. all: try (apply Hle). Qed.

Lemma F_tryargsexpr_mono ts : F_tryargsexpr s ts <> Oof -> F_tryargsexpr s' ts = F_tryargsexpr s ts.
Proof. unfold F_tryargsexpr. mono s s' Hle. all: try (apply Hle). Qed.

Lemma F_mono c : F s c <> Oof -> F s' c = F s c.
Proof.
  destruct c; cbn [F];
  auto using F_suffix_mono, F_prefix_mono, F_type_mono, F_tuple_mono, F_template_mono, F_object_mono,
    F_objloop_mono, F_params_mono, F_paramloop_mono, F_parammods_mono, F_args_mono, F_argloop_mono,
    F_fnargs_mono, F_fnargloop_mono, F_binding_mono, F_bindarr_mono, F_bindobj_mono, F_parenorfn_mono,
    F_tryargsexpr_mono.
Qed.
End Mono.

Lemma run_le n : le (run n) (run (S n)).
Proof.
  induction n as [|n IH]; intros c H.
  - exfalso. apply H. reflexivity.
  - cbn [run] in *. apply F_mono; assumption.
Qed.

Lemma run_mono n m c : (n <= m)%nat -> run n c <> Oof -> run m c = run n c.
Proof.
  intros Hnm. induction Hnm as [|m Hnm IH]; intros H.
  - reflexivity.
  - rewrite <- (IH H). apply run_le. rewrite (IH H). exact H.
Qed.
