(* C08 models: the Less functions that make output order canonical.
   Mirrors (Go):
     internal/linker/linker.go    stableRefArray.Less, chunkOrderArray.Less,
                                  crossChunkImportArray.Less, crossChunkImportItemArray.Less
     internal/renamer/renamer.go  StableSymbolCountArray.Less, slotAndCountArray.Less
     internal/resolver/package_json.go  expansionKeysArray.Less
     internal/logger/logger.go    SortableMsgs.Less
     pkg/api/api_impl.go          metafileArray.Less
     internal/js_parser/js_parser.go  scopeMemberArray.Less
     internal/ast/ast.go          charAndCountArray.Less
   uint32/int fields are Z; Go strings are byte lists compared bytewise
   lexicographically (Go's < on strings).  Executable definitions only. *)
From V Require Import Common.Base.

(* ---- Go string comparison ---- *)
Fixpoint str_cmp (a b : list Z) : comparison :=
  match a, b with
  | [], [] => Eq
  | [], _ :: _ => Lt
  | _ :: _, [] => Gt
  | x :: a', y :: b' => match x ?= y with Eq => str_cmp a' b' | o => o end
  end.
Definition is_lt (c : comparison) : bool := match c with Lt => true | _ => false end.
Definition str_ltb (a b : list Z) : bool := is_lt (str_cmp a b).
Definition str_eqb (a b : list Z) : bool := zlist_eqb a b.
Definition zlen (a : list Z) : Z := Z.of_nat (length a).

(* ast.Ref *)
Record ref := mkRef { r_src : Z; r_inner : Z }.

(* linker.stableRef *)
Record stableRef := mkSR { sr_stable : Z; sr_ref : ref }.
Definition stableRef_less (a b : stableRef) : bool :=
  (sr_stable a <? sr_stable b)
  || ((sr_stable a =? sr_stable b) && (r_inner (sr_ref a) <? r_inner (sr_ref b))).

(* linker.chunkOrder *)
Record chunkOrder := mkCO { co_src : Z; co_dist : Z; co_tie : Z }.
Definition chunkOrder_less (a b : chunkOrder) : bool :=
  (co_dist a <? co_dist b) || ((co_dist a =? co_dist b) && (co_tie a <? co_tie b)).

(* linker.crossChunkImport (only the sort key is modelled) *)
Definition crossChunkImport_less (a b : Z) : bool := a <? b.

(* linker.crossChunkImportItem *)
Record ccItem := mkCCI { cci_alias : list Z; cci_ref : ref }.
Definition ccItem_less (a b : ccItem) : bool := str_ltb (cci_alias a) (cci_alias b).

(* renamer.StableSymbolCount *)
Record symCount := mkSC { sc_stable : Z; sc_ref : ref; sc_count : Z }.
Definition symCount_less (a b : symCount) : bool :=
  if sc_count a >? sc_count b then true
  else if sc_count a <? sc_count b then false
  else if sc_stable a <? sc_stable b then true
  else if sc_stable a >? sc_stable b then false
  else r_inner (sc_ref a) <? r_inner (sc_ref b).

(* renamer.slotAndCount *)
Record slotCount := mkSL { sl_slot : Z; sl_count : Z }.
Definition slotCount_less (a b : slotCount) : bool :=
  (sl_count a >? sl_count b) || ((sl_count a =? sl_count b) && (sl_slot a <? sl_slot b)).

(* ast.charAndCount *)
Record charCount := mkCC { cc_count : Z; cc_index : Z }.
Definition charCount_less (a b : charCount) : bool :=
  (cc_count a >? cc_count b) || ((cc_count a =? cc_count b) && (cc_index a <? cc_index b)).

(* js_parser.scopeMemberArray *)
Definition scopeMember_less (a b : ref) : bool :=
  (r_inner a <? r_inner b) || ((r_inner a =? r_inner b) && (r_src a <? r_src b)).

(* api.metafileEntry *)
Record mfEntry := mkMF { mf_name : list Z; mf_size : Z }.
Definition metafile_less (a b : mfEntry) : bool :=
  (mf_size a >? mf_size b) || ((mf_size a =? mf_size b) && str_ltb (mf_name a) (mf_name b)).

(* resolver.expansionKeysArray: strings.IndexByte(key, '*') *)
Fixpoint index_byte_from (c : Z) (l : list Z) (i : Z) : Z :=
  match l with
  | [] => -1
  | x :: r => if x =? c then i else index_byte_from c r (i + 1)
  end.
Definition index_byte (l : list Z) (c : Z) : Z := index_byte_from c l 0.
Definition star : Z := 42.
Definition expansionKeys_less (keyA keyB : list Z) : bool :=
  let starA := index_byte keyA star in
  let starB := index_byte keyB star in
  let baseLengthA := if starA >=? 0 then starA else zlen keyA in
  let baseLengthB := if starB >=? 0 then starB else zlen keyB in
  if baseLengthA >? baseLengthB then true
  else if baseLengthB >? baseLengthA then false
  else if starA <? 0 then false
  else if starB <? 0 then true
  else if zlen keyA >? zlen keyB then true
  else if zlen keyB >? zlen keyA then false
  else false.

(* logger.SortableMsgs *)
Record mloc := mkLoc { l_abs : list Z; l_rel : list Z; l_line : Z; l_col : Z }.
Record msg := mkMsg { m_loc : option mloc; m_kind : Z; m_text : list Z }.
Definition file_eqb (a b : mloc) : bool := str_eqb (l_abs a) (l_abs b) && str_eqb (l_rel a) (l_rel b).
Definition msg_less (a b : msg) : bool :=
  match m_loc a, m_loc b with
  | Some la, Some lb =>
      if negb (file_eqb la lb) then
        str_ltb (l_abs la) (l_abs lb) || (str_eqb (l_abs la) (l_abs lb) && str_ltb (l_rel la) (l_rel lb))
      else if negb (l_line la =? l_line lb) then l_line la <? l_line lb
      else if negb (l_col la =? l_col lb) then l_col la <? l_col lb
      else if negb (m_kind a =? m_kind b) then m_kind a <? m_kind b
      else str_ltb (m_text a) (m_text b)
  | None, Some _ => true
  | _, _ => false
  end.
