(* C08: every comparator model equals the Less derived from a lexicographic
   total order on its key projection; hence strict weak order + total on keys. *)
From V Require Import Common.Base C08.SortPerm C08.Comparators C08.CmpTheory.

Ltac zc := repeat match goal with
  | |- context [?x ?= ?y] => let E := fresh "E" in destruct (Z.compare_spec x y) as [E|E|E]
  end.

(* ---- numeric keys ---- *)
Definition zz_cmp := lex_cmp Z.compare Z.compare.
Lemma good_zz : GoodCmp zz_cmp. Proof. apply good_lex; apply good_Z. Qed.
Definition dz_cmp := lex_cmp (rev_cmp Z.compare) Z.compare.   (* first descending *)
Lemma good_dz : GoodCmp dz_cmp. Proof. apply good_lex; [apply good_rev|]; apply good_Z. Qed.

Definition stableRef_key (a : stableRef) : Z * Z := (sr_stable a, r_inner (sr_ref a)).
Lemma stableRef_spec a b : stableRef_less a b = lt_of zz_cmp (stableRef_key a) (stableRef_key b).
Proof.
  unfold stableRef_less, lt_of, zz_cmp, lex_cmp, stableRef_key; cbn [fst snd].
  zc; cbn [is_lt]; lia.
Qed.

Definition chunkOrder_key (a : chunkOrder) : Z * Z := (co_dist a, co_tie a).
Lemma chunkOrder_spec a b : chunkOrder_less a b = lt_of zz_cmp (chunkOrder_key a) (chunkOrder_key b).
Proof.
  unfold chunkOrder_less, lt_of, zz_cmp, lex_cmp, chunkOrder_key; cbn [fst snd].
  zc; cbn [is_lt]; lia.
Qed.

Lemma crossChunkImport_spec a b : crossChunkImport_less a b = lt_of Z.compare a b.
Proof. unfold crossChunkImport_less, lt_of. zc; cbn [is_lt]; lia. Qed.

Definition symCount_key (a : symCount) : Z * (Z * Z) := (sc_count a, (sc_stable a, r_inner (sc_ref a))).
Definition symCount_cmp := lex_cmp (rev_cmp Z.compare) zz_cmp.
Lemma good_symCount : GoodCmp symCount_cmp.
Proof. apply good_lex; [apply good_rev, good_Z | apply good_zz]. Qed.
Lemma symCount_spec a b : symCount_less a b = lt_of symCount_cmp (symCount_key a) (symCount_key b).
Proof.
  unfold symCount_less, lt_of, symCount_cmp, zz_cmp, lex_cmp, rev_cmp, symCount_key; cbn [fst snd].
  zc; cbn [is_lt];
  repeat match goal with |- context [if ?c then _ else _] => destruct c eqn:? end; lia.
Qed.

Definition slotCount_key (a : slotCount) : Z * Z := (sl_count a, sl_slot a).
Lemma slotCount_spec a b : slotCount_less a b = lt_of dz_cmp (slotCount_key a) (slotCount_key b).
Proof.
  unfold slotCount_less, lt_of, dz_cmp, lex_cmp, rev_cmp, slotCount_key; cbn [fst snd].
  zc; cbn [is_lt]; lia.
Qed.

Definition charCount_key (a : charCount) : Z * Z := (cc_count a, cc_index a).
Lemma charCount_spec a b : charCount_less a b = lt_of dz_cmp (charCount_key a) (charCount_key b).
Proof.
  unfold charCount_less, lt_of, dz_cmp, lex_cmp, rev_cmp, charCount_key; cbn [fst snd].
  zc; cbn [is_lt]; lia.
Qed.

Definition scopeMember_key (a : ref) : Z * Z := (r_inner a, r_src a).
Lemma scopeMember_spec a b : scopeMember_less a b = lt_of zz_cmp (scopeMember_key a) (scopeMember_key b).
Proof.
  unfold scopeMember_less, lt_of, zz_cmp, lex_cmp, scopeMember_key; cbn [fst snd].
  zc; cbn [is_lt]; lia.
Qed.

(* ---- string keys ---- *)
Lemma ccItem_spec a b : ccItem_less a b = lt_of str_cmp (cci_alias a) (cci_alias b).
Proof. reflexivity. Qed.

Definition metafile_key (a : mfEntry) : Z * list Z := (mf_size a, mf_name a).
Definition metafile_cmp := lex_cmp (rev_cmp Z.compare) str_cmp.
Lemma good_metafile : GoodCmp metafile_cmp.
Proof. apply good_lex; [apply good_rev, good_Z | apply good_str]. Qed.
Lemma metafile_spec a b : metafile_less a b = lt_of metafile_cmp (metafile_key a) (metafile_key b).
Proof.
  unfold metafile_less, lt_of, metafile_cmp, lex_cmp, rev_cmp, metafile_key, str_ltb; cbn [fst snd].
  zc; cbn [is_lt]; destruct (is_lt (str_cmp (mf_name a) (mf_name b))); lia.
Qed.

(* expansion keys: key = (baseLength desc, has-star first, length desc) *)
Definition ek_base (k : list Z) : Z := if index_byte k star >=? 0 then index_byte k star else zlen k.
Definition ek_nostar (k : list Z) : Z := if index_byte k star <? 0 then 1 else 0.
Definition ek_key (k : list Z) : Z * (Z * Z) := (ek_base k, (ek_nostar k, zlen k)).
Definition ek_cmp := lex_cmp (rev_cmp Z.compare) (lex_cmp Z.compare (rev_cmp Z.compare)).
Lemma good_ek : GoodCmp ek_cmp.
Proof. apply good_lex; [apply good_rev, good_Z | apply good_lex; [apply good_Z | apply good_rev, good_Z]]. Qed.
Lemma expansionKeys_spec a b : expansionKeys_less a b = lt_of ek_cmp (ek_key a) (ek_key b).
Proof.
  unfold expansionKeys_less, lt_of, ek_cmp, lex_cmp, rev_cmp, ek_key, ek_base, ek_nostar; cbn [fst snd].
  generalize (index_byte a star) (index_byte b star) (zlen a) (zlen b). intros sa sb la lb.
  repeat match goal with |- context [if ?c then _ else _] => destruct c eqn:? end;
  zc; cbn [is_lt]; try reflexivity; try lia.
Qed.

(* messages: key = None | Some (abs, rel, line, col, kind, text) *)
Definition msg_key (m : msg) : option (list Z * (list Z * (Z * (Z * (Z * list Z))))) :=
  match m_loc m with
  | None => None
  | Some l => Some (l_abs l, (l_rel l, (l_line l, (l_col l, (m_kind m, m_text m)))))
  end.
Definition msg_cmp :=
  opt_cmp (lex_cmp str_cmp (lex_cmp str_cmp (lex_cmp Z.compare (lex_cmp Z.compare (lex_cmp Z.compare str_cmp))))).
Lemma good_msg : GoodCmp msg_cmp.
Proof. apply good_opt. repeat (apply good_lex; try apply good_str; try apply good_Z). Qed.
Lemma msg_spec a b : msg_less a b = lt_of msg_cmp (msg_key a) (msg_key b).
Proof.
  unfold msg_less, lt_of, msg_cmp, msg_key.
  destruct (m_loc a) as [la|], (m_loc b) as [lb|]; cbn [opt_cmp is_lt]; try reflexivity.
  unfold lex_cmp, file_eqb, str_ltb; cbn [fst snd]. rewrite !str_eqb_cmp.
  destruct (str_cmp (l_abs la) (l_abs lb)); cbn [negb andb orb is_lt]; try reflexivity.
  destruct (str_cmp (l_rel la) (l_rel lb)); cbn [negb andb orb is_lt]; try reflexivity.
  zc; cbn [is_lt];
  repeat match goal with |- context [if ?c then _ else _] => destruct c eqn:? end; try reflexivity; lia.
Qed.

(* ---- packaged statements: strict weak order + tied elements have equal keys ---- *)
Definition TiedKeys {A K} (less : A -> A -> bool) (key : A -> K) : Prop :=
  forall a b, less a b = false -> less b a = false -> key a = key b.

Ltac pack G S := split; [exact (via_key_strict_weak _ _ G _ S) | exact (via_key_tied_keys _ _ G _ S)].

Lemma stableRef_order : StrictWeak stableRef_less /\ TiedKeys stableRef_less stableRef_key.
Proof. pack good_zz stableRef_spec. Qed.
Lemma chunkOrder_order : StrictWeak chunkOrder_less /\ TiedKeys chunkOrder_less chunkOrder_key.
Proof. pack good_zz chunkOrder_spec. Qed.
Lemma crossChunkImport_order : StrictWeak crossChunkImport_less /\ TiedKeys crossChunkImport_less (fun x => x).
Proof. pack good_Z crossChunkImport_spec. Qed.
Lemma ccItem_order : StrictWeak ccItem_less /\ TiedKeys ccItem_less cci_alias.
Proof. pack good_str ccItem_spec. Qed.
Lemma symCount_order : StrictWeak symCount_less /\ TiedKeys symCount_less symCount_key.
Proof. pack good_symCount symCount_spec. Qed.
Lemma slotCount_order : StrictWeak slotCount_less /\ TiedKeys slotCount_less slotCount_key.
Proof. pack good_dz slotCount_spec. Qed.
Lemma charCount_order : StrictWeak charCount_less /\ TiedKeys charCount_less charCount_key.
Proof. pack good_dz charCount_spec. Qed.
Lemma scopeMember_order : StrictWeak scopeMember_less /\ TiedKeys scopeMember_less scopeMember_key.
Proof. pack good_zz scopeMember_spec. Qed.
Lemma metafile_order : StrictWeak metafile_less /\ TiedKeys metafile_less metafile_key.
Proof. pack good_metafile metafile_spec. Qed.
Lemma expansionKeys_order : StrictWeak expansionKeys_less /\ TiedKeys expansionKeys_less ek_key.
Proof. pack good_ek expansionKeys_spec. Qed.
Lemma msg_order : StrictWeak msg_less /\ TiedKeys msg_less msg_key.
Proof. pack good_msg msg_spec. Qed.

(* ---- totality on the domains the linker/renamer actually sort ---- *)

(* refs whose StableSourceIndex comes from an injective table (StableSourceIndices
   is the position in the DFS order, a permutation of the reachable files) *)
Lemma stableRef_total_on_domain (stable_of : Z -> Z) l :
  (forall x y, stable_of x = stable_of y -> x = y) ->
  (forall a, In a l -> sr_stable a = stable_of (r_src (sr_ref a))) ->
  TotalOn stableRef_less l.
Proof.
  intros Hinj Hdom. apply (via_key_total_on _ _ good_zz _ stableRef_spec).
  intros [sa [ra ia]] [sb [rb ib]] Ia Ib Hk. unfold stableRef_key in Hk; cbn in Hk.
  inversion Hk; subst. pose proof (Hdom _ Ia) as Ha. pose proof (Hdom _ Ib) as Hb. cbn in Ha, Hb.
  assert (ra = rb) by (apply Hinj; congruence). now subst.
Qed.

(* one chunkOrder per file, tieBreaker = stable index of the file, distance a function of the file *)
Lemma chunkOrder_total_on_domain (stable_of dist_of : Z -> Z) l :
  (forall x y, stable_of x = stable_of y -> x = y) ->
  (forall a, In a l -> co_tie a = stable_of (co_src a) /\ co_dist a = dist_of (co_src a)) ->
  TotalOn chunkOrder_less l.
Proof.
  intros Hinj Hdom. apply (via_key_total_on _ _ good_zz _ chunkOrder_spec).
  intros [sa da ta] [sb db tb] Ia Ib Hk. unfold chunkOrder_key in Hk; cbn in Hk.
  inversion Hk; subst. destruct (Hdom _ Ia) as [Ha _]. destruct (Hdom _ Ib) as [Hb _]. cbn in Ha, Hb.
  assert (sa = sb) by (apply Hinj; congruence). now subst.
Qed.

(* one StableSymbolCount per ref *)
Lemma symCount_total_on_domain (stable_of : Z -> Z) l :
  (forall x y, stable_of x = stable_of y -> x = y) ->
  (forall a, In a l -> sc_stable a = stable_of (r_src (sc_ref a))) ->
  TotalOn symCount_less l.
Proof.
  intros Hinj Hdom. apply (via_key_total_on _ _ good_symCount _ symCount_spec).
  intros [sa [ra ia] ca] [sb [rb ib] cb] Ia Ib Hk. unfold symCount_key in Hk; cbn in Hk.
  inversion Hk; subst. pose proof (Hdom _ Ia) as Ha. pose proof (Hdom _ Ib) as Hb. cbn in Ha, Hb.
  assert (ra = rb) by (apply Hinj; congruence). now subst.
Qed.

(* keys that are the whole element: total without any domain condition *)
Lemma slotCount_total l : TotalOn slotCount_less l.
Proof.
  apply (via_key_total_on _ _ good_dz _ slotCount_spec). intros [a b] [c d] _ _ H. now inversion H.
Qed.
Lemma charCount_total l : TotalOn charCount_less l.
Proof.
  apply (via_key_total_on _ _ good_dz _ charCount_spec). intros [a b] [c d] _ _ H. now inversion H.
Qed.
Lemma scopeMember_total l : TotalOn scopeMember_less l.
Proof.
  apply (via_key_total_on _ _ good_zz _ scopeMember_spec). intros [a b] [c d] _ _ H. now inversion H.
Qed.
Lemma metafile_total l : TotalOn metafile_less l.
Proof.
  apply (via_key_total_on _ _ good_metafile _ metafile_spec). intros [a b] [c d] _ _ H. now inversion H.
Qed.
Lemma crossChunkImport_total l : TotalOn crossChunkImport_less l.
Proof. apply (via_key_total_on _ _ good_Z _ crossChunkImport_spec). auto. Qed.
(* export aliases of one chunk are pairwise distinct (they are the keys the
   importing chunk uses), hence injective on the imported items *)
Lemma ccItem_total_on_domain l :
  (forall a b, In a l -> In b l -> cci_alias a = cci_alias b -> a = b) -> TotalOn ccItem_less l.
Proof. apply (via_key_total_on _ _ good_str _ ccItem_spec). Qed.

(* messages that carry a location and differ in (file, line, column, kind, text) are never tied *)
Lemma msg_total_on_located l :
  (forall a b, In a l -> In b l -> msg_key a = msg_key b -> a = b) -> TotalOn msg_less l.
Proof. apply (via_key_total_on _ _ good_msg _ msg_spec). Qed.

(* ... but ALL messages without a location are tied, whatever their kind and text *)
Lemma msg_locationless_tied a b :
  m_loc a = None -> m_loc b = None -> msg_less a b = false /\ msg_less b a = false.
Proof. intros Ha Hb. unfold msg_less. rewrite Ha, Hb. auto. Qed.

Lemma msg_total_refuted_witness :
  exists a b, a <> b /\ msg_less a b = false /\ msg_less b a = false.
Proof.
  exists (mkMsg None 0 [97]), (mkMsg None 0 [98]). split; [discriminate | split; reflexivity].
Qed.

(* "./a*" style keys: same base length, same length => tied although distinct;
   harmless because parseImportsExportsMap uses sort.Stable on the file order *)
Lemma expansionKeys_total_refuted_witness :
  exists a b, a <> b /\ expansionKeys_less a b = false /\ expansionKeys_less b a = false.
Proof. exists [97; 42], [98; 42]. split; [discriminate | split; reflexivity]. Qed.
