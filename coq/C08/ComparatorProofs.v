(* C08: every comparator model equals the Less derived from a lexicographic
   total order on its key projection; hence strict weak order + total on keys. *)
From V Require Import Common.Base C08.SortPerm C08.Comparators C08.CmpTheory.

Ltac zc := repeat match goal with
  | |- context [?x ?= ?y] => let E := fresh "E" in destruct (Z.compare_spec x y) as [E|E|E]
  end.

(* ---- numeric keys ---- *)
Definition zz_cmp := lex_cmp Z.compare Z.compare.
Lemma good_zz : GoodCmp zz_cmp. Proof. apply good_lex; apply good_Z. Qed.
Definition dz_cmp := lex_cmp (rev_cmp Z.compare) Z.compare.   (* first descending *)
Lemma good_dz : GoodCmp dz_cmp. Proof. apply good_lex; [apply good_rev|]; apply good_Z. Qed.

Definition stableRef_key (a : stableRef) : Z * Z := (sr_stable a, r_inner (sr_ref a)).
Lemma stableRef_spec a b : stableRef_less a b = lt_of zz_cmp (stableRef_key a) (stableRef_key b).
Proof.
  unfold stableRef_less, lt_of, zz_cmp, lex_cmp, stableRef_key; cbn [fst snd].
  zc; cbn [is_lt]; lia.
Qed.

Definition chunkOrder_key (a : chunkOrder) : Z * Z := (co_dist a, co_tie a).
Lemma chunkOrder_spec a b : chunkOrder_less a b = lt_of zz_cmp (chunkOrder_key a) (chunkOrder_key b).
Proof.
  unfold chunkOrder_less, lt_of, zz_cmp, lex_cmp, chunkOrder_key; cbn [fst snd].
  zc; cbn [is_lt]; lia.
Qed.

Lemma crossChunkImport_spec a b : crossChunkImport_less a b = lt_of Z.compare a b.
Proof. unfold crossChunkImport_less, lt_of. zc; cbn [is_lt]; lia. Qed.

Definition symCount_key (a : symCount) : Z * (Z * Z) := (sc_count a, (sc_stable a, r_inner (sc_ref a))).
Definition symCount_cmp := lex_cmp (rev_cmp Z.compare) zz_cmp.
Lemma good_symCount : GoodCmp symCount_cmp.
Proof. apply good_lex; [apply good_rev, good_Z | apply good_zz]. Qed.
Lemma symCount_spec a b : symCount_less a b = lt_of symCount_cmp (symCount_key a) (symCount_key b).
Proof.
  unfold symCount_less, lt_of, symCount_cmp, zz_cmp, lex_cmp, rev_cmp, symCount_key; cbn [fst snd].
  zc; cbn [is_lt];
  repeat match goal with |- context [if ?c then _ else _] => destruct c eqn:? end; lia.
Qed.

Definition slotCount_key (a : slotCount) : Z * Z := (sl_count a, sl_slot a).
Lemma slotCount_spec a b : slotCount_less a b = lt_of dz_cmp (slotCount_key a) (slotCount_key b).
Proof.
  unfold slotCount_less, lt_of, dz_cmp, lex_cmp, rev_cmp, slotCount_key; cbn [fst snd].
  zc; cbn [is_lt]; lia.
Qed.

Definition charCount_key (a : charCount) : Z * Z := (cc_count a, cc_index a).
Lemma charCount_spec a b : charCount_less a b = lt_of dz_cmp (charCount_key a) (charCount_key b).
Proof.
  unfold charCount_less, lt_of, dz_cmp, lex_cmp, rev_cmp, charCount_key; cbn [fst snd].
  zc; cbn [is_lt]; lia.
Qed.

Definition scopeMember_key (a : ref) : Z * Z := (r_inner a, r_src a).
Lemma scopeMember_spec a b : scopeMember_less a b = lt_of zz_cmp (scopeMember_key a) (scopeMember_key b).
Proof.
  unfold scopeMember_less, lt_of, zz_cmp, lex_cmp, scopeMember_key; cbn [fst snd].
  zc; cbn [is_lt]; lia.
Qed.

(* ---- string keys ---- *)
Lemma ccItem_spec a b : ccItem_less a b = lt_of str_cmp (cci_alias a) (cci_alias b).
Proof. reflexivity. Qed.

Definition metafile_key (a : mfEntry) : Z * list Z := (mf_size a, mf_name a).
Definition metafile_cmp := lex_cmp (rev_cmp Z.compare) str_cmp.
Lemma good_metafile : GoodCmp metafile_cmp.
Proof. apply good_lex; [apply good_rev, good_Z | apply good_str]. Qed.
Lemma metafile_spec a b : metafile_less a b = lt_of metafile_cmp (metafile_key a) (metafile_key b).
Proof.
  unfold metafile_less, lt_of, metafile_cmp, lex_cmp, rev_cmp, metafile_key, str_ltb; cbn [fst snd].
  zc; cbn [is_lt]; destruct (is_lt (str_cmp (mf_name a) (mf_name b))); lia.
Qed.

(* expansion keys: key = (baseLength desc, has-star first, length desc) *)
Definition ek_base (k : list Z) : Z := if index_byte k star >=? 0 then index_byte k star else zlen k.
Definition ek_nostar (k : list Z) : Z := if index_byte k star <? 0 then 1 else 0.
Definition ek_key (k : list Z) : Z * (Z * Z) := (ek_base k, (ek_nostar k, zlen k)).
Definition ek_cmp := lex_cmp (rev_cmp Z.compare) (lex_cmp Z.compare (rev_cmp Z.compare)).
Lemma good_ek : GoodCmp ek_cmp.
Proof. apply good_lex; [apply good_rev, good_Z | apply good_lex; [apply good_Z | apply good_rev, good_Z]]. Qed.
Lemma expansionKeys_spec a b : expansionKeys_less a b = lt_of ek_cmp (ek_key a) (ek_key b).
Proof.
  unfold expansionKeys_less, lt_of, ek_cmp, lex_cmp, rev_cmp, ek_key, ek_base, ek_nostar; cbn [fst snd].
  generalize (index_byte a star) (index_byte b star) (zlen a) (zlen b). intros sa sb la lb.
  repeat match goal with |- context [if ?c then _ else _] => destruct c eqn:? end;
  zc; cbn [is_lt]; try reflexivity; try lia.
Qed.

(* messages: key = None | Some (abs, rel, line, col, kind, text) *)
Definition msg_key (m : msg) : option (list Z * (list Z * (Z * (Z * (Z * list Z))))) :=
  match m_loc m with
  | None => None
  | Some l => Some (l_abs l, (l_rel l, (l_line l, (l_col l, (m_kind m, m_text m)))))
  end.
Definition msg_cmp :=
  opt_cmp (lex_cmp str_cmp (lex_cmp str_cmp (lex_cmp Z.compare (lex_cmp Z.compare (lex_cmp Z.compare str_cmp))))).
Lemma good_msg : GoodCmp msg_cmp.
Proof. apply good_opt. repeat (apply good_lex; try apply good_str; try apply good_Z). Qed.
Lemma msg_spec a b : msg_less a b = lt_of msg_cmp (msg_key a) (msg_key b).
Proof.
  unfold msg_less, lt_of, msg_cmp, msg_key.
  destruct (m_loc a) as [la|], (m_loc b) as [lb|]; cbn [opt_cmp is_lt]; try reflexivity.
  unfold lex_cmp, file_eqb, str_ltb; cbn [fst snd]. rewrite !str_eqb_cmp.
  destruct (str_cmp (l_abs la) (l_abs lb)); cbn [negb andb orb is_lt]; try reflexivity.
  destruct (str_cmp (l_rel la) (l_rel lb)); cbn [negb andb orb is_lt]; try reflexivity.
  zc; cbn [is_lt];
  repeat match goal with |- context [if ?c then _ else _] => destruct c eqn:? end; try reflexivity; lia.
Qed.
