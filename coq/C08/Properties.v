(* C08 property theorems. Only statements closed by [exact lemma] + Print Assumptions. *)
From Coq Require Import String.
From V Require Import Common.Base C08.SortPerm C08.Comparators C08.CmpTheory C08.ComparatorProofs
  C08.Dfs C08.DfsProofs C08.Serializer C08.SerializerProofs gen.MapSitesGen C08.MapSites C08.MapSitesProofs
  C08.Diagnostics C08.Scanner C08.ScannerProofs C08.Consumers gen.SortKeysGen C08.CollectSort
  C08.ScannerReach C08.SiteModels C08.ComposeHash C08.ComposeMetafile.
From V Require C18.Hash C18.Ingredients C19.Doc C19.DocProofs.
From V Require Import gen.HashInventoryGen gen.HashPathsGen C08.HashPaths.
From Coq Require Import Permutation Sorted.

(* ================= order-insensitivity of sorting and folding ================= *)

(* Whatever algorithm sorts (sort.Sort is unstable): if Less is a strict weak
   order and no two distinct elements are tied, the result does not depend on
   the order in which the elements arrived (map iteration, goroutine arrival). *)
Theorem sort_perm_invariant :
  forall (A : Type) (ltb : A -> A -> bool), StrictWeak ltb ->
  forall l l' s s', Permutation l l' -> TotalOn ltb l ->
    Permutation l s -> SortedBy ltb s -> Permutation l' s' -> SortedBy ltb s' -> s = s'.
Proof. exact (@sort_perm_invariant_gen). Qed.
Print Assumptions sort_perm_invariant.

(* the same for any two sorting functions (e.g. two versions of pdqsort) *)
Theorem sort_fun_invariant :
  forall (A : Type) (ltb : A -> A -> bool), StrictWeak ltb ->
  forall sort1 sort2, IsSort ltb sort1 -> IsSort ltb sort2 ->
  forall l l', Permutation l l' -> TotalOn ltb l -> sort1 l = sort2 l'.
Proof. exact (@sort_fun_perm_invariant). Qed.
Print Assumptions sort_fun_invariant.

(* the model sort used by the correspondence run is that canonical result *)
Theorem real_sort_equals_model_sort :
  forall (A : Type) (ltb : A -> A -> bool), StrictWeak ltb ->
  forall l s, TotalOn ltb l -> Permutation l s -> SortedBy ltb s -> s = isort ltb l.
Proof. exact (@any_sort_eq_isort). Qed.
Print Assumptions real_sort_equals_model_sort.

(* the model sort is stable (it is what sort.Stable must return): the elements
   tied with any k appear in their input order *)
Theorem model_sort_stable :
  forall (A : Type) (ltb : A -> A -> bool), StrictWeak ltb ->
  forall k l, filter (tied ltb k) (isort ltb l) = filter (tied ltb k) l.
Proof. exact (@isort_stable_gen). Qed.
Print Assumptions model_sort_stable.

(* comparator that reads a key only (sort.Stable of messages): the KEY sequence
   of the result is canonical when distinct keys are never tied *)
Theorem sort_keys_perm_invariant :
  forall (A K : Type) (key : A -> K) (kltb : K -> K -> bool), StrictWeak kltb ->
  forall l l' s s', Permutation l l' -> TotalOn kltb (map key l) ->
    Permutation l s -> SortedBy (on_key key kltb) s -> Permutation l' s' -> SortedBy (on_key key kltb) s' ->
    map key s = map key s'.
Proof. exact (@sort_keys_invariant). Qed.
Print Assumptions sort_keys_perm_invariant.

(* accumulating with a commutative step does not depend on the iteration order *)
Theorem fold_comm_invariant :
  forall (A B : Type) (f : B -> A -> B), (forall b x y, f (f b x) y = f (f b y) x) ->
  forall l l', Permutation l l' -> forall b, fold_left f l b = fold_left f l' b.
Proof. exact (@fold_comm_invariant_gen). Qed.
Print Assumptions fold_comm_invariant.

(* ... also when commutativity only holds up to an observation (lists used as sets) *)
Theorem fold_comm_invariant_up_to :
  forall (A B : Type) (f : B -> A -> B) (R : B -> B -> Prop),
  (forall b, R b b) -> (forall a b c, R a b -> R b c -> R a c) ->
  (forall b b' x, R b b' -> R (f b x) (f b' x)) -> (forall b x y, R (f (f b x) y) (f (f b y) x)) ->
  forall l l', Permutation l l' -> forall b, R (fold_left f l b) (fold_left f l' b).
Proof. exact (@fold_comm_invariant_upto). Qed.
Print Assumptions fold_comm_invariant_up_to.

(* "for k, v := range m { out[k] = v' }": the resulting map does not depend on the order *)
Theorem map_writes_order_invariant :
  forall (V : Type) (l l' : list (Z * V)), NoDup (map fst l) -> Permutation l l' ->
  forall m k, fold_left upd l m k = fold_left upd l' m k.
Proof. exact (@map_writes_invariant). Qed.
Print Assumptions map_writes_order_invariant.

(* ================= the comparators ================= *)
(* each Less is a strict weak order, and two elements are tied only if their
   sort keys coincide; then totality on the domain that is actually sorted *)

Theorem stableRefArray_order : StrictWeak stableRef_less /\ TiedKeys stableRef_less stableRef_key.
Proof. exact stableRef_order. Qed.
Print Assumptions stableRefArray_order.
Theorem stableRefArray_total_on_domain :
  forall (stable_of : Z -> Z) l, (forall x y, stable_of x = stable_of y -> x = y) ->
  (forall a, In a l -> sr_stable a = stable_of (r_src (sr_ref a))) -> TotalOn stableRef_less l.
Proof. exact stableRef_total_on_domain. Qed.
Print Assumptions stableRefArray_total_on_domain.

Theorem chunkOrderArray_order : StrictWeak chunkOrder_less /\ TiedKeys chunkOrder_less chunkOrder_key.
Proof. exact chunkOrder_order. Qed.
Print Assumptions chunkOrderArray_order.
Theorem chunkOrderArray_total_on_domain :
  forall (stable_of dist_of : Z -> Z) l, (forall x y, stable_of x = stable_of y -> x = y) ->
  (forall a, In a l -> co_tie a = stable_of (co_src a) /\ co_dist a = dist_of (co_src a)) ->
  TotalOn chunkOrder_less l.
Proof. exact chunkOrder_total_on_domain. Qed.
Print Assumptions chunkOrderArray_total_on_domain.

Theorem crossChunkImportArray_order :
  StrictWeak crossChunkImport_less /\ forall l, TotalOn crossChunkImport_less l.
Proof. exact (conj (proj1 crossChunkImport_order) crossChunkImport_total). Qed.
Print Assumptions crossChunkImportArray_order.

Theorem crossChunkImportItemArray_order : StrictWeak ccItem_less /\ TiedKeys ccItem_less cci_alias.
Proof. exact ccItem_order. Qed.
Print Assumptions crossChunkImportItemArray_order.
Theorem crossChunkImportItemArray_total_on_domain :
  forall l, (forall a b, In a l -> In b l -> cci_alias a = cci_alias b -> a = b) -> TotalOn ccItem_less l.
Proof. exact ccItem_total_on_domain. Qed.
Print Assumptions crossChunkImportItemArray_total_on_domain.

Theorem StableSymbolCountArray_order : StrictWeak symCount_less /\ TiedKeys symCount_less symCount_key.
Proof. exact symCount_order. Qed.
Print Assumptions StableSymbolCountArray_order.
Theorem StableSymbolCountArray_total_on_domain :
  forall (stable_of : Z -> Z) l, (forall x y, stable_of x = stable_of y -> x = y) ->
  (forall a, In a l -> sc_stable a = stable_of (r_src (sc_ref a))) -> TotalOn symCount_less l.
Proof. exact symCount_total_on_domain. Qed.
Print Assumptions StableSymbolCountArray_total_on_domain.

Theorem slotAndCountArray_order : StrictWeak slotCount_less /\ forall l, TotalOn slotCount_less l.
Proof. exact (conj (proj1 slotCount_order) slotCount_total). Qed.
Print Assumptions slotAndCountArray_order.

Theorem charAndCountArray_order : StrictWeak charCount_less /\ forall l, TotalOn charCount_less l.
Proof. exact (conj (proj1 charCount_order) charCount_total). Qed.
Print Assumptions charAndCountArray_order.

Theorem scopeMemberArray_order : StrictWeak scopeMember_less /\ forall l, TotalOn scopeMember_less l.
Proof. exact (conj (proj1 scopeMember_order) scopeMember_total). Qed.
Print Assumptions scopeMemberArray_order.

Theorem metafileArray_order : StrictWeak metafile_less /\ forall l, TotalOn metafile_less l.
Proof. exact (conj (proj1 metafile_order) metafile_total). Qed.
Print Assumptions metafileArray_order.

(* expansion keys: a strict weak order, tied exactly when (base length, has-star,
   length) coincide; NOT total on distinct keys -- harmless: sort.Stable over the
   order of the keys in package.json *)
Theorem expansionKeysArray_order : StrictWeak expansionKeys_less /\ TiedKeys expansionKeys_less ek_key.
Proof. exact expansionKeys_order. Qed.
Print Assumptions expansionKeysArray_order.
Theorem expansionKeysArray_total_refuted :
  exists a b, a <> b /\ expansionKeys_less a b = false /\ expansionKeys_less b a = false.
Proof. exact expansionKeys_total_refuted_witness. Qed.
Print Assumptions expansionKeysArray_total_refuted.

(* diagnostics: full statement "total on distinct messages" is FALSE of the code *)
Theorem SortableMsgs_order : StrictWeak msg_less /\ TiedKeys msg_less msg_key.
Proof. exact msg_order. Qed.
Print Assumptions SortableMsgs_order.
Theorem SortableMsgs_total_partial :
  forall l, (forall a b, In a l -> In b l -> msg_key a = msg_key b -> a = b) -> TotalOn msg_less l.
Proof. exact msg_total_on_located. Qed.
Print Assumptions SortableMsgs_total_partial.
Theorem SortableMsgs_total_refuted :
  exists a b, a <> b /\ msg_less a b = false /\ msg_less b a = false.
Proof. exact msg_total_refuted_witness. Qed.
Print Assumptions SortableMsgs_total_refuted.
Theorem SortableMsgs_locationless_all_tied :
  forall a b, m_loc a = None -> m_loc b = None -> msg_less a b = false /\ msg_less b a = false.
Proof. exact msg_locationless_tied. Qed.
Print Assumptions SortableMsgs_locationless_all_tied.

(* ================= stable source indices ================= *)

(* the reachable-file order is equivariant under any injective renaming of the
   arrival-order source indices (g' is the same graph with renamed indices) *)
Theorem dfs_equivariant :
  forall (rho : Z -> Z), (forall x y, rho x = rho y -> x = y) ->
  forall g g', (forall n, g' (rho n) = map rho (g n)) ->
  forall fuel roots, reach_order fuel g' (map rho roots) = option_map (map rho) (reach_order fuel g roots).
Proof. exact reach_order_equiv. Qed.
Print Assumptions dfs_equivariant.

(* hence the stable index of a file is independent of its arrival-order index *)
Theorem stable_index_invariant :
  forall (rho : Z -> Z), (forall x y, rho x = rho y -> x = y) ->
  forall g g', (forall n, g' (rho n) = map rho (g n)) ->
  forall fuel roots o o' n, reach_order fuel g roots = Some o -> reach_order fuel g' (map rho roots) = Some o' ->
    index_of (rho n) o' = index_of n o.
Proof. exact stable_index_equiv. Qed.
Print Assumptions stable_index_invariant.

(* ================= helpers.Serializer ================= *)

(* every complete run, whatever the interleaving and the number of workers,
   executes the critical sections exactly once each, in index order *)
Theorem serializer_order :
  forall n tr s, srun n sinit tr = Some s -> all_left n s = true -> slog s = seq 0 n.
Proof. exact serializer_order_all. Qed.
Print Assumptions serializer_order.

(* at every moment of every run the executed critical sections are 0,1,..,k-1 *)
Theorem serializer_prefix_order :
  forall n tr s, srun n sinit tr = Some s -> exists k, (k <= n)%nat /\ slog s = seq 0 k.
Proof. exact serializer_prefix. Qed.
Print Assumptions serializer_prefix_order.

Theorem serializer_mutual_exclusion :
  forall n tr s i j, srun n sinit tr = Some s -> inside (pc s i) -> inside (pc s j) -> i = j.
Proof. exact serializer_mutex_all. Qed.
Print Assumptions serializer_mutual_exclusion.

Theorem serializer_no_deadlock :
  forall n tr s, srun n sinit tr = Some s -> all_left n s = false -> exists e s', sstep n s e = Some s'.
Proof. exact serializer_progress_all. Qed.
Print Assumptions serializer_no_deadlock.

(* ================= inventory of map iterations (regenerated by T4) ================= *)

(* every `for range <map>` of the scanned packages is classified, and the
   translator resolved the operand type of every range statement *)
Theorem all_map_sites_classified :
  (forall s, In s map_sites -> exists c, class_of s = Some c) /\ unresolved_range_sites = nil.
Proof. exact (conj classified_forall no_unresolved). Qed.
Print Assumptions all_map_sites_classified.

(* every site has a class that is order-insensitive (sorted afterwards with a
   total comparator, commutative fold, per-key write, located diagnostics that
   are sorted, debug-level log only, dead code).  The seven option validators
   of finding C08-G2 were the counterexamples until fix 0b86dd3. *)
Theorem all_map_sites_ordered : forall s, In s map_sites -> site_ordered s = true.
Proof. exact all_ordered_forall. Qed.
Print Assumptions all_map_sites_ordered.

(* every site classified "sorted afterwards" is still followed by a sort.* call
   in its function (before the next map-range loop) in the current sources *)
Theorem sorted_after_sites_have_sort :
  forall s how, In s map_sites -> class_of s = Some (SortedAfter how) ->
  existsb (site_eqb s) sites_with_sort_after = true.
Proof. exact sorted_after_forall. Qed.
Print Assumptions sorted_after_sites_have_sort.

(* ================= deepening round ================= *)

(* ---- stable sorts: the result is determined by the multiset and by the
   arrival order inside each tie class ---- *)
Theorem stable_sort_determined_by_tie_classes :
  forall (A : Type) (ltb : A -> A -> bool), StrictWeak ltb ->
  forall s s', SortedBy ltb s -> SortedBy ltb s' -> Permutation s s' ->
    (forall k, filter (tied ltb k) s = filter (tied ltb k) s') -> s = s'.
Proof. exact (@sorted_classes_unique). Qed.
Print Assumptions stable_sort_determined_by_tie_classes.

Theorem stable_sort_invariant :
  forall (A : Type) (ltb : A -> A -> bool), StrictWeak ltb ->
  forall l l', Permutation l l' -> (forall k, filter (tied ltb k) l = filter (tied ltb k) l') ->
    isort ltb l = isort ltb l'.
Proof. exact (@stable_sort_invariant_gen). Qed.
Print Assumptions stable_sort_invariant.

(* ---- diagnostics: what makes the final message list schedule-independent:
   same messages, same relative order of the location-less ones, and located
   messages with equal (file, line, column, kind, text) identical ---- *)
Theorem diagnostics_schedule_independent :
  forall l l', Permutation l l' ->
  filter locless l = filter locless l' ->
  (forall a b, In a l -> In b l -> locless a = false -> msg_key a = msg_key b -> a = b) ->
  isort msg_less l = isort msg_less l'.
Proof. exact msgs_schedule_independent_gen. Qed.
Print Assumptions diagnostics_schedule_independent.
(* the middle hypothesis cannot be dropped (findings C08-G1/G2/G3 were its violations) *)
Theorem diagnostics_without_locationless_order_refuted :
  exists l l', Permutation l l' /\
    (forall a b, In a l -> In b l -> locless a = false -> msg_key a = msg_key b -> a = b) /\
    isort msg_less l <> isort msg_less l'.
Proof. exact msgs_schedule_dependent_witness. Qed.
Print Assumptions diagnostics_without_locationless_order_refuted.

(* ---- the scan phase as a transition system ---- *)
(* DFS equivariance when the renamed graph is known only on a closed set of files *)
Theorem dfs_equivariant_on_closed_set :
  forall (rho : Z -> Z), (forall x y, rho x = rho y -> x = y) ->
  forall g g' (S : Z -> Prop), (forall n c, S n -> In c (g n) -> S c) ->
  (forall n, S n -> g' (rho n) = map rho (g n)) ->
  forall fuel roots, (forall r, In r roots -> S r) ->
  reach_order fuel g' (map rho roots) = option_map (map rho) (reach_order fuel g roots).
Proof. exact reach_order_equiv_on. Qed.
Print Assumptions dfs_equivariant_on_closed_set.

(* whatever the order in which parse results arrive, source indices are an injective renaming of files *)
Theorem scan_allocation_injective :
  forall imports roots sched st, run_scan imports (fst (scan_init roots)) sched = Some st ->
  forall f g, index_of_file st f = index_of_file st g -> f = g.
Proof. exact scan_allocation_injective_gen. Qed.
Print Assumptions scan_allocation_injective.

(* ... and when all results have arrived, the import records hold the renamed file graph *)
Theorem scan_graph_is_renamed :
  forall imports roots sched st, run_scan imports (fst (scan_init roots)) sched = Some st -> scan_complete st = true ->
  forall f i, lookupz f (sc_vis st) = Some i -> graph_of_scan st i = map (index_of_file st) (imports f).
Proof. exact scan_graph_is_renamed_gen. Qed.
Print Assumptions scan_graph_is_renamed.

(* hence, for EVERY schedule, the stable (DFS) order computed from the
   scanner's output is the file-level DFS order, renamed by that run *)
Theorem scan_stable_order_schedule_independent :
  forall imports roots sched st fuel,
  run_scan imports (fst (scan_init roots)) sched = Some st -> scan_complete st = true ->
  snd (scan_init roots) = map (index_of_file st) roots /\
  reach_order fuel (graph_of_scan st) (map (index_of_file st) roots)
  = option_map (map (index_of_file st)) (reach_order fuel imports roots).
Proof. exact scan_stable_order. Qed.
Print Assumptions scan_stable_order_schedule_independent.

(* a consumer ordering items by (StableSourceIndices[src], inner) sees the same
   FILE-level order in any two complete runs *)
Theorem linker_stable_sort_schedule_independent :
  forall imports roots sched1 sched2 st1 st2 fuel,
  run_scan imports (fst (scan_init roots)) sched1 = Some st1 ->
  run_scan imports (fst (scan_init roots)) sched2 = Some st2 ->
  scan_complete st1 = true -> scan_complete st2 = true ->
  forall items,
    isort (fun a b => stableRef_less (as_stable_ref st1 (linker_order st1 fuel roots) a) (as_stable_ref st1 (linker_order st1 fuel roots) b)) items
    = isort (fun a b => stableRef_less (as_stable_ref st2 (linker_order st2 fuel roots) a) (as_stable_ref st2 (linker_order st2 fuel roots) b)) items.
Proof. exact stable_sort_two_schedules. Qed.
Print Assumptions linker_stable_sort_schedule_independent.

(* with the raw arrival-order index as key (the seeded change in
   renameSymbolsInChunk) the full statement is false: two schedules, two orders *)
Theorem raw_source_index_sort_key_refuted :
  exists st1 st2,
    run_scan ex_imports (fst (scan_init ex_roots)) ex_sched1 = Some st1 /\ scan_complete st1 = true /\
    run_scan ex_imports (fst (scan_init ex_roots)) ex_sched2 = Some st2 /\ scan_complete st2 = true /\
    isort (fun a b => stableRef_less (as_raw_ref st1 a) (as_raw_ref st1 b)) ex_items
    <> isort (fun a b => stableRef_less (as_raw_ref st2 a) (as_raw_ref st2 b)) ex_items.
Proof. exact raw_index_sort_schedule_dependent. Qed.
Print Assumptions raw_source_index_sort_key_refuted.

(* the hypothesis "order-sensitive consumers use the stable index", tied to the
   source: every stableRef / StableSymbolCount / chunkOrder literal takes its key
   from StableSourceIndices, no comparator reads a raw source index, and nothing
   sorted with sort.Ints/sort.Strings is built from one (regenerated by T4) *)
Theorem no_raw_source_index_sort_keys :
  (forall f g fld e b, In (f, g, fld, e, b) stable_key_inits -> b = true) /\
  (forall u, In u less_raw_index_uses -> existsb (triple_eqb u) allowed_less_raw_uses = true) /\
  (forall f g srt e b, In (f, g, srt, e, b) sorted_append_exprs -> b = false).
Proof. exact (conj stable_key_inits_forall (conj less_raw_uses_allowed sorted_appends_forall)). Qed.
Print Assumptions no_raw_source_index_sort_keys.

(* ---- per-site statements for the regular collect-then-sort sites (T4) ---- *)
Theorem regular_sites_order_independent :
  forall s k, In (s, k) regular_collect_sort_sites ->
  sorter_statement k /\ (exists how, class_of s = Some (SortedAfter how)).
Proof. exact regular_sites_forall. Qed.
Print Assumptions regular_sites_order_independent.

(* the sites classified "sorted afterwards" are exactly the regular ones plus five listed by name *)
Theorem sorted_after_sites_regular_or_listed : sorted_after_regular_or_listed = true.
Proof. exact sorted_after_regular_or_listed_true. Qed.
Print Assumptions sorted_after_sites_regular_or_listed.

(* ================= round 2 ================= *)

(* ---- (a) the scan phase terminates and parses exactly the reachable files ---- *)
Theorem scan_visits_exactly_reachable :
  forall imports roots sched st,
  run_scan imports (fst (scan_init roots)) sched = Some st -> scan_complete st = true ->
  forall f, visited st f <-> reach imports roots f.
Proof. exact scan_visits_exactly_reachable_gen. Qed.
Print Assumptions scan_visits_exactly_reachable.

(* no run, under any schedule, receives more results than there are files *)
Theorem scan_run_bounded :
  forall imports roots universe, (forall r, In r roots -> In r universe) ->
  (forall f c, In f universe -> In c (imports f) -> In c universe) ->
  forall sched st, run_scan imports (fst (scan_init roots)) sched = Some st ->
  (length sched + length (sc_pend st) = length (sc_vis st))%nat /\ (length sched <= length universe)%nat.
Proof. exact scan_run_bounded_gen. Qed.
Print Assumptions scan_run_bounded.

(* no deadlock: a pending result can always be received, and every run can be completed *)
Theorem scan_can_complete :
  forall imports roots universe, (forall r, In r roots -> In r universe) ->
  (forall f c, In f universe -> In c (imports f) -> In c universe) ->
  forall sched st, run_scan imports (fst (scan_init roots)) sched = Some st ->
  exists more st', run_scan imports st more = Some st' /\ scan_complete st' = true.
Proof. exact scan_can_complete_gen. Qed.
Print Assumptions scan_can_complete.

(* FULL schedule independence of the scan phase: two complete runs have the
   same outcome up to the renaming of source indices *)
Theorem scan_phase_schedule_independent :
  forall imports roots sched1 sched2 st1 st2,
  run_scan imports (fst (scan_init roots)) sched1 = Some st1 -> scan_complete st1 = true ->
  run_scan imports (fst (scan_init roots)) sched2 = Some st2 -> scan_complete st2 = true ->
  (forall f, visited st1 f <-> visited st2 f) /\
  sc_next st1 = sc_next st2 /\
  (forall f, visited st1 f ->
     graph_of_scan st1 (index_of_file st1 f) = map (index_of_file st1) (imports f) /\
     graph_of_scan st2 (index_of_file st2 f) = map (index_of_file st2) (imports f)) /\
  (forall f g, index_of_file st1 f = index_of_file st1 g -> f = g) /\
  (forall f g, index_of_file st2 f = index_of_file st2 g -> f = g).
Proof. exact scan_phase_schedule_independent_gen. Qed.
Print Assumptions scan_phase_schedule_independent.

(* ---- (b) per-site models beyond the regular shape ---- *)
(* the five irregular sorted-afterwards sites: each has its own model and theorem *)
Theorem irregular_sites_order_independent :
  (forall s P, In (s, P) irregular_models -> P) /\
  list_eqb site_eqb (map fst irregular_models) irregular_sorted_after = true.
Proof. exact (conj irregular_models_hold irregular_models_cover). Qed.
Print Assumptions irregular_sites_order_independent.

(* the fold sites whose body T4 recognises as set-insert / per-key-write / flag-or / sum *)
Theorem shaped_fold_sites_order_independent :
  forall s k, In (s, k) shaped_fold_sites -> shape_statement k /\ fold_class s = true.
Proof. exact shaped_sites_forall. Qed.
Print Assumptions shaped_fold_sites_order_independent.

(* ---- (c) hashing and naming (composition with C18) ---- *)
(* the order of files inside a chunk is the same, as files, in any two runs *)
Theorem chunk_file_order_schedule_independent :
  forall imports roots sched1 sched2 st1 st2 fuel (dist : Z -> Z),
  run_scan imports (fst (scan_init roots)) sched1 = Some st1 ->
  run_scan imports (fst (scan_init roots)) sched2 = Some st2 ->
  scan_complete st1 = true -> scan_complete st2 = true ->
  forall files,
    isort (fun a b => chunkOrder_less (as_chunk_order st1 (linker_order st1 fuel roots) dist a) (as_chunk_order st1 (linker_order st1 fuel roots) dist b)) files
    = isort (fun a b => chunkOrder_less (as_chunk_order st2 (linker_order st2 fuel roots) dist a) (as_chunk_order st2 (linker_order st2 fuel roots) dist b)) files.
Proof. exact chunk_order_two_schedules. Qed.
Print Assumptions chunk_file_order_schedule_independent.

(* if two builds agree chunk by chunk on the hash ingredients (C18), the path
   template, the cross-chunk import indices and the asset references, then the
   streams hashed into the final hashes agree ... *)
Theorem final_hash_streams_schedule_independent :
  forall (H : bytes -> bytes) public asset_rel cs1 cs2, lists_agree public asset_rel cs1 cs2 ->
  C18.Hash.final_streams H public asset_rel cs1 = C18.Hash.final_streams H public asset_rel cs2.
Proof. exact final_streams_agree. Qed.
Print Assumptions final_hash_streams_schedule_independent.
(* ... and so do all output names *)
Theorem final_names_schedule_independent :
  forall (H : bytes -> bytes) public asset_rel cs1 cs2, lists_agree public asset_rel cs1 cs2 ->
  names_of H public asset_rel cs1 = names_of H public asset_rel cs2.
Proof. exact names_agree. Qed.
Print Assumptions final_names_schedule_independent.

(* ---- (d) metafile (composition with C19) ---- *)
(* a list rendered per reachable file, in stable order, is the same in any two runs *)
Theorem metafile_inputs_order_schedule_independent :
  forall imports roots sched1 sched2 st1 st2 fuel,
  run_scan imports (fst (scan_init roots)) sched1 = Some st1 ->
  run_scan imports (fst (scan_init roots)) sched2 = Some st2 ->
  scan_complete st1 = true -> scan_complete st2 = true ->
  forall (A : Type) (D d1 d2 : Z -> A),
  (forall f, d1 (index_of_file st1 f) = D f) -> (forall f, d2 (index_of_file st2 f) = D f) ->
  option_map (map d1) (linker_order st1 fuel roots) = option_map (map d2) (linker_order st2 fuel roots).
Proof. exact (fun imports roots s1 s2 st1 st2 fuel r1 r2 d1 d2 A => per_file_lists_agree imports roots s1 s2 st1 st2 fuel r1 r2 d1 d2 (A:=A)). Qed.
Print Assumptions metafile_inputs_order_schedule_independent.

(* the bytes of the metafile (C19 metafile_of) are the same in any two runs *)
Theorem metafile_schedule_independent :
  forall imports roots sched1 sched2 st1 st2 fuel,
  run_scan imports (fst (scan_init roots)) sched1 = Some st1 ->
  run_scan imports (fst (scan_init roots)) sched2 = Some st2 ->
  scan_complete st1 = true -> scan_complete st2 = true ->
  forall mini ascii prefix nf nc pathOf (Din din1 din2 : Z -> C19.Doc.input)
         (sort : list (list Z) -> list (list Z)) (Cout : list Z -> C19.Doc.chunk) keys1 keys2
         (extra : list (bytes * C19.Doc.chunk)) o1 o2,
  (forall f, din1 (index_of_file st1 f) = Din f) -> (forall f, din2 (index_of_file st2 f) = Din f) ->
  linker_order st1 fuel roots = Some o1 -> linker_order st2 fuel roots = Some o2 ->
  IsSort str_ltb sort -> Permutation keys1 keys2 ->
  C19.Doc.metafile_of mini ascii prefix nf nc pathOf (map din1 o1)
      (C19.DocProofs.link_results pathOf extra (map Cout (sort keys1)))
  = C19.Doc.metafile_of mini ascii prefix nf nc pathOf (map din2 o2)
      (C19.DocProofs.link_results pathOf extra (map Cout (sort keys2))).
Proof. exact metafile_two_schedules. Qed.
Print Assumptions metafile_schedule_independent.

(* ---- the paths that reach a chunk hash do not depend on the location of the
   project or on the log path style: over the regenerated inventories of
   generateIsolatedHash (writes: c18hashinv; definitions of the written local
   variables: t4mapsites), nothing mentions LogPathStyle / Select( / .Abs /
   AbsPath / Cwd / AbsWorkingDir, and the file path is PrettyPaths.Rel ---- *)
Theorem hash_path_ingredients_are_relative :
  (forall k e g, In (k, e, g) iso_writes -> location_free e = true) /\
  (forall v e, In (v, e) hash_operand_definitions -> location_free e = true) /\
  In ("filePath", "file.InputFile.Source.PrettyPaths.Rel")%string hash_operand_definitions.
Proof. exact (conj hash_writes_location_free (conj hash_operands_location_free hash_file_path_is_relative)). Qed.
Print Assumptions hash_path_ingredients_are_relative.
