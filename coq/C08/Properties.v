(* C08 property theorems. Only statements closed by [exact lemma] + Print Assumptions. *)
From V Require Import Common.Base C08.SortPerm C08.Comparators C08.CmpTheory C08.ComparatorProofs.
From Coq Require Import Permutation Sorted.

(* Whatever algorithm sorts (sort.Sort is unstable): if Less is a strict weak
   order and no two distinct elements are tied, the result does not depend on
   the order in which the elements arrived (map iteration, goroutine arrival). *)
Theorem sort_perm_invariant :
  forall (A : Type) (ltb : A -> A -> bool), StrictWeak ltb ->
  forall l l' s s', Permutation l l' -> TotalOn ltb l ->
    Permutation l s -> SortedBy ltb s -> Permutation l' s' -> SortedBy ltb s' -> s = s'.
Proof. exact (@sort_perm_invariant_gen). Qed.
Print Assumptions sort_perm_invariant.
