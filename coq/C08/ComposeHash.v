(* C08 x C18: output names are functions of schedule-independent ingredients.
   C18 models generateIsolatedHash as the encoding of an explicit ingredient
   list (isolated_stream_is_its_ingredients) and the final hash of a chunk as
   H over the items of the chunks reachable through crossChunkImports; the
   final name substitutes that hash into the path template.  Here: if two
   builds (two schedules) produce chunk lists that agree, chunk by chunk, on
   the ingredient list, the path template, the cross-chunk import indices and
   the asset references, then every final hash stream, hence every final
   name, is the same.
   Which ingredients the C08 theorems already cover:
     tags 1,2 (namespace, pretty path of each part's file)  file identity: intrinsic, no source index inside
     tags 3,4 + ORDER of parts   partsInChunkInOrder = findImportedPartsInJSOrder: chunkOrderArray
                                 (distance, StableSourceIndices) -> chunkOrderArray_order/_total_on_domain,
                                 scan_stable_order_schedule_independent, no_raw_source_index_sort_keys
     tag 5 template parts        entry name / "chunk": intrinsic
     c_imports (and chunk ORDER) computeChunks sort.Strings keys (regular_sites_order_independent),
                                 crossChunkImportArray_order, sortedCrossChunkImports
     tags 7,8 piece data         printed code with unique keys cut out: renaming by StableSymbolCountArray /
                                 stableRefArray sorts is covered; the printers themselves are exercised only
     tags 9-11 source map        exercised only (glue) *)
From V Require Import Common.Base C18.Pieces C18.Hash C18.HashProofs C18.Ingredients.

Section SameNames.
  Variable H : bytes -> bytes.
  Variable public : bytes.
  Variable asset_rel : Z -> bytes.

  (* what the final-hash computation reads of a chunk *)
  Definition hash_view_eq (a b : chunk) : Prop :=
    iso_ingredients public a = iso_ingredients public b /\
    c_template a = c_template b /\ c_imports a = c_imports b /\
    assets_stream asset_rel a = assets_stream asset_rel b.

  Definition lists_agree (cs1 cs2 : list chunk) : Prop := Forall2 hash_view_eq cs1 cs2.

  Lemma iso_hash_eq a b : hash_view_eq a b -> iso_hash H public a = iso_hash H public b.
  Proof.
    intros (Hi & _). unfold iso_hash. now rewrite !isolated_stream_is_ingredients, Hi.
  Qed.
  Lemma item_eq a b : hash_view_eq a b -> item H public asset_rel a = item H public asset_rel b.
  Proof. intros Hv. unfold item. destruct Hv as (Hi & Ht & Hm & Ha). rewrite Ha. f_equal. apply iso_hash_eq. repeat split; auto. Qed.

  Lemma agree_nth cs1 cs2 : lists_agree cs1 cs2 -> forall i,
    match nth_error cs1 i, nth_error cs2 i with
    | Some a, Some b => hash_view_eq a b
    | None, None => True
    | _, _ => False
    end.
  Proof.
    induction 1 as [|a b l1 l2 Hab _ IH]; intros [|i]; cbn [nth_error]; auto. apply IH.
  Qed.
  Lemma agree_length cs1 cs2 : lists_agree cs1 cs2 -> length cs1 = length cs2.
  Proof. induction 1; cbn [length]; congruence. Qed.

  Lemma templates_agree_gen l1 l2 : lists_agree l1 l2 -> map c_template l1 = map c_template l2.
  Proof. induction 1 as [|a b r1 r2 (_ & Ht & _) _ IH]; cbn [map]; congruence. Qed.

  Lemma names_map_agree l1 l2 : lists_agree l1 l2 -> forall ss : list (option bytes),
    map (fun cs' : chunk * option bytes => final_name (c_template (fst cs')) (option_map H (snd cs'))) (combine l1 ss)
    = map (fun cs' : chunk * option bytes => final_name (c_template (fst cs')) (option_map H (snd cs'))) (combine l2 ss).
  Proof.
    induction 1 as [|a b r1 r2 (_ & Ht & _) _ IH]; intros [|s ss]; cbn [combine map fst snd]; try reflexivity.
    rewrite Ht, IH. reflexivity.
  Qed.

  Variables cs1 cs2 : list chunk.
  Hypothesis AG : lists_agree cs1 cs2.

  Lemma visit_all_ext (r1 r2 : list Z -> nat -> option (list Z * list nat)) :
    (forall vis j, r1 vis j = r2 vis j) -> forall l vis, visit_all r1 l vis = visit_all r2 l vis.
  Proof.
    intros HE. induction l as [|j r IH]; intro vis; cbn [visit_all]; [reflexivity|].
    rewrite HE. destruct (r2 vis j) as [[v1 o1]|]; [|reflexivity]. now rewrite IH.
  Qed.

  Lemma dfs_agree : forall fuel vis key i, dfs cs1 fuel vis key i = dfs cs2 fuel vis key i.
  Proof.
    induction fuel as [|f IH]; intros vis key i; cbn [dfs]; [reflexivity|].
    pose proof (agree_nth cs1 cs2 AG i) as Hn.
    destruct (nth_error vis i) as [stamp|]; [|reflexivity].
    destruct (nth_error cs1 i) as [a|], (nth_error cs2 i) as [b|]; try contradiction; [|reflexivity].
    destruct (stamp =? key); [reflexivity|].
    destruct Hn as (_ & _ & Hm & _). rewrite Hm.
    rewrite (visit_all_ext (fun v j => dfs cs1 f v key j) (fun v j => dfs cs2 f v key j)) by (intros; apply IH).
    reflexivity.
  Qed.

  Lemma stream_of_order_agree o :
    stream_of_order H public asset_rel cs1 o = stream_of_order H public asset_rel cs2 o.
  Proof.
    unfold stream_of_order. f_equal. apply map_ext. intro i.
    pose proof (agree_nth cs1 cs2 AG i) as Hn.
    destruct (nth_error cs1 i) as [a|], (nth_error cs2 i) as [b|]; try contradiction; [now apply item_eq | reflexivity].
  Qed.

  Lemma final_loop_agree : forall idxs vis,
    final_loop H public asset_rel cs1 idxs vis = final_loop H public asset_rel cs2 idxs vis.
  Proof.
    induction idxs as [|i r IH]; intro vis; cbn [final_loop]; [reflexivity|].
    pose proof (agree_nth cs1 cs2 AG i) as Hn.
    destruct (nth_error cs1 i) as [a|], (nth_error cs2 i) as [b|]; try contradiction; [|reflexivity].
    destruct Hn as (_ & Ht & _ & _). rewrite Ht, (agree_length _ _ AG), dfs_agree.
    destruct (has_hash (c_template b)).
    - destruct (dfs cs2 (S (length cs2)) vis (stamp_of i) i) as [[v o]|]; [|reflexivity].
      rewrite IH, stream_of_order_agree. reflexivity.
    - now rewrite IH.
  Qed.

  (* the streams hashed into the final hashes agree for every chunk *)
  Lemma final_streams_agree :
    final_streams H public asset_rel cs1 = final_streams H public asset_rel cs2.
  Proof. unfold final_streams. rewrite (agree_length _ _ AG). apply final_loop_agree. Qed.

  (* hence the final names: template with the hash of that stream substituted *)
  Definition names_of (cs : list chunk) : option (list bytes) :=
    match final_streams H public asset_rel cs with
    | Some ss => Some (map (fun cs' : chunk * option bytes => final_name (c_template (fst cs')) (option_map H (snd cs')))
                           (combine cs ss))
    | None => None
    end.

  Lemma templates_agree : map c_template cs1 = map c_template cs2.
  Proof. exact (templates_agree_gen cs1 cs2 AG). Qed.

  Lemma names_agree : names_of cs1 = names_of cs2.
  Proof.
    unfold names_of. rewrite final_streams_agree.
    destruct (final_streams H public asset_rel cs2) as [ss|]; [|reflexivity]. f_equal.
    exact (names_map_agree cs1 cs2 AG ss).
  Qed.
End SameNames.
