(* C08 x C19: the metafile is rendered from two ordered lists (C19
   metafile_faithful: inputs in order, outputs in order, first result wins).
   Their ORDER is schedule-independent:
     inputs   bundler.generateMetadataJSON walks allReachableFiles = the stable
              (DFS) order; each entry describes one file (path, bytes, imports by
              path, format): a function of the file, not of its source index
     outputs  the results of the link: additional files in reachable-file order,
              then the chunks in the order computeChunks fixes by sort.Strings
              over the entry-bit keys (a regular collect-then-sort site)
   so two complete runs render byte-identical metafiles whenever the per-file
   and per-chunk descriptions are the same functions of file / chunk key.
   The order of the LOG is diagnostics_schedule_independent. *)
From V Require Import Common.Base C08.SortPerm C08.Comparators C08.CmpTheory C08.ComparatorProofs
  C08.Dfs C08.DfsProofs C08.Scanner C08.ScannerProofs C08.Consumers C08.CollectSort.
From V Require C19.Doc C19.DocProofs.
From Coq Require Import Permutation.
Open Scope list_scope.

Section MetafileOrder.
  Variable imports : Z -> list Z.
  Variables (roots sched1 sched2 : list Z) (st1 st2 : scan) (fuel : nat).
  Hypothesis run1 : run_scan imports (fst (scan_init roots)) sched1 = Some st1.
  Hypothesis run2 : run_scan imports (fst (scan_init roots)) sched2 = Some st2.
  Hypothesis done1 : scan_complete st1 = true.
  Hypothesis done2 : scan_complete st2 = true.

  (* any per-index description that is really a description D of the file *)
  Lemma per_file_lists_agree {A} (D : Z -> A) (d1 d2 : Z -> A) :
    (forall f, d1 (index_of_file st1 f) = D f) -> (forall f, d2 (index_of_file st2 f) = D f) ->
    option_map (map d1) (linker_order st1 fuel roots) = option_map (map d2) (linker_order st2 fuel roots).
  Proof.
    intros H1 H2.
    assert (E1 : linker_order st1 fuel roots = option_map (map (index_of_file st1)) (reach_order fuel imports roots)).
    { unfold linker_order. destruct (scan_stable_order imports roots sched1 st1 fuel run1 done1) as [Hr Ho]. now rewrite Hr. }
    assert (E2 : linker_order st2 fuel roots = option_map (map (index_of_file st2)) (reach_order fuel imports roots)).
    { unfold linker_order. destruct (scan_stable_order imports roots sched2 st2 fuel run2 done2) as [Hr Ho]. now rewrite Hr. }
    rewrite E1, E2. destruct (reach_order fuel imports roots) as [o|]; cbn [option_map]; [|reflexivity].
    f_equal. rewrite !map_map. apply map_ext. intro f. now rewrite H1, H2.
  Qed.

  (* chunks: the keys collected from a map in any order, sorted by sort.Strings *)
  Lemma per_key_lists_agree {A} (sort : list (list Z) -> list (list Z)) (C : list Z -> A) keys1 keys2 :
    IsSort str_ltb sort -> Permutation keys1 keys2 -> map C (sort keys1) = map C (sort keys2).
  Proof.
    intros HS HP. f_equal.
    pose proof (stmt_strings_holds (list Z) sort [] (fun k => k) keys1 keys2 HS HP) as H.
    unfold collect_then_sort in H. cbn [app] in H. now rewrite !map_id in H.
  Qed.

  (* the rendered metafile *)
  Lemma metafile_two_schedules mini ascii prefix nf nc pathOf
        (Din : Z -> C19.Doc.input) (din1 din2 : Z -> C19.Doc.input)
        (sort : list (list Z) -> list (list Z)) (Cout : list Z -> C19.Doc.chunk) keys1 keys2
        (extra : list (bytes * C19.Doc.chunk)) o1 o2 :
    (forall f, din1 (index_of_file st1 f) = Din f) -> (forall f, din2 (index_of_file st2 f) = Din f) ->
    linker_order st1 fuel roots = Some o1 -> linker_order st2 fuel roots = Some o2 ->
    IsSort str_ltb sort -> Permutation keys1 keys2 ->
    C19.Doc.metafile_of mini ascii prefix nf nc pathOf (map din1 o1)
        (C19.DocProofs.link_results pathOf extra (map Cout (sort keys1)))
    = C19.Doc.metafile_of mini ascii prefix nf nc pathOf (map din2 o2)
        (C19.DocProofs.link_results pathOf extra (map Cout (sort keys2))).
  Proof.
    intros H1 H2 E1 E2 HS HP.
    pose proof (per_file_lists_agree Din din1 din2 H1 H2) as Hin. rewrite E1, E2 in Hin. cbn [option_map] in Hin.
    inversion Hin as [Hin']. rewrite Hin', (per_key_lists_agree sort Cout keys1 keys2 HS HP). reflexivity.
  Qed.
End MetafileOrder.
