(* C08: a consumer that orders things by (stable source index, inner index)
   gets the same FILE-level order for every schedule of the scanner; a consumer
   that uses the raw arrival-order source index as sort key does not.  The
   hypothesis "every order-sensitive consumer goes through StableSourceIndices"
   is tied to the source by the translator inventory V.gen.SortKeysGen. *)
From V Require Import Common.Base C08.SortPerm C08.Comparators C08.Dfs C08.DfsProofs C08.Scanner C08.ScannerProofs.

Lemma isort_ext {A} (l1 l2 : A -> A -> bool) : (forall a b, l1 a b = l2 a b) -> forall l, isort l1 l = isort l2 l.
Proof.
  intros HE. assert (HI : forall x l, insert l1 x l = insert l2 x l).
  { intros x l. induction l as [|y r IH]; cbn [insert]; [reflexivity|]. rewrite HE, IH. reflexivity. }
  induction l as [|x r IH]; cbn [isort]; [reflexivity|]. now rewrite IH, HI.
Qed.

(* graph.CloneLinkerGraph: stableSourceIndices[sourceIndex] = position in the reachable-file order *)
Definition stable_of (order : option (list Z)) (i : Z) : Z :=
  match order with
  | Some o => match index_of i o with Some p => p | None => -1 end
  | None => -1
  end.

(* an item = (file, inner index); how the linker sees it in a given run *)
Definition as_stable_ref (st : scan) (order : option (list Z)) (it : Z * Z) : stableRef :=
  let i := index_of_file st (fst it) in mkSR (stable_of order i) (mkRef i (snd it)).
(* the seeded defect: the raw arrival-order index used where the stable index belongs *)
Definition as_raw_ref (st : scan) (it : Z * Z) : stableRef :=
  let i := index_of_file st (fst it) in mkSR i (mkRef i (snd it)).

Definition linker_order (st : scan) (fuel : nat) (roots : list Z) : option (list Z) :=
  reach_order fuel (graph_of_scan st) (snd (scan_init roots)).

Section TwoSchedules.
  Variable imports : Z -> list Z.
  Variables (roots sched1 sched2 : list Z) (st1 st2 : scan) (fuel : nat).
  Hypothesis run1 : run_scan imports (fst (scan_init roots)) sched1 = Some st1.
  Hypothesis run2 : run_scan imports (fst (scan_init roots)) sched2 = Some st2.
  Hypothesis done1 : scan_complete st1 = true.
  Hypothesis done2 : scan_complete st2 = true.

  Lemma stable_of_file st sched : run_scan imports (fst (scan_init roots)) sched = Some st -> scan_complete st = true ->
    forall f, stable_of (linker_order st fuel roots) (index_of_file st f) = stable_of (reach_order fuel imports roots) f.
  Proof.
    intros Hrun Hdone f. unfold linker_order.
    destruct (scan_stable_order imports roots sched st fuel Hrun Hdone) as [Hr Ho].
    rewrite Hr, Ho. destruct (reach_order fuel imports roots) as [o|]; cbn [option_map stable_of]; [|reflexivity].
    destruct (init_inv imports roots) as [HI0 _]. destruct (run_inv imports sched _ st HI0 Hrun) as [[HI _] _].
    now rewrite (index_of_map (index_of_file st) (index_of_file_inj imports st HI)).
  Qed.

  (* both runs order any items identically, as files *)
  Lemma stable_sort_two_schedules items :
    isort (fun a b => stableRef_less (as_stable_ref st1 (linker_order st1 fuel roots) a) (as_stable_ref st1 (linker_order st1 fuel roots) b)) items
    = isort (fun a b => stableRef_less (as_stable_ref st2 (linker_order st2 fuel roots) a) (as_stable_ref st2 (linker_order st2 fuel roots) b)) items.
  Proof.
    apply isort_ext. intros a b. unfold as_stable_ref, stableRef_less. cbn [sr_stable sr_ref r_inner].
    now rewrite !(stable_of_file st1 sched1 run1 done1), !(stable_of_file st2 sched2 run2 done2).
  Qed.
End TwoSchedules.

(* with the raw index as key the order depends on the schedule: files 1 and 2
   are imported by the entry points 10 and 20; whichever result arrives first
   decides which of them gets the smaller source index *)
Definition ex_imports (f : Z) : list Z := if f =? 10 then [1] else if f =? 20 then [2] else [].
Definition ex_roots : list Z := [0; 10; 20].
Definition ex_sched1 : list Z := [0; 10; 20; 1; 2].
Definition ex_sched2 : list Z := [0; 20; 10; 2; 1].
Definition ex_items : list (Z * Z) := [(1, 0); (2, 0)].

Lemma raw_index_sort_schedule_dependent :
  exists st1 st2,
    run_scan ex_imports (fst (scan_init ex_roots)) ex_sched1 = Some st1 /\ scan_complete st1 = true /\
    run_scan ex_imports (fst (scan_init ex_roots)) ex_sched2 = Some st2 /\ scan_complete st2 = true /\
    isort (fun a b => stableRef_less (as_raw_ref st1 a) (as_raw_ref st1 b)) ex_items
    <> isort (fun a b => stableRef_less (as_raw_ref st2 a) (as_raw_ref st2 b)) ex_items.
Proof.
  destruct (run_scan ex_imports (fst (scan_init ex_roots)) ex_sched1) as [st1|] eqn:E1; [|vm_compute in E1; discriminate].
  destruct (run_scan ex_imports (fst (scan_init ex_roots)) ex_sched2) as [st2|] eqn:E2; [|vm_compute in E2; discriminate].
  exists st1, st2. vm_compute in E1, E2. inversion E1; inversion E2; subst.
  repeat split; try reflexivity. vm_compute. discriminate.
Qed.

(* the same for the order of files inside a chunk (findImportedPartsInJSOrder):
   chunkOrder{sourceIndex, distance, tieBreaker = StableSourceIndices[sourceIndex]};
   the distance from the entry point is a property of the file *)
Definition as_chunk_order (st : scan) (order : option (list Z)) (dist : Z -> Z) (f : Z) : chunkOrder :=
  let i := index_of_file st f in mkCO i (dist f) (stable_of order i).

Lemma chunk_order_two_schedules imports roots sched1 sched2 st1 st2 fuel (dist : Z -> Z) :
  run_scan imports (fst (scan_init roots)) sched1 = Some st1 ->
  run_scan imports (fst (scan_init roots)) sched2 = Some st2 ->
  scan_complete st1 = true -> scan_complete st2 = true ->
  forall files,
    isort (fun a b => chunkOrder_less (as_chunk_order st1 (linker_order st1 fuel roots) dist a) (as_chunk_order st1 (linker_order st1 fuel roots) dist b)) files
    = isort (fun a b => chunkOrder_less (as_chunk_order st2 (linker_order st2 fuel roots) dist a) (as_chunk_order st2 (linker_order st2 fuel roots) dist b)) files.
Proof.
  intros R1 R2 D1 D2 files. apply isort_ext. intros a b. unfold as_chunk_order, chunkOrder_less. cbn [co_dist co_tie].
  now rewrite !(stable_of_file imports roots fuel st1 sched1 R1 D1), !(stable_of_file imports roots fuel st2 sched2 R2 D2).
Qed.
