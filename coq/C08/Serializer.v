(* C08 model: internal/helpers/serializer.go as a labelled transition system.
   Worker i does  Enter(i) ; critical section ; Leave(i)  exactly once (this is
   how bundler.Compile uses it: ExclusiveMangleCacheUpdate is called once per
   entry point).  Enter(i) can only return once flags[i-1] is done, i.e. after
   Leave(i-1).  Any interleaving = any sequence of enabled steps. *)
From V Require Import Common.Base.

Inductive pcT := Waiting | Entered | Worked | Left.

Definition pc_eqb (a b : pcT) : bool :=
  match a, b with
  | Waiting, Waiting | Entered, Entered | Worked, Worked | Left, Left => true
  | _, _ => false
  end.

Record sstate := mkS { pc : nat -> pcT; slog : list nat }.

Definition upd_pc (f : nat -> pcT) (i : nat) (v : pcT) : nat -> pcT :=
  fun j => if Nat.eqb j i then v else f j.

Definition sinit : sstate := mkS (fun _ => Waiting) [].

Inductive ev := EvEnter (i : nat) | EvWork (i : nat) | EvLeave (i : nat).

(* one step of worker i < n, if enabled *)
Definition sstep (n : nat) (s : sstate) (e : ev) : option sstate :=
  match e with
  | EvEnter i =>
      if Nat.ltb i n && pc_eqb (pc s i) Waiting
         && (Nat.eqb i 0 || pc_eqb (pc s (i - 1)) Left)    (* flags[i-1].Wait() returns *)
      then Some (mkS (upd_pc (pc s) i Entered) (slog s)) else None
  | EvWork i =>
      if Nat.ltb i n && pc_eqb (pc s i) Entered
      then Some (mkS (upd_pc (pc s) i Worked) (slog s ++ [i])) else None
  | EvLeave i =>
      if Nat.ltb i n && pc_eqb (pc s i) Worked
      then Some (mkS (upd_pc (pc s) i Left) (slog s)) else None     (* flags[i].Done() *)
  end.

Fixpoint srun (n : nat) (s : sstate) (tr : list ev) : option sstate :=
  match tr with
  | [] => Some s
  | e :: r => match sstep n s e with Some s' => srun n s' r | None => None end
  end.

Definition all_left (n : nat) (s : sstate) : bool :=
  forallb (fun i => pc_eqb (pc s i) Left) (seq 0 n).
