(* C08: hand-maintained classification of every `for ... range <map>` site
   that T4 (gen/cmd/t4mapsites) extracts from the Go sources into
   V.gen.MapSitesGen.  Key = file, enclosing function, ranged expression,
   ordinal of that expression within the function.  A new, moved or renamed
   site has no entry here, which makes [all_map_sites_classified] fail.

   Why each class is order-insensitive:
     SortedAfter      keys/items are only collected and then sorted with a comparator that is
                      total on them before any order-sensitive use       (sort_perm_invariant + ComparatorProofs);
                      T4 re-checks on every run that a sort.* call still follows the loop in the same
                      function before its next map-range loop            (sorted_after_sites_have_sort)
     SortedLater      same, but the sort is in another function or after a sibling loop (hand-asserted)
     CommutativeFold  set insert / OR / max / counter / list used as a set  (fold_comm_invariant)
     PerKeyWrite      an iteration only writes state indexed by its own key (map_writes_invariant)
     DiagnosticsThenSorted  only emits diagnostics that carry a location; SortableMsgs orders them
     DebugLogOnly     emits location-less diagnostics of kind Debug in map order: not part of
                      BuildResult (Errors/Warnings), only of the stderr log at --log-level=debug
     DeadCode         guarded by a compile-time false constant
     UnsortedDiagnostics  KNOWN BAD: location-less errors in map order reach BuildResult.Errors
                      (no site has this class since fix 0b86dd3) *)
From Coq Require Import String List Bool.
From V Require Import gen.MapSitesGen.
Import ListNotations.
Open Scope string_scope.

Inductive site_class :=
| SortedAfter (how : string)
| SortedLater (whr : string)
| CommutativeFold (what : string)
| PerKeyWrite (what : string)
| DiagnosticsThenSorted (what : string)
| DebugLogOnly (what : string)
| DeadCode (why : string)
| UnsortedDiagnostics (what : string).

Definition site := (string * string * string * nat)%type.

Definition site_eqb (a b : site) : bool :=
  let '(f1, g1, e1, n1) := a in
  let '(f2, g2, e2, n2) := b in
  String.eqb f1 f2 && String.eqb g1 g2 && String.eqb e1 e2 && Nat.eqb n1 n2.

Definition B := "internal/bundler/bundler.go".
Definition G := "internal/graph/graph.go".
Definition L := "internal/linker/linker.go".
Definition R := "internal/renamer/renamer.go".
Definition A := "pkg/api/api_impl.go".

Definition classification : list (site * site_class) := [
  ((B, "(*scanner).addEntryPoints", "results", 0), SortedAfter "sort.Strings(keys): map keys are distinct strings");
  ((B, "(*scanner).generateResultForGlobResolve", "result.resolveResults", 0), SortedAfter "sort.Strings(keys)");
  ((B, "(*scanner).processScannedFiles", "importAttributeNameCollisions", 0), PerKeyWrite "each collision group rewrites the pretty paths of its own source indices; groups are disjoint");
  ((B, "parseFile", "repr.AST.NamedExports", 0), SortedAfter "sort.Strings(aliases)");
  ((B, "parseFile", "results", 0), PerKeyWrite "results[key] rewritten per key; allAreExternal is an AND-fold");
  ((G, "CloneLinkerGraph", "part.SymbolUses", 0), PerKeyWrite "map clone");
  ((G, "CloneLinkerGraph", "repr.AST.ConstValues", 0), PerKeyWrite "merge of per-file maps keyed by Ref (refs of different files are distinct)");
  ((G, "CloneLinkerGraph", "repr.AST.NamedExports", 0), PerKeyWrite "resolvedExports[alias]");
  ((G, "CloneLinkerGraph", "repr.AST.NamedImports", 0), PerKeyWrite "map clone");
  ((G, "CloneLinkerGraph", "repr.AST.TSEnums", 0), PerKeyWrite "merge of per-file maps keyed by Ref");
  (("internal/linker/debug.go", "(*linkerContext).generateExtraDataForFileJS", "part.SymbolUses", 0), DeadCode "const debugVerboseMetafile = false returns before the loop");
  ((L, "(*linkerContext).addExportsForExportStar", "otherRepr.AST.NamedExports", 0), PerKeyWrite "resolvedExports[alias] and its ambiguity list; different files are visited in import-record order");
  ((L, "(*linkerContext).computeChunks", "cssChunks", 0), SortedAfter "sort.Strings(sortedKeys)");
  ((L, "(*linkerContext).computeChunks", "jsChunks", 0), SortedAfter "sort.Strings(sortedKeys)");
  ((L, "(*linkerContext).computeCrossChunkDependencies", "chunk.filesWithPartsInChunk", 0), CommutativeFold "set inserts into chunkMeta.imports/dynamicImports; import-record rewrites are per file");
  ((L, "(*linkerContext).computeCrossChunkDependencies", "chunkMeta.dynamicImports", 0), SortedAfter "sort.Ints(sortedDynamicImports)");
  ((L, "(*linkerContext).computeCrossChunkDependencies", "chunkMeta.imports", 0), SortedLater "items appended per other chunk are sorted by crossChunkImportItemArray (alias) and stableRefArray before use; exports is a set");
  ((L, "(*linkerContext).computeCrossChunkDependencies", "part.SymbolUses", 0), CommutativeFold "set inserts into chunkMeta.imports");
  ((L, "(*linkerContext).findImportedPartsInJSOrder", "chunk.filesWithPartsInChunk", 0), SortedAfter "chunkOrderArray (distance, stable source index)");
  ((L, "(*linkerContext).generateChunkJS", "chunkRepr.exportsToOtherChunks", 0), SortedAfter "sort.Strings(aliases)");
  ((L, "(*linkerContext).generateChunkJS", "resolvedExports", 0), SortedLater "sort.Strings(aliases) after the sibling else-branch loop");
  ((L, "(*linkerContext).mangleLocalCSS", "localNames", 0), SortedAfter "StableSymbolCountArray");
  ((L, "(*linkerContext).mangleProps", "js_lexer.Keywords", 0), CommutativeFold "set insert");
  ((L, "(*linkerContext).mangleProps", "mangleCache", 0), CommutativeFold "set insert");
  ((L, "(*linkerContext).mangleProps", "mergedProps", 0), SortedAfter "StableSymbolCountArray");
  ((L, "(*linkerContext).mangleProps", "repr.AST.MangledProps", 0), PerKeyWrite "mergedProps[name] / MergeSymbols per property name; files in ReachableFiles order");
  ((L, "(*linkerContext).mangleProps", "repr.AST.ReservedProps", 0), CommutativeFold "set insert");
  ((L, "(*linkerContext).matchImportsWithExportsForFile", "repr.AST.NamedImports", 0), SortedAfter "sort.Ints(sortedImportRefs): inner indices of one file are distinct");
  ((L, "(*linkerContext).maybeCorrectObviousTypo", "repr.Meta.ResolvedExports", 0), SortedAfter "sort.Strings(valid)");
  ((L, "(*linkerContext).preventExportsFromBeingRenamed", "repr.AST.ModuleScope.Members", 0), CommutativeFold "flag OR per symbol");
  ((L, "(*linkerContext).renameSymbolsInChunk", "chunk.chunkRepr.(*chunkReprJS).importsFromOtherChunks", 0), SortedAfter "stableRefArray");
  ((L, "(*linkerContext).scanImportsAndExports", "part.ImportSymbolPropertyUses", 0), PerKeyWrite "part.SymbolUses[ref] per ref");
  ((L, "(*linkerContext).scanImportsAndExports", "part.SymbolCallUses", 0), PerKeyWrite "part.SymbolUses[ref] per ref");
  ((L, "(*linkerContext).scanImportsAndExports", "part.SymbolUses", 0), CommutativeFold "localDependencies set; part.Dependencies is only used for reachability (tree shaking)");
  ((L, "(*linkerContext).scanImportsAndExports", "properties", 0), CommutativeFold "sum of count estimates, OR of a flag");
  ((L, "(*linkerContext).scanImportsAndExports", "properties", 1), CommutativeFold "sum of count estimates");
  ((L, "(*linkerContext).scanImportsAndExports", "repr.AST.Composes", 0), DiagnosticsThenSorted "errors carry the location of the composes name");
  ((L, "(*linkerContext).scanImportsAndExports", "repr.Meta.ImportsToBind", 0), CommutativeFold "part.Dependencies used for reachability only; symbol links per import ref");
  ((L, "(*linkerContext).scanImportsAndExports", "repr.Meta.ResolvedExports", 0), DebugLogOnly "aliases are sorted (sort.Strings); the ambiguous re-export message is location-less, kind Debug");
  ((L, "(*linkerContext).sortedCrossChunkExportItems", "exportRefs", 0), SortedAfter "stableRefArray");
  ((L, "(*linkerContext).sortedCrossChunkImports", "importsFromOtherChunks", 0), SortedAfter "crossChunkImportArray (chunk index = map key) and crossChunkImportItemArray per chunk");
  ((L, "(*linkerContext).validateComposesFromProperties", "composes.Properties", 0), DiagnosticsThenSorted "properties[keyText] per key; warnings carry the property location");
  ((R, "(*MinifyRenamer).AccumulateSymbolUseCounts", "symbolUses", 0), SortedLater "top-level symbols are appended then sorted by StableSymbolCountArray in linker.renameSymbolsInChunk; nested slots are atomic counters");
  ((R, "(*NumberRenamer).AssignNamesByScope", "nestedScopes", 0), PerKeyWrite "one goroutine per source index, names of that file only");
  ((R, "(*NumberRenamer).assignNamesInScope", "scope.Members", 0), SortedAfter "sort.Ints(inner indices)");
  ((R, "AssignNestedScopeSlots", "moduleScope.Members", 0), PerKeyWrite "symbols[inner].NestedScopeSlot per member");
  ((R, "AssignNestedScopeSlots", "moduleScope.Members", 1), PerKeyWrite "symbols[inner].NestedScopeSlot per member");
  ((R, "ComputeReservedNames", "js_lexer.Keywords", 0), CommutativeFold "set insert");
  ((R, "ComputeReservedNames", "js_lexer.StrictModeReservedWords", 0), CommutativeFold "set insert");
  ((R, "assignNestedScopeSlotsHelper", "scope.Members", 0), SortedAfter "sort.Ints(sortedMembers)");
  ((R, "computeReservedNamesForScope", "scope.Members", 0), CommutativeFold "set insert");
  ((A, "cloneMangleCache", "mangleCache", 0), SortedAfter "sort.Strings(sortedKeys) since fix 0b86dd3 (finding C08-G2: location-less errors used to be logged in map order)");
  ((A, "rebuildImpl", "oldHashes", 0), CommutativeFold "paths to delete; deletions run in parallel on distinct paths");
  ((A, "validateAlias", "alias", 0), SortedAfter "sort.Strings(sortedKeys) since fix 0b86dd3 (finding C08-G2: location-less errors used to be logged in map order)");
  ((A, "validateBannerOrFooter", "values", 0), SortedAfter "sort.Strings(sortedKeys) since fix 0b86dd3 (finding C08-G2: location-less errors used to be logged in map order)");
  ((A, "validateBuildOptions", "options.ExtensionToLoader", 0), SortedAfter "sort.Strings(sortedKeys) since fix 0b86dd3 (finding C08-G2: location-less errors used to be logged in map order)");
  ((A, "validateDefines", "defines", 0), SortedAfter "sort.Strings(sortedKeys)");
  ((A, "validateDefines", "rawDefines", 0), CommutativeFold "ProcessDefines builds maps keyed by the define key; keys are distinct");
  ((A, "validateFeatures", "constraints", 0), SortedAfter "sort.Strings(targets)");
  ((A, "validateLoaders", "loaders", 0), SortedAfter "sort.Strings(sortedKeys) since fix 0b86dd3 (finding C08-G2: location-less errors used to be logged in map order)");
  ((A, "validateLogOverrides", "input", 0), PerKeyWrite "output[msgID] per message id");
  ((A, "validateOutputExtensions", "outExtensions", 0), SortedAfter "sort.Strings(sortedKeys) since fix 0b86dd3 (finding C08-G2: location-less errors used to be logged in map order)");
  ((A, "validateSupported", "supported", 0), SortedAfter "sort.Strings(sortedKeys) since fix 0b86dd3 (finding C08-G2); the feature masks are OR-folds")
].

Fixpoint classify (s : site) (tbl : list (site * site_class)) : option site_class :=
  match tbl with
  | [] => None
  | (k, c) :: r => if site_eqb s k then Some c else classify s r
  end.

Definition class_of (s : site) : option site_class := classify s classification.

Definition is_classified (s : site) : bool :=
  match class_of s with Some _ => true | None => false end.

Definition class_ordered (c : site_class) : bool :=
  match c with UnsortedDiagnostics _ => false | _ => true end.

Definition site_ordered (s : site) : bool :=
  match class_of s with Some c => class_ordered c | None => false end.

(* sites known to leak map order into BuildResult: none since fix 0b86dd3
   (finding C08-G2 were the seven option validators of pkg/api/api_impl.go) *)
Definition known_unordered : list site := [].

Definition in_known (s : site) : bool := existsb (site_eqb s) known_unordered.

(* obligations, decided by computation over the (finite) generated inventory *)
Definition all_classified : bool :=
  forallb is_classified map_sites && match unresolved_range_sites with [] => true | _ => false end.
Definition all_ordered_except_known : bool :=
  forallb (fun s => site_ordered s || in_known s) map_sites.
Definition known_are_present_and_bad : bool :=
  forallb (fun s => existsb (site_eqb s) map_sites && negb (site_ordered s)) known_unordered.
(* stale table entries (site no longer in the source) *)
Definition stale_entries : list site :=
  map fst (filter (fun kc => negb (existsb (site_eqb (fst kc)) map_sites)) classification).
Definition all_ordered : bool := forallb site_ordered map_sites.
(* machine-checked part of the SortedAfter class *)
Definition sorted_after_checked : bool :=
  forallb (fun s => match class_of s with
                    | Some (SortedAfter _) => existsb (site_eqb s) sites_with_sort_after
                    | _ => true
                    end) map_sites.
