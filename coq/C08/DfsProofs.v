(* C08: the reachable-file order (and hence every stable source index) is
   equivariant under any injective renaming of the arrival-order indices. *)
From V Require Import Common.Base C08.Dfs.

Section Equivariance.
  Variable rho : Z -> Z.
  Hypothesis rho_inj : forall x y, rho x = rho y -> x = y.
  Variables g g' : Z -> list Z.
  (* the renamed graph: file rho(n) imports rho(c) for each import c of n, in the same order *)
  Hypothesis g'_spec : forall n, g' (rho n) = map rho (g n).

  Definition map_st (st : dstate) : dstate :=
    match st with
    | Some (vis, ord) => Some (map rho vis, map rho ord)
    | None => None
    end.

  Lemma memz_map n l : memz (rho n) (map rho l) = memz n l.
  Proof.
    induction l as [|x r IH]; cbn [memz map]; [reflexivity|]. rewrite IH. f_equal.
    destruct (n =? x) eqn:E.
    - apply Z.eqb_eq in E; subst. apply Z.eqb_refl.
    - apply Z.eqb_neq. intro H. apply rho_inj in H. apply Z.eqb_neq in E. contradiction.
  Qed.

  Lemma fold_visit_equiv fuel
    (IH : forall n st, visit fuel g' (rho n) (map_st st) = map_st (visit fuel g n st)) :
    forall cs st,
      fold_left (fun s c => visit fuel g' c s) (map rho cs) (map_st st)
      = map_st (fold_left (fun s c => visit fuel g c s) cs st).
  Proof.
    induction cs as [|c cs IHc]; intro st; cbn [fold_left map]; [reflexivity|].
    rewrite IH. apply IHc.
  Qed.

  Lemma visit_equiv : forall fuel n st,
    visit fuel g' (rho n) (map_st st) = map_st (visit fuel g n st).
  Proof.
    induction fuel as [|f IH]; intros n [[vis ord]|]; cbn [visit map_st]; try reflexivity;
      rewrite memz_map; destruct (memz n vis); cbn [map_st]; try reflexivity.
    rewrite g'_spec.
    change (Some (rho n :: map rho vis, map rho ord)) with (map_st (Some (n :: vis, ord))).
    rewrite (fold_visit_equiv f IH).
    destruct (fold_left (fun s c => visit f g c s) (g n) (Some (n :: vis, ord))) as [[v o]|];
      cbn [map_st map]; reflexivity.
  Qed.

  Lemma reach_order_equiv fuel roots :
    reach_order fuel g' (map rho roots) = option_map (map rho) (reach_order fuel g roots).
  Proof.
    unfold reach_order.
    change (Some ([], [])) with (map_st (Some ([], []))) at 1.
    rewrite (fold_visit_equiv fuel (visit_equiv fuel)).
    destruct (fold_left (fun s c => visit fuel g c s) roots (Some ([], []))) as [[v o]|];
      cbn [map_st option_map]; [|reflexivity].
    now rewrite map_rev.
  Qed.

  Lemma index_of_map n l : index_of (rho n) (map rho l) = index_of n l.
  Proof.
    induction l as [|x r IH]; cbn [index_of map]; [reflexivity|]. rewrite IH.
    destruct (n =? x) eqn:E.
    - apply Z.eqb_eq in E; subst. now rewrite Z.eqb_refl.
    - assert (E' : (rho n =? rho x) = false).
      { apply Z.eqb_neq. intro H. apply rho_inj in H. apply Z.eqb_neq in E. contradiction. }
      now rewrite E'.
  Qed.

  (* the stable index of a file does not depend on its arrival-order index *)
  Lemma stable_index_equiv fuel roots o o' n :
    reach_order fuel g roots = Some o ->
    reach_order fuel g' (map rho roots) = Some o' ->
    index_of (rho n) o' = index_of n o.
  Proof.
    intros H1 H2. rewrite reach_order_equiv, H1 in H2. cbn [option_map] in H2.
    inversion H2; subst. apply index_of_map.
  Qed.
End Equivariance.


(* Equivariance when the renamed graph is only known on a set S of files that
   contains the roots and is closed under imports (the files the scanner has
   visited): the DFS never leaves S, so nothing else is needed. *)
Section EquivarianceOn.
  Variable rho : Z -> Z.
  Hypothesis rho_inj : forall x y, rho x = rho y -> x = y.
  Variables g g' : Z -> list Z.
  Variable S : Z -> Prop.
  Hypothesis S_closed : forall n c, S n -> In c (g n) -> S c.
  Hypothesis g'_spec : forall n, S n -> g' (rho n) = map rho (g n).

  Lemma fold_visit_equiv_on fuel
    (IH : forall n st, S n -> visit fuel g' (rho n) (map_st rho st) = map_st rho (visit fuel g n st)) :
    forall cs st, (forall c, In c cs -> S c) ->
      fold_left (fun s c => visit fuel g' c s) (map rho cs) (map_st rho st)
      = map_st rho (fold_left (fun s c => visit fuel g c s) cs st).
  Proof.
    induction cs as [|c cs IHc]; intros st HS; cbn [fold_left map]; [reflexivity|].
    rewrite IH by (apply HS; now left). apply IHc. intros; apply HS; now right.
  Qed.

  Lemma visit_equiv_on : forall fuel n st, S n ->
    visit fuel g' (rho n) (map_st rho st) = map_st rho (visit fuel g n st).
  Proof.
    induction fuel as [|f IH]; intros n [[vis ord]|] HS; cbn [visit map_st]; try reflexivity;
      rewrite (memz_map rho rho_inj); destruct (memz n vis); cbn [map_st]; try reflexivity.
    rewrite g'_spec by exact HS.
    change (Some (rho n :: map rho vis, map rho ord)) with (map_st rho (Some (n :: vis, ord))).
    rewrite (fold_visit_equiv_on f IH) by (intros c Hc; eapply S_closed; eauto).
    destruct (fold_left (fun s c => visit f g c s) (g n) (Some (n :: vis, ord))) as [[v o]|];
      cbn [map_st map]; reflexivity.
  Qed.

  Lemma reach_order_equiv_on fuel roots : (forall r, In r roots -> S r) ->
    reach_order fuel g' (map rho roots) = option_map (map rho) (reach_order fuel g roots).
  Proof.
    intro HR. unfold reach_order.
    change (Some ([], [])) with (map_st rho (Some ([], []))) at 1.
    rewrite (fold_visit_equiv_on fuel (visit_equiv_on fuel)) by exact HR.
    destruct (fold_left (fun s c => visit fuel g c s) roots (Some ([], []))) as [[v o]|];
      cbn [map_st option_map]; [|reflexivity].
    now rewrite map_rev.
  Qed.
End EquivarianceOn.
