(* C08: obligations over the regenerated inventory, decided by computation. *)
From Coq Require Import String List Bool Arith.
From V Require Import gen.MapSitesGen C08.MapSites.
Import ListNotations.

Lemma all_classified_true : all_classified = true.
Proof. vm_compute. reflexivity. Qed.

Lemma classified_forall : forall s, In s map_sites -> exists c, class_of s = Some c.
Proof.
  pose proof all_classified_true as H. unfold all_classified in H.
  apply andb_true_iff in H as [H _]. rewrite forallb_forall in H.
  intros s Hs. specialize (H s Hs). unfold is_classified in H.
  destruct (class_of s) as [c|]; [now exists c | discriminate].
Qed.

Lemma no_unresolved : unresolved_range_sites = [].
Proof. reflexivity. Qed.

Lemma ordered_except_known : forall s, In s map_sites -> in_known s = false -> site_ordered s = true.
Proof.
  assert (H : all_ordered_except_known = true) by (vm_compute; reflexivity).
  unfold all_ordered_except_known in H. rewrite forallb_forall in H.
  intros s Hs Hk. specialize (H s Hs). rewrite Hk, orb_false_r in H. exact H.
Qed.

Lemma all_ordered_forall : forall s, In s map_sites -> site_ordered s = true.
Proof.
  assert (H : all_ordered = true) by (vm_compute; reflexivity).
  unfold all_ordered in H. rewrite forallb_forall in H. exact H.
Qed.

Lemma sorted_after_forall : forall s how, In s map_sites -> class_of s = Some (SortedAfter how) ->
  existsb (site_eqb s) sites_with_sort_after = true.
Proof.
  assert (H : sorted_after_checked = true) by (vm_compute; reflexivity).
  unfold sorted_after_checked in H. rewrite forallb_forall in H.
  intros s how Hs Hc. specialize (H s Hs). now rewrite Hc in H.
Qed.
