(* C08 model: the scan phase of internal/bundler/bundler.go as a transition
   system.  Mirrors
     scanner.maybeParseFile   (visited map, allocateSourceIndex on first visit,
                               remaining++, parse goroutine started)
     scanner.scanAllDependencies  (result := <-s.resultChannel in ANY order;
                               for each import record in order: maybeParseFile,
                               record.SourceIndex = the index returned)
     ScanBundle               (runtime file first, then the entry points, in order)
   Files are identified by an intrinsic id (their path); source indices are
   handed out in order of first visit, so they depend on the order in which
   the parse results arrive.  Executable definitions only. *)
From V Require Import Common.Base C08.Dfs.

Record scan := mkScan {
  sc_vis : list (Z * Z);        (* s.visited: file -> source index *)
  sc_next : Z;                  (* next index of the SourceIndexCache *)
  sc_pend : list Z;             (* files whose parse result has not been received (s.remaining) *)
  sc_recs : list (Z * list Z)   (* per received file: its index, the SourceIndex of each import record *)
}.

Fixpoint lookupz (f : Z) (l : list (Z * Z)) : option Z :=
  match l with
  | [] => None
  | (k, v) :: r => if f =? k then Some v else lookupz f r
  end.

(* maybeParseFile: returns the source index of f, allocating on the first visit *)
Definition maybeParse (st : scan) (f : Z) : scan * Z :=
  match lookupz f (sc_vis st) with
  | Some i => (st, i)
  | None => (mkScan ((f, sc_next st) :: sc_vis st) (sc_next st + 1) (sc_pend st ++ [f]) (sc_recs st), sc_next st)
  end.

Fixpoint maybeParseAll (st : scan) (fs : list Z) : scan * list Z :=
  match fs with
  | [] => (st, [])
  | f :: r => let '(st1, i) := maybeParse st f in
              let '(st2, is) := maybeParseAll st1 r in (st2, i :: is)
  end.

Fixpoint remove1 (f : Z) (l : list Z) : list Z :=
  match l with
  | [] => []
  | x :: r => if f =? x then r else x :: remove1 f r
  end.

(* one iteration of the loop in scanAllDependencies: the result of file f arrives *)
Definition recv (imports : Z -> list Z) (st : scan) (f : Z) : option scan :=
  if memz f (sc_pend st) then
    match lookupz f (sc_vis st) with
    | Some fi =>
        let st0 := mkScan (sc_vis st) (sc_next st) (remove1 f (sc_pend st)) (sc_recs st) in
        let '(st1, is) := maybeParseAll st0 (imports f) in
        Some (mkScan (sc_vis st1) (sc_next st1) (sc_pend st1) ((fi, is) :: sc_recs st1))
    | None => None
    end
  else None.

Fixpoint run_scan (imports : Z -> list Z) (st : scan) (sched : list Z) : option scan :=
  match sched with
  | [] => Some st
  | f :: r => match recv imports st f with Some st' => run_scan imports st' r | None => None end
  end.

(* roots = runtime file :: entry points, visited in order before the loop starts *)
Definition scan_init (roots : list Z) : scan * list Z := maybeParseAll (mkScan [] 0 [] []) roots.

Definition scan_complete (st : scan) : bool := match sc_pend st with [] => true | _ => false end.

(* the module graph in source indices, as the linker sees it *)
Fixpoint assocl (i : Z) (l : list (Z * list Z)) : option (list Z) :=
  match l with
  | [] => None
  | (k, v) :: r => if i =? k then Some v else assocl i r
  end.
Definition graph_of_scan (st : scan) (i : Z) : list Z :=
  match assocl i (sc_recs st) with Some l => l | None => [] end.

(* the source index of a file; files never visited get distinct negative codes *)
Definition neg_code (f : Z) : Z := - (2 * Z.abs f + (if f <? 0 then 1 else 0)) - 1.
Definition index_of_file (st : scan) (f : Z) : Z :=
  match lookupz f (sc_vis st) with Some i => i | None => neg_code f end.
