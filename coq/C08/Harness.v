(* C08 checkers evaluated by the correspondence run: each returns the indices
   of the cases where model and real Go code disagree. *)
From V Require Import Common.Base C08.SortPerm C08.Comparators C08.Dfs C08.Serializer C08.Scanner.

Fixpoint mism_from {A} (f : A -> bool) (l : list A) (i : nat) : list nat :=
  match l with
  | [] => []
  | x :: r => if f x then mism_from f r (S i) else i :: mism_from f r (S i)
  end.
Definition mismatches {A} (f : A -> bool) (l : list A) : list nat := mism_from f l 0.

Definition nthz (l : list Z) (i : nat) : Z := nth i l 0.

(* numeric comparators; id selects the comparator, fields as listed *)
Definition num_less (id : Z) (a b : list Z) : bool :=
  match id with
  | 0 => (* stableRef [stable; src; inner] *)
      stableRef_less (mkSR (nthz a 0) (mkRef (nthz a 1) (nthz a 2))) (mkSR (nthz b 0) (mkRef (nthz b 1) (nthz b 2)))
  | 1 => (* chunkOrder [src; dist; tie] *)
      chunkOrder_less (mkCO (nthz a 0) (nthz a 1) (nthz a 2)) (mkCO (nthz b 0) (nthz b 1) (nthz b 2))
  | 2 => crossChunkImport_less (nthz a 0) (nthz b 0)
  | 3 => (* StableSymbolCount [stable; src; inner; count] *)
      symCount_less (mkSC (nthz a 0) (mkRef (nthz a 1) (nthz a 2)) (nthz a 3))
                    (mkSC (nthz b 0) (mkRef (nthz b 1) (nthz b 2)) (nthz b 3))
  | 4 => slotCount_less (mkSL (nthz a 0) (nthz a 1)) (mkSL (nthz b 0) (nthz b 1))
  | 5 => charCount_less (mkCC (nthz a 0) (nthz a 1)) (mkCC (nthz b 0) (nthz b 1))
  | _ => scopeMember_less (mkRef (nthz a 0) (nthz a 1)) (mkRef (nthz b 0) (nthz b 1))
  end.
Definition num_ok (c : Z * list Z * list Z * bool) : bool :=
  let '(id, a, b, r) := c in Bool.eqb (num_less id a b) r.
Definition check_num_less := mismatches num_ok.

(* string comparators: 0 crossChunkImportItem (alias), 1 metafile (name, size), 2 expansion key *)
Definition str_less (id : Z) (a b : list Z * Z) : bool :=
  match id with
  | 0 => ccItem_less (mkCCI (fst a) (mkRef 0 (snd a))) (mkCCI (fst b) (mkRef 0 (snd b)))
  | 1 => metafile_less (mkMF (fst a) (snd a)) (mkMF (fst b) (snd b))
  | _ => expansionKeys_less (fst a) (fst b)
  end.
Definition str_ok (c : Z * (list Z * Z) * (list Z * Z) * bool) : bool :=
  let '(id, a, b, r) := c in Bool.eqb (str_less id a b) r.
Definition check_str_less := mismatches str_ok.

(* messages: (hasLoc, abs, rel, [line; col; kind], text) *)
Definition mk_msg (m : bool * list Z * list Z * list Z * list Z) : msg :=
  let '(h, abs, rel, n, text) := m in
  mkMsg (if h then Some (mkLoc abs rel (nthz n 0) (nthz n 1)) else None) (nthz n 2) text.
Definition msg_ok (c : (bool * list Z * list Z * list Z * list Z) * (bool * list Z * list Z * list Z * list Z) * bool) : bool :=
  let '(a, b, r) := c in Bool.eqb (msg_less (mk_msg a) (mk_msg b)) r.
Definition check_msg_less := mismatches msg_ok.

(* sorting with the real sort.Sort / sort.Stable vs the model's insertion sort
   (inputs have injective keys, or the sort is stable): (id, input, Go output) *)
Definition zll_eqb := list_eqb zlist_eqb.
Definition sort_ok (c : Z * list (list Z) * list (list Z)) : bool :=
  let '(id, inp, out) := c in zll_eqb (isort (num_less id) inp) out.
Definition check_num_sort := mismatches sort_ok.
Definition ek_sort_ok (c : list (list Z) * list (list Z)) : bool :=
  let '(inp, out) := c in zll_eqb (isort expansionKeys_less inp) out.
Definition check_ek_sort := mismatches ek_sort_ok.

(* findReachableFiles: (files as (css, records), entry points, Go order) *)
Definition dfs_ok (c : list (Z * list (Z * Z)) * list Z * list Z) : bool :=
  let '(fs, eps, out) := c in
  match findReachableFiles (map (fun f => mkFile (fst f) (snd f)) fs) eps with
  | Some o => zlist_eqb o out
  | None => false
  end.
Definition check_dfs := mismatches dfs_ok.

(* Serializer: the event log recorded from real goroutines must be a run of
   the LTS that ends with every worker done and the critical sections in
   index order.  Events: (0,i) Enter returned, (1,i) work, (2,i) Leave *)
Definition mk_ev (e : Z * Z) : ev :=
  let i := Z.to_nat (snd e) in
  match fst e with 0 => EvEnter i | 1 => EvWork i | _ => EvLeave i end.
Definition ser_ok (c : Z * list (Z * Z)) : bool :=
  let '(n, evs) := c in
  let n' := Z.to_nat n in
  match srun n' sinit (map mk_ev evs) with
  | Some s => all_left n' s && list_eqb Nat.eqb (slog s) (seq 0 n')
  | None => false
  end.
Definition check_ser := mismatches ser_ok.

(* the scan phase: the allocation of source indices observed on the real
   scanner (under delayed, reordered parse results) must be the outcome of SOME
   schedule of the model, with the same import-record indices and entry points.
   Case: (file graph as (file, imports), entry files, file of each source
   index, record indices of each source index, entry point indices).
   File 0 is the runtime. *)
Fixpoint assoc_imports (g : list (Z * list Z)) (f : Z) : list Z :=
  match g with [] => [] | (k, v) :: r => if f =? k then v else assoc_imports r f end.
Definition alloc_consistent (alloc : list Z) (vis : list (Z * Z)) : bool :=
  forallb (fun fi => nth (Z.to_nat (snd fi)) alloc (-99) =? fst fi) vis.
Fixpoint pick_recv (imports : Z -> list Z) (alloc : list Z) (st : scan) (cands : list Z) : option scan :=
  match cands with
  | [] => None
  | f :: r => match recv imports st f with
              | Some st' => if alloc_consistent alloc (sc_vis st') then Some st' else pick_recv imports alloc st r
              | None => pick_recv imports alloc st r
              end
  end.
Fixpoint replay_scan (fuel : nat) (imports : Z -> list Z) (alloc : list Z) (st : scan) : option scan :=
  match sc_pend st with
  | [] => Some st
  | _ => match fuel with
         | O => None
         | S k => match pick_recv imports alloc st (sc_pend st) with
                  | Some st' => replay_scan k imports alloc st'
                  | None => None
                  end
         end
  end.
Definition scan_ok (c : list (Z * list Z) * list Z * list Z * list (list Z) * list Z) : bool :=
  let '(g, entries, alloc, recs, eidx) := c in
  let imports := assoc_imports g in
  let roots := 0 :: entries in
  let '(st0, ridx) := scan_init roots in
  match replay_scan (S (length alloc)) imports alloc st0 with
  | Some st =>
      alloc_consistent alloc (sc_vis st) && (sc_next st =? Z.of_nat (length alloc))
      && zlist_eqb ridx (0 :: eidx)
      && forallb (fun i => zlist_eqb (graph_of_scan st (Z.of_nat i)) (nth i recs [])) (seq 0 (length alloc))
  | None => false
  end.
Definition check_scan := mismatches scan_ok.
