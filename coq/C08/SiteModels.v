(* C08: models and theorems for the map-range sites that do not have the
   regular "append key; sort" shape.
   (1) the five irregular sorted-afterwards sites, each with its own model:
       the slice handed to sort.X is  pre ++ flat_map E order ++ post  where
       [order] is the map iteration order; the result is a function of the
       entry SET;
   (2) generic statements for the two other shapes T4 recognises in the
       source: "set insert"  m[E(k)] = c  and "per-key write"  dst[k] = E(k,v). *)
From Coq Require Import String.
From V Require Import Common.Base C08.SortPerm C08.Comparators C08.CmpTheory C08.ComparatorProofs
  gen.MapSitesGen C08.MapSites C08.CollectSort.
From Coq Require Import Permutation.
Open Scope list_scope.

Lemma perm_flat_map {K A} (E : K -> list A) l l' : Permutation l l' -> Permutation (flat_map E l) (flat_map E l').
Proof.
  induction 1 as [|x a b HP IH|x y a|a b c H1 IH1 H2 IH2]; cbn [flat_map].
  - constructor.
  - now apply Permutation_app_head.
  - rewrite !app_assoc. apply Permutation_app_tail. apply Permutation_app_comm.
  - eapply Permutation_trans; eauto.
Qed.

Definition collect_flat_then_sort {K A} (sort : list A -> list A) (pre post : list A) (E : K -> list A) (order : list K) : list A :=
  sort (pre ++ flat_map E order ++ post).

Lemma collect_flat_invariant {K A} (ltb : A -> A -> bool) (SW : StrictWeak ltb)
  (sort : list A -> list A) pre post (E : K -> list A) order order' :
  IsSort ltb sort -> Permutation order order' -> TotalOn ltb (pre ++ flat_map E order ++ post) ->
  collect_flat_then_sort sort pre post E order = collect_flat_then_sort sort pre post E order'.
Proof.
  intros HS HP HT. unfold collect_flat_then_sort.
  apply (sort_fun_perm_invariant ltb SW sort sort HS HS); [|exact HT].
  apply Permutation_app_head. apply Permutation_app_tail. now apply perm_flat_map.
Qed.

(* ---- the five sites ---- *)
(* linker.findImportedPartsInJSOrder: one chunkOrder per file of the chunk, sort.Sort(chunkOrderArray) *)
Definition model_findImportedParts : Prop :=
  forall sort (E : Z -> chunkOrder) order order' (stable_of dist_of : Z -> Z),
    IsSort chunkOrder_less sort -> Permutation order order' ->
    (forall x y, stable_of x = stable_of y -> x = y) ->
    (forall a, In a (map E order) -> co_tie a = stable_of (co_src a) /\ co_dist a = dist_of (co_src a)) ->
    collect_flat_then_sort sort [] [] (fun k => [E k]) order = collect_flat_then_sort sort [] [] (fun k => [E k]) order'.
(* linker.generateChunkJS: aliases = the VALUES of exportsToOtherChunks, sort.Strings *)
Definition model_generateChunkJS_exports : Prop :=
  forall (K : Type) sort pre (alias_of : K -> list Z) order order',
    IsSort str_ltb sort -> Permutation order order' ->
    collect_flat_then_sort sort pre [] (fun e => [alias_of e]) order = collect_flat_then_sort sort pre [] (fun e => [alias_of e]) order'.
(* linker.renameSymbolsInChunk: nested loop, one stableRef per imported item of every other chunk, sort.Sort(stableRefArray) *)
Definition model_renameSymbolsInChunk : Prop :=
  forall (K : Type) sort (items_of : K -> list stableRef) order order' (stable_of : Z -> Z),
    IsSort stableRef_less sort -> Permutation order order' ->
    (forall x y, stable_of x = stable_of y -> x = y) ->
    (forall a, In a (flat_map items_of order) -> sr_stable a = stable_of (r_src (sr_ref a))) ->
    collect_flat_then_sort sort [] [] items_of order = collect_flat_then_sort sort [] [] items_of order'.
(* linker.sortedCrossChunkImports: one record per other chunk (the map key), carrying that
   chunk's already sorted items; sort.Sort(crossChunkImportArray) compares the keys only *)
Definition by_key {A} (a b : Z * A) : bool := crossChunkImport_less (fst a) (fst b).
Definition model_sortedCrossChunkImports : Prop :=
  forall (A : Type) sort (items_of : Z -> A) order order',
    IsSort (@by_key A) sort -> Permutation order order' -> NoDup order ->
    collect_flat_then_sort sort [] [] (fun k => [(k, items_of k)]) order
    = collect_flat_then_sort sort [] [] (fun k => [(k, items_of k)]) order'.
(* api.validateFeatures: one string per engine constraint, then possibly "esnext", sort.Strings *)
Definition model_validateFeatures : Prop :=
  forall (K : Type) sort post (text_of : K -> list Z) order order',
    IsSort str_ltb sort -> Permutation order order' ->
    collect_flat_then_sort sort [] post (fun e => [text_of e]) order = collect_flat_then_sort sort [] post (fun e => [text_of e]) order'.

Lemma str_sw : StrictWeak str_ltb.
Proof. exact (via_key_strict_weak (fun x => x) _ good_str _ str_ltb_spec). Qed.
Lemma str_total l : TotalOn str_ltb l.
Proof. apply (via_key_total_on (fun x => x) _ good_str _ str_ltb_spec). auto. Qed.

Lemma flat_singleton {K A} (E : K -> A) l : flat_map (fun k => [E k]) l = map E l.
Proof. induction l; cbn [flat_map map app]; congruence. Qed.

Lemma model_findImportedParts_holds : model_findImportedParts.
Proof.
  intros sort E o o' st di HS HP Hinj Hdom.
  apply (collect_flat_invariant chunkOrder_less (proj1 chunkOrder_order)); auto.
  cbn [app]. rewrite app_nil_r, flat_singleton. now apply (chunkOrder_total_on_domain st di).
Qed.
Lemma model_generateChunkJS_exports_holds : model_generateChunkJS_exports.
Proof. intros K sort pre al o o' HS HP. apply (collect_flat_invariant str_ltb str_sw); auto using str_total. Qed.
Lemma model_renameSymbolsInChunk_holds : model_renameSymbolsInChunk.
Proof.
  intros K sort it o o' st HS HP Hinj Hdom.
  apply (collect_flat_invariant stableRef_less (proj1 stableRef_order)); auto.
  cbn [app]. rewrite app_nil_r. now apply (stableRef_total_on_domain st).
Qed.
Lemma by_key_spec {A} (a b : Z * A) : by_key a b = lt_of Z.compare (fst a) (fst b).
Proof. unfold by_key. apply crossChunkImport_spec. Qed.
Lemma model_sortedCrossChunkImports_holds : model_sortedCrossChunkImports.
Proof.
  intros A sort it o o' HS HP ND.
  apply (collect_flat_invariant (@by_key A) (via_key_strict_weak fst _ good_Z _ by_key_spec)); auto.
  cbn [app]. rewrite app_nil_r, flat_singleton.
  apply (via_key_total_on fst _ good_Z _ by_key_spec).
  intros [k1 v1] [k2 v2] I1 I2 Hk. cbn [fst] in Hk. subst k2.
  apply in_map_iff in I1 as (x1 & E1 & _). apply in_map_iff in I2 as (x2 & E2 & _).
  inversion E1; inversion E2; subst. reflexivity.
Qed.
Lemma model_validateFeatures_holds : model_validateFeatures.
Proof. intros K sort post tx o o' HS HP. apply (collect_flat_invariant str_ltb str_sw); auto using str_total. Qed.

(* the named sites with their statements *)
Definition irregular_models : list (site * Prop) := [
  ((L, "(*linkerContext).findImportedPartsInJSOrder", "chunk.filesWithPartsInChunk", 0%nat)%string, model_findImportedParts);
  ((L, "(*linkerContext).generateChunkJS", "chunkRepr.exportsToOtherChunks", 0%nat)%string, model_generateChunkJS_exports);
  ((L, "(*linkerContext).renameSymbolsInChunk", "chunk.chunkRepr.(*chunkReprJS).importsFromOtherChunks", 0%nat)%string, model_renameSymbolsInChunk);
  ((L, "(*linkerContext).sortedCrossChunkImports", "importsFromOtherChunks", 0%nat)%string, model_sortedCrossChunkImports);
  ((A, "validateFeatures", "constraints", 0%nat)%string, model_validateFeatures)
].

Lemma irregular_models_hold : forall s P, In (s, P) irregular_models -> P.
Proof.
  intros s P [E|[E|[E|[E|[E|[]]]]]]; inversion E; subst.
  - exact model_findImportedParts_holds.
  - exact model_generateChunkJS_exports_holds.
  - exact model_renameSymbolsInChunk_holds.
  - exact model_sortedCrossChunkImports_holds.
  - exact model_validateFeatures_holds.
Qed.

Lemma irregular_models_cover : list_eqb site_eqb (map fst irregular_models) irregular_sorted_after = true.
Proof. vm_compute. reflexivity. Qed.

(* ---- generic statements for the shapes "set insert" and "per-key write" ---- *)
Section KeyedMaps.
  Context {K V : Type} (keqb : K -> K -> bool).
  Hypothesis keqb_eq : forall a b, keqb a b = true <-> a = b.

  Definition updk (m : K -> option V) (kv : K * V) : K -> option V :=
    fun k => if keqb k (fst kv) then Some (snd kv) else m k.

  (* set insert  m[E(k)] = c : the resulting map is order-independent, even when E is not injective *)
  Lemma set_insert_invariant (c : V) (l l' : list K) : Permutation l l' ->
    forall m x, fold_left updk (map (fun k => (k, c)) l) m x = fold_left updk (map (fun k => (k, c)) l') m x.
  Proof.
    intros HP m x.
    assert (Hchar : forall l m, fold_left updk (map (fun k => (k, c)) l) m x
                              = if existsb (keqb x) l then Some c else m x).
    { clear. induction l as [|k r IH]; intro m; cbn [map fold_left existsb]; [reflexivity|].
      rewrite IH. unfold updk; cbn [fst snd]. destruct (existsb (keqb x) r); [now rewrite orb_true_r|].
      rewrite orb_false_r. destruct (keqb x k); reflexivity. }
    rewrite !Hchar.
    assert (He : existsb (keqb x) l = existsb (keqb x) l').
    { clear -HP. induction HP as [|a p q _ IH|a b p|p q r _ IH1 _ IH2]; cbn [existsb]; try congruence.
      now rewrite !orb_assoc, (orb_comm (keqb x b)). }
    now rewrite He.
  Qed.

  Fixpoint assock (k : K) (l : list (K * V)) : option V :=
    match l with [] => None | (k', v) :: r => if keqb k k' then Some v else assock k r end.

  Lemma assock_in k v l : NoDup (map fst l) -> In (k, v) l -> assock k l = Some v.
  Proof.
    induction l as [|[k' v'] r IH]; cbn [assock map fst]; intros ND HI; [contradiction|].
    inversion ND as [|? ? Hn ND']; subst. destruct HI as [E|HI].
    - inversion E; subst. now rewrite (proj2 (keqb_eq k k) eq_refl).
    - destruct (keqb k k') eqn:E; [|now apply IH].
      apply keqb_eq in E; subst. exfalso. apply Hn. change k' with (fst (k', v)). now apply in_map.
  Qed.
  Lemma assock_some_in k v l : assock k l = Some v -> In (k, v) l.
  Proof.
    induction l as [|[k' v'] r IH]; cbn [assock]; [discriminate|].
    destruct (keqb k k') eqn:E; intro H; [apply keqb_eq in E; inversion H; subst; now left | right; auto].
  Qed.
  Lemma fold_updk_assock l : NoDup (map fst l) -> forall m k,
    fold_left updk l m k = match assock k l with Some v => Some v | None => m k end.
  Proof.
    induction l as [|[k' v'] r IH]; intros ND m k; cbn [fold_left assock]; [reflexivity|].
    inversion ND as [|? ? Hn ND']; subst. rewrite (IH ND').
    destruct (assock k r) eqn:Ea.
    - destruct (keqb k k') eqn:E; [|reflexivity]. apply keqb_eq in E; subst. exfalso. apply Hn.
      apply assock_some_in in Ea. change k' with (fst (k', v)). now apply in_map.
    - unfold updk; cbn [fst snd]. destruct (keqb k k'); reflexivity.
  Qed.

  (* per-key write  dst[k] = E(k, v)  over the distinct keys of a map *)
  Lemma per_key_write_invariant (l l' : list (K * V)) : NoDup (map fst l) -> Permutation l l' ->
    forall m k, fold_left updk l m k = fold_left updk l' m k.
  Proof.
    intros ND HP m k.
    assert (ND' : NoDup (map fst l')) by (eapply Permutation_NoDup; [apply Permutation_map; exact HP | exact ND]).
    rewrite !fold_updk_assock by assumption.
    destruct (assock k l) eqn:E1.
    - apply assock_some_in in E1. erewrite assock_in; eauto. eapply Permutation_in; eauto.
    - destruct (assock k l') eqn:E2; [|reflexivity].
      apply assock_some_in in E2. erewrite assock_in in E1; [discriminate | exact ND |].
      eapply Permutation_in; [apply Permutation_sym; exact HP | exact E2].
  Qed.
End KeyedMaps.

(* ---- the shaped fold sites recognised by T4 ---- *)
Definition stmt_set_insert : Prop :=
  forall (K V : Type) (keqb : K -> K -> bool), (forall a b, keqb a b = true <-> a = b) ->
  forall (c : V) l l', Permutation l l' ->
  forall m x, fold_left (updk keqb) (map (fun k => (k, c)) l) m x = fold_left (updk keqb) (map (fun k => (k, c)) l') m x.
Definition stmt_per_key_write : Prop :=
  forall (K V : Type) (keqb : K -> K -> bool), (forall a b, keqb a b = true <-> a = b) ->
  forall (l l' : list (K * V)), NoDup (map fst l) -> Permutation l l' ->
  forall m k, fold_left (updk keqb) l m k = fold_left (updk keqb) l' m k.
Definition stmt_flag_or : Prop :=
  forall (K : Type) (flag_of : K -> Z) l l', Permutation l l' ->
  forall acc, fold_left (fun a k => Z.lor a (flag_of k)) l acc = fold_left (fun a k => Z.lor a (flag_of k)) l' acc.

Definition stmt_sum : Prop :=
  forall (K : Type) (amount_of : K -> Z) l l', Permutation l l' ->
  forall acc, fold_left (fun a k => a + amount_of k) l acc = fold_left (fun a k => a + amount_of k) l' acc.
Lemma stmt_sum_holds : stmt_sum.
Proof. intros K am l l' HP acc. apply fold_comm_invariant_gen; [|exact HP]. intros b x y. lia. Qed.

Lemma stmt_set_insert_holds : stmt_set_insert.
Proof. intros K V keqb He c l l' HP m x. now apply set_insert_invariant. Qed.
Lemma stmt_per_key_write_holds : stmt_per_key_write.
Proof. intros K V keqb He l l' ND HP m k. now apply per_key_write_invariant. Qed.
Lemma stmt_flag_or_holds : stmt_flag_or.
Proof.
  intros K fl l l' HP acc. apply fold_comm_invariant_gen; [|exact HP].
  intros b x y. now rewrite <- !Z.lor_assoc, (Z.lor_comm (fl x)).
Qed.

Open Scope string_scope.
Definition shape_statement (k : string) : Prop :=
  if String.eqb k "set-insert" then stmt_set_insert
  else if String.eqb k "per-key-write" then stmt_per_key_write
  else if String.eqb k "flag-or" then stmt_flag_or
  else if String.eqb k "sum" then stmt_sum else False.
Definition shape_known (k : string) : bool :=
  String.eqb k "set-insert" || String.eqb k "per-key-write" || String.eqb k "flag-or" || String.eqb k "sum".
Lemma shape_known_statement k : shape_known k = true -> shape_statement k.
Proof.
  unfold shape_known, shape_statement. intro H.
  destruct (String.eqb k "set-insert"); [exact stmt_set_insert_holds|].
  destruct (String.eqb k "per-key-write"); [exact stmt_per_key_write_holds|].
  destruct (String.eqb k "flag-or"); [exact stmt_flag_or_holds|].
  destruct (String.eqb k "sum"); [exact stmt_sum_holds | discriminate].
Qed.

Definition fold_class (s : site) : bool :=
  match class_of s with Some (CommutativeFold _) | Some (PerKeyWrite _) => true | _ => false end.
Definition shaped_sites_ok : bool :=
  forallb (fun r => shape_known (snd r) && fold_class (fst r) && existsb (site_eqb (fst r)) map_sites) shaped_fold_sites.

Lemma shaped_sites_forall : forall s k, In (s, k) shaped_fold_sites -> shape_statement k /\ fold_class s = true.
Proof.
  assert (H : shaped_sites_ok = true) by (vm_compute; reflexivity).
  unfold shaped_sites_ok in H. rewrite forallb_forall in H.
  intros s k Hin. specialize (H (s, k) Hin). cbn [fst snd] in H.
  apply andb_true_iff in H as [H _]. apply andb_true_iff in H as [H1 H2].
  split; [now apply shape_known_statement | exact H2].
Qed.

(* the commutative-fold / per-key sites that have none of the three shapes stay named *)
Definition unshaped_fold_sites : list site :=
  filter (fun s => fold_class s && negb (existsb (fun r => site_eqb s (fst r)) shaped_fold_sites)) map_sites.
