(* C08: the scan model terminates and parses exactly the reachable files.
   For every schedule: the number of results received is the number of visited
   files minus the pending ones (so no run is longer than the number of files),
   a pending result can always be received (no deadlock), every run can be
   completed, and a complete run has visited exactly the files reachable from
   the roots through import records.  Together with ScannerProofs this makes
   the outcome of the scan phase unique up to the renaming of source indices. *)
From V Require Import Common.Base C08.Dfs C08.DfsProofs C08.Scanner C08.ScannerProofs.

Section Reach.
  Variable imports : Z -> list Z.
  Variable roots : list Z.

  Inductive reach : Z -> Prop :=
  | reach_root r : In r roots -> reach r
  | reach_step f c : reach f -> In c (imports f) -> reach c.

  (* generic preservation through maybeParseFile calls *)
  Lemma maybeParseAll_pres (Q : scan -> Prop) (P : Z -> Prop) :
    (forall st f, Q st -> P f -> Q (fst (maybeParse st f))) ->
    forall fs st, Q st -> (forall f, In f fs -> P f) -> Q (fst (maybeParseAll st fs)).
  Proof.
    intros Hstep. induction fs as [|f r IH]; intros st HQ HP; cbn [maybeParseAll fst]; [exact HQ|].
    destruct (maybeParse st f) as [st1 i] eqn:E1.
    assert (HQ1 : Q st1) by (change st1 with (fst (st1, i)); rewrite <- E1; apply Hstep; [exact HQ | apply HP; now left]).
    specialize (IH st1 HQ1 (fun g Hg => HP g (or_intror Hg))).
    destruct (maybeParseAll st1 r) as [st2 is]. exact IH.
  Qed.

  (* ---- counting: receives = visited - pending; next index = number of visited files ---- *)
  Definition counted (n : nat) (st : scan) : Prop :=
    sc_next st = Z.of_nat (length (sc_vis st)) /\ (length (sc_pend st) + n = length (sc_vis st))%nat.

  Lemma maybeParse_counted n st f : counted n st -> counted n (fst (maybeParse st f)).
  Proof.
    unfold counted, maybeParse. intros [H1 H2]. destruct (lookupz f (sc_vis st)); cbn [fst]; [now split|].
    cbn [sc_next sc_vis sc_pend length]. rewrite app_length. cbn [length]. split; lia.
  Qed.

  Lemma remove1_length f l : memz f l = true -> S (length (remove1 f l)) = length l.
  Proof.
    induction l as [|x r IH]; cbn [memz remove1 length]; [discriminate|].
    destruct (f =? x) eqn:E; cbn [orb]; [reflexivity|]. intro H. cbn [length]. now rewrite IH.
  Qed.

  Lemma recv_counted n st f st' : counted n st -> recv imports st f = Some st' -> counted (S n) st'.
  Proof.
    intros HC. unfold recv. destruct (memz f (sc_pend st)) eqn:Em; [|discriminate].
    destruct (lookupz f (sc_vis st)) as [fi|]; [|discriminate].
    set (st0 := mkScan (sc_vis st) (sc_next st) (remove1 f (sc_pend st)) (sc_recs st)).
    assert (H0 : counted (S n) st0).
    { destruct HC as [H1 H2]. split; cbn [st0 sc_next sc_vis sc_pend]; [exact H1|].
      pose proof (remove1_length f _ Em). lia. }
    pose proof (maybeParseAll_pres (counted (S n)) (fun _ => True)
                  (fun s g HQ _ => maybeParse_counted (S n) s g HQ) (imports f) st0 H0 (fun _ _ => I)) as H.
    destruct (maybeParseAll st0 (imports f)) as [st1 is]. cbn [fst] in H.
    intro E; inversion E; subst. exact H.
  Qed.

  Lemma init_counted : counted 0 (fst (scan_init roots)).
  Proof.
    unfold scan_init.
    apply (maybeParseAll_pres (counted 0) (fun _ => True) (fun s g HQ _ => maybeParse_counted 0 s g HQ)); [|auto].
    split; reflexivity.
  Qed.

  Lemma run_counted : forall sched n st st', counted n st -> run_scan imports st sched = Some st' ->
    counted (n + length sched) st'.
  Proof.
    induction sched as [|f r IH]; intros n st st' HC H; cbn [run_scan length] in *.
    - inversion H; subst. now rewrite Nat.add_0_r.
    - destruct (recv imports st f) as [st1|] eqn:E; [|discriminate].
      replace (n + S (length r))%nat with (S n + length r)%nat by lia.
      eapply IH; [eapply recv_counted; eauto | exact H].
  Qed.

  (* ---- every visited file is reachable ---- *)
  Definition vis_reach (st : scan) : Prop := forall f i, lookupz f (sc_vis st) = Some i -> reach f.

  Lemma maybeParse_vis_reach st f : vis_reach st -> reach f -> vis_reach (fst (maybeParse st f)).
  Proof.
    unfold vis_reach, maybeParse. intros HV HR. destruct (lookupz f (sc_vis st)) eqn:E; cbn [fst]; [exact HV|].
    intros g j. cbn [sc_vis lookupz]. destruct (g =? f) eqn:Eg; [apply Z.eqb_eq in Eg; now subst | apply HV].
  Qed.

  Lemma recv_vis_reach st f st' : vis_reach st -> recv imports st f = Some st' -> vis_reach st'.
  Proof.
    intros HV. unfold recv. destruct (memz f (sc_pend st)); [|discriminate].
    destruct (lookupz f (sc_vis st)) as [fi|] eqn:El; [|discriminate].
    set (st0 := mkScan (sc_vis st) (sc_next st) (remove1 f (sc_pend st)) (sc_recs st)).
    assert (H0 : vis_reach st0) by exact HV.
    pose proof (maybeParseAll_pres vis_reach reach maybeParse_vis_reach (imports f) st0 H0
                  (fun c Hc => reach_step f c (HV f fi El) Hc)) as H.
    destruct (maybeParseAll st0 (imports f)) as [st1 is]. cbn [fst] in H.
    intro E; inversion E; subst. exact H.
  Qed.

  Lemma init_vis_reach : vis_reach (fst (scan_init roots)).
  Proof.
    unfold scan_init. apply (maybeParseAll_pres vis_reach reach maybeParse_vis_reach).
    - intros f i H; discriminate.
    - intros f Hf. now apply reach_root.
  Qed.

  Lemma run_vis_reach : forall sched st st', vis_reach st -> run_scan imports st sched = Some st' -> vis_reach st'.
  Proof.
    induction sched as [|f r IH]; intros st st' HV H; cbn [run_scan] in H.
    - now inversion H; subst.
    - destruct (recv imports st f) as [st1|] eqn:E; [|discriminate].
      eapply IH; [eapply recv_vis_reach; eauto | exact H].
  Qed.

  (* MAIN 1: a complete run has parsed exactly the reachable files *)
  Theorem scan_visits_exactly_reachable_gen sched st :
    run_scan imports (fst (scan_init roots)) sched = Some st -> scan_complete st = true ->
    forall f, visited st f <-> reach f.
  Proof.
    intros Hrun Hdone f. split.
    - intros [i Hi]. exact (run_vis_reach sched _ st init_vis_reach Hrun f i Hi).
    - destruct (init_inv imports roots) as [HI0 Hroots]. cbn zeta in HI0, Hroots.
      destruct (run_inv imports sched _ st HI0 Hrun) as [HI Hext].
      destruct (forall2_roots _ st roots _ Hroots Hext) as [Hvis _].
      induction 1 as [r Hr|g c _ IH Hc]; [now apply Hvis|].
      eapply visited_closed; eauto.
  Qed.

  (* ---- no deadlock: any pending result can be received ---- *)
  Lemma memz_in f l : In f l -> memz f l = true.
  Proof.
    induction l as [|x r IH]; cbn [memz]; [contradiction|]. intros [->|H]; [now rewrite Z.eqb_refl | rewrite IH by exact H; apply orb_true_r].
  Qed.

  Lemma recv_enabled st f : Inv imports st -> In f (sc_pend st) -> exists st', recv imports st f = Some st'.
  Proof.
    intros [HI _] Hin. unfold recv. rewrite (memz_in f _ Hin).
    destruct (inv_pend imports st HI f Hin) as [i Hi]. rewrite Hi.
    destruct (maybeParseAll _ (imports f)) as [st1 is]. eauto.
  Qed.

  (* ---- termination: files live in a finite universe ---- *)
  Variable universe : list Z.
  Hypothesis roots_in : forall r, In r roots -> In r universe.
  Hypothesis imports_in : forall f c, In f universe -> In c (imports f) -> In c universe.

  Lemma reach_in_universe f : reach f -> In f universe.
  Proof. induction 1; eauto. Qed.

  Lemma vis_bound st : Core imports st -> vis_reach st -> (length (sc_vis st) <= length universe)%nat.
  Proof.
    intros HI HV. rewrite <- (map_length fst). apply NoDup_incl_length; [apply (inv_nodup_f imports st HI)|].
    intros f Hf. apply in_map_iff in Hf as [[g i] [E Hin]]. cbn in E; subst g.
    apply reach_in_universe. apply (HV f i). apply in_lookupz; [apply (inv_nodup_f imports st HI) | exact Hin].
  Qed.

  (* MAIN 2: no run, under any schedule, receives more results than there are files *)
  Theorem scan_run_bounded_gen sched st :
    run_scan imports (fst (scan_init roots)) sched = Some st ->
    (length sched + length (sc_pend st) = length (sc_vis st))%nat /\ (length sched <= length universe)%nat.
  Proof.
    intro Hrun. pose proof (run_counted sched 0 _ st init_counted Hrun) as [_ HC]. cbn [Nat.add] in HC.
    destruct (init_inv imports roots) as [HI0 _]. destruct (run_inv imports sched _ st HI0 Hrun) as [[HI _] _].
    pose proof (vis_bound st HI (run_vis_reach sched _ st init_vis_reach Hrun)). split; lia.
  Qed.

  (* MAIN 3: every run can be continued to a complete one (greedy: receive the oldest pending result) *)
  Fixpoint drain (fuel : nat) (st : scan) : option (list Z * scan) :=
    match sc_pend st with
    | [] => Some ([], st)
    | f :: _ => match fuel with
                | O => None
                | S k => match recv imports st f with
                         | Some st' => match drain k st' with Some (s, st'') => Some (f :: s, st'') | None => None end
                         | None => None
                         end
                end
    end.

  Lemma drain_run : forall fuel st s st', drain fuel st = Some (s, st') ->
    run_scan imports st s = Some st' /\ scan_complete st' = true.
  Proof.
    induction fuel as [|k IH]; intros st s st'; cbn [drain]; destruct (sc_pend st) as [|f r] eqn:Ep.
    - intro H; inversion H; subst. split; [reflexivity | unfold scan_complete; now rewrite Ep].
    - discriminate.
    - intro H; inversion H; subst. split; [reflexivity | unfold scan_complete; now rewrite Ep].
    - destruct (recv imports st f) as [st1|] eqn:E; [|discriminate].
      destruct (drain k st1) as [[s1 st2]|] eqn:Ed; [|discriminate]. intro H; inversion H; subst.
      destruct (IH st1 s1 st' Ed) as [H1 H2]. split; [cbn [run_scan]; now rewrite E | exact H2].
  Qed.

  Lemma drain_succeeds : forall fuel n st, Inv imports st -> vis_reach st -> counted n st ->
    (length universe < n + fuel)%nat -> exists s st', drain fuel st = Some (s, st').
  Proof.
    induction fuel as [|k IH]; intros n st HI HV HC Hf; cbn [drain]; destruct (sc_pend st) as [|f r] eqn:Ep; eauto.
    - exfalso. destruct HC as [_ HC]. rewrite Ep in HC. cbn [length] in HC.
      pose proof (vis_bound st (proj1 HI) HV). lia.
    - assert (Hin : In f (sc_pend st)) by (rewrite Ep; now left).
      destruct (recv_enabled st f HI Hin) as [st1 E]. rewrite E.
      destruct (recv_inv imports st f st1 HI E) as [HI1 _].
      destruct (IH (S n) st1 HI1 (recv_vis_reach st f st1 HV E) (recv_counted n st f st1 HC E)) as (s & st2 & Hd); [lia|].
      rewrite Hd. eauto.
  Qed.

  Theorem scan_can_complete_gen sched st :
    run_scan imports (fst (scan_init roots)) sched = Some st ->
    exists more st', run_scan imports st more = Some st' /\ scan_complete st' = true.
  Proof.
    intro Hrun. destruct (init_inv imports roots) as [HI0 _]. destruct (run_inv imports sched _ st HI0 Hrun) as [HI _].
    pose proof (run_counted sched 0 _ st init_counted Hrun) as HC. cbn [Nat.add] in HC.
    destruct (drain_succeeds (S (length universe)) (length sched) st HI (run_vis_reach sched _ st init_vis_reach Hrun) HC) as (s & st' & Hd); [lia|].
    exists s, st'. exact (drain_run _ _ _ _ Hd).
  Qed.
End Reach.

(* MAIN 4: two complete runs, under any two schedules, have the same outcome up
   to the renaming of source indices: same set of parsed files, same number of
   source indices, and each run's import records are the file graph renamed by
   that run's (injective) allocation *)
Theorem scan_phase_schedule_independent_gen imports roots sched1 sched2 st1 st2 :
  run_scan imports (fst (scan_init roots)) sched1 = Some st1 -> scan_complete st1 = true ->
  run_scan imports (fst (scan_init roots)) sched2 = Some st2 -> scan_complete st2 = true ->
  (forall f, visited st1 f <-> visited st2 f) /\
  sc_next st1 = sc_next st2 /\
  (forall f, visited st1 f ->
     graph_of_scan st1 (index_of_file st1 f) = map (index_of_file st1) (imports f) /\
     graph_of_scan st2 (index_of_file st2 f) = map (index_of_file st2) (imports f)) /\
  (forall f g, index_of_file st1 f = index_of_file st1 g -> f = g) /\
  (forall f g, index_of_file st2 f = index_of_file st2 g -> f = g).
Proof.
  intros R1 D1 R2 D2.
  pose proof (scan_visits_exactly_reachable_gen imports roots sched1 st1 R1 D1) as V1.
  pose proof (scan_visits_exactly_reachable_gen imports roots sched2 st2 R2 D2) as V2.
  assert (Hsame : forall f, visited st1 f <-> visited st2 f) by (intro f; rewrite V1, V2; tauto).
  destruct (init_inv imports roots) as [HI0 _].
  destruct (run_inv imports sched1 _ st1 HI0 R1) as [HI1 _]. destruct (run_inv imports sched2 _ st2 HI0 R2) as [HI2 _].
  split; [exact Hsame|]. split.
  - (* same number of files: both visited maps list the reachable files without repetition *)
    pose proof (run_counted imports sched1 0 _ st1 (init_counted imports roots) R1) as [N1 _].
    pose proof (run_counted imports sched2 0 _ st2 (init_counted imports roots) R2) as [N2 _].
    rewrite N1, N2. f_equal. rewrite <- (map_length fst (sc_vis st1)), <- (map_length fst (sc_vis st2)).
    assert (Hincl : forall a b, Core imports a -> Core imports b -> (forall f, visited a f -> visited b f) ->
                    (length (map fst (sc_vis a)) <= length (map fst (sc_vis b)))%nat).
    { intros a b Ca Cb Hab. apply NoDup_incl_length; [apply (inv_nodup_f imports a Ca)|].
      intros f Hf. apply in_map_iff in Hf as [[g i] [E Hin]]. cbn in E; subst g.
      destruct (Hab f) as [j Hj]; [exists i; apply in_lookupz; [apply (inv_nodup_f imports a Ca) | exact Hin]|].
      apply lookupz_in in Hj. change f with (fst (f, j)). now apply in_map. }
    apply Nat.le_antisymm; [apply Hincl | apply Hincl]; try apply HI1; try apply HI2; intros f; apply Hsame.
  - split; [|split; [exact (index_of_file_inj imports st1 (proj1 HI1)) | exact (index_of_file_inj imports st2 (proj1 HI2))]].
    intros f Hf. split; [apply graph_of_scan_spec | apply graph_of_scan_spec]; auto. now apply Hsame.
Qed.
