(* C08: whatever the order in which parse results arrive, the source indices
   the scanner hands out are an injective renaming of the files, the module
   graph in indices is the file-level graph renamed, and therefore the stable
   (DFS) order computed from it is the file-level DFS order renamed: the list
   of FILES in stable order does not depend on the schedule. *)
From V Require Import Common.Base C08.Dfs C08.DfsProofs C08.Scanner.

Section Scan.
  Variable imports : Z -> list Z.

  Definition visited (st : scan) (f : Z) : Prop := exists i, lookupz f (sc_vis st) = Some i.
  Definition children_ok (st : scan) (f : Z) (is : list Z) : Prop :=
    Forall2 (fun c ci => lookupz c (sc_vis st) = Some ci) (imports f) is.

  (* coverage: every visited file is pending or has been received, except
     possibly the file [x] whose result is being processed right now *)
  Definition cover (x : option Z) (st : scan) : Prop :=
    forall f i, lookupz f (sc_vis st) = Some i ->
      Some f = x \/ In f (sc_pend st) \/ exists is, In (i, is) (sc_recs st).

  Record Core (st : scan) : Prop := {
    inv_next : 0 <= sc_next st;
    inv_nodup_f : NoDup (map fst (sc_vis st));
    inv_nodup_i : NoDup (map snd (sc_vis st));
    inv_range : forall f i, In (f, i) (sc_vis st) -> 0 <= i < sc_next st;
    inv_pend : forall f, In f (sc_pend st) -> visited st f;
    inv_recs : forall i is, In (i, is) (sc_recs st) ->
                  exists f, lookupz f (sc_vis st) = Some i /\ children_ok st f is
  }.
  Definition Inv (st : scan) : Prop := Core st /\ cover None st.

  Definition ext (st st' : scan) : Prop :=
    forall f i, lookupz f (sc_vis st) = Some i -> lookupz f (sc_vis st') = Some i.

  Lemma lookupz_in f i l : lookupz f l = Some i -> In (f, i) l.
  Proof.
    induction l as [|[k v] r IH]; cbn [lookupz]; [discriminate|].
    destruct (f =? k) eqn:E; intro H.
    - apply Z.eqb_eq in E. inversion H; subst. now left.
    - right; auto.
  Qed.
  Lemma lookupz_none f l : lookupz f l = None -> ~ In f (map fst l).
  Proof.
    induction l as [|[k v] r IH]; cbn [lookupz map fst]; [auto|].
    destruct (f =? k) eqn:E; [discriminate|]. intros H [H1|H1].
    - apply Z.eqb_neq in E. congruence.
    - exact (IH H H1).
  Qed.
  Lemma in_lookupz f i l : NoDup (map fst l) -> In (f, i) l -> lookupz f l = Some i.
  Proof.
    induction l as [|[k v] r IH]; cbn [lookupz map fst]; intros ND HI; [contradiction|].
    inversion ND as [|? ? Hn ND']; subst. destruct HI as [E|HI].
    - inversion E; subst. now rewrite Z.eqb_refl.
    - destruct (f =? k) eqn:E; [|auto]. apply Z.eqb_eq in E; subst. exfalso. apply Hn.
      change k with (fst (k, i)). now apply in_map.
  Qed.

  Lemma forall2_mono st st' f is : ext st st' -> children_ok st f is -> children_ok st' f is.
  Proof. unfold children_ok. intros HE H. induction H; constructor; auto. Qed.

  Lemma ext_refl st : ext st st. Proof. intros f i H; exact H. Qed.
  Lemma ext_trans a b c : ext a b -> ext b c -> ext a c.
  Proof. intros H1 H2 f i H. apply H2, H1, H. Qed.

  (* ---- maybeParseFile ---- *)
  Lemma maybeParse_spec x st f : Core st -> cover x st ->
    let st' := fst (maybeParse st f) in let i := snd (maybeParse st f) in
    Core st' /\ cover x st' /\ ext st st' /\ lookupz f (sc_vis st') = Some i /\ sc_recs st' = sc_recs st.
  Proof.
    intros HI HC. unfold maybeParse. destruct (lookupz f (sc_vis st)) as [i|] eqn:E; cbn [fst snd].
    - split; [exact HI|]. split; [exact HC|]. split; [apply ext_refl|]. split; [exact E | reflexivity].
    - assert (Hext : ext st (mkScan ((f, sc_next st) :: sc_vis st) (sc_next st + 1) (sc_pend st ++ [f]) (sc_recs st))).
      { intros g j Hg. cbn [sc_vis lookupz]. destruct (g =? f) eqn:Eg; [|exact Hg].
        apply Z.eqb_eq in Eg; subst. congruence. }
      destruct HI as [Hn Hf Hi Hr Hp Hrec].
      split; [|split; [|repeat split; auto; cbn [sc_vis lookupz]; now rewrite Z.eqb_refl]].
      + split; cbn [sc_vis sc_next sc_pend sc_recs map fst snd].
        * lia.
        * constructor; [now apply lookupz_none | exact Hf].
        * constructor; [|exact Hi]. intro Hin. apply in_map_iff in Hin as [[g j] [Ej Hin]]. cbn in Ej; subst j.
          apply Hr in Hin. lia.
        * intros g j [Eq|Hin]; [inversion Eq; subst; lia | apply Hr in Hin; lia].
        * intros g Hg. apply in_app_or in Hg as [Hg|[Hg|[]]].
          -- destruct (Hp g Hg) as [j Hj]. exists j. now apply Hext.
          -- subst g. exists (sc_next st). cbn [sc_vis lookupz]. now rewrite Z.eqb_refl.
        * intros j is Hin. destruct (Hrec j is Hin) as (g & Hg & Hch). exists g. split; [now apply Hext|].
          eapply forall2_mono; [exact Hext | exact Hch].
      + intros g j Hg. cbn [sc_vis sc_pend sc_recs lookupz] in *. destruct (g =? f) eqn:Eg.
        * apply Z.eqb_eq in Eg; subst. right. left. apply in_or_app. right. now left.
        * destruct (HC g j Hg) as [H|[H|H]]; [now left | right; left; apply in_or_app; now left | right; now right].
  Qed.

  Lemma maybeParseAll_spec x : forall fs st, Core st -> cover x st ->
    let st' := fst (maybeParseAll st fs) in let is := snd (maybeParseAll st fs) in
    Core st' /\ cover x st' /\ ext st st' /\
    Forall2 (fun c ci => lookupz c (sc_vis st') = Some ci) fs is /\ sc_recs st' = sc_recs st.
  Proof.
    induction fs as [|f r IH]; intros st HI HC; cbn [maybeParseAll].
    - cbn [fst snd]. split; [exact HI|]. split; [exact HC|]. split; [apply ext_refl|]. split; [constructor | reflexivity].
    - destruct (maybeParse st f) as [st1 i] eqn:E1.
      pose proof (maybeParse_spec x st f HI HC) as H1. rewrite E1 in H1. cbn [fst snd] in H1.
      destruct H1 as (HI1 & HC1 & Hx1 & Hl1 & Hr1).
      destruct (maybeParseAll st1 r) as [st2 is] eqn:E2.
      pose proof (IH st1 HI1 HC1) as H2. rewrite E2 in H2. cbn [fst snd] in H2.
      destruct H2 as (HI2 & HC2 & Hx2 & Hl2 & Hr2). cbn [fst snd].
      split; [exact HI2|]. split; [exact HC2|]. split; [eapply ext_trans; eauto|].
      split; [constructor; [now apply Hx2 | exact Hl2] | congruence].
  Qed.

  Lemma remove1_other f g l : In g l -> g <> f -> In g (remove1 f l).
  Proof.
    induction l as [|x r IH]; cbn [remove1]; [auto|]. intros [E|H] Hn.
    - subst. destruct (f =? g) eqn:E; [apply Z.eqb_eq in E; congruence | now left].
    - destruct (f =? x); [exact H | right; auto].
  Qed.
  Lemma remove1_sub f g l : In g (remove1 f l) -> In g l.
  Proof.
    induction l as [|x r IH]; cbn [remove1]; [auto|]. destruct (f =? x); [now right|].
    intros [E|H]; [now left | right; auto].
  Qed.

  (* ---- one result arrives ---- *)
  Lemma recv_inv st f st' : Inv st -> recv imports st f = Some st' -> Inv st' /\ ext st st'.
  Proof.
    intros [HI HC]. unfold recv. destruct (memz f (sc_pend st)) eqn:Em; [|discriminate].
    destruct (lookupz f (sc_vis st)) as [fi|] eqn:El; [|discriminate].
    set (st0 := mkScan (sc_vis st) (sc_next st) (remove1 f (sc_pend st)) (sc_recs st)).
    assert (HI0 : Core st0).
    { destruct HI as [Hn Hf Hi Hr Hp Hrec]. split; cbn [st0 sc_vis sc_next sc_pend sc_recs]; auto.
      intros g Hg. apply Hp. eapply remove1_sub; eauto. }
    assert (HC0 : cover (Some f) st0).
    { intros g j Hg. cbn [st0 sc_vis sc_pend sc_recs] in *. destruct (Z.eq_dec g f) as [->|Hne]; [now left|].
      destruct (HC g j Hg) as [H|[H|H]]; [discriminate | right; left; now apply remove1_other | right; now right]. }
    pose proof (maybeParseAll_spec (Some f) (imports f) st0 HI0 HC0) as H.
    destruct (maybeParseAll st0 (imports f)) as [st1 is] eqn:E. cbn [fst snd] in H.
    destruct H as (HI1 & HC1 & Hx1 & Hl1 & Hr1).
    intro H; inversion H; subst st'; clear H.
    assert (Hext : ext st (mkScan (sc_vis st1) (sc_next st1) (sc_pend st1) ((fi, is) :: sc_recs st1))).
    { intros g j Hg. cbn [sc_vis]. apply Hx1. exact Hg. }
    split; [|exact Hext]. split.
    - destruct HI1 as [Hn Hf Hi Hr Hp Hrec]. split; cbn [sc_vis sc_next sc_pend sc_recs]; auto.
      intros j js [Eq|Hin].
      + inversion Eq; subst. exists f. split; [apply Hx1; exact El | exact Hl1].
      + exact (Hrec j js Hin).
    - intros g j Hg. cbn [sc_vis sc_pend sc_recs] in *. destruct (HC1 g j Hg) as [H|[H|[js H]]].
      + inversion H; subst g. right. right. exists is. left.
        assert (j = fi) by (pose proof (Hx1 f fi El) as H2; cbn [st0 sc_vis] in H2; congruence). now subst.
      + right. now left.
      + right. right. exists js. now right.
  Qed.

  Lemma run_inv : forall sched st st', Inv st -> run_scan imports st sched = Some st' -> Inv st' /\ ext st st'.
  Proof.
    induction sched as [|f r IH]; intros st st' HI H; cbn [run_scan] in H.
    - inversion H; subst. split; auto using ext_refl.
    - destruct (recv imports st f) as [st1|] eqn:E; [|discriminate].
      destruct (recv_inv st f st1 HI E) as [HI1 Hx1]. destruct (IH st1 st' HI1 H) as [HI2 Hx2].
      split; [exact HI2 | eapply ext_trans; eauto].
  Qed.

  Lemma init_inv roots : let st := fst (scan_init roots) in
    Inv st /\ Forall2 (fun c ci => lookupz c (sc_vis st) = Some ci) roots (snd (scan_init roots)).
  Proof.
    unfold scan_init.
    assert (HI : Core (mkScan [] 0 [] [])).
    { split; cbn; try lia; try constructor; intros; try contradiction. }
    assert (HC : cover None (mkScan [] 0 [] [])) by (intros f i H; discriminate).
    pose proof (maybeParseAll_spec None roots _ HI HC) as H. cbn zeta in H.
    destruct H as (H1 & H2 & _ & H4 & _). split; [split; assumption | exact H4].
  Qed.

  (* ---- the allocation is an injective renaming ---- *)
  Lemma neg_code_neg f : neg_code f < 0.
  Proof. unfold neg_code. destruct (f <? 0); lia. Qed.
  Lemma neg_code_inj f g : neg_code f = neg_code g -> f = g.
  Proof. unfold neg_code. destruct (f <? 0) eqn:E1, (g <? 0) eqn:E2; lia. Qed.

  Lemma index_of_file_inj st : Core st -> forall f g, index_of_file st f = index_of_file st g -> f = g.
  Proof.
    intros HI f g. unfold index_of_file.
    destruct (lookupz f (sc_vis st)) as [i|] eqn:Ef, (lookupz g (sc_vis st)) as [j|] eqn:Eg; intro H.
    - subst j. apply lookupz_in in Ef, Eg.
      (* distinct indices in the visited map *)
      pose proof (inv_nodup_i st HI) as ND. clear -ND Ef Eg.
      induction (sc_vis st) as [|[k v] r IH]; [contradiction|]. cbn [map snd] in ND. inversion ND as [|? ? Hn ND']; subst.
      destruct Ef as [E|Ef], Eg as [E'|Eg]; try congruence.
      + inversion E; subst. exfalso. apply Hn. change i with (snd (g, i)). now apply in_map.
      + inversion E'; subst. exfalso. apply Hn. change i with (snd (f, i)). now apply in_map.
      + now apply IH.
    - apply lookupz_in in Ef. apply (inv_range st HI) in Ef. pose proof (neg_code_neg g). lia.
    - apply lookupz_in in Eg. apply (inv_range st HI) in Eg. pose proof (neg_code_neg f). lia.
    - now apply neg_code_inj.
  Qed.

  Lemma children_map st f is : children_ok st f is -> is = map (index_of_file st) (imports f).
  Proof.
    unfold children_ok. induction 1 as [|c ci cs cis Hc _ IH]; cbn [map]; [reflexivity|].
    unfold index_of_file at 1. rewrite Hc. now rewrite IH.
  Qed.

  Lemma assocl_in i l is : assocl i l = Some is -> In (i, is) l.
  Proof.
    induction l as [|[k v] r IH]; cbn [assocl]; [discriminate|].
    destruct (i =? k) eqn:E; intro H; [apply Z.eqb_eq in E; inversion H; subst; now left | right; auto].
  Qed.
  Lemma in_assocl i is l : In (i, is) l -> exists is', assocl i l = Some is'.
  Proof.
    induction l as [|[k v] r IH]; cbn [assocl]; [contradiction|]. intros [E|H].
    - inversion E; subst. rewrite Z.eqb_refl. eauto.
    - destruct (i =? k); eauto.
  Qed.

  (* when every result has been received, the graph in indices is the file graph renamed *)
  Lemma graph_of_scan_spec st : Inv st -> scan_complete st = true ->
    forall f, visited st f -> graph_of_scan st (index_of_file st f) = map (index_of_file st) (imports f).
  Proof.
    intros [HI HC] Hdone f [i Hf]. unfold scan_complete in Hdone. destruct (sc_pend st) eqn:Ep; [|discriminate].
    unfold graph_of_scan. unfold index_of_file at 1. rewrite Hf.
    destruct (HC f i Hf) as [H|[H|[is H]]]; [discriminate | rewrite Ep in H; contradiction |].
    destruct (in_assocl _ _ _ H) as [is' His']. rewrite His'. apply assocl_in in His'.
    destruct (inv_recs st HI i is' His') as (g & Hg & Hch).
    assert (g = f).
    { apply (index_of_file_inj st HI). unfold index_of_file. now rewrite Hg, Hf. }
    subst g. now apply children_map.
  Qed.

  Lemma visited_closed st : Inv st -> scan_complete st = true ->
    forall f c, visited st f -> In c (imports f) -> visited st c.
  Proof.
    intros [HI HC] Hdone f c [i Hf] Hc. unfold scan_complete in Hdone. destruct (sc_pend st) eqn:Ep; [|discriminate].
    destruct (HC f i Hf) as [H|[H|[is H]]]; [discriminate | rewrite Ep in H; contradiction |].
    destruct (inv_recs st HI i is H) as (g & Hg & Hch).
    assert (g = f) by (apply (index_of_file_inj st HI); unfold index_of_file; now rewrite Hg, Hf). subst g.
    unfold children_ok in Hch. clear -Hch Hc. induction Hch as [|x xi xs xis Hx _ IH]; [contradiction|].
    destruct Hc as [->|Hc]; [now exists xi | auto].
  Qed.

  Lemma forall2_roots (vis0 : list (Z * Z)) st xs is :
    Forall2 (fun c ci => lookupz c vis0 = Some ci) xs is ->
    (forall f i, lookupz f vis0 = Some i -> lookupz f (sc_vis st) = Some i) ->
    (forall r, In r xs -> visited st r) /\ is = map (index_of_file st) xs.
  Proof.
    intros H Hext. induction H as [|x xi xs xis Hx _ [IH1 IH2]].
    - split; [intros r []| reflexivity].
    - split.
      + intros r [->|Hr]; [exists xi; now apply Hext | auto].
      + cbn [map]. unfold index_of_file at 1. rewrite (Hext x xi Hx). now rewrite IH2.
  Qed.

  (* MAIN: for every schedule, the stable order computed from the scanner's
     output is the file-level DFS order, renamed by that run's allocation *)
  Theorem scan_stable_order roots sched st fuel :
    run_scan imports (fst (scan_init roots)) sched = Some st -> scan_complete st = true ->
    snd (scan_init roots) = map (index_of_file st) roots /\
    reach_order fuel (graph_of_scan st) (map (index_of_file st) roots)
    = option_map (map (index_of_file st)) (reach_order fuel imports roots).
  Proof.
    intros Hrun Hdone. destruct (init_inv roots) as [HI0 Hroots]. cbn zeta in HI0, Hroots.
    destruct (run_inv sched _ st HI0 Hrun) as [HI Hext].
    destruct (forall2_roots _ st roots _ Hroots Hext) as [Hvis Hmap].
    split; [exact Hmap|].
    apply (reach_order_equiv_on (index_of_file st) (index_of_file_inj st (proj1 HI)) imports (graph_of_scan st) (visited st)).
    - apply visited_closed; assumption.
    - apply graph_of_scan_spec; assumption.
    - exact Hvis.
  Qed.
End Scan.

(* packaged: every run, whatever the schedule, allocates injectively *)
Lemma scan_allocation_injective_gen imports roots sched st :
  run_scan imports (fst (scan_init roots)) sched = Some st ->
  forall f g, index_of_file st f = index_of_file st g -> f = g.
Proof.
  intro Hrun. destruct (init_inv imports roots) as [HI0 _].
  destruct (run_inv imports sched _ st HI0 Hrun) as [[HI _] _].
  exact (index_of_file_inj imports st HI).
Qed.

(* every visited file of a complete run has been given exactly the renamed imports *)
Lemma scan_graph_is_renamed_gen imports roots sched st :
  run_scan imports (fst (scan_init roots)) sched = Some st -> scan_complete st = true ->
  forall f i, lookupz f (sc_vis st) = Some i ->
    graph_of_scan st i = map (index_of_file st) (imports f).
Proof.
  intros Hrun Hdone f i Hf. destruct (init_inv imports roots) as [HI0 _].
  destruct (run_inv imports sched _ st HI0 Hrun) as [HI _].
  pose proof (graph_of_scan_spec imports st HI Hdone f (ex_intro _ i Hf)) as H.
  unfold index_of_file at 1 in H. now rewrite Hf in H.
Qed.

(* the allocation can be read backwards: the file of a source index *)
Definition decode_neg (i : Z) : Z := let n := - i - 1 in if Z.odd n then - (n / 2) else n / 2.
Fixpoint file_of_vis (i : Z) (l : list (Z * Z)) : option Z :=
  match l with [] => None | (f, j) :: r => if i =? j then Some f else file_of_vis i r end.
Definition file_of_index (st : scan) (i : Z) : Z :=
  if i <? 0 then decode_neg i else match file_of_vis i (sc_vis st) with Some f => f | None => -1 end.

Lemma decode_neg_code f : decode_neg (neg_code f) = f.
Proof.
  unfold decode_neg, neg_code. destruct (f <? 0) eqn:E.
  - replace (- (- (2 * Z.abs f + 1) - 1) - 1) with (1 + 2 * Z.abs f) by lia.
    rewrite Z.odd_add_mul_2. cbn [Z.odd]. replace ((1 + 2 * Z.abs f) / 2) with (Z.abs f) by lia. lia.
  - replace (- (- (2 * Z.abs f + 0) - 1) - 1) with (0 + 2 * Z.abs f) by lia.
    rewrite Z.odd_add_mul_2. cbn [Z.odd]. replace ((0 + 2 * Z.abs f) / 2) with (Z.abs f) by lia. lia.
Qed.

Lemma file_of_index_spec imports st : Core imports st -> forall f, file_of_index st (index_of_file st f) = f.
Proof.
  intros HI f. unfold file_of_index, index_of_file. destruct (lookupz f (sc_vis st)) as [i|] eqn:E.
  - apply lookupz_in in E. pose proof (inv_range imports st HI f i E) as Hr.
    destruct (i <? 0) eqn:Ei; [lia|].
    pose proof (inv_nodup_i imports st HI) as ND. clear -ND E.
    induction (sc_vis st) as [|[g j] r IH]; [contradiction|]. cbn [file_of_vis map snd] in *.
    inversion ND as [|? ? Hn ND']; subst. destruct E as [E|E].
    + inversion E; subst. now rewrite Z.eqb_refl.
    + destruct (i =? j) eqn:Eij; [|now apply IH].
      apply Z.eqb_eq in Eij; subst. exfalso. apply Hn. change j with (snd (f, j)). now apply in_map.
  - pose proof (neg_code_neg imports f). destruct (neg_code f <? 0) eqn:En; [apply decode_neg_code | lia].
Qed.
