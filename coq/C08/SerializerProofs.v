(* C08: every run of the Serializer LTS (any interleaving, any number of
   workers) executes the critical sections in index order, one at a time, and
   never deadlocks. *)
From V Require Import Common.Base C08.Serializer.
Local Open Scope nat_scope.

Lemma pc_eqb_eq a b : pc_eqb a b = true <-> a = b.
Proof. destruct a, b; cbn; split; congruence. Qed.

Definition tail_of (p : pcT) (k : nat) : list nat := match p with Worked => [k] | _ => [] end.

(* frontier k: workers below k have left, workers above k have not started *)
Definition Inv (n : nat) (s : sstate) : Prop :=
  exists k, k <= n
    /\ (forall j, j < k -> pc s j = Left)
    /\ (forall j, j > k -> pc s j = Waiting)
    /\ (forall j, j >= n -> pc s j = Waiting)
    /\ pc s k <> Left
    /\ slog s = seq 0 k ++ tail_of (pc s k) k.

Lemma inv_init n : Inv n sinit.
Proof. exists 0. cbn. repeat split; auto with arith; try discriminate; intros; lia. Qed.

Lemma upd_same f i v : upd_pc f i v i = v.
Proof. unfold upd_pc. now rewrite Nat.eqb_refl. Qed.
Lemma upd_other f i v j : j <> i -> upd_pc f i v j = f j.
Proof. unfold upd_pc. intro H. apply Nat.eqb_neq in H. now rewrite H. Qed.

(* a worker that is not Left/Waiting-beyond-frontier must be the frontier *)
Lemma frontier_unique (s : sstate) (k i : nat) :
  (forall j, j < k -> pc s j = Left) -> (forall j, j > k -> pc s j = Waiting) ->
  pc s i <> Left -> pc s i <> Waiting -> i = k.
Proof.
  intros HL HW H1 H2. destruct (Nat.lt_trichotomy i k) as [H|[H|H]]; auto.
  - exfalso. apply H1. now apply HL.
  - exfalso. apply H2. now apply HW.
Qed.

Lemma inv_step n s e s' : Inv n s -> sstep n s e = Some s' -> Inv n s'.
Proof.
  intros (k & Hkn & HL & HW & HN & Hk & Hlog) Hstep.
  destruct e as [i|i|i]; cbn [sstep] in Hstep.
  - (* Enter *)
    destruct (i <? n) eqn:Ein; cbn [andb] in Hstep; [|discriminate].
    destruct (pc_eqb (pc s i) Waiting) eqn:Ew; cbn [andb] in Hstep; [|discriminate].
    destruct ((i =? 0) || pc_eqb (pc s (i - 1)) Left) eqn:Ep; [|discriminate].
    inversion Hstep; subst s'; clear Hstep.
    apply pc_eqb_eq in Ew. apply Nat.ltb_lt in Ein.
    assert (Eik : i = k).
    { destruct (Nat.lt_trichotomy i k) as [H|[H|H]]; auto.
      - rewrite (HL i H) in Ew. discriminate.
      - apply orb_true_iff in Ep as [Ep|Ep].
        + apply Nat.eqb_eq in Ep. lia.
        + apply pc_eqb_eq in Ep. destruct (Nat.eq_dec (i - 1) k) as [E|E].
          * rewrite E in Ep. contradiction.
          * rewrite (HW (i - 1)) in Ep by lia. discriminate. }
    subst i. exists k. cbn [pc slog]. repeat split; auto.
    + intros j Hj. rewrite upd_other by lia. auto.
    + intros j Hj. rewrite upd_other by lia. auto.
    + intros j Hj. rewrite upd_other by lia. auto.
    + rewrite upd_same. discriminate.
    + rewrite upd_same. rewrite Hlog, Ew. reflexivity.
  - (* Work *)
    destruct (i <? n) eqn:Ein; cbn [andb] in Hstep; [|discriminate].
    destruct (pc_eqb (pc s i) Entered) eqn:Ew; [|discriminate].
    inversion Hstep; subst s'; clear Hstep.
    apply pc_eqb_eq in Ew. apply Nat.ltb_lt in Ein.
    assert (Eik : i = k) by (eapply frontier_unique; eauto; rewrite Ew; discriminate).
    subst i. exists k. cbn [pc slog]. repeat split; auto.
    + intros j Hj. rewrite upd_other by lia. auto.
    + intros j Hj. rewrite upd_other by lia. auto.
    + intros j Hj. rewrite upd_other by lia. auto.
    + rewrite upd_same. discriminate.
    + rewrite upd_same. rewrite Hlog, Ew. cbn [tail_of]. now rewrite app_nil_r.
  - (* Leave *)
    destruct (i <? n) eqn:Ein; cbn [andb] in Hstep; [|discriminate].
    destruct (pc_eqb (pc s i) Worked) eqn:Ew; [|discriminate].
    inversion Hstep; subst s'; clear Hstep.
    apply pc_eqb_eq in Ew. apply Nat.ltb_lt in Ein.
    assert (Eik : i = k) by (eapply frontier_unique; eauto; rewrite Ew; discriminate).
    subst i. exists (S k). cbn [pc slog]. repeat split; auto.
    + intros j Hj. destruct (Nat.eq_dec j k) as [E|E]; [subst; apply upd_same|].
      rewrite upd_other by lia. apply HL. lia.
    + intros j Hj. rewrite upd_other by lia. apply HW. lia.
    + intros j Hj. rewrite upd_other by lia. auto.
    + rewrite upd_other by lia. rewrite HW by lia. discriminate.
    + rewrite upd_other by lia. rewrite (HW (S k)) by lia. cbn [tail_of].
      rewrite Hlog, Ew. cbn [tail_of]. rewrite app_nil_r. now rewrite seq_S.
Qed.

Lemma inv_run n : forall tr s s', Inv n s -> srun n s tr = Some s' -> Inv n s'.
Proof.
  induction tr as [|e tr IH]; intros s s' HI Hr; cbn [srun] in Hr.
  - now inversion Hr; subst.
  - destruct (sstep n s e) as [s1|] eqn:E; [|discriminate].
    eapply IH; [eapply inv_step; eauto | exact Hr].
Qed.

Lemma all_left_spec n s : all_left n s = true <-> forall j, j < n -> pc s j = Left.
Proof.
  unfold all_left. rewrite forallb_forall. split.
  - intros H j Hj. apply pc_eqb_eq, H, in_seq. lia.
  - intros H j Hj. apply in_seq in Hj. apply pc_eqb_eq, H. lia.
Qed.

(* the log of critical sections of every reachable state is an initial
   segment 0,1,2,... : the critical sections ran in index order *)
Lemma serializer_prefix n tr s :
  srun n sinit tr = Some s -> exists k, k <= n /\ slog s = seq 0 k.
Proof.
  intro Hr. destruct (inv_run n tr _ _ (inv_init n) Hr) as (k & Hkn & HL & HW & HN & Hk & Hlog).
  destruct (pc s k) eqn:E; cbn [tail_of] in Hlog.
  - exists k. now rewrite app_nil_r in Hlog.
  - exists k. now rewrite app_nil_r in Hlog.
  - exists (S k). split.
    + destruct (Nat.eq_dec k n) as [->|]; [|lia]. rewrite HN in E by lia. discriminate.
    + now rewrite seq_S.
  - contradiction.
Qed.

(* complete runs: every worker entered and left => exactly 0..n-1 in order *)
Lemma serializer_order_all n tr s :
  srun n sinit tr = Some s -> all_left n s = true -> slog s = seq 0 n.
Proof.
  intros Hr Hall. destruct (inv_run n tr _ _ (inv_init n) Hr) as (k & Hkn & HL & HW & HN & Hk & Hlog).
  rewrite all_left_spec in Hall.
  assert (k = n). { destruct (Nat.eq_dec k n); auto. exfalso. apply Hk, Hall. lia. }
  subst k. rewrite Hlog, HN by lia. cbn [tail_of]. now rewrite app_nil_r.
Qed.

(* mutual exclusion: two workers are never inside together *)
Definition inside (p : pcT) : Prop := p = Entered \/ p = Worked.
Lemma serializer_mutex_all n tr s i j :
  srun n sinit tr = Some s -> inside (pc s i) -> inside (pc s j) -> i = j.
Proof.
  intros Hr Hi Hj. destruct (inv_run n tr _ _ (inv_init n) Hr) as (k & Hkn & HL & HW & HN & Hk & Hlog).
  assert (forall x, inside (pc s x) -> x = k).
  { intros x Hx. eapply frontier_unique; eauto; destruct Hx as [E|E]; rewrite E; discriminate. }
  rewrite (H i Hi), (H j Hj). reflexivity.
Qed.

(* no deadlock: unless everybody is done some step is enabled *)
Lemma serializer_progress_all n tr s :
  srun n sinit tr = Some s -> all_left n s = false -> exists e s', sstep n s e = Some s'.
Proof.
  intros Hr Hall. destruct (inv_run n tr _ _ (inv_init n) Hr) as (k & Hkn & HL & HW & HN & Hk & Hlog).
  assert (Hlt : k < n).
  { destruct (Nat.eq_dec k n) as [->|]; [|lia]. exfalso.
    assert (all_left n s = true) by (apply all_left_spec; auto). congruence. }
  apply Nat.ltb_lt in Hlt.
  destruct (pc s k) eqn:E.
  - exists (EvEnter k). cbn [sstep]. rewrite Hlt, E. cbn [pc_eqb andb].
    destruct k as [|k']; cbn [Nat.eqb orb]; [eauto|].
    replace (S k' - 1) with k' by lia. rewrite (HL k') by lia. cbn [pc_eqb]. eauto.
  - exists (EvWork k). cbn [sstep]. rewrite Hlt, E. cbn [pc_eqb andb]. eauto.
  - exists (EvLeave k). cbn [sstep]. rewrite Hlt, E. cbn [pc_eqb andb]. eauto.
  - contradiction.
Qed.
