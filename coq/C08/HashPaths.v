(* C08: the paths that reach a chunk hash are location-independent.
   Two regenerated inventories of linker.generateIsolatedHash:
     V.gen.HashInventoryGen (translator c18hashinv, C18): every write into the hasher;
     V.gen.HashPathsGen     (translator t4mapsites): every assignment to a local
                            variable that such a write reads.
   Obligation: no written expression and no definition of a written variable
   mentions the log path style or an absolute path (LogPathStyle, Select(,
   .Abs, AbsPath, Cwd): the only file path in the hash is PrettyPaths.Rel (or
   the key path text of a non-file namespace). *)
From Coq Require Import String List Bool Ascii.
From V Require Import gen.HashInventoryGen gen.HashPathsGen.
Import ListNotations.
Open Scope string_scope.

Fixpoint has_prefix (p s : string) : bool :=
  match p, s with
  | EmptyString, _ => true
  | String a p', String b s' => Ascii.eqb a b && has_prefix p' s'
  | _, EmptyString => false
  end.
Fixpoint contains (p s : string) : bool :=
  has_prefix p s || match s with EmptyString => false | String _ s' => contains p s' end.

Definition forbidden : list string := ["LogPathStyle"; "Select("; ".Abs"; "AbsPath"; "Cwd"; "AbsWorkingDir"].
Definition location_free (e : string) : bool := forallb (fun w => negb (contains w e)) forbidden.

Definition hash_paths_ok : bool :=
  forallb (fun w => location_free (snd (fst w))) iso_writes
  && forallb (fun d => location_free (snd d)) hash_operand_definitions
  && existsb (fun d => String.eqb (fst d) "filePath" && String.eqb (snd d) "file.InputFile.Source.PrettyPaths.Rel") hash_operand_definitions
  && negb (Nat.eqb hash_write_count 0).

Lemma hash_paths_ok_true : hash_paths_ok = true.
Proof. vm_compute. reflexivity. Qed.

Lemma hash_writes_location_free : forall k e g, In (k, e, g) iso_writes -> location_free e = true.
Proof.
  pose proof hash_paths_ok_true as H. unfold hash_paths_ok in H.
  apply andb_true_iff in H as [H _]. apply andb_true_iff in H as [H _]. apply andb_true_iff in H as [H _].
  rewrite forallb_forall in H. intros k e g Hin. exact (H _ Hin).
Qed.
Lemma hash_operands_location_free : forall v e, In (v, e) hash_operand_definitions -> location_free e = true.
Proof.
  pose proof hash_paths_ok_true as H. unfold hash_paths_ok in H.
  apply andb_true_iff in H as [H _]. apply andb_true_iff in H as [H _]. apply andb_true_iff in H as [_ H].
  rewrite forallb_forall in H. intros v e Hin. exact (H _ Hin).
Qed.
Lemma hash_file_path_is_relative :
  In ("filePath", "file.InputFile.Source.PrettyPaths.Rel") hash_operand_definitions.
Proof.
  pose proof hash_paths_ok_true as H. unfold hash_paths_ok in H.
  apply andb_true_iff in H as [H _]. apply andb_true_iff in H as [_ H].
  apply existsb_exists in H as ([v e] & Hin & E). cbn [fst snd] in E.
  apply andb_true_iff in E as [E1 E2]. apply String.eqb_eq in E1, E2. now subst.
Qed.
