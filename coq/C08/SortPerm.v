(* C08: order-insensitivity lemmas.  Pure list theory (no esbuild model here):
   - any two sorted permutations of permutation-equal inputs coincide when the
     comparator is a strict weak order that is total on the elements at hand
     (this is why Go's unstable sort.Sort gives a canonical result exactly
     when the sort keys are injective);
   - the same for the key projection when the comparator only looks at keys;
   - commutative accumulations and per-key independent map writes do not
     depend on the iteration order.
   Also [isort], the model sort used by the correspondence checkers. *)
From V Require Import Common.Base.
From Coq Require Import Permutation Sorted.

Section Sorting.
  Context {A : Type}.
  Variable ltb : A -> A -> bool.

  (* strict weak order, the contract of sort.Interface.Less *)
  Record StrictWeak : Prop := {
    sw_irrefl : forall x, ltb x x = false;
    sw_trans : forall x y z, ltb x y = true -> ltb y z = true -> ltb x z = true;
    (* incomparability is transitive, in its "negative transitivity" form *)
    sw_negtrans : forall x y z, ltb x y = false -> ltb y z = false -> ltb x z = false
  }.

  (* no two distinct elements of l are tied *)
  Definition TotalOn (l : list A) : Prop :=
    forall x y, In x l -> In y l -> ltb x y = false -> ltb y x = false -> x = y.

  (* what sort.Sort / sort.Stable guarantee about their result: no later
     element is Less than its predecessor *)
  Definition ge_rel (x y : A) : Prop := ltb y x = false.
  Definition SortedBy (l : list A) : Prop := Sorted ge_rel l.

  Lemma sorted_strongly (SW : StrictWeak) l : SortedBy l -> StronglySorted ge_rel l.
  Proof.
    intro H. apply Sorted_StronglySorted; [|exact H].
    intros x y z Hxy Hyz. unfold ge_rel in *. exact (sw_negtrans SW z y x Hyz Hxy).
  Qed.

  Lemma sorted_perm_unique_aux (SW : StrictWeak) :
    forall s s', StronglySorted ge_rel s -> StronglySorted ge_rel s' ->
      Permutation s s' -> TotalOn s -> s = s'.
  Proof.
    induction s as [|x s IH]; intros s' Hs Hs' HP HT.
    - apply Permutation_nil in HP. now subst.
    - destruct s' as [|y s'].
      + apply Permutation_sym, Permutation_nil in HP. discriminate.
      + inversion Hs as [|? ? Hs1 Hx]; subst. inversion Hs' as [|? ? Hs1' Hy]; subst.
        assert (Exy : x = y).
        { assert (Ix : In x (y :: s')) by (eapply Permutation_in; [exact HP | now left]).
          assert (Iy : In y (x :: s)) by (eapply Permutation_in; [apply Permutation_sym; exact HP | now left]).
          destruct Ix as [E|Ix]; [now subst|]. destruct Iy as [E|Iy]; [now subst|].
          rewrite Forall_forall in Hx, Hy.
          apply HT; [now left | now right | |].
          - exact (Hy x Ix).
          - exact (Hx y Iy). }
        subst y. f_equal. apply IH; auto.
        * eapply Permutation_cons_inv; exact HP.
        * intros a b Ia Ib. apply HT; now right.
  Qed.

  (* main lemma: the result of sorting does not depend on the input order *)
  Lemma sort_perm_invariant_gen (SW : StrictWeak) :
    forall l l' s s', Permutation l l' -> TotalOn l ->
      Permutation l s -> SortedBy s -> Permutation l' s' -> SortedBy s' -> s = s'.
  Proof.
    intros l l' s s' HP HT Hls Hs Hls' Hs'.
    apply (sorted_perm_unique_aux SW); try (apply sorted_strongly; assumption).
    - eapply Permutation_trans; [apply Permutation_sym; exact Hls|].
      eapply Permutation_trans; [exact HP | exact Hls'].
    - intros x y Ix Iy. apply HT; eapply Permutation_in; try (apply Permutation_sym; exact Hls); assumption.
  Qed.

  (* for sorting FUNCTIONS: any function that returns a sorted permutation *)
  Definition IsSort (sort : list A -> list A) : Prop :=
    forall l, Permutation l (sort l) /\ SortedBy (sort l).

  Lemma sort_fun_perm_invariant (SW : StrictWeak) (sort1 sort2 : list A -> list A) :
    IsSort sort1 -> IsSort sort2 ->
    forall l l', Permutation l l' -> TotalOn l -> sort1 l = sort2 l'.
  Proof.
    intros H1 H2 l l' HP HT. destruct (H1 l) as [P1 S1]. destruct (H2 l') as [P2 S2].
    exact (sort_perm_invariant_gen SW l l' _ _ HP HT P1 S1 P2 S2).
  Qed.

  (* model sort: stable insertion sort (x stays in front of later ties) *)
  Fixpoint insert (x : A) (l : list A) : list A :=
    match l with
    | [] => [x]
    | y :: r => if ltb y x then y :: insert x r else x :: l
    end.
  Fixpoint isort (l : list A) : list A :=
    match l with [] => [] | x :: r => insert x (isort r) end.

  Lemma insert_perm x l : Permutation (x :: l) (insert x l).
  Proof.
    induction l as [|y r IH]; cbn [insert]; [reflexivity|].
    destruct (ltb y x); [|reflexivity].
    eapply Permutation_trans; [apply perm_swap|]. now apply perm_skip.
  Qed.
  Lemma isort_perm l : Permutation l (isort l).
  Proof.
    induction l as [|x r IH]; cbn [isort]; [constructor|].
    eapply Permutation_trans; [apply perm_skip; exact IH | apply insert_perm].
  Qed.

  Lemma insert_sorted (SW : StrictWeak) x l : SortedBy l -> SortedBy (insert x l).
  Proof.
    unfold SortedBy. induction l as [|y r IH]; intro H; cbn [insert].
    - repeat constructor.
    - destruct (ltb y x) eqn:E.
      + inversion H as [|? ? Hr Hh]; subst. constructor; [now apply IH|].
        assert (Exy : ltb x y = false).
        { destruct (ltb x y) eqn:E2; [|reflexivity].
          pose proof (sw_trans SW x y x E2 E) as C. rewrite (sw_irrefl SW) in C. discriminate. }
        destruct r as [|z r]; cbn [insert].
        * constructor. exact Exy.
        * destruct (ltb z x); constructor; [|exact Exy]. inversion Hh; subst. assumption.
      + constructor; [exact H|]. constructor. exact E.
  Qed.
  Lemma isort_sorted (SW : StrictWeak) l : SortedBy (isort l).
  Proof. induction l as [|x r IH]; cbn [isort]; [constructor | now apply insert_sorted]. Qed.

  Lemma isort_is_sort (SW : StrictWeak) : IsSort isort.
  Proof. intro l; split; [apply isort_perm | now apply isort_sorted]. Qed.

  (* whatever algorithm sort.Sort uses, its result is the model's *)
  Lemma any_sort_eq_isort (SW : StrictWeak) l s :
    TotalOn l -> Permutation l s -> SortedBy s -> s = isort l.
  Proof.
    intros HT HP Hs.
    eapply (sort_perm_invariant_gen SW l l); eauto using isort_perm, isort_sorted.
  Qed.
  (* the model sort is stable: elements tied with k keep their input order *)
  Definition tied (k x : A) : bool := negb (ltb k x) && negb (ltb x k).

  Lemma insert_filter_tied (SW : StrictWeak) k x l :
    filter (tied k) (insert x l) = (if tied k x then [x] else []) ++ filter (tied k) l.
  Proof.
    induction l as [|y r IH]; cbn [insert filter app].
    - destruct (tied k x); reflexivity.
    - destruct (ltb y x) eqn:E; cbn [filter].
      + rewrite IH. destruct (tied k y) eqn:Ty; [|reflexivity].
        destruct (tied k x) eqn:Tx; [|reflexivity]. exfalso.
        (* y ~ k ~ x would make y and x incomparable *)
        unfold tied in Ty, Tx. apply andb_true_iff in Ty as [Ty1 Ty2]. apply andb_true_iff in Tx as [Tx1 Tx2].
        apply negb_true_iff in Ty1, Ty2, Tx1, Tx2.
        pose proof (sw_negtrans SW y k x Ty2 Tx1) as C. congruence.
      + destruct (tied k x); reflexivity.
  Qed.

  Lemma isort_stable_gen (SW : StrictWeak) k l : filter (tied k) (isort l) = filter (tied k) l.
  Proof.
    induction l as [|x r IH]; cbn [isort filter]; [reflexivity|].
    rewrite (insert_filter_tied SW), IH. destruct (tied k x); reflexivity.
  Qed.

  (* two sorted permutations that agree on every tie class are equal: the
     result of a STABLE sort is determined by the multiset of elements and the
     arrival order inside each tie class *)
  Lemma tied_refl (SW : StrictWeak) x : tied x x = true.
  Proof. unfold tied. now rewrite (sw_irrefl SW). Qed.

  Lemma sorted_classes_unique (SW : StrictWeak) :
    forall s s', SortedBy s -> SortedBy s' -> Permutation s s' ->
      (forall k, filter (tied k) s = filter (tied k) s') -> s = s'.
  Proof.
    intros s s' Hs Hs'. apply (sorted_strongly SW) in Hs. apply (sorted_strongly SW) in Hs'.
    revert s' Hs'. induction s as [|x s IH]; intros s' Hs' HP HF.
    - apply Permutation_nil in HP. now subst.
    - destruct s' as [|y s']; [apply Permutation_sym, Permutation_nil in HP; discriminate|].
      inversion Hs as [|? ? Hs1 Hx]; subst. inversion Hs' as [|? ? Hs1' Hy]; subst.
      rewrite Forall_forall in Hx, Hy.
      assert (Txy : tied x y = true).
      { unfold tied. apply andb_true_iff; split; apply negb_true_iff.
        - assert (Ix : In x (y :: s')) by (eapply Permutation_in; [exact HP | now left]).
          destruct Ix as [E|Ix]; [subst; apply (sw_irrefl SW) | exact (Hy x Ix)].
        - assert (Iy : In y (x :: s)) by (eapply Permutation_in; [apply Permutation_sym; exact HP | now left]).
          destruct Iy as [E|Iy]; [subst; apply (sw_irrefl SW) | exact (Hx y Iy)]. }
      assert (Exy : x = y).
      { pose proof (HF x) as H. cbn [filter] in H. rewrite (tied_refl SW), Txy in H. now inversion H. }
      subst y. f_equal. apply IH; auto.
      + eapply Permutation_cons_inv; exact HP.
      + intro k. pose proof (HF k) as H. cbn [filter] in H. destruct (tied k x); [now inversion H | exact H].
  Qed.

  Lemma stable_sort_invariant_gen (SW : StrictWeak) l l' :
    Permutation l l' -> (forall k, filter (tied k) l = filter (tied k) l') -> isort l = isort l'.
  Proof.
    intros HP HF. apply (sorted_classes_unique SW); try apply (isort_sorted SW).
    - eapply Permutation_trans; [apply Permutation_sym, isort_perm|].
      eapply Permutation_trans; [exact HP | apply isort_perm].
    - intro k. now rewrite !(isort_stable_gen SW).
  Qed.
End Sorting.

(* comparator that looks at a key only: the KEY sequence of the result is
   canonical even if elements with equal keys exist (sort.Stable on messages) *)
Section Keyed.
  Context {A K : Type}.
  Variable key : A -> K.
  Variable kltb : K -> K -> bool.
  Definition on_key (x y : A) : bool := kltb (key x) (key y).

  Lemma sorted_map_key l : SortedBy on_key l -> SortedBy kltb (map key l).
  Proof.
    unfold SortedBy. induction 1 as [|x l Hs IH Hh]; cbn [map]; constructor; auto.
    destruct Hh; cbn [map]; constructor. exact H.
  Qed.

  Lemma sort_keys_invariant (SW : StrictWeak kltb) :
    forall l l' s s', Permutation l l' -> TotalOn kltb (map key l) ->
      Permutation l s -> SortedBy on_key s -> Permutation l' s' -> SortedBy on_key s' ->
      map key s = map key s'.
  Proof.
    intros l l' s s' HP HT Hls Hs Hls' Hs'.
    eapply (sort_perm_invariant_gen kltb SW (map key l) (map key l'));
      eauto using Permutation_map, sorted_map_key.
  Qed.

  Lemma on_key_strict_weak : StrictWeak kltb -> StrictWeak on_key.
  Proof.
    intros [I T N]. split; unfold on_key; intros; eauto.
  Qed.

  Lemma on_key_total_on l :
    TotalOn kltb (map key l) ->
    (forall x y, In x l -> In y l -> key x = key y -> x = y) -> TotalOn on_key l.
  Proof.
    intros HT Hinj x y Ix Iy H1 H2. apply Hinj; auto.
    apply HT; auto using in_map.
  Qed.
End Keyed.

(* ---- iteration-order independence of accumulations ---- *)
Section Folds.
  Context {A B : Type}.
  Variable f : B -> A -> B.
  Hypothesis f_comm : forall b x y, f (f b x) y = f (f b y) x.

  Lemma fold_comm_invariant_gen : forall l l', Permutation l l' -> forall b, fold_left f l b = fold_left f l' b.
  Proof.
    induction 1 as [|x l l' HP IH|x y l|l l' l'' H1 IH1 H2 IH2]; intro b; cbn [fold_left].
    - reflexivity.
    - apply IH.
    - now rewrite f_comm.
    - now rewrite IH1.
  Qed.
End Folds.

(* commutativity up to an observation (e.g. set equality of accumulated lists) *)
Section FoldsUpTo.
  Context {A B : Type}.
  Variable f : B -> A -> B.
  Variable R : B -> B -> Prop.
  Hypothesis R_refl : forall b, R b b.
  Hypothesis R_trans : forall a b c, R a b -> R b c -> R a c.
  Hypothesis f_resp : forall b b' x, R b b' -> R (f b x) (f b' x).
  Hypothesis f_comm : forall b x y, R (f (f b x) y) (f (f b y) x).

  Lemma fold_resp l : forall b b', R b b' -> R (fold_left f l b) (fold_left f l b').
  Proof. induction l as [|x l IH]; intros b b' H; cbn [fold_left]; auto. Qed.

  Lemma fold_comm_invariant_upto : forall l l', Permutation l l' -> forall b, R (fold_left f l b) (fold_left f l' b).
  Proof.
    induction 1 as [|x l l' HP IH|x y l|l l' l'' H1 IH1 H2 IH2]; intro b; cbn [fold_left].
    - apply R_refl.
    - apply IH.
    - apply fold_resp, f_comm.
    - eapply R_trans; [apply IH1 | apply IH2].
  Qed.
End FoldsUpTo.

(* per-key independent writes: "for k, v := range m { out[k] = g(k, v) }" *)
Section MapWrites.
  Context {V : Type}.
  Definition upd (m : Z -> option V) (kv : Z * V) : Z -> option V :=
    fun k => if k =? fst kv then Some (snd kv) else m k.

  Fixpoint assoc (k : Z) (l : list (Z * V)) : option V :=
    match l with
    | [] => None
    | (k', v) :: r => if k =? k' then Some v else assoc k r
    end.

  Lemma assoc_in k v l : NoDup (map fst l) -> In (k, v) l -> assoc k l = Some v.
  Proof.
    induction l as [|[k' v'] r IH]; cbn [assoc map fst]; intros ND HI; [contradiction|].
    inversion ND as [|? ? Hn ND']; subst. destruct HI as [E|HI].
    - inversion E; subst. now rewrite Z.eqb_refl.
    - destruct (k =? k') eqn:E; [|now apply IH].
      apply Z.eqb_eq in E; subst. exfalso. apply Hn. change k' with (fst (k', v)). now apply in_map.
  Qed.
  Lemma assoc_some_in k v l : assoc k l = Some v -> In (k, v) l.
  Proof.
    induction l as [|[k' v'] r IH]; cbn [assoc]; [discriminate|].
    destruct (k =? k') eqn:E; intro H.
    - apply Z.eqb_eq in E. inversion H; subst. now left.
    - right; auto.
  Qed.

  Lemma fold_upd_assoc l : NoDup (map fst l) -> forall m k,
    fold_left upd l m k = match assoc k l with Some v => Some v | None => m k end.
  Proof.
    induction l as [|[k' v'] r IH]; intros ND m k; cbn [fold_left assoc]; [reflexivity|].
    inversion ND as [|? ? Hn ND']; subst. rewrite (IH ND').
    destruct (assoc k r) eqn:Ea.
    - destruct (k =? k') eqn:E; [|reflexivity].
      apply Z.eqb_eq in E; subst. exfalso. apply Hn.
      apply assoc_some_in in Ea. change k' with (fst (k', v)). now apply in_map.
    - unfold upd; cbn [fst snd]. destruct (k =? k'); reflexivity.
  Qed.

  Lemma map_writes_invariant l l' : NoDup (map fst l) -> Permutation l l' ->
    forall m k, fold_left upd l m k = fold_left upd l' m k.
  Proof.
    intros ND HP m k.
    assert (ND' : NoDup (map fst l')) by (eapply Permutation_NoDup; [apply Permutation_map; exact HP | exact ND]).
    rewrite !fold_upd_assoc by assumption.
    destruct (assoc k l) eqn:E1.
    - apply assoc_some_in in E1. erewrite assoc_in; eauto. eapply Permutation_in; eauto.
    - destruct (assoc k l') eqn:E2; [|reflexivity].
      apply assoc_some_in in E2. erewrite assoc_in in E1; [discriminate| exact ND |].
      eapply Permutation_in; [apply Permutation_sym; exact HP | exact E2].
  Qed.
End MapWrites.

(* a list whose elements are all equal is determined by its length *)
Lemma perm_all_equal {A} (a b : list A) :
  Permutation a b -> (forall x y, In x a -> In y a -> x = y) -> a = b.
Proof.
  induction 1 as [|x l l' HP IH|x y l|l l' l'' H1 IH1 H2 IH2]; intro HE.
  - reflexivity.
  - f_equal. apply IH. intros; apply HE; now right.
  - assert (x = y) by (apply HE; [right; now left | now left]). now subst.
  - pose proof (IH1 HE) as E. subst l'. apply IH2. exact HE.
Qed.
