(* C08 model: internal/bundler/bundler.go findReachableFiles (the DFS that
   fixes the "stable source index" of every file) and the index assignment of
   internal/graph/graph.go CloneLinkerGraph (stableSourceIndices[src] = position
   in that order).  Executable definitions only.  Source indices are Z;
   an invalid ast.Index32 is -1. *)
From V Require Import Common.Base.

Record file := mkFile {
  f_css : Z;                 (* JSRepr.CSSSourceIndex, -1 = invalid / not a JS file *)
  f_recs : list (Z * Z)      (* per import record: (SourceIndex, CopySourceIndex) *)
}.

(* the visits a file makes, in code order *)
Definition rec_target (rc : Z * Z) : list Z :=
  if fst rc >=? 0 then [fst rc] else if snd rc >=? 0 then [snd rc] else [].
Definition succs (f : file) : list Z :=
  (if f_css f >=? 0 then [f_css f] else []) ++ flat_map rec_target (f_recs f).

Fixpoint memz (n : Z) (l : list Z) : bool :=
  match l with [] => false | x :: r => (n =? x) || memz n r end.

(* state: visited set, order (reversed); None = fuel exhausted *)
Definition dstate := option (list Z * list Z).

Fixpoint visit (fuel : nat) (g : Z -> list Z) (n : Z) (st : dstate) : dstate :=
  match st with
  | None => None
  | Some (vis, ord) =>
      if memz n vis then st else
      match fuel with
      | O => None
      | S f =>
          match fold_left (fun s c => visit f g c s) (g n) (Some (n :: vis, ord)) with
          | Some (vis', ord') => Some (vis', n :: ord')   (* each file after its dependencies *)
          | None => None
          end
      end
  end.

Definition reach_order (fuel : nat) (g : Z -> list Z) (roots : list Z) : option (list Z) :=
  match fold_left (fun s c => visit fuel g c s) roots (Some ([], [])) with
  | Some (_, ord) => Some (rev ord)
  | None => None
  end.

Definition graph_of (files : list file) (n : Z) : list Z :=
  if n <? 0 then [] else succs (nth (Z.to_nat n) files (mkFile (-1) [])).

Definition runtime_index : Z := 0.

(* findReachableFiles(files, entryPoints): runtime first, then the entry points *)
Definition findReachableFiles (files : list file) (entries : list Z) : option (list Z) :=
  reach_order (S (length files)) (graph_of files) (runtime_index :: entries).

(* stableSourceIndices[sourceIndex] = stableIndex *)
Fixpoint index_of (n : Z) (l : list Z) : option Z :=
  match l with
  | [] => None
  | x :: r => if n =? x then Some 0 else option_map Z.succ (index_of n r)
  end.
