From V Require Import Common.Base C08.SortPerm C08.Comparators.
Example ex_isort : isort stableRef_less [mkSR 2 (mkRef 0 1); mkSR 1 (mkRef 5 0)] = [mkSR 1 (mkRef 5 0); mkSR 2 (mkRef 0 1)].
Proof. vm_compute. reflexivity. Qed.
