(* C08 non-vacuity: concrete values meeting the hypotheses of the theorems. *)
From V Require Import Common.Base C08.SortPerm C08.Comparators C08.CmpTheory C08.ComparatorProofs
  C08.Dfs C08.Serializer gen.MapSitesGen C08.MapSites.
From Coq Require Import Permutation Sorted.

(* sorting refs that arrived in two different orders gives one result *)
Definition refsA := [mkSR 2 (mkRef 7 1); mkSR 0 (mkRef 3 5); mkSR 2 (mkRef 7 0); mkSR 1 (mkRef 9 2)].
Definition refsB := [mkSR 1 (mkRef 9 2); mkSR 2 (mkRef 7 0); mkSR 0 (mkRef 3 5); mkSR 2 (mkRef 7 1)].
Example ex_sort_same : isort stableRef_less refsA = isort stableRef_less refsB.
Proof. vm_compute. reflexivity. Qed.
Example ex_sort_value : isort stableRef_less refsA
  = [mkSR 0 (mkRef 3 5); mkSR 1 (mkRef 9 2); mkSR 2 (mkRef 7 0); mkSR 2 (mkRef 7 1)].
Proof. vm_compute. reflexivity. Qed.
(* the domain hypothesis of stableRefArray_total_on_domain is satisfiable *)
Definition ex_stable_of (src : Z) : Z := if src =? 3 then 0 else if src =? 9 then 1 else if src =? 7 then 2 else src + 100.
Example ex_domain : forall a, In a refsA -> sr_stable a = ex_stable_of (r_src (sr_ref a)).
Proof. intros a [H|[H|[H|[H|[]]]]]; subst; reflexivity. Qed.
Example ex_perm : Permutation refsA refsB.
Proof. exact (Permutation_rev refsA). Qed.

(* a tie without the domain condition: the unstable source index differs, the key does not *)
Example ex_tie_outside_domain :
  stableRef_less (mkSR 1 (mkRef 4 0)) (mkSR 1 (mkRef 5 0)) = false /\
  stableRef_less (mkSR 1 (mkRef 5 0)) (mkSR 1 (mkRef 4 0)) = false.
Proof. split; reflexivity. Qed.

(* symbol counts: descending count, then stable index, then inner index *)
Example ex_symcount : isort symCount_less [mkSC 1 (mkRef 5 0) 3; mkSC 0 (mkRef 2 4) 3; mkSC 2 (mkRef 6 1) 9]
  = [mkSC 2 (mkRef 6 1) 9; mkSC 0 (mkRef 2 4) 3; mkSC 1 (mkRef 5 0) 3].
Proof. vm_compute. reflexivity. Qed.

(* messages: located ones are ordered by file, line, column, kind, text; two
   location-less ones keep their arrival order in either arrival order *)
Definition mA := mkMsg None 0 [97].
Definition mB := mkMsg None 0 [98].
Definition mC := mkMsg (Some (mkLoc [47;120] [120] 3 0)) 1 [99].
Example ex_msgs_1 : isort msg_less [mC; mA; mB] = [mA; mB; mC]. Proof. vm_compute. reflexivity. Qed.
Example ex_msgs_2 : isort msg_less [mB; mC; mA] = [mB; mA; mC]. Proof. vm_compute. reflexivity. Qed.

(* expansion keys, as in Node's PATTERN_KEY_COMPARE *)
Example ex_ek : isort expansionKeys_less [[46;47;42]; [46;47;97;47]; [46;47;97;42;98]; [46;47;97;42]]
  = [[46;47;97;47]; [46;47;97;42;98]; [46;47;97;42]; [46;47;42]].
Proof. vm_compute. reflexivity. Qed.

(* DFS: files 0 (runtime), 1 -> 2,3 ; 3 -> 2 ; entry 1; and the same graph
   after renaming the arrival indices 1<->3 *)
Definition filesA := [mkFile (-1) []; mkFile (-1) [(2, -1); (3, -1)]; mkFile (-1) []; mkFile (-1) [(2, -1)]].
Definition rho13 (n : Z) : Z := if n =? 1 then 3 else if n =? 3 then 1 else n.
Definition filesB := [mkFile (-1) []; mkFile (-1) [(2, -1)]; mkFile (-1) []; mkFile (-1) [(2, -1); (1, -1)]].
Example ex_dfs_A : findReachableFiles filesA [1] = Some [0; 2; 3; 1]. Proof. vm_compute. reflexivity. Qed.
Example ex_dfs_B : findReachableFiles filesB [3] = Some (map rho13 [0; 2; 3; 1]). Proof. vm_compute. reflexivity. Qed.
Example ex_rho_inj : forall x y, rho13 x = rho13 y -> x = y.
Proof. intros x y. unfold rho13. repeat match goal with |- context [?a =? ?b] => destruct (Z.eqb_spec a b) end; lia. Qed.
Example ex_graph_renamed : forall n, In n [0; 1; 2; 3] -> graph_of filesB (rho13 n) = map rho13 (graph_of filesA n).
Proof. intros n [H|[H|[H|[H|[]]]]]; subst; reflexivity. Qed.

(* serializer: a complete interleaved run of 3 workers *)
Definition ex_trace := [EvEnter 0; EvWork 0; EvLeave 0; EvEnter 1; EvWork 1; EvLeave 1; EvEnter 2; EvWork 2; EvLeave 2].
Example ex_ser : match srun 3 sinit ex_trace with Some s => all_left 3 s && list_eqb Nat.eqb (slog s) [0; 1; 2]%nat | None => false end = true.
Proof. vm_compute. reflexivity. Qed.
(* worker 1 cannot enter before worker 0 left *)
Example ex_ser_blocked : srun 3 sinit [EvEnter 0; EvEnter 1] = None. Proof. vm_compute. reflexivity. Qed.

(* the inventory is not empty and contains sites of every class *)
Example ex_sites_count : length map_sites = 63%nat. Proof. vm_compute. reflexivity. Qed.
Example ex_sites_sorted : existsb (fun s => match class_of s with Some (SortedAfter _) => true | _ => false end) map_sites = true.
Proof. vm_compute. reflexivity. Qed.
Example ex_no_stale : stale_entries = []. Proof. vm_compute. reflexivity. Qed.
