(* C08 non-vacuity: concrete values meeting the hypotheses of the theorems. *)
From V Require Import Common.Base C08.SortPerm C08.Comparators C08.CmpTheory C08.ComparatorProofs
  C08.Dfs C08.Serializer gen.MapSitesGen C08.MapSites C08.Diagnostics C08.Scanner C08.ScannerProofs
  C08.Consumers gen.SortKeysGen C08.CollectSort C08.ScannerReach C08.SiteModels C08.ComposeHash C08.ComposeMetafile.
From V Require C18.Pieces C18.Hash C18.Ingredients.
From Coq Require Import Permutation Sorted.

(* sorting refs that arrived in two different orders gives one result *)
Definition refsA := [mkSR 2 (mkRef 7 1); mkSR 0 (mkRef 3 5); mkSR 2 (mkRef 7 0); mkSR 1 (mkRef 9 2)].
Definition refsB := [mkSR 1 (mkRef 9 2); mkSR 2 (mkRef 7 0); mkSR 0 (mkRef 3 5); mkSR 2 (mkRef 7 1)].
Example ex_sort_same : isort stableRef_less refsA = isort stableRef_less refsB.
Proof. vm_compute. reflexivity. Qed.
Example ex_sort_value : isort stableRef_less refsA
  = [mkSR 0 (mkRef 3 5); mkSR 1 (mkRef 9 2); mkSR 2 (mkRef 7 0); mkSR 2 (mkRef 7 1)].
Proof. vm_compute. reflexivity. Qed.
(* the domain hypothesis of stableRefArray_total_on_domain is satisfiable *)
Definition ex_stable_of (src : Z) : Z := if src =? 3 then 0 else if src =? 9 then 1 else if src =? 7 then 2 else src + 100.
Example ex_domain : forall a, In a refsA -> sr_stable a = ex_stable_of (r_src (sr_ref a)).
Proof. intros a [H|[H|[H|[H|[]]]]]; subst; reflexivity. Qed.
Example ex_perm : Permutation refsA refsB.
Proof. exact (Permutation_rev refsA). Qed.

(* a tie without the domain condition: the unstable source index differs, the key does not *)
Example ex_tie_outside_domain :
  stableRef_less (mkSR 1 (mkRef 4 0)) (mkSR 1 (mkRef 5 0)) = false /\
  stableRef_less (mkSR 1 (mkRef 5 0)) (mkSR 1 (mkRef 4 0)) = false.
Proof. split; reflexivity. Qed.

(* symbol counts: descending count, then stable index, then inner index *)
Example ex_symcount : isort symCount_less [mkSC 1 (mkRef 5 0) 3; mkSC 0 (mkRef 2 4) 3; mkSC 2 (mkRef 6 1) 9]
  = [mkSC 2 (mkRef 6 1) 9; mkSC 0 (mkRef 2 4) 3; mkSC 1 (mkRef 5 0) 3].
Proof. vm_compute. reflexivity. Qed.

(* messages: located ones are ordered by file, line, column, kind, text; two
   location-less ones keep their arrival order in either arrival order *)
Definition mA := mkMsg None 0 [97].
Definition mB := mkMsg None 0 [98].
Definition mC := mkMsg (Some (mkLoc [47;120] [120] 3 0)) 1 [99].
Example ex_msgs_1 : isort msg_less [mC; mA; mB] = [mA; mB; mC]. Proof. vm_compute. reflexivity. Qed.
Example ex_msgs_2 : isort msg_less [mB; mC; mA] = [mB; mA; mC]. Proof. vm_compute. reflexivity. Qed.

(* expansion keys, as in Node's PATTERN_KEY_COMPARE *)
Example ex_ek : isort expansionKeys_less [[46;47;42]; [46;47;97;47]; [46;47;97;42;98]; [46;47;97;42]]
  = [[46;47;97;47]; [46;47;97;42;98]; [46;47;97;42]; [46;47;42]].
Proof. vm_compute. reflexivity. Qed.

(* DFS: files 0 (runtime), 1 -> 2,3 ; 3 -> 2 ; entry 1; and the same graph
   after renaming the arrival indices 1<->3 *)
Definition filesA := [mkFile (-1) []; mkFile (-1) [(2, -1); (3, -1)]; mkFile (-1) []; mkFile (-1) [(2, -1)]].
Definition rho13 (n : Z) : Z := if n =? 1 then 3 else if n =? 3 then 1 else n.
Definition filesB := [mkFile (-1) []; mkFile (-1) [(2, -1)]; mkFile (-1) []; mkFile (-1) [(2, -1); (1, -1)]].
Example ex_dfs_A : findReachableFiles filesA [1] = Some [0; 2; 3; 1]. Proof. vm_compute. reflexivity. Qed.
Example ex_dfs_B : findReachableFiles filesB [3] = Some (map rho13 [0; 2; 3; 1]). Proof. vm_compute. reflexivity. Qed.
Example ex_rho_inj : forall x y, rho13 x = rho13 y -> x = y.
Proof. intros x y. unfold rho13. repeat match goal with |- context [?a =? ?b] => destruct (Z.eqb_spec a b) end; lia. Qed.
Example ex_graph_renamed : forall n, In n [0; 1; 2; 3] -> graph_of filesB (rho13 n) = map rho13 (graph_of filesA n).
Proof. intros n [H|[H|[H|[H|[]]]]]; subst; reflexivity. Qed.

(* serializer: a complete interleaved run of 3 workers *)
Definition ex_trace := [EvEnter 0; EvWork 0; EvLeave 0; EvEnter 1; EvWork 1; EvLeave 1; EvEnter 2; EvWork 2; EvLeave 2].
Example ex_ser : match srun 3 sinit ex_trace with Some s => all_left 3 s && list_eqb Nat.eqb (slog s) [0; 1; 2]%nat | None => false end = true.
Proof. vm_compute. reflexivity. Qed.
(* worker 1 cannot enter before worker 0 left *)
Example ex_ser_blocked : srun 3 sinit [EvEnter 0; EvEnter 1] = None. Proof. vm_compute. reflexivity. Qed.

(* the inventory is not empty and contains sites of every class *)
Example ex_sites_count : length map_sites = 63%nat. Proof. vm_compute. reflexivity. Qed.
Example ex_sites_sorted : existsb (fun s => match class_of s with Some (SortedAfter _) => true | _ => false end) map_sites = true.
Proof. vm_compute. reflexivity. Qed.
Example ex_no_stale : stale_entries = []. Proof. vm_compute. reflexivity. Qed.

(* ---- deepening round ---- *)
(* diagnostics: a location-less message and two located ones, arriving in two orders *)
Definition dA := mkMsg None 0 [110].
Definition dB := mkMsg (Some (mkLoc [47;97] [97] 2 0)) 1 [119].
Definition dC := mkMsg (Some (mkLoc [47;97] [97] 1 5)) 0 [101].
Example ex_diag_perm : Permutation [dA; dB; dC] [dC; dA; dB].
Proof. apply Permutation_sym. apply (Permutation_cons_append [dA; dB] dC). Qed.
Example ex_diag_locless : filter locless [dA; dB; dC] = filter locless [dC; dA; dB]. Proof. reflexivity. Qed.
Example ex_diag_keys : forall a b, In a [dA; dB; dC] -> In b [dA; dB; dC] -> locless a = false -> msg_key a = msg_key b -> a = b.
Proof. intros a b [<-|[<-|[<-|[]]]] [<-|[<-|[<-|[]]]] H1 H2; try reflexivity; try discriminate. Qed.
Example ex_diag_result : isort msg_less [dA; dB; dC] = [dA; dC; dB] /\ isort msg_less [dC; dA; dB] = [dA; dC; dB].
Proof. split; vm_compute; reflexivity. Qed.

(* scanner: entry points 10 -> 1 and 20 -> 2 (runtime 0); in schedule 1 file 1
   gets index 3 and file 2 index 4, in schedule 2 the other way round; the
   stable order, read back as files, is the same *)
Example ex_scan_runs :
  match run_scan ex_imports (fst (scan_init ex_roots)) ex_sched1, run_scan ex_imports (fst (scan_init ex_roots)) ex_sched2 with
  | Some s1, Some s2 =>
      scan_complete s1 && scan_complete s2
      && (index_of_file s1 1 =? 3) && (index_of_file s1 2 =? 4) && (index_of_file s2 1 =? 4) && (index_of_file s2 2 =? 3)
      && option_eqb zlist_eqb (linker_order s1 5 ex_roots) (Some [0; 3; 1; 4; 2])
      && option_eqb zlist_eqb (linker_order s2 5 ex_roots) (Some [0; 4; 1; 3; 2])
      && option_eqb zlist_eqb (reach_order 5 ex_imports ex_roots) (Some [0; 1; 10; 2; 20])
  | _, _ => false
  end = true.
Proof. vm_compute. reflexivity. Qed.
(* a result cannot be received twice, nor before the file was discovered *)
Example ex_scan_blocked : run_scan ex_imports (fst (scan_init ex_roots)) [1] = None /\
                          run_scan ex_imports (fst (scan_init ex_roots)) [10; 10] = None.
Proof. split; vm_compute; reflexivity. Qed.

(* collect-then-sort with the model sort as sorter *)
Example ex_collect_is_sort : IsSort str_ltb (isort str_ltb).
Proof. apply isort_is_sort. exact (via_key_strict_weak (fun x => x) _ good_str _ str_ltb_spec). Qed.
Example ex_collect : collect_then_sort (isort str_ltb) [] (fun k : list Z => k) [[98]; [97; 97]; [97]]
                   = collect_then_sort (isort str_ltb) [] (fun k : list Z => k) [[97]; [98]; [97; 97]].
Proof. vm_compute. reflexivity. Qed.
Example ex_regular_count : length regular_collect_sort_sites = 21%nat. Proof. vm_compute. reflexivity. Qed.
Example ex_key_inits_count : length stable_key_inits = 6%nat /\ length sorted_append_exprs = 26%nat. Proof. split; vm_compute; reflexivity. Qed.

(* ---- round 2 ---- *)
(* (a) reachability, a finite universe, a run that gets stuck only when told to receive an undiscovered file *)
Definition ex_universe : list Z := [0; 10; 20; 1; 2].
Example ex_universe_roots : forall r, In r ex_roots -> In r ex_universe.
Proof. intros r [<-|[<-|[<-|[]]]]; cbn; auto. Qed.
Example ex_universe_closed : forall f c, In f ex_universe -> In c (ex_imports f) -> In c ex_universe.
Proof.
  intros f c Hf Hc. unfold ex_universe in *. cbn [In] in Hf.
  destruct Hf as [<-|[<-|[<-|[<-|[<-|[]]]]]]; cbn in Hc; cbn [In]; lia.
Qed.
Example ex_reach : reach ex_imports ex_roots 2.
Proof. apply (reach_step _ _ 20 2); [apply reach_root; cbn; auto | cbn; auto]. Qed.
Example ex_counts : match run_scan ex_imports (fst (scan_init ex_roots)) [0; 20] with
                    | Some st => (length (sc_vis st) =? 4)%nat && (length (sc_pend st) =? 2)%nat | None => false end = true.
Proof. vm_compute. reflexivity. Qed.

(* (b) the shaped and irregular inventories are not empty *)
Example ex_shaped_count : length shaped_fold_sites = 14%nat /\ length irregular_models = 5%nat /\ length unshaped_fold_sites = 16%nat.
Proof. repeat split; vm_compute; reflexivity. Qed.

(* (c) two chunks that differ (the index carried by a chunk-reference piece) but agree on every hash ingredient *)
Definition hx_c1 : C18.Hash.chunk :=
  C18.Hash.mkChunk true [C18.Hash.mkPart [102;105;108;101] [47;97] [97] 0 2] [([97], 3); ([46;106;115], 0)]
    (Some [C18.Pieces.mkPiece [120] 0 2; C18.Pieces.mkPiece [121] 0 0]) [] [] [] [] [1%nat].
Definition hx_c2 : C18.Hash.chunk :=
  C18.Hash.mkChunk true [C18.Hash.mkPart [102;105;108;101] [47;97] [97] 0 2] [([97], 3); ([46;106;115], 0)]
    (Some [C18.Pieces.mkPiece [120] 7 2; C18.Pieces.mkPiece [121] 0 0]) [] [] [] [] [1%nat].
Definition hx_leaf : C18.Hash.chunk := C18.Hash.mkChunk false [] [([98], 3)] None [122] [] [] [] [].
Example ex_lists_agree : lists_agree [] (fun _ => []) [hx_c1; hx_leaf] [hx_c2; hx_leaf].
Proof. repeat constructor. Qed.
Example ex_chunks_differ : hx_c1 <> hx_c2. Proof. discriminate. Qed.
Example ex_names : names_of (fun b => b) [] (fun _ => []) [hx_c1; hx_leaf] <> None.
Proof. vm_compute. discriminate. Qed.

(* (d) the allocation of each example run can be read backwards, so per-index
   descriptions that are descriptions of the file exist *)
Example ex_inverse :
  match run_scan ex_imports (fst (scan_init ex_roots)) ex_sched1 with
  | Some st => forallb (fun f => file_of_index st (index_of_file st f) =? f) [0; 10; 20; 1; 2; 77; -5]
  | None => false end = true.
Proof. vm_compute. reflexivity. Qed.
Example ex_keys_sorted : map (fun k : list Z => length k) (isort str_ltb [[98]; [97; 97]; [97]])
                       = map (fun k : list Z => length k) (isort str_ltb [[97]; [98]; [97; 97]]).
Proof. vm_compute. reflexivity. Qed.

(* the location filter really rejects an absolute/log-style path expression *)
From Coq Require Import String.
From V Require Import gen.HashPathsGen C08.HashPaths.
Example ex_location_free : location_free "file.InputFile.Source.PrettyPaths.Rel"%string = true
  /\ location_free "file.InputFile.Source.PrettyPaths.Select(c.options.LogPathStyle)"%string = false
  /\ location_free "file.InputFile.Source.PrettyPaths.Abs"%string = false.
Proof. repeat split; vm_compute; reflexivity. Qed.
Example ex_hash_defs : List.length hash_operand_definitions = 4%nat. Proof. vm_compute. reflexivity. Qed.
