(* C08: three-way comparisons that are total orders, closed under lexicographic
   product, reversal, option and lists; the derived Less is a strict weak order
   that is total on keys.  Every comparator model is shown equal to such a
   derived Less on its key projection (ComparatorProofs.v). *)
From V Require Import Common.Base C08.SortPerm C08.Comparators.

Record GoodCmp {K : Type} (cmp : K -> K -> comparison) : Prop := {
  gc_eq : forall x y, cmp x y = Eq <-> x = y;
  gc_anti : forall x y, cmp y x = CompOpp (cmp x y);
  gc_trans : forall x y z, cmp x y = Lt -> cmp y z = Lt -> cmp x z = Lt
}.

Definition lt_of {K} (cmp : K -> K -> comparison) (x y : K) : bool := is_lt (cmp x y).

Section Derived.
  Context {K : Type} (cmp : K -> K -> comparison) (G : GoodCmp cmp).

  Lemma gc_refl x : cmp x x = Eq.
  Proof. now apply (gc_eq _ G). Qed.

  Lemma gc_gt_lt x y : cmp x y = Gt -> cmp y x = Lt.
  Proof. intro H. rewrite (gc_anti _ G x y), H. reflexivity. Qed.

  Lemma lt_of_strict_weak : StrictWeak (lt_of cmp).
  Proof.
    split; unfold lt_of.
    - intro x. now rewrite gc_refl.
    - intros x y z H1 H2. destruct (cmp x y) eqn:E1; try discriminate.
      destruct (cmp y z) eqn:E2; try discriminate.
      now rewrite (gc_trans _ G x y z E1 E2).
    - intros x y z H1 H2.
      destruct (cmp x y) eqn:E1; try discriminate.
      + apply (gc_eq _ G) in E1; subst. exact H2.
      + destruct (cmp y z) eqn:E2; try discriminate.
        * apply (gc_eq _ G) in E2; subst. now rewrite E1.
        * apply gc_gt_lt in E1. apply gc_gt_lt in E2.
          pose proof (gc_trans _ G z y x E2 E1) as E3.
          rewrite (gc_anti _ G z x), E3. reflexivity.
  Qed.

  Lemma lt_of_total x y : lt_of cmp x y = false -> lt_of cmp y x = false -> x = y.
  Proof.
    unfold lt_of. intros H1 H2. apply (gc_eq _ G).
    destruct (cmp x y) eqn:E; try discriminate; [reflexivity|].
    apply gc_gt_lt in E. rewrite E in H2. discriminate.
  Qed.

  Lemma lt_of_total_on l : TotalOn (lt_of cmp) l.
  Proof. intros x y _ _. apply lt_of_total. Qed.
End Derived.

(* ---- constructions ---- *)
Lemma good_Z : GoodCmp Z.compare.
Proof.
  split.
  - intros; apply Z.compare_eq_iff.
  - intros x y. apply Z.compare_antisym.
  - intros x y z. rewrite !Z.compare_lt_iff. lia.
Qed.

Definition rev_cmp {K} (c : K -> K -> comparison) (x y : K) : comparison := c y x.
Lemma good_rev {K} (c : K -> K -> comparison) : GoodCmp c -> GoodCmp (rev_cmp c).
Proof.
  intros G. split; unfold rev_cmp.
  - intros x y. rewrite (gc_eq _ G). split; congruence.
  - intros x y. apply (gc_anti _ G).
  - intros x y z H1 H2. exact (gc_trans _ G z y x H2 H1).
Qed.

Definition lex_cmp {K1 K2} (c1 : K1 -> K1 -> comparison) (c2 : K2 -> K2 -> comparison)
  (x y : K1 * K2) : comparison :=
  match c1 (fst x) (fst y) with Eq => c2 (snd x) (snd y) | o => o end.
Lemma good_lex {K1 K2} (c1 : K1 -> K1 -> comparison) (c2 : K2 -> K2 -> comparison) :
  GoodCmp c1 -> GoodCmp c2 -> GoodCmp (lex_cmp c1 c2).
Proof.
  intros G1 G2. split; unfold lex_cmp.
  - intros [a b] [a' b']; cbn [fst snd]. split.
    + destruct (c1 a a') eqn:E; try discriminate. intro H.
      apply (gc_eq _ G1) in E. apply (gc_eq _ G2) in H. congruence.
    + intro H; inversion H; subst. rewrite (gc_refl _ G1). now apply (gc_eq _ G2).
  - intros [a b] [a' b']; cbn [fst snd]. rewrite (gc_anti _ G1 a a').
    destruct (c1 a a'); cbn [CompOpp]; auto. apply (gc_anti _ G2).
  - intros [a b] [a' b'] [a'' b'']; cbn [fst snd]. intros H1 H2.
    destruct (c1 a a') eqn:E1; try discriminate.
    + apply (gc_eq _ G1) in E1; subst a'.
      destruct (c1 a a'') eqn:E2; try discriminate; auto.
      exact (gc_trans _ G2 _ _ _ H1 H2).
    + destruct (c1 a' a'') eqn:E2; try discriminate.
      * apply (gc_eq _ G1) in E2; subst a''. now rewrite E1.
      * now rewrite (gc_trans _ G1 _ _ _ E1 E2).
Qed.

Definition opt_cmp {K} (c : K -> K -> comparison) (x y : option K) : comparison :=
  match x, y with
  | None, None => Eq
  | None, Some _ => Lt
  | Some _, None => Gt
  | Some a, Some b => c a b
  end.
Lemma good_opt {K} (c : K -> K -> comparison) : GoodCmp c -> GoodCmp (opt_cmp c).
Proof.
  intros G. split.
  - intros [a|] [b|]; cbn [opt_cmp]; split; try discriminate; try reflexivity.
    + intro H. apply (gc_eq _ G) in H. congruence.
    + intro H; inversion H; subst. apply (gc_refl _ G).
  - intros [a|] [b|]; cbn [opt_cmp CompOpp]; auto. apply (gc_anti _ G).
  - intros [a|] [b|] [d|]; cbn [opt_cmp]; try discriminate; auto. apply (gc_trans _ G).
Qed.

Lemma str_cmp_eq a : forall b, str_cmp a b = Eq <-> a = b.
Proof.
  induction a as [|x a IH]; intros [|y b]; cbn [str_cmp]; split; try discriminate; try reflexivity.
  - destruct (x ?= y) eqn:E; try discriminate. apply Z.compare_eq_iff in E. intro H. apply IH in H. congruence.
  - intro H; inversion H; subst. rewrite Z.compare_refl. now apply IH.
Qed.
Lemma str_cmp_anti a : forall b, str_cmp b a = CompOpp (str_cmp a b).
Proof.
  induction a as [|x a IH]; intros [|y b]; cbn [str_cmp CompOpp]; auto.
  rewrite (Z.compare_antisym x y). destruct (x ?= y); cbn [CompOpp]; auto.
Qed.
Lemma str_cmp_trans a : forall b c, str_cmp a b = Lt -> str_cmp b c = Lt -> str_cmp a c = Lt.
Proof.
  induction a as [|x a IH]; intros [|y b] [|z c]; cbn [str_cmp]; try discriminate; auto.
  intros H1 H2.
  destruct (x ?= y) eqn:E1; try discriminate.
  - apply Z.compare_eq_iff in E1; subst y.
    destruct (x ?= z) eqn:E2; try discriminate; auto. eapply IH; eauto.
  - destruct (y ?= z) eqn:E2; try discriminate.
    + apply Z.compare_eq_iff in E2; subst z. now rewrite E1.
    + rewrite Z.compare_lt_iff in E1, E2. assert (E3 : (x ?= z) = Lt) by (apply Z.compare_lt_iff; lia).
      now rewrite E3.
Qed.
Lemma good_str : GoodCmp str_cmp.
Proof. split; [apply str_cmp_eq | intros; apply str_cmp_anti | apply str_cmp_trans]. Qed.

Lemma str_eqb_cmp a b : str_eqb a b = match str_cmp a b with Eq => true | _ => false end.
Proof.
  unfold str_eqb. destruct (str_cmp a b) eqn:E.
  - apply str_cmp_eq in E. now apply zlist_eqb_eq.
  - destruct (zlist_eqb a b) eqn:E2; auto. apply zlist_eqb_eq in E2. apply str_cmp_eq in E2. congruence.
  - destruct (zlist_eqb a b) eqn:E2; auto. apply zlist_eqb_eq in E2. apply str_cmp_eq in E2. congruence.
Qed.

(* Less that only looks at a key through a good comparison *)
Section ViaKey.
  Context {A K : Type} (key : A -> K) (cmp : K -> K -> comparison) (G : GoodCmp cmp).
  Variable less : A -> A -> bool.
  Hypothesis less_spec : forall a b, less a b = lt_of cmp (key a) (key b).

  Lemma via_key_strict_weak : StrictWeak less.
  Proof.
    pose proof (on_key_strict_weak key _ (lt_of_strict_weak cmp G)) as [I T N].
    split; intros *; rewrite ?less_spec; [apply I | apply T | apply N].
  Qed.
  Lemma via_key_tied_keys a b : less a b = false -> less b a = false -> key a = key b.
  Proof. rewrite !less_spec. apply (lt_of_total cmp G). Qed.
  Lemma via_key_total_on l :
    (forall x y, In x l -> In y l -> key x = key y -> x = y) -> TotalOn less l.
  Proof. intros Hinj x y Ix Iy H1 H2. apply Hinj; auto. now apply via_key_tied_keys. Qed.
End ViaKey.
