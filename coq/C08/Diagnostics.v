(* C08: what makes the final, sorted message list independent of the schedule.
   The log is sort.Stable(SortableMsgs) of the messages in arrival order; the
   model sort [isort msg_less] is that stable sort (model_sort_stable).  If
   (1) the same messages are produced (as a multiset), (2) the messages WITHOUT
   a location arrive in the same relative order (they are all tied, so only
   their arrival order orders them: this is what fixes 49aea50, 0b86dd3 and
   5174f6d establish by logging them from one thread / merging per-goroutine
   logs in index order), and (3) two messages WITH a location and the same
   (file, line, column, kind, text) are identical (same notes: this is what
   finding C08-G4 violates for importer-located errors only in the sense that
   the location itself, i.e. the message set (1), changes), then the final
   list is the same. *)
From V Require Import Common.Base C08.SortPerm C08.Comparators C08.CmpTheory C08.ComparatorProofs.
From Coq Require Import Permutation.

Definition locless (m : msg) : bool := match m_loc m with None => true | Some _ => false end.

Lemma perm_filter {A} (p : A -> bool) l l' : Permutation l l' -> Permutation (filter p l) (filter p l').
Proof.
  induction 1 as [|x l l' HP IH|x y l|l l' l'' H1 IH1 H2 IH2]; cbn [filter].
  - constructor.
  - destruct (p x); [now constructor | exact IH].
  - destruct (p x), (p y); try reflexivity. apply perm_swap.
  - eapply Permutation_trans; eauto.
Qed.

Lemma tied_locless k x : locless k = true -> tied msg_less k x = locless x.
Proof.
  unfold locless, tied, msg_less. destruct (m_loc k); [discriminate|]. intros _.
  destruct (m_loc x); reflexivity.
Qed.

Lemma tied_located_key k x : tied msg_less k x = true -> msg_key k = msg_key x.
Proof.
  unfold tied. intro H. apply andb_true_iff in H as [H1 H2]. apply negb_true_iff in H1, H2.
  exact (proj2 msg_order k x H1 H2).
Qed.

Lemma located_key_some m : locless m = false -> msg_key m <> None.
Proof. unfold locless, msg_key. destruct (m_loc m); [discriminate | discriminate]. Qed.

Lemma key_none_locless m : msg_key m = None -> locless m = true.
Proof. unfold locless, msg_key. destruct (m_loc m); [discriminate | reflexivity]. Qed.

Lemma msgs_schedule_independent_gen l l' :
  Permutation l l' ->
  filter locless l = filter locless l' ->
  (forall a b, In a l -> In b l -> locless a = false -> msg_key a = msg_key b -> a = b) ->
  isort msg_less l = isort msg_less l'.
Proof.
  intros HP HL HK. apply (stable_sort_invariant_gen msg_less (proj1 msg_order)); [exact HP|].
  intro k. destruct (locless k) eqn:Ek.
  - rewrite (filter_ext _ _ (fun x => tied_locless k x Ek) l), (filter_ext _ _ (fun x => tied_locless k x Ek) l'). exact HL.
  - apply perm_all_equal; [now apply perm_filter|].
    intros x y Ix Iy. apply filter_In in Ix as [Ix Tx]. apply filter_In in Iy as [Iy Ty].
    apply tied_located_key in Tx. apply tied_located_key in Ty.
    apply HK; auto; [|congruence].
    destruct (locless x) eqn:Ex; [|reflexivity]. exfalso.
    apply (located_key_some k Ek). rewrite Tx. unfold locless in Ex. unfold msg_key.
    destruct (m_loc x); [discriminate | reflexivity].
Qed.

(* hypothesis (2) cannot be dropped: two location-less messages in two arrival orders *)
Lemma msgs_schedule_dependent_witness :
  exists l l', Permutation l l' /\
    (forall a b, In a l -> In b l -> locless a = false -> msg_key a = msg_key b -> a = b) /\
    isort msg_less l <> isort msg_less l'.
Proof.
  exists [mkMsg None 0 [97]; mkMsg None 0 [98]], [mkMsg None 0 [98]; mkMsg None 0 [97]].
  split; [apply perm_swap|]. split.
  - intros a b [E|[E|[]]] _ H; subst; discriminate.
  - vm_compute. discriminate.
Qed.
