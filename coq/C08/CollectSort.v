(* C08: per-site statements for the map-range sites of the regular shape
       for k := range M { xs = append(xs, E(k)) } ; sort.X(xs)
   which the translator T4 recognises in the source (V.gen.MapSitesGen
   regular_collect_sort_sites).  Model of such a site: the slice after the
   loop is  pre ++ map E order  where [order] is the order in which Go happened
   to iterate the map (any permutation of its key set), and the site's result
   is sort.X of it.  Theorem per sorter: the result is a function of the key
   SET, not of the iteration order.  Also: the inventory of where sort keys
   come from (V.gen.SortKeysGen) contains no raw arrival-order source index. *)
From Coq Require Import String.
From V Require Import Common.Base C08.SortPerm C08.Comparators C08.CmpTheory C08.ComparatorProofs
  gen.MapSitesGen gen.SortKeysGen C08.MapSites.
From Coq Require Import Permutation.
Open Scope list_scope.

Definition collect_then_sort {K A} (sort : list A -> list A) (pre : list A) (E : K -> A) (order : list K) : list A :=
  sort (pre ++ map E order).

Lemma collect_sort_invariant_gen {K A} (ltb : A -> A -> bool) (SW : StrictWeak ltb)
  (sort : list A -> list A) (pre : list A) (E : K -> A) (order order' : list K) :
  IsSort ltb sort -> Permutation order order' -> TotalOn ltb (pre ++ map E order) ->
  collect_then_sort sort pre E order = collect_then_sort sort pre E order'.
Proof.
  intros HS HP HT. unfold collect_then_sort.
  apply (sort_fun_perm_invariant ltb SW sort sort HS HS); [|exact HT].
  apply Permutation_app_head. now apply Permutation_map.
Qed.

Definition int_ltb (a b : Z) : bool := Z.ltb a b.
Lemma int_ltb_spec a b : int_ltb a b = lt_of Z.compare a b.
Proof. exact (crossChunkImport_spec a b). Qed.
Lemma str_ltb_spec (a b : list Z) : str_ltb a b = lt_of str_cmp a b.
Proof. reflexivity. Qed.

(* the statement attached to each sorter *)
Definition stmt_strings : Prop :=
  forall (K : Type) sort pre (E : K -> list Z) order order',
    IsSort str_ltb sort -> Permutation order order' ->
    collect_then_sort sort pre E order = collect_then_sort sort pre E order'.
Definition stmt_ints : Prop :=
  forall (K : Type) sort pre (E : K -> Z) order order',
    IsSort int_ltb sort -> Permutation order order' ->
    collect_then_sort sort pre E order = collect_then_sort sort pre E order'.
(* struct sorters: under the domain invariant of the comparator *)
Definition stmt_stableRef : Prop :=
  forall (K : Type) sort pre (E : K -> stableRef) order order' (stable_of : Z -> Z),
    IsSort stableRef_less sort -> Permutation order order' ->
    (forall x y, stable_of x = stable_of y -> x = y) ->
    (forall a, In a (pre ++ map E order) -> sr_stable a = stable_of (r_src (sr_ref a))) ->
    collect_then_sort sort pre E order = collect_then_sort sort pre E order'.
Definition stmt_symCount : Prop :=
  forall (K : Type) sort pre (E : K -> symCount) order order' (stable_of : Z -> Z),
    IsSort symCount_less sort -> Permutation order order' ->
    (forall x y, stable_of x = stable_of y -> x = y) ->
    (forall a, In a (pre ++ map E order) -> sc_stable a = stable_of (r_src (sc_ref a))) ->
    (forall a b, In a (pre ++ map E order) -> In b (pre ++ map E order) -> sc_ref a = sc_ref b -> sc_count a = sc_count b) ->
    collect_then_sort sort pre E order = collect_then_sort sort pre E order'.

Lemma stmt_strings_holds : stmt_strings.
Proof.
  intros K sort pre E o o' HS HP.
  apply (collect_sort_invariant_gen str_ltb (via_key_strict_weak (fun x => x) _ good_str _ str_ltb_spec)); auto.
  apply (via_key_total_on (fun x => x) _ good_str _ str_ltb_spec). auto.
Qed.
Lemma stmt_ints_holds : stmt_ints.
Proof.
  intros K sort pre E o o' HS HP.
  apply (collect_sort_invariant_gen int_ltb (via_key_strict_weak (fun x => x) _ good_Z _ int_ltb_spec)); auto.
  apply (via_key_total_on (fun x => x) _ good_Z _ int_ltb_spec). auto.
Qed.
Lemma stmt_stableRef_holds : stmt_stableRef.
Proof.
  intros K sort pre E o o' st HS HP Hinj Hdom.
  apply (collect_sort_invariant_gen stableRef_less (proj1 stableRef_order)); auto.
  now apply (stableRef_total_on_domain st).
Qed.
Lemma stmt_symCount_holds : stmt_symCount.
Proof.
  intros K sort pre E o o' st HS HP Hinj Hdom Hcnt.
  apply (collect_sort_invariant_gen symCount_less (proj1 symCount_order)); auto.
  apply (via_key_total_on _ _ good_symCount _ symCount_spec).
  intros [sa [ra ia] ca] [sb [rb ib] cb] Ia Ib Hk. unfold symCount_key in Hk; cbn in Hk.
  inversion Hk; subst. pose proof (Hdom _ Ia) as Ha. pose proof (Hdom _ Ib) as Hb. cbn in Ha, Hb.
  assert (ra = rb) by (apply Hinj; congruence). now subst.
Qed.

Open Scope string_scope.
Definition sorter_statement (k : string) : Prop :=
  if String.eqb k "sort.Strings" then stmt_strings
  else if String.eqb k "sort.Ints" then stmt_ints
  else if String.eqb k "sort.Sort:stableRefArray" then stmt_stableRef
  else if String.eqb k "sort.Sort:StableSymbolCountArray" then stmt_symCount
  else False.
Definition sorter_known (k : string) : bool :=
  String.eqb k "sort.Strings" || String.eqb k "sort.Ints" || String.eqb k "sort.Sort:stableRefArray"
  || String.eqb k "sort.Sort:StableSymbolCountArray".

Lemma sorter_known_statement k : sorter_known k = true -> sorter_statement k.
Proof.
  unfold sorter_known, sorter_statement. intro H.
  destruct (String.eqb k "sort.Strings"); [exact stmt_strings_holds|].
  destruct (String.eqb k "sort.Ints"); [exact stmt_ints_holds|].
  destruct (String.eqb k "sort.Sort:stableRefArray"); [exact stmt_stableRef_holds|].
  destruct (String.eqb k "sort.Sort:StableSymbolCountArray"); [exact stmt_symCount_holds | discriminate].
Qed.

(* every generated regular site: its sorter is one of the four, it is
   classified "sorted afterwards", and its result is a function of the key set *)
Definition regular_sites_ok : bool :=
  forallb (fun r => sorter_known (snd r) &&
                    match class_of (fst r) with Some (SortedAfter _) => true | _ => false end &&
                    existsb (site_eqb (fst r)) map_sites) regular_collect_sort_sites.

Lemma regular_sites_forall : forall s k, In (s, k) regular_collect_sort_sites ->
  sorter_statement k /\ (exists how, class_of s = Some (SortedAfter how)).
Proof.
  assert (H : regular_sites_ok = true) by (vm_compute; reflexivity).
  unfold regular_sites_ok in H. rewrite forallb_forall in H.
  intros s k Hin. specialize (H (s, k) Hin). cbn [fst snd] in H.
  apply andb_true_iff in H as [H _]. apply andb_true_iff in H as [H1 H2].
  split; [now apply sorter_known_statement|].
  destruct (class_of s) as [[how| | | | | | |]|]; try discriminate. now exists how.
Qed.

(* the SortedAfter sites that do NOT have the regular shape stay listed by name *)
Definition irregular_sorted_after : list site := [
  (L, "(*linkerContext).findImportedPartsInJSOrder", "chunk.filesWithPartsInChunk", 0%nat);
  (L, "(*linkerContext).generateChunkJS", "chunkRepr.exportsToOtherChunks", 0%nat);
  (L, "(*linkerContext).renameSymbolsInChunk", "chunk.chunkRepr.(*chunkReprJS).importsFromOtherChunks", 0%nat);
  (L, "(*linkerContext).sortedCrossChunkImports", "importsFromOtherChunks", 0%nat);
  (A, "validateFeatures", "constraints", 0%nat)
].
Definition sorted_after_regular_or_listed : bool :=
  forallb (fun s => match class_of s with
                    | Some (SortedAfter _) => existsb (fun r => site_eqb s (fst r)) regular_collect_sort_sites
                                              || existsb (site_eqb s) irregular_sorted_after
                    | _ => true
                    end) map_sites.
Lemma sorted_after_regular_or_listed_true : sorted_after_regular_or_listed = true.
Proof. vm_compute. reflexivity. Qed.

(* ---- where sort keys come from ---- *)
(* allow-list of raw source index uses inside comparators: none in the scanned packages *)
Definition allowed_less_raw_uses : list (string * string * string) := [].
Definition triple_eqb (a b : string * string * string) : bool :=
  let '(a1, a2, a3) := a in let '(b1, b2, b3) := b in String.eqb a1 b1 && String.eqb a2 b2 && String.eqb a3 b3.
Definition sort_keys_ok : bool :=
  forallb (fun k => snd k) stable_key_inits
  && forallb (fun u => existsb (triple_eqb u) allowed_less_raw_uses) less_raw_index_uses
  && forallb (fun a => negb (snd a)) sorted_append_exprs
  && negb (Nat.eqb (length stable_key_inits) 0).
Lemma sort_keys_ok_true : sort_keys_ok = true.
Proof. vm_compute. reflexivity. Qed.

Lemma stable_key_inits_forall : forall f g fld e b, In (f, g, fld, e, b) stable_key_inits -> b = true.
Proof.
  pose proof sort_keys_ok_true as H. unfold sort_keys_ok in H.
  apply andb_true_iff in H as [H _]. apply andb_true_iff in H as [H _]. apply andb_true_iff in H as [H _].
  rewrite forallb_forall in H. intros f g fld e b Hin. exact (H _ Hin).
Qed.
Lemma sorted_appends_forall : forall f g srt e b, In (f, g, srt, e, b) sorted_append_exprs -> b = false.
Proof.
  pose proof sort_keys_ok_true as H. unfold sort_keys_ok in H.
  apply andb_true_iff in H as [H _]. apply andb_true_iff in H as [_ H].
  rewrite forallb_forall in H. intros f g srt e b Hin. specialize (H _ Hin). cbn [snd] in H.
  now apply negb_true_iff in H.
Qed.
Lemma less_raw_uses_allowed : forall u, In u less_raw_index_uses -> existsb (triple_eqb u) allowed_less_raw_uses = true.
Proof.
  pose proof sort_keys_ok_true as H. unfold sort_keys_ok in H.
  apply andb_true_iff in H as [H _]. apply andb_true_iff in H as [H _]. apply andb_true_iff in H as [_ H].
  rewrite forallb_forall in H. exact H.
Qed.
