(* C11: byte strings (list Z) and the Go `strings`/`path` primitives used by
   internal/resolver/package_json.go.  Executable definitions only. *)
From V Require Import Common.Base.
From Coq Require String Ascii.
Export String.StringSyntax.

Definition str := list Z.

(* readable literals for examples / witnesses *)
Definition s_ (x : String.string) : str :=
  List.map (fun a => Z.of_N (Ascii.N_of_ascii a)) (String.list_ascii_of_string x).

Definition str_eqb : str -> str -> bool := zlist_eqb.

Definition ch_slash := 47.
Definition ch_bslash := 92.
Definition ch_star := 42.
Definition ch_dot := 46.
Definition ch_pct := 37.
Definition ch_at := 64.
Definition ch_hash := 35.
Definition ch_qmark := 63.

(* strings.HasPrefix(s, p) *)
Fixpoint prefixb (p s : str) : bool :=
  match p, s with
  | [], _ => true
  | a :: p', b :: s' => (a =? b) && prefixb p' s'
  | _ :: _, [] => false
  end.

(* strings.HasSuffix(s, p) *)
Definition suffixb (p s : str) : bool :=
  (length p <=? length s)%nat && str_eqb (skipn (length s - length p) s) p.

(* strings.IndexByte(s, c) : None = -1 *)
Fixpoint index_byte (c : Z) (s : str) : option nat :=
  match s with
  | [] => None
  | x :: r => if x =? c then Some O else option_map S (index_byte c r)
  end.

Definition has_byte (c : Z) (s : str) : bool := existsb (Z.eqb c) s.
Definition count_byte (c : Z) (s : str) : nat := length (filter (Z.eqb c) s).

(* strings.IndexAny(s, "/\\") *)
Definition is_sep (c : Z) : bool := (c =? ch_slash) || (c =? ch_bslash).
Fixpoint index_sep (s : str) : option nat :=
  match s with
  | [] => None
  | x :: r => if is_sep x then Some O else option_map S (index_sep r)
  end.

(* strings.ReplaceAll(s, "*", sub) *)
Definition replace_star (s sub : str) : str :=
  flat_map (fun c => if c =? ch_star then sub else [c]) s.

Definition mem_str (k : str) (l : list str) : bool := existsb (str_eqb k) l.

(* split on a separator predicate: always returns at least one segment *)
Fixpoint split_on (f : Z -> bool) (s : str) : list str :=
  match s with
  | [] => [[]]
  | c :: r =>
      if f c then [] :: split_on f r
      else match split_on f r with
           | seg :: segs => (c :: seg) :: segs
           | [] => [[c]]
           end
  end.

Fixpoint join_with (sep : Z) (l : list str) : str :=
  match l with
  | [] => []
  | [x] => x
  | x :: r => x ++ sep :: join_with sep r
  end.

(* ---- Go path.Clean / path.Join (package "path": "/" is the only separator) ----
   Extensional model (segment based) of the lazybuf implementation:
   1 collapse slashes, 2 drop ".", 3 cancel "x/..", 4 drop ".." at a root. *)
Definition dotdot : str := [ch_dot; ch_dot].
Fixpoint clean_segs (rooted : bool) (segs : list str) (stack : list str) : list str :=
  match segs with
  | [] => rev stack
  | g :: r =>
      if str_eqb g [] || str_eqb g [ch_dot] then clean_segs rooted r stack
      else if str_eqb g dotdot then
        match stack with
        | top :: st' => if str_eqb top dotdot then clean_segs rooted r (g :: stack)
                        else clean_segs rooted r st'
        | [] => if rooted then clean_segs rooted r stack else clean_segs rooted r [g]
        end
      else clean_segs rooted r (g :: stack)
  end.

Definition path_clean (p : str) : str :=
  match p with
  | [] => [ch_dot]
  | c :: _ =>
      let rooted := c =? ch_slash in
      let out := join_with ch_slash (clean_segs rooted (split_on (Z.eqb ch_slash) p) []) in
      if rooted then ch_slash :: out
      else match out with [] => [ch_dot] | _ => out end
  end.

(* path.Join(a, b) for two elements *)
Definition path_join2 (a b : str) : str :=
  match a, b with
  | [], [] => []
  | [], _ => path_clean b
  | _, [] => path_clean a
  | _, _ => path_clean (a ++ ch_slash :: b)
  end.

(* ---- ASCII helpers ---- *)
Definition to_lower (c : Z) : Z := if (65 <=? c) && (c <=? 90) then c + 32 else c.
Definition lower_str (s : str) : str := List.map to_lower s.

Definition hex_val (c : Z) : option Z :=
  if (48 <=? c) && (c <=? 57) then Some (c - 48)
  else if (97 <=? c) && (c <=? 102) then Some (c - 87)
  else if (65 <=? c) && (c <=? 70) then Some (c - 55)
  else None.

(* Go url.PathUnescape: None = error (malformed escape); '+' is not special *)
Fixpoint path_unescape (s : str) : option str :=
  match s with
  | [] => Some []
  | c :: r =>
      if c =? ch_pct then
        match r with
        | h1 :: r1 =>
            match r1 with
            | h2 :: r2 =>
                match hex_val h1, hex_val h2 with
                | Some a, Some b => option_map (cons (16 * a + b)) (path_unescape r2)
                | _, _ => None
                end
            | [] => None
            end
        | [] => None
        end
      else option_map (cons c) (path_unescape r)
  end.

(* strings.Contains(s, sub) *)
Fixpoint containsb (sub s : str) : bool :=
  prefixb sub s || match s with [] => false | _ :: r => containsb sub r end.

(* stable insertion sort of (key, value) lists by a "less" on keys: x goes
   before the first y that is not less than x *)
Fixpoint insert_by {A} (lt : str -> str -> bool) (x : str * A) (l : list (str * A)) : list (str * A) :=
  match l with
  | [] => [x]
  | y :: r => if lt (fst y) (fst x) then y :: insert_by lt x r else x :: l
  end.
Definition isort_by {A} (lt : str -> str -> bool) (l : list (str * A)) : list (str * A) :=
  fold_right (insert_by lt) [] l.

