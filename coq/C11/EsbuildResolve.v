(* C11 model: /repo/internal/resolver/package_json.go, function by function:
     expansionKeysArray.Less, parseImportsExportsMap, (pjEntry).valueForKey,
     (pjEntry).keysStartWithDot, esmHandlePostConditions,
     esmPackageImportsResolve, esmPackageExportsResolve,
     esmPackageImportsExportsResolve, findInvalidSegment,
     esmPackageTargetResolve, esmParsePackageName.
   The model mirrors what the code does, including its bugs.  Only the
   (resolved string, status) part of the results is modelled: pjDebug only
   selects tokens for diagnostics.  sort.Stable is modelled by a stable
   insertion sort (Less is a strict weak order, so every stable sort gives the
   same list).  Executable definitions only. *)
From V Require Import Common.Base C11.Str.
Local Open Scope string_scope.
Local Open Scope Z_scope.

(* JSON value of the "exports"/"imports" property as produced by esbuild's JSON
   parser: object properties in source order, duplicates kept.  JBad = boolean,
   number or anything else. *)
Inductive json :=
| JNull
| JStr (s : str)
| JArr (l : list json)
| JObj (kvs : list (str * json))
| JBad.

Inductive pj :=
| PNull
| PStr (s : str)
| PArr (l : list pj)
| PObj (mapData : list (str * pj)) (expansionKeys : list (str * pj))
| PInvalid.

(* ---- expansionKeysArray.Less ---- *)
Definition base_len (k : str) : nat :=
  match index_byte ch_star k with Some i => i | None => length k end.

Definition less (ka kb : str) : bool :=
  let ba := base_len ka in
  let bb := base_len kb in
  if (bb <? ba)%nat then true
  else if (ba <? bb)%nat then false
  else match index_byte ch_star ka with
       | None => false
       | Some _ =>
           match index_byte ch_star kb with
           | None => true
           | Some _ => (length kb <? length ka)%nat
           end
       end.

(* ---- parseImportsExportsMap (visit) ---- *)
Definition starts_with_dot (k : str) : bool := prefixb [ch_dot] k.
Definition ends_with_slash (k : str) : bool := suffixb [ch_slash] k.

(* isConditionalSugar of the first key must equal that of every other key *)
Definition consistent_keys (keys : list str) : bool :=
  match keys with
  | [] => true
  | k0 :: r => forallb (fun k => Bool.eqb (starts_with_dot k) (starts_with_dot k0)) r
  end.

Definition is_expansion_key (k : str) : bool := ends_with_slash k || has_byte ch_star k.

(* visit for a NESTED value: since the fix 4e82ea6 the "mixed keys" rule only
   applies to the top-level object of the field (expr.Data == json.Data) *)
Fixpoint parse (j : json) : pj :=
  match j with
  | JNull => PNull
  | JStr s => PStr s
  | JArr l => PArr (map parse l)
  | JObj kvs =>
      let md := map (fun kv => (fst kv, parse (snd kv))) kvs in
      PObj md (isort_by less (filter (fun e => is_expansion_key (fst e)) md))
  | JBad => PInvalid
  end.

(* visit for the value of the field itself *)
Definition parse_top (j : json) : pj :=
  match j with
  | JObj kvs => if consistent_keys (map fst kvs) then parse j else PInvalid
  | _ => parse j
  end.

(* parseImportsExportsMap returns nil for a null root: the package then has
   no map at all and the legacy algorithm runs *)
Definition parse_root (j : json) : option pj :=
  match parse_top j with PNull => None | r => Some r end.
(* the same for "imports": since the fix 9a0cc2e the mixed-keys rule is a rule
   of "exports" only *)
Definition parse_root_imports (j : json) : option pj :=
  match parse j with PNull => None | r => Some r end.

Definition map_data (e : pj) : list (str * pj) :=
  match e with PObj md _ => md | _ => [] end.
Definition expansion_keys (e : pj) : list (str * pj) :=
  match e with PObj _ ek => ek | _ => [] end.

(* (pjEntry).valueForKey : first entry with that key *)
Fixpoint value_for_key (md : list (str * pj)) (k : str) : option pj :=
  match md with
  | [] => None
  | (k', v) :: r => if str_eqb k' k then Some v else value_for_key r k
  end.

(* (pjEntry).keysStartWithDot *)
Definition keys_start_with_dot (e : pj) : bool :=
  match map_data e with (k, _) :: _ => starts_with_dot k | [] => false end.

Inductive status :=
| SUndefined | SUndefinedNoConditionsMatch | SNull
| SExact | SExactEndsWithStar | SInexact | SPackageResolve
| SInvalidModuleSpecifier | SInvalidPackageConfiguration | SInvalidPackageTarget
| SPackagePathNotExported | SPackageImportNotDefined
| SUnsupportedDirectoryImport.

Definition status_code (s : status) : Z :=
  match s with
  | SUndefined => 0 | SUndefinedNoConditionsMatch => 1 | SNull => 2
  | SExact => 3 | SExactEndsWithStar => 4 | SInexact => 5 | SPackageResolve => 6
  | SInvalidModuleSpecifier => 7 | SInvalidPackageConfiguration => 8
  | SInvalidPackageTarget => 9 | SPackagePathNotExported => 10
  | SPackageImportNotDefined => 11 | SUnsupportedDirectoryImport => 14
  end.

Definition is_undefined (s : status) : bool :=
  match s with SUndefined | SUndefinedNoConditionsMatch => true | _ => false end.

(* ---- findInvalidSegment / findInvalidSubpathSegment (after the fix e3ac7b5):
   "" (valid) is returned as false.  A segment is percent-decoded first
   (url.PathUnescape; the raw segment is used when that fails) and compared
   with ".", ".." and, ignoring case (strings.EqualFold, modelled for ASCII),
   "node_modules" ---- *)
Definition node_modules_s : str := s_ "node_modules".
Definition bad_segment (g : str) : bool :=
  let d := match path_unescape g with Some u => u | None => g end in
  str_eqb d [ch_dot] || str_eqb d dotdot || str_eqb (lower_str d) node_modules_s.

(* every segment is checked; a trailing empty piece is not a segment *)
Definition find_invalid_subpath_segment (p : str) : bool :=
  existsb bad_segment (split_on is_sep p).

(* the first segment (up to the first "/" or "\") is skipped; with no
   separator at all the answer is "valid" *)
Definition find_invalid_segment (p : str) : bool :=
  match split_on is_sep p with
  | _ :: rest => existsb bad_segment rest
  | [] => false
  end.

(* ---- esmPackageTargetResolve ---- *)
Definition dot_slash : str := [ch_dot; ch_slash].
Definition dotdot_slash : str := [ch_dot; ch_dot; ch_slash].

Definition target_string (pkgurl t subpath : str) (pattern internal : bool) : str * status :=
  if negb pattern && negb (str_eqb subpath []) && negb (suffixb [ch_slash] t) then
    (t, SInvalidModuleSpecifier)
  else if negb (prefixb dot_slash t) then
    if internal && negb (prefixb dotdot_slash t) && negb (prefixb [ch_slash] t) then
      if pattern then (replace_star t subpath, SPackageResolve)
      else (t ++ subpath, SPackageResolve)
    else (t, SInvalidPackageTarget)
  else if find_invalid_segment t then (t, SInvalidPackageTarget)
  else
    let resolvedTarget := path_join2 pkgurl t in
    if find_invalid_subpath_segment subpath then (subpath, SInvalidModuleSpecifier)
    else if pattern then
      (replace_star resolvedTarget subpath,
       if suffixb [ch_star] resolvedTarget
          && option_eqb Nat.eqb (index_byte ch_star resolvedTarget) (Some (length resolvedTarget - 1)%nat)
       then SExactEndsWithStar else SExact)
    else (path_join2 resolvedTarget subpath, SExact).

Definition default_s : str := s_ "default".

(* the two loops of esmPackageTargetResolve, abstracted over the recursive call *)
Definition obj_loop (f : pj -> str * status) (conds : list str) (final : str * status)
  : list (str * pj) -> str * status :=
  fix loop (l : list (str * pj)) : str * status :=
  match l with
  | [] => final
  | (k, v) :: r =>
      if str_eqb k default_s || mem_str k conds then
        let res := f v in
        if is_undefined (snd res) then loop r else res
      else loop r
  end.

Definition arr_loop (f : pj -> str * status) : list pj -> status -> str * status :=
  fix loop (l : list pj) (lastException : status) : str * status :=
  match l with
  | [] => ([], lastException)
  | v :: r =>
      let res := f v in
      match snd res with
      | SInvalidPackageTarget | SNull => loop r (snd res)
      | SUndefined | SUndefinedNoConditionsMatch => loop r lastException
      | _ => res
      end
  end.

Fixpoint target_resolve (pkgurl : str) (t : pj) (subpath : str) (pattern internal : bool)
         (conds : list str) {struct t} : str * status :=
  match t with
  | PStr s => target_string pkgurl s subpath pattern internal
  | PObj md _ =>
      (* ALGORITHM DEVIATION branch: friendlier status when the map has
         condition keys but none applied *)
      obj_loop (fun v => target_resolve pkgurl v subpath pattern internal conds) conds
               (if (match md with [] => false | _ => true end) && negb (keys_start_with_dot t)
                then ([], SUndefinedNoConditionsMatch) else ([], SUndefined))
               md
  | PArr l =>
      match l with
      | [] => ([], SNull)
      | _ => arr_loop (fun v => target_resolve pkgurl v subpath pattern internal conds) l SUndefined
      end
  | PNull => ([], SNull)
  | PInvalid => ([], SInvalidPackageTarget)
  end.

(* ---- esmPackageImportsExportsResolve ---- *)
Fixpoint expansion_loop (pkgurl matchKey : str) (eks : list (str * pj)) (isImports : bool)
         (conds : list str) : str * status :=
  match eks with
  | [] => ([], SNull)
  | (k, v) :: r =>
      match index_byte ch_star k with
      | Some star =>
          let patternBase := firstn star k in
          let patternTrailer := skipn (S star) k in
          if prefixb patternBase matchKey
             && (str_eqb patternTrailer []
                 || (suffixb patternTrailer matchKey && (length k <=? length matchKey)%nat))
          then
            let subpath := firstn (length matchKey - length patternTrailer - length patternBase)
                                  (skipn (length patternBase) matchKey) in
            target_resolve pkgurl v subpath true isImports conds
          else expansion_loop pkgurl matchKey r isImports conds
      | None =>
          if prefixb k matchKey then
            let res := target_resolve pkgurl v (skipn (length k) matchKey) false isImports conds in
            match snd res with
            | SExact | SExactEndsWithStar => (fst res, SInexact)
            | _ => res
            end
          else expansion_loop pkgurl matchKey r isImports conds
      end
  end.

Definition imports_exports_resolve (matchKey : str) (matchObj : pj) (pkgurl : str)
           (isImports : bool) (conds : list str) : str * status :=
  let exact :=
    if negb (ends_with_slash matchKey) && negb (has_byte ch_star matchKey)
    then value_for_key (map_data matchObj) matchKey else None in
  match exact with
  | Some target => target_resolve pkgurl target [] false isImports conds
  | None => expansion_loop pkgurl matchKey (expansion_keys matchObj) isImports conds
  end.

Definition is_null_or_undefined (s : status) : bool :=
  match s with SNull | SUndefined => true | _ => false end.

(* ---- esmPackageExportsResolve ---- *)
Definition exports_resolve (pkgurl subpath : str) (exports : pj) (conds : list str) : str * status :=
  match exports with
  | PInvalid => ([], SInvalidPackageConfiguration)
  | _ =>
      let not_exported := ([], SPackagePathNotExported) in
      if str_eqb subpath [ch_dot] then
        let mainExport :=
          match exports with
          | PStr _ | PArr _ => exports
          | PObj md _ =>
              if negb (keys_start_with_dot exports) then exports
              else match value_for_key md [ch_dot] with Some d => d | None => PNull end
          | _ => PNull
          end in
        match mainExport with
        | PNull => not_exported
        | _ =>
            let res := target_resolve pkgurl mainExport [] false false conds in
            if is_null_or_undefined (snd res) then not_exported else res
        end
      else
        match exports with
        | PObj _ _ =>
            if keys_start_with_dot exports then
              let res := imports_exports_resolve subpath exports pkgurl false conds in
              if is_null_or_undefined (snd res) then not_exported else res
            else not_exported
        | _ => not_exported
        end
  end.

(* ---- esmPackageImportsResolve ---- *)
Definition imports_resolve (specifier : str) (imports : pj) (conds : list str) : str * status :=
  match imports with
  | PObj _ _ =>
      let res := imports_exports_resolve specifier imports [ch_slash] true conds in
      if is_null_or_undefined (snd res) then (specifier, SPackageImportNotDefined) else res
  | _ => ([], SInvalidPackageConfiguration)
  end.

(* ---- esmHandlePostConditions ---- *)
Definition handle_post_conditions (res : str * status) : str * status :=
  match snd res with
  | SExact | SExactEndsWithStar | SInexact =>
      match path_unescape (fst res) with
      | None => (fst res, SInvalidModuleSpecifier)
      | Some p =>
          if containsb (s_ "%2f") (fst res) || containsb (s_ "%2F") (fst res)
             || containsb (s_ "%5c") (fst res) || containsb (s_ "%5C") (fst res)
          then (fst res, SInvalidModuleSpecifier)
          else if suffixb [ch_slash] p || suffixb [ch_bslash] p
          then (fst res, SUnsupportedDirectoryImport)
          else (p, snd res)
      end
  | _ => res
  end.

(* ---- esmParsePackageName : None = !ok ---- *)
Definition parse_package_name (spec : str) : option (str * str) :=
  match spec with
  | [] => None
  | c0 :: _ =>
      let name :=
        if c0 =? ch_at then
          match index_byte ch_slash spec with
          | None => None
          | Some slash =>
              let rest := skipn (S slash) spec in
              let slash2 := match index_byte ch_slash rest with Some i => i | None => length rest end in
              Some (firstn (slash + 1 + slash2) spec)
          end
        else
          Some (firstn (match index_byte ch_slash spec with Some i => i | None => length spec end) spec)
      in
      match name with
      | None => None
      | Some n =>
          if prefixb [ch_dot] n || has_byte ch_bslash n || has_byte ch_pct n then None
          else Some (n, ch_dot :: skipn (length n) spec)
      end
  end.
