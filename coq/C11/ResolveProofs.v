(* C11 lemmas: the model of esbuild's resolution (EsbuildResolve.v) against the
   transcription of Node's algorithm (NodeSpec.v). *)
From V Require Import Common.Base C11.Str C11.EsbuildResolve C11.NodeSpec.
Local Open Scope Z_scope.

(* ---- package names ---- *)
Lemma firstn_index_take_until c s :
  firstn (match index_byte c s with Some i => i | None => length s end) s = take_until c s.
Proof.
  induction s as [|x r IH]; cbn [index_byte take_until length]; [reflexivity|].
  destruct (x =? c); [reflexivity|].
  destruct (index_byte c r) as [i|]; cbn [option_map firstn]; f_equal; exact IH.
Qed.

Lemma drop_until_index c s :
  drop_until c s = match index_byte c s with Some i => Some (skipn (S i) s) | None => None end.
Proof.
  induction s as [|x r IH]; cbn [index_byte drop_until]; [reflexivity|].
  destruct (x =? c); [reflexivity|].
  rewrite IH. destruct (index_byte c r); reflexivity.
Qed.

Lemma firstn_app_index c s i rest :
  index_byte c s = Some i -> skipn (S i) s = rest ->
  forall k, firstn (i + 1 + k) s = take_until c s ++ c :: firstn k rest.
Proof.
  revert i rest; induction s as [|x r IH]; intros i rest Hi Hr k; [discriminate|].
  cbn [index_byte] in Hi. cbn [take_until].
  destruct (x =? c) eqn:E.
  - injection Hi as <-. cbn in Hr. subst rest. apply Z.eqb_eq in E. subst. reflexivity.
  - destruct (index_byte c r) as [j|] eqn:Ej; [|discriminate]. injection Hi as <-.
    cbn [skipn] in Hr. change (S j + 1 + k)%nat with (S (j + 1 + k)). cbn [firstn app].
    f_equal. apply IH; auto.
Qed.

Lemma parse_package_name_eq_all spec : parse_package_name spec = package_name_spec spec.
Proof.
  unfold parse_package_name, package_name_spec.
  destruct spec as [|c0 r]; [reflexivity|].
  set (s := c0 :: r).
  destruct (c0 =? ch_at) eqn:Eat; cbn [negb].
  - rewrite drop_until_index.
    destruct (index_byte ch_slash s) as [i|] eqn:Ei; [|reflexivity].
    rewrite (firstn_app_index ch_slash s i _ Ei eq_refl).
    rewrite firstn_index_take_until. reflexivity.
  - rewrite firstn_index_take_until. reflexivity.
Qed.

(* ================================================================== *)
(* ---- induction principle for the nested inductive [json] ---- *)
From V Require Import C11.SortLemmas C11.Scope.
Local Open Scope string_scope.
Local Open Scope Z_scope.

Section JsonInd.
  Variable P : json -> Prop.
  Hypothesis HNull : P JNull.
  Hypothesis HStr : forall s, P (JStr s).
  Hypothesis HBad : P JBad.
  Hypothesis HArr : forall l, Forall P l -> P (JArr l).
  Hypothesis HObj : forall kvs, Forall (fun kv => P (snd kv)) kvs -> P (JObj kvs).
  Fixpoint json_ind' (j : json) : P j :=
    match j with
    | JNull => HNull
    | JStr s => HStr s
    | JBad => HBad
    | JArr l =>
        HArr l ((fix go (l : list json) : Forall P l :=
                   match l with
                   | [] => Forall_nil _
                   | x :: r => Forall_cons _ (json_ind' x) (go r)
                   end) l)
    | JObj kvs =>
        HObj kvs ((fix go (l : list (str * json)) : Forall (fun kv => P (snd kv)) l :=
                     match l with
                     | [] => Forall_nil _
                     | kv :: r =>
                         Forall_cons kv
                           (match kv as kv0 return P (snd kv0) with (k, v) => json_ind' v end)
                           (go r)
                     end) kvs)
    end.
End JsonInd.

(* ---- projection of the model's (resolved, status) onto the result type of
   PACKAGE_TARGET_RESOLVE ---- *)
Definition proj (m : str * status) : tres :=
  match snd m with
  | SExact | SExactEndsWithStar | SInexact => TUrl (fst m)
  | SPackageResolve => TPkg (fst m)
  | SNull => TNull
  | SUndefined | SUndefinedNoConditionsMatch => TUndef
  | SInvalidPackageTarget => TThrow EInvalidTarget
  | SInvalidModuleSpecifier => TThrow EInvalidSpecifier
  | SInvalidPackageConfiguration => TThrow EInvalidConfig
  | SPackagePathNotExported => TThrow ENotExported
  | SPackageImportNotDefined => TThrow EImportNotDefined
  | SUnsupportedDirectoryImport => TThrow EInvalidSpecifier
  end.

Definition sub_of (pm : option str) : str := match pm with Some p => p | None => [] end.
Definition pat_of (pm : option str) : bool := match pm with Some _ => true | None => false end.
Definition pm_ok_opt (pm : option str) : bool := match pm with Some p => pm_ok p | None => true end.

Lemma str_eqb_eq a b : str_eqb a b = true <-> a = b.
Proof. apply zlist_eqb_eq. Qed.

Lemma s_dot_slash : s_ "./" = dot_slash. Proof. reflexivity. Qed.
Lemma s_dotdot_slash : s_ "../" = dotdot_slash. Proof. reflexivity. Qed.
Lemma s_slash : s_ "/" = [ch_slash]. Proof. reflexivity. Qed.

(* ---- unfolding lemmas for the scope predicates ---- *)
Lemma json_ok_str imp s : json_ok imp (JStr s) = target_ok imp s. Proof. reflexivity. Qed.
Lemma json_ok_arr imp l : json_ok imp (JArr l) = forallb (json_ok imp) l. Proof. reflexivity. Qed.
Lemma json_ok_obj imp kvs :
  json_ok imp (JObj kvs) = obj_ok kvs && forallb (fun kv => json_ok imp (snd kv)) kvs.
Proof. reflexivity. Qed.
Lemma obj_ok_old kvs :
  obj_ok kvs = negb (existsb (fun kv => is_array_index (fst kv)) kvs)
               && nodupb (map fst kvs).
Proof.
  unfold obj_ok, obj_no_shape, shape_index_key, shape_dup_key.
  rewrite !negb_involutive, andb_true_r. reflexivity.
Qed.
Lemma pm_ok_old p :
  pm_ok p = Bool.eqb (find_invalid_subpath_segment p) (node_invalid_segments p)
            && (find_invalid_subpath_segment p || url_plain p).
Proof. unfold pm_ok, fragment_match, seg_differ_match. rewrite negb_involutive. reflexivity. Qed.

Lemma url_plain_sep c : url_plain_char c = true -> is_sep c = Z.eqb ch_slash c.
Proof.
  intros H. unfold is_sep. rewrite (Z.eqb_sym ch_slash c).
  destruct (c =? ch_bslash) eqn:E; [|apply orb_false_r].
  apply Z.eqb_eq in E. subst c. discriminate H.
Qed.

(* a target "./rest" without invalid segment, URL-plain and without empty
   segment consists of ordinary segments only: path.Join is a concatenation *)
Lemma ordinary_of_scope t :
  prefixb dot_slash t = true -> find_invalid_segment t = false -> url_plain t = true ->
  no_empty_segment (skipn 2 t) = true ->
  t = ch_dot :: ch_slash :: skipn 2 t /\ ordinary_path (skipn 2 t) = true.
Proof.
  intros Hpre Hfi Hplain Hne.
  destruct t as [|a [|b rest]]; try discriminate.
  cbn [prefixb dot_slash] in Hpre. apply andb_true_iff in Hpre as [Ha Hb].
  apply andb_true_iff in Hb as [Hb _]. apply Z.eqb_eq in Ha. apply Z.eqb_eq in Hb. subst a b.
  cbn [skipn] in *. split; [reflexivity|].
  unfold find_invalid_segment in Hfi.
  assert (Hsp : split_on is_sep (ch_dot :: ch_slash :: rest) = [ch_dot] :: split_on (Z.eqb ch_slash) rest).
  { rewrite (split_on_ext is_sep (Z.eqb ch_slash)).
    - reflexivity.
    - unfold url_plain in Hplain. apply Forall_forall. intros c Hc. apply url_plain_sep.
      rewrite forallb_forall in Hplain. apply Hplain. exact Hc. }
  rewrite Hsp in Hfi. clear Hsp Hplain. unfold ordinary_path, no_empty_segment in *.
  apply negb_true_iff in Hne.
  induction (split_on (Z.eqb ch_slash) rest) as [|g r IH]; [reflexivity|].
  cbn [existsb forallb] in *. apply orb_false_iff in Hfi as [Hg Hr]. apply orb_false_iff in Hne as [Hg0 Hr0].
  rewrite (IH Hr Hr0), andb_true_r. unfold ordinary_seg.
  assert (Hg1 : str_eqb g [ch_dot] = false).
  { destruct (str_eqb g [ch_dot]) eqn:E; [|reflexivity]. apply str_eqb_eq in E. subst g. discriminate Hg. }
  assert (Hg2 : str_eqb g dotdot = false).
  { destruct (str_eqb g dotdot) eqn:E; [|reflexivity]. apply str_eqb_eq in E. subst g. discriminate Hg. }
  rewrite Hg0, Hg1, Hg2. reflexivity.
Qed.

(* the form used by the proofs below *)
Definition target_ok' (imp : bool) (t : str) : bool :=
  if prefixb dot_slash t then
    Bool.eqb (find_invalid_segment t) (node_invalid_segments (skipn 2 t))
    && (find_invalid_segment t
        || (url_plain t
            && str_eqb (path_join2 slash_s t) (ch_slash :: skipn 2 t)
            && str_eqb (path_clean (ch_slash :: skipn 2 t)) (ch_slash :: skipn 2 t)))
  else negb (imp && is_valid_url t).

Lemma target_ok_old imp t : target_ok imp t = true -> target_ok' imp t = true.
Proof.
  unfold target_ok, target_no_shape, shape_url_target, fragment_target, seg_differ_target, target_ok'.
  intros H. apply andb_true_iff in H as [Hurl Hfrag]. apply andb_true_iff in Hfrag as [Hseg Hfrag].
  destruct (prefixb dot_slash t) eqn:Epre; cbn [andb negb] in *.
  - rewrite negb_involutive in Hseg. rewrite Hseg. cbn [andb].
    destruct (find_invalid_segment t) eqn:Efi; [reflexivity|]. cbn [negb orb] in *.
    apply andb_true_iff in Hfrag as [Hplain Hne].
    destruct (ordinary_of_scope t Epre Efi Hplain Hne) as [Ht Hord].
    rewrite Hplain. cbn [andb]. apply andb_true_iff. split; apply str_eqb_eq.
    + rewrite Ht at 1. apply path_join_root_dot. exact Hord.
    + apply path_clean_rooted. exact Hord.
  - destruct imp; [|reflexivity]. cbn [andb] in *. exact Hurl.
Qed.

(* ---- PACKAGE_TARGET_RESOLVE, string case ---- *)
Lemma target_string_eq imp t pm :
  target_ok imp t = true -> pm_ok_opt pm = true ->
  proj (target_string slash_s t (sub_of pm) (pat_of pm) imp) = target_string_spec t pm imp.
Proof.
  intros Ht Hp. apply target_ok_old in Ht. unfold target_string, target_string_spec, target_ok' in *.
  rewrite s_dot_slash, s_dotdot_slash, s_slash.
  assert (E1 : negb (pat_of pm) && negb (str_eqb (sub_of pm) []) && negb (suffixb [ch_slash] t) = false).
  { destruct pm; cbn; reflexivity. }
  rewrite E1; clear E1.
  destruct (prefixb dot_slash t) eqn:Epre; cbn [negb].
  - (* target starts with "./" *)
    apply andb_true_iff in Ht as [Hseg Hrest]. apply Bool.eqb_prop in Hseg. rewrite <- Hseg.
    destruct (find_invalid_segment t) eqn:Efi; [reflexivity|].
    cbn [orb] in Hrest. apply andb_true_iff in Hrest as [Hrest Hc2].
    apply andb_true_iff in Hrest as [Hplain Hc1].
    apply str_eqb_eq in Hc1. apply str_eqb_eq in Hc2. rewrite Hplain. cbn [negb].
    rewrite Hc1.
    destruct pm as [p|]; cbn [sub_of pat_of pm_ok_opt] in *.
    + rewrite pm_ok_old in Hp. apply andb_true_iff in Hp as [Hps Hpp]. apply Bool.eqb_prop in Hps.
      rewrite <- Hps. destruct (find_invalid_subpath_segment p) eqn:Efp; [reflexivity|].
      cbn [orb] in Hpp. rewrite Hpp. cbn [negb].
      match goal with |- proj (_, if ?c then _ else _) = _ => destruct c end; reflexivity.
    + change (find_invalid_subpath_segment []) with false. cbn iota.
      unfold path_join2. rewrite Hc2. reflexivity.
  - (* bare / invalid target *)
    destruct imp; cbn [negb andb orb] in *.
    + destruct (prefixb dotdot_slash t); [reflexivity|].
      destruct (prefixb [ch_slash] t); [reflexivity|]. cbn [negb andb orb].
      apply negb_true_iff in Ht. rewrite Ht.
      destruct pm; cbn [pat_of sub_of]; [reflexivity|]. rewrite app_nil_r. reflexivity.
    + reflexivity.
Qed.

(* ---- the two loops ---- *)
Lemma obj_loop_eq f g conds final kvs :
  proj final = TUndef ->
  Forall (fun kv => proj (f (parse (snd kv))) = g (snd kv)) kvs ->
  proj (obj_loop f conds final (map (fun kv => (fst kv, parse (snd kv))) kvs)) = cond_loop g conds kvs.
Proof.
  intros Hfin H. induction H as [|[k v] r Hv _ IH]; [exact Hfin|].
  cbn [map fst snd obj_loop cond_loop] in *. fold default_s.
  destruct (str_eqb k default_s || mem_str k conds); [|exact IH].
  rewrite <- Hv. destruct (f (parse v)) as [res st].
  destruct st; cbn [snd is_undefined proj]; try reflexivity; exact IH.
Qed.

Lemma arr_loop_eq f g l :
  Forall (fun v => proj (f (parse v)) = g v) l ->
  forall lastE, proj (arr_loop f (map parse l) lastE) = fallback_loop g l (proj ([], lastE)).
Proof.
  intros H. induction H as [|v r Hv _ IH]; intros lastE; [reflexivity|].
  cbn [map arr_loop fallback_loop]. rewrite <- Hv. destruct (f (parse v)) as [res st].
  destruct st; cbn [snd proj fst]; try reflexivity; rewrite IH; reflexivity.
Qed.

Lemma forallb_Forall {A} (p : A -> bool) l : forallb p l = true -> Forall (fun x => p x = true) l.
Proof. intros H. apply Forall_forall. apply forallb_forall. exact H. Qed.

(* ---- PACKAGE_TARGET_RESOLVE ---- *)
Lemma target_resolve_eq imp conds pm :
  pm_ok_opt pm = true ->
  forall j, json_ok imp j = true ->
  proj (target_resolve slash_s (parse j) (sub_of pm) (pat_of pm) imp conds)
  = target_resolve_spec j pm imp conds.
Proof.
  intros Hp. induction j as [| s | | l IH | kvs IH] using json_ind'; intros Hok.
  - reflexivity.
  - cbn [parse target_resolve target_resolve_spec]. rewrite json_ok_str in Hok. apply target_string_eq; [exact Hok|exact Hp].
  - reflexivity.
  - rewrite json_ok_arr in Hok. cbn [parse target_resolve target_resolve_spec].
    destruct l as [|x r]; [reflexivity|].
    set (l := x :: r) in *.
    transitivity (proj (arr_loop (fun v => target_resolve slash_s v (sub_of pm) (pat_of pm) imp conds)
                                 (map parse l) SUndefined)); [reflexivity|].
    rewrite (arr_loop_eq _ (fun v => target_resolve_spec v pm imp conds)); [reflexivity|].
    apply forallb_Forall in Hok. rewrite Forall_forall in *. intros v Hv. apply IH; auto.
  - rewrite json_ok_obj in Hok. apply andb_true_iff in Hok as [Hobj Hvals].
    rewrite obj_ok_old in Hobj. apply andb_true_iff in Hobj as [Hidx Hnd].
    apply negb_true_iff in Hidx.
    cbn [parse]. cbn [target_resolve target_resolve_spec]. rewrite Hidx.
    apply obj_loop_eq.
    + match goal with |- proj (if ?c then _ else _) = _ => destruct c end; reflexivity.
    + apply forallb_Forall in Hvals. rewrite Forall_forall in *. intros kv Hkv. apply IH; auto.
Qed.

(* ================================================================== *)
(* ---- PACKAGE_IMPORTS_EXPORTS_RESOLVE ---- *)
Definition pp (kv : str * json) : str * pj := (fst kv, parse (snd kv)).

Lemma value_for_key_map kvs k :
  value_for_key (map pp kvs) k = option_map parse (assoc_first k kvs).
Proof.
  induction kvs as [|[k' v] r IH]; [reflexivity|].
  cbn [map pp fst snd value_for_key assoc_first]. destruct (str_eqb k' k); [reflexivity|exact IH].
Qed.

Lemma insert_by_map lt x l :
  insert_by lt (pp x) (map pp l) = map pp (insert_by lt x l).
Proof.
  induction l as [|y r IH]; [reflexivity|].
  cbn [map insert_by]. change (fst (pp y)) with (fst y). change (fst (pp x)) with (fst x).
  destruct (lt (fst y) (fst x)); cbn [map]; [rewrite IH|]; reflexivity.
Qed.

Lemma isort_by_map lt l : isort_by lt (map pp l) = map pp (isort_by lt l).
Proof.
  induction l as [|x r IH]; [reflexivity|].
  cbn [map]. unfold isort_by in *. cbn [fold_right]. rewrite IH. apply insert_by_map.
Qed.

Lemma filter_map_pp (q : str -> bool) l :
  filter (fun e => q (fst e)) (map pp l) = map pp (filter (fun kv => q (fst kv)) l).
Proof.
  induction l as [|x r IH]; [reflexivity|].
  cbn [map filter]. change (fst (pp x)) with (fst x). destruct (q (fst x)); cbn [map]; rewrite IH; reflexivity.
Qed.

Lemma filter_ext_Forall {A} (p q : A -> bool) l :
  Forall (fun x => p x = q x) l -> filter p l = filter q l.
Proof. induction 1 as [|x r Hx _ IH]; [reflexivity|]. cbn. rewrite Hx, IH. reflexivity. Qed.

Lemma Forall_filter {A} (P : A -> Prop) (p : A -> bool) l : Forall P l -> Forall P (filter p l).
Proof. induction 1; cbn; [constructor|]. destruct (p x); [constructor|]; auto. Qed.

Lemma Forall_insert_by {A} (P : str * A -> Prop) lt x (l : list (str * A)) :
  P x -> Forall P l -> Forall P (insert_by lt x l).
Proof.
  intros Hx H. induction H as [|y r Hy Hr IH]; cbn; [repeat constructor; auto|].
  destruct (lt (fst y) (fst x)); repeat constructor; auto.
Qed.

Lemma Forall_isort_by {A} (P : str * A -> Prop) lt (l : list (str * A)) :
  Forall P l -> Forall P (isort_by lt l).
Proof.
  induction 1 as [|x r Hx _ IH]; [constructor|].
  unfold isort_by in *. cbn [fold_right]. apply Forall_insert_by; auto.
Qed.

Lemma insert_by_ext {A} lt1 lt2 (x : str * A) l :
  Forall (fun y => lt1 (fst y) (fst x) = lt2 (fst y) (fst x)) l ->
  insert_by lt1 x l = insert_by lt2 x l.
Proof.
  induction 1 as [|y r Hy _ IH]; [reflexivity|]. cbn. rewrite Hy, IH. reflexivity.
Qed.

Lemma isort_by_ext {A} (Q : str -> Prop) lt1 lt2 (l : list (str * A)) :
  (forall a b, Q a -> Q b -> lt1 a b = lt2 a b) ->
  Forall (fun x => Q (fst x)) l -> isort_by lt1 l = isort_by lt2 l.
Proof.
  intros Hext H. induction H as [|x r Hx Hr IH]; [reflexivity|].
  unfold isort_by in *. cbn [fold_right]. rewrite IH.
  apply insert_by_ext. apply (Forall_isort_by (fun y => lt1 (fst y) (fst x) = lt2 (fst y) (fst x))).
  rewrite Forall_forall in *. intros y Hy. apply Hext; auto.
Qed.

(* "*" facts *)
Lemma has_byte_index c s : has_byte c s = match index_byte c s with Some _ => true | None => false end.
Proof.
  induction s as [|x r IH]; [reflexivity|]. cbn [has_byte existsb index_byte].
  rewrite Z.eqb_sym. destruct (x =? c); [reflexivity|]. cbn [orb].
  unfold has_byte in IH. rewrite IH. destruct (index_byte c r); reflexivity.
Qed.

Lemma has_byte_count c s : has_byte c s = negb (count_byte c s =? 0)%nat.
Proof.
  unfold has_byte, count_byte. induction s as [|x r IH]; [reflexivity|].
  cbn [existsb filter]. destruct (c =? x); [reflexivity|]. exact IH.
Qed.

Lemma index_byte_split c s i :
  index_byte c s = Some i -> s = firstn i s ++ c :: skipn (S i) s.
Proof.
  revert i; induction s as [|x r IH]; intros i H; [discriminate|].
  cbn [index_byte] in H. destruct (x =? c) eqn:E.
  - injection H as <-. apply Z.eqb_eq in E. subst. reflexivity.
  - destruct (index_byte c r) as [j|]; [|discriminate]. injection H as <-.
    cbn [firstn skipn app]. f_equal. apply IH. reflexivity.
Qed.

(* esbuild's Less and PATTERN_KEY_COMPARE order pattern keys identically *)
Lemma less_pkc a b :
  has_byte ch_star a = true -> has_byte ch_star b = true -> less a b = pkc_less a b.
Proof.
  intros Ha Hb. unfold less, pkc_less, pattern_key_compare, base_len.
  rewrite Ha, Hb. rewrite has_byte_index in Ha, Hb.
  destruct (index_byte ch_star a) as [i|]; [|discriminate].
  destruct (index_byte ch_star b) as [j|]; [|discriminate].
  cbn [negb].
  change (S j <? S i)%nat with (j <? i)%nat. change (S i <? S j)%nat with (i <? j)%nat.
  destruct (j <? i)%nat; [reflexivity|].
  destruct (i <? j)%nat; [reflexivity|].
  destruct (length b <? length a)%nat; [reflexivity|].
  destruct (length a <? length b)%nat; reflexivity.
Qed.

Lemma str_eqb_nil_length (t : str) : str_eqb t [] = (length t =? 0)%nat.
Proof. destruct t; reflexivity. Qed.

Lemma str_eqb_refl a : str_eqb a a = true.
Proof. apply str_eqb_eq. reflexivity. Qed.

Lemma key_ok_old mk k :
  key_ok mk k = true ->
  negb (ends_with_slash k) = true /\ str_eqb k (mk ++ [ch_star]) = false
  /\ pm_ok (pattern_match_of mk k) = true.
Proof.
  unfold key_ok, key_documented, key_no_shape, key_fragment, shape_pattern_base, pm_ok.
  intros H. apply andb_true_iff in H as [H Hf]. apply andb_true_iff in H as [Hd Hb].
  apply negb_true_iff in Hb. repeat split; auto.
Qed.

(* ---- keys with several "*" never match a star-free match key ---- *)
Lemma count_byte_app c a b : count_byte c (a ++ b) = (count_byte c a + count_byte c b)%nat.
Proof. unfold count_byte. rewrite filter_app, app_length. reflexivity. Qed.

Lemma index_byte_firstn_count c s i : index_byte c s = Some i -> count_byte c (firstn i s) = 0%nat.
Proof.
  revert i; induction s as [|x r IH]; intros i H; [discriminate|].
  cbn [index_byte] in H. destruct (x =? c) eqn:E.
  - injection H as <-. reflexivity.
  - destruct (index_byte c r) as [j|] eqn:Ej; [|discriminate]. injection H as <-.
    cbn [firstn]. unfold count_byte in *. cbn [filter]. rewrite Z.eqb_sym, E. apply IH. reflexivity.
Qed.

Lemma has_byte_skipn c n s : has_byte c (skipn n s) = true -> has_byte c s = true.
Proof.
  revert s; induction n as [|n IH]; intros s H; [exact H|].
  destruct s as [|x r]; [exact H|]. cbn [skipn] in H. unfold has_byte in *. cbn [existsb].
  rewrite (IH r H). apply orb_true_r.
Qed.

Lemma suffixb_has_byte c t m : suffixb t m = true -> has_byte c t = true -> has_byte c m = true.
Proof.
  unfold suffixb. intros H Ht. apply andb_true_iff in H as [_ H]. apply str_eqb_eq in H.
  rewrite <- H in Ht. eapply has_byte_skipn. exact Ht.
Qed.

Lemma multi_star_no_match mk k star :
  has_byte ch_star mk = false -> index_byte ch_star k = Some star ->
  (count_byte ch_star k =? 1)%nat = false ->
  prefixb (firstn star k) mk
  && (str_eqb (skipn (S star) k) []
      || (suffixb (skipn (S star) k) mk && (length k <=? length mk)%nat)) = false.
Proof.
  intros Hmk Hi Hc.
  assert (Ht : has_byte ch_star (skipn (S star) k) = true).
  { pose proof (index_byte_split _ _ _ Hi) as Hs.
    pose proof (index_byte_firstn_count _ _ _ Hi) as H0.
    assert (count_byte ch_star k = S (count_byte ch_star (skipn (S star) k))) as Hk.
    { rewrite Hs at 1. rewrite count_byte_app, H0. unfold count_byte at 1. cbn [filter].
      change (ch_star =? ch_star) with true. reflexivity. }
    rewrite has_byte_count. rewrite Hk in Hc. destruct (count_byte ch_star (skipn (S star) k)); [discriminate|reflexivity]. }
  destruct (skipn (S star) k) as [|x tr] eqn:Etr; [discriminate|].
  change (str_eqb (x :: tr) []) with false. cbn [orb].
  destruct (suffixb (x :: tr) mk) eqn:Es; [|rewrite andb_false_r; reflexivity].
  rewrite (suffixb_has_byte ch_star _ _ Es Ht) in Hmk. discriminate.
Qed.

Lemma expansion_loop_skip mk imp conds (L : list (str * json)) :
  has_byte ch_star mk = false ->
  Forall (fun kv => has_byte ch_star (fst kv) = true) L ->
  expansion_loop slash_s mk (map pp L) imp conds
  = expansion_loop slash_s mk (map pp (filter (fun kv => (count_byte ch_star (fst kv) =? 1)%nat) L)) imp conds.
Proof.
  intros Hmk HL. induction HL as [|[k v] r Hk _ IH]; [reflexivity|].
  cbn [filter fst] in *. destruct (count_byte ch_star k =? 1)%nat eqn:Ec.
  - cbn [map pp fst snd expansion_loop]. rewrite IH. reflexivity.
  - cbn [map pp fst snd expansion_loop]. rewrite has_byte_index in Hk.
    destruct (index_byte ch_star k) as [star|] eqn:Ei; [|discriminate].
    rewrite (multi_star_no_match mk k star Hmk Ei Ec). exact IH.
Qed.

(* esbuild's Less is a strict weak order on keys that contain "*" *)
Lemma less_asym a b :
  has_byte ch_star a = true -> has_byte ch_star b = true -> less a b = true -> less b a = false.
Proof.
  intros Ha Hb. unfold less, base_len. rewrite has_byte_index in Ha, Hb.
  destruct (index_byte ch_star a) as [i|]; [|discriminate].
  destruct (index_byte ch_star b) as [j|]; [|discriminate].
  destruct (j <? i)%nat eqn:E1; destruct (i <? j)%nat eqn:E2;
    destruct (length b <? length a)%nat eqn:E3; destruct (length a <? length b)%nat eqn:E4;
    intros; try reflexivity; try discriminate; lia.
Qed.

Lemma less_negtrans a b c :
  has_byte ch_star a = true -> has_byte ch_star b = true -> has_byte ch_star c = true ->
  less b a = false -> less c b = false -> less c a = false.
Proof.
  intros Ha Hb Hc. unfold less, base_len. rewrite has_byte_index in Ha, Hb, Hc.
  destruct (index_byte ch_star a) as [i|]; [|discriminate].
  destruct (index_byte ch_star b) as [j|]; [|discriminate].
  destruct (index_byte ch_star c) as [k|]; [|discriminate].
  destruct (i <? j)%nat eqn:E1; destruct (j <? i)%nat eqn:E2; destruct (j <? k)%nat eqn:E3;
    destruct (k <? j)%nat eqn:E4; destruct (i <? k)%nat eqn:E5; destruct (k <? i)%nat eqn:E6;
    destruct (length a <? length b)%nat eqn:E7; destruct (length b <? length c)%nat eqn:E8;
    destruct (length a <? length c)%nat eqn:E9;
    intros; try reflexivity; try discriminate; lia.
Qed.

(* the loop over the sorted pattern keys *)
Lemma expansion_loop_eq mk imp conds L :
  Forall (fun kv => has_byte ch_star (fst kv) = true /\ key_ok mk (fst kv) = true
                    /\ json_ok imp (snd kv) = true) L ->
  proj (expansion_loop slash_s mk (map pp L) imp conds) = expansion_loop_spec mk L imp conds.
Proof.
  induction 1 as [|[k v] r [Hstar [Hkey Hv]] _ IH]; [reflexivity|].
  cbn [fst snd] in *. cbn [map pp fst snd expansion_loop expansion_loop_spec].
  rewrite has_byte_index in Hstar.
  destruct (index_byte ch_star k) as [star|] eqn:Estar; [|discriminate].
  set (base := firstn star k). set (trailer := skipn (S star) k).
  destruct (key_ok_old _ _ Hkey) as (Hkey0 & Hne & Hpm).
  unfold pattern_match_of in Hpm. rewrite Estar in Hpm. fold base trailer in Hpm.
  pose proof (index_byte_split _ _ _ Estar) as Hsplit. fold base trailer in Hsplit.
  rewrite str_eqb_nil_length.
  destruct (prefixb base mk) eqn:Epre; cbn [andb]; [|exact IH].
  destruct (str_eqb mk base) eqn:Eeq; cbn [negb andb].
  - (* match key equals the pattern base: Node skips the key *)
    apply str_eqb_eq in Eeq.
    assert (Hf : (length trailer =? 0)%nat || (suffixb trailer mk && (length k <=? length mk)%nat) = false).
    { destruct (length trailer =? 0)%nat eqn:Et.
      - exfalso. apply Nat.eqb_eq in Et. destruct trailer; [|discriminate].
        rewrite Hsplit, <- Eeq in Hne. rewrite str_eqb_refl in Hne. discriminate.
      - cbn [orb]. assert (length k = length base + S (length trailer))%nat as Hl.
        { rewrite Hsplit at 1. rewrite app_length. reflexivity. }
        rewrite Eeq. destruct (length k <=? length base)%nat eqn:El; [lia|].
        apply andb_false_r. }
    rewrite Hf. exact IH.
  - destruct ((length trailer =? 0)%nat || (suffixb trailer mk && (length k <=? length mk)%nat)); [|exact IH].
    apply (target_resolve_eq imp conds (Some _)); [exact Hpm|exact Hv].
Qed.

Lemma filter_filter_imp {A} (p q : A -> bool) l :
  (forall x, p x = true -> q x = true) -> filter p l = filter p (filter q l).
Proof.
  intros H. induction l as [|x r IH]; [reflexivity|]. cbn [filter].
  destruct (p x) eqn:Ep.
  - rewrite (H x Ep). cbn [filter]. rewrite Ep, IH. reflexivity.
  - destruct (q x); cbn [filter]; rewrite ?Ep; exact IH.
Qed.

Lemma imports_exports_resolve_eq mk kvs imp conds :
  match_key_ok mk = true -> json_ok imp (JObj kvs) = true ->
  forallb (fun kv => key_ok mk (fst kv)) kvs = true ->
  proj (imports_exports_resolve mk (parse (JObj kvs)) slash_s imp conds)
  = imports_exports_resolve_spec mk kvs imp conds.
Proof.
  intros Hmk Hok Hkeys. rewrite json_ok_obj in Hok. apply andb_true_iff in Hok as [Hobj Hvals].
  cbn [parse]. fold pp.
  unfold imports_exports_resolve, imports_exports_resolve_spec. cbn [map_data expansion_keys].
  unfold match_key_ok in Hmk. apply andb_true_iff in Hmk as [Hsl Hst].
  pose proof Hst as Hst'. unfold shape_star_specifier in Hst'. rewrite Hsl, Hst'. cbn [andb].
  rewrite value_for_key_map.
  apply forallb_Forall in Hvals. apply forallb_Forall in Hkeys.
  destruct (assoc_first mk kvs) as [v|] eqn:Ea; cbn [option_map].
  - apply (target_resolve_eq imp conds None); [reflexivity|].
    (* v is one of the values *)
    clear - Ea Hvals. induction kvs as [|[k' v'] r IH]; [discriminate|].
    cbn [assoc_first] in Ea. inversion Hvals; subst.
    destruct (str_eqb k' mk); [injection Ea as <-; assumption|]. apply IH; assumption.
  - rewrite (filter_map_pp is_expansion_key). rewrite isort_by_map.
    (* without "/" keys the expansion keys are the keys containing "*" *)
    rewrite (filter_ext_Forall (fun kv => is_expansion_key (fst kv))
                               (fun kv => has_byte ch_star (fst kv))).
    2:{ rewrite Forall_forall in *. intros kv Hin. specialize (Hkeys kv Hin). cbn beta in Hkeys.
        destruct (key_ok_old _ _ Hkeys) as (Hk1 & _ & _). apply negb_true_iff in Hk1.
        unfold is_expansion_key. rewrite Hk1. reflexivity. }
    set (single := fun kv : str * json => (count_byte ch_star (fst kv) =? 1)%nat).
    set (H := filter (fun kv => has_byte ch_star (fst kv)) kvs).
    assert (HQ : Forall (fun kv => has_byte ch_star (fst kv) = true) H).
    { unfold H. apply Forall_forall. intros kv Hin. apply filter_In in Hin as [_ Hc]. exact Hc. }
    assert (HS : filter single kvs = filter single H).
    { unfold H. apply filter_filter_imp. intros kv Hs. unfold single in Hs.
      rewrite has_byte_count. apply Nat.eqb_eq in Hs. rewrite Hs. reflexivity. }
    rewrite HS.
    (* the keys with several "*" never match: drop them from esbuild's sorted list *)
    apply negb_true_iff in Hst. unfold shape_star_specifier in Hst.
    rewrite (expansion_loop_skip mk imp conds (isort_by less H) Hst).
    2:{ apply (Forall_isort_by (fun kv => has_byte ch_star (fst kv) = true)). exact HQ. }
    fold single.
    rewrite (filter_isort less (fun k => has_byte ch_star k = true) less_asym less_negtrans single H HQ).
    assert (HF : Forall (fun kv => has_byte ch_star (fst kv) = true /\ key_ok mk (fst kv) = true
                                   /\ json_ok imp (snd kv) = true) (filter single H)).
    { rewrite <- HS. rewrite Forall_forall in *. intros kv Hin. apply filter_In in Hin as [Hin Hc].
      split; [|split; [apply Hkeys|apply Hvals]; assumption].
      rewrite has_byte_count. unfold single in Hc. apply Nat.eqb_eq in Hc. rewrite Hc. reflexivity. }
    rewrite <- (isort_by_ext (fun k => has_byte ch_star k = true) less pkc_less (filter single H)).
    + apply expansion_loop_eq. apply Forall_isort_by. exact HF.
    + intros a b Ha Hb. apply less_pkc; assumption.
    + rewrite Forall_forall in *. intros kv Hin. apply (HF kv Hin).
Qed.

(* ================================================================== *)
(* ---- JSON.parse view: without duplicated keys [norm] is the identity ---- *)
Lemma str_eqb_sym a b : str_eqb a b = str_eqb b a.
Proof.
  destruct (str_eqb a b) eqn:E1, (str_eqb b a) eqn:E2; try reflexivity.
  - apply str_eqb_eq in E1. subst. rewrite str_eqb_refl in E2. discriminate.
  - apply str_eqb_eq in E2. subst. rewrite str_eqb_refl in E1. discriminate.
Qed.

Lemma assoc_last_none k (r : list (str * json)) :
  mem_str k (map fst r) = false -> assoc_last k r = None.
Proof.
  induction r as [|[k' v] r IH]; [reflexivity|]. cbn [map fst mem_str existsb assoc_last].
  intros H. apply orb_false_iff in H as [H1 H2]. rewrite (IH H2).
  rewrite str_eqb_sym, H1. reflexivity.
Qed.

Lemma In_mem_str (kv : str * json) r : In kv r -> mem_str (fst kv) (map fst r) = true.
Proof.
  induction r as [|x r IH]; [contradiction|]. intros [->|H]; cbn [map mem_str existsb].
  - rewrite str_eqb_refl. reflexivity.
  - unfold mem_str in IH. rewrite (IH H). apply orb_true_r.
Qed.

Lemma js_obj_id l : forall seen,
  nodupb (map fst l) = true -> (forall kv, In kv l -> mem_str (fst kv) seen = false) ->
  js_obj l seen = l.
Proof.
  induction l as [|[k v] r IH]; intros seen Hnd Hseen; [reflexivity|].
  cbn [js_obj]. pose proof (Hseen (k, v) (or_introl eq_refl)) as Hs0. cbn [fst] in Hs0. rewrite Hs0.
  cbn [map fst nodupb] in Hnd. apply andb_true_iff in Hnd as [Hk Hr]. apply negb_true_iff in Hk.
  rewrite (assoc_last_none _ _ Hk). f_equal. apply IH; [exact Hr|].
  intros kv Hin. change (mem_str (fst kv) (k :: seen)) with (str_eqb (fst kv) k || mem_str (fst kv) seen).
  rewrite (Hseen kv (or_intror Hin)). rewrite orb_false_r.
  destruct (str_eqb (fst kv) k) eqn:E; [|reflexivity].
  apply str_eqb_eq in E. rewrite <- E in Hk. rewrite (In_mem_str kv r Hin) in Hk. discriminate.
Qed.

Lemma norm_id imp : forall j, json_ok imp j = true -> norm j = j.
Proof.
  induction j as [| s | | l IH | kvs IH] using json_ind'; intros Hok; try reflexivity.
  - rewrite json_ok_arr in Hok. cbn [norm]. f_equal. apply forallb_Forall in Hok.
    rewrite <- (map_id l) at 2. apply map_ext_in. intros x Hx.
    rewrite Forall_forall in *. apply IH; auto.
  - rewrite json_ok_obj in Hok. apply andb_true_iff in Hok as [Hobj Hvals]. cbn [norm].
    assert (E : map (fun kv => (fst kv, norm (snd kv))) kvs = kvs).
    { apply forallb_Forall in Hvals. rewrite <- (map_id kvs) at 2. apply map_ext_in.
      intros [k v] Hx. cbn [fst snd]. f_equal. rewrite Forall_forall in *.
      apply (IH (k, v) Hx). apply (Hvals (k, v) Hx). }
    rewrite E. f_equal. apply js_obj_id; [|reflexivity].
    rewrite obj_ok_old in Hobj. apply andb_true_iff in Hobj as [_ Hnd]. exact Hnd.
Qed.

(* ================================================================== *)
(* ---- PACKAGE_EXPORTS_RESOLVE / PACKAGE_IMPORTS_RESOLVE ---- *)
Lemma finish_eq fb ne res :
  outcome_of_model ne = ORefused ENotExported ->
  outcome_of_model (if is_null_or_undefined (snd res) then ne else res)
  = coarse (to_outcome fb (proj res)).
Proof.
  intros Hne. destruct res as [r st]. destruct st; cbn [snd is_null_or_undefined]; try exact Hne; reflexivity.
Qed.

Lemma assoc_first_In k (kvs : list (str * json)) v (P : json -> Prop) :
  assoc_first k kvs = Some v -> Forall (fun kv => P (snd kv)) kvs -> P v.
Proof.
  induction kvs as [|[k' v'] r IH]; [discriminate|]. cbn [assoc_first]. intros Ea H.
  inversion H; subst. destruct (str_eqb k' k); [injection Ea as <-; assumption|]. apply IH; assumption.
Qed.

Lemma same_dot_repeat b (r : list (str * json)) :
  forallb (fun k => Bool.eqb (starts_with_dot k) b) (map fst r) = true ->
  map (fun kv => starts_with_dot (fst kv)) r = repeat b (length r).
Proof.
  induction r as [|[k v] r IH]; [reflexivity|]. cbn [map fst forallb length repeat].
  intros H. apply andb_true_iff in H as [H1 H2]. apply Bool.eqb_prop in H1. rewrite H1, IH; auto.
Qed.

Lemma existsb_id_repeat b n : existsb (fun x : bool => x) (b :: repeat b n) = b.
Proof. induction n; cbn in *; destruct b; auto. Qed.
Lemma existsb_negb_repeat b n : existsb negb (b :: repeat b n) = negb b.
Proof. induction n; cbn in *; destruct b; auto. Qed.
Lemma forallb_id_repeat b n : forallb (fun x : bool => x) (b :: repeat b n) = b.
Proof. induction n; cbn in *; destruct b; auto. Qed.

Definition not_exported : str * status := ([], SPackagePathNotExported).

Lemma main_export_null (F : str * status -> str * status) (m : pj) conds :
  F ([], SNull) = not_exported ->
  match m with
  | PNull => not_exported
  | _ => F (target_resolve slash_s m [] false false conds)
  end = F (target_resolve slash_s m [] false false conds).
Proof. intros H. destruct m; try reflexivity. cbn [target_resolve]. symmetry. exact H. Qed.

Lemma s_dot : s_ "." = [ch_dot]. Proof. reflexivity. Qed.

Lemma exports_resolve_obj sub md eks conds :
  exports_resolve slash_s sub (PObj md eks) conds =
  let e := PObj md eks in
  let fin := fun res : str * status => if is_null_or_undefined (snd res) then not_exported else res in
  if str_eqb sub [ch_dot] then
    match (if negb (keys_start_with_dot e) then e
           else match value_for_key md [ch_dot] with Some d => d | None => PNull end) with
    | PNull => not_exported
    | m => fin (target_resolve slash_s m [] false false conds)
    end
  else if keys_start_with_dot e then fin (imports_exports_resolve sub e slash_s false conds)
       else not_exported.
Proof.
  unfold exports_resolve. cbv zeta. destruct (str_eqb sub [ch_dot]); [|reflexivity].
  destruct (negb (keys_start_with_dot (PObj md eks))); [reflexivity|].
  destruct (value_for_key md [ch_dot]) as [d|]; [destruct d|]; reflexivity.
Qed.

Lemma inconsistent_mixed b (r : list (str * json)) :
  forallb (fun k => Bool.eqb (starts_with_dot k) b) (map fst r) = false ->
  existsb (fun x : bool => x) (b :: map (fun kv => starts_with_dot (fst kv)) r)
  && existsb negb (b :: map (fun kv => starts_with_dot (fst kv)) r) = true.
Proof.
  induction r as [|[k v] r IH]; [discriminate|]. cbn [map fst forallb existsb].
  destruct (Bool.eqb (starts_with_dot k) b) eqn:E.
  - cbn [andb]. intros H. specialize (IH H). cbn [existsb] in IH.
    apply Bool.eqb_prop in E. rewrite E.
    destruct b; cbn [negb orb] in *; exact IH.
  - intros _. destruct (starts_with_dot k), b; try discriminate; cbn; rewrite ?orb_true_r; reflexivity.
Qed.

Lemma exports_resolve_eq_partial_all j sub conds :
  in_scope_exports j sub = true ->
  outcome_of_model (exports_resolve slash_s sub (parse_top j) conds)
  = coarse (node_exports_resolve j sub conds).
Proof.
  unfold in_scope_exports. intros H. apply andb_true_iff in H as [H Hkeys].
  apply andb_true_iff in H as [Hmk Hok].
  unfold node_exports_resolve. rewrite (norm_id false j Hok).
  assert (Hsl : ends_with_slash sub = false).
  { unfold match_key_ok in Hmk. apply andb_true_iff in Hmk as [Hs _]. apply negb_true_iff in Hs. exact Hs. }
  rewrite Hsl. unfold exports_resolve_spec. rewrite s_dot.
  pose proof (target_resolve_eq false conds None eq_refl) as TR. cbn [sub_of pat_of] in TR.
  destruct j as [| t | l | kvs |].
  - (* null *) cbn. destruct (str_eqb sub [ch_dot]); reflexivity.
  - (* string *) cbn [parse_top parse exports_resolve map existsb andb].
    destruct (str_eqb sub [ch_dot]); [|reflexivity].
    rewrite <- (TR (JStr t) Hok). apply finish_eq. reflexivity.
  - (* array *) cbn [parse_top parse exports_resolve map existsb andb].
    destruct (str_eqb sub [ch_dot]); [|reflexivity].
    rewrite <- (TR (JArr l) Hok). apply finish_eq. reflexivity.
  - (* object *)
    pose proof Hok as Hok'. rewrite json_ok_obj in Hok'. apply andb_true_iff in Hok' as [Hobj Hvals].
    apply forallb_Forall in Hvals.
    destruct kvs as [|[k0 v0] r].
    + cbn. destruct (str_eqb sub [ch_dot]); [reflexivity|].
      unfold imports_exports_resolve_spec. cbn. destruct (negb (has_byte ch_star sub)); reflexivity.
    + set (kvs := (k0, v0) :: r) in *.
      unfold parse_top. destruct (consistent_keys (map fst kvs)) eqn:Hcons.
      2:{ (* mixed keys at the top level: both sides refuse *)
          unfold kvs in Hcons. cbn [map fst consistent_keys] in Hcons.
          unfold kvs. cbn [map fst]. rewrite (inconsistent_mixed _ r Hcons). reflexivity. }
      assert (Hdk : map (fun kv => starts_with_dot (fst kv)) kvs
                    = starts_with_dot k0 :: repeat (starts_with_dot k0) (length r)).
      { unfold kvs. cbn [map fst]. f_equal. apply same_dot_repeat. exact Hcons. }
      rewrite Hdk. rewrite existsb_id_repeat, existsb_negb_repeat, forallb_id_repeat.
      assert (Hp : parse (JObj kvs) = PObj (map pp kvs)
                     (isort_by less (filter (fun e => is_expansion_key (fst e)) (map pp kvs)))).
      { reflexivity. }
      assert (Hksd : keys_start_with_dot (parse (JObj kvs)) = starts_with_dot k0).
      { rewrite Hp. reflexivity. }
      rewrite Hp. rewrite exports_resolve_obj. cbv zeta. rewrite <- Hp. rewrite Hksd.
      destruct (starts_with_dot k0) eqn:Edot; cbn [negb andb].
      * (* subpath map *)
        destruct (str_eqb sub [ch_dot]).
        -- rewrite value_for_key_map.
           destruct (assoc_first [ch_dot] kvs) as [v|] eqn:Ea; cbn [option_map]; [|reflexivity].
           assert (Hv : json_ok false v = true)
             by apply (assoc_first_In _ _ _ (fun v => json_ok false v = true) Ea Hvals).
           rewrite <- (TR v Hv). generalize (parse v). intros m.
           destruct m; try (apply finish_eq; reflexivity). reflexivity.
        -- rewrite <- (imports_exports_resolve_eq sub kvs false conds Hmk Hok Hkeys).
           apply finish_eq. reflexivity.
      * (* conditions object: sugar for "." *)
        destruct (str_eqb sub [ch_dot]); [|reflexivity].
        rewrite Hp at 1. cbv iota. rewrite <- Hp.
        rewrite <- (TR (JObj kvs) Hok). apply finish_eq. reflexivity.
  - (* neither *) cbn. destruct (str_eqb sub [ch_dot]); reflexivity.
Qed.

Lemma imports_resolve_obj spec md eks conds :
  imports_resolve spec (PObj md eks) conds =
  let res := imports_exports_resolve spec (PObj md eks) slash_s true conds in
  if is_null_or_undefined (snd res) then (spec, SPackageImportNotDefined) else res.
Proof. reflexivity. Qed.

Lemma imports_resolve_eq_partial_all j spec conds :
  in_scope_imports j spec = true ->
  outcome_of_model (imports_resolve spec (parse j) conds)
  = coarse (node_imports_resolve spec j conds).
Proof.
  unfold in_scope_imports. intros H. apply andb_true_iff in H as [H Hkeys].
  apply andb_true_iff in H as [H Hhs0].
  apply andb_true_iff in H as [Hmk Hok].
  apply negb_true_iff in Hhs0. unfold shape_hash_slash in Hhs0. apply orb_false_iff in Hhs0 as [Hh Hhs].
  unfold node_imports_resolve. rewrite (norm_id true j Hok).
  assert (Hsl : ends_with_slash spec = false).
  { unfold match_key_ok in Hmk. apply andb_true_iff in Hmk as [Hs _]. apply negb_true_iff in Hs. exact Hs. }
  rewrite Hsl. unfold imports_resolve_spec.
  change (s_ "#") with [ch_hash]. change (s_ "#/") with [ch_hash; ch_slash]. rewrite Hh, Hhs. cbn [orb].
  destruct j as [| t | l | kvs |]; try reflexivity.
  assert (Hp : parse (JObj kvs) = PObj (map pp kvs)
                 (isort_by less (filter (fun e => is_expansion_key (fst e)) (map pp kvs)))).
  { reflexivity. }
  rewrite Hp, imports_resolve_obj. cbv zeta. rewrite <- Hp.
  rewrite <- (imports_exports_resolve_eq spec kvs true conds Hmk Hok Hkeys).
  apply finish_eq. reflexivity.
Qed.

(* ================================================================== *)
(* ---- the sorted expansion keys ---- *)
Lemma pattern_order_eq_all {A} (l : list (str * A)) :
  Forall (fun kv => has_byte ch_star (fst kv) = true) l ->
  isort_by less l = isort_by pkc_less l.
Proof.
  intros H. apply (isort_by_ext (fun k => has_byte ch_star k = true)); [|exact H].
  intros a b Ha Hb. apply less_pkc; assumption.
Qed.

(* ---- witnesses: outside the scope the faithful model and Node differ ---- *)
Definition cN := [s_ "node"; s_ "import"].
Definition model_exports (j : json) (sub : str) : outcome :=
  outcome_of_model (exports_resolve slash_s sub (parse_top j) cN).
Definition model_imports (j : json) (sp : str) : outcome :=
  outcome_of_model (imports_resolve sp (parse j) cN).
Definition spec_exports (j : json) (sub : str) : outcome := coarse (node_exports_resolve j sub cN).
Definition spec_imports (j : json) (sp : str) : outcome := coarse (node_imports_resolve sp j cN).

Definition w_pattern_base : json := JObj [(s_ "./foo*", JStr (s_ "./lib/foo*.js"))].
Definition w_pattern_base2 : json :=
  JObj [(s_ "./foo*", JStr (s_ "./lib/foo*.js")); (s_ "./fo*", JStr (s_ "./x/*.js"))].
Definition w_upper : json := JObj [(s_ "./x", JStr (s_ "./lib/NODE_MODULES/x.js"))].
Definition w_pct : json := JObj [(s_ "./x", JStr (s_ "./lib/%2e%2e/x.js"))].
Definition w_star_all : json := JObj [(s_ "./*", JStr (s_ "./lib/*"))].
Definition w_dup : json := JObj [(s_ "./a", JStr (s_ "./x.js")); (s_ "./a", JStr (s_ "./y.js"))].
Definition w_mixed : json :=
  JObj [(s_ "./a", JObj [(s_ "node", JStr (s_ "./x.js")); (s_ "./b", JStr (s_ "./y.js"))])].
Definition w_index : json :=
  JObj [(s_ "./a", JObj [(s_ "0", JStr (s_ "./x.js")); (s_ "default", JStr (s_ "./y.js"))])].
Definition w_hash_slash : json := JObj [(s_ "#/*", JStr (s_ "./*.js"))].
Definition w_url_target : json := JObj [(s_ "#fs", JStr (s_ "node:fs"))].

Lemma refuted_pattern_base :
  model_exports w_pattern_base (s_ "./foo") = OResolved (s_ "/lib/foo.js")
  /\ spec_exports w_pattern_base (s_ "./foo") = ORefused ENotExported.
Proof. split; vm_compute; reflexivity. Qed.
Lemma refuted_pattern_base_other_file :
  model_exports w_pattern_base2 (s_ "./foo") = OResolved (s_ "/lib/foo.js")
  /\ spec_exports w_pattern_base2 (s_ "./foo") = OResolved (s_ "/x/o.js").
Proof. split; vm_compute; reflexivity. Qed.
(* D2 (repaired in /repo by e3ac7b5): the former witnesses now agree *)
Lemma fixed_segment_case :
  model_exports w_upper (s_ "./x") = ORefused ENotExported
  /\ spec_exports w_upper (s_ "./x") = ORefused ENotExported.
Proof. split; vm_compute; reflexivity. Qed.
Lemma fixed_segment_percent :
  model_exports w_pct (s_ "./x") = ORefused ENotExported
  /\ spec_exports w_pct (s_ "./x") = ORefused ENotExported.
Proof. split; vm_compute; reflexivity. Qed.
Lemma fixed_segment_first :
  model_exports w_star_all (s_ "./../secret.js") = ORefused ENotExported
  /\ spec_exports w_star_all (s_ "./../secret.js") = ORefused ENotExported
  /\ model_exports w_star_all (s_ "./node_modules/s.js") = ORefused ENotExported
  /\ spec_exports w_star_all (s_ "./node_modules/s.js") = ORefused ENotExported.
Proof. repeat split; vm_compute; reflexivity. Qed.
Lemma refuted_duplicate_key :
  model_exports w_dup (s_ "./a") = OResolved (s_ "/x.js")
  /\ spec_exports w_dup (s_ "./a") = OResolved (s_ "/y.js").
Proof. split; vm_compute; reflexivity. Qed.
(* D4 (repaired in /repo by 4e82ea6): nested mixed keys now agree; what is left
   is the top-level object of "imports" *)
Lemma fixed_nested_mixed_keys :
  model_exports w_mixed (s_ "./a") = OResolved (s_ "/x.js")
  /\ spec_exports w_mixed (s_ "./a") = OResolved (s_ "/x.js")
  /\ in_scope_exports w_mixed (s_ "./a") = true.
Proof. repeat split; vm_compute; reflexivity. Qed.
(* the "imports" part of D4 (repaired in /repo by 9a0cc2e): agrees and is in scope *)
Definition w_imports_mixed : json := JObj [(s_ "#a", JStr (s_ "./a.js")); (s_ "./b", JStr (s_ "./b.js"))].
Lemma fixed_imports_top_mixed :
  model_imports w_imports_mixed (s_ "#a") = OResolved (s_ "/a.js")
  /\ spec_imports w_imports_mixed (s_ "#a") = OResolved (s_ "/a.js")
  /\ in_scope_imports w_imports_mixed (s_ "#a") = true.
Proof. repeat split; vm_compute; reflexivity. Qed.
Lemma refuted_index_key :
  model_exports w_index (s_ "./a") = OResolved (s_ "/y.js")
  /\ spec_exports w_index (s_ "./a") = ORefused ENotExported.
Proof. split; vm_compute; reflexivity. Qed.
Lemma refuted_imports_hash_slash :
  model_imports w_hash_slash (s_ "#/a") = OResolved (s_ "/a.js")
  /\ spec_imports w_hash_slash (s_ "#/a") = ORefused ENotExported.
Proof. split; vm_compute; reflexivity. Qed.
Lemma refuted_imports_url_target :
  model_imports w_url_target (s_ "#fs") = OPackageResolve (s_ "node:fs")
  /\ spec_imports w_url_target (s_ "#fs") = ORefused ENotExported.
Proof. split; vm_compute; reflexivity. Qed.

(* the unrestricted statement (only the documented exclusions) is false *)
Definition documented_scope (j : json) (sub : str) : bool :=
  negb (ends_with_slash sub)
  && match j with JObj kvs => forallb (fun kv => negb (ends_with_slash (fst kv))) kvs | _ => true end.

Lemma exports_resolve_eq_refuted_all :
  exists j sub conds,
    documented_scope j sub = true /\
    outcome_of_model (exports_resolve slash_s sub (parse_top j) conds)
    <> coarse (node_exports_resolve j sub conds).
Proof.
  exists w_pattern_base, (s_ "./foo"), cN. split; [reflexivity|].
  intro H. vm_compute in H. discriminate H.
Qed.

Lemma imports_resolve_eq_refuted_all :
  exists j sp conds,
    documented_scope j sp = true /\
    outcome_of_model (imports_resolve sp (parse j) conds)
    <> coarse (node_imports_resolve sp j conds).
Proof.
  exists w_hash_slash, (s_ "#/a"), cN. split; [reflexivity|].
  intro H. vm_compute in H. discriminate H.
Qed.

(* ================================================================== *)
(* ---- the in-scope domain is exactly: documented exclusions, modelled URL
   fragment, and no recorded refuted shape ---- *)
Lemma forallb_and {A} (p q : A -> bool) l :
  forallb (fun x => p x && q x) l = forallb p l && forallb q l.
Proof.
  induction l as [|x r IH]; [reflexivity|]. cbn [forallb]. rewrite IH.
  destruct (p x), (q x), (forallb p r), (forallb q r); reflexivity.
Qed.

Lemma forallb_ext_in {A} (p q : A -> bool) l :
  Forall (fun x => p x = q x) l -> forallb p l = forallb q l.
Proof. induction 1 as [|x r Hx _ IH]; [reflexivity|]. cbn. rewrite Hx, IH. reflexivity. Qed.

Lemma json_all_and T1 T2 O1 O2 : forall j,
  json_all (fun t => T1 t && T2 t) (fun k => O1 k && O2 k) j = json_all T1 O1 j && json_all T2 O2 j.
Proof.
  induction j as [| s | | l IH | kvs IH] using json_ind'; try reflexivity.
  - cbn [json_all]. rewrite <- forallb_and. apply forallb_ext_in. exact IH.
  - cbn [json_all]. rewrite (forallb_ext_in _ (fun kv => json_all T1 O1 (snd kv) && json_all T2 O2 (snd kv)) kvs IH).
    rewrite forallb_and.
    destruct (O1 kvs), (O2 kvs), (forallb (fun kv => json_all T1 O1 (snd kv)) kvs),
      (forallb (fun kv => json_all T2 O2 (snd kv)) kvs); reflexivity.
Qed.

Lemma top_keys_split mk j :
  top_keys (key_ok mk) j
  = top_keys key_documented j && top_keys (key_no_shape mk) j && top_keys (key_fragment mk) j.
Proof.
  destruct j; try reflexivity. cbn [top_keys]. unfold key_ok.
  rewrite (forallb_and (fun kv => key_documented (fst kv) && key_no_shape mk (fst kv))
                       (fun kv => key_fragment mk (fst kv))).
  rewrite (forallb_and (fun kv => key_documented (fst kv)) (fun kv => key_no_shape mk (fst kv))).
  reflexivity.
Qed.

Lemma json_ok_split imp j :
  json_ok imp j = json_all (target_no_shape imp) obj_no_shape j && json_all fragment_target (fun _ => true) j.
Proof. unfold json_ok, target_ok, obj_ok. apply json_all_and. Qed.

Lemma in_scope_exports_split_all j mk :
  in_scope_exports j mk = documented_ok j mk && fragment_ok j mk && no_refuted_shape false j mk.
Proof.
  unfold in_scope_exports, documented_ok, fragment_ok, no_refuted_shape, match_key_ok.
  rewrite json_ok_split, top_keys_split. cbn [andb negb].
  destruct (negb (ends_with_slash mk)), (negb (shape_star_specifier mk)),
    (json_all (target_no_shape false) obj_no_shape j), (json_all fragment_target (fun _ => true) j),
    (top_keys key_documented j), (top_keys (key_no_shape mk) j), (top_keys (key_fragment mk) j); reflexivity.
Qed.

Lemma in_scope_imports_split_all j mk :
  in_scope_imports j mk = documented_ok j mk && fragment_ok j mk && no_refuted_shape true j mk.
Proof.
  unfold in_scope_imports, documented_ok, fragment_ok, no_refuted_shape, match_key_ok.
  rewrite json_ok_split, top_keys_split. cbn [andb].
  destruct (negb (ends_with_slash mk)), (negb (shape_star_specifier mk)), (negb (shape_hash_slash mk)),
    (json_all (target_no_shape true) obj_no_shape j), (json_all fragment_target (fun _ => true) j),
    (top_keys key_documented j), (top_keys (key_no_shape mk) j), (top_keys (key_fragment mk) j); reflexivity.
Qed.
