(* C11, second layer: loadNodeModules / loadPackageImports against
   LOAD_PACKAGE_SELF / LOAD_NODE_MODULES / LOAD_PACKAGE_IMPORTS (require). *)
From V Require Import Common.Base C11.Str C11.EsbuildResolve C11.NodeSpec C11.SortLemmas C11.Scope
     C11.ResolveProofs C11.Walk C11.NodeWalkSpec C11.WalkProofs C11.CondsExt C11.WalkCore.
Local Open Scope string_scope.
Local Open Scope Z_scope.

(* ---- hypotheses on the specifier and on the package.json files ---- *)
Definition plain_spec (x : str) : bool := forallb ordinary_seg (split_on (Z.eqb ch_slash) x).
Definition spec_segs (x : str) : list str := split_on (Z.eqb ch_slash) x.
Definition subpath_of (x : str) : str := match package_name_spec x with Some (_, s) => s | None => [] end.
Definition name_of (x : str) : str := match package_name_spec x with Some (n, _) => n | None => [] end.

(* a bare specifier: valid package name (excludes D13), no "", "." or ".." segment *)
Definition bare_ok (x : str) : bool :=
  match package_name_spec x with
  | Some (n, _) => negb (str_eqb n []) && plain_spec x && plain_spec n
  | None => false
  end.

(* every package.json of the tree: "exports" is not a JSON null inside [Some]
   and is in the scope of the core theorem for this specifier's subpath *)
Definition pkgs_ok (fs : fsmap) (x : str) : Prop :=
  forall d pk ex, pkg_of fs d = Some pk -> pk_exports pk = Some ex ->
    ex <> JNull /\ in_scope_exports ex (subpath_of x) = true.

(* after the fix 6e6e7fa esbuild's nearest-package.json search IS Node's package scope lookup *)
Lemma nearest_is_scope fs : forall fuel dir, nearest_pkg fs fuel dir = package_scope fs fuel dir.
Proof.
  induction fuel as [|f IH]; intros dir; cbn [nearest_pkg package_scope].
  - destruct (pkg_of fs dir), (str_eqb (base_name dir) node_modules_s); try reflexivity; destruct dir; reflexivity.
  - destruct (pkg_of fs dir), (str_eqb (base_name dir) node_modules_s); try reflexivity.
    destruct dir; [reflexivity|]. apply IH.
Qed.

(* ---- join with a plain specifier is concatenation ---- *)
Lemma walk_segs_ordinary segs : forall stack,
  forallb ordinary_seg segs = true -> walk_segs stack segs = rev stack ++ segs.
Proof.
  induction segs as [|g r IH]; intros stack H; cbn [walk_segs forallb] in *.
  - rewrite app_nil_r. reflexivity.
  - apply andb_true_iff in H as [Hg Hr]. unfold ordinary_seg in Hg.
    apply andb_true_iff in Hg as [H1 H2]. apply negb_true_iff in H1. apply negb_true_iff in H2.
    rewrite H1, H2. rewrite IH by assumption. cbn [rev]. rewrite <- app_assoc. reflexivity.
Qed.

Lemma join_rel_plain d x : plain_spec x = true -> join_rel d x = d ++ spec_segs x.
Proof.
  intros H. unfold join_rel. rewrite walk_segs_ordinary by exact H. rewrite rev_involutive. reflexivity.
Qed.

Lemma spec_segs_nonempty x : spec_segs x <> [].
Proof. apply split_on_nonempty. Qed.

Section Walk.
  Variable builtin : str -> bool.
  Variable fs : fsmap.
  Hypothesis Hwf : wf_fs fs.
  Hypothesis Hts : no_ts_rewrite fs.

  (* nothing exists below a directory that does not exist *)
  Lemma under_nodir d : isdir fs d = false -> forall rest, rest <> [] -> lookup fs (d ++ rest) = None.
  Proof.
    intros Hd rest. induction rest as [|x r IH] using rev_ind; [congruence|]. intros _.
    destruct (lookup fs (d ++ r ++ [x])) as [e|] eqn:E; [|reflexivity]. exfalso.
    rewrite app_assoc in E. pose proof (Hwf _ _ _ E) as Hdir.
    destruct r as [|y r'].
    - rewrite app_nil_r in Hdir. congruence.
    - assert (Hne : y :: r' <> []) by discriminate. specialize (IH Hne).
      unfold isdir in Hdir. destruct (d ++ y :: r') eqn:Ep; [destruct d; discriminate|].
      rewrite IH in Hdir. discriminate.
  Qed.

  Lemma add_ext_app d rest e : rest <> [] -> add_ext (d ++ rest) e = d ++ add_ext rest e.
  Proof.
    intros H. unfold add_ext. rewrite rev_app_distr.
    destruct (rev rest) as [|l r] eqn:Er.
    - exfalso. apply H. rewrite <- (rev_involutive rest), Er. reflexivity.
    - cbn [app]. rewrite rev_app_distr, rev_involutive, <- app_assoc. reflexivity.
  Qed.

  Lemma add_ext_nonempty rest e : add_ext rest e <> [].
  Proof.
    unfold add_ext. destruct (rev rest) as [|l r]; [discriminate|].
    intro E. apply app_eq_nil in E as [_ E]. discriminate.
  Qed.

  Lemma nothing_below d :
    (forall rest, rest <> [] -> lookup fs (d ++ rest) = None) ->
    forall rest, rest <> [] ->
      pkg_of fs (d ++ rest) = None /\ LOAD_AS_FILE fs (d ++ rest) = None /\ LOAD_AS_DIRECTORY fs (d ++ rest) = None.
  Proof.
    intros H rest Hr.
    assert (Hf : forall r, r <> [] -> isfile fs (d ++ r) = false).
    { intros r Hr'. unfold isfile. rewrite (H r Hr'). reflexivity. }
    assert (Hpk : pkg_of fs (d ++ rest) = None). { unfold pkg_of. rewrite (H rest Hr). reflexivity. }
    split; [exact Hpk|]. split.
    - unfold LOAD_AS_FILE. rewrite (Hf rest Hr).
      rewrite !(add_ext_app d rest _ Hr). rewrite !Hf by apply add_ext_nonempty. reflexivity.
    - unfold LOAD_AS_DIRECTORY. rewrite Hpk. unfold LOAD_INDEX.
      rewrite <- !app_assoc. rewrite !Hf; [reflexivity| | |]; intro E; apply app_eq_nil in E as [_ E]; discriminate.
  Qed.

  Variable k_user : list str.
  Variable x : str.
  Hypothesis Hbare : bare_ok x = true.
  Hypothesis Hpk : pkgs_ok fs x.

  Let conds_n := cjs_conds k_user.

  Lemma bare_facts :
    exists name, package_name_spec x = Some (name, subpath_of x) /\ name <> [] /\
                 plain_spec x = true /\ plain_spec name = true.
  Proof.
    unfold bare_ok in Hbare. unfold subpath_of.
    destruct (package_name_spec x) as [[n s]|]; [|discriminate].
    apply andb_true_iff in Hbare as [H H3]. apply andb_true_iff in H as [H1 H2].
    exists n. repeat split; auto. intro E. subst. discriminate.
  Qed.

  Lemma exports_of_ok d pk : pkg_of fs d = Some pk -> exports_of pk = pk_exports pk.
  Proof.
    intros Hd. unfold exports_of. destruct (pk_exports pk) as [ex|] eqn:E; [|reflexivity].
    destruct (Hpk d pk ex Hd E) as [Hn _]. rewrite (parse_root_some ex Hn). reflexivity.
  Qed.

  (* one node_modules directory: tryToResolvePackage vs LOAD_PACKAGE_EXPORTS / LOAD_AS_FILE / LOAD_AS_DIRECTORY *)
  Lemma try_package_agree DIR :
    let m := try_package fs KRequire k_user DIR x in
    match (match LOAD_PACKAGE_EXPORTS fs conds_n x DIR with
           | Some r => Some r
           | None => match LOAD_AS_FILE fs (join_rel DIR x) with
                     | Some f => Some (NFile f)
                     | None => match LOAD_AS_DIRECTORY fs (join_rel DIR x) with
                               | Some f => Some (NFile f)
                               | None => None
                               end
                     end
           end) with
    | Some n => snd m = true /\ agree (of_opt (fst m)) n
    | None => snd m = false
    end.
  Proof.
    destruct bare_facts as (name & Hn & Hne & Hpx & Hpn).
    unfold try_package, name_and_subpath, LOAD_PACKAGE_EXPORTS.
    rewrite parse_package_name_eq_all, Hn. cbn [andb].
    destruct (pkg_of fs (join_rel DIR name)) as [pk|] eqn:Epk.
    - rewrite (pkg_of_isdir fs _ _ Epk). rewrite (exports_of_ok _ _ Epk).
      destruct (pk_exports pk) as [ex|] eqn:Eex.
      + destruct (Hpk _ _ _ Epk Eex) as [Hnn Hsc]. cbn [fst snd]. split; [reflexivity|].
        apply esm_resolve_agree; auto. apply conds_require_equiv.
      + rewrite (load_as_file_or_directory_eq fs Hwf Hts). unfold LOAD_FILE_OR_DIR.
        destruct (LOAD_AS_FILE fs (join_rel DIR x)); [split; reflexivity|].
        destruct (LOAD_AS_DIRECTORY fs (join_rel DIR x)); [split; reflexivity|reflexivity].
    - assert (Hv : (if isdir fs (join_rel DIR name)
                    then (None : option (option path))
                    else None) = None) by (destruct (isdir fs (join_rel DIR name)); reflexivity).
      rewrite Hv. rewrite (load_as_file_or_directory_eq fs Hwf Hts). unfold LOAD_FILE_OR_DIR.
      destruct (LOAD_AS_FILE fs (join_rel DIR x)); [split; reflexivity|].
      destruct (LOAD_AS_DIRECTORY fs (join_rel DIR x)); [split; reflexivity|reflexivity].
  Qed.

  (* the walk over the enclosing directories *)
  Lemma nm_walk_agree : forall fuel dir,
    agree (of_opt (nm_walk fs KRequire k_user fuel dir x)) (LOAD_NODE_MODULES fs conds_n fuel x dir).
  Proof.
    destruct bare_facts as (name & Hn & Hne & Hpx & Hpn).
    induction fuel as [|f IH]; intros dir; cbn [nm_walk LOAD_NODE_MODULES].
    all: destruct (str_eqb (base_name dir) node_modules_s) eqn:Enm; cbn [negb andb fst snd].
    all: try (destruct dir; [reflexivity| first [apply IH | reflexivity]]).
    all: destruct (isdir fs (dir ++ [node_modules_s])) eqn:Ed.
    all: try (pose proof (try_package_agree (dir ++ [node_modules_s])) as Ht; cbv zeta in Ht;
              match type of Ht with
              | match ?s with Some _ => _ | None => _ end =>
                  destruct s as [n|]; [destruct Ht as [Hs Ha]; rewrite Hs; exact Ha| rewrite Ht]
              end;
              destruct dir; [reflexivity| first [apply IH | reflexivity]]).
    (* the node_modules directory does not exist: nothing below it exists *)
    all: pose proof (under_nodir _ Ed) as Hnone;
         pose proof (nothing_below _ Hnone) as Hb;
         unfold LOAD_PACKAGE_EXPORTS; rewrite Hn;
         rewrite (join_rel_plain _ name Hpn), (join_rel_plain _ x Hpx);
         destruct (Hb (spec_segs name) (spec_segs_nonempty name)) as [Hp1 _];
         destruct (Hb (spec_segs x) (spec_segs_nonempty x)) as [_ [Hp2 Hp3]];
         rewrite Hp1, Hp2, Hp3; cbn [fst snd];
         destruct dir; [reflexivity| first [apply IH | reflexivity]].
  Qed.
End Walk.

Section Top.
  Variable builtin : str -> bool.
  Variable fs : fsmap.
  Hypothesis Hwf : wf_fs fs.
  Hypothesis Hts : no_ts_rewrite fs.

  Lemma package_scope_base : forall fuel dir pdir pk,
    package_scope fs fuel dir = Some (pdir, pk) ->
    str_eqb (base_name pdir) node_modules_s = false /\ pkg_of fs pdir = Some pk.
  Proof.
    induction fuel as [|f IH]; intros dir pdir pk; cbn [package_scope].
    - destruct (str_eqb (base_name dir) node_modules_s) eqn:Eb; [discriminate|].
      destruct (pkg_of fs dir) eqn:E; [intros H; injection H as <- <-; auto|]. destruct dir; discriminate.
    - destruct (str_eqb (base_name dir) node_modules_s) eqn:Eb; [discriminate|].
      destruct (pkg_of fs dir) eqn:E; [intros H; injection H as <- <-; auto|].
      destruct dir; [discriminate|]. apply IH.
  Qed.

  (* loadNodeModules (forbidImports) vs LOAD_PACKAGE_SELF + LOAD_NODE_MODULES *)
  Lemma noimports_agree user x dir :
    bare_ok x = true -> pkgs_ok fs x ->
    agree (of_opt (load_node_modules_noimports fs KRequire user dir x))
          (cjs_package fs (cjs_conds user) x dir).
  Proof.
    intros Hbare Hpk.
    destruct (bare_facts x Hbare) as (name & Hn & Hne & Hpx & Hpn).
    pose proof (nm_walk_agree fs Hwf Hts user x Hbare Hpk (length dir) dir) as Hwalk.
    unfold load_node_modules_noimports, cjs_package, LOAD_PACKAGE_SELF, name_and_subpath.
    rewrite parse_package_name_eq_all, Hn. rewrite (nearest_is_scope fs).
    destruct (package_scope fs (length dir) dir) as [[pdir pk]|] eqn:Esc; [|exact Hwalk].
    destruct (package_scope_base _ _ _ _ Esc) as [_ Hpd].
    rewrite (exports_of_ok fs x Hpk _ _ Hpd).
    destruct (pk_exports pk) as [ex|] eqn:Eex; [|exact Hwalk].
    destruct (Hpk _ _ _ Hpd Eex) as [Hnn Hsc].
    destruct (pk_name pk) as [n|].
    - destruct (str_eqb n name); [|exact Hwalk].
      apply esm_resolve_agree; auto. apply conds_require_equiv.
    - assert (Hf : str_eqb [] name = false).
      { destruct name; [contradiction|reflexivity]. }
      rewrite Hf. exact Hwalk.
  Qed.

  (* every package.json: "imports" is in the scope of the core theorem for x *)
  Definition pkgs_imports_ok (x : str) : Prop :=
    forall d pk im, pkg_of fs d = Some pk -> pk_imports pk = Some im ->
      im <> JNull /\ in_scope_imports im x = true.
  (* a bare target of an imports map is itself a specifier in scope, and not a
     builtin name: for require Node fails on "#x" -> "fs" (fileURLToPath of the
     node: URL throws) while esbuild answers the builtin; that is no resolution
     and no rejection by the map, so the property is silent there *)
  Definition remap_ok (user : list str) (x : str) : Prop :=
    forall d pk im s, pkg_of fs d = Some pk -> pk_imports pk = Some im ->
      node_imports_resolve x im (cjs_conds user) = OPackageResolve s ->
      builtin s = false /\ bare_ok s = true /\ pkgs_ok fs s.

  Lemma imports_of_ok x d pk : pkgs_imports_ok x -> pkg_of fs d = Some pk -> imports_of pk = pk_imports pk.
  Proof.
    intros Hi Hd. unfold imports_of. destruct (pk_imports pk) as [im|] eqn:E; [|reflexivity].
    destruct (Hi d pk im Hd E) as [Hn _]. rewrite (parse_root_imports_some im Hn). reflexivity.
  Qed.

  (* loadPackageImports vs LOAD_PACKAGE_IMPORTS *)
  Lemma package_imports_agree user x pdir pk im :
    pkgs_imports_ok x -> remap_ok user x ->
    str_eqb (base_name pdir) node_modules_s = false -> pkg_of fs pdir = Some pk -> pk_imports pk = Some im ->
    agree (load_package_imports builtin fs KRequire user x pdir im)
          (RESOLVE_ESM_MATCH fs pdir (node_imports_resolve x im (cjs_conds user))
             (fun s => if builtin s then NNotFound else cjs_package fs (cjs_conds user) s pdir)).
  Proof.
    intros Hi Hr Hb Hpd Him. destruct (Hi _ _ _ Hpd Him) as [Hnn Hsc].
    unfold load_package_imports.
    assert (Hh : str_eqb x [ch_hash] = false).
    { unfold in_scope_imports in Hsc. apply andb_true_iff in Hsc as [Hsc _].
      apply andb_true_iff in Hsc as [_ Hs].
      apply negb_true_iff in Hs. unfold shape_hash_slash in Hs. apply orb_false_iff in Hs as [Hs _]. exact Hs. }
    rewrite Hh, (parse_root_imports_some im Hnn).
    pose proof (imports_resolve_eq_partial_all im x (conds_of KRequire user) Hsc) as Heq.
    pose proof (imports_resolve_no_inexact im x (conds_of KRequire user) Hsc) as Hni.
    rewrite (node_imports_resolve_ext _ _ im x (conds_require_equiv user)) in Heq.
    pose proof (fun s => Hr _ _ _ s Hpd Him) as Hrm.
    destruct (imports_resolve x (parse im) (conds_of KRequire user)) as [res st].
    destruct (node_imports_resolve x im (cjs_conds user)) as [u|s|e|]; cbn [coarse] in *.
    - assert (Hst : res = u /\ (st = SExact \/ st = SExactEndsWithStar)).
      { unfold outcome_of_model in Heq. cbn [fst snd] in *.
        destruct st; try discriminate; injection Heq as ->; auto. contradiction. }
      destruct Hst as [-> Hst].
      assert (Hm : snd (handle_post_conditions (u, st)) <> SPackageResolve).
      { unfold handle_post_conditions. cbn [fst snd].
        destruct Hst as [-> | ->]; destruct (path_unescape u); cbn [snd];
          repeat match goal with |- snd (if ?c then _ else _) <> _ => destruct c end; cbn [snd]; discriminate. }
      pose proof (resolved_agree fs pdir u st
                    (fun s => if builtin s then NNotFound else cjs_package fs (cjs_conds user) s pdir) Hts Hst) as Hra.
      destruct (handle_post_conditions (u, st)) as [r2 s2]. cbn [snd fst] in *.
      destruct s2; try exact Hra. contradiction.
    - (* remapped to another package specifier *)
      assert (Hst : res = s /\ st = SPackageResolve).
      { unfold outcome_of_model in Heq. cbn [fst snd] in *.
        destruct st; try discriminate; injection Heq as ->; auto. }
      destruct Hst as [-> ->]. cbn [RESOLVE_ESM_MATCH].
      change (handle_post_conditions (s, SPackageResolve)) with (s, SPackageResolve). cbn [fst snd].
      destruct (Hrm s eq_refl) as (Ebs & Hbs & Hps). rewrite Ebs.
      apply noimports_agree; auto.
    - unfold outcome_of_model in Heq. cbn [fst snd] in Heq. cbn [RESOLVE_ESM_MATCH].
      destruct st; try discriminate; reflexivity.
    - exact I.
  Qed.

  (* ---- main statements (require) ---- *)
  Lemma package_resolve_bare_all user dir x :
    is_package_path x = true -> prefixb [ch_hash] x = false ->
    bare_ok x = true -> pkgs_ok fs x ->
    agree (resolve builtin fs KRequire user dir x) (require_resolve builtin fs user dir x).
  Proof.
    intros Hpp Hh Hbare Hpk. unfold resolve, require_resolve. rewrite Hpp.
    destruct (builtin x); [reflexivity|].
    unfold is_package_path in Hpp.
    destruct (prefixb (s_ "/") x); [discriminate|].
    destruct (prefixb (s_ "./") x); [discriminate|]. destruct (prefixb (s_ "../") x); [discriminate|].
    destruct (str_eqb x (s_ ".")); [discriminate|]. destruct (str_eqb x (s_ "..")); [discriminate|].
    cbn [negb orb]. change (s_ "#") with [ch_hash]. rewrite Hh.
    unfold load_node_modules. rewrite Hh. apply noimports_agree; assumption.
  Qed.

  Lemma package_resolve_imports_all user dir x :
    is_package_path x = true -> prefixb [ch_hash] x = true ->
    pkgs_imports_ok x -> remap_ok user x ->
    bare_ok x = true -> pkgs_ok fs x ->      (* only used when the scope has no "imports" *)
    agree (resolve builtin fs KRequire user dir x) (require_resolve builtin fs user dir x).
  Proof.
    intros Hpp Hh Hi Hr Hbare Hpk. unfold resolve, require_resolve. rewrite Hpp.
    destruct (builtin x); [reflexivity|].
    unfold is_package_path in Hpp.
    destruct (prefixb (s_ "/") x); [discriminate|].
    destruct (prefixb (s_ "./") x); [discriminate|]. destruct (prefixb (s_ "../") x); [discriminate|].
    destruct (str_eqb x (s_ ".")); [discriminate|]. destruct (str_eqb x (s_ "..")); [discriminate|].
    cbn [negb orb]. change (s_ "#") with [ch_hash]. rewrite Hh.
    unfold load_node_modules, LOAD_PACKAGE_IMPORTS. rewrite Hh.
    rewrite (nearest_is_scope fs).
    destruct (package_scope fs (length dir) dir) as [[pdir pk]|] eqn:Esc.
    - destruct (package_scope_base _ _ _ _ Esc) as [Hb Hpd].
      rewrite (imports_of_ok x _ _ Hi Hpd).
      destruct (pk_imports pk) as [im|] eqn:Eim.
      + apply (package_imports_agree user x pdir pk im); assumption.
      + apply noimports_agree; assumption.
    - apply noimports_agree; assumption.
  Qed.
End Top.

(* ---- D13 was repaired in /repo (d8f247a): a specifier that has no valid package
   name is never a self reference.  The former witness agrees, and such
   specifiers are covered by a theorem of their own ---- *)
Definition w_nameless_fs : fsmap :=
  [ (pw_ [], EDir (Some (mkPkg None None (Some (JObj [(s_ ".", JStr (s_ "./own.js"))])) None)));
    (pw_ ["own.js"], EFile);
    (pw_ ["node_modules"], EDir None);
    (pw_ ["node_modules"; "@foo"], EDir None);
    (pw_ ["node_modules"; "@foo"; "index.js"], EFile) ].

Lemma fixed_nameless_self_reference :
  wf_fsb w_nameless_fs = true /\ no_tsb w_nameless_fs = true /\ no_case_collision w_nameless_fs = true
  /\ package_name_spec (s_ "@foo") = None /\ plain_spec (s_ "@foo") = true
  /\ resolve (fun _ => false) w_nameless_fs KRequire [] [] (s_ "@foo") = RFile (pw_ ["node_modules"; "@foo"; "index.js"])
  /\ require_resolve (fun _ => false) w_nameless_fs [] [] (s_ "@foo") = NFile (pw_ ["node_modules"; "@foo"; "index.js"]).
Proof. repeat split; vm_compute; reflexivity. Qed.

Section InvalidName.
  Variable builtin : str -> bool.
  Variable fs : fsmap.
  Hypothesis Hwf : wf_fs fs.
  Hypothesis Hts : no_ts_rewrite fs.
  Variable user : list str.
  Variable x : str.
  Hypothesis Hnone : package_name_spec x = None.
  Hypothesis Hplain : plain_spec x = true.

  Lemma nm_walk_invalid : forall fuel dir,
    agree (of_opt (nm_walk fs KRequire user fuel dir x)) (LOAD_NODE_MODULES fs (cjs_conds user) fuel x dir).
  Proof.
    assert (Htp : forall DIR, try_package fs KRequire user DIR x
                  = match load_as_file_or_directory fs (join_rel DIR x) with
                    | Some p => (Some p, true) | None => (None, false) end).
    { intros DIR. unfold try_package, name_and_subpath. rewrite parse_package_name_eq_all, Hnone. reflexivity. }
    induction fuel as [|f IH]; intros dir; cbn [nm_walk LOAD_NODE_MODULES].
    all: unfold LOAD_PACKAGE_EXPORTS; rewrite Hnone.
    all: destruct (str_eqb (base_name dir) node_modules_s) eqn:Enm; cbn [negb andb fst snd].
    all: try (destruct dir; [reflexivity| first [apply IH | reflexivity]]).
    all: destruct (isdir fs (dir ++ [node_modules_s])) eqn:Ed.
    all: try (rewrite Htp, (load_as_file_or_directory_eq fs Hwf Hts); unfold LOAD_FILE_OR_DIR;
              destruct (LOAD_AS_FILE fs (join_rel (dir ++ [node_modules_s]) x)); [reflexivity|];
              destruct (LOAD_AS_DIRECTORY fs (join_rel (dir ++ [node_modules_s]) x)); [reflexivity|];
              cbn [fst snd]; destruct dir; [reflexivity| first [apply IH | reflexivity]]).
    all: rewrite (join_rel_plain _ x Hplain);
         destruct (nothing_below fs _ (under_nodir fs Hwf _ Ed) (spec_segs x) (spec_segs_nonempty x)) as (_ & H1 & H2);
         rewrite H1, H2; cbn [fst snd];
         destruct dir; [reflexivity| first [apply IH | reflexivity]].
  Qed.

  Lemma package_resolve_invalid_name_all dir :
    is_package_path x = true -> prefixb [ch_hash] x = false ->
    agree (resolve builtin fs KRequire user dir x) (require_resolve builtin fs user dir x).
  Proof.
    intros Hpp Hh. unfold resolve, require_resolve. rewrite Hpp.
    destruct (builtin x); [reflexivity|].
    unfold is_package_path in Hpp.
    destruct (prefixb (s_ "/") x); [discriminate|].
    destruct (prefixb (s_ "./") x); [discriminate|]. destruct (prefixb (s_ "../") x); [discriminate|].
    destruct (str_eqb x (s_ ".")); [discriminate|]. destruct (str_eqb x (s_ "..")); [discriminate|].
    cbn [negb orb]. change (s_ "#") with [ch_hash]. rewrite Hh.
    unfold load_node_modules. rewrite Hh.
    unfold load_node_modules_noimports, cjs_package, LOAD_PACKAGE_SELF, name_and_subpath.
    rewrite parse_package_name_eq_all, Hnone. rewrite (nearest_is_scope fs).
    assert (Hself : (match package_scope fs (length dir) dir with
                     | Some (pdir, pk) =>
                         match exports_of pk with
                         | Some ex =>
                             if false && str_eqb (match pk_name pk with Some n => n | None => [] end) []
                             then Some (esm_resolve fs KRequire user pdir [] ex) else None
                         | None => None
                         end
                     | None => None
                     end) = None).
    { destruct (package_scope fs (length dir) dir) as [[pdir pk]|]; [|reflexivity].
      destruct (exports_of pk); reflexivity. }
    rewrite Hself.
    assert (Hspec : (match package_scope fs (length dir) dir with
                     | Some (scope, pk) =>
                         match pk_exports pk, pk_name pk, (None : option (str * str)) with
                         | Some ex, Some n, Some (name, subpath) =>
                             if str_eqb n name
                             then Some (RESOLVE_ESM_MATCH fs scope (node_exports_resolve ex subpath (cjs_conds user)) (fun _ => NOut))
                             else None
                         | _, _, _ => None
                         end
                     | None => None
                     end) = None).
    { destruct (package_scope fs (length dir) dir) as [[scope pk]|]; [|reflexivity].
      destruct (pk_exports pk), (pk_name pk); reflexivity. }
    rewrite Hspec. apply nm_walk_invalid.
  Qed.
End InvalidName.

(* ---- ES-module entry, relative and absolute specifiers: Node does no
   extension search and no directory index; whenever it resolves, esbuild's
   loadAsFile finds the same file first ---- *)
Definition agree_import (m : rres) (n : nres) : Prop :=
  match n with
  | NFile p => m = RFile p
  | NBuiltin s => m = RBuiltin s
  | NRejected _ => m = RFail
  | NNotFound | NOut => True      (* esbuild may resolve more than Node's import does *)
  end.

Lemma load_as_file_exact fs p : isfile fs p = true -> load_as_file fs p = Some p.
Proof. intros H. unfold load_as_file, try_file. rewrite H. reflexivity. Qed.

Lemma import_relative_all builtin fs user dir x :
  builtin x = false -> is_package_path x = false ->
  agree_import (resolve builtin fs KImport user dir x) (import_resolve builtin fs user dir x).
Proof.
  intros Hb Hpp. unfold resolve, import_resolve. rewrite Hb, Hpp. cbn [negb].
  destruct (prefixb (s_ "/") x) eqn:E1.
  - unfold esm_file_check. destruct (isfile fs (abs_path x)) eqn:Ef; [|exact I].
    unfold load_as_file_or_directory. rewrite (load_as_file_exact _ _ Ef). reflexivity.
  - unfold is_package_path in Hpp. rewrite E1 in Hpp. cbn [negb andb] in Hpp.
    assert (Hc : prefixb (s_ "./") x || prefixb (s_ "../") x || str_eqb x (s_ ".") || str_eqb x (s_ "..") = true).
    { destruct (prefixb (s_ "./") x), (prefixb (s_ "../") x), (str_eqb x (s_ ".")), (str_eqb x (s_ ".."));
        try reflexivity; discriminate Hpp. }
    rewrite Hc. unfold has_trailing_slash.
    destruct (suffixb (s_ "/") x || suffixb (s_ "/.") x || suffixb (s_ "/..") x || str_eqb x (s_ ".") || str_eqb x (s_ "..")) eqn:Et;
      [exact I|].
    assert (Hts : str_eqb x (s_ ".") || str_eqb x (s_ "..") || suffixb (s_ "/") x || suffixb (s_ "/.") x || suffixb (s_ "/..") x = false).
    { destruct (suffixb (s_ "/") x), (suffixb (s_ "/.") x), (suffixb (s_ "/..") x), (str_eqb x (s_ ".")), (str_eqb x (s_ ".."));
        try reflexivity; discriminate Et. }
    rewrite Hts. unfold esm_file_check. destruct (isfile fs (join_rel dir x)) eqn:Ef; [|exact I].
    unfold load_as_file_or_directory. rewrite (load_as_file_exact _ _ Ef). reflexivity.
Qed.

(* ---- D14: for import, a file node_modules/dep.js shadows the package directory in esbuild ---- *)
Definition w_shadow_fs : fsmap :=
  [ (pw_ [], EDir None); (pw_ ["node_modules"], EDir None);
    (pw_ ["node_modules"; "dep.js"], EFile);
    (pw_ ["node_modules"; "dep"], EDir (Some (mkPkg (Some (s_ "dep")) (Some (s_ "./main.js")) None None)));
    (pw_ ["node_modules"; "dep"; "main.js"], EFile) ].
Lemma refuted_import_file_shadows_package :
  wf_fsb w_shadow_fs = true /\ no_tsb w_shadow_fs = true /\ no_case_collision w_shadow_fs = true
  /\ bare_ok (s_ "dep") = true
  /\ resolve (fun _ => false) w_shadow_fs KImport [] [] (s_ "dep") = RFile (pw_ ["node_modules"; "dep.js"])
  /\ import_resolve (fun _ => false) w_shadow_fs [] [] (s_ "dep") = NFile (pw_ ["node_modules"; "dep"; "main.js"])
  /\ require_resolve (fun _ => false) w_shadow_fs [] [] (s_ "dep") = NFile (pw_ ["node_modules"; "dep.js"]).
Proof. repeat split; vm_compute; reflexivity. Qed.
