(* C11, second layer, ES-module entry: loadNodeModules (import kind) against
   PACKAGE_RESOLVE / PACKAGE_SELF_RESOLVE / PACKAGE_IMPORTS_RESOLVE. *)
From V Require Import Common.Base C11.Str C11.EsbuildResolve C11.NodeSpec C11.SortLemmas C11.Scope
     C11.ResolveProofs C11.Walk C11.NodeWalkSpec C11.WalkProofs C11.CondsExt C11.WalkCore C11.WalkMain.
Local Open Scope string_scope.
Local Open Scope Z_scope.

Lemma agree_weaken m n : agree m n -> agree_import m n.
Proof. destruct n; cbn; auto. Qed.

(* ---- the specifier is its package name followed by the subpath ---- *)
Lemma take_until_split c s :
  s = take_until c s ++ match drop_until c s with Some r => c :: r | None => [] end.
Proof.
  induction s as [|x r IH]; [reflexivity|]. cbn [take_until drop_until].
  destruct (x =? c) eqn:E.
  - apply Z.eqb_eq in E. subst. reflexivity.
  - cbn [app]. f_equal. exact IH.
Qed.

Lemma skipn_app_exact {A} (a b : list A) : skipn (length a) (a ++ b) = b.
Proof. induction a; [reflexivity|]. cbn. exact IHa. Qed.

(* package_name_spec x = Some (name, sub): x = name ++ rest, sub = "." ++ rest, rest = "" or "/..." *)
Lemma name_split x name sub :
  package_name_spec x = Some (name, sub) ->
  exists rest, x = name ++ rest /\ sub = ch_dot :: rest /\ (rest = [] \/ exists r, rest = ch_slash :: r).
Proof.
  unfold package_name_spec. destruct x as [|c0 x']; [discriminate|]. set (x := c0 :: x').
  assert (Hfin : forall n rest, x = n ++ rest -> (rest = [] \/ exists r, rest = ch_slash :: r) ->
            (if prefixb (s_ ".") n || has_byte ch_bslash n || has_byte ch_pct n then None
             else Some (n, s_ "." ++ skipn (length n) x)) = Some (name, sub) ->
            exists rest, x = name ++ rest /\ sub = ch_dot :: rest /\ (rest = [] \/ exists r, rest = ch_slash :: r)).
  { intros n rest Hx Hr H. destruct (prefixb (s_ ".") n || has_byte ch_bslash n || has_byte ch_pct n); [discriminate|].
    injection H as <- <-. exists rest. split; [exact Hx|]. split; [|exact Hr].
    rewrite Hx at 1. rewrite skipn_app_exact. reflexivity. }
  destruct (negb (c0 =? ch_at)).
  - apply (Hfin (take_until ch_slash x) (match drop_until ch_slash x with Some r => ch_slash :: r | None => [] end)).
    + apply take_until_split.
    + destruct (drop_until ch_slash x); [right; eexists; reflexivity|left; reflexivity].
  - destruct (drop_until ch_slash x) as [rest1|] eqn:Ed; [|discriminate].
    apply (Hfin (take_until ch_slash x ++ ch_slash :: take_until ch_slash rest1)
                (match drop_until ch_slash rest1 with Some r => ch_slash :: r | None => [] end)).
    + rewrite <- app_assoc. cbn [app]. rewrite <- (take_until_split ch_slash rest1).
      pose proof (take_until_split ch_slash x) as H. rewrite Ed in H. exact H.
    + destruct (drop_until ch_slash rest1); [right; eexists; reflexivity|left; reflexivity].
Qed.

Lemma split_on_app_sep f a c r :
  f c = true -> split_on f (a ++ c :: r) = split_on f a ++ split_on f r.
Proof.
  intros Hc. induction a as [|x a IH].
  - cbn [app split_on]. rewrite Hc. reflexivity.
  - cbn [app split_on]. destruct (f x).
    + rewrite IH. reflexivity.
    + rewrite IH. destruct (split_on f a) as [|seg segs] eqn:E; [exfalso; eapply split_on_nonempty; eauto|].
      reflexivity.
Qed.

Section Import.
  Variable builtin : str -> bool.
  Variable fs : fsmap.
  Hypothesis Hwf : wf_fs fs.
  Hypothesis Hts : no_ts_rewrite fs.
  (* no node_modules directory directly inside a node_modules directory: Node's
     ESM walk looks there, esbuild (and Node's CommonJS loader) skip it *)
  Definition no_nested_nm : Prop :=
    forall d, str_eqb (base_name d) node_modules_s = true -> isdir fs (d ++ [node_modules_s]) = false.
  Hypothesis Hnn : no_nested_nm.

  Variable user : list str.
  Variable x : str.
  Hypothesis Hbare : bare_ok x = true.
  Hypothesis Hpk : pkgs_ok fs x.
  (* D14: no file node_modules/<name>(.js|.json|.node) next to or instead of the package directory *)
  Definition no_module_file : Prop :=
    forall d, LOAD_AS_FILE fs (d ++ node_modules_s :: spec_segs (name_of x)) = None.
  Hypothesis Hnf : no_module_file.

  Let conds_n := esm_conds user.

  Lemma isdir_prefix d rest : isdir fs (d ++ rest) = true -> isdir fs d = true.
  Proof.
    intros H. destruct rest as [|r0 rest']; [rewrite app_nil_r in H; exact H|].
    destruct (isdir fs d) eqn:E; [reflexivity|]. exfalso.
    assert (Hne : r0 :: rest' <> []) by discriminate.
    pose proof (under_nodir fs Hwf d E (r0 :: rest') Hne) as Hl.
    unfold isdir in H. destruct (d ++ r0 :: rest') eqn:Ep; [destruct d; discriminate|].
    rewrite Hl in H. discriminate.
  Qed.

  Lemma legacy_main_eq d :
    legacy_main fs d (pkg_of fs d) = match LOAD_AS_DIRECTORY fs d with Some f => NFile f | None => NNotFound end.
  Proof.
    unfold legacy_main, LOAD_AS_DIRECTORY. destruct (pkg_of fs d) as [pk|]; [|reflexivity].
    destruct (pk_main pk) as [m|]; [|reflexivity].
    destruct (LOAD_AS_FILE fs (join_rel d m)); [reflexivity|].
    destruct (LOAD_INDEX fs (join_rel d m)); reflexivity.
  Qed.

  Lemma pkg_of_nodir d : d <> [] -> isdir fs d = false -> pkg_of fs d = None.
  Proof.
    intros Hd H. unfold isdir in H. unfold pkg_of. destruct d; [contradiction|].
    destruct (lookup fs (s :: d)) as [[|pk]|]; try reflexivity. discriminate.
  Qed.

  (* one node_modules directory DIR = dir/node_modules that exists *)
  Lemma try_package_import dir :
    let DIR := dir ++ [node_modules_s] in
    let pkgdir := DIR ++ spec_segs (name_of x) in
    let m := try_package fs KImport user DIR x in
    (isdir fs pkgdir = false -> snd m = false)
    /\ (isdir fs pkgdir = true ->
        match (match (match pkg_of fs pkgdir with
                      | Some pk => match pk_exports pk with
                                   | Some ex => Some (RESOLVE_ESM_MATCH fs pkgdir
                                                        (node_exports_resolve ex (subpath_of x) conds_n) (fun _ => NOut))
                                   | None => None
                                   end
                      | None => None
                      end) with
               | Some r0 => r0
               | None => if str_eqb (subpath_of x) (s_ ".") then legacy_main fs pkgdir (pkg_of fs pkgdir)
                         else esm_file_check fs (join_rel pkgdir (subpath_of x))
               end) with
        | NNotFound | NOut => True
        | r => snd m = true /\ agree_import (of_opt (fst m)) r
        end).
  Proof.
    intros DIR pkgdir m.
    destruct (bare_facts x Hbare) as (name & Hn & Hne & Hpx & Hpn).
    assert (Hname : name_of x = name) by (unfold name_of; rewrite Hn; reflexivity).
    destruct (name_split _ _ _ Hn) as (rest & Hx & Hsub & Hrest).
    unfold pkgdir in *. rewrite Hname in *. clear pkgdir. set (pkgdir := DIR ++ spec_segs name).
    assert (Hjn : join_rel DIR name = pkgdir) by (apply join_rel_plain; exact Hpn).
    assert (Hjx : join_rel DIR x = DIR ++ spec_segs x) by (apply join_rel_plain; exact Hpx).
    assert (Hpne : pkgdir <> []).
    { unfold pkgdir, DIR. intro E. apply app_eq_nil in E as [E _]. apply app_eq_nil in E as [_ E]. discriminate. }
    assert (Hnf' : LOAD_AS_FILE fs pkgdir = None).
    { pose proof (Hnf dir) as H. rewrite Hname in H. unfold pkgdir, DIR. rewrite <- app_assoc. exact H. }
    assert (Hsegs : (spec_segs x = spec_segs name /\ str_eqb (subpath_of x) (s_ ".") = true)
                    \/ (exists r0, spec_segs x = spec_segs name ++ spec_segs r0
                                    /\ str_eqb (subpath_of x) (s_ ".") = false
                                    /\ join_rel pkgdir (subpath_of x) = pkgdir ++ spec_segs r0)).
    { destruct Hrest as [-> | [r0 ->]].
      - left. rewrite app_nil_r in Hx. rewrite Hsub. split; [rewrite Hx at 1; reflexivity|reflexivity].
      - right. exists r0.
        assert (Hs : spec_segs x = spec_segs name ++ spec_segs r0).
        { unfold spec_segs. rewrite Hx at 1. apply split_on_app_sep. reflexivity. }
        split; [exact Hs|]. split; [rewrite Hsub; reflexivity|].
        rewrite Hsub. unfold join_rel.
        change (split_on (Z.eqb ch_slash) (ch_dot :: ch_slash :: r0)) with ([ch_dot] :: split_on (Z.eqb ch_slash) r0).
        cbn [walk_segs]. change (str_eqb [ch_dot] [] || str_eqb [ch_dot] [ch_dot]) with true. cbv iota.
        rewrite walk_segs_ordinary, rev_involutive; [reflexivity|].
        unfold plain_spec in Hpx. fold (spec_segs x) in Hpx. rewrite Hs, forallb_app in Hpx.
        apply andb_true_iff in Hpx as [_ H]. exact H. }
    unfold m, try_package, name_and_subpath. rewrite parse_package_name_eq_all, Hn. cbn [andb].
    rewrite Hjn, Hjx. split.
    - (* the package directory does not exist: nothing is found at this level *)
      intros Epd. rewrite Epd.
      rewrite (load_as_file_or_directory_eq fs Hwf Hts). unfold LOAD_FILE_OR_DIR.
      destruct Hsegs as [(Hs & _) | (r0 & Hs & _ & _)]; rewrite Hs.
      + fold pkgdir. rewrite Hnf'. unfold LOAD_AS_DIRECTORY.
        rewrite (pkg_of_nodir pkgdir Hpne Epd). rewrite (LOAD_INDEX_nodir fs Hwf pkgdir Epd). reflexivity.
      + rewrite app_assoc. fold pkgdir.
        destruct (nothing_below fs pkgdir (under_nodir fs Hwf pkgdir Epd) (spec_segs r0) (spec_segs_nonempty r0))
          as (_ & H1 & H2).
        rewrite H1, H2. reflexivity.
    - (* the package directory exists *)
      intros Epd. rewrite Epd.
      destruct (pkg_of fs pkgdir) as [pk|] eqn:Epk.
      + rewrite (exports_of_ok fs x Hpk _ _ Epk).
        destruct (pk_exports pk) as [ex|] eqn:Eex.
        * destruct (Hpk _ _ _ Epk Eex) as [Hnn' Hsc].
          pose proof (esm_resolve_agree fs KImport user pkgdir (subpath_of x) ex conds_n Hts Hsc Hnn'
                        (conds_import_equiv user)) as Ha.
          apply agree_weaken in Ha. cbn [fst snd].
          destruct (RESOLVE_ESM_MATCH fs pkgdir (node_exports_resolve ex (subpath_of x) conds_n) (fun _ => NOut));
            try exact I; split; try reflexivity; exact Ha.
        * (* no exports: legacy main / exact file *)
          rewrite (load_as_file_or_directory_eq fs Hwf Hts). unfold LOAD_FILE_OR_DIR.
          destruct Hsegs as [(Hs & Hdot) | (r0 & Hs & Hdot & Hj)]; rewrite Hs, Hdot.
          -- fold pkgdir. rewrite Hnf'. rewrite <- Epk. rewrite legacy_main_eq.
             destruct (LOAD_AS_DIRECTORY fs pkgdir); [split; reflexivity|exact I].
          -- rewrite Hj, app_assoc. fold pkgdir. unfold esm_file_check.
             destruct (isfile fs (pkgdir ++ spec_segs r0)) eqn:Ef; [|exact I].
             unfold LOAD_AS_FILE. rewrite Ef. split; reflexivity.
      + rewrite (load_as_file_or_directory_eq fs Hwf Hts). unfold LOAD_FILE_OR_DIR.
        destruct Hsegs as [(Hs & Hdot) | (r0 & Hs & Hdot & Hj)]; rewrite Hs, Hdot.
        * fold pkgdir. rewrite Hnf'. rewrite <- Epk. rewrite legacy_main_eq.
          destruct (LOAD_AS_DIRECTORY fs pkgdir); [split; reflexivity|exact I].
        * rewrite Hj, app_assoc. fold pkgdir. unfold esm_file_check.
          destruct (isfile fs (pkgdir ++ spec_segs r0)) eqn:Ef; [|exact I].
          unfold LOAD_AS_FILE. rewrite Ef. split; reflexivity.
  Qed.

  (* the walk over the enclosing directories *)
  Lemma import_walk_agree : forall fuel dir,
    agree_import (of_opt (nm_walk fs KImport user fuel dir x))
                 (esm_walk fs conds_n fuel (name_of x) (subpath_of x) dir).
  Proof.
    destruct (bare_facts x Hbare) as (name & Hn & Hne & Hpx & Hpn).
    assert (Hname : name_of x = name) by (unfold name_of; rewrite Hn; reflexivity).
    rewrite <- Hname in Hpn.
    induction fuel as [|f IH]; intros dir; cbn [nm_walk esm_walk].
    all: rewrite (join_rel_plain _ (name_of x) Hpn).
    all: destruct (try_package_import dir) as [HB HA]; cbv zeta in HB, HA.
    all: destruct (isdir fs ((dir ++ [node_modules_s]) ++ spec_segs (name_of x))) eqn:Epd.
    (* the package directory exists at this level *)
    1,3: assert (HDIR : isdir fs (dir ++ [node_modules_s]) = true)
           by (apply (isdir_prefix (dir ++ [node_modules_s]) (spec_segs (name_of x))); exact Epd).
    1,2: assert (Hb : str_eqb (base_name dir) node_modules_s = false)
           by (destruct (str_eqb (base_name dir) node_modules_s) eqn:Eb; [|reflexivity];
               rewrite (Hnn dir Eb) in HDIR; discriminate).
    1,2: rewrite Hb, HDIR; cbn [negb andb]; specialize (HA eq_refl); cbv iota;
         match goal with
         | |- agree_import _ ?r => destruct r eqn:Er
         end; try exact I; destruct HA as [Hs Ha]; rewrite Hs; exact Ha.
    (* it does not: esbuild finds nothing here either *)
    all: specialize (HB eq_refl).
    all: assert (Hm : snd (if negb (str_eqb (base_name dir) node_modules_s) && isdir fs (dir ++ [node_modules_s])
                           then try_package fs KImport user (dir ++ [node_modules_s]) x else (None, false)) = false)
           by (destruct (negb (str_eqb (base_name dir) node_modules_s) && isdir fs (dir ++ [node_modules_s])); [exact HB|reflexivity]).
    all: rewrite Hm.
    - destruct dir; exact I.
    - destruct dir; [exact I|apply IH].
  Qed.

  (* loadNodeModules (forbidImports) vs PACKAGE_RESOLVE (after the builtin test) *)
  Lemma import_noimports_agree dir :
    builtin x = false ->
    agree_import (of_opt (load_node_modules_noimports fs KImport user dir x))
                 (PACKAGE_RESOLVE builtin fs conds_n x dir).
  Proof.
    intros Hbx.
    destruct (bare_facts x Hbare) as (name & Hn & Hne & Hpx & Hpn).
    assert (Hname : name_of x = name) by (unfold name_of; rewrite Hn; reflexivity).
    pose proof (import_walk_agree (length dir) dir) as Hwalk. rewrite Hname in Hwalk.
    unfold load_node_modules_noimports, PACKAGE_RESOLVE, name_and_subpath.
    rewrite Hbx, parse_package_name_eq_all, Hn. rewrite (nearest_is_scope fs).
    destruct (package_scope fs (length dir) dir) as [[pdir pk]|] eqn:Esc; [|exact Hwalk].
    destruct (package_scope_base _ _ _ _ _ Esc) as [_ Hpd].
    rewrite (exports_of_ok fs x Hpk _ _ Hpd).
    destruct (pk_exports pk) as [ex|] eqn:Eex; [|exact Hwalk].
    destruct (Hpk _ _ _ Hpd Eex) as [Hnn' Hsc].
    destruct (pk_name pk) as [n|].
    - destruct (str_eqb n name); [|exact Hwalk].
      apply agree_weaken. apply esm_resolve_agree; auto. apply conds_import_equiv.
    - assert (Hf : str_eqb [] name = false) by (destruct name; [contradiction|reflexivity]).
      rewrite Hf. exact Hwalk.
  Qed.
End Import.

Section ImportTop.
  Variable builtin : str -> bool.
  Variable fs : fsmap.
  Hypothesis Hwf : wf_fs fs.
  Hypothesis Hts : no_ts_rewrite fs.
  Hypothesis Hnn : no_nested_nm fs.

  (* bare specifiers: ESM_RESOLVE -> PACKAGE_RESOLVE *)
  Lemma import_bare_all user dir x :
    is_package_path x = true -> prefixb [ch_hash] x = false ->
    bare_ok x = true -> pkgs_ok fs x -> no_module_file fs x ->
    agree_import (resolve builtin fs KImport user dir x) (import_resolve builtin fs user dir x).
  Proof.
    intros Hpp Hh Hbare Hpk Hnf. unfold resolve, import_resolve. rewrite Hpp.
    unfold is_package_path in Hpp.
    destruct (prefixb (s_ "/") x); [discriminate|].
    destruct (prefixb (s_ "./") x); [discriminate|]. destruct (prefixb (s_ "../") x); [discriminate|].
    destruct (str_eqb x (s_ ".")); [discriminate|]. destruct (str_eqb x (s_ "..")); [discriminate|].
    cbn [negb orb]. change (s_ "#") with [ch_hash]. rewrite Hh.
    destruct (builtin x) eqn:Eb.
    - unfold PACKAGE_RESOLVE. rewrite Eb. reflexivity.
    - unfold load_node_modules. rewrite Hh.
      apply (import_noimports_agree builtin fs Hwf Hts Hnn user x Hbare Hpk Hnf dir Eb).
  Qed.

  (* a bare target an imports map remaps to must itself satisfy the hypotheses of the bare case *)
  Definition import_remap_ok (user : list str) (x : str) : Prop :=
    forall d pk im s, pkg_of fs d = Some pk -> pk_imports pk = Some im ->
      node_imports_resolve x im (esm_conds user) = OPackageResolve s -> builtin s = false ->
      bare_ok s = true /\ pkgs_ok fs s /\ no_module_file fs s.

  (* "#" specifiers whose package scope has an "imports" map *)
  Lemma import_imports_all user dir x pdir pk im :
    is_package_path x = true -> prefixb [ch_hash] x = true -> builtin x = false ->
    package_scope fs (length dir) dir = Some (pdir, pk) -> pk_imports pk = Some im ->
    pkgs_imports_ok fs x -> import_remap_ok user x ->
    agree_import (resolve builtin fs KImport user dir x) (import_resolve builtin fs user dir x).
  Proof.
    intros Hpp Hh Hbx Hscope Him Hi Hr.
    destruct (package_scope_base _ _ _ _ _ Hscope) as [Hb Hpd].
    destruct (Hi _ _ _ Hpd Him) as [Hnn' Hsc].
    assert (Hhs : shape_hash_slash x = false).
    { unfold in_scope_imports in Hsc. apply andb_true_iff in Hsc as [Hsc _].
      apply andb_true_iff in Hsc as [_ Hs]. apply negb_true_iff in Hs. exact Hs. }
    unfold resolve, import_resolve. rewrite Hpp, Hbx.
    unfold is_package_path in Hpp.
    destruct (prefixb (s_ "/") x); [discriminate|].
    destruct (prefixb (s_ "./") x); [discriminate|]. destruct (prefixb (s_ "../") x); [discriminate|].
    destruct (str_eqb x (s_ ".")); [discriminate|]. destruct (str_eqb x (s_ "..")); [discriminate|].
    cbn [negb orb]. change (s_ "#") with [ch_hash]. rewrite Hh.
    unfold shape_hash_slash in Hhs. change (s_ "#/") with [ch_hash; ch_slash]. rewrite Hhs.
    unfold load_node_modules. rewrite Hh, (nearest_is_scope fs), Hscope.
    rewrite (imports_of_ok fs x _ _ Hi Hpd), Him.
    (* loadPackageImports vs PACKAGE_IMPORTS_RESOLVE + RESOLVE_ESM_MATCH *)
    unfold load_package_imports.
    assert (Hh1 : str_eqb x [ch_hash] = false) by (apply orb_false_iff in Hhs as [H _]; exact H).
    rewrite Hh1, (parse_root_imports_some im Hnn').
    pose proof (imports_resolve_eq_partial_all im x (conds_of KImport user) Hsc) as Heq.
    pose proof (imports_resolve_no_inexact im x (conds_of KImport user) Hsc) as Hni.
    rewrite (node_imports_resolve_ext _ _ im x (conds_import_equiv user)) in Heq.
    pose proof (fun s => Hr _ _ _ s Hpd Him) as Hrm.
    destruct (imports_resolve x (parse im) (conds_of KImport user)) as [res st].
    destruct (node_imports_resolve x im (esm_conds user)) as [u|s|e|]; cbn [coarse] in *.
    - assert (Hst : res = u /\ (st = SExact \/ st = SExactEndsWithStar)).
      { unfold outcome_of_model in Heq. cbn [fst snd] in *.
        destruct st; try discriminate; injection Heq as ->; auto. contradiction. }
      destruct Hst as [-> Hst].
      assert (Hm : snd (handle_post_conditions (u, st)) <> SPackageResolve).
      { unfold handle_post_conditions. cbn [fst snd].
        destruct Hst as [-> | ->]; destruct (path_unescape u); cbn [snd];
          repeat match goal with |- snd (if ?c then _ else _) <> _ => destruct c end; cbn [snd]; discriminate. }
      pose proof (resolved_agree fs pdir u st
                    (fun s => PACKAGE_RESOLVE builtin fs (esm_conds user) s pdir) Hts Hst) as Hra.
      apply agree_weaken in Hra.
      destruct (handle_post_conditions (u, st)) as [r2 s2]. cbn [snd fst] in *.
      destruct s2; try exact Hra. contradiction.
    - assert (Hst : res = s /\ st = SPackageResolve).
      { unfold outcome_of_model in Heq. cbn [fst snd] in *.
        destruct st; try discriminate; injection Heq as ->; auto. }
      destruct Hst as [-> ->]. cbn [RESOLVE_ESM_MATCH].
      change (handle_post_conditions (s, SPackageResolve)) with (s, SPackageResolve). cbn [fst snd].
      destruct (builtin s) eqn:Ebs.
      + unfold PACKAGE_RESOLVE. rewrite Ebs. reflexivity.
      + destruct (Hrm s eq_refl Ebs) as (Hbs & Hps & Hnfs).
        apply (import_noimports_agree builtin fs Hwf Hts Hnn user s Hbs Hps Hnfs pdir Ebs).
    - unfold outcome_of_model in Heq. cbn [fst snd] in Heq. cbn [RESOLVE_ESM_MATCH].
      destruct st; try discriminate; reflexivity.
    - exact I.
  Qed.
End ImportTop.

(* ---- decidable sufficient conditions for the two extra hypotheses of the import theorems ---- *)
Definition path_suffixb (sfx p : path) : bool :=
  (length sfx <=? length p)%nat && path_eqb (skipn (length p - length sfx) p) sfx.

Lemma path_eqb_refl p : path_eqb p p = true.
Proof. apply path_eqb_eq. reflexivity. Qed.

Lemma path_suffixb_app d sfx : path_suffixb sfx (d ++ sfx) = true.
Proof.
  unfold path_suffixb. rewrite app_length. apply andb_true_iff. split; [apply Nat.leb_le; lia|].
  replace (length d + length sfx - length sfx)%nat with (length d) by lia.
  rewrite skipn_app, skipn_all, Nat.sub_diag. cbn [skipn app]. apply path_eqb_refl.
Qed.

Definition no_nested_nmb (fs : fsmap) : bool :=
  forallb (fun pe => negb (path_suffixb [node_modules_s; node_modules_s] (fst pe))) fs.

Lemma no_nested_nmb_sound fs : no_nested_nmb fs = true -> no_nested_nm fs.
Proof.
  intros H d Hb. destruct (isdir fs (d ++ [node_modules_s])) eqn:E; [|reflexivity]. exfalso.
  unfold isdir in E. destruct (d ++ [node_modules_s]) eqn:Ep; [destruct d; discriminate|]. rewrite <- Ep in E.
  destruct (lookup fs (d ++ [node_modules_s])) as [[|pk]|] eqn:El; try discriminate.
  apply lookup_In in El. unfold no_nested_nmb in H. rewrite forallb_forall in H. specialize (H _ El). cbn [fst] in H.
  (* d ends with node_modules *)
  destruct d as [|d0 d'] using rev_ind; [discriminate Hb|].
  unfold base_name in Hb. rewrite last_last in Hb. apply str_eqb_eq in Hb. subst.
  rewrite <- app_assoc in H. cbn [app] in H. rewrite path_suffixb_app in H. discriminate.
Qed.

(* the candidates of LOAD_AS_FILE for node_modules/<name> *)
Definition module_file_suffixes (x : str) : list path :=
  let segs := node_modules_s :: spec_segs (name_of x) in
  [segs; add_ext segs (s_ ".js"); add_ext segs (s_ ".json"); add_ext segs (s_ ".node")].
Definition no_module_fileb (fs : fsmap) (x : str) : bool :=
  forallb (fun pe => match snd pe with
                     | EFile => negb (existsb (fun sfx => path_suffixb sfx (fst pe)) (module_file_suffixes x))
                     | EDir _ => true
                     end) fs.

Lemma no_module_fileb_sound fs x : no_module_fileb fs x = true -> no_module_file fs x.
Proof.
  intros H d. unfold no_module_fileb in H. rewrite forallb_forall in H.
  assert (Hf : forall sfx, In sfx (module_file_suffixes x) -> isfile fs (d ++ sfx) = false).
  { intros sfx Hin. unfold isfile. destruct (lookup fs (d ++ sfx)) as [[|pk]|] eqn:El; try reflexivity.
    apply lookup_In in El. specialize (H _ El). cbn [fst snd] in H. apply negb_true_iff in H.
    assert (existsb (fun s => path_suffixb s (d ++ sfx)) (module_file_suffixes x) = true).
    { apply existsb_exists. exists sfx. split; [exact Hin|apply path_suffixb_app]. }
    congruence. }
  set (segs := node_modules_s :: spec_segs (name_of x)).
  assert (Hne : segs <> []) by discriminate.
  unfold LOAD_AS_FILE. rewrite !(add_ext_app d segs _ Hne).
  rewrite (Hf segs), (Hf (add_ext segs (s_ ".js"))), (Hf (add_ext segs (s_ ".json"))), (Hf (add_ext segs (s_ ".node")));
    try reflexivity; unfold module_file_suffixes; fold segs; cbn [In]; auto.
Qed.

(* ---- D15: for import, "#x" without an imports map in scope goes on to node_modules in esbuild ---- *)
Definition w_hash_fs : fsmap :=
  [ (pw_ [], EDir (Some (mkPkg (Some (s_ "app")) None None None)));
    (pw_ ["node_modules"], EDir None);
    (pw_ ["node_modules"; "#x"], EDir None);
    (pw_ ["node_modules"; "#x"; "index.js"], EFile) ].
Lemma refuted_import_hash_without_imports :
  wf_fsb w_hash_fs = true /\ no_tsb w_hash_fs = true /\ no_nested_nmb w_hash_fs = true
  /\ resolve (fun _ => false) w_hash_fs KImport [] [] (s_ "#x") = RFile (pw_ ["node_modules"; "#x"; "index.js"])
  /\ import_resolve (fun _ => false) w_hash_fs [] [] (s_ "#x") = NRejected EImportNotDefined.
Proof. repeat split; vm_compute; reflexivity. Qed.
