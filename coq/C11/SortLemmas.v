(* C11: the stable insertion sort [isort_by] commutes with [filter] when the
   comparison is a strict weak order on the keys at hand; path.Clean is the
   identity on rooted paths whose segments are all ordinary. *)
From V Require Import Common.Base C11.Str.
From Coq Require Import Sorted.
Local Open Scope Z_scope.

Section SortFilter.
  Context {A : Type}.
  Variable lt : str -> str -> bool.
  Variable Q : str -> Prop.
  (* strict weak order on the keys satisfying Q *)
  Hypothesis lt_asym : forall a b, Q a -> Q b -> lt a b = true -> lt b a = false.
  Hypothesis lt_negtrans : forall a b c, Q a -> Q b -> Q c -> lt b a = false -> lt c b = false -> lt c a = false.

  Definition ordered (l : list (str * A)) : Prop :=
    StronglySorted (fun a b => lt (fst b) (fst a) = false) l.
  Definition allQ (l : list (str * A)) : Prop := Forall (fun x => Q (fst x)) l.

  Lemma allQ_insert x l : Q (fst x) -> allQ l -> allQ (insert_by lt x l).
  Proof.
    intros Hx H. induction H as [|y r Hy Hr IH]; cbn; [repeat constructor; auto|].
    destruct (lt (fst y) (fst x)); repeat constructor; auto.
  Qed.

  Lemma allQ_isort l : allQ l -> allQ (isort_by lt l).
  Proof.
    induction 1 as [|x r Hx Hr IH]; [constructor|].
    unfold isort_by in *. cbn [fold_right]. apply allQ_insert; auto.
  Qed.

  Lemma insert_Forall (P : str * A -> Prop) x l : P x -> Forall P l -> Forall P (insert_by lt x l).
  Proof.
    intros Hx H. induction H as [|y r Hy Hr IH]; cbn; [repeat constructor; auto|].
    destruct (lt (fst y) (fst x)); repeat constructor; auto.
  Qed.

  Lemma ordered_insert x l : Q (fst x) -> allQ l -> ordered l -> ordered (insert_by lt x l).
  Proof.
    intros Hx HQ Hs. revert HQ. induction Hs as [|y r Hr IH Hy]; intros HQ; cbn [insert_by].
    - constructor; constructor.
    - inversion HQ as [|? ? HQy HQr]; subst.
      destruct (lt (fst y) (fst x)) eqn:E.
      + constructor; [apply IH; assumption|].
        apply insert_Forall; [|exact Hy]. apply lt_asym; assumption.
      + constructor; [constructor; assumption|].
        constructor; [exact E|].
        rewrite Forall_forall in *. intros z Hz.
        apply (lt_negtrans (fst x) (fst y) (fst z)); auto.
  Qed.

  Lemma ordered_isort l : allQ l -> ordered (isort_by lt l).
  Proof.
    induction 1 as [|x r Hx Hr IH]; [constructor|].
    unfold isort_by in *. cbn [fold_right]. apply ordered_insert; auto. apply allQ_isort. exact Hr.
  Qed.

  Lemma filter_insert (p : str * A -> bool) x l :
    Q (fst x) -> allQ l -> ordered l ->
    filter p (insert_by lt x l) = if p x then insert_by lt x (filter p l) else filter p l.
  Proof.
    intros Hx HQ Hs. revert HQ. induction Hs as [|y r Hr IH Hy]; intros HQ; cbn [insert_by filter].
    - destruct (p x); reflexivity.
    - inversion HQ as [|? ? HQy HQr]; subst.
      destruct (lt (fst y) (fst x)) eqn:E.
      + cbn [filter]. rewrite (IH HQr). destruct (p y), (p x); cbn [insert_by]; rewrite ?E; reflexivity.
      + cbn [filter]. destruct (p x) eqn:Epx; [|reflexivity].
        destruct (p y) eqn:Epy; [cbn [insert_by]; rewrite E; reflexivity|].
        (* x goes in front of the first kept element z of r: lt z x = false *)
        clear IH HQ. induction r as [|z r' IHr]; [reflexivity|].
        cbn [filter]. inversion Hy as [|? ? Hyz Hyr]; subst. inversion HQr as [|? ? HQz HQr']; subst.
        inversion Hr as [|? ? Hr' Hzr]; subst.
        destruct (p z); [|apply IHr; assumption].
        cbn [insert_by]. rewrite (lt_negtrans (fst x) (fst y) (fst z)); auto.
  Qed.

  Lemma filter_isort (p : str * A -> bool) l :
    allQ l -> filter p (isort_by lt l) = isort_by lt (filter p l).
  Proof.
    induction 1 as [|x r Hx Hr IH]; [reflexivity|].
    unfold isort_by in *. cbn [fold_right filter].
    rewrite filter_insert; auto; [| apply allQ_isort; exact Hr | apply ordered_isort; exact Hr ].
    rewrite IH. destruct (p x); reflexivity.
  Qed.
End SortFilter.

(* ---- split / join ---- *)
Lemma split_on_nonempty f s : split_on f s <> [].
Proof.
  induction s as [|c r IH]; cbn; [discriminate|].
  destruct (f c); [discriminate|]. destruct (split_on f r); discriminate.
Qed.

Lemma join_split c s : join_with c (split_on (Z.eqb c) s) = s.
Proof.
  induction s as [|x r IH]; [reflexivity|]. cbn [split_on].
  destruct (c =? x) eqn:E.
  - apply Z.eqb_eq in E. subst x.
    destruct (split_on (Z.eqb c) r) as [|seg segs] eqn:Es; [exfalso; eapply split_on_nonempty; eauto|].
    cbn [join_with app]. f_equal. exact IH.
  - destruct (split_on (Z.eqb c) r) as [|seg segs] eqn:Es; [exfalso; eapply split_on_nonempty; eauto|].
    rewrite <- IH. destruct segs; reflexivity.
Qed.

Lemma split_on_ext f g s :
  Forall (fun c => f c = g c) s -> split_on f s = split_on g s.
Proof. induction 1 as [|c r Hc _ IH]; [reflexivity|]. cbn. rewrite Hc, IH. reflexivity. Qed.

(* ---- path.Clean on ordinary rooted paths ---- *)
Definition ordinary_seg (g : str) : bool :=
  negb (str_eqb g [] || str_eqb g [ch_dot]) && negb (str_eqb g dotdot).

Lemma clean_segs_ordinary rooted segs : forall stack,
  forallb ordinary_seg segs = true -> clean_segs rooted segs stack = rev stack ++ segs.
Proof.
  induction segs as [|g r IH]; intros stack H; cbn [clean_segs forallb] in *.
  - rewrite app_nil_r. reflexivity.
  - apply andb_true_iff in H as [Hg Hr]. unfold ordinary_seg in Hg.
    apply andb_true_iff in Hg as [H1 H2]. apply negb_true_iff in H1. apply negb_true_iff in H2.
    rewrite H1, H2. rewrite IH by assumption. cbn [rev]. rewrite <- app_assoc. reflexivity.
Qed.

(* rest = the part of a target after "./" *)
Definition ordinary_path (rest : str) : bool :=
  forallb ordinary_seg (split_on (Z.eqb ch_slash) rest).

Lemma path_clean_rooted rest :
  ordinary_path rest = true -> path_clean (ch_slash :: rest) = ch_slash :: rest.
Proof.
  intros H. unfold path_clean. change (ch_slash =? ch_slash) with true. cbv iota.
  cbn [split_on]. change (Z.eqb ch_slash ch_slash) with true. cbv iota.
  change (clean_segs true ([] :: split_on (Z.eqb ch_slash) rest) [])
    with (clean_segs true (split_on (Z.eqb ch_slash) rest) []).
  rewrite clean_segs_ordinary by exact H. cbn [rev app]. rewrite join_split. reflexivity.
Qed.

Lemma path_join_root_dot rest :
  ordinary_path rest = true ->
  path_join2 [ch_slash] (ch_dot :: ch_slash :: rest) = ch_slash :: rest.
Proof.
  intros H. unfold path_join2. cbn [app].
  unfold path_clean. change (ch_slash =? ch_slash) with true. cbv iota.
  change (split_on (Z.eqb ch_slash) (ch_slash :: ch_slash :: ch_dot :: ch_slash :: rest))
    with ([] :: [] :: [ch_dot] :: split_on (Z.eqb ch_slash) rest).
  change (clean_segs true ([] :: [] :: [ch_dot] :: split_on (Z.eqb ch_slash) rest) [])
    with (clean_segs true (split_on (Z.eqb ch_slash) rest) []).
  rewrite clean_segs_ordinary by exact H. cbn [rev app]. rewrite join_split. reflexivity.
Qed.
