(* C11 specification: Node 20's documented ESM resolution algorithm
   (doc/api/esm.md, "Resolution Algorithm Specification"): PACKAGE_RESOLVE
   (package-name part), PACKAGE_EXPORTS_RESOLVE, PACKAGE_IMPORTS_RESOLVE,
   PACKAGE_IMPORTS_EXPORTS_RESOLVE, PATTERN_KEY_COMPARE, PACKAGE_TARGET_RESOLVE,
   transcribed step by step over the JSON value of the field.  It is written
   from the Node documentation, not from esbuild's code, and it is VALIDATED on
   every run against the real `node` (v20): the harness calls Node's own
   packageExportsResolve / packageImportsResolve / parsePackageName on
   generated maps and the checker [check_spec_*] recomputes with these
   definitions.

   Where the documentation and the real Node 20 differ, the real Node is the
   reference of the property and the definition follows it; each such place
   is marked DOC-DEVIATION:
   * empty path segments ("a//b") are listed as invalid in the documentation
     but only raise deprecation DEP0166 in Node 20 (they resolve);
   * in an array target a `null` item does not stop the loop (the documented
     step "return resolved" would return it); it is remembered as the last
     fallback result.

   JSON objects are read as JavaScript objects (JSON.parse): a duplicated key
   keeps the position of its first occurrence and the value of its last
   ([norm]).  URL resolution is only modelled for "URL-plain" strings (no
   "\", "?", "#", controls, space, quotes, "<>`{}", non-ASCII): on anything
   else the specification answers [TOut]/[OOut] = outside the modelled
   fragment.  A resolved URL is written relative to the package root, i.e.
   with packageURL = "/".  Executable definitions only. *)
From V Require Import Common.Base C11.Str C11.EsbuildResolve.
Local Open Scope string_scope.
Local Open Scope Z_scope.

Inductive err := EInvalidSpecifier | EInvalidConfig | EInvalidTarget | ENotExported | EImportNotDefined.

Definition err_code (e : err) : Z :=
  match e with
  | EInvalidSpecifier => 7 | EInvalidConfig => 8 | EInvalidTarget => 9
  | ENotExported => 10 | EImportNotDefined => 11
  end.

(* result of PACKAGE_TARGET_RESOLVE *)
Inductive tres :=
| TUrl (u : str)        (* a URL inside the package, relative to its root *)
| TPkg (s : str)        (* PACKAGE_RESOLVE(s, packageURL) is to be run *)
| TNull | TUndef
| TThrow (e : err)
| TOut.

Inductive outcome :=
| OResolved (u : str)
| OPackageResolve (s : str)
| ORefused (e : err)
| OOut.

(* ---- JSON.parse view of an object ---- *)
Fixpoint assoc_last (k : str) (l : list (str * json)) : option json :=
  match l with
  | [] => None
  | (k', v) :: r =>
      match assoc_last k r with
      | Some x => Some x
      | None => if str_eqb k' k then Some v else None
      end
  end.

Fixpoint js_obj (kvs : list (str * json)) (seen : list str) : list (str * json) :=
  match kvs with
  | [] => []
  | (k, v) :: r =>
      if mem_str k seen then js_obj r seen
      else (k, match assoc_last k r with Some x => x | None => v end) :: js_obj r (k :: seen)
  end.

Fixpoint norm (j : json) : json :=
  match j with
  | JArr l => JArr (map norm l)
  | JObj kvs => JObj (js_obj (map (fun kv => (fst kv, norm (snd kv))) kvs) [])
  | _ => j
  end.

(* ECMA-262 array index: canonical decimal numeral below 2^32 - 1 *)
Definition is_digit (c : Z) : bool := (48 <=? c) && (c <=? 57).
Definition dec_value (s : str) : Z := fold_left (fun a c => 10 * a + (c - 48)) s 0.
Definition is_array_index (k : str) : bool :=
  match k with
  | [] => false
  | c :: r =>
      forallb is_digit k
      && (negb (c =? 48) || match r with [] => true | _ => false end)
      && (length k <=? 10)%nat && (dec_value k <? 4294967295)
  end.

(* ---- invalid segments: ".", "..", "node_modules", case-insensitive and
   including percent-encoded variants (invalidSegmentRegEx of Node 20) ---- *)
Definition strip_alt (alts : list str) (s : str) : option str :=
  fold_right (fun a acc =>
                if prefixb a (lower_str (firstn (length a) s)) then Some (skipn (length a) s) else acc)
             None alts.
Fixpoint match_seq (pat : list (list str)) (s : str) : bool :=
  match pat with
  | [] => match s with [] => true | _ => false end
  | alts :: pat' => match strip_alt alts s with Some r => match_seq pat' r | None => false end
  end.
Definition pat_dot : list String.string := ["."; "%2e"].
Definition pat_node_modules : list (list String.string) :=
  [ ["n"; "%6e"; "%4e"]; ["o"; "%6f"; "%4f"]; ["d"; "%64"; "%44"]; ["e"; "%65"; "%45"];
    ["_"; "%5f"];
    ["m"; "%6d"; "%4d"]; ["o"; "%6f"; "%4f"]; ["d"; "%64"; "%44"]; ["u"; "%75"; "%55"];
    ["l"; "%6c"; "%4c"]; ["e"; "%65"; "%45"]; ["s"; "%73"; "%53"] ].
Definition s_pat (p : list (list String.string)) : list (list str) := map (map s_) p.
Definition node_bad_segment (g : str) : bool :=
  match_seq (s_pat [pat_dot]) g || match_seq (s_pat [pat_dot; pat_dot]) g
  || match_seq (s_pat pat_node_modules) g.
(* DOC-DEVIATION: "" is not in the list (deprecated only in Node 20) *)
Definition node_invalid_segments (p : str) : bool :=
  existsb node_bad_segment (split_on is_sep p).

(* ---- the fragment of URL syntax that is modelled ---- *)
Definition url_plain_char (c : Z) : bool :=
  (33 <=? c) && (c <=? 126)
  && negb (existsb (Z.eqb c) [ch_bslash; ch_qmark; ch_hash; 34; 60; 62; 96; 123; 125]).
Definition url_plain (s : str) : bool := forallb url_plain_char s.

(* "target is a valid URL": a scheme followed by ":" *)
Definition is_alpha (c : Z) : bool := let l := to_lower c in (97 <=? l) && (l <=? 122).
Fixpoint scheme_rest (s : str) : bool :=
  match s with
  | [] => false
  | c :: r => if c =? 58 then true
              else if is_alpha c || is_digit c || (c =? 43) || (c =? 45) || (c =? 46) then scheme_rest r
              else false
  end.
Definition is_valid_url (s : str) : bool :=
  match s with c :: r => is_alpha c && scheme_rest r | [] => false end.

(* ---- PACKAGE_TARGET_RESOLVE, string case (steps 1.1 - 1.7) ---- *)
Definition target_string_spec (t : str) (patternMatch : option str) (isImports : bool) : tres :=
  if negb (prefixb (s_ "./") t) then
    if negb isImports || prefixb (s_ "../") t || prefixb (s_ "/") t || is_valid_url t
    then TThrow EInvalidTarget
    else TPkg (match patternMatch with Some p => replace_star t p | None => t end)
  else if node_invalid_segments (skipn 2 t) then TThrow EInvalidTarget
  else if negb (url_plain t) then TOut
  else
    let resolvedTarget := ch_slash :: skipn 2 t in
    match patternMatch with
    | None => TUrl resolvedTarget
    | Some p =>
        if node_invalid_segments p then TThrow EInvalidSpecifier
        else if negb (url_plain p) then TOut
        else TUrl (replace_star resolvedTarget p)
    end.

(* ---- PACKAGE_TARGET_RESOLVE ---- *)
(* step 2.2: for each property p of target, in object insertion order *)
Definition cond_loop (f : json -> tres) (conds : list str) : list (str * json) -> tres :=
  fix loop (l : list (str * json)) : tres :=
  match l with
  | [] => TUndef
  | (p, v) :: r =>
      if str_eqb p (s_ "default") || mem_str p conds then
        match f v with
        | TUndef => loop r
        | res => res
        end
      else loop r
  end.

(* step 3.2: for each item targetValue in target *)
Definition fallback_loop (f : json -> tres) : list json -> tres -> tres :=
  fix loop (l : list json) (last : tres) : tres :=
  match l with
  | [] => last
  | v :: r =>
      match f v with
      | TThrow EInvalidTarget => loop r (TThrow EInvalidTarget)
      | TUndef => loop r last
      | TNull => loop r TNull          (* DOC-DEVIATION, see header *)
      | res => res
      end
  end.

Fixpoint target_resolve_spec (t : json) (patternMatch : option str) (isImports : bool)
         (conds : list str) {struct t} : tres :=
  match t with
  | JStr s => target_string_spec s patternMatch isImports
  | JObj kvs =>
      if existsb (fun kv => is_array_index (fst kv)) kvs then TThrow EInvalidConfig
      else cond_loop (fun v => target_resolve_spec v patternMatch isImports conds) conds kvs
  | JArr l =>
      match l with
      | [] => TNull
      | _ => fallback_loop (fun v => target_resolve_spec v patternMatch isImports conds) l TUndef
      end
  | JNull => TNull
  | JBad => TThrow EInvalidTarget
  end.

(* ---- PATTERN_KEY_COMPARE ---- *)
Definition pattern_key_compare (a b : str) : Z :=
  let baseLengthA := match index_byte ch_star a with Some i => S i | None => length a end in
  let baseLengthB := match index_byte ch_star b with Some i => S i | None => length b end in
  if (baseLengthB <? baseLengthA)%nat then -1
  else if (baseLengthA <? baseLengthB)%nat then 1
  else if negb (has_byte ch_star a) then 1
  else if negb (has_byte ch_star b) then -1
  else if (length b <? length a)%nat then -1
  else if (length a <? length b)%nat then 1
  else 0.
Definition pkc_less (a b : str) : bool := pattern_key_compare a b =? -1.

Fixpoint assoc_first (k : str) (l : list (str * json)) : option json :=
  match l with
  | [] => None
  | (k', v) :: r => if str_eqb k' k then Some v else assoc_first k r
  end.

(* ---- PACKAGE_IMPORTS_EXPORTS_RESOLVE ---- *)
Fixpoint expansion_loop_spec (matchKey : str) (eks : list (str * json)) (isImports : bool)
         (conds : list str) : tres :=
  match eks with
  | [] => TNull
  | (expansionKey, target) :: r =>
      match index_byte ch_star expansionKey with
      | None => expansion_loop_spec matchKey r isImports conds
      | Some star =>
          let patternBase := firstn star expansionKey in
          if prefixb patternBase matchKey && negb (str_eqb matchKey patternBase) then
            let patternTrailer := skipn (S star) expansionKey in
            if (length patternTrailer =? 0)%nat
               || (suffixb patternTrailer matchKey && (length expansionKey <=? length matchKey)%nat)
            then
              let patternMatch :=
                firstn (length matchKey - length patternTrailer - length patternBase)
                       (skipn (length patternBase) matchKey) in
              target_resolve_spec target (Some patternMatch) isImports conds
            else expansion_loop_spec matchKey r isImports conds
          else expansion_loop_spec matchKey r isImports conds
      end
  end.

Definition imports_exports_resolve_spec (matchKey : str) (matchObj : list (str * json))
           (isImports : bool) (conds : list str) : tres :=
  let exact := if negb (has_byte ch_star matchKey) then assoc_first matchKey matchObj else None in
  match exact with
  | Some target => target_resolve_spec target None isImports conds
  | None =>
      let expansionKeys :=
        isort_by pkc_less (filter (fun kv => (count_byte ch_star (fst kv) =? 1)%nat) matchObj) in
      expansion_loop_spec matchKey expansionKeys isImports conds
  end.

Definition to_outcome (fallback : err) (r : tres) : outcome :=
  match r with
  | TUrl u => OResolved u
  | TPkg s => OPackageResolve s
  | TNull | TUndef => ORefused fallback
  | TThrow e => ORefused e
  | TOut => OOut
  end.

(* ---- PACKAGE_EXPORTS_RESOLVE ---- *)
Definition exports_resolve_spec (exports : json) (subpath : str) (conds : list str) : outcome :=
  let dotkeys := match exports with JObj kvs => map (fun kv => starts_with_dot (fst kv)) kvs | _ => [] end in
  if existsb (fun b => b) dotkeys && existsb negb dotkeys then ORefused EInvalidConfig
  else if str_eqb subpath (s_ ".") then
    let mainExport :=
      match exports with
      | JStr _ | JArr _ => Some exports
      | JObj kvs => if negb (existsb (fun b => b) dotkeys) then Some exports
                    else assoc_first (s_ ".") kvs
      | _ => None
      end in
    match mainExport with
    | Some m => to_outcome ENotExported (target_resolve_spec m None false conds)
    | None => ORefused ENotExported
    end
  else
    match exports with
    | JObj kvs =>
        if forallb (fun b => b) dotkeys
        then to_outcome ENotExported (imports_exports_resolve_spec subpath kvs false conds)
        else ORefused ENotExported
    | _ => ORefused ENotExported
    end.

(* PACKAGE_RESOLVE step 8 rejects a subpath ending in "/" before this point;
   Node 20's implementation still honours it with a deprecation warning.  The
   property excludes such specifiers: they are outside the modelled fragment. *)
Definition node_exports_resolve (exports : json) (subpath : str) (conds : list str) : outcome :=
  if ends_with_slash subpath then OOut else exports_resolve_spec (norm exports) subpath conds.

(* ---- PACKAGE_IMPORTS_RESOLVE ---- *)
Definition imports_resolve_spec (specifier : str) (imports : json) (conds : list str) : outcome :=
  if str_eqb specifier (s_ "#") || prefixb (s_ "#/") specifier then ORefused EInvalidSpecifier
  else
    match imports with
    | JObj kvs => to_outcome EImportNotDefined (imports_exports_resolve_spec specifier kvs true conds)
    | _ => ORefused EImportNotDefined
    end.

Definition node_imports_resolve (specifier : str) (imports : json) (conds : list str) : outcome :=
  if ends_with_slash specifier then OOut else imports_resolve_spec specifier (norm imports) conds.

(* ---- PACKAGE_RESOLVE steps 2, 4-7: package name and subpath ---- *)
Fixpoint take_until (c : Z) (s : str) : str :=
  match s with
  | [] => []
  | x :: r => if x =? c then [] else x :: take_until c r
  end.
Fixpoint drop_until (c : Z) (s : str) : option str :=   (* the rest after the first c *)
  match s with
  | [] => None
  | x :: r => if x =? c then Some r else drop_until c r
  end.

Definition package_name_spec (spec : str) : option (str * str) :=
  match spec with
  | [] => None                                                   (* step 2 *)
  | c0 :: _ =>
      let name :=
        if negb (c0 =? ch_at) then Some (take_until ch_slash spec)          (* step 4 *)
        else match drop_until ch_slash spec with
             | None => None                                      (* step 5.1 *)
             | Some rest => Some (take_until ch_slash spec ++ ch_slash :: take_until ch_slash rest)
             end in
      match name with
      | None => None
      | Some n =>
          if prefixb (s_ ".") n || has_byte ch_bslash n || has_byte ch_pct n then None   (* step 6 *)
          else Some (n, s_ "." ++ skipn (length n) spec)         (* step 7 *)
      end
  end.
