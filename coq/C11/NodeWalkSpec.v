(* C11, second layer, specification side: Node 20's documented CommonJS
   algorithm around the exports/imports core, over the same finite-map file
   system: doc/api/modules.md "All together" (require(X) from module at path Y,
   LOAD_AS_FILE, LOAD_INDEX, LOAD_AS_DIRECTORY, LOAD_NODE_MODULES,
   NODE_MODULES_PATHS, LOAD_PACKAGE_IMPORTS, LOAD_PACKAGE_EXPORTS,
   LOAD_PACKAGE_SELF, RESOLVE_ESM_MATCH).
   Validated against the real node by the correspondence run (check_walk_spec).
   DOC-DEVIATION (real Node 20 followed, validated): NODE_MODULES_PATHS lists
   the NEAREST node_modules first (the pseudo-code line "DIRS = DIR + DIRS"
   reads the other way round); the package scope lookup stops at a directory
   named node_modules.
   A resolved URL containing a percent sign is outside the modelled fragment
   (NOut).  The ES-module entry (ESM_RESOLVE, PACKAGE_RESOLVE with the legacy
   main lookup) is at the end of the file.  Symlinks are not modelled: oracle
   only.  Executable definitions only. *)
From V Require Import Common.Base C11.Str C11.EsbuildResolve C11.NodeSpec C11.Walk.
Local Open Scope string_scope.
Local Open Scope Z_scope.

Inductive nres :=
| NFile (p : path)
| NBuiltin (s : str)
| NNotFound            (* MODULE_NOT_FOUND, unsupported directory import, ... *)
| NRejected (e : err)  (* rejected by an exports / imports map, or invalid specifier *)
| NOut.

Section Spec.
  Variable builtin : str -> bool.
  Variable fs : fsmap.

  (* LOAD_AS_FILE(X) *)
  Definition LOAD_AS_FILE (x : path) : option path :=
    if isfile fs x then Some x
    else if isfile fs (add_ext x (s_ ".js")) then Some (add_ext x (s_ ".js"))
    else if isfile fs (add_ext x (s_ ".json")) then Some (add_ext x (s_ ".json"))
    else if isfile fs (add_ext x (s_ ".node")) then Some (add_ext x (s_ ".node"))
    else None.

  (* LOAD_INDEX(X) *)
  Definition LOAD_INDEX (x : path) : option path :=
    if isfile fs (x ++ [s_ "index.js"]) then Some (x ++ [s_ "index.js"])
    else if isfile fs (x ++ [s_ "index.json"]) then Some (x ++ [s_ "index.json"])
    else if isfile fs (x ++ [s_ "index.node"]) then Some (x ++ [s_ "index.node"])
    else None.

  (* LOAD_AS_DIRECTORY(X) *)
  Definition LOAD_AS_DIRECTORY (x : path) : option path :=
    match pkg_of fs x with
    | Some pk =>
        match pk_main pk with
        | Some m =>
            let M := join_rel x m in
            match LOAD_AS_FILE M with
            | Some f => Some f
            | None => match LOAD_INDEX M with
                      | Some f => Some f
                      | None => LOAD_INDEX x      (* 1.f, deprecated *)
                      end
            end
        | None => LOAD_INDEX x
        end
    | None => LOAD_INDEX x
    end.

  (* RESOLVE_ESM_MATCH(MATCH): the outcome of the exports/imports core, relative to the package *)
  Definition RESOLVE_ESM_MATCH (pkgdir : path) (o : outcome) (pkg_resolve : str -> nres) : nres :=
    match o with
    | OResolved u =>
        (* percent escapes and backslashes are outside the modelled URL fragment *)
        if has_byte ch_pct u || has_byte ch_bslash u || negb (prefixb [ch_slash] u) then NOut
        else if suffixb [ch_slash] u then NNotFound     (* a path with a trailing "/" is not a file *)
        else if isfile fs (join_rel pkgdir u) then NFile (join_rel pkgdir u) else NNotFound
    | OPackageResolve s => pkg_resolve s
    | ORefused e => NRejected e
    | OOut => NOut
    end.

  (* closest package scope: stops at a node_modules directory *)
  Fixpoint package_scope (fuel : nat) (dir : path) : option (path * pkginfo) :=
    if str_eqb (base_name dir) node_modules_s then None
    else match pkg_of fs dir with
         | Some pk => Some (dir, pk)
         | None => match fuel, dir with
                   | S f, _ :: _ => package_scope f (parent dir)
                   | _, _ => None
                   end
         end.

  Definition cjs_conds (user : list str) : list str := [s_ "node"; s_ "require"] ++ user.
  Definition esm_conds (user : list str) : list str := [s_ "node"; s_ "import"] ++ user.

  (* LOAD_PACKAGE_EXPORTS(X, DIR): None = "return" (continue) *)
  Definition LOAD_PACKAGE_EXPORTS (conds : list str) (x : str) (dir : path) : option nres :=
    match package_name_spec x with
    | None => None
    | Some (name, subpath) =>
        match pkg_of fs (join_rel dir name) with
        | None => None
        | Some pk =>
            match pk_exports pk with
            | None => None
            | Some ex =>
                Some (RESOLVE_ESM_MATCH (join_rel dir name) (node_exports_resolve ex subpath conds)
                                        (fun _ => NOut))
            end
        end
    end.

  (* LOAD_NODE_MODULES(X, START) over NODE_MODULES_PATHS(START), nearest first *)
  Fixpoint LOAD_NODE_MODULES (conds : list str) (fuel : nat) (x : str) (start : path) : nres :=
    let here : option nres :=
      if str_eqb (base_name start) node_modules_s then None
      else
        let DIR := start ++ [node_modules_s] in
        match LOAD_PACKAGE_EXPORTS conds x DIR with
        | Some r => Some r
        | None =>
            match LOAD_AS_FILE (join_rel DIR x) with
            | Some f => Some (NFile f)
            | None => match LOAD_AS_DIRECTORY (join_rel DIR x) with
                      | Some f => Some (NFile f)
                      | None => None
                      end
            end
        end in
    match here with
    | Some r => r
    | None => match fuel, start with
              | S f, _ :: _ => LOAD_NODE_MODULES conds f x (parent start)
              | _, _ => NNotFound
              end
    end.

  (* LOAD_PACKAGE_SELF(X, DIR) *)
  Definition LOAD_PACKAGE_SELF (conds : list str) (x : str) (dir : path) : option nres :=
    match package_scope (length dir) dir with
    | None => None
    | Some (scope, pk) =>
        match pk_exports pk, pk_name pk, package_name_spec x with
        | Some ex, Some n, Some (name, subpath) =>
            if str_eqb n name
            then Some (RESOLVE_ESM_MATCH scope (node_exports_resolve ex subpath conds) (fun _ => NOut))
            else None
        | _, _, _ => None
        end
    end.

  (* the part of require(X) after the "#" step: LOAD_PACKAGE_SELF, LOAD_NODE_MODULES *)
  Definition cjs_package (conds : list str) (x : str) (dir : path) : nres :=
    match LOAD_PACKAGE_SELF conds x dir with
    | Some r => r
    | None => LOAD_NODE_MODULES conds (length dir) x dir
    end.

  (* LOAD_PACKAGE_IMPORTS(X, DIR) *)
  Definition LOAD_PACKAGE_IMPORTS (conds : list str) (x : str) (dir : path) : option nres :=
    match package_scope (length dir) dir with
    | None => None
    | Some (scope, pk) =>
        match pk_imports pk with
        | None => None
        | Some im =>
            (* a bare target that names a builtin: PACKAGE_RESOLVE returns the URL "node:<name>" and
               RESOLVE_ESM_MATCH's fileURLToPath throws (Node 20: ERR_INVALID_URL_SCHEME): require fails,
               it is neither a resolution nor a rejection by the map (import resolves it, see import_resolve) *)
            Some (RESOLVE_ESM_MATCH scope (node_imports_resolve x im conds)
                    (fun s => if builtin s then NNotFound else cjs_package conds s scope))
        end
    end.

  (* require(X) from a module in directory dir *)
  Definition require_resolve (user : list str) (dir : path) (x : str) : nres :=
    let conds := cjs_conds user in
    if builtin x then NBuiltin x
    else if prefixb (s_ "/") x then
      match LOAD_AS_FILE (abs_path x) with
      | Some f => NFile f
      | None => match LOAD_AS_DIRECTORY (abs_path x) with Some f => NFile f | None => NNotFound end
      end
    else if prefixb (s_ "./") x || prefixb (s_ "../") x || str_eqb x (s_ ".") || str_eqb x (s_ "..") then
      match LOAD_AS_FILE (join_rel dir x) with
      | Some f => NFile f
      | None => match LOAD_AS_DIRECTORY (join_rel dir x) with Some f => NFile f | None => NNotFound end
      end
    else
      match (if prefixb (s_ "#") x then LOAD_PACKAGE_IMPORTS conds x dir else None) with
      | Some r => r
      | None => cjs_package conds x dir
      end.

  (* ================= ES modules: doc/api/esm.md =================
     ESM_RESOLVE, PACKAGE_RESOLVE, PACKAGE_SELF_RESOLVE, LOOKUP_PACKAGE_SCOPE,
     PACKAGE_IMPORTS_RESOLVE (entry), with the checks of the "resolved" URL
     (directory -> Unsupported Directory Import, missing -> Module Not Found).
     Differences from require: no extension search, no directory index for a
     path; only a package's main entry gets the legacy lookup.
     DOC-DEVIATION (Node 20 followed, validated): for a package without
     "exports" and subpath "." Node runs legacyMainResolve (main, main.js,
     main.json, main.node, main/index.js|json|node, index.js|json|node), the
     documentation only says "URL resolution of main". *)
  Definition esm_file_check (p : path) : nres := if isfile fs p then NFile p else NNotFound.

  Definition legacy_main (pkgdir : path) (pk : option pkginfo) : nres :=
    let idx := LOAD_INDEX pkgdir in
    match match pk with Some k => pk_main k | None => None end with
    | Some m =>
        let M := join_rel pkgdir m in
        match LOAD_AS_FILE M with
        | Some f => NFile f
        | None => match LOAD_INDEX M with
                  | Some f => NFile f
                  | None => match idx with Some f => NFile f | None => NNotFound end
                  end
        end
    | None => match idx with Some f => NFile f | None => NNotFound end
    end.

  (* the loop of PACKAGE_RESOLVE over the parent directories *)
  Fixpoint esm_walk (conds : list str) (fuel : nat) (name subpath : str) (dir : path) : nres :=
    let pkgdir := join_rel (dir ++ [node_modules_s]) name in
    let here : option nres :=
      if isdir fs pkgdir then
        match pkg_of fs pkgdir with
        | Some pk =>
            match pk_exports pk with
            | Some ex => Some (RESOLVE_ESM_MATCH pkgdir (node_exports_resolve ex subpath conds) (fun _ => NOut))
            | None => None
            end
        | None => None
        end
      else None in
    match here with
    | Some r => r
    | None =>
        if isdir fs pkgdir then
          if str_eqb subpath (s_ ".") then legacy_main pkgdir (pkg_of fs pkgdir)
          else esm_file_check (join_rel pkgdir subpath)
        else match fuel, dir with
             | S f, _ :: _ => esm_walk conds f name subpath (parent dir)
             | _, _ => NNotFound
             end
    end.

  (* PACKAGE_RESOLVE(packageSpecifier, parentURL) *)
  Definition PACKAGE_RESOLVE (conds : list str) (x : str) (dir : path) : nres :=
    if builtin x then NBuiltin x
    else match package_name_spec x with
         | None => NRejected EInvalidSpecifier
         | Some (name, subpath) =>
             let self :=
               match package_scope (length dir) dir with
               | Some (scope, pk) =>
                   match pk_exports pk, pk_name pk with
                   | Some ex, Some n =>
                       if str_eqb n name
                       then Some (RESOLVE_ESM_MATCH scope (node_exports_resolve ex subpath conds) (fun _ => NOut))
                       else None
                   | _, _ => None
                   end
               | None => None
               end in
             match self with
             | Some r => r
             | None => esm_walk conds (length dir) name subpath dir
             end
         end.

  (* ESM_RESOLVE(specifier, parentURL); dir = directory of the importing module *)
  Definition import_resolve (user : list str) (dir : path) (x : str) : nres :=
    let conds := esm_conds user in
    if prefixb (s_ "/") x then esm_file_check (abs_path x)
    else if prefixb (s_ "./") x || prefixb (s_ "../") x || str_eqb x (s_ ".") || str_eqb x (s_ "..") then
      (* DOC-DEVIATION: Node also treats "." and ".." as relative.  URL resolution
         leaves a trailing "/" for a final "", "." or ".." segment: a directory, never a file *)
      if suffixb (s_ "/") x || suffixb (s_ "/.") x || suffixb (s_ "/..") x || str_eqb x (s_ ".") || str_eqb x (s_ "..")
      then NNotFound else esm_file_check (join_rel dir x)
    else if prefixb (s_ "#") x then
      if str_eqb x (s_ "#") || prefixb (s_ "#/") x then NRejected EInvalidSpecifier
      else
        match package_scope (length dir) dir with
        | Some (scope, pk) =>
            match pk_imports pk with
            | Some im =>
                RESOLVE_ESM_MATCH scope (node_imports_resolve x im conds)
                                  (fun s => PACKAGE_RESOLVE conds s scope)
            | None => NRejected EImportNotDefined
            end
        | None => NRejected EImportNotDefined
        end
    else PACKAGE_RESOLVE conds x dir.
End Spec.
