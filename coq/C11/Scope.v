(* C11: the in-scope domain of the equality theorems, as executable
   predicates.  Each conjunct excludes either a documented exclusion of the
   property (keys / specifiers ending in "/"), the part of URL syntax that the
   specification does not model, or one class of inputs on which the faithful
   model and Node's algorithm really differ (each such class has a *_refuted
   theorem with a witness in Properties.v). *)
From V Require Import Common.Base C11.Str C11.EsbuildResolve C11.NodeSpec.
Local Open Scope Z_scope.

Definition slash_s : str := [ch_slash].

(* a target string: both sides agree on "invalid segment"; when valid it is
   URL-plain and path.Join("/", t) is the plain concatenation (no empty
   segment, no trailing "/"); a bare target of an imports map is not a URL *)
Definition target_ok (imp : bool) (t : str) : bool :=
  if prefixb dot_slash t then
    Bool.eqb (find_invalid_segment t) (node_invalid_segments (skipn 2 t))
    && (find_invalid_segment t
        || (url_plain t
            && str_eqb (path_join2 slash_s t) (ch_slash :: skipn 2 t)
            && str_eqb (path_clean (ch_slash :: skipn 2 t)) (ch_slash :: skipn 2 t)))
  else negb (imp && is_valid_url t).

(* a pattern match (the part of the subpath that replaces "*") *)
Definition pm_ok (p : str) : bool :=
  Bool.eqb (find_invalid_segment p) (node_invalid_segments p)
  && (find_invalid_segment p || url_plain p).

Fixpoint nodupb (l : list str) : bool :=
  match l with [] => true | x :: r => negb (mem_str x r) && nodupb r end.

(* an object: keys all start with "." or none does (esbuild rejects a mixed
   object at any depth, Node only at the top of "exports"); no array-index
   key (Node: Invalid Package Configuration); no duplicated key *)
Definition obj_ok (kvs : list (str * json)) : bool :=
  consistent_keys (map fst kvs)
  && negb (existsb (fun kv => is_array_index (fst kv)) kvs)
  && nodupb (map fst kvs).

Fixpoint json_ok (imp : bool) (j : json) : bool :=
  match j with
  | JStr t => target_ok imp t
  | JArr l => forallb (json_ok imp) l
  | JObj kvs => obj_ok kvs && forallb (fun kv => json_ok imp (snd kv)) kvs
  | JNull | JBad => true
  end.

(* the pattern match that key k would produce for matchKey mk *)
Definition pattern_match_of (mk k : str) : str :=
  match index_byte ch_star k with
  | Some star =>
      firstn (length mk - length (skipn (S star) k) - length (firstn star k))
             (skipn (length (firstn star k)) mk)
  | None => []
  end.

(* a key of a subpath map, relative to the match key *)
Definition key_ok (mk k : str) : bool :=
  negb (ends_with_slash k)                        (* documented exclusion *)
  && (count_byte ch_star k <=? 1)%nat             (* keys with several "*" are ignored by Node *)
  && negb (str_eqb k (mk ++ [ch_star]))           (* pattern base = whole match key: refuted *)
  && pm_ok (pattern_match_of mk k).

Definition match_key_ok (mk : str) : bool :=
  negb (ends_with_slash mk)                       (* documented exclusion *)
  && negb (has_byte ch_star mk).                  (* esbuild refuses any specifier containing "*" *)

Definition in_scope_exports (exports : json) (subpath : str) : bool :=
  match_key_ok subpath && json_ok false exports
  && match exports with
     | JObj kvs => forallb (fun kv => key_ok subpath (fst kv)) kvs
     | _ => true
     end.

Definition in_scope_imports (imports : json) (specifier : str) : bool :=
  match_key_ok specifier && json_ok true imports
  && negb (str_eqb specifier [ch_hash]) && negb (prefixb [ch_hash; ch_slash] specifier)
  && match imports with
     | JObj kvs => forallb (fun kv => key_ok specifier (fst kv)) kvs
     | _ => true
     end.

(* coarse outcome classes of the property: same path / same package
   specifier / refused *)
Definition coarse (o : outcome) : outcome :=
  match o with ORefused _ => ORefused ENotExported | x => x end.
Definition outcome_of_model (m : str * status) : outcome :=
  match snd m with
  | SExact | SExactEndsWithStar | SInexact => OResolved (fst m)
  | SPackageResolve => OPackageResolve (fst m)
  | _ => ORefused ENotExported
  end.
