(* C11: the in-scope domain of the equality theorems, as executable
   predicates.  The domain is the conjunction of
     - the documented exclusions of the property (keys / specifiers ending in "/"),
     - the fragment of URL syntax that the specification models (URL-plain
       characters, no empty path segment), and
     - the ABSENCE of every recorded refuted shape: each [shape_*] detector
       below corresponds to exactly one [refuted_*] theorem of Properties.v /
       one known finding that is still open (D1, D3, D5, D7, D8, D10); D2, D4
       (nested objects and the "imports" map) and D12 were repaired in /repo
       (e3ac7b5, 4e82ea6, 9a0cc2e, 6e6e7fa): the model follows the fixed code and
       their detectors are gone.
   [in_scope_*_split] (ScopeProofs.v) proves
     in_scope = documented && fragment && no refuted shape. *)
From V Require Import Common.Base C11.Str C11.EsbuildResolve C11.NodeSpec C11.SortLemmas.
Local Open Scope Z_scope.

Definition slash_s : str := [ch_slash].

(* ---------------- refuted shapes ---------------- *)
(* The two invalid-segment rules.  After the fix e3ac7b5 esbuild decodes a
   segment and compares ignoring case, like Node's regular expression; their
   agreement on every string is not proved (it is checked on every generated
   case), so it stays a condition of the modelled fragment, not a refuted shape *)
Definition seg_differ_target (t : str) : bool :=
  prefixb dot_slash t && negb (Bool.eqb (find_invalid_segment t) (node_invalid_segments (skipn 2 t))).
Definition seg_differ_match (p : str) : bool :=
  negb (Bool.eqb (find_invalid_subpath_segment p) (node_invalid_segments p)).
(* D8: a bare target of an imports map that parses as a URL *)
Definition shape_url_target (imp : bool) (t : str) : bool :=
  negb (prefixb dot_slash t) && imp && is_valid_url t.
(* D3 / D4 / D5: objects *)
Fixpoint nodupb (l : list str) : bool :=
  match l with [] => true | x :: r => negb (mem_str x r) && nodupb r end.
Definition shape_dup_key (kvs : list (str * json)) : bool := negb (nodupb (map fst kvs)).
Definition shape_index_key (kvs : list (str * json)) : bool :=
  existsb (fun kv => is_array_index (fst kv)) kvs.
(* D1: a pattern key whose base is the whole match key *)
Definition shape_pattern_base (mk k : str) : bool := str_eqb k (mk ++ [ch_star]).
(* D10: esbuild refuses every specifier containing "*" *)
Definition shape_star_specifier (mk : str) : bool := has_byte ch_star mk.
(* D7: "#" and "#/..." *)
Definition shape_hash_slash (sp : str) : bool :=
  str_eqb sp [ch_hash] || prefixb [ch_hash; ch_slash] sp.

(* ---------------- modelled URL fragment ---------------- *)
Definition no_empty_segment (rest : str) : bool :=
  negb (existsb (fun g => str_eqb g []) (split_on (Z.eqb ch_slash) rest)).
(* only matters for a target that both sides accept *)
Definition fragment_target (t : str) : bool :=
  negb (seg_differ_target t)
  && (if prefixb dot_slash t && negb (find_invalid_segment t)
      then url_plain t && no_empty_segment (skipn 2 t) else true).
Definition fragment_match (p : str) : bool :=
  negb (seg_differ_match p) && (find_invalid_subpath_segment p || url_plain p).

(* ---------------- generic traversal ---------------- *)
Fixpoint json_all (T : str -> bool) (O : list (str * json) -> bool) (j : json) : bool :=
  match j with
  | JStr t => T t
  | JArr l => forallb (json_all T O) l
  | JObj kvs => O kvs && forallb (fun kv => json_all T O (snd kv)) kvs
  | JNull | JBad => true
  end.

Definition target_no_shape (imp : bool) (t : str) : bool := negb (shape_url_target imp t).
Definition obj_no_shape (kvs : list (str * json)) : bool :=
  negb (shape_index_key kvs) && negb (shape_dup_key kvs).

Definition target_ok (imp : bool) (t : str) : bool := target_no_shape imp t && fragment_target t.
Definition obj_ok (kvs : list (str * json)) : bool := obj_no_shape kvs && true.
Definition json_ok (imp : bool) (j : json) : bool := json_all (target_ok imp) obj_ok j.

(* the pattern match that key k would produce for matchKey mk *)
Definition pattern_match_of (mk k : str) : str :=
  match index_byte ch_star k with
  | Some star =>
      firstn (length mk - length (skipn (S star) k) - length (firstn star k))
             (skipn (length (firstn star k)) mk)
  | None => []
  end.

Definition pm_ok (p : str) : bool := fragment_match p.

Definition key_no_shape (mk k : str) : bool := negb (shape_pattern_base mk k).
Definition key_fragment (mk k : str) : bool := fragment_match (pattern_match_of mk k).
Definition key_documented (k : str) : bool := negb (ends_with_slash k).
Definition key_ok (mk k : str) : bool := key_documented k && key_no_shape mk k && key_fragment mk k.

Definition match_key_ok (mk : str) : bool :=
  negb (ends_with_slash mk)                       (* documented exclusion *)
  && negb (shape_star_specifier mk).

Definition top_keys (P : str -> bool) (j : json) : bool :=
  match j with JObj kvs => forallb (fun kv => P (fst kv)) kvs | _ => true end.

Definition in_scope_exports (exports : json) (subpath : str) : bool :=
  match_key_ok subpath && json_ok false exports && top_keys (key_ok subpath) exports.

Definition in_scope_imports (imports : json) (specifier : str) : bool :=
  match_key_ok specifier && json_ok true imports
  && negb (shape_hash_slash specifier)
  && top_keys (key_ok specifier) imports.

(* ---- the three components ---- *)
Definition documented_ok (j : json) (mk : str) : bool :=
  negb (ends_with_slash mk) && top_keys key_documented j.
Definition fragment_ok (j : json) (mk : str) : bool :=
  json_all fragment_target (fun _ => true) j && top_keys (key_fragment mk) j.
Definition no_refuted_shape (imp : bool) (j : json) (mk : str) : bool :=
  negb (shape_star_specifier mk)
  && negb (imp && shape_hash_slash mk)
  && json_all (target_no_shape imp) obj_no_shape j
  && top_keys (key_no_shape mk) j.

(* coarse outcome classes of the property: same path / same package
   specifier / refused *)
Definition coarse (o : outcome) : outcome :=
  match o with ORefused _ => ORefused ENotExported | x => x end.
Definition outcome_of_model (m : str * status) : outcome :=
  match snd m with
  | SExact | SExactEndsWithStar | SInexact => OResolved (fst m)
  | SPackageResolve => OPackageResolve (fst m)
  | _ => ORefused ENotExported
  end.
