(* C11: the specification's result depends on the condition list only through
   membership ("default" always applies): lists with the same members give the
   same resolution.  Used to connect esbuild's condition sets (NewResolver) with
   Node's ["node"; "require" / "import"] ++ user conditions. *)
From V Require Import Common.Base C11.Str C11.EsbuildResolve C11.NodeSpec C11.SortLemmas C11.Scope
     C11.ResolveProofs C11.Walk C11.NodeWalkSpec.
Local Open Scope string_scope.
Local Open Scope Z_scope.

Definition cond_equiv (c1 c2 : list str) : Prop :=
  forall k, (str_eqb k (s_ "default") || mem_str k c1) = (str_eqb k (s_ "default") || mem_str k c2).

Lemma cond_loop_ext f1 f2 c1 c2 kvs :
  cond_equiv c1 c2 -> Forall (fun kv => f1 (snd kv) = f2 (snd kv)) kvs ->
  cond_loop f1 c1 kvs = cond_loop f2 c2 kvs.
Proof.
  intros Hc H. induction H as [|[k v] r Hv _ IH]; [reflexivity|].
  cbn [cond_loop snd] in *. rewrite (Hc k), Hv, IH. reflexivity.
Qed.

Lemma fallback_loop_ext f1 f2 l :
  Forall (fun v => f1 v = f2 v) l -> forall last, fallback_loop f1 l last = fallback_loop f2 l last.
Proof.
  induction 1 as [|v r Hv _ IH]; intros last; [reflexivity|].
  cbn [fallback_loop]. rewrite Hv. destruct (f2 v) as [| | | |[]|]; rewrite ?IH; reflexivity.
Qed.

Lemma target_resolve_spec_ext c1 c2 pm imp :
  cond_equiv c1 c2 -> forall j, target_resolve_spec j pm imp c1 = target_resolve_spec j pm imp c2.
Proof.
  intros Hc. induction j as [| s | | l IH | kvs IH] using json_ind'; try reflexivity.
  - cbn [target_resolve_spec]. destruct l; [reflexivity|]. apply fallback_loop_ext. exact IH.
  - cbn [target_resolve_spec]. destruct (existsb _ kvs); [reflexivity|].
    apply cond_loop_ext; assumption.
Qed.

Lemma expansion_loop_spec_ext c1 c2 mk imp :
  cond_equiv c1 c2 -> forall eks, expansion_loop_spec mk eks imp c1 = expansion_loop_spec mk eks imp c2.
Proof.
  intros Hc. induction eks as [|[k v] r IH]; [reflexivity|].
  cbn [expansion_loop_spec]. rewrite IH. destruct (index_byte ch_star k); [|reflexivity]. cbv zeta.
  repeat match goal with |- (if ?c then _ else _) = _ => destruct c; [|reflexivity] end.
  apply target_resolve_spec_ext. exact Hc.
Qed.

Lemma imports_exports_resolve_spec_ext c1 c2 mk obj imp :
  cond_equiv c1 c2 -> imports_exports_resolve_spec mk obj imp c1 = imports_exports_resolve_spec mk obj imp c2.
Proof.
  intros Hc. unfold imports_exports_resolve_spec.
  destruct (if negb (has_byte ch_star mk) then assoc_first mk obj else None).
  - apply target_resolve_spec_ext. exact Hc.
  - apply expansion_loop_spec_ext. exact Hc.
Qed.

Lemma node_exports_resolve_ext c1 c2 ex sub :
  cond_equiv c1 c2 -> node_exports_resolve ex sub c1 = node_exports_resolve ex sub c2.
Proof.
  intros Hc. unfold node_exports_resolve. destruct (ends_with_slash sub); [reflexivity|].
  generalize (norm ex). intros j. unfold exports_resolve_spec.
  match goal with |- (if ?c then _ else _) = _ => destruct c; [reflexivity|] end.
  destruct (str_eqb sub (s_ ".")).
  - match goal with |- match ?m with Some _ => _ | None => _ end = _ => destruct m; [|reflexivity] end.
    rewrite (target_resolve_spec_ext c1 c2 _ _ Hc). reflexivity.
  - destruct j; try reflexivity.
    match goal with |- (if ?c then _ else _) = _ => destruct c; [|reflexivity] end.
    rewrite (imports_exports_resolve_spec_ext c1 c2 _ _ _ Hc). reflexivity.
Qed.

Lemma node_imports_resolve_ext c1 c2 im sp :
  cond_equiv c1 c2 -> node_imports_resolve sp im c1 = node_imports_resolve sp im c2.
Proof.
  intros Hc. unfold node_imports_resolve. destruct (ends_with_slash sp); [reflexivity|].
  unfold imports_resolve_spec.
  match goal with |- (if ?c then _ else _) = _ => destruct c; [reflexivity|] end.
  destruct (norm im); try reflexivity.
  rewrite (imports_exports_resolve_spec_ext c1 c2 _ _ _ Hc). reflexivity.
Qed.

Lemma mem_str_app k a b : mem_str k (a ++ b) = mem_str k a || mem_str k b.
Proof. unfold mem_str. apply existsb_app. Qed.

(* esbuild's esmConditionsRequire / esmConditionsImport have the same members as
   Node's condition list for require / import *)
Lemma conds_require_equiv user : cond_equiv (conds_of KRequire user) (cjs_conds user).
Proof.
  intros k. unfold conds_of, cjs_conds. rewrite !mem_str_app. cbn [mem_str existsb].
  destruct (str_eqb k (s_ "default")), (str_eqb k (s_ "require")), (str_eqb k (s_ "node")), (mem_str k user); reflexivity.
Qed.

Lemma conds_import_equiv user : cond_equiv (conds_of KImport user) (esm_conds user).
Proof.
  intros k. unfold conds_of, esm_conds. rewrite !mem_str_app. cbn [mem_str existsb].
  destruct (str_eqb k (s_ "default")), (str_eqb k (s_ "import")), (str_eqb k (s_ "node")), (mem_str k user); reflexivity.
Qed.
