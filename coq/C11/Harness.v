(* C11 checkers evaluated by the correspondence run.  Each returns the indices
   of the cases on which the model disagrees with the output observed on the
   real esbuild code ([check_*_model]) or on which the specification disagrees
   with the output observed on the real Node 20 ([check_*_spec]). *)
From V Require Import Common.Base C11.Str C11.EsbuildResolve C11.NodeSpec.
Local Open Scope Z_scope.

Fixpoint mism_from {A} (f : A -> bool) (l : list A) (i : nat) : list nat :=
  match l with
  | [] => []
  | x :: r => if f x then mism_from f r (S i) else i :: mism_from f r (S i)
  end.
Definition mismatches {A} (f : A -> bool) (l : list A) : list nat := mism_from f l 0.

(* Cases are written with Coq string literals (fast to parse) and converted
   to byte strings here. *)
Inductive cj :=
| CNull | CStr (s : String.string) | CArr (l : list cj)
| CObj (l : list (String.string * cj)) | CBad.
Fixpoint to_json (c : cj) : json :=
  match c with
  | CNull => JNull
  | CStr s => JStr (s_ s)
  | CArr l => JArr (map to_json l)
  | CObj l => JObj (map (fun kv => (s_ (fst kv), to_json (snd kv))) l)
  | CBad => JBad
  end.
Notation sstr := String.string.

Definition res_eqb (a : str * status) (b : sstr * Z) : bool :=
  str_eqb (fst a) (s_ (fst b)) && (status_code (snd a) =? snd b).

(* (exports JSON, subpath, conditions, Go (resolved, status), Go after post conditions);
   status -1 = parseImportsExportsMap returned nil *)
Definition exp_model_ok (c : cj * sstr * list sstr * (sstr * Z) * (sstr * Z)) : bool :=
  let '(j0, sub0, conds0, r1, r2) := c in
  let j := to_json j0 in let sub := s_ sub0 in let conds := map s_ conds0 in
  match parse_root j with
  | None => snd r1 =? -1
  | Some p =>
      let m := exports_resolve [ch_slash] sub p conds in
      res_eqb m r1 && res_eqb (handle_post_conditions m) r2
  end.
Definition check_exp_model := mismatches exp_model_ok.

Definition imp_model_ok (c : cj * sstr * list sstr * (sstr * Z) * (sstr * Z)) : bool :=
  let '(j0, spec0, conds0, r1, r2) := c in
  let j := to_json j0 in let spec := s_ spec0 in let conds := map s_ conds0 in
  match parse_root_imports j with
  | None => snd r1 =? -1
  | Some p =>
      let m := imports_resolve spec p conds in
      res_eqb m r1 && res_eqb (handle_post_conditions m) r2
  end.
Definition check_imp_model := mismatches imp_model_ok.

(* (JSON object, Go's sorted expansion keys) *)
Definition keys_model_ok (c : cj * list sstr) : bool :=
  let '(j, ks) := c in
  list_eqb str_eqb (map fst (expansion_keys (parse_top (to_json j)))) (map s_ ks).
Definition check_keys_model := mismatches keys_model_ok.

(* (specifier, ok, name, subpath) *)
Definition name_model_ok (c : sstr * bool * sstr * sstr) : bool :=
  let '(s, ok, n, sub) := c in
  match parse_package_name (s_ s) with
  | None => negb ok
  | Some (n', sub') => ok && str_eqb (s_ n) n' && str_eqb (s_ sub) sub'
  end.
Definition check_name_model := mismatches name_model_ok.

(* (path, Go findInvalidSegment(path) != "") *)
Definition seg_model_ok (c : sstr * bool) : bool :=
  Bool.eqb (find_invalid_segment (s_ (fst c))) (snd c).
Definition check_seg_model := mismatches seg_model_ok.

(* (resolved, status, Go result) of esmHandlePostConditions *)
Definition status_of_code (z : Z) : status :=
  if z =? 3 then SExact else if z =? 4 then SExactEndsWithStar else if z =? 5 then SInexact
  else if z =? 6 then SPackageResolve else if z =? 2 then SNull else SPackagePathNotExported.
Definition post_model_ok (c : sstr * Z * (sstr * Z)) : bool :=
  let '(r, st, g) := c in res_eqb (handle_post_conditions (s_ r, status_of_code st)) g.
Definition check_post_model := mismatches post_model_ok.

(* Go path.Join(a, b) *)
Definition join_model_ok (c : sstr * sstr * sstr) : bool :=
  let '(a, b, g) := c in str_eqb (path_join2 (s_ a) (s_ b)) (s_ g).
Definition check_join_model := mismatches join_model_ok.

(* ---- specification vs the real Node ----
   observed kind: 0 = URL (relative href given), 1 = PACKAGE_RESOLVE was run
   (bare target of an imports map), 7.. = error code as in [err_code].
   A specification answer [OOut] (outside the modelled URL fragment) is not
   compared. *)
Definition outcome_ok (o : outcome) (k : Z) (u : str) : bool :=
  match o with
  | OResolved x => (k =? 0) && str_eqb x u
  | OPackageResolve _ => k =? 1
  | ORefused e => k =? err_code e
  | OOut => true
  end.
Definition exp_spec_ok (c : cj * sstr * list sstr * Z * sstr) : bool :=
  let '(j, sub, conds, k, u) := c in
  outcome_ok (node_exports_resolve (to_json j) (s_ sub) (map s_ conds)) k (s_ u).
Definition check_exp_spec := mismatches exp_spec_ok.
Definition imp_spec_ok (c : cj * sstr * list sstr * Z * sstr) : bool :=
  let '(j, sp, conds, k, u) := c in
  outcome_ok (node_imports_resolve (s_ sp) (to_json j) (map s_ conds)) k (s_ u).
Definition check_imp_spec := mismatches imp_spec_ok.

(* (specifier, Node accepted the package name, the name Node reported) *)
Definition name_spec_ok (c : sstr * bool * sstr) : bool :=
  let '(s, ok, n) := c in
  match package_name_spec (s_ s) with
  | None => negb ok
  | Some (n', _) => ok && str_eqb (s_ n) n'
  end.
Definition check_name_spec := mismatches name_spec_ok.

(* ---- second layer: resolution over a finite-map file system ---- *)
From V Require Import C11.Walk C11.NodeWalkSpec.
Local Open Scope string_scope.

(* package.json as written by the harness: (name, main, exports, imports) *)
Definition cpkg := (option sstr * option sstr * option cj * option cj)%type.
Inductive centry := CF | CD (pk : option cpkg).
Definition cfs := list (list sstr * centry).

Definition to_pkg (c : cpkg) : pkginfo :=
  let '(n, m, e, i) := c in
  mkPkg (option_map s_ n) (option_map s_ m)
        (match e with Some j => match to_json j with JNull => None | x => Some x end | None => None end)
        (match i with Some j => match to_json j with JNull => None | x => Some x end | None => None end).
Definition to_fs (c : cfs) : fsmap :=
  map (fun pe => (map s_ (fst pe), match snd pe with CF => EFile | CD pk => EDir (option_map to_pkg pk) end)) c.

Definition hbuiltin (s : str) : bool :=
  prefixb (s_ "node:") s
  || mem_str s (map s_ ["fs"; "path"; "os"; "url"; "util"; "module"; "http"; "https"; "events"; "stream"; "crypto"; "child_process"; "assert"; "buffer"; "zlib"]).

(* observed result: 0 = file (path segments given), 1 = builtin/external, 2 = failed,
   3 = rejected by an exports/imports map (Node side only) *)
Definition wcase := (bool * list sstr * sstr * Z * list sstr)%type.   (* isRequire, dir, specifier, kind, path *)

Definition walk_model_ok (fs : fsmap) (c : wcase) : bool :=
  let '(req, dir, sp, k, p) := c in
  match resolve hbuiltin fs (if req then KRequire else KImport) [] (map s_ dir) (s_ sp) with
  | RFile q => (k =? 0) && path_eqb q (map s_ p)
  | RBuiltin _ => k =? 1
  | RFail => k =? 2
  end.
Definition walk_spec_ok (fs : fsmap) (c : wcase) : bool :=
  let '(req, dir, sp, k, p) := c in
  if req then
    match require_resolve hbuiltin fs [] (map s_ dir) (s_ sp) with
    | NFile q => (k =? 0) && path_eqb q (map s_ p)
    | NBuiltin _ => k =? 1
    | NNotFound => k =? 2
    | NRejected _ => k =? 3
    | NOut => true
    end
  else
    match import_resolve hbuiltin fs [] (map s_ dir) (s_ sp) with
    | NFile q => (k =? 0) && path_eqb q (map s_ p)
    | NBuiltin _ => k =? 1
    | NNotFound => k =? 2
    | NRejected _ => k =? 3
    | NOut => true
    end.

Fixpoint check_trees (ok : fsmap -> wcase -> bool) (l : list (cfs * list wcase)) (t : nat) : list nat :=
  match l with
  | [] => []
  | (c, cases) :: r =>
      let fs := to_fs c in
      mism_from (ok fs) cases (t * 1000) ++ check_trees ok r (S t)
  end.
Definition check_walk_model (l : list (cfs * list wcase)) : list nat := check_trees walk_model_ok l 0.
Definition check_walk_spec (l : list (cfs * list wcase)) : list nat := check_trees walk_spec_ok l 0.
