(* C11, second layer: the exports/imports core inside the walk: esm_resolve
   (esmResolveAlgorithm + finalizeImportsExportsResult) against
   RESOLVE_ESM_MATCH o PACKAGE_EXPORTS_RESOLVE. *)
From V Require Import Common.Base C11.Str C11.EsbuildResolve C11.NodeSpec C11.SortLemmas C11.Scope
     C11.ResolveProofs C11.Walk C11.NodeWalkSpec C11.WalkProofs C11.CondsExt.
Local Open Scope string_scope.
Local Open Scope Z_scope.

(* ---- pjStatusInexact only comes from keys ending in "/" ---- *)
Lemma target_string_no_inexact url t sub pat imp : snd (target_string url t sub pat imp) <> SInexact.
Proof.
  unfold target_string.
  repeat match goal with |- context [if ?c then _ else _] => destruct c end; cbn [snd]; discriminate.
Qed.

Lemma obj_loop_no_inexact f conds final l :
  snd final <> SInexact -> Forall (fun kv => snd (f (snd kv)) <> SInexact) l ->
  snd (obj_loop f conds final l) <> SInexact.
Proof.
  intros Hf H. induction H as [|[k v] r Hv _ IH]; [exact Hf|].
  cbn [obj_loop snd] in *. destruct (str_eqb k default_s || mem_str k conds); [|exact IH].
  destruct (is_undefined (snd (f v))); [exact IH|exact Hv].
Qed.

Lemma arr_loop_no_inexact f l :
  Forall (fun v => snd (f v) <> SInexact) l ->
  forall lastE, lastE <> SInexact -> snd (arr_loop f l lastE) <> SInexact.
Proof.
  induction 1 as [|v r Hv _ IH]; intros lastE Hl; [exact Hl|].
  cbn [arr_loop]. destruct (snd (f v)) eqn:E; try (apply IH; congruence); try (rewrite E; discriminate).
  contradiction.
Qed.

Lemma target_resolve_no_inexact url sub pat imp conds :
  forall j, snd (target_resolve url (parse j) sub pat imp conds) <> SInexact.
Proof.
  induction j as [| s | | l IH | kvs IH] using json_ind'; try (cbn; discriminate).
  - apply target_string_no_inexact.
  - cbn [parse target_resolve]. destruct (map parse l) eqn:E; [cbn; discriminate|]. rewrite <- E.
    apply arr_loop_no_inexact; [|discriminate]. apply Forall_forall. intros v Hv.
    apply in_map_iff in Hv as [x [<- Hx]]. rewrite Forall_forall in IH. apply IH. exact Hx.
  - cbn [parse]. cbn [target_resolve]. apply obj_loop_no_inexact.
    + match goal with |- snd (if ?c then _ else _) <> _ => destruct c end; cbn; discriminate.
    + apply Forall_forall. intros kv Hkv. apply in_map_iff in Hkv as [x [<- Hx]]. cbn [snd].
      rewrite Forall_forall in IH. apply (IH x Hx).
Qed.

Lemma expansion_loop_no_inexact url mk imp conds (L : list (str * json)) :
  Forall (fun kv => has_byte ch_star (fst kv) = true) L ->
  snd (expansion_loop url mk (map pp L) imp conds) <> SInexact.
Proof.
  induction 1 as [|[k v] r Hk _ IH]; [cbn; discriminate|].
  cbn [map pp fst snd expansion_loop] in *. rewrite has_byte_index in Hk.
  destruct (index_byte ch_star k); [|discriminate].
  match goal with |- snd (if ?c then _ else _) <> _ => destruct c end; [|exact IH].
  apply target_resolve_no_inexact.
Qed.

Lemma imports_exports_no_inexact mk kvs url imp conds :
  forallb (fun kv => key_ok mk (fst kv)) kvs = true ->
  snd (imports_exports_resolve mk (parse (JObj kvs)) url imp conds) <> SInexact.
Proof.
  intros Hkeys. cbn [parse]. fold pp.
  unfold imports_exports_resolve. cbn [map_data expansion_keys].
  match goal with |- snd (match ?e with Some _ => _ | None => _ end) <> _ => destruct e as [tg|] eqn:Ee end.
  - (* an exact key: its value is the parse of a JSON value *)
    destruct (negb (ends_with_slash mk) && negb (has_byte ch_star mk)); [|discriminate].
    rewrite value_for_key_map in Ee. destruct (assoc_first mk kvs); [|discriminate].
    cbn in Ee. injection Ee as <-. apply target_resolve_no_inexact.
  - rewrite (filter_map_pp is_expansion_key), isort_by_map.
    apply expansion_loop_no_inexact.
    apply (Forall_isort_by (fun kv => has_byte ch_star (fst kv) = true)).
    apply Forall_forall. intros kv Hin. apply filter_In in Hin as [Hin He].
    rewrite forallb_forall in Hkeys. specialize (Hkeys kv Hin).
    destruct (key_ok_old _ _ Hkeys) as (Hs & _ & _). apply negb_true_iff in Hs.
    unfold is_expansion_key in He. rewrite Hs in He. exact He.
Qed.

Lemma exports_resolve_no_inexact j sub conds :
  in_scope_exports j sub = true ->
  snd (exports_resolve slash_s sub (parse_top j) conds) <> SInexact.
Proof.
  unfold in_scope_exports. intros H. apply andb_true_iff in H as [H Hkeys].
  apply andb_true_iff in H as [_ Hok].
  destruct j as [| t | l | kvs |].
  - cbn. destruct (str_eqb sub [ch_dot]); cbn; discriminate.
  - cbn [parse_top parse exports_resolve]. destruct (str_eqb sub [ch_dot]); [|cbn; discriminate].
    match goal with |- snd (if ?c then _ else _) <> _ => destruct c end; [cbn; discriminate|].
    apply (target_resolve_no_inexact slash_s [] false false conds (JStr t)).
  - change (parse_top (JArr l)) with (PArr (map parse l)). cbn [exports_resolve].
    destruct (str_eqb sub [ch_dot]); [|cbn; discriminate].
    match goal with |- snd (if ?c then _ else _) <> _ => destruct c end; [cbn; discriminate|].
    apply (target_resolve_no_inexact slash_s [] false false conds (JArr l)).
  - cbn [top_keys] in Hkeys. unfold parse_top.
    destruct (consistent_keys (map fst kvs)); [|cbn; discriminate].
    pose proof (imports_exports_no_inexact sub kvs slash_s false conds Hkeys) as HI.
    assert (Hp : parse (JObj kvs) = PObj (map pp kvs)
                   (isort_by less (filter (fun e => is_expansion_key (fst e)) (map pp kvs)))).
    { reflexivity. }
    rewrite Hp, exports_resolve_obj. cbv zeta. rewrite <- Hp.
    destruct (str_eqb sub [ch_dot]).
    + match goal with |- snd (match ?m with _ => _ end) <> _ => destruct m eqn:Em end; try (cbn; discriminate).
      all: match goal with |- snd (if ?c then _ else _) <> _ => destruct c end; try (cbn; discriminate).
      all: rewrite <- Em.
      all: match type of Em with
           | (if ?c then _ else _) = _ => destruct c
           end.
      all: try (rewrite Hp at 1; rewrite <- Hp; apply (target_resolve_no_inexact slash_s [] false false conds (JObj kvs))).
      all: rewrite value_for_key_map; destruct (assoc_first [ch_dot] kvs); cbn [option_map];
        [apply target_resolve_no_inexact | cbn; discriminate].
    + destruct (keys_start_with_dot (parse (JObj kvs))); [|cbn; discriminate].
      match goal with |- snd (if ?c then _ else _) <> _ => destruct c end; [cbn; discriminate|exact HI].
  - cbn. discriminate.
Qed.

(* ---- agreement of a model result with a specification result ----
   NOut = outside the modelled URL fragment: nothing is claimed *)
Definition agree (m : rres) (n : nres) : Prop :=
  match n with
  | NFile p => m = RFile p
  | NBuiltin s => m = RBuiltin s
  | NNotFound | NRejected _ => m = RFail
  | NOut => True
  end.

Lemma path_unescape_plain u : has_byte ch_pct u = false -> path_unescape u = Some u.
Proof.
  induction u as [|c r IH]; [reflexivity|]. unfold has_byte. cbn [existsb path_unescape].
  intros H. apply orb_false_iff in H as [H1 H2]. rewrite Z.eqb_sym, H1.
  unfold has_byte in IH. rewrite (IH H2). reflexivity.
Qed.

Lemma containsb_pct sub u :
  has_byte ch_pct u = false -> containsb (ch_pct :: sub) u = false.
Proof.
  induction u as [|c r IH]; [reflexivity|]. unfold has_byte. cbn [existsb containsb prefixb].
  intros H. apply orb_false_iff in H as [H1 H2]. rewrite H1. cbn [andb orb]. apply IH. exact H2.
Qed.

Lemma handle_post_plain u st :
  has_byte ch_pct u = false -> has_byte ch_bslash u = false ->
  (st = SExact \/ st = SExactEndsWithStar) ->
  handle_post_conditions (u, st) = if suffixb [ch_slash] u then (u, SUnsupportedDirectoryImport) else (u, st).
Proof.
  intros Hp Hb Hst. unfold handle_post_conditions. cbn [fst snd].
  rewrite (path_unescape_plain u Hp).
  change (s_ "%2f") with (ch_pct :: s_ "2f"). change (s_ "%2F") with (ch_pct :: s_ "2F").
  change (s_ "%5c") with (ch_pct :: s_ "5c"). change (s_ "%5C") with (ch_pct :: s_ "5C").
  rewrite !(containsb_pct _ u Hp). cbn [orb].
  assert (Hs : suffixb [ch_bslash] u = false).
  { destruct (suffixb [ch_bslash] u) eqn:E; [|reflexivity].
    assert (has_byte ch_bslash [ch_bslash] = true) as Hx by reflexivity.
    rewrite (suffixb_has_byte ch_bslash _ _ E Hx) in Hb. discriminate. }
  rewrite Hs, orb_false_r. destruct Hst as [-> | ->]; reflexivity.
Qed.

Lemma rewrite_lookup_none fs p :
  no_ts_rewrite fs ->
  first_some (fun q => match lookup fs q with Some e => Some (q, e) | None => None end) (rewrite_candidates p) = None.
Proof.
  intros Hts. pose proof (Hts p) as H. induction (rewrite_candidates p) as [|q r IH]; [reflexivity|].
  cbn [first_some]. rewrite (H q (or_introl eq_refl)). apply IH. intros q' Hq. apply H. right. exact Hq.
Qed.

Lemma parse_root_some j : j <> JNull -> parse_root j = Some (parse_top j).
Proof.
  intros H. unfold parse_root. destruct j; try reflexivity; [contradiction|].
  unfold parse_top. destruct (consistent_keys (map fst kvs)); reflexivity.
Qed.

(* esmResolveAlgorithm + finalizeImportsExportsResult vs RESOLVE_ESM_MATCH o PACKAGE_EXPORTS_RESOLVE *)
Lemma esm_resolve_agree fs k user pkgdir sub ex conds_n :
  no_ts_rewrite fs -> in_scope_exports ex sub = true -> ex <> JNull ->
  cond_equiv (conds_of k user) conds_n ->
  agree (of_opt (esm_resolve fs k user pkgdir sub ex))
        (RESOLVE_ESM_MATCH fs pkgdir (node_exports_resolve ex sub conds_n) (fun _ => NOut)).
Proof.
  intros Hts Hsc Hnn Hc. unfold esm_resolve. rewrite (parse_root_some ex Hnn).
  pose proof (exports_resolve_eq_partial_all ex sub (conds_of k user) Hsc) as Heq.
  pose proof (exports_resolve_no_inexact ex sub (conds_of k user) Hsc) as Hni.
  rewrite (node_exports_resolve_ext _ _ ex sub Hc) in Heq.
  change (exports_resolve [ch_slash]) with (exports_resolve slash_s).
  destruct (exports_resolve slash_s sub (parse_top ex) (conds_of k user)) as [res st].
  destruct (node_exports_resolve ex sub conds_n) as [u|s|e|]; cbn [RESOLVE_ESM_MATCH coarse] in *.
  - (* resolved *)
    assert (Hst : res = u /\ (st = SExact \/ st = SExactEndsWithStar)).
    { unfold outcome_of_model in Heq. cbn [fst snd] in *.
      destruct st; try discriminate; injection Heq as ->; auto. contradiction. }
    destruct Hst as [-> Hst].
    destruct (has_byte ch_pct u) eqn:Ep; [exact I|].
    destruct (has_byte ch_bslash u) eqn:Eb; [exact I|].
    destruct (prefixb [ch_slash] u) eqn:Es; [|exact I]. cbn [orb negb].
    rewrite (handle_post_plain u st Ep Eb Hst).
    destruct (suffixb [ch_slash] u); [reflexivity|].
    unfold finalize. cbn [fst snd]. rewrite Es.
    assert (Hfin : (match lookup fs (join_rel pkgdir u) with
                    | Some EFile => Some (join_rel pkgdir u)
                    | Some (EDir _) => None
                    | None =>
                        match first_some (fun q => match lookup fs q with Some e => Some (q, e) | None => None end)
                                         (rewrite_candidates (join_rel pkgdir u)) with
                        | Some (q, EFile) => Some q
                        | _ => None
                        end
                    end) = if isfile fs (join_rel pkgdir u) then Some (join_rel pkgdir u) else None).
    { unfold isfile. destruct (lookup fs (join_rel pkgdir u)) as [[|]|]; try reflexivity.
      rewrite (rewrite_lookup_none fs _ Hts). reflexivity. }
    destruct Hst as [-> | ->]; rewrite Hfin; destruct (isfile fs (join_rel pkgdir u)); reflexivity.
  - exact I.
  - (* refused *)
    unfold outcome_of_model in Heq. cbn [fst snd] in Heq.
    destruct st; try discriminate; reflexivity.
  - exact I.
Qed.

(* the "resolved" case shared by exports and imports *)
Lemma resolved_agree fs pdir u st pr :
  no_ts_rewrite fs -> (st = SExact \/ st = SExactEndsWithStar) ->
  agree (of_opt (finalize fs pdir (handle_post_conditions (u, st))))
        (RESOLVE_ESM_MATCH fs pdir (OResolved u) pr).
Proof.
  intros Hts Hst. cbn [RESOLVE_ESM_MATCH].
  destruct (has_byte ch_pct u) eqn:Ep; [exact I|].
  destruct (has_byte ch_bslash u) eqn:Eb; [exact I|].
  destruct (prefixb [ch_slash] u) eqn:Es; [|exact I]. cbn [orb negb].
  rewrite (handle_post_plain u st Ep Eb Hst).
  destruct (suffixb [ch_slash] u); [reflexivity|].
  unfold finalize. cbn [fst snd]. rewrite Es.
  assert (Hfin : (match lookup fs (join_rel pdir u) with
                  | Some EFile => Some (join_rel pdir u)
                  | Some (EDir _) => None
                  | None =>
                      match first_some (fun q => match lookup fs q with Some e => Some (q, e) | None => None end)
                                       (rewrite_candidates (join_rel pdir u)) with
                      | Some (q, EFile) => Some q
                      | _ => None
                      end
                  end) = if isfile fs (join_rel pdir u) then Some (join_rel pdir u) else None).
  { unfold isfile. destruct (lookup fs (join_rel pdir u)) as [[|]|]; try reflexivity.
    rewrite (rewrite_lookup_none fs _ Hts). reflexivity. }
  destruct Hst as [-> | ->]; rewrite Hfin; destruct (isfile fs (join_rel pdir u)); reflexivity.
Qed.

Lemma imports_resolve_no_inexact j sp conds :
  in_scope_imports j sp = true -> snd (imports_resolve sp (parse j) conds) <> SInexact.
Proof.
  unfold in_scope_imports. intros H. apply andb_true_iff in H as [H Hkeys].
  destruct j as [| t | l | kvs |]; try (cbn; discriminate).
  cbn [top_keys] in Hkeys.
  pose proof (imports_exports_no_inexact sp kvs slash_s true conds Hkeys) as HI.
  assert (Hp : parse (JObj kvs) = PObj (map pp kvs)
                 (isort_by less (filter (fun e => is_expansion_key (fst e)) (map pp kvs)))).
  { reflexivity. }
  rewrite Hp, imports_resolve_obj. cbv zeta. rewrite <- Hp.
  match goal with |- snd (if ?c then _ else _) <> _ => destruct c end; [cbn; discriminate|exact HI].
Qed.

Lemma parse_root_imports_some j : j <> JNull -> parse_root_imports j = Some (parse j).
Proof. intros H. unfold parse_root_imports. destruct j; try reflexivity. contradiction. Qed.
