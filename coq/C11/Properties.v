(* C11 property theorems. This file contains only statements closed by
   [exact lemma] and Print Assumptions.
   Model = C11.EsbuildResolve (mirrors internal/resolver/package_json.go),
   specification = C11.NodeSpec (Node 20's documented algorithm), scope
   predicates = C11.Scope.  Outcomes are compared in the property's classes:
   resolved to the same path / same package re-resolution / refused. *)
From V Require Import Common.Base C11.Str C11.EsbuildResolve C11.NodeSpec C11.SortLemmas C11.Scope C11.ResolveProofs C11.Walk C11.NodeWalkSpec C11.WalkProofs C11.CondsExt C11.WalkCore C11.WalkMain C11.WalkImport.
Local Open Scope string_scope.

(* esmParsePackageName = PACKAGE_RESOLVE steps 2, 4-7, for every specifier *)
Theorem parse_package_name_eq : forall spec, parse_package_name spec = package_name_spec spec.
Proof. exact parse_package_name_eq_all. Qed.
Print Assumptions parse_package_name_eq.

(* sort.Stable with expansionKeysArray.Less orders every list of pattern keys
   exactly as a stable sort by PATTERN_KEY_COMPARE does *)
Theorem pattern_order_eq : forall (l : list (str * json)),
  Forall (fun kv => has_byte ch_star (fst kv) = true) l ->
  isort_by less l = isort_by pkc_less l.
Proof. exact (@pattern_order_eq_all json). Qed.
Print Assumptions pattern_order_eq.

(* esmPackageTargetResolve = PACKAGE_TARGET_RESOLVE (exact result kinds) for
   every target value in scope, pattern match and condition set *)
Theorem target_resolve_eq_partial : forall imp conds pm, pm_ok_opt pm = true ->
  forall j, json_ok imp j = true ->
  proj (target_resolve slash_s (parse j) (sub_of pm) (pat_of pm) imp conds)
  = target_resolve_spec j pm imp conds.
Proof. exact target_resolve_eq. Qed.
Print Assumptions target_resolve_eq_partial.

(* esmPackageExportsResolve agrees with PACKAGE_EXPORTS_RESOLVE on the whole
   in-scope domain: every exports value, subpath and condition set *)
Theorem exports_resolve_eq_partial : forall j sub conds,
  in_scope_exports j sub = true ->
  outcome_of_model (exports_resolve slash_s sub (parse_top j) conds)
  = coarse (node_exports_resolve j sub conds).
Proof. exact exports_resolve_eq_partial_all. Qed.
Print Assumptions exports_resolve_eq_partial.

(* the same for esmPackageImportsResolve and PACKAGE_IMPORTS_RESOLVE *)
Theorem imports_resolve_eq_partial : forall j spec conds,
  in_scope_imports j spec = true ->
  outcome_of_model (imports_resolve spec (parse j) conds)
  = coarse (node_imports_resolve spec j conds).
Proof. exact imports_resolve_eq_partial_all. Qed.
Print Assumptions imports_resolve_eq_partial.

(* The domain of the two theorems above is EXACTLY: the documented exclusions
   (keys / specifiers ending in "/"), the URL fragment modelled by the
   specification (URL-plain characters, no empty segment), and the absence of
   every refuted shape that is still open: D1, D3, D5, D7, D8, D10 (C11.Scope
   [shape_*]); D2, D4 and D12 were repaired in /repo and their detectors are gone;
   nothing else is excluded (keys with several "*", any nesting, any condition set are in). *)
Theorem in_scope_exports_split : forall j mk,
  in_scope_exports j mk = documented_ok j mk && fragment_ok j mk && no_refuted_shape false j mk.
Proof. exact in_scope_exports_split_all. Qed.
Print Assumptions in_scope_exports_split.

Theorem in_scope_imports_split : forall j mk,
  in_scope_imports j mk = documented_ok j mk && fragment_ok j mk && no_refuted_shape true j mk.
Proof. exact in_scope_imports_split_all. Qed.
Print Assumptions in_scope_imports_split.

(* the fragment condition "no empty segment" is what makes Go's path.Join a
   concatenation: for every target "./rest" of ordinary segments *)
Theorem path_join_is_concatenation : forall rest,
  ordinary_path rest = true ->
  path_join2 [ch_slash] (ch_dot :: ch_slash :: rest) = ch_slash :: rest
  /\ path_clean (ch_slash :: rest) = ch_slash :: rest.
Proof. exact (fun rest H => conj (path_join_root_dot rest H) (path_clean_rooted rest H)). Qed.
Print Assumptions path_join_is_concatenation.

(* With only the documented exclusions (keys / specifiers ending in "/") the
   equality is FALSE of the faithful model: *)
Theorem exports_resolve_eq_refuted : exists j sub conds,
  documented_scope j sub = true /\
  outcome_of_model (exports_resolve slash_s sub (parse_top j) conds)
  <> coarse (node_exports_resolve j sub conds).
Proof. exact exports_resolve_eq_refuted_all. Qed.
Print Assumptions exports_resolve_eq_refuted.

Theorem imports_resolve_eq_refuted : exists j sp conds,
  documented_scope j sp = true /\
  outcome_of_model (imports_resolve sp (parse j) conds)
  <> coarse (node_imports_resolve sp j conds).
Proof. exact imports_resolve_eq_refuted_all. Qed.
Print Assumptions imports_resolve_eq_refuted.

(* one witness per excluded class (each is replayed on the real esbuild and
   the real Node by the harness, family c11-witness) *)
Theorem refuted_pattern_base_equals_subpath :
  model_exports w_pattern_base (s_ "./foo") = OResolved (s_ "/lib/foo.js")
  /\ spec_exports w_pattern_base (s_ "./foo") = ORefused ENotExported.
Proof. exact refuted_pattern_base. Qed.
Print Assumptions refuted_pattern_base_equals_subpath.

Theorem refuted_pattern_base_resolves_other_file :
  model_exports w_pattern_base2 (s_ "./foo") = OResolved (s_ "/lib/foo.js")
  /\ spec_exports w_pattern_base2 (s_ "./foo") = OResolved (s_ "/x/o.js").
Proof. exact refuted_pattern_base_other_file. Qed.
Print Assumptions refuted_pattern_base_resolves_other_file.

(* D2 was repaired in /repo (e3ac7b5): the model follows the fixed
   findInvalidSegment / findInvalidSubpathSegment and the former witnesses agree *)
Theorem fixed_invalid_segment_case_insensitive :
  model_exports w_upper (s_ "./x") = ORefused ENotExported
  /\ spec_exports w_upper (s_ "./x") = ORefused ENotExported.
Proof. exact fixed_segment_case. Qed.
Print Assumptions fixed_invalid_segment_case_insensitive.

Theorem fixed_invalid_segment_percent_encoded :
  model_exports w_pct (s_ "./x") = ORefused ENotExported
  /\ spec_exports w_pct (s_ "./x") = ORefused ENotExported.
Proof. exact fixed_segment_percent. Qed.
Print Assumptions fixed_invalid_segment_percent_encoded.

Theorem fixed_invalid_segment_first_of_pattern_match :
  model_exports w_star_all (s_ "./../secret.js") = ORefused ENotExported
  /\ spec_exports w_star_all (s_ "./../secret.js") = ORefused ENotExported
  /\ model_exports w_star_all (s_ "./node_modules/s.js") = ORefused ENotExported
  /\ spec_exports w_star_all (s_ "./node_modules/s.js") = ORefused ENotExported.
Proof. exact fixed_segment_first. Qed.
Print Assumptions fixed_invalid_segment_first_of_pattern_match.

Theorem refuted_duplicate_json_key :
  model_exports w_dup (s_ "./a") = OResolved (s_ "/x.js")
  /\ spec_exports w_dup (s_ "./a") = OResolved (s_ "/y.js").
Proof. exact refuted_duplicate_key. Qed.
Print Assumptions refuted_duplicate_json_key.

(* D4 was repaired in /repo (4e82ea6) for nested objects: the former witness is now
   inside the domain of exports_resolve_eq_partial and resolves like Node *)
Theorem fixed_nested_object_mixed_keys :
  model_exports w_mixed (s_ "./a") = OResolved (s_ "/x.js")
  /\ spec_exports w_mixed (s_ "./a") = OResolved (s_ "/x.js")
  /\ in_scope_exports w_mixed (s_ "./a") = true.
Proof. exact fixed_nested_mixed_keys. Qed.
Print Assumptions fixed_nested_object_mixed_keys.

(* the rest of D4 (top-level object of "imports") was repaired by 9a0cc2e *)
Theorem fixed_imports_top_level_mixed_keys :
  model_imports w_imports_mixed (s_ "#a") = OResolved (s_ "/a.js")
  /\ spec_imports w_imports_mixed (s_ "#a") = OResolved (s_ "/a.js")
  /\ in_scope_imports w_imports_mixed (s_ "#a") = true.
Proof. exact fixed_imports_top_mixed. Qed.
Print Assumptions fixed_imports_top_level_mixed_keys.

Theorem refuted_numeric_condition_key :
  model_exports w_index (s_ "./a") = OResolved (s_ "/y.js")
  /\ spec_exports w_index (s_ "./a") = ORefused ENotExported.
Proof. exact refuted_index_key. Qed.
Print Assumptions refuted_numeric_condition_key.

Theorem refuted_imports_specifier_hash_slash :
  model_imports w_hash_slash (s_ "#/a") = OResolved (s_ "/a.js")
  /\ spec_imports w_hash_slash (s_ "#/a") = ORefused ENotExported.
Proof. exact refuted_imports_hash_slash. Qed.
Print Assumptions refuted_imports_specifier_hash_slash.

Theorem refuted_imports_target_is_url :
  model_imports w_url_target (s_ "#fs") = OPackageResolve (s_ "node:fs")
  /\ spec_imports w_url_target (s_ "#fs") = ORefused ENotExported.
Proof. exact refuted_imports_url_target. Qed.
Print Assumptions refuted_imports_target_is_url.

(* ================= second layer: the algorithm around the core =================
   File system = finite map (C11.Walk).  Hypotheses, visible in every statement:
   [wf_fs] an entry exists only inside an existing directory; [no_ts_rewrite] no
   TypeScript file that esbuild's ".js" -> ".ts" rewrite could pick up.  Both have
   decidable sufficient conditions ([wf_fsb], [no_tsb]). *)

(* loadAsFile = LOAD_AS_FILE, loadAsIndex = LOAD_INDEX, loadAsDirectory (with the
   "main" field) = LOAD_AS_DIRECTORY: every file system, every path *)
Theorem load_as_file_eq : forall fs, no_ts_rewrite fs ->
  forall p, load_as_file fs p = LOAD_AS_FILE fs p.
Proof. exact WalkProofs.load_as_file_eq. Qed.
Print Assumptions load_as_file_eq.

Theorem load_as_index_eq : forall fs d, load_as_index fs d = LOAD_INDEX fs d.
Proof. exact WalkProofs.load_as_index_eq. Qed.
Print Assumptions load_as_index_eq.

Theorem load_as_directory_eq : forall fs, wf_fs fs -> no_ts_rewrite fs ->
  forall d, load_as_directory fs d = LOAD_AS_DIRECTORY fs d.
Proof. exact WalkProofs.load_as_directory_eq. Qed.
Print Assumptions load_as_directory_eq.

(* require(X) for relative and absolute X (steps 2-3 of "require(X) from module at
   path Y"): esbuild's resolveWithoutSymlinks gives exactly Node's answer.
   The bare and "#" branches are package_resolve_eq_partial / package_imports_resolve_eq_partial below. *)
Theorem require_relative_eq_partial : forall builtin fs, wf_fs fs -> no_ts_rewrite fs ->
  forall user dir x, is_package_path x = false -> has_trailing_slash x = false ->
  nres_of (resolve builtin fs KRequire user dir x) = require_resolve builtin fs user dir x.
Proof. exact require_relative_eq_all. Qed.
Print Assumptions require_relative_eq_partial.

Theorem wf_fsb_is_sufficient : forall fs, wf_fsb fs = true -> wf_fs fs.
Proof. exact wf_fsb_sound. Qed.
Print Assumptions wf_fsb_is_sufficient.

Theorem no_tsb_is_sufficient : forall fs, no_tsb fs = true -> no_ts_rewrite fs.
Proof. exact no_tsb_sound. Qed.
Print Assumptions no_tsb_is_sufficient.

(* D12 was repaired in /repo (6e6e7fa): esbuild's nearest-package.json search is
   now exactly Node's package scope lookup, for every file system and directory,
   and the former witness agrees *)
Theorem nearest_package_json_is_package_scope : forall fs fuel dir,
  nearest_pkg fs fuel dir = package_scope fs fuel dir.
Proof. exact nearest_is_scope. Qed.
Print Assumptions nearest_package_json_is_package_scope.

Theorem fixed_package_scope_boundary :
  wf_fsb w_scope_fs = true /\ no_tsb w_scope_fs = true
  /\ resolve (fun _ => false) w_scope_fs KRequire [] (pw_ ["node_modules"; "nopkg"]) (s_ "rootpkg")
     = RFile (pw_ ["node_modules"; "rootpkg"; "copy.js"])
  /\ require_resolve (fun _ => false) w_scope_fs [] (pw_ ["node_modules"; "nopkg"]) (s_ "rootpkg")
     = NFile (pw_ ["node_modules"; "rootpkg"; "copy.js"]).
Proof. exact fixed_scope_boundary. Qed.
Print Assumptions fixed_package_scope_boundary.

(* ---- bare and "#" specifiers: loadNodeModules / loadPackageImports against
   LOAD_PACKAGE_SELF / LOAD_NODE_MODULES / LOAD_PACKAGE_IMPORTS ----
   [agree m n]: Node resolves to p => esbuild resolves to p; Node answers
   "builtin" => so does esbuild; Node fails (not found, or rejected by an
   exports/imports map) => esbuild fails; nothing is claimed when the
   specification leaves the modelled URL fragment (NOut).
   Hypotheses, each excluding one recorded shape or a modelling limit:
     wf_fs, no_ts_rewrite          file system well formed / no TypeScript rewrite target;
     no_case_collision             D11 (the model looks names up exactly, esbuild case-insensitively);
     bare_ok                       valid package name and no "", ".", ".." segment in the specifier
                                   (specifiers without a valid name: package_resolve_invalid_name_eq_partial);
     pkgs_ok / pkgs_imports_ok     every exports / imports map in the tree is in the domain of the core
                                   theorems (documented exclusions, URL fragment, no refuted shape D1..D10);
     remap_ok                      the same for a bare target an imports map remaps to, which must not be
                                   a builtin name (require('#x') with "#x":"fs" FAILS in Node 20: the node:
                                   URL cannot be turned into a path; esbuild answers the builtin; neither a
                                   resolution nor a rejection by the map, so the property is silent).
   The result depends on the condition list only through membership
   ([spec_depends_on_condition_membership]), which connects esbuild's condition
   sets with Node's ["node"; "require"] ++ user. *)
Theorem spec_depends_on_condition_membership : forall c1 c2 ex sub,
  cond_equiv c1 c2 -> node_exports_resolve ex sub c1 = node_exports_resolve ex sub c2.
Proof. exact node_exports_resolve_ext. Qed.
Print Assumptions spec_depends_on_condition_membership.

Theorem condition_sets_agree : forall user,
  cond_equiv (conds_of KRequire user) (cjs_conds user) /\ cond_equiv (conds_of KImport user) (esm_conds user).
Proof. exact (fun user => conj (conds_require_equiv user) (conds_import_equiv user)). Qed.
Print Assumptions condition_sets_agree.

(* the node_modules walk: every enclosing directory, every file system *)
Theorem node_modules_walk_eq_partial : forall fs, wf_fs fs -> no_ts_rewrite fs ->
  forall user x, bare_ok x = true -> pkgs_ok fs x ->
  forall fuel dir,
  agree (of_opt (nm_walk fs KRequire user fuel dir x)) (LOAD_NODE_MODULES fs (cjs_conds user) fuel x dir).
Proof. exact nm_walk_agree. Qed.
Print Assumptions node_modules_walk_eq_partial.

Theorem package_resolve_eq_partial : forall builtin fs, wf_fs fs -> no_ts_rewrite fs ->
  no_case_collision fs = true ->
  forall user dir x,
  is_package_path x = true -> prefixb [ch_hash] x = false ->
  bare_ok x = true -> pkgs_ok fs x ->
  agree (resolve builtin fs KRequire user dir x) (require_resolve builtin fs user dir x).
Proof. exact (fun b fs Hw Ht _ => package_resolve_bare_all b fs Hw Ht). Qed.
Print Assumptions package_resolve_eq_partial.

Theorem package_imports_resolve_eq_partial : forall builtin fs, wf_fs fs -> no_ts_rewrite fs ->
  no_case_collision fs = true ->
  forall user dir x,
  is_package_path x = true -> prefixb [ch_hash] x = true ->
  pkgs_imports_ok fs x -> remap_ok builtin fs user x ->
  bare_ok x = true -> pkgs_ok fs x ->
  agree (resolve builtin fs KRequire user dir x) (require_resolve builtin fs user dir x).
Proof. exact (fun b fs Hw Ht _ => package_resolve_imports_all b fs Hw Ht). Qed.
Print Assumptions package_imports_resolve_eq_partial.

(* D13 was repaired in /repo (d8f247a): a specifier WITHOUT a valid package name
   ("@foo", ".x/y", "a%b") is never a self reference; for such specifiers esbuild
   equals Node's CommonJS loader on every file system, and the former witness agrees *)
Theorem package_resolve_invalid_name_eq_partial : forall builtin fs, wf_fs fs -> no_ts_rewrite fs ->
  no_case_collision fs = true ->
  forall user x, package_name_spec x = None -> plain_spec x = true ->
  forall dir, is_package_path x = true -> prefixb [ch_hash] x = false ->
  agree (resolve builtin fs KRequire user dir x) (require_resolve builtin fs user dir x).
Proof. exact (fun b fs Hw Ht _ => package_resolve_invalid_name_all b fs Hw Ht). Qed.
Print Assumptions package_resolve_invalid_name_eq_partial.

Theorem fixed_nameless_self_reference_witness :
  wf_fsb w_nameless_fs = true /\ no_tsb w_nameless_fs = true /\ no_case_collision w_nameless_fs = true
  /\ package_name_spec (s_ "@foo") = None /\ plain_spec (s_ "@foo") = true
  /\ resolve (fun _ => false) w_nameless_fs KRequire [] [] (s_ "@foo") = RFile (pw_ ["node_modules"; "@foo"; "index.js"])
  /\ require_resolve (fun _ => false) w_nameless_fs [] [] (s_ "@foo") = NFile (pw_ ["node_modules"; "@foo"; "index.js"]).
Proof. exact fixed_nameless_self_reference. Qed.
Print Assumptions fixed_nameless_self_reference_witness.

(* ---- ES-module entry (import): relative and absolute specifiers, every file
   system, no hypothesis: whenever Node's ESM_RESOLVE resolves (no extension
   search, no directory index), esbuild resolves to the same file.
   Bare and "#" specifiers of import: import_package_resolve_partial /
   import_imports_resolve_partial below. *)
Theorem import_relative_partial : forall builtin fs user dir x,
  builtin x = false -> is_package_path x = false ->
  agree_import (resolve builtin fs KImport user dir x) (import_resolve builtin fs user dir x).
Proof. exact import_relative_all. Qed.
Print Assumptions import_relative_partial.

(* the import statement for bare specifiers is FALSE of the faithful model
   without the "no shadowing file" hypothesis (finding D14, replayed by the
   harness witness "import-file-shadows-package-directory") *)
Theorem import_resolve_eq_refuted_file_shadows_package :
  wf_fsb w_shadow_fs = true /\ no_tsb w_shadow_fs = true /\ no_case_collision w_shadow_fs = true
  /\ bare_ok (s_ "dep") = true
  /\ resolve (fun _ => false) w_shadow_fs KImport [] [] (s_ "dep") = RFile (pw_ ["node_modules"; "dep.js"])
  /\ import_resolve (fun _ => false) w_shadow_fs [] [] (s_ "dep") = NFile (pw_ ["node_modules"; "dep"; "main.js"])
  /\ require_resolve (fun _ => false) w_shadow_fs [] [] (s_ "dep") = NFile (pw_ ["node_modules"; "dep.js"]).
Proof. exact refuted_import_file_shadows_package. Qed.
Print Assumptions import_resolve_eq_refuted_file_shadows_package.

(* ---- ES-module entry, bare and "#" specifiers: loadNodeModules (import kind)
   against PACKAGE_RESOLVE / PACKAGE_SELF_RESOLVE / PACKAGE_IMPORTS_RESOLVE with
   the legacy main lookup, every finite file system.
   [agree_import]: Node's import resolves to p => esbuild resolves to p; Node
   rejects (exports/imports map, invalid specifier) => esbuild refuses; builtin =>
   builtin; nothing is required when Node only fails to find a file (esbuild
   probes extensions and directory indexes for import too).
   Further hypotheses (beyond those of package_resolve_eq_partial):
     no_nested_nm      no node_modules directory directly inside a node_modules directory
                       (Node's ESM walk looks there, esbuild skips it);
     no_module_file    D14: no file node_modules/<name>(.js|.json|.node) next to or instead
                       of the package directory;
     for "#": the package scope has an "imports" map (otherwise Node answers Package Import
     Not Defined while esbuild goes on to node_modules/#...), builtin x = false. *)
Theorem import_package_resolve_partial : forall builtin fs, wf_fs fs -> no_ts_rewrite fs -> no_nested_nm fs ->
  no_case_collision fs = true ->
  forall user dir x,
  is_package_path x = true -> prefixb [ch_hash] x = false ->
  bare_ok x = true -> pkgs_ok fs x -> no_module_file fs x ->
  agree_import (resolve builtin fs KImport user dir x) (import_resolve builtin fs user dir x).
Proof. exact (fun b fs Hw Ht Hn _ => import_bare_all b fs Hw Ht Hn). Qed.
Print Assumptions import_package_resolve_partial.

Theorem import_imports_resolve_partial : forall builtin fs, wf_fs fs -> no_ts_rewrite fs -> no_nested_nm fs ->
  no_case_collision fs = true ->
  forall user dir x pdir pk im,
  is_package_path x = true -> prefixb [ch_hash] x = true -> builtin x = false ->
  package_scope fs (length dir) dir = Some (pdir, pk) -> pk_imports pk = Some im ->
  pkgs_imports_ok fs x -> import_remap_ok builtin fs user x ->
  agree_import (resolve builtin fs KImport user dir x) (import_resolve builtin fs user dir x).
Proof. exact (fun b fs Hw Ht Hn _ => import_imports_all b fs Hw Ht Hn). Qed.
Print Assumptions import_imports_resolve_partial.

Theorem import_hypotheses_are_decidable : forall fs x,
  (no_nested_nmb fs = true -> no_nested_nm fs) /\ (no_module_fileb fs x = true -> no_module_file fs x).
Proof. exact (fun fs x => conj (no_nested_nmb_sound fs) (no_module_fileb_sound fs x)). Qed.
Print Assumptions import_hypotheses_are_decidable.

(* without "the scope has an imports map" the "#" statement for import is false of
   the faithful model (finding D15, harness witness "import-hash-specifier-without-imports-map") *)
Theorem import_imports_refuted_without_imports_map :
  wf_fsb w_hash_fs = true /\ no_tsb w_hash_fs = true /\ no_nested_nmb w_hash_fs = true
  /\ resolve (fun _ => false) w_hash_fs KImport [] [] (s_ "#x") = RFile (pw_ ["node_modules"; "#x"; "index.js"])
  /\ import_resolve (fun _ => false) w_hash_fs [] [] (s_ "#x") = NRejected EImportNotDefined.
Proof. exact refuted_import_hash_without_imports. Qed.
Print Assumptions import_imports_refuted_without_imports_map.
