(* C11, second layer: esbuild's resolver model (Walk.v) against Node's
   CommonJS algorithm (NodeWalkSpec.v) over all finite-map file systems. *)
From V Require Import Common.Base C11.Str C11.EsbuildResolve C11.NodeSpec C11.SortLemmas C11.Scope
     C11.ResolveProofs C11.Walk C11.NodeWalkSpec.
Local Open Scope string_scope.
Local Open Scope Z_scope.

Section Layer2.
  Variable builtin : str -> bool.
  Variable fs : fsmap.

  (* well-formed file system: an entry exists only inside an existing directory *)
  Definition wf_fs : Prop := forall p x e, lookup fs (p ++ [x]) = Some e -> isdir fs p = true.
  (* no TypeScript file that esbuild's ".js" -> ".ts" rewrite could pick up *)
  Definition no_ts_rewrite : Prop := forall p q, In q (rewrite_candidates p) -> lookup fs q = None.

  Hypothesis Hwf : wf_fs.
  Hypothesis Hts : no_ts_rewrite.

  Lemma isfile_parent p x : isfile fs (p ++ [x]) = true -> isdir fs p = true.
  Proof.
    unfold isfile. destruct (lookup fs (p ++ [x])) as [e|] eqn:E; [|discriminate].
    intros _. eapply Hwf. exact E.
  Qed.

  Lemma rewrite_none p : first_some (try_file fs) (rewrite_candidates p) = None.
  Proof.
    pose proof (Hts p) as H. induction (rewrite_candidates p) as [|q r IH]; [reflexivity|].
    cbn [first_some]. unfold try_file at 1, isfile. rewrite (H q (or_introl eq_refl)).
    apply IH. intros q' Hq. apply H. right. exact Hq.
  Qed.

  (* loadAsFile = LOAD_AS_FILE *)
  Lemma load_as_file_eq p : load_as_file fs p = LOAD_AS_FILE fs p.
  Proof.
    unfold load_as_file, LOAD_AS_FILE. rewrite rewrite_none. unfold exts. cbn [first_some].
    unfold try_file, orelse.
    destruct (isfile fs p); [reflexivity|].
    destruct (isfile fs (add_ext p (s_ ".js"))); [reflexivity|].
    destruct (isfile fs (add_ext p (s_ ".json"))); [reflexivity|].
    destruct (isfile fs (add_ext p (s_ ".node"))); reflexivity.
  Qed.

  (* loadAsIndex = LOAD_INDEX *)
  Lemma load_as_index_eq d : load_as_index fs d = LOAD_INDEX fs d.
  Proof.
    unfold load_as_index, LOAD_INDEX, exts. cbn [first_some]. unfold try_file.
    change (s_ "index" ++ s_ ".js") with (s_ "index.js").
    change (s_ "index" ++ s_ ".json") with (s_ "index.json").
    change (s_ "index" ++ s_ ".node") with (s_ "index.node").
    unfold path, str.
    repeat match goal with |- context [isfile fs ?p] => destruct (isfile fs p) end; reflexivity.
  Qed.

  Lemma LOAD_INDEX_nodir d : isdir fs d = false -> LOAD_INDEX fs d = None.
  Proof.
    intros H. unfold LOAD_INDEX.
    destruct (isfile fs (d ++ [s_ "index.js"])) eqn:E1; [rewrite (isfile_parent _ _ E1) in H; discriminate|].
    destruct (isfile fs (d ++ [s_ "index.json"])) eqn:E2; [rewrite (isfile_parent _ _ E2) in H; discriminate|].
    destruct (isfile fs (d ++ [s_ "index.node"])) eqn:E3; [rewrite (isfile_parent _ _ E3) in H; discriminate|].
    reflexivity.
  Qed.

  Lemma pkg_of_isdir d pk : pkg_of fs d = Some pk -> isdir fs d = true.
  Proof.
    unfold pkg_of, isdir. destruct d; [reflexivity|].
    destruct (lookup fs (s :: d)) as [[|o]|]; try discriminate. reflexivity.
  Qed.

  (* loadAsDirectory = LOAD_AS_DIRECTORY *)
  Lemma load_as_directory_eq d : load_as_directory fs d = LOAD_AS_DIRECTORY fs d.
  Proof.
    unfold load_as_directory, LOAD_AS_DIRECTORY, load_as_main.
    destruct (pkg_of fs d) as [pk|] eqn:Epk.
    - rewrite (pkg_of_isdir _ _ Epk). destruct (pk_main pk) as [m|].
      + rewrite load_as_file_eq. unfold orelse.
        destruct (LOAD_AS_FILE fs (join_rel d m)); [reflexivity|].
        destruct (isdir fs (join_rel d m)) eqn:Ed.
        * rewrite !load_as_index_eq. destruct (LOAD_INDEX fs (join_rel d m)); reflexivity.
        * rewrite (LOAD_INDEX_nodir _ Ed). apply load_as_index_eq.
      + cbn [orelse]. apply load_as_index_eq.
    - destruct (isdir fs d) eqn:Ed.
      + cbn [orelse]. apply load_as_index_eq.
      + symmetry. apply LOAD_INDEX_nodir. exact Ed.
  Qed.

  Definition LOAD_FILE_OR_DIR (p : path) : option path :=
    match LOAD_AS_FILE fs p with Some f => Some f | None => LOAD_AS_DIRECTORY fs p end.

  Lemma load_as_file_or_directory_eq p : load_as_file_or_directory fs p = LOAD_FILE_OR_DIR p.
  Proof.
    unfold load_as_file_or_directory, LOAD_FILE_OR_DIR, orelse.
    rewrite load_as_file_eq, load_as_directory_eq. destruct (LOAD_AS_FILE fs p); reflexivity.
  Qed.

  Definition nres_of (r : rres) : nres :=
    match r with RFile p => NFile p | RBuiltin s => NBuiltin s | RFail => NNotFound end.

  (* relative and absolute specifiers: require(X) steps 2-3, all file systems *)
  Lemma require_relative_eq_all user dir x :
    is_package_path x = false -> has_trailing_slash x = false ->
    nres_of (resolve builtin fs KRequire user dir x) = require_resolve builtin fs user dir x.
  Proof.
    intros Hpp Hts'. unfold resolve, require_resolve. rewrite Hpp, Hts'. cbn [negb].
    destruct (builtin x); [reflexivity|].
    destruct (prefixb (s_ "/") x) eqn:E1.
    - rewrite load_as_file_or_directory_eq. unfold LOAD_FILE_OR_DIR.
      destruct (LOAD_AS_FILE fs (abs_path x)); [reflexivity|].
      destruct (LOAD_AS_DIRECTORY fs (abs_path x)); reflexivity.
    - unfold is_package_path in Hpp. rewrite E1 in Hpp. cbn [negb andb] in Hpp.
      assert (Hc : prefixb (s_ "./") x || prefixb (s_ "../") x || str_eqb x (s_ ".") || str_eqb x (s_ "..") = true).
      { destruct (prefixb (s_ "./") x), (prefixb (s_ "../") x), (str_eqb x (s_ ".")), (str_eqb x (s_ ".."));
          try reflexivity; discriminate Hpp. }
      rewrite Hc. rewrite load_as_file_or_directory_eq. unfold LOAD_FILE_OR_DIR.
      destruct (LOAD_AS_FILE fs (join_rel dir x)); [reflexivity|].
      destruct (LOAD_AS_DIRECTORY fs (join_rel dir x)); reflexivity.
  Qed.
End Layer2.

(* ---- decidable sufficient conditions for the two file-system hypotheses ---- *)
Lemma path_eqb_eq a b : path_eqb a b = true <-> a = b.
Proof. apply list_eqb_eq. intros x y. apply str_eqb_eq. Qed.

Lemma lookup_In fs p e : lookup fs p = Some e -> In (p, e) fs.
Proof.
  induction fs as [|[q e'] r IH]; [discriminate|]. cbn [lookup].
  destruct (path_eqb q p) eqn:E.
  - intros H. injection H as <-. apply path_eqb_eq in E. subst. left. reflexivity.
  - intros H. right. apply IH. exact H.
Qed.

Definition wf_fsb (fs : fsmap) : bool := forallb (fun pe => isdir fs (removelast (fst pe))) fs.

Lemma wf_fsb_sound fs : wf_fsb fs = true -> wf_fs fs.
Proof.
  intros H p x e Hl. apply lookup_In in Hl. unfold wf_fsb in H. rewrite forallb_forall in H.
  specialize (H _ Hl). cbn [fst] in H. rewrite removelast_last in H. exact H.
Qed.

Definition ts_exts : list str := [s_ ".ts"; s_ ".tsx"; s_ ".mts"; s_ ".cts"].
Definition has_ts_ext (b : str) : bool := existsb (fun e => suffixb e b) ts_exts.
Definition no_tsb (fs : fsmap) : bool := forallb (fun pe => negb (has_ts_ext (base_name (fst pe)))) fs.

Lemma suffixb_app x e : suffixb e (x ++ e) = true.
Proof.
  unfold suffixb. rewrite app_length. apply andb_true_iff. split; [apply Nat.leb_le; lia|].
  replace (length x + length e - length e)%nat with (length x) by lia.
  rewrite skipn_app, skipn_all, Nat.sub_diag. cbn [skipn app]. apply str_eqb_refl.
Qed.

Lemma candidates_have_ts_ext p q : In q (rewrite_candidates p) -> has_ts_ext (base_name q) = true.
Proof.
  unfold rewrite_candidates.
  destruct (first_some _ rewritten_exts) as [es|] eqn:Ef; [|contradiction].
  destruct (last_index_byte ch_dot (base_name p)) as [i|]; [|contradiction].
  intros Hin. apply in_map_iff in Hin as [e [<- He]].
  unfold base_name. rewrite last_last.
  assert (Hts : In e ts_exts).
  { unfold rewritten_exts in Ef. cbn [first_some fst snd] in Ef.
    repeat match type of Ef with
           | (match (if ?c then _ else _) with _ => _ end) = _ => destruct c
           end; try discriminate; injection Ef as <-; cbn in He; cbn; tauto. }
  unfold has_ts_ext. apply existsb_exists. exists e. split; [exact Hts|apply suffixb_app].
Qed.

Lemma no_tsb_sound fs : no_tsb fs = true -> no_ts_rewrite fs.
Proof.
  intros H p q Hq. destruct (lookup fs q) as [e|] eqn:El; [|reflexivity].
  apply lookup_In in El. unfold no_tsb in H. rewrite forallb_forall in H.
  specialize (H _ El). cbn [fst] in H. rewrite (candidates_have_ts_ext p q Hq) in H. discriminate.
Qed.

(* ---- the former D12 witness: a directory without package.json inside node_modules ---- *)
Definition pw_ (l : list String.string) : path := map s_ l.
Definition w_scope_fs : fsmap :=
  [ (pw_ [], EDir (Some (mkPkg (Some (s_ "rootpkg")) None (Some (JObj [(s_ ".", JStr (s_ "./own.js"))])) None)));
    (pw_ ["own.js"], EFile);
    (pw_ ["node_modules"], EDir None);
    (pw_ ["node_modules"; "rootpkg"],
     EDir (Some (mkPkg (Some (s_ "rootpkg")) None (Some (JObj [(s_ ".", JStr (s_ "./copy.js"))])) None)));
    (pw_ ["node_modules"; "rootpkg"; "copy.js"], EFile);
    (pw_ ["node_modules"; "nopkg"], EDir None);
    (pw_ ["node_modules"; "nopkg"; "index.js"], EFile) ].

(* D12 was repaired in /repo (6e6e7fa): the model follows the fixed walk and the former witness now agrees *)
Lemma fixed_scope_boundary :
  wf_fsb w_scope_fs = true /\ no_tsb w_scope_fs = true
  /\ resolve (fun _ => false) w_scope_fs KRequire [] (pw_ ["node_modules"; "nopkg"]) (s_ "rootpkg")
     = RFile (pw_ ["node_modules"; "rootpkg"; "copy.js"])
  /\ require_resolve (fun _ => false) w_scope_fs [] (pw_ ["node_modules"; "nopkg"]) (s_ "rootpkg")
     = NFile (pw_ ["node_modules"; "rootpkg"; "copy.js"]).
Proof. repeat split; vm_compute; reflexivity. Qed.
