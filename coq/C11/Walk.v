(* C11, second layer: the algorithm around the exports/imports core.
   File system = finite map from absolute paths (lists of segments) to entries;
   a directory entry carries the parsed package.json of that directory (name,
   main, exports, imports) when it has one.

   Model of /repo/internal/resolver/resolver.go for platform=node, main fields
   ["main"], extension order [".js"; ".json"; ".node"], no tsconfig / browser
   map / Yarn PnP / NODE_PATH / externals:
     resolveWithoutSymlinks (absolute, relative incl. hasTrailingSlash, package),
     loadAsFile (incl. the TypeScript ".js" -> ".ts" rewrite), loadAsIndex,
     loadAsMainField, loadAsDirectory, loadAsFileOrDirectory,
     loadNodeModules (nearest package.json, "#" imports, self reference,
     node_modules walk, tryToResolvePackage), loadPackageImports,
     esmResolveAlgorithm + finalizeImportsExportsResult (exact / inexact),
     the condition sets of NewResolver (esmConditionsImport / Require).
   Symlinks (realpath) are not modelled: oracle only.  Executable definitions only. *)
From V Require Import Common.Base C11.Str C11.EsbuildResolve.
Local Open Scope string_scope.
Local Open Scope Z_scope.

Definition path := list str.

Record pkginfo := mkPkg {
  pk_name : option str;
  pk_main : option str;
  pk_exports : option json;   (* None: absent or null *)
  pk_imports : option json
}.

Inductive entry := EFile | EDir (pkg : option pkginfo).
Definition fsmap := list (path * entry).

Definition path_eqb (a b : path) : bool := list_eqb str_eqb a b.
Fixpoint lookup (fs : fsmap) (p : path) : option entry :=
  match fs with
  | [] => None
  | (q, e) :: r => if path_eqb q p then Some e else lookup r p
  end.
Definition isfile (fs : fsmap) (p : path) : bool :=
  match lookup fs p with Some EFile => true | _ => false end.
Definition isdir (fs : fsmap) (p : path) : bool :=
  match p with
  | [] => true
  | _ => match lookup fs p with Some (EDir _) => true | _ => false end
  end.
Definition pkg_of (fs : fsmap) (p : path) : option pkginfo :=
  match lookup fs p with Some (EDir pk) => pk | _ => None end.

(* esbuild keeps the entries of a directory in a map keyed by the LOWER-CASED
   name (fs.DirEntries.Get), i.e. its lookups are case-insensitive; this model
   looks entries up exactly.  The two coincide as long as no lookup meets an
   entry that differs from the queried name only by letter case; two siblings
   that differ only by case (finding D11) are the case in which esbuild's map
   itself is wrong.  [no_case_collision] states the absence of such siblings. *)
Definition lower_path (p : path) : path := map lower_str p.
Fixpoint no_case_collision (fs : fsmap) : bool :=
  match fs with
  | [] => true
  | (p, _) :: r =>
      negb (existsb (fun qe => path_eqb (lower_path (fst qe)) (lower_path p) && negb (path_eqb (fst qe) p)) r)
      && no_case_collision r
  end.

(* fs.Join(dir, rel) / path.resolve(dir, rel): "" and "." dropped, ".." pops *)
Fixpoint walk_segs (stack : list str) (segs : list str) : list str :=  (* stack is reversed *)
  match segs with
  | [] => rev stack
  | g :: r =>
      if str_eqb g [] || str_eqb g [ch_dot] then walk_segs stack r
      else if str_eqb g dotdot then walk_segs (tl stack) r
      else walk_segs (g :: stack) r
  end.
Definition join_rel (dir : path) (rel : str) : path :=
  walk_segs (rev dir) (split_on (Z.eqb ch_slash) rel).
Definition abs_path (s : str) : path := join_rel [] s.

Definition parent (p : path) : path := removelast p.
Definition add_ext (p : path) (ext : str) : path :=
  match rev p with
  | [] => [ext]
  | l :: r => rev r ++ [l ++ ext]
  end.
Definition base_name (p : path) : str := last p [].

Definition exts : list str := [s_ ".js"; s_ ".json"; s_ ".node"].

Fixpoint first_some {A B} (f : A -> option B) (l : list A) : option B :=
  match l with
  | [] => None
  | x :: r => match f x with Some y => Some y | None => first_some f r end
  end.
Definition orelse {A} (a b : option A) : option A := match a with Some _ => a | None => b end.

Definition try_file (fs : fsmap) (p : path) : option path := if isfile fs p then Some p else None.

(* ---- loadAsFile ---- *)
Definition rewritten_exts : list (str * list str) :=
  [ (s_ ".js", [s_ ".ts"; s_ ".tsx"]); (s_ ".jsx", [s_ ".ts"; s_ ".tsx"]);
    (s_ ".mjs", [s_ ".mts"]); (s_ ".cjs", [s_ ".cts"]) ].
Fixpoint last_index_byte (c : Z) (s : str) : option nat :=
  match s with
  | [] => None
  | x :: r => match last_index_byte c r with
              | Some i => Some (S i)
              | None => if x =? c then Some O else None
              end
  end.
Definition rewrite_candidates (p : path) : list path :=
  let b := base_name p in
  match first_some (fun oe => if suffixb (fst oe) b then Some (snd oe) else None) rewritten_exts with
  | Some es =>
      match last_index_byte ch_dot b with
      | Some i => map (fun e => parent p ++ [firstn i b ++ e]) es
      | None => []
      end
  | None => []
  end.

(* The Go code first reads the entries of Dir(path) and fails when that
   directory does not exist; in a well-formed file system (an entry exists
   only inside an existing directory) that test is implied by the file
   tests below and is not repeated here. *)
Definition load_as_file (fs : fsmap) (p : path) : option path :=
  orelse (try_file fs p)
    (orelse (first_some (fun e => try_file fs (add_ext p e)) exts)
            (first_some (try_file fs) (rewrite_candidates p))).

(* ---- loadAsIndex ---- *)
Definition load_as_index (fs : fsmap) (dir : path) : option path :=
  first_some (fun e => try_file fs (dir ++ [s_ "index" ++ e])) exts.

(* ---- loadAsMainField (main fields = ["main"]) ---- *)
Definition load_as_main (fs : fsmap) (dir : path) : option path :=
  match pkg_of fs dir with
  | Some pk =>
      match pk_main pk with
      | Some m =>
          let f := join_rel dir m in
          orelse (load_as_file fs f) (if isdir fs f then load_as_index fs f else None)
      | None => None
      end
  | None => None
  end.

(* ---- loadAsDirectory / loadAsFileOrDirectory ---- *)
Definition load_as_directory (fs : fsmap) (p : path) : option path :=
  if isdir fs p then orelse (load_as_main fs p) (load_as_index fs p) else None.
Definition load_as_file_or_directory (fs : fsmap) (p : path) : option path :=
  orelse (load_as_file fs p) (load_as_directory fs p).

(* ---- import kinds and condition sets (NewResolver) ---- *)
Inductive ikind := KImport | KRequire.
Definition conds_of (k : ikind) (user : list str) : list str :=
  (match k with KImport => [s_ "import"] | KRequire => [s_ "require"] end)
  ++ [s_ "default"] ++ user ++ [s_ "node"].

(* ---- esmResolveAlgorithm + finalizeImportsExportsResult ---- *)
Definition finalize (fs : fsmap) (pkgdir : path) (r : str * status) : option path :=
  match snd r with
  | SExact | SExactEndsWithStar =>
      if prefixb [ch_slash] (fst r) then
        let abs := join_rel pkgdir (fst r) in
        if true then   (* resolvedDirInfo != nil: implied in a well-formed file system, see load_as_file *)
          match lookup fs abs with
          | Some EFile => Some abs
          | Some (EDir _) => None
          | None =>
              (* TypeScript rewrite: the first candidate that EXISTS is taken and must be a file *)
              match first_some (fun q => match lookup fs q with Some e => Some (q, e) | None => None end)
                               (rewrite_candidates abs) with
              | Some (q, EFile) => Some q
              | _ => None
              end
          end
        else None
      else None
  | SInexact =>
      if prefixb [ch_slash] (fst r) then load_as_file_or_directory fs (join_rel pkgdir (fst r)) else None
  | _ => None
  end.

Definition esm_resolve (fs : fsmap) (k : ikind) (user : list str) (pkgdir : path) (subpath : str)
           (exports : json) : option path :=
  match parse_root exports with
  | Some root =>
      finalize fs pkgdir
        (handle_post_conditions (exports_resolve [ch_slash] subpath root (conds_of k user)))
  | None => None
  end.

(* nearest directory (dir itself included) that has a package.json; since the
   fix 6e6e7fa the search stops at a directory named "node_modules" (which is
   itself never a package scope) *)
Fixpoint nearest_pkg (fs : fsmap) (fuel : nat) (dir : path) : option (path * pkginfo) :=
  match pkg_of fs dir with
  | Some pk => if str_eqb (base_name dir) node_modules_s then None else Some (dir, pk)
  | None =>
      if str_eqb (base_name dir) node_modules_s then None
      else match fuel, dir with
           | S f, _ :: _ => nearest_pkg fs f (parent dir)
           | _, _ => None
           end
  end.

Definition name_and_subpath (spec : str) : str * str * bool :=
  match parse_package_name spec with
  | Some (n, s) => (n, s, true)
  | None => ([], [], false)
  end.

Definition exports_of (pk : pkginfo) : option json :=
  match pk_exports pk with
  | Some j => match parse_root j with Some _ => Some j | None => None end
  | None => None
  end.

(* tryToResolvePackage: (result, shouldStop) *)
Definition try_package (fs : fsmap) (k : ikind) (user : list str) (absDir : path) (spec : str)
  : option path * bool :=
  let '(name, subpath, ok) := name_and_subpath spec in
  let via_exports :=
    if ok && isdir fs (join_rel absDir name) then
      match pkg_of fs (join_rel absDir name) with
      | Some pk => match exports_of pk with
                   | Some ex => Some (esm_resolve fs k user (join_rel absDir name) subpath ex)
                   | None => None
                   end
      | None => None
      end
    else None in
  match via_exports with
  | Some r => (r, true)
  | None =>
      match load_as_file_or_directory fs (join_rel absDir spec) with
      | Some p => (Some p, true)
      | None => (None, false)
      end
  end.

(* the walk over the enclosing directories *)
Fixpoint nm_walk (fs : fsmap) (k : ikind) (user : list str) (fuel : nat) (dir : path) (spec : str)
  : option path :=
  let here :=
    if negb (str_eqb (base_name dir) node_modules_s) && isdir fs (dir ++ [node_modules_s])
    then try_package fs k user (dir ++ [node_modules_s]) spec else (None, false) in
  if snd here then fst here
  else match fuel, dir with
       | S f, _ :: _ => nm_walk fs k user f (parent dir) spec
       | _, _ => None
       end.

(* loadNodeModules with forbidImports = true *)
Definition load_node_modules_noimports (fs : fsmap) (k : ikind) (user : list str) (dir : path) (spec : str)
  : option path :=
  let '(name, subpath, ok) := name_and_subpath spec in
  let self :=
    match nearest_pkg fs (length dir) dir with
    | Some (pdir, pk) =>
        match exports_of pk with
        | Some ex =>
            (* since the fix d8f247a: only a valid package name can be a self reference *)
            if ok && str_eqb (match pk_name pk with Some n => n | None => [] end) name
            then Some (esm_resolve fs k user pdir subpath ex) else None
        | None => None
        end
    | None => None
    end in
  match self with
  | Some r => r
  | None => nm_walk fs k user (length dir) dir spec
  end.

Section Builtins.
  Variable builtin : str -> bool.      (* BuiltInNodeModules and the "node:" prefix *)

  Inductive rres := RFile (p : path) | RBuiltin (s : str) | RFail.
  Definition of_opt (o : option path) : rres := match o with Some p => RFile p | None => RFail end.

  (* loadPackageImports *)
  Definition load_package_imports (fs : fsmap) (k : ikind) (user : list str) (spec : str)
             (pdir : path) (imports : json) : rres :=
    if str_eqb spec [ch_hash] then RFail
    else match parse_root_imports imports with
         | None => RFail   (* unreachable: importsMap != nil was checked *)
         | Some root =>
             let r := handle_post_conditions (imports_resolve spec root (conds_of k user)) in
             match snd r with
             | SPackageResolve =>
                 if builtin (fst r) then RBuiltin (fst r)
                 else of_opt (load_node_modules_noimports fs k user pdir (fst r))
             | _ => of_opt (finalize fs pdir r)
             end
         end.

  Definition imports_of (pk : pkginfo) : option json :=
    match pk_imports pk with
    | Some j => match parse_root_imports j with Some _ => Some j | None => None end
    | None => None
    end.

  (* loadNodeModules with forbidImports = false *)
  Definition load_node_modules (fs : fsmap) (k : ikind) (user : list str) (dir : path) (spec : str) : rres :=
    let via_imports :=
      if prefixb [ch_hash] spec then
        match nearest_pkg fs (length dir) dir with
        | Some (pdir, pk) =>
            match imports_of pk with
            | Some im => Some (load_package_imports fs k user spec pdir im)
            | None => None
            end
        | None => None
        end
      else None in
    match via_imports with
    | Some r => r
    | None => of_opt (load_node_modules_noimports fs k user dir spec)
    end.

  Definition is_package_path (s : str) : bool :=
    negb (prefixb (s_ "/") s) && negb (prefixb (s_ "./") s) && negb (prefixb (s_ "../") s)
    && negb (str_eqb s (s_ ".")) && negb (str_eqb s (s_ "..")).

  Definition has_trailing_slash (s : str) : bool :=
    str_eqb s (s_ ".") || str_eqb s (s_ "..") || suffixb (s_ "/") s || suffixb (s_ "/.") s || suffixb (s_ "/..") s.

  (* Resolve (builtin check) + resolveWithoutSymlinks; dir = directory of the importer *)
  Definition resolve (fs : fsmap) (k : ikind) (user : list str) (dir : path) (spec : str) : rres :=
    if builtin spec then RBuiltin spec
    else if prefixb (s_ "/") spec then of_opt (load_as_file_or_directory fs (abs_path spec))
    else if negb (is_package_path spec) then
      if has_trailing_slash spec then of_opt (load_as_directory fs (join_rel dir spec))
      else of_opt (load_as_file_or_directory fs (join_rel dir spec))
    else load_node_modules fs k user dir spec.
End Builtins.
