From V Require Import Common.Base C11.Str C11.EsbuildResolve C11.NodeSpec C11.SortLemmas C11.Scope C11.ResolveProofs C11.Walk C11.NodeWalkSpec C11.WalkProofs C11.CondsExt C11.WalkCore C11.WalkMain C11.WalkImport.
Local Open Scope string_scope.
(* non-vacuity: concrete non-trivial values meeting each theorem's hypotheses *)
Example name_ex : parse_package_name (s_ "@scope/pkg/lib/a.js") = Some (s_ "@scope/pkg", s_ "./lib/a.js").
Proof. vm_compute. reflexivity. Qed.

(* a realistic exports map: main entry with nested conditions, overlapping
   patterns, a null-blocked directory, an array fallback with an invalid first item *)
Definition ex_exports : json :=
  JObj [ (s_ ".", JObj [(s_ "import", JStr (s_ "./esm/index.mjs"));
                        (s_ "node", JObj [(s_ "require", JStr (s_ "./cjs/index.cjs"))]);
                        (s_ "default", JStr (s_ "./index.js"))]);
         (s_ "./package.json", JStr (s_ "./package.json"));
         (s_ "./features/*", JStr (s_ "./src/features/*.js"));
         (s_ "./features/*.js", JObj [(s_ "require", JNull); (s_ "default", JStr (s_ "./src/features/*.js"))]);
         (s_ "./features/internal/*", JNull);
         (s_ "./fo*", JArr [JStr (s_ "lib/bad.js"); JStr (s_ "./lib/fo*.js")]) ].

Example scope_ex1 : in_scope_exports ex_exports (s_ "./features/a/b.js") = true.
Proof. vm_compute. reflexivity. Qed.
Example resolve_ex1 :
  outcome_of_model (exports_resolve slash_s (s_ "./features/a/b.js") (parse_top ex_exports) [s_ "node"; s_ "import"])
  = OResolved (s_ "/src/features/a/b.js").
Proof. vm_compute. reflexivity. Qed.
Example scope_ex2 : in_scope_exports ex_exports (s_ "./features/internal/x") = true
  /\ node_exports_resolve ex_exports (s_ "./features/internal/x") [s_ "node"; s_ "require"] = ORefused ENotExported.
Proof. split; vm_compute; reflexivity. Qed.
Example scope_ex3 : in_scope_exports ex_exports (s_ ".") = true
  /\ node_exports_resolve ex_exports (s_ ".") [s_ "node"; s_ "require"] = OResolved (s_ "/cjs/index.cjs").
Proof. split; vm_compute; reflexivity. Qed.
Example scope_ex4 : in_scope_exports ex_exports (s_ "./foo") = true
  /\ node_exports_resolve ex_exports (s_ "./foo") [] = OResolved (s_ "/lib/foo.js").
Proof. split; vm_compute; reflexivity. Qed.

Definition ex_imports : json :=
  JObj [ (s_ "#dep", JObj [(s_ "node", JStr (s_ "dep-pkg")); (s_ "default", JStr (s_ "./polyfill.js"))]);
         (s_ "#internal/*", JStr (s_ "./src/internal/*.js")) ].
Example scope_ex5 : in_scope_imports ex_imports (s_ "#internal/a/b") = true
  /\ node_imports_resolve (s_ "#internal/a/b") ex_imports [s_ "import"] = OResolved (s_ "/src/internal/a/b.js")
  /\ in_scope_imports ex_imports (s_ "#dep") = true
  /\ node_imports_resolve (s_ "#dep") ex_imports [s_ "node"] = OPackageResolve (s_ "dep-pkg").
Proof. repeat split; vm_compute; reflexivity. Qed.

(* target_resolve_eq_partial: a pattern match and a target that meet pm_ok / json_ok *)
Example target_ex : pm_ok_opt (Some (s_ "a/b")) = true
  /\ json_ok false (JObj [(s_ "import", JStr (s_ "./esm/*.mjs")); (s_ "default", JStr (s_ "./lib/*.js"))]) = true.
Proof. split; vm_compute; reflexivity. Qed.

(* pattern_order_eq: overlapping pattern keys, most specific first *)
Example order_ex :
  map fst (isort_by less [(s_ "./a*", 1); (s_ "./a*b", 2); (s_ "./ab*", 3); (s_ "./*", 4)])
  = [s_ "./ab*"; s_ "./a*b"; s_ "./a*"; s_ "./*"].
Proof. vm_compute. reflexivity. Qed.

(* the scope predicates do exclude the witnesses that are still refuted ... *)
Example scope_excludes :
  in_scope_exports w_pattern_base (s_ "./foo") = false /\ in_scope_exports w_dup (s_ "./a") = false
  /\ in_scope_exports w_index (s_ "./a") = false
  /\ in_scope_imports w_hash_slash (s_ "#/a") = false /\ in_scope_imports w_url_target (s_ "#fs") = false.
Proof. repeat split; vm_compute; reflexivity. Qed.
(* ... and the witnesses of the repaired findings D2 / D4 are now inside the domain *)
Example scope_includes_repaired :
  in_scope_exports w_upper (s_ "./x") = true /\ in_scope_exports w_pct (s_ "./x") = true
  /\ in_scope_exports w_star_all (s_ "./../secret.js") = true
  /\ in_scope_exports w_star_all (s_ "./node_modules/s.js") = true
  /\ in_scope_exports w_mixed (s_ "./a") = true /\ in_scope_imports w_imports_mixed (s_ "#a") = true.
Proof. repeat split; vm_compute; reflexivity. Qed.

(* keys with several "*" and empty-segment-free odd layouts are inside the domain *)
Definition ex_multi : json :=
  JObj [ (s_ "./a*b*", JStr (s_ "./1/*.js")); (s_ "./a*", JStr (s_ "./2/*.js")); (s_ "./a*c", JStr (s_ "./3/*.js")) ].
Example scope_multi : in_scope_exports ex_multi (s_ "./axc") = true
  /\ node_exports_resolve ex_multi (s_ "./axc") [] = OResolved (s_ "/3/x.js").
Proof. split; vm_compute; reflexivity. Qed.

(* each refuted witness keeps the documented and fragment parts and loses
   exactly the "no refuted shape" part, through its own detector *)
Example witness_shapes :
  (documented_ok w_pattern_base (s_ "./foo") && fragment_ok w_pattern_base (s_ "./foo")
   && negb (no_refuted_shape false w_pattern_base (s_ "./foo")) && shape_pattern_base (s_ "./foo") (s_ "./foo*")
   && documented_ok w_dup (s_ "./a") && fragment_ok w_dup (s_ "./a") && negb (no_refuted_shape false w_dup (s_ "./a"))
   && documented_ok w_index (s_ "./a") && fragment_ok w_index (s_ "./a") && negb (no_refuted_shape false w_index (s_ "./a"))
   && documented_ok w_hash_slash (s_ "#/a") && fragment_ok w_hash_slash (s_ "#/a")
   && negb (no_refuted_shape true w_hash_slash (s_ "#/a")) && shape_hash_slash (s_ "#/a")
   && documented_ok w_url_target (s_ "#fs") && fragment_ok w_url_target (s_ "#fs")
   && negb (no_refuted_shape true w_url_target (s_ "#fs")) && shape_url_target true (s_ "node:fs")) = true.
Proof. vm_compute. reflexivity. Qed.

Example ordinary_ex : ordinary_path (s_ "lib/a.b/c-d.js") = true /\ ordinary_path (s_ "lib//x.js") = false.
Proof. split; vm_compute; reflexivity. Qed.

(* second layer: a small tree meeting wf_fs / no_ts_rewrite, with main, index,
   extension probing, a nested node_modules and an exports map *)
Definition p_ (l : list String.string) : path := map s_ l.
Definition ex_fs : fsmap :=
  [ (p_ [], EDir (Some (mkPkg (Some (s_ "app")) None None None)));
    (p_ ["src"], EDir None); (p_ ["src"; "main.js"], EFile); (p_ ["src"; "util.js"], EFile);
    (p_ ["src"; "data.json"], EFile); (p_ ["src"; "dir"], EDir None); (p_ ["src"; "dir"; "index.js"], EFile);
    (p_ ["src"; "lib"], EDir (Some (mkPkg None (Some (s_ "./entry")) None None))); (p_ ["src"; "lib"; "entry.js"], EFile);
    (p_ ["node_modules"], EDir None);
    (p_ ["node_modules"; "dep"], EDir (Some (mkPkg (Some (s_ "dep")) None (Some ex_exports) None)));
    (p_ ["node_modules"; "dep"; "src"], EDir None); (p_ ["node_modules"; "dep"; "src"; "features"], EDir None);
    (p_ ["node_modules"; "dep"; "src"; "features"; "a.js"], EFile) ].
Example ex_fs_ok : wf_fsb ex_fs = true /\ no_tsb ex_fs = true.
Proof. split; vm_compute; reflexivity. Qed.
Example ex_fs_relative :
  require_resolve (fun _ => false) ex_fs [] (p_ ["src"]) (s_ "./util") = NFile (p_ ["src"; "util.js"])
  /\ require_resolve (fun _ => false) ex_fs [] (p_ ["src"]) (s_ "./dir") = NFile (p_ ["src"; "dir"; "index.js"])
  /\ require_resolve (fun _ => false) ex_fs [] (p_ ["src"]) (s_ "./lib") = NFile (p_ ["src"; "lib"; "entry.js"])
  /\ require_resolve (fun _ => false) ex_fs [] (p_ ["src"; "dir"]) (s_ "../data") = NFile (p_ ["src"; "data.json"]).
Proof. repeat split; vm_compute; reflexivity. Qed.
(* the parts tied by correspondence only, on the same tree: bare specifier through exports *)
Example ex_fs_bare :
  resolve (fun _ => false) ex_fs KRequire [] (p_ ["src"]) (s_ "dep/features/a")
  = RFile (p_ ["node_modules"; "dep"; "src"; "features"; "a.js"])
  /\ require_resolve (fun _ => false) ex_fs [] (p_ ["src"]) (s_ "dep/features/a")
  = NFile (p_ ["node_modules"; "dep"; "src"; "features"; "a.js"]).
Proof. split; vm_compute; reflexivity. Qed.

(* the detectors of the two object shapes fire on their witnesses, at the exact object *)
Example witness_object_shapes :
  (shape_dup_key [(s_ "./a", JStr (s_ "./x.js")); (s_ "./a", JStr (s_ "./y.js"))]
   && negb (shape_index_key [(s_ "./a", JStr (s_ "./x.js")); (s_ "./a", JStr (s_ "./y.js"))])
   && shape_index_key [(s_ "0", JStr (s_ "./x.js")); (s_ "default", JStr (s_ "./y.js"))]
   && negb (shape_dup_key [(s_ "0", JStr (s_ "./x.js")); (s_ "default", JStr (s_ "./y.js"))])) = true.
Proof. vm_compute. reflexivity. Qed.

(* package_resolve_eq_partial: its hypotheses hold on the example tree for a bare specifier *)
Example ex_fs_bare_hyps :
  wf_fsb ex_fs = true /\ no_tsb ex_fs = true /\ no_case_collision ex_fs = true
  /\ bare_ok (s_ "dep/features/a") = true /\ is_package_path (s_ "dep/features/a") = true
  /\ in_scope_exports ex_exports (subpath_of (s_ "dep/features/a")) = true.
Proof. repeat split; vm_compute; reflexivity. Qed.
Example ex_fs_pkgs_ok : pkgs_ok ex_fs (s_ "dep/features/a").
Proof.
  intros d pk ex Hd He. unfold pkg_of in Hd. cbn [ex_fs lookup] in Hd.
  repeat match type of Hd with
         | context [if path_eqb ?a d then _ else _] => destruct (path_eqb a d)
         end; try discriminate; injection Hd as <-; cbn in He; try discriminate;
    injection He as <-; split; [discriminate | vm_compute; reflexivity].
Qed.
(* ES-module entry: no extension search, legacy main *)
Example ex_fs_import :
  import_resolve (fun _ => false) ex_fs [] (p_ ["src"]) (s_ "./util") = NNotFound
  /\ import_resolve (fun _ => false) ex_fs [] (p_ ["src"]) (s_ "./util.js") = NFile (p_ ["src"; "util.js"])
  /\ import_resolve (fun _ => false) ex_fs [] (p_ ["src"]) (s_ "dep/features/a")
     = NFile (p_ ["node_modules"; "dep"; "src"; "features"; "a.js"]).
Proof. repeat split; vm_compute; reflexivity. Qed.

(* import_package_resolve_partial: the extra hypotheses hold on the example tree and fail on the D14 witness *)
Example ex_fs_import_hyps :
  no_nested_nmb ex_fs = true /\ no_module_fileb ex_fs (s_ "dep/features/a") = true
  /\ no_module_fileb w_shadow_fs (s_ "dep") = false /\ no_nested_nmb w_shadow_fs = true.
Proof. repeat split; vm_compute; reflexivity. Qed.
