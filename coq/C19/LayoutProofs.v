(* C19 proofs, structure layer (generic part): every text esbuild writes this
   way is accepted by the RFC 8259 parser, and parses back to the value it was
   written from. *)
From V Require Import Common.Base C01.Utf C01.Quote C19.Json C19.JsonSpec C19.JsonProofs C19.Layout.

Definition all_ws (w : bytes) : bool := forallb is_ws w.

(* a string that may stand between quotation marks as it is *)
Definition raw_ok (s : bytes) : Prop :=
  bytes_ok s /\ quote_body (length s) false s = s.

(* what is known about the string tokens standing at the places of unique keys:
   token [rq k i] is a JSON string that the spec parser reads as [ru k i] *)
Definition sf_reads (sfok : Z -> Z -> Prop) (ru : Z -> Z -> list Z) (rq : Z -> Z -> bytes) : Prop :=
  forall k i, sfok k i -> exists body, rq k i = 34 :: body ++ [34] /\
    forall F rest, (length body < F)%nat -> jstr F (body ++ 34 :: rest) = Some (ru k i, rest).

Definition num_ok (n : Z) : Prop := 0 <= n < 10 ^ 20.

Section Gen.
  Variable sfok : Z -> Z -> Prop.
  Variable ru : Z -> Z -> list Z.

  Definition ls_ok (x : ls) : Prop :=
    match x with
    | SQ s => bytes_ok s
    | SR s => raw_ok s
    | SF k i => sfok k i
    end.

  Definition ls_units (x : ls) : list Z :=
    match x with
    | SQ s => units s
    | SR s => units s
    | SF k i => ru k i
    end.

  Fixpoint lj_ok (t : lj) : Prop :=
    match t with
    | LObj ms cw =>
      all_ws cw = true /\
      (fix go (ms : list (bytes * ls * bytes * lj)) : Prop :=
         match ms with
         | [] => True
         | m :: r => (let '(w1, k, w2, v) := m in
                      all_ws w1 = true /\ all_ws w2 = true /\ ls_ok k /\ lj_ok v) /\ go r
         end) ms
    | LArr es cw =>
      all_ws cw = true /\
      (fix go (es : list (bytes * lj)) : Prop :=
         match es with
         | [] => True
         | e :: r => (all_ws (fst e) = true /\ lj_ok (snd e)) /\ go r
         end) es
    | LS x => ls_ok x
    | LNum n => num_ok n
    | LTrue => True
    end.

  (* the JSON value a text stands for *)
  Fixpoint erase (t : lj) : jv :=
    match t with
    | LObj ms _ => JObj (map (fun m => let '(_, k, _, v) := m in (ls_units k, erase v)) ms)
    | LArr es _ => JArr (map (fun e => erase (snd e)) es)
    | LS x => JStr (ls_units x)
    | LNum n => JNum (dec n)
    | LTrue => JLit 0
    end.
End Gen.

Fixpoint sep_toks (l : list (list tok)) : list tok :=
  match l with
  | [] => []
  | x :: r => match r with [] => x | _ => x ++ TP 44 :: sep_toks r end
  end.

Fixpoint toks (v : jv) : list tok :=
  match v with
  | JObj ms => TP 123 :: sep_toks (map (fun m => TS (fst m) :: TP 58 :: toks (snd m)) ms) ++ [TP 125]
  | JArr vs => TP 91 :: sep_toks (map toks vs) ++ [TP 93]
  | JStr u => [TS u]
  | JNum n => [TN n]
  | JLit k => [TL k]
  end.

(* ---- lexing ---- *)

Definition lexes (s : bytes) (ts : list tok) : Prop :=
  forall F, (length s < F)%nat -> lex F s = Some ts.

Definition delim (s : bytes) : Prop :=
  match s with c :: _ => is_ws c = true \/ is_punct c = true | [] => True end.

Lemma lexes_nil : lexes [] [].
Proof. intros F HF. destruct F; [cbn in HF; lia|]. reflexivity. Qed.

Lemma lexes_ws w s ts : all_ws w = true -> lexes s ts -> lexes (w ++ s) ts.
Proof.
  intros Hw Hs. induction w as [|c w IH]; [exact Hs|].
  cbn [all_ws forallb] in Hw. apply andb_true_iff in Hw as [Hc Hw].
  intros F HF. destruct F; [cbn in HF; lia|]. cbn [app lex]. rewrite Hc.
  apply IH; [exact Hw|]. cbn [app length] in HF. lia.
Qed.

Lemma punct_not_ws c : is_punct c = true -> is_ws c = false.
Proof. unfold is_punct, is_ws. lia. Qed.

Lemma lexes_punct c s ts : is_punct c = true -> lexes s ts -> lexes (c :: s) (TP c :: ts).
Proof.
  intros Hc Hs F HF. destruct F; [cbn in HF; lia|]. cbn [lex].
  rewrite (punct_not_ws c Hc), Hc. rewrite Hs; [reflexivity|]. cbn [length] in HF. lia.
Qed.

Lemma lexes_quoted body u s ts :
  (forall F rest, (length body < F)%nat -> jstr F (body ++ 34 :: rest) = Some (u, rest)) ->
  lexes s ts -> lexes (34 :: body ++ 34 :: s) (TS u :: ts).
Proof.
  intros Hb Hs F HF. destruct F; [cbn in HF; lia|]. cbn [lex].
  change (is_ws 34) with false. change (is_punct 34) with false. change (34 =? 34) with true. cbv iota.
  rewrite Hb by (rewrite app_length; cbn [length]; lia).
  rewrite Hs; [reflexivity|]. cbn [length] in HF. rewrite app_length in HF. cbn [length] in HF. lia.
Qed.

Lemma lexes_ls ascii sfok ru rq x s ts : sf_reads sfok ru rq ->
  ls_ok sfok x -> lexes s ts ->
  lexes (render_ls ascii rq x ++ s) (TS (ls_units ru x) :: ts).
Proof.
  intros Hrq Hx Hs. destruct x as [q|q|k i]; cbn [render_ls ls_units ls_ok] in *.
  - unfold quote_for_json. cbn [app]. rewrite <- app_assoc. cbn [app].
    apply lexes_quoted; [|exact Hs]. intros F rest HF.
    apply quote_roundtrip_gen; try assumption. lia.
  - cbn [app]. rewrite <- app_assoc. cbn [app].
    apply lexes_quoted; [|exact Hs]. intros F rest HF. destruct Hx as (Hb & Hq).
    rewrite <- Hq at 1. apply quote_roundtrip_gen; try assumption; [lia|].
    rewrite Hq. exact HF.
  - destruct (Hrq k i Hx) as (body & -> & Hread).
    cbn [app]. rewrite <- app_assoc. cbn [app].
    apply lexes_quoted; [exact Hread|exact Hs].
Qed.

(* numbers *)
Lemma dec_digits_shape : forall f n, 0 <= n < 10 ^ Z.of_nat (S f) ->
  exists d ds, dec_digits (S f) n = d :: ds /\ is_digit d = true /\ forallb is_digit ds = true /\
               (0 < n -> d <> 48) /\ (n = 0 -> ds = []).
Proof.
  induction f as [|f IH]; intros n Hn.
  - change (10 ^ Z.of_nat 1) with 10 in Hn. cbn [dec_digits].
    destruct (n <? 10) eqn:E; [|lia].
    exists (48 + n), []. unfold is_digit. repeat split; try reflexivity; lia.
  - cbn [dec_digits]. destruct (n <? 10) eqn:E.
    + exists (48 + n), []. unfold is_digit. repeat split; try reflexivity; lia.
    + assert (Hn' : 0 <= n / 10 < 10 ^ Z.of_nat (S f)).
      { replace (Z.of_nat (S (S f))) with (Z.of_nat (S f) + 1) in Hn by lia.
        rewrite Z.pow_add_r in Hn by lia. change (10 ^ 1) with 10 in Hn. lia. }
      destruct (IH (n / 10) Hn') as (d & ds & E1 & Hd & Hds & Hnz & _).
      cbn [dec_digits] in E1. rewrite E1. exists d, (ds ++ [48 + n mod 10]).
      split; [reflexivity|]. split; [exact Hd|]. split.
      * rewrite forallb_app, Hds. cbn [forallb]. unfold is_digit. lia.
      * split; [intros _; apply Hnz; lia|lia].
Qed.

Definition not_numchar (s : bytes) : Prop :=
  match s with c :: _ => is_digit c = false /\ c <> 46 /\ c <> 101 /\ c <> 69 | [] => True end.

Lemma delim_not_numchar s : delim s -> not_numchar s.
Proof.
  destruct s as [|c s]; [trivial|]. unfold delim, not_numchar, is_ws, is_punct, is_digit. lia.
Qed.

Lemma span_digits_app ds s : forallb is_digit ds = true -> not_numchar s ->
  span_digits (ds ++ s) = (ds, s).
Proof.
  intros Hd Hs. induction ds as [|d ds IH]; cbn [app].
  - destruct s as [|c s]; [reflexivity|]. cbn [span_digits]. destruct Hs as [-> _]. reflexivity.
  - cbn [forallb] in Hd. apply andb_true_iff in Hd as [H1 H2]. cbn [span_digits]. rewrite H1, (IH H2). reflexivity.
Qed.

Lemma jnumber_dec n s : num_ok n -> not_numchar s ->
  exists d ds, dec n = d :: ds /\ is_digit d = true /\ jnumber (dec n ++ s) = Some (dec n, s).
Proof.
  intros Hn Hs. unfold dec. unfold num_ok in Hn.
  destruct (dec_digits_shape 19 n) as (d & ds & E & Hd & Hds & Hnz & Hz).
  { change (Z.of_nat 20) with 20. exact Hn. }
  exists d, ds. rewrite E. split; [reflexivity|]. split; [exact Hd|].
  assert (Hfe : forall s, not_numchar s -> jfrac s = Some ([], s) /\ jexp s = Some ([], s)).
  { intros [|c s'] H; [split; reflexivity|]. destruct H as (_ & H1 & H2 & H3). cbn [jfrac jexp].
    destruct (c =? 46) eqn:E1; [lia|]. destruct ((c =? 101) || (c =? 69)) eqn:E2; [lia|]. split; reflexivity. }
  destruct (Hfe s Hs) as [Hf He].
  unfold jnumber. cbn [app]. unfold is_digit in Hd.
  destruct (d =? 45) eqn:E45; [lia|].
  unfold jint. destruct (d =? 48) eqn:E48.
  - assert (n = 0) by lia. rewrite (Hz H) in *. cbn [app]. rewrite Hf, He.
    replace d with 48 by lia. reflexivity.
  - unfold is_digit. destruct ((48 <=? d) && (d <=? 57)) eqn:Ed; [|lia].
    rewrite (span_digits_app ds s Hds Hs). rewrite Hf, He. cbn [app]. rewrite !app_nil_r. reflexivity.
Qed.

Lemma lexes_num n s ts : num_ok n -> delim s -> lexes s ts -> lexes (dec n ++ s) (TN (dec n) :: ts).
Proof.
  intros Hn Hd Hs F HF.
  destruct (jnumber_dec n s Hn (delim_not_numchar s Hd)) as (d & ds & E & Hdig & Hj).
  destruct F; [cbn in HF; lia|].
  assert (HF' : (length s < F)%nat) by (rewrite app_length, E in HF; cbn [length] in HF; lia).
  revert Hj. rewrite E. cbn [app]. intro Hj. cbn [lex].
  unfold is_digit in Hdig.
  assert (W : is_ws d = false) by (unfold is_ws; lia). rewrite W.
  assert (P : is_punct d = false) by (unfold is_punct; lia). rewrite P.
  destruct (d =? 34) eqn:E34; [lia|].
  assert (D : (d =? 45) || is_digit d = true) by (unfold is_digit; lia). rewrite D.
  rewrite Hj. rewrite (Hs F HF'). reflexivity.
Qed.

Lemma lexes_true s ts : lexes s ts -> lexes (lit_true_bytes ++ s) (TL 0 :: ts).
Proof.
  intros Hs F HF. destruct F; [cbn in HF; lia|]. cbn [lit_true_bytes app lex].
  change (is_ws 116) with false. change (is_punct 116) with false. change (116 =? 34) with false.
  change ((116 =? 45) || is_digit 116) with false. cbv iota.
  cbn [strip lit_true]. change (116 =? 116) with true. change (114 =? 114) with true.
  change (117 =? 117) with true. change (101 =? 101) with true. cbv iota.
  rewrite Hs; [reflexivity|]. unfold lit_true_bytes in HF. cbn [app length] in HF. lia.
Qed.

(* ---- the text of a tree lexes to the tokens of its value ---- *)

Fixpoint lsize (t : lj) : nat :=
  match t with
  | LObj ms _ => S (list_sum (map (fun m => let '(_, _, _, v) := m in lsize v) ms))
  | LArr es _ => S (list_sum (map (fun e => lsize (snd e)) es))
  | _ => 1%nat
  end.

Definition lex_ok ascii ru rq (t : lj) : Prop :=
  forall rest ts, lexes rest ts -> delim rest ->
    lexes (render ascii rq t ++ rest) (toks (erase ru t) ++ ts).

Lemma delim_ws_then w c rest : all_ws w = true -> is_punct c = true -> delim (w ++ c :: rest).
Proof.
  intros Hw Hc. destruct w as [|x w]; cbn [app delim]; [right; exact Hc|].
  cbn [all_ws forallb] in Hw. apply andb_true_iff in Hw as [Hx _]. left; exact Hx.
Qed.

Lemma lex_render_all ascii sfok ru rq : sf_reads sfok ru rq ->
  forall n t, (lsize t <= n)%nat -> lj_ok sfok t -> lex_ok ascii ru rq t.
Proof.
  intro Hrq. induction n as [|n IH]; intros t Hsz Hok; [destruct t; cbn in Hsz; lia|].
  destruct t as [ms cw|es cw|x|k|].
  - (* object *)
    cbn [lj_ok] in Hok. destruct Hok as [Hcw Hms].
    intros rest ts Hr Hd. cbn [render erase toks].
    cbn [app]. apply lexes_punct; [reflexivity|].
    rewrite <- !app_assoc.
    assert (Tail : lexes (cw ++ [125] ++ rest) (TP 125 :: ts)).
    { apply lexes_ws; [exact Hcw|]. apply lexes_punct; [reflexivity|exact Hr]. }
    assert (Dt : delim (cw ++ [125] ++ rest)) by (apply delim_ws_then; [exact Hcw|reflexivity]).
    cbn [lsize] in Hsz. apply le_S_n in Hsz. unfold list_sum in Hsz.
    change ([TP 125] ++ ts) with (TP 125 :: ts).
    revert Tail Dt. generalize (cw ++ [125] ++ rest) as tail. generalize (TP 125 :: ts) as tts.
    clear Hr Hd Hcw.
    induction ms as [|m r IHms]; intros tts tail Tail Dt; [exact Tail|].
    destruct Hms as [Hm Hr']. destruct m as [[[w1 k] w2] v].
    destruct Hm as (H1 & H2 & Hk & Hv).
    cbn [map list_sum fold_right] in Hsz.
    assert (Pv : lex_ok ascii ru rq v) by (apply IH; [lia|exact Hv]).
    destruct r as [|m2 r2].
    + cbn [map commas sep_toks fst snd]. rewrite <- !app_assoc. cbn [app]. rewrite <- !app_assoc.
      apply lexes_ws; [exact H1|]. apply (lexes_ls ascii sfok ru rq); [exact Hrq|exact Hk|].
      apply lexes_punct; [reflexivity|]. apply lexes_ws; [exact H2|].
      apply Pv; assumption.
    + change (commas (map ?f ((w1, k, w2, v) :: m2 :: r2))) with
        ((w1 ++ render_ls ascii rq k ++ 58 :: w2 ++ render ascii rq v) ++ 44 :: commas (map f (m2 :: r2))).
      change (sep_toks (map ?g (map ?h ((w1, k, w2, v) :: m2 :: r2)))) with
        ((TS (ls_units ru k) :: TP 58 :: toks (erase ru v)) ++ TP 44 :: sep_toks (map g (map h (m2 :: r2)))).
      rewrite <- !app_assoc. cbn [app]. rewrite <- !app_assoc.
      apply lexes_ws; [exact H1|]. apply (lexes_ls ascii sfok ru rq); [exact Hrq|exact Hk|].
      apply lexes_punct; [reflexivity|]. apply lexes_ws; [exact H2|].
      apply Pv; [|right; reflexivity].
      cbn [app]. apply lexes_punct; [reflexivity|].
      apply IHms; [lia|exact Hr'|exact Tail|exact Dt].
  - (* array *)
    cbn [lj_ok] in Hok. destruct Hok as [Hcw Hes].
    intros rest ts Hr Hd. cbn [render erase toks].
    cbn [app]. apply lexes_punct; [reflexivity|].
    rewrite <- !app_assoc.
    assert (Tail : lexes (cw ++ [93] ++ rest) (TP 93 :: ts)).
    { apply lexes_ws; [exact Hcw|]. apply lexes_punct; [reflexivity|exact Hr]. }
    assert (Dt : delim (cw ++ [93] ++ rest)) by (apply delim_ws_then; [exact Hcw|reflexivity]).
    cbn [lsize] in Hsz. apply le_S_n in Hsz. unfold list_sum in Hsz.
    change ([TP 93] ++ ts) with (TP 93 :: ts).
    revert Tail Dt. generalize (cw ++ [93] ++ rest) as tail. generalize (TP 93 :: ts) as tts.
    clear Hr Hd Hcw.
    induction es as [|e r IHes]; intros tts tail Tail Dt; [exact Tail|].
    destruct Hes as [He Hr']. destruct e as [w1 v]. cbn [fst snd] in He. destruct He as (H1 & Hv).
    cbn [map list_sum fold_right snd] in Hsz.
    assert (Pv : lex_ok ascii ru rq v) by (apply IH; [lia|exact Hv]).
    destruct r as [|e2 r2].
    + cbn [map commas sep_toks fst snd]. rewrite <- !app_assoc.
      apply lexes_ws; [exact H1|]. apply Pv; assumption.
    + change (commas (map ?f ((w1, v) :: e2 :: r2))) with
        ((w1 ++ render ascii rq v) ++ 44 :: commas (map f (e2 :: r2))).
      change (sep_toks (map toks (map ?h ((w1, v) :: e2 :: r2)))) with
        (toks (erase ru v) ++ TP 44 :: sep_toks (map toks (map h (e2 :: r2)))).
      rewrite <- !app_assoc.
      apply lexes_ws; [exact H1|].
      apply Pv; [|right; reflexivity].
      cbn [app]. apply lexes_punct; [reflexivity|].
      apply IHes; [lia|exact Hr'|exact Tail|exact Dt].
  - intros rest ts Hr Hd. cbn [render erase toks app]. apply (lexes_ls ascii sfok ru rq); [exact Hrq|exact Hok|exact Hr].
  - intros rest ts Hr Hd. cbn [render erase toks app]. apply lexes_num; [exact Hok|exact Hd|exact Hr].
  - intros rest ts Hr Hd. cbn [render erase toks app]. apply lexes_true. exact Hr.
Qed.

(* ---- parsing the tokens of a value gives the value ---- *)

Fixpoint jsize (v : jv) : nat :=
  match v with
  | JObj ms => S (list_sum (map (fun m => jsize (snd m)) ms))
  | JArr vs => S (list_sum (map jsize vs))
  | _ => 1%nat
  end.

Lemma toks_not_close v r c : c = 93 \/ c = 125 -> is_close c (toks v ++ r) = None.
Proof.
  intro Hc. destruct v; cbn [toks app is_close]; try reflexivity.
  - destruct (123 =? c) eqn:E; [lia|reflexivity].
  - destruct (91 =? c) eqn:E; [lia|reflexivity].
Qed.

Lemma pmembers_ok pv r : forall ms n, ms <> [] -> (length ms <= n)%nat ->
  (forall m, In m ms -> forall r', pv (toks (snd m) ++ r') = Some (snd m, r')) ->
  pmembers pv n (sep_toks (map (fun m => TS (fst m) :: TP 58 :: toks (snd m)) ms) ++ TP 125 :: r) = Some (ms, r).
Proof.
  induction ms as [|m ms IH]; intros n Hne Hn Hpv; [congruence|].
  destruct n as [|n]; [cbn in Hn; lia|]. destruct m as [k v].
  destruct ms as [|m2 ms2].
  - cbn [map sep_toks fst snd app pmembers]. change (58 =? 58) with true. cbv iota.
    pose proof (Hpv (k, v) (or_introl eq_refl)) as Hkv. cbn [snd] in Hkv.
    rewrite Hkv. change (125 =? 125) with true. reflexivity.
  - change (sep_toks (map ?g ((k, v) :: m2 :: ms2))) with
      ((TS k :: TP 58 :: toks v) ++ TP 44 :: sep_toks (map g (m2 :: ms2))).
    rewrite <- app_assoc. cbn [app pmembers]. change (58 =? 58) with true. cbv iota.
    pose proof (Hpv (k, v) (or_introl eq_refl)) as Hkv. cbn [snd] in Hkv.
    rewrite Hkv. cbn [app snd].
    change (44 =? 125) with false. change (44 =? 44) with true. cbv iota.
    rewrite IH; [reflexivity|discriminate|cbn [length] in *; lia|].
    intros m Hm. apply Hpv. right. exact Hm.
Qed.

Lemma pelements_ok pv r : forall vs n, vs <> [] -> (length vs <= n)%nat ->
  (forall v, In v vs -> forall r', pv (toks v ++ r') = Some (v, r')) ->
  pelements pv n (sep_toks (map toks vs) ++ TP 93 :: r) = Some (vs, r).
Proof.
  induction vs as [|v vs IH]; intros n Hne Hn Hpv; [congruence|].
  destruct n as [|n]; [cbn in Hn; lia|].
  destruct vs as [|v2 vs2].
  - cbn [map sep_toks pelements].
    rewrite (Hpv v (or_introl eq_refl)). change (93 =? 93) with true. reflexivity.
  - change (sep_toks (map toks (v :: v2 :: vs2))) with (toks v ++ TP 44 :: sep_toks (map toks (v2 :: vs2))).
    rewrite <- app_assoc. cbn [pelements].
    rewrite (Hpv v (or_introl eq_refl)). cbn [app].
    change (44 =? 93) with false. change (44 =? 44) with true. cbv iota.
    rewrite IH; [reflexivity|discriminate|cbn [length] in *; lia|].
    intros x Hx. apply Hpv. right. exact Hx.
Qed.

Lemma toks_nonempty v : (1 <= length (toks v))%nat.
Proof. destruct v; cbn [toks length]; lia. Qed.

Lemma sep_toks_length (l : list (list tok)) : (forall x, In x l -> (1 <= length x)%nat) ->
  (length l <= length (sep_toks l))%nat.
Proof.
  induction l as [|x l IH]; intro H; [cbn; lia|].
  destruct l as [|y l]; [cbn [sep_toks length]; specialize (H x (or_introl eq_refl)); lia|].
  change (sep_toks (x :: y :: l)) with (x ++ TP 44 :: sep_toks (y :: l)).
  rewrite app_length. cbn [length]. specialize (IH (fun z Hz => H z (or_intror Hz))). cbn [length] in IH. lia.
Qed.

Lemma list_sum_in (l : list nat) x : In x l -> (x <= list_sum l)%nat.
Proof.
  unfold list_sum. induction l as [|y l IH]; intro H; [destruct H|]. cbn [fold_right]. destruct H as [->|H]; [lia|]. specialize (IH H). lia.
Qed.

Lemma pvalue_toks : forall F v r, (jsize v <= F)%nat -> pvalue F (toks v ++ r) = Some (v, r).
Proof.
  induction F as [|F IH]; intros v r Hs; [destruct v; cbn in Hs; lia|].
  destruct v as [ms|vs|u|n|k]; try reflexivity.
  - cbn [toks app pvalue]. change (123 =? 123) with true. cbv iota.
    destruct ms as [|m ms].
    + cbn [map sep_toks app is_close]. change (125 =? 125) with true. reflexivity.
    + rewrite <- app_assoc. cbn [app].
      assert (Hc : is_close 125 (sep_toks (map (fun m0 => TS (fst m0) :: TP 58 :: toks (snd m0)) (m :: ms)) ++ TP 125 :: r) = None).
      { destruct ms; cbn [map sep_toks app is_close]; reflexivity. }
      rewrite Hc.
      rewrite pmembers_ok; [reflexivity|discriminate| |].
      * rewrite app_length.
        pose proof (sep_toks_length (map (fun m0 => TS (fst m0) :: TP 58 :: toks (snd m0)) (m :: ms))) as L.
        rewrite map_length in L. specialize (L ltac:(intros x Hx; apply in_map_iff in Hx as (y & <- & _); cbn [length]; lia)). lia.
      * intros m0 Hm r'. apply IH. cbn [jsize] in Hs.
        pose proof (list_sum_in (map (fun m => jsize (snd m)) (m :: ms)) (jsize (snd m0))) as L.
        specialize (L ltac:(apply in_map_iff; exists m0; split; [reflexivity|exact Hm])). lia.
  - cbn [toks app pvalue]. change (91 =? 123) with false. change (91 =? 91) with true. cbv iota.
    destruct vs as [|v vs].
    + cbn [map sep_toks app is_close]. change (93 =? 93) with true. reflexivity.
    + rewrite <- app_assoc. cbn [app].
      assert (Hc : is_close 93 (sep_toks (map toks (v :: vs)) ++ TP 93 :: r) = None).
      { destruct vs as [|v2 vs2].
        - cbn [map sep_toks]. apply toks_not_close. left; reflexivity.
        - change (sep_toks (map toks (v :: v2 :: vs2))) with (toks v ++ TP 44 :: sep_toks (map toks (v2 :: vs2))).
          rewrite <- app_assoc. apply toks_not_close. left; reflexivity. }
      rewrite Hc.
      rewrite pelements_ok; [reflexivity|discriminate| |].
      * rewrite app_length.
        pose proof (sep_toks_length (map toks (v :: vs))) as L.
        rewrite map_length in L. specialize (L ltac:(intros x Hx; apply in_map_iff in Hx as (y & <- & _); apply toks_nonempty)). lia.
      * intros v0 Hv r'. apply IH. cbn [jsize] in Hs.
        pose proof (list_sum_in (map jsize (v :: vs)) (jsize v0) ltac:(apply in_map; exact Hv)) as L. lia.
Qed.

Lemma sum_le_sep {A} (f : A -> nat) (g : A -> list tok) : forall l,
  (forall x, In x l -> (f x <= length (g x))%nat) ->
  (list_sum (map f l) <= length (sep_toks (map g l)))%nat.
Proof.
  unfold list_sum. induction l as [|x l IH]; intro H; [cbn; lia|].
  pose proof (H x (or_introl eq_refl)) as Hx.
  specialize (IH (fun y Hy => H y (or_intror Hy))).
  destruct l as [|y l]; [cbn [map sep_toks fold_right]; lia|].
  change (sep_toks (map g (x :: y :: l))) with (g x ++ TP 44 :: sep_toks (map g (y :: l))).
  rewrite app_length. cbn [length]. cbn [map fold_right] in *. lia.
Qed.

Lemma jsize_le_toks : forall n v, (jsize v <= n)%nat -> (jsize v <= length (toks v))%nat.
Proof.
  induction n as [|n IH]; intros v Hs; [destruct v; cbn in Hs; lia|].
  destruct v as [ms|vs|u|x|k]; cbn [jsize toks length]; try lia.
  - cbn [jsize] in Hs. rewrite app_length. cbn [length].
    pose proof (sum_le_sep (fun m => jsize (snd m)) (fun m => TS (fst m) :: TP 58 :: toks (snd m)) ms) as L.
    specialize (L ltac:(intros m Hm; cbn [length];
      pose proof (list_sum_in (map (fun m => jsize (snd m)) ms) (jsize (snd m))
        ltac:(apply in_map_iff; exists m; split; [reflexivity|exact Hm]));
      assert ((jsize (snd m) <= length (toks (snd m)))%nat) by (apply IH; lia); lia)).
    lia.
  - cbn [jsize] in Hs. rewrite app_length. cbn [length].
    pose proof (sum_le_sep jsize toks vs) as L.
    specialize (L ltac:(intros v Hv;
      pose proof (list_sum_in (map jsize vs) (jsize v) ltac:(apply in_map; exact Hv));
      apply IH; lia)).
    lia.
Qed.

(* the whole text: tree, then whitespace *)
Lemma parse_render_all ascii sfok ru rq t trailer :
  sf_reads sfok ru rq ->
  lj_ok sfok t -> all_ws trailer = true ->
  parse_json (render ascii rq t ++ trailer) = Some (erase ru t).
Proof.
  intros Hrq Hok Hw. unfold parse_json.
  assert (L : lexes (render ascii rq t ++ trailer) (toks (erase ru t) ++ [])).
  { apply (lex_render_all ascii sfok ru rq Hrq (lsize t) t (le_n _) Hok).
    - rewrite <- (app_nil_r trailer). apply lexes_ws; [exact Hw|apply lexes_nil].
    - destruct trailer as [|c w]; [exact I|]. cbn [all_ws forallb] in Hw.
      apply andb_true_iff in Hw as [Hc _]. left. exact Hc. }
  rewrite L by lia. rewrite app_nil_r.
  rewrite <- (app_nil_r (toks (erase ru t))) at 2.
  rewrite pvalue_toks; [reflexivity|].
  pose proof (jsize_le_toks _ _ (le_n (jsize (erase ru t)))). lia.
Qed.
