(* C19 model, structure layer: which JSON text the linker and the bundler write.

   /repo/internal/js_printer/js_printer.go printPath,
   /repo/internal/css_printer/css_printer.go recordImportPathForMetafile,
   /repo/internal/linker/linker.go generateCodeForFileInChunkJS (file-loader entry)
                                              -> imp_lj       (one element of an output's imports)
   /repo/internal/linker/linker.go
     generateChunkJS / generateChunkCSS (jMeta) and their jsonMetadataChunkCallback,
     the legal-comment / source-map outputs of generateChunksInParallel,
   /repo/internal/bundler/bundler.go the file-loader output of processScannedFiles
                                              -> chunk_lj, chunk_pre
     generateChunksInParallel: breakJoinerIntoPieces(callback(len(outputContents)))
       then substituteFinalPaths, which writes escapeFinalPath(modifyPath(..), false)
       for each key (fix b608b91)               -> chunk_final
   /repo/internal/bundler/bundler.go
     processScannedFiles (jsonMetadataChunk of an input)     -> input_lj, input_json
     generateMetadataJSON                                     -> metafile_bytes (uses Metafile.list_outputs)

   Unique keys are written with QuoteForJSON like every other string
   (chunk_pre renders SF k i as quote_for_json (key_bytes ..)); DocProofs shows
   that this is the key between quotation marks.  c_pad says whether the closing brace of the
   per-output inputs object is preceded by whitespace: len(metaOrder) > 0 for
   JS, len(compileResults) > 0 for CSS (which may list fewer inputs than that).
   generateExtraDataForFileJS returns the empty string outside debug builds.
   Executable definitions only. *)
From Coq Require Import String Ascii.
From V Require Import Common.Base C18.Pieces C19.Json C19.Layout C19.Metafile.

Definition b (s : String.string) : bytes :=
  map (fun a => Z.of_nat (Ascii.nat_of_ascii a)) (String.list_ascii_of_string s).

Inductive pref := PLit (s : bytes) | PRef (k i : Z).

Record imp := mkImp { i_path : pref; i_kind : bytes; i_external : bool }.

Record chunk := mkChunk {
  c_js : bool;                       (* has an exports list (everything but a CSS chunk) *)
  c_imports : list imp;
  c_exports : list bytes;
  c_entry : option bytes;
  c_css : option pref;               (* cssBundle: the unique key of the CSS chunk *)
  c_inputs : list (bytes * Z);       (* path, bytesInOutput *)
  c_pad : bool;
  c_bytes : Z
}.

(* an import of an input: external (no resolve result), resolved (with the
   original specifier), or the parser-generated import of an injected file
   (fix 3b6e9ba: neither "external" nor "original") *)
Record iimp := mkIImp {
  ii_path : bytes; ii_kind : bytes; ii_external : bool; ii_original : option bytes;
  ii_with : list (bytes * bytes)
}.

Record input := mkInput {
  in_path : bytes; in_bytes : Z; in_imports : list iimp;
  in_format : option bytes; in_with : list (bytes * bytes)
}.

Definition is_nil {A} (l : list A) : bool := match l with [] => true | _ => false end.

Section Doc.
  Variable mini : bool.              (* options.MetafileFormat == MinifiedMetafile *)
  Variable ascii : bool.             (* options.ASCIIOnly *)

  Definition w (s : bytes) : bytes := if mini then remove_ws s else s.
  Definition nl (n : nat) : bytes := w (10 :: repeat 32 n).
  Definition sp : bytes := w [32].
  Definition K (s : String.string) : ls := SR (b s).

  (* how a path is written: literally, or as a unique key *)
  Definition ls_of (p : pref) : ls :=
    match p with PLit s => SQ s | PRef k i => SF k i end.

    Definition imp_lj (i : imp) : lj :=
      LObj ([(nl 10, K "path"%string, sp, LS (ls_of (i_path i)));
             (nl 10, K "kind"%string, sp, LS (SQ (i_kind i)))]
            ++ (if i_external i then [(nl 10, K "external"%string, sp, LTrue)] else []))
           (nl 8).

    Definition chunk_lj (c : chunk) : lj :=
      LObj ([(nl 6, K "imports"%string, sp,
              LArr (map (fun i => (nl 8, imp_lj i)) (c_imports c))
                   (if is_nil (c_imports c) then [] else nl 6))]
            ++ (if c_js c
                then [(nl 6, K "exports"%string, sp,
                       LArr (map (fun e => (nl 8, LS (SQ e))) (c_exports c))
                            (if is_nil (c_exports c) then [] else nl 6))]
                else [])
            ++ match c_entry c with Some e => [(nl 6, K "entryPoint"%string, sp, LS (SQ e))] | None => [] end
            ++ match c_css c with Some p => [(nl 6, K "cssBundle"%string, sp, LS (ls_of p))] | None => [] end
            ++ [(nl 6, K "inputs"%string, sp,
                 LObj (map (fun pn => (nl 8, SQ (fst pn), sp,
                                       LObj [(nl 10, K "bytesInOutput"%string, sp, LNum (snd pn))] (nl 8)))
                           (c_inputs c))
                      (if c_pad c then nl 6 else []));
                (nl 6, K "bytes"%string, sp, LNum (c_bytes c))])
           (nl 4).

  Section Link.
    Variable prefix : bytes.
    Variable nf nc : Z.
    Variable pathOf : Z -> Z -> bytes.   (* kind, index -> pretty path of the asset / chunk output *)

    Definition final_path (k i : Z) : bytes := escape_final (pathOf k i).

    (* what jsonMetadataChunkCallback returns *)
    Definition chunk_pre (c : chunk) : bytes :=
      render ascii (fun k i => quote_for_json ascii (key_bytes prefix k i)) (chunk_lj c).

    (* the JSONMetadataChunk of the output file *)
    Definition chunk_final (c : chunk) : bytes :=
      match break_joiner prefix nf nc (chunk_pre c) with
      | Some o => substitute_out final_path o (chunk_pre c)
      | None => []
      end.
  End Link.

  (* ---- inputs section ---- *)
  Definition with_lj (ind : nat) (ws : list (bytes * bytes)) : list (bytes * ls * bytes * lj) :=
    if is_nil ws then []
    else [(nl ind, K "with"%string, sp,
           LObj (map (fun kv => (nl (ind + 2), SQ (fst kv), sp, LS (SQ (snd kv)))) ws) (nl ind))].

  Definition iimp_lj (i : iimp) : lj :=
    LObj ([(nl 10, K "path"%string, sp, LS (SQ (ii_path i)));
           (nl 10, K "kind"%string, sp, LS (SQ (ii_kind i)))]
          ++ (if ii_external i then [(nl 10, K "external"%string, sp, LTrue)]
              else match ii_original i with
                   | Some o => [(nl 10, K "original"%string, sp, LS (SQ o))]
                   | None => []
                   end)
          ++ with_lj 10 (ii_with i))
         (nl 8).

  Definition input_lj (i : input) : lj :=
    LObj ([(nl 6, K "bytes"%string, sp, LNum (in_bytes i));
           (nl 6, K "imports"%string, sp,
            LArr (map (fun x => (nl 8, iimp_lj x)) (in_imports i))
                 (if is_nil (in_imports i) then [] else nl 6))]
          ++ match in_format i with Some f => [(nl 6, K "format"%string, sp, LS (SQ f))] | None => [] end
          ++ with_lj 6 (in_with i))
         (nl 4).

  (* (an input's text has no unique keys: rq is not used) *)
  Definition input_json (rq : Z -> Z -> bytes) (i : input) : bytes :=
    quote_for_json ascii (in_path i) ++ 58 :: sp ++ render ascii rq (input_lj i).

  (* ---- generateMetadataJSON ---- *)
  Fixpoint join_chunks (first : bool) (cs : list bytes) : bytes :=
    match cs with
    | [] => []
    | c :: r => (if first then nl 4 else 44 :: nl 4) ++ c ++ join_chunks false r
    end.

  Definition qlit (s : String.string) : bytes := 34 :: b s ++ [34].

  Definition metafile_bytes (ins : list bytes) (rs : list (bytes * bytes)) : bytes :=
    123 :: nl 2 ++ qlit "inputs"%string ++ 58 :: sp ++ 123 ::
    join_chunks true (filter (fun c => negb (is_nil c)) ins)
    ++ nl 2 ++ 125 :: 44 :: nl 2 ++ qlit "outputs"%string ++ 58 :: sp ++ 123 ::
    join_chunks true (map (fun pj => quote_for_json ascii (fst pj) ++ 58 :: sp ++ snd pj) (list_outputs [] rs))
    ++ nl 2 ++ 125 :: w [10] ++ [125; 10].
End Doc.

(* the whole metafile of a build described by its inputs and its outputs
   (absolute-or-relative pretty path, description) in the order of the results *)
Definition metafile_of (mini ascii : bool) (prefix : bytes) (nf nc : Z) (pathOf : Z -> Z -> bytes)
           (ins : list input) (outs : list (bytes * chunk)) : bytes :=
  metafile_bytes mini ascii (map (input_json mini ascii (fun k i => 34 :: escape_final (pathOf k i) ++ [34])) ins)
    (map (fun pc => (fst pc, chunk_final mini ascii prefix nf nc pathOf (snd pc))) outs).
