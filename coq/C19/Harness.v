(* Checkers of the C19 correspondence run. *)
From V Require Import Common.Base C18.Pieces C18.Harness C19.Metafile.

(* accurateFinalByteCount on the per-input slices of a chunk:
   (prefix, nfiles, nchunks, path table, segments (owner or -1, bytes), trailer,
    Go per-owner counts in metaOrder, Go length of the substituted whole output) *)
Definition mkseg (r : Z * bytes) : segment := let '(o, b) := r in ((if o <? 0 then None else Some o), b).
Definition zz_eqb (a b : Z * Z) : bool := (fst a =? fst b) && (snd a =? snd b).
Definition meta_ok (c : bytes * Z * Z * list (Z * Z * bytes) * list (Z * bytes) * bytes * list (Z * Z) * Z) : bool :=
  let '(prefix, nf, nc, tab, rsegs, trailer, gcounts, gtotal) := c in
  let segs := map mkseg rsegs in
  list_eqb zz_eqb (output_inputs prefix nf nc (lookup tab) segs) gcounts
  && (total_bytes prefix nf nc (lookup tab) segs trailer =? gtotal).
Definition check_meta := mismatches meta_ok.

(* generateMetadataJSON: (results (path, metadata chunk), Go listed (path, chunk) in order) *)
Definition bb_eqb (a b : bytes * bytes) : bool := zlist_eqb (fst a) (fst b) && zlist_eqb (snd a) (snd b).
Definition outs_ok (c : list (bytes * bytes) * list (bytes * bytes)) : bool :=
  let '(rs, g) := c in list_eqb bb_eqb (list_outputs [] rs) g.
Definition check_outs := mismatches outs_ok.
