(* Checkers of the C19 correspondence run. *)
From V Require Import Common.Base C18.Pieces C18.Harness C19.Metafile C19.Json C19.JsonSpec C19.JsonProofs C19.Layout C19.Doc C19.Scan.

(* accurateFinalByteCount on the per-input slices of a chunk:
   (prefix, nfiles, nchunks, path table, segments (owner or -1, bytes), trailer,
    Go per-owner counts in metaOrder, Go length of the substituted whole output) *)
Definition mkseg (r : Z * bytes) : segment := let '(o, b) := r in ((if o <? 0 then None else Some o), b).
Definition zz_eqb (a b : Z * Z) : bool := (fst a =? fst b) && (snd a =? snd b).
Definition meta_ok (c : bytes * Z * Z * list (Z * Z * bytes) * list (Z * bytes) * bytes * list (Z * Z) * Z) : bool :=
  let '(prefix, nf, nc, tab, rsegs, trailer, gcounts, gtotal) := c in
  let segs := map mkseg rsegs in
  (* substituteFinalPaths / accurateFinalByteCount write escapeFinalPath(path) (fix b608b91) *)
  let pathOf := fun k i => escape_final (lookup tab k i) in
  list_eqb zz_eqb (output_inputs prefix nf nc pathOf segs) gcounts
  && (total_bytes prefix nf nc pathOf segs trailer =? gtotal).
Definition check_meta := mismatches meta_ok.

(* generateMetadataJSON: (results (path, metadata chunk), Go listed (path, chunk) in order) *)
Definition bb_eqb (a b : bytes * bytes) : bool := zlist_eqb (fst a) (fst b) && zlist_eqb (snd a) (snd b).
Definition outs_ok (c : list (bytes * bytes) * list (bytes * bytes)) : bool :=
  let '(rs, g) := c in list_eqb bb_eqb (list_outputs [] rs) g.
Definition check_outs := mismatches outs_ok.

(* helpers.QuoteForJSON: (asciiOnly, text, Go output).  Besides the model's
   bytes the property's predicate is evaluated: the RFC 8259 string parser
   reads the Go output back as the UTF-16 units of the text *)
Definition ou_eqb (a b : option (list Z * bytes)) : bool :=
  match a, b with
  | Some (u, r), Some (u', r') => zlist_eqb u u' && zlist_eqb r r'
  | None, None => true
  | _, _ => false
  end.
Definition quote_ok (c : bool * bytes * bytes) : bool :=
  let '(ascii, s, g) := c in
  zlist_eqb (quote_for_json ascii s) g
  && ou_eqb (jstring g) (Some (units s, [])).
Definition check_quote := mismatches quote_ok.

(* a whole metafile of api.Build: (asciiOnly, output paths by index, inputs,
   outputs (path, description with imports of outputs as PRef 2 index), Go text).
   The model text goes through chunk_pre, break_joiner and substitute_out with a
   fixed prefix, and must be the Go text byte for byte; the spec parser must
   accept it. *)
Definition corr_prefix : bytes := [90; 113; 88; 57; 118; 75; 50; 109; 80; 82; 69; 70; 73; 88; 48; 48].
Definition doc_ok (c : bool * list bytes * list input * list (bytes * chunk) * bytes) : bool :=
  let '(ascii, tab, ins, outs, g) := c in
  let pathOf := fun (_ i : Z) => nth (Z.to_nat i) tab [] in
  zlist_eqb (metafile_of false ascii corr_prefix 0 (Z.of_nat (length tab)) pathOf ins outs) g
  && match parse_json g with Some _ => true | None => false end.
Definition check_doc := mismatches doc_ok.

(* generateMetadataJSON on arbitrary chunks: (minified, asciiOnly, results, Go text) *)
Definition gen_ok (c : bool * bool * list (bytes * bytes) * bytes) : bool :=
  let '(mini, ascii, rs, g) := c in zlist_eqb (metafile_bytes mini ascii [] rs) g.
Definition check_gen := mismatches gen_ok.

(* processScannedFiles on one importer of an api.Build: (paths by source index,
   visited keys, records, imports read from the metafile) *)
Definition bb_list_eqb (a b : list (bytes * bytes)) : bool := list_eqb bb_eqb a b.
Definition iimp_eqb (a b : iimp) : bool :=
  zlist_eqb (ii_path a) (ii_path b) && zlist_eqb (ii_kind a) (ii_kind b)
  && Bool.eqb (ii_external a) (ii_external b)
  && option_eqb zlist_eqb (ii_original a) (ii_original b)
  && bb_list_eqb (ii_with a) (ii_with b).
Definition scan_ok (c : list bytes * list (bytes * Z) * list irec * list iimp) : bool :=
  let '(tab, visited, recs, g) := c in
  list_eqb iimp_eqb (map (import_of (fun i => nth (Z.to_nat i) tab []) visited) recs) g.
Definition check_scan := mismatches scan_ok.
