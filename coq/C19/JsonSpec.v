(* C19 specification: a JSON text parser written from RFC 8259 (grammar of
   sections 2-7) and RFC 3629 (UTF-8, the well-formed byte sequences), not from
   esbuild's code.

     JSON-text = ws value ws
     value     = false / null / true / object / array / number / string
     object    = { [ member *( , member ) ] }     member = string : value
     array     = [ [ value *( , value ) ] ]
     number    = [ - ] int [ frac ] [ exp ]
     string    = DQUOTE *char DQUOTE      char = unescaped / BACKSLASH ( DQUOTE BACKSLASH / b f n r t / uXXXX )
     ws        = *( %x20 / %x09 / %x0A / %x0D )

   A string denotes its sequence of UTF-16 code units (as ECMA-404 / JSON.parse
   read it): \uXXXX is one unit, an unescaped character above U+FFFF two.
   The text must be well-formed UTF-8 (RFC 8259 section 8.1).
   Object members are kept in order, duplicates included (section 4 leaves
   their meaning open; the theorems state uniqueness separately).
   Executable definitions only. *)
From V Require Import Common.Base.

Inductive jv :=
| JObj (ms : list (list Z * jv))
| JArr (vs : list jv)
| JStr (u : list Z)
| JNum (lexeme : bytes)
| JLit (k : Z).          (* 0 true, 1 false, 2 null *)

Inductive tok :=
| TP (c : Z)             (* one of { } [ ] : , *)
| TS (u : list Z)
| TN (lexeme : bytes)
| TL (k : Z).

Definition is_ws (c : Z) : bool := (c =? 32) || (c =? 9) || (c =? 10) || (c =? 13).
Definition is_digit (c : Z) : bool := (48 <=? c) && (c <=? 57).
Definition is_punct (c : Z) : bool :=
  (c =? 123) || (c =? 125) || (c =? 91) || (c =? 93) || (c =? 58) || (c =? 44).

Definition hexval (c : Z) : option Z :=
  if (48 <=? c) && (c <=? 57) then Some (c - 48)
  else if (65 <=? c) && (c <=? 70) then Some (c - 55)
  else if (97 <=? c) && (c <=? 102) then Some (c - 87)
  else None.

(* RFC 3629 section 4 (UTF8-1 .. UTF8-4) *)
Definition utail (b : Z) : bool := (128 <=? b) && (b <=? 191).
Definition utf8_dec (s : bytes) : option (Z * bytes) :=
  match s with
  | [] => None
  | b0 :: t =>
    if (0 <=? b0) && (b0 <=? 127) then Some (b0, t)
    else if (194 <=? b0) && (b0 <=? 223) then
      match t with
      | b1 :: t1 => if utail b1 then Some ((b0 - 192) * 64 + (b1 - 128), t1) else None
      | _ => None
      end
    else if (224 <=? b0) && (b0 <=? 239) then
      match t with
      | b1 :: b2 :: t2 =>
        let lo := if b0 =? 224 then 160 else 128 in
        let hi := if b0 =? 237 then 159 else 191 in
        if (lo <=? b1) && (b1 <=? hi) && utail b2
        then Some ((b0 - 224) * 4096 + (b1 - 128) * 64 + (b2 - 128), t2) else None
      | _ => None
      end
    else if (240 <=? b0) && (b0 <=? 244) then
      match t with
      | b1 :: b2 :: b3 :: t3 =>
        let lo := if b0 =? 240 then 144 else 128 in
        let hi := if b0 =? 244 then 143 else 191 in
        if (lo <=? b1) && (b1 <=? hi) && utail b2 && utail b3
        then Some ((b0 - 240) * 262144 + (b1 - 128) * 4096 + (b2 - 128) * 64 + (b3 - 128), t3)
        else None
      | _ => None
      end
    else None
  end.

Definition u16 (cp : Z) : list Z :=
  if cp <? 65536 then [cp]
  else [55296 + (cp - 65536) / 1024; 56320 + (cp - 65536) mod 1024].

Definition simple_esc (e : Z) : option Z :=
  if e =? 34 then Some 34 else if e =? 92 then Some 92 else if e =? 47 then Some 47
  else if e =? 98 then Some 8 else if e =? 102 then Some 12 else if e =? 110 then Some 10
  else if e =? 114 then Some 13 else if e =? 116 then Some 9 else None.

Definition prepend {A B} (l : list A) (o : option (list A * B)) : option (list A * B) :=
  match o with Some (u, r) => Some (l ++ u, r) | None => None end.

(* the characters after the opening quotation mark: (units, text after the closing mark) *)
Fixpoint jstr (fuel : nat) (s : bytes) : option (list Z * bytes) :=
  match fuel with
  | O => None
  | S f =>
    match s with
    | [] => None
    | c :: t =>
      if c =? 34 then Some ([], t)
      else if c =? 92 then
        match t with
        | [] => None
        | e :: t1 =>
          if e =? 117 then
            match t1 with
            | h1 :: h2 :: h3 :: h4 :: t2 =>
              match hexval h1, hexval h2, hexval h3, hexval h4 with
              | Some a, Some b, Some c', Some d => prepend [((a * 16 + b) * 16 + c') * 16 + d] (jstr f t2)
              | _, _, _, _ => None
              end
            | _ => None
            end
          else match simple_esc e with
               | Some u => prepend [u] (jstr f t1)
               | None => None
               end
        end
      else match utf8_dec s with
           | Some (cp, r) => if cp <? 32 then None else prepend (u16 cp) (jstr f r)
           | None => None
           end
    end
  end.

Definition jstring (s : bytes) : option (list Z * bytes) :=
  match s with
  | c :: t => if c =? 34 then jstr (S (length t)) t else None
  | [] => None
  end.

(* number = [ minus ] int [ frac ] [ exp ]: (lexeme, rest) *)
Fixpoint span_digits (s : bytes) : bytes * bytes :=
  match s with
  | c :: t => if is_digit c then let '(d, r) := span_digits t in (c :: d, r) else ([], s)
  | [] => ([], [])
  end.

Definition jint (s : bytes) : option (bytes * bytes) :=
  match s with
  | c :: t =>
    if c =? 48 then Some ([48], t)
    else if is_digit c then let '(d, r) := span_digits t in Some (c :: d, r)
    else None
  | [] => None
  end.

Definition jfrac (s : bytes) : option (bytes * bytes) :=
  match s with
  | c :: t =>
    if c =? 46 then
      match span_digits t with
      | ([], _) => None
      | (d, r) => Some (46 :: d, r)
      end
    else Some ([], s)
  | [] => Some ([], [])
  end.

Definition jexp (s : bytes) : option (bytes * bytes) :=
  match s with
  | c :: t =>
    if (c =? 101) || (c =? 69) then
      let '(sg, t') := match t with
                       | x :: t'' => if (x =? 43) || (x =? 45) then ([x], t'') else ([], t)
                       | [] => ([], t)
                       end in
      match span_digits t' with
      | ([], _) => None
      | (d, r) => Some (c :: sg ++ d, r)
      end
    else Some ([], s)
  | [] => Some ([], [])
  end.

Definition jnumber (s : bytes) : option (bytes * bytes) :=
  let '(m, s1) := match s with
                  | c :: t => if c =? 45 then ([45], t) else ([], s)
                  | [] => ([], s)
                  end in
  match jint s1 with
  | None => None
  | Some (i, s2) =>
    match jfrac s2 with
    | None => None
    | Some (f, s3) =>
      match jexp s3 with
      | None => None
      | Some (e, s4) => Some (m ++ i ++ f ++ e, s4)
      end
    end
  end.

Definition lit_true : bytes := [116; 114; 117; 101].
Definition lit_false : bytes := [102; 97; 108; 115; 101].
Definition lit_null : bytes := [110; 117; 108; 108].

Fixpoint strip (p s : bytes) : option bytes :=
  match p, s with
  | [], _ => Some s
  | x :: p', y :: s' => if x =? y then strip p' s' else None
  | _ :: _, [] => None
  end.

(* tokens of a text, insignificant whitespace dropped *)
Fixpoint lex (fuel : nat) (s : bytes) : option (list tok) :=
  match fuel with
  | O => None
  | S f =>
    match s with
    | [] => Some []
    | c :: t =>
      if is_ws c then lex f t
      else if is_punct c then option_map (cons (TP c)) (lex f t)
      else if c =? 34 then
        match jstr (S (length t)) t with
        | Some (u, r) => option_map (cons (TS u)) (lex f r)
        | None => None
        end
      else if (c =? 45) || is_digit c then
        match jnumber s with
        | Some (n, r) => option_map (cons (TN n)) (lex f r)
        | None => None
        end
      else match strip lit_true s with
           | Some r => option_map (cons (TL 0)) (lex f r)
           | None =>
             match strip lit_false s with
             | Some r => option_map (cons (TL 1)) (lex f r)
             | None =>
               match strip lit_null s with
               | Some r => option_map (cons (TL 2)) (lex f r)
               | None => None
               end
             end
           end
    end
  end.

(* member *( , member ) }   and   value *( , value ) ]   for a given parser of values *)
Section Lists.
  Variable pv : list tok -> option (jv * list tok).

  Fixpoint pmembers (n : nat) (ts : list tok) : option (list (list Z * jv) * list tok) :=
    match n with
    | O => None
    | S n' =>
      match ts with
      | TS k :: TP c :: r =>
        if c =? 58 then
          match pv r with
          | Some (v, TP c2 :: r2) =>
            if c2 =? 125 then Some ([(k, v)], r2)
            else if c2 =? 44 then
              match pmembers n' r2 with
              | Some (ms, r3) => Some ((k, v) :: ms, r3)
              | None => None
              end
            else None
          | _ => None
          end
        else None
      | _ => None
      end
    end.

  Fixpoint pelements (n : nat) (ts : list tok) : option (list jv * list tok) :=
    match n with
    | O => None
    | S n' =>
      match pv ts with
      | Some (v, TP c2 :: r2) =>
        if c2 =? 93 then Some ([v], r2)
        else if c2 =? 44 then
          match pelements n' r2 with
          | Some (vs, r3) => Some (v :: vs, r3)
          | None => None
          end
        else None
      | _ => None
      end
    end.
End Lists.

Definition is_close (c : Z) (ts : list tok) : option (list tok) :=
  match ts with
  | TP c2 :: r => if c2 =? c then Some r else None
  | _ => None
  end.

Fixpoint pvalue (fuel : nat) (ts : list tok) : option (jv * list tok) :=
  match fuel with
  | O => None
  | S f =>
    match ts with
    | TS u :: r => Some (JStr u, r)
    | TN n :: r => Some (JNum n, r)
    | TL k :: r => Some (JLit k, r)
    | TP c :: r =>
      if c =? 123 then
        match is_close 125 r with
        | Some r2 => Some (JObj [], r2)
        | None =>
          match pmembers (pvalue f) (length r) r with
          | Some (ms, r2) => Some (JObj ms, r2)
          | None => None
          end
        end
      else if c =? 91 then
        match is_close 93 r with
        | Some r2 => Some (JArr [], r2)
        | None =>
          match pelements (pvalue f) (length r) r with
          | Some (vs, r2) => Some (JArr vs, r2)
          | None => None
          end
        end
      else None
    | [] => None
    end
  end.

(* JSON-text = ws value ws *)
Definition parse_json (s : bytes) : option jv :=
  match lex (S (length s)) s with
  | Some ts =>
    match pvalue (S (length ts)) ts with
    | Some (v, []) => Some v
    | _ => None
    end
  | None => None
  end.
