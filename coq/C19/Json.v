(* C19 model, JSON layer:

   /repo/internal/helpers/quote.go
     canPrintWithoutEscape                    -> can_print
     isInvalidByte                            -> is_invalid_byte
     QuoteForJSON = internalQuote(.., DQUOTE)  -> quote_for_json   (quote_step is one loop iteration)
   fmt.Sprintf of %d for the byte counts      -> dec
   /repo/internal/config/config.go
     MetafileFormat.MaybeRemoveWhitespace     -> remove_ws
   /repo/internal/linker/linker.go
     escapeFinalPath(path, isCSS = false)     -> escape_final  (the form used for JS and JSON strings;
       the early return for a path without such characters gives the same bytes as the loop)

   DecodeWTF8Rune, rune_units, hexc, esc_u4 are the C01 models of
   internal/helpers/utf.go and of the hexChars indexing (C01/Utf.v, C01/Quote.v),
   tied to the code by C01's correspondence run and again by C19's.
   The fast path of internalQuote appends text[start:i] for a maximal run of
   printable runes; that is the concatenation of the encoded bytes of each rune
   of the run, so the model appends rune by rune.
   Executable definitions only. *)
From V Require Import Common.Base C01.Utf C01.Quote.

Definition can_print (c : Z) (ascii : bool) : bool :=
  if c <=? 126 then (32 <=? c) && negb (c =? 92) && negb (c =? 34)
  else negb ascii && negb (c =? 65279) && ((c <? 55296) || (57343 <? c)).

(* the default: branch of the switch *)
Definition esc_json (c : Z) : bytes :=
  if c <=? 65535 then esc_u4 c
  else let c' := c - 65536 in
       esc_u4 (55296 + (c' / 1024) mod 1024) ++ esc_u4 (56320 + c' mod 1024).

Definition is_invalid_byte (c w : Z) : bool := (c =? 65533) && (w <=? 1).

(* one iteration: (bytes appended, bytes of the input consumed) *)
Definition quote_step (ascii : bool) (s : bytes) : bytes * nat :=
  let '(c, w) := DecodeWTF8Rune s in
  if can_print c ascii && negb (is_invalid_byte c w) then (firstn (Z.to_nat w) s, Z.to_nat w)
  else if c =? 8 then ([92; 98], 1%nat)
  else if c =? 12 then ([92; 102], 1%nat)
  else if c =? 10 then ([92; 110], 1%nat)
  else if c =? 13 then ([92; 114], 1%nat)
  else if c =? 9 then ([92; 116], 1%nat)
  else if c =? 92 then ([92; 92], 1%nat)
  else if c =? 34 then ([92; 34], 1%nat)
  else (esc_json c, Z.to_nat w).

Fixpoint quote_body (fuel : nat) (ascii : bool) (s : bytes) : bytes :=
  match fuel with
  | O => []
  | S f =>
    match s with
    | [] => []
    | _ => let '(o, n) := quote_step ascii s in o ++ quote_body f ascii (skipn n s)
    end
  end.

Definition quote_for_json (ascii : bool) (s : bytes) : bytes :=
  34 :: quote_body (length s) ascii s ++ [34].

(* how esbuild reads a Go string: the UTF-16 code units of its WTF-8 decoding
   (an invalid byte is U+FFFD) *)
Fixpoint str_units (fuel : nat) (s : bytes) : list Z :=
  match fuel with
  | O => []
  | S f =>
    match s with
    | [] => []
    | _ => let '(c, w) := DecodeWTF8Rune s in rune_units c ++ str_units f (skipn (Z.to_nat w) s)
    end
  end.
Definition units (s : bytes) : list Z := str_units (length s) s.

(* %d of a non-negative int (at most 20 digits: Go ints are below 2^63) *)
Fixpoint dec_digits (fuel : nat) (n : Z) : bytes :=
  match fuel with
  | O => []
  | S f => if n <? 10 then [48 + n] else dec_digits f (n / 10) ++ [48 + n mod 10]
  end.
Definition dec (n : Z) : bytes := dec_digits 20 n.

Definition remove_ws (s : bytes) : bytes :=
  filter (fun c => negb ((c =? 32) || (c =? 10))) s.

(* fmt %x digit *)
Definition hexl (d : Z) : Z := if d <? 10 then 48 + d else 87 + d.

Definition esc_final_byte (c : Z) : bytes :=
  if (c =? 34) || (c =? 92) then [92; c]
  else if 32 <=? c then [c]
  else [92; 117; 48; 48; hexl (c / 16); hexl (c mod 16)].

Definition escape_final (p : bytes) : bytes := flat_map esc_final_byte p.
