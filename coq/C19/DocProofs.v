(* C19 proofs, structure layer: the metafile text of the model is the text of
   one JSON tree; it parses, and parses back to the descriptions. *)
From Coq Require Import String.
From V Require Import Common.Base C01.Utf C01.Quote C18.Pieces C18.PiecesProofs
  C19.Json C19.JsonSpec C19.JsonProofs C19.Layout C19.LayoutProofs C19.SubstProofs
  C19.Metafile C19.MetafileProofs C19.Doc.

Definition rq_final (pathOf : Z -> Z -> bytes) : Z -> Z -> bytes := fun k i => 34 :: escape_final (pathOf k i) ++ [34].

(* a final path: bytes forming well-formed UTF-8 (any characters, including
   quotation marks, backslashes and control characters) *)
Definition path_ok (p : bytes) : Prop := bytes_ok p /\ utf8_valid (length p) p = true.
Definition paths_ok (pathOf : Z -> Z -> bytes) : Z -> Z -> Prop := fun k i => path_ok (pathOf k i).
Definition path_units (pathOf : Z -> Z -> bytes) : Z -> Z -> list Z := fun k i => units (pathOf k i).

Lemma sf_final pathOf : sf_reads (paths_ok pathOf) (path_units pathOf) (rq_final pathOf).
Proof.
  intros k i [Hb Hv]. exists (escape_final (pathOf k i)). split; [reflexivity|].
  intros F rest HF. apply escape_final_read; try assumption. lia.
Qed.

(* ---- (c) the JSON piece of an output after path substitution ---- *)

Lemma pof_not_nil : forall fs acc, pof acc fs <> [].
Proof. induction fs as [|[s|k i] fs IH]; intro acc; cbn [pof]; [discriminate|apply IH|discriminate]. Qed.

Lemma clean_refs prefix nf nc : forall fs acc, clean prefix nf nc (pof acc fs) -> refs_ok fs.
Proof.
  induction fs as [|f fs IH]; intros acc Hc k i Hin; [destruct Hin|].
  destruct f as [s|k' i']; cbn [pof] in Hc.
  - destruct Hin as [E|Hin]; [discriminate|]. exact (IH _ Hc k i Hin).
  - inversion Hc as [d Ho Hd|d k0 i0 r Hk Hi H1 H2 Hx Hr]; subst.
    { exfalso. eapply pof_not_nil. symmetry. eassumption. }
    destruct Hin as [E|Hin].
    + inversion E; subst. exact Hk.
    + exact (IH _ Hr k i Hin).
Qed.

Lemma chunk_final_text mini ascii prefix nf nc pathOf c :
  forallb plain prefix = true ->
  clean prefix nf nc (pof [] (frags ascii (chunk_lj mini c))) ->
  chunk_final mini ascii prefix nf nc pathOf c = render ascii (rq_final pathOf) (chunk_lj mini c).
Proof.
  intros Hp Hc. unfold chunk_final, chunk_pre.
  pose proof (clean_refs _ _ _ _ _ Hc) as Hr.
  rewrite <- (flat_frags ascii (key_bytes prefix) _ (fun k i => key_quoted ascii prefix k i Hp) _ _ (le_n _)).
  destruct (substitute_text prefix nf nc (final_path pathOf) _ Hr Hc) as (o & Ho & Hs).
  rewrite Ho, Hs.
  apply (flat_frags ascii (final_path pathOf) (rq_final pathOf) (fun k i => eq_refl) _ _ (le_n _)).
Qed.

(* ---- (b) the document as one tree ---- *)

Fixpoint dedup_first {A} (seen : list bytes) (l : list (bytes * A)) : list (bytes * A) :=
  match l with
  | [] => []
  | pa :: r => if bmem (fst pa) seen then dedup_first seen r else pa :: dedup_first (fst pa :: seen) r
  end.

Lemma list_outputs_map {A} (g : A -> bytes) : (forall a, g a <> []) ->
  forall l seen, list_outputs seen (map (fun pa => (fst pa, g (snd pa))) l)
               = map (fun pa => (fst pa, g (snd pa))) (dedup_first seen l).
Proof.
  intro Hg. induction l as [|[p a] l IH]; intro seen; [reflexivity|].
  cbn [map list_outputs dedup_first fst snd].
  destruct (g a) eqn:E; [exfalso; exact (Hg a E)|]. rewrite <- E.
  destruct (bmem p seen); [apply IH|]. cbn [map fst snd]. rewrite IH. reflexivity.
Qed.

Definition doc_lj (mini : bool) (ins : list input) (outs : list (bytes * chunk)) : lj :=
  LObj [(nl mini 2, K "inputs"%string, sp mini,
         LObj (map (fun i => (nl mini 4, SQ (in_path i), sp mini, input_lj mini i)) ins) (nl mini 2));
        (nl mini 2, K "outputs"%string, sp mini,
         LObj (map (fun pc => (nl mini 4, SQ (fst pc), sp mini, chunk_lj mini (snd pc))) (dedup_first [] outs)) (nl mini 2))]
       (w mini [10]).

Lemma join_false mini {A} (g : A -> bytes) : forall l,
  join_chunks mini false (map g l) = concat (map (fun x => 44 :: nl mini 4 ++ g x) l).
Proof.
  induction l as [|x l IH]; [reflexivity|]. cbn [map join_chunks concat]. rewrite IH.
  cbn [app]. rewrite <- ?app_assoc. reflexivity.
Qed.

Lemma commas_concat (l : list bytes) : forall x, commas (x :: l) = x ++ concat (map (fun y => 44 :: y) l).
Proof.
  induction l as [|y l IH]; intro x; [cbn; rewrite app_nil_r; reflexivity|].
  change (commas (x :: y :: l)) with (x ++ 44 :: commas (y :: l)). rewrite IH. reflexivity.
Qed.

Lemma join_true mini {A} (g : A -> bytes) (l : list A) :
  join_chunks mini true (map g l) = commas (map (fun x => nl mini 4 ++ g x) l).
Proof.
  destruct l as [|x l]; [reflexivity|].
  cbn [map join_chunks]. rewrite commas_concat, join_false, map_map.
  rewrite <- app_assoc. reflexivity.
Qed.

Lemma render_nonempty ascii rq mini c : render ascii rq (chunk_lj mini c) <> [].
Proof. unfold chunk_lj. cbn [render]. discriminate. Qed.

Lemma input_json_nonempty mini ascii rq : forall ins,
  filter (fun c => negb (is_nil c)) (map (input_json mini ascii rq) ins) = map (input_json mini ascii rq) ins.
Proof.
  induction ins as [|i ins IH]; [reflexivity|]. cbn [map filter].
  unfold input_json at 1, quote_for_json. cbn [app is_nil negb]. rewrite IH. reflexivity.
Qed.

Lemma metafile_as_tree mini ascii rq ins outs :
  metafile_bytes mini ascii (map (input_json mini ascii rq) ins)
    (map (fun pc => (fst pc, render ascii rq (chunk_lj mini (snd pc)))) outs)
  = render ascii rq (doc_lj mini ins outs) ++ [10].
Proof.
  unfold metafile_bytes. rewrite input_json_nonempty.
  rewrite (list_outputs_map (fun c => render ascii rq (chunk_lj mini c)) (render_nonempty ascii rq mini)).
  rewrite map_map. cbn [fst snd].
  rewrite !join_true.
  unfold doc_lj. cbn [render map commas render_ls K qlit].
  rewrite !map_map. unfold input_json.
  unfold qlit. repeat (first [rewrite <- app_assoc | progress (cbn [app])]).
  reflexivity.
Qed.

(* ---- (a)+(b)+(c): the whole metafile is JSON and says what the descriptions say ---- *)

Lemma nl_ws mini n : all_ws (nl mini n) = true.
Proof.
  unfold nl, w. destruct mini.
  - cbn [remove_ws filter]. change ((10 =? 32) || (10 =? 10)) with true. cbn [negb].
    induction n as [|n IH]; [reflexivity|]. cbn [repeat filter]. exact IH.
  - cbn [all_ws forallb]. change (is_ws 10) with true. cbn [andb].
    induction n as [|n IH]; [reflexivity|]. cbn [repeat forallb]. exact IH.
Qed.

Lemma metafile_parses mini ascii prefix nf nc pathOf ins outs :
  forallb plain prefix = true ->
  (forall pc, In pc outs -> clean prefix nf nc (pof [] (frags ascii (chunk_lj mini (snd pc))))) ->
  lj_ok (paths_ok pathOf) (doc_lj mini ins outs) ->
  parse_json (metafile_of mini ascii prefix nf nc pathOf ins outs) = Some (erase (path_units pathOf) (doc_lj mini ins outs)).
Proof.
  intros Hp Hc Hok. unfold metafile_of.
  assert (E : map (fun pc => (fst pc, chunk_final mini ascii prefix nf nc pathOf (snd pc))) outs
            = map (fun pc => (fst pc, render ascii (rq_final pathOf) (chunk_lj mini (snd pc)))) outs).
  { apply map_ext_in. intros pc Hin. rewrite chunk_final_text; [reflexivity|exact Hp|apply Hc; exact Hin]. }
  rewrite E. fold (rq_final pathOf). rewrite metafile_as_tree.
  apply (parse_render_all ascii (paths_ok pathOf)); [apply sf_final|exact Hok|reflexivity].
Qed.

(* ---- (d) the paths written for unique keys are keys of outputs ---- *)

Lemma dedup_keys {A} : forall (l : list (bytes * A)) seen p,
  In p (map fst (dedup_first seen l)) <-> (In p (map fst l) /\ bmem p seen = false).
Proof.
  assert (B : forall (p q : bytes) seen, bmem p (q :: seen) = zlist_eqb p q || bmem p seen) by reflexivity.
  induction l as [|[q a] l IH]; intros seen p; cbn [dedup_first map fst In].
  - tauto.
  - destruct (bmem q seen) eqn:Eq.
    + rewrite IH. split; [tauto|]. intros [[E|H] Hb]; [subst; congruence|tauto].
    + cbn [map fst In]. rewrite IH, B. split.
      * intros [E|[H Hb]]; [subst; tauto|]. apply orb_false_iff in Hb. tauto.
      * intros [[E|H] Hb]; [left; exact E|].
        destruct (zlist_eqb p q) eqn:Epq; [left; symmetry; apply zlist_eqb_eq; exact Epq|right; tauto].
Qed.

(* the results of a link: additional files, then one output per chunk under
   the path of that chunk *)
Fixpoint number {A} (start : Z) (l : list A) : list (Z * A) :=
  match l with [] => [] | x :: r => (start, x) :: number (start + 1) r end.

Definition link_results {A} (pathOf : Z -> Z -> bytes) (extra : list (bytes * A)) (chunks : list A) : list (bytes * A) :=
  extra ++ map (fun jc => (pathOf 2 (fst jc), snd jc)) (number 0 chunks).

Lemma number_in {A} : forall (l : list A) start j, start <= j < start + Z.of_nat (length l) ->
  exists a, In (j, a) (number start l).
Proof.
  induction l as [|x l IH]; intros start j H; [cbn in H; lia|].
  cbn [number]. destruct (Z.eq_dec j start) as [->|Hne]; [exists x; left; reflexivity|].
  destruct (IH (start + 1) j) as [a Ha]; [cbn [length] in H; lia|]. exists a. right. exact Ha.
Qed.

Lemma imports_resolve_all {A} (pathOf : Z -> Z -> bytes) (extra : list (bytes * A)) (chunks : list A) k j :
  (k = 2 -> 0 <= j < Z.of_nat (length chunks)) ->
  (k <> 2 -> In (pathOf k j) (map fst extra)) ->
  In (pathOf k j) (map fst (dedup_first [] (link_results pathOf extra chunks))).
Proof.
  intros H2 H1. apply dedup_keys. split; [|reflexivity].
  unfold link_results. rewrite map_app. apply in_or_app.
  destruct (Z.eq_dec k 2) as [->|Hk]; [right|left; apply H1; exact Hk].
  specialize (H2 eq_refl). rewrite map_map. cbn [fst].
  destruct (number_in chunks 0 j ltac:(lia)) as [a Ha].
  apply in_map_iff. exists (j, a). split; [reflexivity|exact Ha].
Qed.

Lemma dedup_nodup {A} : forall (l : list (bytes * A)) seen, NoDup (map fst (dedup_first seen l)).
Proof.
  induction l as [|[q a] l IH]; intro seen; cbn [dedup_first map fst]; [constructor|].
  destruct (bmem q seen); [apply IH|]. cbn [map fst]. constructor; [|apply IH].
  intro Hin. apply dedup_keys in Hin as [_ Hb]. cbn [bmem] in Hb.
  assert (zlist_eqb q q = true) by (apply zlist_eqb_eq; reflexivity). rewrite H in Hb. discriminate.
Qed.

(* ---- what the metafile must say: the value of a build's descriptions,
        written without reference to the text ---- *)
Definition ju (s : string) : list Z := units (b s).
Definition path_of (pathOf : Z -> Z -> bytes) (p : pref) : bytes :=
  match p with PLit s => s | PRef k i => pathOf k i end.

Definition imp_jv pathOf (i : imp) : jv :=
  JObj ([(ju "path", JStr (units (path_of pathOf (i_path i)))); (ju "kind", JStr (units (i_kind i)))]
        ++ (if i_external i then [(ju "external", JLit 0)] else [])).

Definition chunk_jv pathOf (c : chunk) : jv :=
  JObj ([(ju "imports", JArr (map (imp_jv pathOf) (c_imports c)))]
        ++ (if c_js c then [(ju "exports", JArr (map (fun e => JStr (units e)) (c_exports c)))] else [])
        ++ match c_entry c with Some e => [(ju "entryPoint", JStr (units e))] | None => [] end
        ++ match c_css c with Some p => [(ju "cssBundle", JStr (units (path_of pathOf p)))] | None => [] end
        ++ [(ju "inputs", JObj (map (fun pn => (units (fst pn), JObj [(ju "bytesInOutput", JNum (dec (snd pn)))])) (c_inputs c)));
            (ju "bytes", JNum (dec (c_bytes c)))]).

Definition with_jv (ws : list (bytes * bytes)) : list (list Z * jv) :=
  if is_nil ws then [] else [(ju "with", JObj (map (fun kv => (units (fst kv), JStr (units (snd kv)))) ws))].

Definition iimp_jv (i : iimp) : jv :=
  JObj ([(ju "path", JStr (units (ii_path i))); (ju "kind", JStr (units (ii_kind i)))]
        ++ (if ii_external i then [(ju "external", JLit 0)]
            else match ii_original i with Some o => [(ju "original", JStr (units o))] | None => [] end)
        ++ with_jv (ii_with i)).

Definition input_jv (i : input) : jv :=
  JObj ([(ju "bytes", JNum (dec (in_bytes i))); (ju "imports", JArr (map iimp_jv (in_imports i)))]
        ++ match in_format i with Some f => [(ju "format", JStr (units f))] | None => [] end
        ++ with_jv (in_with i)).

(* every output path once, the first result of a path wins *)
Definition doc_jv pathOf (ins : list input) (outs : list (bytes * chunk)) : jv :=
  JObj [(ju "inputs", JObj (map (fun i => (units (in_path i), input_jv i)) ins));
        (ju "outputs", JObj (map (fun pc => (units (fst pc), chunk_jv pathOf (snd pc))) (dedup_first [] outs)))].

Lemma erase_with pathOf mini n ws :
  map (fun m : bytes * ls * bytes * lj => let '(_, k, _, v) := m in (ls_units (path_units pathOf) k, erase (path_units pathOf) v)) (with_lj mini n ws)
  = with_jv ws.
Proof.
  unfold with_lj, with_jv. destruct (is_nil ws); [reflexivity|].
  cbn [map erase ls_units K]. rewrite map_map. reflexivity.
Qed.

Lemma erase_imp pathOf mini i : erase (path_units pathOf) (imp_lj mini i) = imp_jv pathOf i.
Proof.
  unfold imp_lj, imp_jv. cbn [erase]. rewrite map_app. cbn [map erase ls_units K].
  destruct (i_path i); destruct (i_external i); reflexivity.
Qed.

Lemma erase_chunk pathOf mini c : erase (path_units pathOf) (chunk_lj mini c) = chunk_jv pathOf c.
Proof.
  unfold chunk_lj, chunk_jv. cbn [erase]. rewrite !map_app. cbn [map erase ls_units K].
  rewrite !map_map. cbn [snd fst].
  rewrite (map_ext _ _ (erase_imp pathOf mini)).
  destruct (c_js c); destruct (c_entry c); destruct (c_css c) as [[s|k i]|];
    cbn [map erase ls_units K ls_of path_of app]; rewrite ?map_map; reflexivity.
Qed.

Lemma erase_iimp pathOf mini i : erase (path_units pathOf) (iimp_lj mini i) = iimp_jv i.
Proof.
  unfold iimp_lj, iimp_jv. cbn [erase]. rewrite !map_app, erase_with. cbn [map erase ls_units K].
  destruct (ii_external i); [reflexivity|]. destruct (ii_original i); reflexivity.
Qed.

Lemma erase_input pathOf mini i : erase (path_units pathOf) (input_lj mini i) = input_jv i.
Proof.
  unfold input_lj, input_jv. cbn [erase]. rewrite !map_app, erase_with. cbn [map erase ls_units K].
  rewrite !map_map. cbn [snd]. rewrite (map_ext _ _ (erase_iimp pathOf mini)).
  destruct (in_format i); reflexivity.
Qed.

Lemma erase_doc pathOf mini ins outs : erase (path_units pathOf) (doc_lj mini ins outs) = doc_jv pathOf ins outs.
Proof.
  unfold doc_lj, doc_jv. cbn [erase map ls_units K]. rewrite !map_map.
  f_equal. f_equal; [|f_equal].
  - f_equal. f_equal. apply map_ext. intro i. cbn [ls_units]. rewrite erase_input. reflexivity.
  - f_equal. f_equal. apply map_ext. intro pc. cbn [ls_units]. rewrite erase_chunk. reflexivity.
Qed.

Lemma metafile_faithful_all mini ascii prefix nf nc pathOf ins outs :
  forallb plain prefix = true ->
  (forall pc, In pc outs -> clean prefix nf nc (pof [] (frags ascii (chunk_lj mini (snd pc))))) ->
  lj_ok (paths_ok pathOf) (doc_lj mini ins outs) ->
  parse_json (metafile_of mini ascii prefix nf nc pathOf ins outs) = Some (doc_jv pathOf ins outs).
Proof.
  intros. rewrite <- (erase_doc pathOf mini). apply metafile_parses; assumption.
Qed.

(* (c) for one output: the JSON piece after substitution parses to the description *)
Lemma chunk_final_parses mini ascii prefix nf nc pathOf c :
  forallb plain prefix = true ->
  clean prefix nf nc (pof [] (frags ascii (chunk_lj mini c))) ->
  lj_ok (paths_ok pathOf) (chunk_lj mini c) ->
  parse_json (chunk_final mini ascii prefix nf nc pathOf c) = Some (chunk_jv pathOf c).
Proof.
  intros Hp Hc Hok. rewrite chunk_final_text by assumption.
  rewrite <- (app_nil_r (render _ _ _)). rewrite <- (erase_chunk pathOf mini).
  apply (parse_render_all ascii (paths_ok pathOf)); [apply sf_final|exact Hok|reflexivity].
Qed.

(* the number written as "bytes" is the one handed to the callback: the length
   of the output after ITS path substitution (Metafile.total_bytes) *)
Lemma bytes_member pathOf c : In (ju "bytes", JNum (dec (c_bytes c)))
  (match chunk_jv pathOf c with JObj ms => ms | _ => [] end).
Proof.
  unfold chunk_jv. repeat (apply in_or_app; right). right. left. reflexivity.
Qed.
