(* C19 model: which file an input's import is said to resolve to.

   /repo/internal/bundler/bundler.go processScannedFiles, the loop over the
   import records of one file:
     - a record without resolve result or without source index is written as
       external (record.Path.Text), except the parser-generated import of an
       injected file (source index already valid: written with that file's path)
     - "dual package hazard": a record whose resolve result has a secondary path
       (the package's "main" file when "module" was chosen) that was also visited
       (the package is required somewhere) is RE-POINTED to that file
       (record.SourceIndex = visited[secondary].sourceIndex)      -> repoint
     - the metafile entry is written from s.results[record.SourceIndex] AFTER
       that, i.e. from the index the linker will follow          -> import_of
   Executable definitions only. *)
From V Require Import Common.Base C19.Json C19.Layout C19.Metafile C19.Doc.

Record irec := mkRec {
  r_index : option Z;              (* record.SourceIndex when valid *)
  r_resolved : bool;               (* resolveResults[i] != nil *)
  r_secondary : option bytes;      (* PathPair.Secondary (key text) when HasSecondary() *)
  r_text : bytes;                  (* record.Path.Text *)
  r_kind : bytes;                  (* record.Kind.StringForMetafile() *)
  r_with : list (bytes * bytes)
}.

Fixpoint visited_index (key : bytes) (visited : list (bytes * Z)) : option Z :=
  match visited with
  | [] => None
  | (k, j) :: r => if zlist_eqb key k then Some j else visited_index key r
  end.

(* the source index the record has after the loop body: what the linker follows *)
Definition repoint (visited : list (bytes * Z)) (r : irec) : option Z :=
  match r_secondary r with
  | Some key => match visited_index key visited with Some j => Some j | None => r_index r end
  | None => r_index r
  end.

Definition import_of (paths : Z -> bytes) (visited : list (bytes * Z)) (r : irec) : iimp :=
  match r_index r with
  | Some j =>
    if r_resolved r
    then match repoint visited r with
         | Some j' => mkIImp (paths j') (r_kind r) false (Some (r_text r)) (r_with r)
         | None => mkIImp (r_text r) (r_kind r) true None (r_with r)
         end
    else mkIImp (paths j) (r_kind r) false None (r_with r)
  | None => mkIImp (r_text r) (r_kind r) true None (r_with r)
  end.

(* the description of an input from its scan result *)
Definition scan_input (paths : Z -> bytes) (visited : list (bytes * Z)) (self : Z) (size : Z)
           (records : list irec) (format : option bytes) (attrs : list (bytes * bytes)) : input :=
  mkInput (paths self) size (map (import_of paths visited) records) format attrs.
