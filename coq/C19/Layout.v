(* C19 model, structure layer (generic part): how esbuild writes JSON text.

   Every piece of the metafile is produced by fmt.Sprintf / Joiner.AddString of
   format strings whose only variable parts are helpers.QuoteForJSON(..) strings,
   %d numbers and lists joined by a comma.  [lj] is such a text as a tree: a
   JSON value together with the whitespace the format strings put before each
   member / element / closing bracket, and for each string how it is written:
     SQ s    helpers.QuoteForJSON(s, asciiOnly)
     SR s    a string literal of a format string (DQUOTE s DQUOTE), also a
             final path substituted for a unique key
     SF k i  the place of the unique key of asset (k=1) / chunk (k=2) number i;
             [rq k i] is the string token standing there: QuoteForJSON of the
             key before substituteFinalPaths, the final path between quotation
             marks after it
   [render] is the byte string.  Which tree the linker and the bundler build
   is in Doc.v.  Executable definitions only. *)
From V Require Import Common.Base C19.Json.

Inductive ls :=
| SQ (s : bytes)
| SR (s : bytes)
| SF (k i : Z).

Inductive lj :=
| LObj (ms : list (bytes * ls * bytes * lj)) (cw : bytes)
| LArr (es : list (bytes * lj)) (cw : bytes)
| LS (x : ls)
| LNum (n : Z)
| LTrue.

(* strings.Join-like: the isFirst / else AddString(",") idiom *)
Fixpoint commas (l : list bytes) : bytes :=
  match l with
  | [] => []
  | x :: r => match r with [] => x | _ => x ++ 44 :: commas r end
  end.

Definition lit_true_bytes : bytes := [116; 114; 117; 101].

Section Render.
  Variable ascii : bool.
  Variable rq : Z -> Z -> bytes.

  Definition render_ls (x : ls) : bytes :=
    match x with
    | SQ s => quote_for_json ascii s
    | SR s => 34 :: s ++ [34]
    | SF k i => rq k i
    end.

  Fixpoint render (t : lj) : bytes :=
    match t with
    | LObj ms cw =>
      123 :: commas (map (fun m => let '(w1, k, w2, v) := m in
                                    w1 ++ render_ls k ++ 58 :: w2 ++ render v) ms) ++ cw ++ [125]
    | LArr es cw =>
      91 :: commas (map (fun e => fst e ++ render (snd e)) es) ++ cw ++ [93]
    | LS x => render_ls x
    | LNum n => dec n
    | LTrue => lit_true_bytes
    end.
End Render.
