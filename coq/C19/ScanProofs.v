(* C19 proofs: the import paths of the inputs section name the files the
   records finally point to. *)
From Coq Require Import String.
From V Require Import Common.Base C19.Json C19.JsonSpec C19.Layout C19.Metafile C19.Doc C19.DocProofs C19.Scan.

(* the file an import finally denotes: the re-pointed index of a resolved
   record, the preset index of an injected file's import *)
Definition final_target (visited : list (bytes * Z)) (r : irec) : option Z :=
  match r_index r with
  | Some j => if r_resolved r then repoint visited r else Some j
  | None => None
  end.

Lemma repoint_secondary visited r key j :
  r_secondary r = Some key -> visited_index key visited = Some j -> repoint visited r = Some j.
Proof. intros H1 H2. unfold repoint. rewrite H1, H2. reflexivity. Qed.

Lemma repoint_none visited r :
  (forall key, r_secondary r = Some key -> visited_index key visited = None) -> repoint visited r = r_index r.
Proof.
  intro H. unfold repoint. destruct (r_secondary r) as [key|]; [|reflexivity].
  rewrite (H key eq_refl). reflexivity.
Qed.

Lemma import_of_target paths visited r j : final_target visited r = Some j ->
  ii_path (import_of paths visited r) = paths j /\ ii_external (import_of paths visited r) = false.
Proof.
  unfold final_target, import_of. destruct (r_index r) as [i|]; [|discriminate].
  destruct (r_resolved r).
  - intro H. rewrite H. split; reflexivity.
  - intro H. inversion H; subst. split; reflexivity.
Qed.

Lemma import_of_external paths visited r : final_target visited r = None ->
  ii_external (import_of paths visited r) = true.
Proof.
  unfold final_target, import_of. destruct (r_index r) as [i|]; [|reflexivity].
  destruct (r_resolved r); [|discriminate]. intro H. rewrite H. reflexivity.
Qed.

(* what the parsed metafile says about that import: its "path" member is the
   path of the final target *)
Lemma iimp_jv_path paths visited r j : final_target visited r = Some j ->
  exists rest, iimp_jv (import_of paths visited r) = JObj ((ju "path", JStr (units (paths j))) :: rest).
Proof.
  intro H. destruct (import_of_target paths visited r j H) as [Hp _].
  unfold iimp_jv. rewrite Hp. cbn [app]. eexists. reflexivity.
Qed.

Definition imports_of_input (v : jv) : list jv :=
  match v with
  | JObj (_ :: (_, JArr vs) :: _) => vs
  | _ => []
  end.

Lemma scan_input_lists_final_target paths visited self size records format attrs r j :
  In r records -> final_target visited r = Some j ->
  exists rest, In (JObj ((ju "path", JStr (units (paths j))) :: rest))
                  (imports_of_input (input_jv (scan_input paths visited self size records format attrs))).
Proof.
  intros Hin Ht. destruct (iimp_jv_path paths visited r j Ht) as [rest Hr]. exists rest.
  unfold input_jv, scan_input. cbn [in_imports app imports_of_input]. rewrite map_map.
  rewrite <- Hr. apply in_map_iff. exists r. split; [reflexivity|exact Hin].
Qed.

(* a scanned file: (source index, size, records, format, attributes) *)
Definition sfile := (Z * Z * list irec * option bytes * list (bytes * bytes))%type.
Definition sf_index (f : sfile) : Z := let '(i, _, _, _, _) := f in i.
Definition sf_records (f : sfile) : list irec := let '(_, _, rs, _, _) := f in rs.
Definition sf_input paths visited (f : sfile) : input :=
  let '(i, sz, rs, fmt, at_) := f in scan_input paths visited i sz rs fmt at_.

(* if the set of files is closed under the final targets (the linker's
   reachability follows the re-pointed indices), every import that is not
   external names a key of the inputs section *)
Lemma inputs_closed_all paths visited (files : list sfile) :
  (forall f r j, In f files -> In r (sf_records f) -> final_target visited r = Some j ->
     In j (map sf_index files)) ->
  forall i imp, In i (map (sf_input paths visited) files) -> In imp (in_imports i) ->
    ii_external imp = false -> In (ii_path imp) (map in_path (map (sf_input paths visited) files)).
Proof.
  intros Hc i imp Hi Himp Hext.
  apply in_map_iff in Hi as (f & <- & Hf).
  destruct f as [[[[si sz] rs] fmt] at_]. cbn [sf_input scan_input in_imports] in Himp.
  apply in_map_iff in Himp as (r & <- & Hr).
  destruct (final_target visited r) as [j|] eqn:Et.
  - destruct (import_of_target paths visited r j Et) as [-> _].
    specialize (Hc _ r j Hf Hr Et). apply in_map_iff in Hc as (g & <- & Hg).
    rewrite map_map. apply in_map_iff. exists g. split; [|exact Hg].
    destruct g as [[[[gi gs] grs] gf] ga]. reflexivity.
  - rewrite (import_of_external paths visited r Et) in Hext. discriminate.
Qed.
