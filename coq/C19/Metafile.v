(* Model for C19 on top of the shared pieces model (C18/Pieces.v):

   /repo/internal/linker/linker.go
     generateChunkJS / generateChunkCSS, "Include this file in the metadata" and
       jsonMetadataChunkCallback               -> segments, meta_order, bytes_in_output, total_bytes
     accurateFinalByteCount                    -> Pieces.accurate_count
   /repo/internal/bundler/bundler.go
     generateMetadataJSON (outputs part)       -> list_outputs

   A chunk's intermediate output is the concatenation of segments; a segment is
   either the printed code of one input file (compileResult.JS / .CSS of a file
   that is not omitted from the metafile) or glue text (banner, path comments,
   cross-chunk import statements, runtime, entry tail, wrappers).
   Executable definitions only. *)
From V Require Import Common.Base C18.Pieces.

Definition segment := (option Z * bytes)%type.      (* owner source index (None = glue), bytes *)

Definition seg_bytes (s : segment) : bytes := snd s.
Definition joined (segs : list segment) : bytes := concat (map seg_bytes segs).

Fixpoint zmem (x : Z) (l : list Z) : bool :=
  match l with [] => false | y :: r => (x =? y) || zmem x r end.

(* metaOrder: owners in order of first appearance *)
Fixpoint meta_order (segs : list segment) (seen : list Z) : list Z :=
  match segs with
  | [] => []
  | (Some s, _) :: r => if zmem s seen then meta_order r seen else s :: meta_order r (s :: seen)
  | (None, _) :: r => meta_order r seen
  end.

Section Chunk.
  Variable prefix : bytes.
  Variable nf nc : Z.
  Variable pathOf : Z -> Z -> bytes.     (* pathBetweenChunks(finalRelDir, ...) of the asset / chunk *)

  (* accurateFinalByteCount(breakOutputIntoPieces(slice), finalRelDir) *)
  Definition slice_count (b : bytes) : Z :=
    match break_output prefix nf nc b with
    | Some ps => accurate_count pathOf ps
    | None => 0
    end.

  (* "bytesInOutput" of source [s]: the sum over its slices *)
  Fixpoint bytes_in_output (s : Z) (segs : list segment) : Z :=
    match segs with
    | [] => 0
    | (Some s', b) :: r => (if s =? s' then slice_count b else 0) + bytes_in_output s r
    | (None, _) :: r => bytes_in_output s r
    end.

  (* the chunk's final contents: substituteFinalPaths on the whole joined
     output, then the trailing legal-comment link / sourceMappingURL comment *)
  Definition final_contents (segs : list segment) (trailer : bytes) : bytes :=
    match break_joiner prefix nf nc (joined segs) with
    | Some o => substitute_out pathOf o (joined segs) ++ trailer
    | None => trailer
    end.

  (* "bytes": len(outputContents) *)
  Definition total_bytes (segs : list segment) (trailer : bytes) : Z :=
    Z.of_nat (length (final_contents segs trailer)).

  (* the "inputs" object of this output: (source index, bytesInOutput) in metaOrder *)
  Definition output_inputs (segs : list segment) : list (Z * Z) :=
    map (fun s => (s, bytes_in_output s segs)) (meta_order segs []).
End Chunk.

(* generateMetadataJSON, outputs part: results with a non-empty metadata chunk,
   the first one of each path *)
Fixpoint bmem (x : bytes) (l : list bytes) : bool :=
  match l with [] => false | y :: r => zlist_eqb x y || bmem x r end.

Fixpoint list_outputs (seen : list bytes) (rs : list (bytes * bytes)) : list (bytes * bytes) :=
  match rs with
  | [] => []
  | (p, j) :: r =>
    match j with
    | [] => list_outputs seen r
    | _ => if bmem p seen then list_outputs seen r else (p, j) :: list_outputs (p :: seen) r
    end
  end.

(* generateChunkCSS (after fix ea1db64): metaOrder / metaBytes over the compile
   results with a valid source index, one entry per file with the sum of its
   slices - the same computation as generateChunkJS's *)
Definition css_output_inputs (prefix : bytes) (nf nc : Z) (pathOf : Z -> Z -> bytes) (segs : list segment) : list (Z * Z) :=
  output_inputs prefix nf nc pathOf segs.

(* the pieces of the whole output if every segment is split on its own and the
   pieces are glued the way the joiner concatenates the bytes *)
Fixpoint pieces_of_segs (prefix : bytes) (nf nc : Z) (segs : list segment) : list piece :=
  match segs with
  | [] => [mkPiece [] 0 0]
  | s :: r => match break_output prefix nf nc (snd s) with
              | Some ps => papp ps (pieces_of_segs prefix nf nc r)
              | None => pieces_of_segs prefix nf nc r
              end
  end.
