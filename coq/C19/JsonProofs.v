(* C19 proofs, JSON layer: the spec string parser reads QuoteForJSON's output
   back as exactly the UTF-16 units of the Go string. *)
From V Require Import Common.Base C01.Utf C01.Quote C19.Json C19.JsonSpec.

Definition bytes_ok (s : bytes) : Prop := Forall (fun b => 0 <= b <= 255) s.

Ltac ifs_in H := repeat match type of H with context [if ?b then _ else _] => destruct b eqn:? end.
Ltac ifs := repeat match goal with |- context [if ?b then _ else _] => destruct b eqn:? end.

Lemma hexval_hexc d : 0 <= d < 16 -> hexval (hexc d) = Some d.
Proof.
  intro H. unfold hexc. destruct (d <? 10) eqn:E; unfold hexval; ifs; try lia; f_equal; lia.
Qed.

Lemma jstr_esc_u4 F c tl : 0 <= c <= 65535 ->
  jstr (S F) (esc_u4 c ++ tl) = prepend [c] (jstr F tl).
Proof.
  intro H. unfold esc_u4. cbn [app jstr].
  change (92 =? 34) with false. change (92 =? 92) with true. change (117 =? 117) with true. cbv iota.
  rewrite !hexval_hexc by lia.
  replace (((c / 4096 * 16 + c / 256 mod 16) * 16 + c / 16 mod 16) * 16 + c mod 16) with c by lia.
  reflexivity.
Qed.

Lemma jstr_simple F e u tl : e <> 117 -> simple_esc e = Some u ->
  jstr (S F) (92 :: e :: tl) = prepend [u] (jstr F tl).
Proof.
  intros Hne Hs. cbn [jstr]. change (92 =? 34) with false. change (92 =? 92) with true. cbv iota.
  destruct (e =? 117) eqn:E; [lia|]. rewrite Hs. reflexivity.
Qed.

Lemma jstr_raw F b0 o c tl : b0 <> 34 -> b0 <> 92 -> 32 <= c ->
  utf8_dec (b0 :: o ++ tl) = Some (c, tl) ->
  jstr (S F) ((b0 :: o) ++ tl) = prepend (u16 c) (jstr F tl).
Proof.
  intros H1 H2 H3 Hd. cbn [app jstr].
  destruct (b0 =? 34) eqn:E1; [lia|]. destruct (b0 =? 92) eqn:E2; [lia|].
  rewrite Hd. destruct (c <? 32) eqn:E3; [lia|]. reflexivity.
Qed.

Lemma rune_units_u16 c : 0 <= c <= 1114111 -> rune_units c = u16 c.
Proof.
  intro H. unfold rune_units, u16.
  destruct (c <=? 65535) eqn:E1; destruct (c <? 65536) eqn:E2; try lia; [reflexivity|].
  f_equal. rewrite Z.mod_small by lia. reflexivity.
Qed.

(* the shapes DecodeWTF8Rune can return on bytes *)
Inductive dshape (b0 : Z) (t : bytes) (c w : Z) : Prop :=
| D1 : w = 1 -> c = b0 -> b0 < 128 -> dshape b0 t c w
| DE : w = 1 -> c = 65533 -> 128 <= b0 -> dshape b0 t c w
| D2 b1 t1 : w = 2 -> t = b1 :: t1 -> 194 <= b0 <= 223 -> 128 <= b1 <= 191 ->
             c = (b0 - 192) * 64 + (b1 - 128) -> dshape b0 t c w
| D3 b1 b2 t2 : w = 3 -> t = b1 :: b2 :: t2 -> 224 <= b0 <= 239 -> 128 <= b1 <= 191 -> 128 <= b2 <= 191 ->
             c = (b0 - 224) * 4096 + (b1 - 128) * 64 + (b2 - 128) -> 2048 <= c -> dshape b0 t c w
| D4 b1 b2 b3 t3 : w = 4 -> t = b1 :: b2 :: b3 :: t3 -> 240 <= b0 <= 247 ->
             128 <= b1 <= 191 -> 128 <= b2 <= 191 -> 128 <= b3 <= 191 ->
             c = (b0 - 240) * 262144 + (b1 - 128) * 4096 + (b2 - 128) * 64 + (b3 - 128) ->
             65536 <= c <= 1114111 -> dshape b0 t c w.

Lemma decode_shape b0 t c w : 0 <= b0 <= 255 ->
  DecodeWTF8Rune (b0 :: t) = (c, w) -> dshape b0 t c w.
Proof.
  intros Hb H. unfold DecodeWTF8Rune, RuneError in H. cbv zeta in H.
  destruct (b0 <? 128) eqn:E0.
  { inversion H; subst. apply D1; lia. }
  unfold cont in H.
  destruct ((192 <=? b0) && (b0 <? 224)) eqn:E2.
  { change (2 =? 0) with false in H. cbv iota in H.
    destruct (Z.of_nat (length (b0 :: t)) <? 2) eqn:EL; [inversion H; subst; apply DE; lia|].
    destruct t as [|b1 t1]; [inversion H; subst; apply DE; lia|].
    destruct (negb ((128 <=? b1) && (b1 <=? 191))) eqn:Ec; [inversion H; subst; apply DE; lia|].
    change (2 =? 2) with true in H. cbv iota in H.
    destruct ((b0 - 192) * 64 + (b1 - 128) <? 128) eqn:Eo; inversion H; subst; [apply DE; lia|].
    eapply D2; try reflexivity; lia. }
  destruct ((224 <=? b0) && (b0 <? 240)) eqn:E3.
  { change (3 =? 0) with false in H. cbv iota in H.
    destruct (Z.of_nat (length (b0 :: t)) <? 3) eqn:EL; [inversion H; subst; apply DE; lia|].
    destruct t as [|b1 t1]; [inversion H; subst; apply DE; lia|].
    destruct (negb ((128 <=? b1) && (b1 <=? 191))) eqn:Ec; [inversion H; subst; apply DE; lia|].
    change (3 =? 2) with false in H. cbv iota in H.
    destruct t1 as [|b2 t2]; [inversion H; subst; apply DE; lia|].
    destruct (negb ((128 <=? b2) && (b2 <=? 191))) eqn:Ec2; [inversion H; subst; apply DE; lia|].
    change (3 =? 3) with true in H. cbv iota in H.
    destruct ((b0 - 224) * 4096 + (b1 - 128) * 64 + (b2 - 128) <? 2048) eqn:Eo; inversion H; subst; [apply DE; lia|].
    eapply D3; try reflexivity; lia. }
  destruct ((240 <=? b0) && (b0 <? 248)) eqn:E4.
  { change (4 =? 0) with false in H. cbv iota in H.
    destruct (Z.of_nat (length (b0 :: t)) <? 4) eqn:EL; [inversion H; subst; apply DE; lia|].
    destruct t as [|b1 t1]; [inversion H; subst; apply DE; lia|].
    destruct (negb ((128 <=? b1) && (b1 <=? 191))) eqn:Ec; [inversion H; subst; apply DE; lia|].
    change (4 =? 2) with false in H. cbv iota in H.
    destruct t1 as [|b2 t2]; [inversion H; subst; apply DE; lia|].
    destruct (negb ((128 <=? b2) && (b2 <=? 191))) eqn:Ec2; [inversion H; subst; apply DE; lia|].
    change (4 =? 3) with false in H. cbv iota in H.
    destruct t2 as [|b3 t3]; [inversion H; subst; apply DE; lia|].
    destruct (negb ((128 <=? b3) && (b3 <=? 191))) eqn:Ec3; [inversion H; subst; apply DE; lia|].
    match type of H with (if ?b then _ else _) = _ => destruct b eqn:Eo end; inversion H; subst; [apply DE; lia|].
    eapply D4; try reflexivity; lia. }
  change (0 =? 0) with true in H. cbv iota in H. inversion H; subst. apply DE; lia.
Qed.

Lemma dshape_width b0 t c w : dshape b0 t c w -> 1 <= w <= Z.of_nat (length (b0 :: t)) /\ 0 <= c \/ b0 < 0.
Proof.
  intros [ | | b1 t1 | b1 b2 t2 | b1 b2 b3 t3]; intros; subst; cbn [length]; lia.
Qed.

(* a printable non-ASCII rune was decoded from a well-formed UTF-8 sequence *)
Lemma dshape_raw b0 t c w tl : 0 <= b0 <= 255 -> dshape b0 t c w ->
  126 < c -> (c < 55296 \/ 57343 < c) -> ~ (c = 65533 /\ w = 1) ->
  exists o, firstn (Z.to_nat w) (b0 :: t) = b0 :: o /\ utf8_dec (b0 :: o ++ tl) = Some (c, tl).
Proof.
  intros Hb D Hc Hs Hv.
  destruct D as [ | | b1 t1 | b1 b2 t2 | b1 b2 b3 t3]; subst; try lia.
  - exists []. split; [reflexivity|]. cbn [app utf8_dec]. ifs; try lia. reflexivity.
  - exists [b1]. split; [reflexivity|]. cbn [app utf8_dec]. unfold utail.
    ifs; try lia. reflexivity.
  - exists [b1; b2]. split; [reflexivity|]. cbn [app utf8_dec]. unfold utail.
    destruct (b0 =? 224) eqn:?; destruct (b0 =? 237) eqn:?; ifs; try lia; reflexivity.
  - exists [b1; b2; b3]. split; [reflexivity|]. cbn [app utf8_dec]. unfold utail.
    destruct (b0 =? 240) eqn:?; destruct (b0 =? 244) eqn:?; ifs; try lia; reflexivity.
Qed.

(* one iteration of the quoting loop is read back by the spec parser *)
Lemma step_ok ascii b0 t c w o n : 0 <= b0 <= 255 ->
  DecodeWTF8Rune (b0 :: t) = (c, w) ->
  quote_step ascii (b0 :: t) = (o, n) ->
  n = Z.to_nat w /\ (1 <= n <= length (b0 :: t))%nat /\
  exists k, (1 <= k <= length o)%nat /\
    forall F tl, jstr (k + F) (o ++ tl) = prepend (rune_units c) (jstr F tl).
Proof.
  intros Hb Hd Hq. pose proof (decode_shape _ _ _ _ Hb Hd) as D.
  unfold quote_step in Hq. rewrite Hd in Hq.
  assert (W : 1 <= w <= Z.of_nat (length (b0 :: t)) /\ 0 <= c /\ c <= 1114111).
  { destruct D; subst; cbn [length]; lia. }
  assert (W1 : c < 128 -> w = 1 /\ c = b0) by (destruct D; subst; lia).
  destruct (can_print c ascii && negb (is_invalid_byte c w)) eqn:Epi.
  - apply andb_true_iff in Epi as [Ep Hv]. unfold is_invalid_byte in Hv.
    inversion Hq; subst o n. split; [reflexivity|]. split; [lia|].
    unfold can_print in Ep. destruct (c <=? 126) eqn:E1.
    + assert (W2 : c < 128) by lia. destruct (W1 W2) as [-> ->]. exists 1%nat. change (Z.to_nat 1) with 1%nat. cbn [firstn length]. split; [lia|].
      intros F tl. cbn [Nat.add].
      rewrite rune_units_u16 by lia.
      apply (jstr_raw F b0 [] b0 tl); try lia.
      cbn [app utf8_dec]. destruct ((0 <=? b0) && (b0 <=? 127)) eqn:E; [reflexivity|lia].
    + assert (Hs : c < 55296 \/ 57343 < c) by lia.
      assert (Hv' : ~ (c = 65533 /\ w = 1)) by lia.
      destruct (dshape_raw b0 t c w [] Hb D ltac:(lia) Hs Hv') as (o & Ho & _).
      exists 1%nat. rewrite Ho. split; [cbn [length]; lia|].
      intros F tl. destruct (dshape_raw b0 t c w tl Hb D ltac:(lia) Hs Hv') as (o' & Ho' & Hd').
      rewrite Ho in Ho'. inversion Ho'; subst o'.
      rewrite rune_units_u16 by lia.
      apply jstr_raw; try lia.
      * destruct D; subst; lia.
      * destruct D; subst; lia.
      * exact Hd'.
  - assert (S1 : forall e u, c = u -> u < 128 -> e <> 117 -> simple_esc e = Some u -> (o, n) = ([92; e], 1%nat) ->
        n = Z.to_nat w /\ (1 <= n <= length (b0 :: t))%nat /\
        exists k, (1 <= k <= length o)%nat /\
          forall F tl, jstr (k + F) (o ++ tl) = prepend (rune_units c) (jstr F tl)).
    { intros e u Hc Hu He Hs Hon. inversion Hon; subst o n. assert (W2 : c < 128) by lia. destruct (W1 W2) as [-> _].
      split; [reflexivity|]. split; [cbn [length]; lia|]. exists 1%nat. split; [cbn; lia|].
      intros F tl. cbn [Nat.add app]. rewrite (jstr_simple F e u tl He Hs).
      unfold rune_units. destruct (c <=? 65535) eqn:E; [subst; reflexivity|lia]. }
    destruct (c =? 8) eqn:E8; [apply (S1 98 8); try lia; try reflexivity; symmetry; exact Hq|].
    destruct (c =? 12) eqn:E12; [apply (S1 102 12); try lia; try reflexivity; symmetry; exact Hq|].
    destruct (c =? 10) eqn:E10; [apply (S1 110 10); try lia; try reflexivity; symmetry; exact Hq|].
    destruct (c =? 13) eqn:E13; [apply (S1 114 13); try lia; try reflexivity; symmetry; exact Hq|].
    destruct (c =? 9) eqn:E9; [apply (S1 116 9); try lia; try reflexivity; symmetry; exact Hq|].
    destruct (c =? 92) eqn:E92; [apply (S1 92 92); try lia; try reflexivity; symmetry; exact Hq|].
    destruct (c =? 34) eqn:E34; [apply (S1 34 34); try lia; try reflexivity; symmetry; exact Hq|].
    inversion Hq; subst o n. split; [reflexivity|]. split; [lia|].
    unfold esc_json, rune_units. destruct (c <=? 65535) eqn:E.
    + exists 1%nat. split; [cbn; lia|]. intros F tl. cbn [Nat.add]. apply jstr_esc_u4. lia.
    + exists 2%nat. split; [cbn; lia|]. intros F tl. cbn [Nat.add].
      rewrite <- app_assoc. rewrite jstr_esc_u4 by lia. rewrite jstr_esc_u4 by lia.
      destruct (jstr F tl) as [[u r]|]; reflexivity.
Qed.

Lemma bytes_ok_skipn n s : bytes_ok s -> bytes_ok (skipn n s).
Proof.
  unfold bytes_ok. revert s. induction n as [|n IH]; intros s H; [exact H|].
  destruct s as [|x s]; [constructor|]. cbn [skipn]. apply IH. inversion H; assumption.
Qed.

Lemma quote_roundtrip_gen ascii : forall fuel s F rest,
  bytes_ok s -> (length s <= fuel)%nat ->
  (length (quote_body fuel ascii s) < F)%nat ->
  jstr F (quote_body fuel ascii s ++ 34 :: rest) = Some (str_units fuel s, rest).
Proof.
  induction fuel as [|f IH]; intros s F rest Hb Hl HF.
  - destruct s; [|cbn in Hl; lia]. cbn [quote_body str_units app]. destruct F; [cbn in HF; lia|]. reflexivity.
  - destruct s as [|b0 t].
    { cbn [quote_body str_units app]. destruct F; [cbn in HF; lia|]. reflexivity. }
    cbn [quote_body str_units] in *.
    destruct (DecodeWTF8Rune (b0 :: t)) as [c w] eqn:Hd.
    destruct (quote_step ascii (b0 :: t)) as [o n] eqn:Hq.
    assert (Hb0 : 0 <= b0 <= 255) by (inversion Hb; assumption).
    destruct (step_ok ascii b0 t c w o n Hb0 Hd Hq) as (Hn & Hnl & k & Hk & Hstep).
    subst n. rewrite <- app_assoc.
    rewrite app_length in HF.
    replace F with (k + (F - k))%nat by lia. rewrite Hstep.
    rewrite IH; [reflexivity| | |].
    + apply bytes_ok_skipn. exact Hb.
    + rewrite skipn_length. lia.
    + lia.
Qed.

Lemma json_quote_roundtrip_all ascii s rest :
  bytes_ok s ->
  jstring (quote_for_json ascii s ++ rest) = Some (units s, rest).
Proof.
  intros Hb. unfold quote_for_json, jstring, units. cbn [app].
  change (34 =? 34) with true. cbv iota.
  rewrite <- app_assoc. cbn [app].
  apply quote_roundtrip_gen; try assumption; [lia|].
  rewrite app_length. cbn [length]. lia.
Qed.


(* ---- escapeFinalPath: a well-formed UTF-8 path written between quotation
        marks after escaping is read back as exactly the path ---- *)

Fixpoint utf8_valid (fuel : nat) (s : bytes) : bool :=
  match s with
  | [] => true
  | _ =>
    match fuel with
    | O => false
    | S f => match utf8_dec s with Some (_, r) => utf8_valid f r | None => false end
    end
  end.

Ltac if_inner :=
  match goal with
  | |- context [if ?b then _ else _] =>
    lazymatch b with
    | context [if _ then _ else _] => fail
    | _ => destruct b eqn:?
    end
  end.

Lemma hexval_hexl d : 0 <= d < 16 -> hexval (hexl d) = Some d.
Proof.
  intro H. unfold hexl. destruct (d <? 10) eqn:E; unfold hexval; ifs; try lia; f_equal; lia.
Qed.

Lemma jstr_esc_low F c tl : 0 <= c < 32 ->
  jstr (S F) ([92; 117; 48; 48; hexl (c / 16); hexl (c mod 16)] ++ tl) = prepend [c] (jstr F tl).
Proof.
  intro H. cbn [app jstr].
  change (92 =? 34) with false. change (92 =? 92) with true. change (117 =? 117) with true. cbv iota.
  change (hexval 48) with (Some 0). rewrite !hexval_hexl by lia.
  replace (((0 * 16 + 0) * 16 + c / 16) * 16 + c mod 16) with c by lia. reflexivity.
Qed.

(* what the RFC 3629 decoder accepted is what DecodeWTF8Rune reads *)
Lemma utf8_dec_shape b0 t cp r : 0 <= b0 <= 255 ->
  utf8_dec (b0 :: t) = Some (cp, r) ->
  exists o, t = o ++ r /\
    (forall tl, utf8_dec (b0 :: o ++ tl) = Some (cp, tl)) /\
    DecodeWTF8Rune (b0 :: t) = (cp, Z.of_nat (S (length o))) /\
    0 <= cp <= 1114111 /\
    ((o = [] /\ cp = b0 /\ b0 < 128) \/ (128 <= b0 /\ Forall (fun x => 128 <= x) o /\ 128 <= cp)).
Proof.
  intros Hb H. cbn [utf8_dec] in H. unfold utail in H.
  destruct ((0 <=? b0) && (b0 <=? 127)) eqn:E1.
  { inversion H; subst. exists []. split; [reflexivity|]. split.
    - intro tl. cbn [app utf8_dec]. rewrite E1. reflexivity.
    - split; [|split; [lia|left; repeat split; lia]].
      cbn [DecodeWTF8Rune length]. destruct (cp <? 128) eqn:E; [reflexivity|lia]. }
  destruct ((194 <=? b0) && (b0 <=? 223)) eqn:E2.
  { destruct t as [|b1 t1]; [discriminate|].
    destruct ((128 <=? b1) && (b1 <=? 191)) eqn:C1; [|discriminate]. inversion H; subst.
    exists [b1]. split; [reflexivity|]. split.
    - intro tl. cbn [app utf8_dec]. unfold utail. rewrite E1, E2, C1. reflexivity.
    - split; [|split; [lia|right; repeat split; try lia; repeat constructor; lia]].
      unfold DecodeWTF8Rune, cont, RuneError. cbv zeta. cbn [length].
      repeat (if_inner; try lia); try reflexivity. }
  destruct ((224 <=? b0) && (b0 <=? 239)) eqn:E3.
  { destruct t as [|b1 [|b2 t2]]; try discriminate.
    cbv zeta in H.
    destruct (b0 =? 224) eqn:Ea; destruct (b0 =? 237) eqn:Eb; try lia;
    match type of H with (if ?c then _ else _) = _ => destruct c eqn:C1; [|discriminate] end;
    inversion H; subst;
    (exists [b1; b2]; split; [reflexivity|]; split;
     [intro tl; cbn [app utf8_dec]; unfold utail; rewrite E1, E2, E3, ?Ea, ?Eb; cbv zeta; rewrite ?Ea, ?Eb, C1; reflexivity
     |split; [|split; [lia|right; repeat split; try lia; repeat constructor; lia]];
      unfold DecodeWTF8Rune, cont, RuneError; cbv zeta; cbn [length];
      repeat (if_inner; try lia); try reflexivity]). }
  destruct ((240 <=? b0) && (b0 <=? 244)) eqn:E4; [|discriminate].
  destruct t as [|b1 [|b2 [|b3 t3]]]; try discriminate.
  cbv zeta in H.
  destruct (b0 =? 240) eqn:Ea; destruct (b0 =? 244) eqn:Eb; try lia;
  match type of H with (if ?c then _ else _) = _ => destruct c eqn:C1; [|discriminate] end;
  inversion H; subst;
  (exists [b1; b2; b3]; split; [reflexivity|]; split;
   [intro tl; cbn [app utf8_dec]; unfold utail; rewrite E1, E2, E3, E4; cbv zeta; rewrite ?Ea, ?Eb, C1; reflexivity
   |split; [|split; [lia|right; repeat split; try lia; repeat constructor; lia]];
    unfold DecodeWTF8Rune, cont, RuneError; cbv zeta; cbn [length];
    repeat (if_inner; try lia); try reflexivity]).
Qed.

Lemma escape_high o : Forall (fun x => 128 <= x) o -> escape_final o = o.
Proof.
  induction 1 as [|x o Hx Ho IH]; [reflexivity|].
  unfold escape_final in *. cbn [flat_map]. rewrite IH. unfold esc_final_byte.
  destruct ((x =? 34) || (x =? 92)) eqn:E; [lia|]. destruct (32 <=? x) eqn:E2; [reflexivity|lia].
Qed.

Lemma escape_final_app a c : escape_final (a ++ c) = escape_final a ++ escape_final c.
Proof. unfold escape_final. apply flat_map_app. Qed.

Lemma escape_final_read : forall n s F rest,
  bytes_ok s -> (length s <= n)%nat -> utf8_valid n s = true ->
  (length (escape_final s) < F)%nat ->
  jstr F (escape_final s ++ 34 :: rest) = Some (str_units n s, rest).
Proof.
  induction n as [|n IH]; intros s F rest Hb Hl Hv HF.
  - destruct s; [|cbn in Hl; lia]. destruct F; [cbn in HF; lia|]. reflexivity.
  - destruct s as [|b0 t]; [destruct F; [cbn in HF; lia|]; reflexivity|].
    cbn [utf8_valid] in Hv.
    destruct (utf8_dec (b0 :: t)) as [[cp r]|] eqn:Hd; [|discriminate].
    assert (Hb0 : 0 <= b0 <= 255) by (inversion Hb; assumption).
    destruct (utf8_dec_shape b0 t cp r Hb0 Hd) as (o & Ht & Hdec & Hw & Hcp & Hcase).
    subst t.
    assert (Hbr : bytes_ok r).
    { unfold bytes_ok in *. inversion Hb as [|? ? _ Hb']. apply Forall_app in Hb'. tauto. }
    assert (Hlr : (length r <= n)%nat) by (cbn [length] in Hl; rewrite app_length in Hl; lia).
    cbn [str_units]. rewrite Hw.
    replace (skipn (Z.to_nat (Z.of_nat (S (length o)))) (b0 :: o ++ r)) with r
      by (rewrite Nat2Z.id; cbn [skipn]; rewrite skipn_app, skipn_all, Nat.sub_diag; reflexivity).
    change (b0 :: o ++ r) with ([b0] ++ o ++ r) in HF |- *.
    rewrite !escape_final_app in HF |- *. rewrite <- !app_assoc.
    destruct Hcase as [(-> & -> & Hlt)|(Hge & Ho & Hcpge)].
    + (* one ASCII byte *)
      change (escape_final []) with (@nil Z) in *. cbn [app] in HF |- *.
      unfold escape_final at 1. unfold escape_final at 1 in HF. cbn [flat_map] in HF |- *. rewrite app_nil_r in *.
      assert (Hu : rune_units b0 = [b0]) by (unfold rune_units; destruct (b0 <=? 65535) eqn:E; [reflexivity|lia]).
      rewrite Hu. rewrite app_length in HF.
      unfold esc_final_byte in *.
      destruct ((b0 =? 34) || (b0 =? 92)) eqn:Eq.
      * cbn [length] in HF. destruct F; [lia|]. cbn [app].
        rewrite (jstr_simple F b0 b0); [|lia|unfold simple_esc; destruct (b0 =? 34) eqn:E; [f_equal; lia|]; destruct (b0 =? 92) eqn:E'; [f_equal; lia|lia]].
        rewrite IH; [reflexivity|assumption|assumption|assumption|lia].
      * destruct (32 <=? b0) eqn:E32.
        -- cbn [length] in HF. destruct F; [lia|].
           rewrite (jstr_raw F b0 [] b0); try lia.
           ++ rewrite IH; [unfold u16; destruct (b0 <? 65536) eqn:E; [reflexivity|lia]|assumption|assumption|assumption|lia].
           ++ cbn [app]. apply (Hdec (escape_final r ++ 34 :: rest)).
        -- cbn [length] in HF. destruct F; [lia|].
           rewrite jstr_esc_low by lia.
           rewrite IH; [reflexivity|assumption|assumption|assumption|lia].
    + (* a multi-byte sequence: copied as it is *)
      rewrite (escape_high o Ho) in *.
      assert (E0 : escape_final [b0] = [b0]) by (apply escape_high; repeat constructor; lia).
      rewrite E0 in *. rewrite !app_length in HF. cbn [length] in HF.
      destruct F; [lia|]. cbn [app].
      change (b0 :: o ++ escape_final r ++ 34 :: rest) with ((b0 :: o) ++ escape_final r ++ 34 :: rest).
      rewrite (jstr_raw F b0 o cp); try lia; [|apply Hdec].
      rewrite rune_units_u16 by lia.
      rewrite IH; [reflexivity|assumption|assumption|assumption|lia].
Qed.

Lemma final_path_read p rest : bytes_ok p -> utf8_valid (length p) p = true ->
  jstring (34 :: escape_final p ++ 34 :: rest) = Some (units p, rest).
Proof.
  intros Hb Hv. unfold jstring, units. change (34 =? 34) with true. cbv iota.
  apply escape_final_read; try assumption; [lia|].
  rewrite app_length. cbn [length]. lia.
Qed.
