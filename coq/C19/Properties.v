(* C19 property theorems. This file contains only statements closed by
   [exact lemma] and Print Assumptions. *)
From V Require Import Common.Base C18.Pieces C18.PiecesProofs C19.Metafile C19.MetafileProofs.

(* accurateFinalByteCount is the length of what substituteFinalPaths produces,
   when both obtain their paths the same way (pathOf) *)
Theorem accurate_count : forall pathOf ps,
  Pieces.accurate_count pathOf ps = Z.of_nat (length (substitute pathOf ps)).
Proof. exact accurate_count_length. Qed.
Print Assumptions accurate_count.

(* The bytes attributed to the inputs of an output never exceed its size,
   provided splitting the whole output agrees with splitting each segment on
   its own (the prefix occurs only in well-formed keys and never across a
   segment border) *)
Theorem inputs_sum_le_total : forall prefix nf nc pathOf segs trailer,
  break_output prefix nf nc (joined segs) = Some (pieces_of_segs prefix nf nc segs) ->
  sum_over prefix nf nc pathOf (meta_order segs []) segs <= total_bytes prefix nf nc pathOf segs trailer.
Proof. exact inputs_sum_le_total_all. Qed.
Print Assumptions inputs_sum_le_total.

(* An input is reported with bytesInOutput = 0 exactly when every slice of
   code it contributed is empty (paths substituted for keys being non-empty) *)
Theorem zero_iff_no_bytes : forall prefix nf nc pathOf s,
  (forall k i, is_ref k = true -> pathOf k i <> []) ->
  forall segs, bytes_in_output prefix nf nc pathOf s segs = 0 <-> (forall b, In (Some s, b) segs -> b = []).
Proof. exact bio_zero_iff. Qed.
Print Assumptions zero_iff_no_bytes.

(* generateChunkJS lists every contributing input once ... *)
Theorem js_inputs_listed_once : forall segs, NoDup (meta_order segs []).
Proof. exact (fun segs => meta_order_nodup segs []). Qed.
Print Assumptions js_inputs_listed_once.

(* ... generateChunkCSS does not: one entry per compile result, so a CSS file
   imported twice (with different conditions) gives a JSON object with a
   repeated key *)
Theorem css_inputs_listed_once_refuted :
  exists prefix nf nc pathOf segs, ~ NoDup (map fst (css_output_inputs prefix nf nc pathOf segs)).
Proof. exact css_inputs_keys_not_unique. Qed.
Print Assumptions css_inputs_listed_once_refuted.

(* generateMetadataJSON lists every output path that has a metadata chunk
   exactly once, and the entry kept is the first one *)
Theorem outputs_listed_once : forall rs,
  NoDup (map fst (list_outputs [] rs)) /\
  (forall p, In p (map fst (list_outputs [] rs)) <-> exists j, In (p, j) rs /\ j <> []) /\
  (forall p j, In (p, j) (list_outputs [] rs) ->
     exists pre post, rs = pre ++ (p, j) :: post /\ (forall j', In (p, j') pre -> j' = [])).
Proof. exact outputs_listed_once_all. Qed.
Print Assumptions outputs_listed_once.
