(* C19 property theorems. This file contains only statements closed by
   [exact lemma] and Print Assumptions. *)
From Coq Require Import String.
From V Require Import Common.Base C18.Pieces C18.PiecesProofs C19.Metafile C19.MetafileProofs
  C19.Json C19.JsonSpec C19.JsonProofs C19.Layout C19.LayoutProofs C19.SubstProofs C19.Doc C19.DocProofs C19.Scan C19.ScanProofs.

(* accurateFinalByteCount is the length of what substituteFinalPaths produces,
   when both obtain their paths the same way (pathOf) *)
Theorem accurate_count : forall pathOf ps,
  Pieces.accurate_count pathOf ps = Z.of_nat (length (substitute pathOf ps)).
Proof. exact accurate_count_length. Qed.
Print Assumptions accurate_count.

(* The bytes attributed to the inputs of an output never exceed its size,
   provided splitting the whole output agrees with splitting each segment on
   its own (the prefix occurs only in well-formed keys and never across a
   segment border) *)
Theorem inputs_sum_le_total : forall prefix nf nc pathOf segs trailer,
  break_output prefix nf nc (joined segs) = Some (pieces_of_segs prefix nf nc segs) ->
  sum_over prefix nf nc pathOf (meta_order segs []) segs <= total_bytes prefix nf nc pathOf segs trailer.
Proof. exact inputs_sum_le_total_all. Qed.
Print Assumptions inputs_sum_le_total.

(* An input is reported with bytesInOutput = 0 exactly when every slice of
   code it contributed is empty (paths substituted for keys being non-empty) *)
Theorem zero_iff_no_bytes : forall prefix nf nc pathOf s,
  (forall k i, is_ref k = true -> pathOf k i <> []) ->
  forall segs, bytes_in_output prefix nf nc pathOf s segs = 0 <-> (forall b, In (Some s, b) segs -> b = []).
Proof. exact bio_zero_iff. Qed.
Print Assumptions zero_iff_no_bytes.

(* generateChunkJS lists every contributing input once ... *)
Theorem js_inputs_listed_once : forall segs, NoDup (meta_order segs []).
Proof. exact (fun segs => meta_order_nodup segs []). Qed.
Print Assumptions js_inputs_listed_once.

(* ... and so does generateChunkCSS (a CSS file imported twice with different
   conditions is one entry with the sum of its copies) *)
Theorem css_inputs_listed_once : forall prefix nf nc pathOf segs,
  NoDup (map fst (css_output_inputs prefix nf nc pathOf segs)).
Proof. exact css_inputs_keys_unique. Qed.
Print Assumptions css_inputs_listed_once.

(* generateMetadataJSON lists every output path that has a metadata chunk
   exactly once, and the entry kept is the first one *)
Theorem outputs_listed_once : forall rs,
  NoDup (map fst (list_outputs [] rs)) /\
  (forall p, In p (map fst (list_outputs [] rs)) <-> exists j, In (p, j) rs /\ j <> []) /\
  (forall p j, In (p, j) (list_outputs [] rs) ->
     exists pre post, rs = pre ++ (p, j) :: post /\ (forall j', In (p, j') pre -> j' = [])).
Proof. exact outputs_listed_once_all. Qed.
Print Assumptions outputs_listed_once.

(* ---- JSON layer ---- *)

(* helpers.QuoteForJSON: for every byte string (control characters, quotation
   marks, backslashes, U+2028/9, astral characters, WTF-8 surrogates, invalid
   bytes, which read as U+FFFD) and both charsets the RFC 8259 string parser
   reads the output back as exactly the UTF-16 units of the string, and stops
   right after the closing quotation mark (after fix 6fea80b there is no proviso) *)
Theorem json_quote_roundtrip : forall ascii s rest,
  bytes_ok s ->
  jstring (quote_for_json ascii s ++ rest) = Some (units s, rest).
Proof. exact json_quote_roundtrip_all. Qed.
Print Assumptions json_quote_roundtrip.

(* escapeFinalPath: a final path that is well-formed UTF-8 - whatever
   quotation marks, backslashes and control characters it contains - written
   between quotation marks is read back as exactly the path (fix b608b91) *)
Theorem final_path_roundtrip : forall p rest, path_ok p ->
  jstring (34 :: escape_final p ++ 34 :: rest) = Some (units p, rest).
Proof. exact (fun p rest H => final_path_read p rest (proj1 H) (proj2 H)). Qed.
Print Assumptions final_path_roundtrip.

(* every text written the way esbuild writes its JSON (Layout.lj) is accepted
   by the RFC 8259 parser and denotes the value it was written from *)
Theorem json_text_roundtrip : forall ascii sfok ru rq t trailer,
  sf_reads sfok ru rq -> lj_ok sfok t -> all_ws trailer = true ->
  parse_json (render ascii rq t ++ trailer) = Some (erase ru t).
Proof. exact parse_render_all. Qed.
Print Assumptions json_text_roundtrip.

(* ---- path substitution inside the JSON pieces ---- *)

(* breakOutputIntoPieces finds exactly the keys of a text in which the prefix
   occurs nowhere else (converse of C18.pieces_lossless) *)
Theorem clean_text_is_split_at_its_keys : forall prefix nf nc ps,
  clean prefix nf nc ps ->
  break_output prefix nf nc (join_with_keys prefix ps) = Some ps.
Proof. exact (fun prefix nf nc ps H => break_clean prefix nf nc ps H _ (Nat.lt_succ_diag_r _)). Qed.
Print Assumptions clean_text_is_split_at_its_keys.

(* the JSON piece of an output after substituteFinalPaths is the same tree with
   the escaped final paths between the quotation marks (whatever their length
   and characters); it parses to the description *)
Theorem substitution_keeps_wellformed : forall mini ascii prefix nf nc pathOf c,
  forallb plain prefix = true ->
  clean prefix nf nc (pof [] (frags ascii (chunk_lj mini c))) ->
  lj_ok (paths_ok pathOf) (chunk_lj mini c) ->
  chunk_final mini ascii prefix nf nc pathOf c = render ascii (rq_final pathOf) (chunk_lj mini c) /\
  parse_json (chunk_final mini ascii prefix nf nc pathOf c) = Some (chunk_jv pathOf c).
Proof.
  exact (fun mini ascii prefix nf nc pathOf c Hp Hc Hok =>
    conj (chunk_final_text mini ascii prefix nf nc pathOf c Hp Hc)
         (chunk_final_parses mini ascii prefix nf nc pathOf c Hp Hc Hok)).
Qed.
Print Assumptions substitution_keeps_wellformed.


(* the "bytes" member is the number handed to jsonMetadataChunkCallback *)
Theorem bytes_is_callback_argument : forall pathOf c,
  In (ju "bytes"%string, JNum (dec (c_bytes c))) (match chunk_jv pathOf c with JObj ms => ms | _ => [] end).
Proof. exact bytes_member. Qed.
Print Assumptions bytes_is_callback_argument.

(* ---- the whole metafile ---- *)

Theorem metafile_wellformed : forall mini ascii prefix nf nc pathOf ins outs,
  forallb plain prefix = true ->
  (forall pc, In pc outs -> clean prefix nf nc (pof [] (frags ascii (chunk_lj mini (snd pc))))) ->
  lj_ok (paths_ok pathOf) (doc_lj mini ins outs) ->
  exists v, parse_json (metafile_of mini ascii prefix nf nc pathOf ins outs) = Some v.
Proof.
  exact (fun mini ascii prefix nf nc pathOf ins outs Hp Hc Hok =>
    ex_intro _ _ (metafile_faithful_all mini ascii prefix nf nc pathOf ins outs Hp Hc Hok)).
Qed.
Print Assumptions metafile_wellformed.

(* parsing the metafile gives back the descriptions: inputs in order, every
   output path once (first result wins), imports / exports / entryPoint /
   cssBundle / inputs / bytes of each output as described, unique keys replaced
   by the final paths *)
Theorem metafile_faithful : forall mini ascii prefix nf nc pathOf ins outs,
  forallb plain prefix = true ->
  (forall pc, In pc outs -> clean prefix nf nc (pof [] (frags ascii (chunk_lj mini (snd pc))))) ->
  lj_ok (paths_ok pathOf) (doc_lj mini ins outs) ->
  parse_json (metafile_of mini ascii prefix nf nc pathOf ins outs) = Some (doc_jv pathOf ins outs)
  /\ NoDup (map fst (dedup_first [] outs)).
Proof.
  exact (fun mini ascii prefix nf nc pathOf ins outs Hp Hc Hok =>
    conj (metafile_faithful_all mini ascii prefix nf nc pathOf ins outs Hp Hc Hok) (dedup_nodup outs [])).
Qed.
Print Assumptions metafile_faithful.

(* the path written for the unique key of chunk j (0 <= j < number of chunks:
   C18.references_resolve) or of an asset whose additional file is among the
   results is a key of outputs *)
Theorem imports_resolve : forall (pathOf : Z -> Z -> bytes) (extra : list (bytes * chunk)) (chunks : list chunk) k j,
  (k = 2 -> 0 <= j < Z.of_nat (length chunks)) ->
  (k <> 2 -> In (pathOf k j) (map fst extra)) ->
  In (pathOf k j) (map fst (dedup_first [] (link_results pathOf extra chunks))).
Proof. exact (@imports_resolve_all chunk). Qed.
Print Assumptions imports_resolve.

(* ---- which file an input's import names (processScannedFiles) ---- *)

(* the dual-package re-pointing: a record whose secondary path was visited
   finally denotes that file ... *)
Theorem hazard_repoints_to_visited_secondary : forall visited r key j,
  r_secondary r = Some key -> visited_index key visited = Some j -> repoint visited r = Some j.
Proof. exact repoint_secondary. Qed.
Print Assumptions hazard_repoints_to_visited_secondary.

(* ... and the metafile names, for every import, the path of the file the
   record FINALLY denotes (the index the linker follows), as a member "path"
   of the corresponding element of inputs[f].imports *)
Theorem input_import_path_is_final_target : forall paths visited self size records format attrs r j,
  In r records -> final_target visited r = Some j ->
  ii_path (import_of paths visited r) = paths j /\ ii_external (import_of paths visited r) = false /\
  exists rest, In (JObj ((ju "path"%string, JStr (units (paths j))) :: rest))
                  (imports_of_input (input_jv (scan_input paths visited self size records format attrs))).
Proof.
  exact (fun paths visited self size records format attrs r j Hin Ht =>
    conj (proj1 (import_of_target paths visited r j Ht))
      (conj (proj2 (import_of_target paths visited r j Ht))
        (scan_input_lists_final_target paths visited self size records format attrs r j Hin Ht))).
Qed.
Print Assumptions input_import_path_is_final_target.

(* if the files read into the bundle are closed under those final targets,
   every listed import that is not external is a key of the inputs section *)
Theorem input_imports_resolve : forall paths visited (files : list sfile),
  (forall f r j, In f files -> In r (sf_records f) -> final_target visited r = Some j ->
     In j (map sf_index files)) ->
  forall i imp, In i (map (sf_input paths visited) files) -> In imp (in_imports i) ->
    ii_external imp = false -> In (ii_path imp) (map in_path (map (sf_input paths visited) files)).
Proof. exact inputs_closed_all. Qed.
Print Assumptions input_imports_resolve.
