From V Require Import Common.Base C18.Pieces C18.PiecesProofs C19.Metafile.

(* ---- papp: gluing piece lists is concatenation of the bytes ---- *)

Lemma substitute_papp pathOf : forall a b,
  substitute pathOf (papp a b) = substitute pathOf a ++ substitute pathOf b.
Proof.
  induction a as [|p a IH]; intro b; [reflexivity|].
  destruct a as [|q a].
  - cbn [papp]. destruct (is_ref (pkind p)) eqn:E.
    + cbn [substitute]. rewrite E, app_nil_r. rewrite <- !app_assoc. reflexivity.
    + destruct b as [|q b].
      * cbn [substitute]. rewrite E. rewrite !app_nil_r. reflexivity.
      * cbn [substitute pdata pkind pidx]. rewrite E. cbn [app]. rewrite !app_nil_r, <- !app_assoc. reflexivity.
  - change (papp (p :: q :: a) b) with (p :: papp (q :: a) b).
    cbn [substitute]. rewrite IH. cbn [substitute]. rewrite <- !app_assoc. reflexivity.
Qed.

Lemma slice_count_nonneg prefix nf nc pathOf b : 0 <= slice_count prefix nf nc pathOf b.
Proof.
  unfold slice_count. destruct (break_output prefix nf nc b); [|lia].
  rewrite accurate_count_length. lia.
Qed.

Lemma slice_count_length prefix nf nc pathOf b ps : break_output prefix nf nc b = Some ps ->
  slice_count prefix nf nc pathOf b = Z.of_nat (length (substitute pathOf ps)).
Proof. intro H. unfold slice_count. rewrite H. apply accurate_count_length. Qed.

Fixpoint sum_all (prefix : bytes) (nf nc : Z) (pathOf : Z -> Z -> bytes) (segs : list segment) : Z :=
  match segs with [] => 0 | s :: r => slice_count prefix nf nc pathOf (snd s) + sum_all prefix nf nc pathOf r end.

Lemma pieces_of_segs_length prefix nf nc pathOf : forall segs,
  Z.of_nat (length (substitute pathOf (pieces_of_segs prefix nf nc segs))) = sum_all prefix nf nc pathOf segs.
Proof.
  induction segs as [|s r IH]; [reflexivity|].
  cbn [pieces_of_segs sum_all].
  destruct (break_total prefix nf nc (snd s)) as [ps Hps]. rewrite Hps.
  rewrite substitute_papp, app_length, Nat2Z.inj_add, IH. rewrite (slice_count_length _ _ _ _ _ _ Hps). reflexivity.
Qed.

(* ---- regrouping the per-input sums ---- *)

Section Sums.
  Variable prefix : bytes.
  Variable nf nc : Z.
  Variable pathOf : Z -> Z -> bytes.
  Notation cnt := (slice_count prefix nf nc pathOf).
  Notation bio := (bytes_in_output prefix nf nc pathOf).

  Fixpoint sum_over (l : list Z) (segs : list segment) : Z :=
    match l with [] => 0 | s :: r => bio s segs + sum_over r segs end.

  (* owned slices whose owner is not in [seen] *)
  Fixpoint owned_not_seen (segs : list segment) (seen : list Z) : Z :=
    match segs with
    | [] => 0
    | (Some s, b) :: r => (if zmem s seen then 0 else cnt b) + owned_not_seen r seen
    | (None, _) :: r => owned_not_seen r seen
    end.

  Lemma meta_order_not_seen : forall segs seen t, In t (meta_order segs seen) -> zmem t seen = false.
  Proof.
    induction segs as [|[[s|] b] r IH]; intros seen t Ht; cbn in Ht; [destruct Ht| |apply IH; exact Ht].
    destruct (zmem s seen) eqn:E; [apply IH; exact Ht|].
    destruct Ht as [<-|Ht]; [exact E|].
    apply IH in Ht. cbn in Ht. apply orb_false_iff in Ht as [_ Ht]. exact Ht.
  Qed.

  Lemma sum_over_skip s b : forall l r, ~ In s l ->
    sum_over l ((Some s, b) :: r) = sum_over l r.
  Proof.
    induction l as [|t l IH]; intros r Hn; [reflexivity|].
    cbn [sum_over bytes_in_output]. rewrite IH by (intro X; apply Hn; right; exact X).
    destruct (t =? s) eqn:E; [exfalso; apply Hn; left; lia|lia].
  Qed.

  Lemma sum_over_glue b : forall l r, sum_over l ((None, b) :: r) = sum_over l r.
  Proof. induction l as [|t l IH]; intro r; [reflexivity|]. cbn [sum_over bytes_in_output]. rewrite IH. reflexivity. Qed.

  Lemma zmem_In x l : zmem x l = true <-> In x l.
  Proof.
    induction l as [|y l IH]; cbn; [split; [discriminate|intros []]|].
    rewrite orb_true_iff, IH. split; (intros [H|H]; [left; lia|right; exact H]).
  Qed.

  Lemma owned_split s : forall segs seen, zmem s seen = false ->
    owned_not_seen segs seen = bio s segs + owned_not_seen segs (s :: seen).
  Proof.
    induction segs as [|[[t|] b] r IH]; intros seen Hs; cbn [owned_not_seen bytes_in_output]; [lia| |apply IH; exact Hs].
    rewrite (IH seen Hs). cbn [zmem].
    destruct (s =? t) eqn:E.
    - assert (t = s) by lia. subst t. rewrite Hs. rewrite Z.eqb_refl. cbn. lia.
    - replace (t =? s) with false by lia. cbn. destruct (zmem t seen); lia.
  Qed.

  Lemma sum_regroup : forall segs seen,
    sum_over (meta_order segs seen) segs = owned_not_seen segs seen.
  Proof.
    induction segs as [|[[s|] b] r IH]; intro seen; cbn [meta_order owned_not_seen].
    - reflexivity.
    - destruct (zmem s seen) eqn:E.
      + rewrite sum_over_skip; [rewrite IH; lia|].
        intro X. apply meta_order_not_seen in X. congruence.
      + cbn [sum_over]. rewrite sum_over_skip.
        2:{ intro X. apply meta_order_not_seen in X. cbn in X. rewrite Z.eqb_refl in X. discriminate. }
        rewrite IH. cbn [bytes_in_output]. rewrite Z.eqb_refl.
        rewrite (owned_split s r seen E). lia.
    - rewrite sum_over_glue. apply IH.
  Qed.

  Lemma owned_le_all : forall segs seen, owned_not_seen segs seen <= sum_all prefix nf nc pathOf segs.
  Proof.
    induction segs as [|[[s|] b] r IH]; intro seen; cbn [owned_not_seen sum_all snd]; [lia| |].
    - pose proof (slice_count_nonneg prefix nf nc pathOf b). specialize (IH seen). destruct (zmem s seen); lia.
    - pose proof (slice_count_nonneg prefix nf nc pathOf b). specialize (IH seen). lia.
  Qed.

  (* inputs_sum_le_total: if splitting the whole output agrees with splitting
     every segment on its own (true whenever the prefix occurs only inside
     well-formed keys, never across a segment border), the bytes attributed to
     the inputs never exceed the size of the file *)
  Lemma inputs_sum_le_total_all segs trailer :
    break_output prefix nf nc (joined segs) = Some (pieces_of_segs prefix nf nc segs) ->
    sum_over (meta_order segs []) segs <= total_bytes prefix nf nc pathOf segs trailer.
  Proof.
    intro Hc. rewrite sum_regroup.
    etransitivity; [apply owned_le_all|].
    unfold total_bytes, final_contents, break_joiner.
    destruct (occurs prefix (joined segs)) eqn:Eo.
    - rewrite Hc. cbn [substitute_out]. rewrite app_length, Nat2Z.inj_add, pieces_of_segs_length. lia.
    - cbn [substitute_out].
      (* no occurrence: the whole output is one piece *)
      assert (Hw : break_output prefix nf nc (joined segs) = Some [mkPiece (joined segs) 0 0]).
      { unfold break_output. cbn [break_pieces]. unfold occurs in Eo.
        destruct (index_of prefix (joined segs)); [discriminate|reflexivity]. }
      rewrite Hw in Hc. inversion Hc as [Hp].
      rewrite app_length, Nat2Z.inj_add.
      pose proof (pieces_of_segs_length prefix nf nc pathOf segs) as Hl.
      rewrite <- Hp in Hl. cbn [substitute pdata pkind is_ref Z.eqb orb] in Hl.
      rewrite !app_nil_r in Hl. lia.
  Qed.

  (* zero_iff_no_bytes for one slice *)
  Lemma slice_zero_iff b :
    (forall k i, is_ref k = true -> pathOf k i <> []) ->
    (cnt b = 0 <-> b = []).
  Proof.
    intro Hp. split.
    - intro H0. destruct (break_total_lossless prefix nf nc b) as (ps & Hps & Hj).
      rewrite (slice_count_length _ _ _ _ _ _ Hps) in H0.
      assert (Hn : substitute pathOf ps = []) by (destruct (substitute pathOf ps); [reflexivity|cbn in H0; lia]).
      rewrite <- Hj. clear - Hn Hp.
      induction ps as [|p r IH]; [reflexivity|].
      cbn [substitute] in Hn. apply app_eq_nil in Hn as [Hd Hn]. apply app_eq_nil in Hn as [Hpath Hn].
      cbn [join_with_keys]. rewrite Hd, (IH Hn).
      destruct (is_ref (pkind p)) eqn:E; [exfalso; eapply Hp; eassumption|reflexivity].
    - intros ->. unfold slice_count, break_output. cbn [length break_pieces].
      destruct (index_of prefix []) as [k|] eqn:E; [|reflexivity].
      replace (parse_key nf nc (skipn (k + length prefix) [])) with (@None (Z * Z)); [reflexivity|].
      rewrite skipn_nil. reflexivity.
  Qed.

  Lemma bio_nonneg s : forall segs, 0 <= bio s segs.
  Proof.
    induction segs as [|[[t|] b] r IH]; cbn [bytes_in_output]; [lia| |exact IH].
    pose proof (slice_count_nonneg prefix nf nc pathOf b). destruct (s =? t); lia.
  Qed.

  (* zero_iff_no_bytes: an input is reported with 0 bytes exactly when all its slices are empty *)
  Lemma bio_zero_iff s :
    (forall k i, is_ref k = true -> pathOf k i <> []) ->
    forall segs, bio s segs = 0 <-> (forall b, In (Some s, b) segs -> b = []).
  Proof.
    intro Hp. induction segs as [|[[t|] b] r IH]; cbn [bytes_in_output].
    - split; [intros _ b []|reflexivity].
    - pose proof (slice_count_nonneg prefix nf nc pathOf b) as Hc. pose proof (bio_nonneg s r) as Hr.
      destruct (s =? t) eqn:E.
      + assert (t = s) by lia. subst t. split.
        * intros H0 b' [Hb|Hb]; [inversion Hb; subst b'; apply (slice_zero_iff b Hp); lia|apply IH; [lia|exact Hb]].
        * intro Hall. assert (b = []) by (apply Hall; left; reflexivity). subst b.
          assert (cnt [] = 0) by (apply (slice_zero_iff [] Hp); reflexivity).
          assert (bio s r = 0) by (apply IH; intros b' Hb'; apply Hall; right; exact Hb'). lia.
      + rewrite Z.add_0_l, IH. split; intros Hall b' Hb'.
        * destruct Hb' as [Hb'|Hb']; [inversion Hb'; lia|apply Hall; exact Hb'].
        * apply Hall. right; exact Hb'.
    - rewrite IH. split; intros Hall b' Hb'.
      + destruct Hb' as [Hb'|Hb']; [discriminate|apply Hall; exact Hb'].
      + apply Hall. right; exact Hb'.
  Qed.

  (* the JS listing has one entry per input *)
  Lemma meta_order_nodup : forall segs seen, NoDup (meta_order segs seen).
  Proof.
    induction segs as [|[[s|] b] r IH]; intro seen; cbn [meta_order]; [constructor| |apply IH].
    destruct (zmem s seen); [apply IH|]. constructor; [|apply IH].
    intro X. apply meta_order_not_seen in X. cbn in X. rewrite Z.eqb_refl in X. discriminate.
  Qed.
End Sums.

(* ---- generateMetadataJSON: outputs listed once, first wins ---- *)

Lemma bmem_In x l : bmem x l = true <-> In x l.
Proof.
  induction l as [|y l IH]; cbn; [split; [discriminate|intros []]|].
  rewrite orb_true_iff, IH, zlist_eqb_eq. split; (intros [H|H]; [left; congruence|right; exact H]).
Qed.

Lemma list_outputs_fresh : forall rs seen p, In p (map fst (list_outputs seen rs)) -> ~ In p seen.
Proof.
  induction rs as [|[q j] r IH]; intros seen p Hp; cbn [list_outputs] in Hp; [destruct Hp|].
  destruct j as [|j0 j]; [apply (IH seen p Hp)|].
  destruct (bmem q seen) eqn:E; [apply (IH seen p Hp)|].
  cbn [map fst] in Hp. destruct Hp as [<-|Hp].
  - intro X. apply bmem_In in X. congruence.
  - intro X. apply (IH (q :: seen) p Hp). right; exact X.
Qed.

Lemma list_outputs_nodup : forall rs seen, NoDup (map fst (list_outputs seen rs)).
Proof.
  induction rs as [|[q j] r IH]; intro seen; cbn [list_outputs]; [constructor|].
  destruct j as [|j0 j]; [apply IH|].
  destruct (bmem q seen); [apply IH|].
  cbn [map fst]. constructor; [|apply IH].
  intro X. apply (list_outputs_fresh _ _ _ X). left; reflexivity.
Qed.

Lemma list_outputs_sound : forall rs seen p j, In (p, j) (list_outputs seen rs) -> In (p, j) rs /\ j <> [].
Proof.
  induction rs as [|[q k] r IH]; intros seen p j Hp; cbn [list_outputs] in Hp; [destruct Hp|].
  destruct k as [|k0 k].
  - destruct (IH seen p j Hp) as [A B]. split; [right; exact A|exact B].
  - destruct (bmem q seen).
    + destruct (IH seen p j Hp) as [A B]. split; [right; exact A|exact B].
    + destruct Hp as [Hp|Hp].
      * inversion Hp; subst. split; [left; reflexivity|discriminate].
      * destruct (IH (q :: seen) p j Hp) as [A B]. split; [right; exact A|exact B].
Qed.

Lemma list_outputs_complete : forall rs seen p j, In (p, j) rs -> j <> [] -> ~ In p seen ->
  In p (map fst (list_outputs seen rs)).
Proof.
  induction rs as [|[q k] r IH]; intros seen p j Hp Hj Hs; [destruct Hp|].
  cbn [list_outputs]. destruct Hp as [Hp|Hp].
  - inversion Hp; subst q k. destruct j as [|j0 j]; [congruence|].
    destruct (bmem p seen) eqn:E; [exfalso; apply Hs, bmem_In, E|]. left; reflexivity.
  - destruct k as [|k0 k]; [apply (IH seen p j Hp Hj Hs)|].
    destruct (bmem q seen) eqn:E; [apply (IH seen p j Hp Hj Hs)|].
    cbn [map fst]. destruct (list_eq_dec Z.eq_dec p q) as [->|Ne]; [left; reflexivity|].
    right. apply (IH (q :: seen) p j Hp Hj). intros [X|X]; [congruence|contradiction].
Qed.

(* the entry kept for a path is the first result with that path and a non-empty chunk *)
Lemma list_outputs_first : forall rs seen p j, In (p, j) (list_outputs seen rs) ->
  exists pre post, rs = pre ++ (p, j) :: post /\ (forall j', In (p, j') pre -> j' = []).
Proof.
  induction rs as [|[q k] r IH]; intros seen p j Hp; cbn [list_outputs] in Hp; [destruct Hp|].
  destruct k as [|k0 k].
  - destruct (IH seen p j Hp) as (pre & post & E & F). exists ((q, []) :: pre), post. split; [rewrite E; reflexivity|].
    intros j' [X|X]; [inversion X; reflexivity|apply F; exact X].
  - destruct (bmem q seen) eqn:Eb.
    + destruct (IH seen p j Hp) as (pre & post & E & F).
      assert (Np : ~ In p seen) by (apply (list_outputs_fresh r seen p); apply (in_map fst) in Hp; exact Hp).
      exists ((q, k0 :: k) :: pre), post. split; [rewrite E; reflexivity|].
      intros j' [X|X]; [inversion X; subst; exfalso; apply Np, bmem_In, Eb|apply F; exact X].
    + destruct Hp as [Hp|Hp].
      * inversion Hp; subst. exists [], r. split; [reflexivity|intros j' []].
      * destruct (IH (q :: seen) p j Hp) as (pre & post & E & F).
        assert (Np : ~ In p (q :: seen)) by (apply (list_outputs_fresh r (q :: seen) p); apply (in_map fst) in Hp; exact Hp).
        exists ((q, k0 :: k) :: pre), post. split; [rewrite E; reflexivity|].
        intros j' [X|X]; [inversion X; subst; exfalso; apply Np; left; reflexivity|apply F; exact X].
Qed.

Lemma outputs_listed_once_all rs :
  NoDup (map fst (list_outputs [] rs)) /\
  (forall p, In p (map fst (list_outputs [] rs)) <-> exists j, In (p, j) rs /\ j <> []) /\
  (forall p j, In (p, j) (list_outputs [] rs) ->
     exists pre post, rs = pre ++ (p, j) :: post /\ (forall j', In (p, j') pre -> j' = [])).
Proof.
  split; [apply list_outputs_nodup|]. split; [|apply list_outputs_first].
  intro p. split.
  - intro Hp. apply in_map_iff in Hp as ([q j] & <- & Hi). exists j. apply (list_outputs_sound _ _ _ _ Hi).
  - intros (j & Hi & Hj). eapply list_outputs_complete; [exact Hi|exact Hj|intros []].
Qed.

(* the CSS listing has one entry per file *)
Lemma css_inputs_keys_unique prefix nf nc pathOf segs :
  NoDup (map fst (css_output_inputs prefix nf nc pathOf segs)).
Proof.
  unfold css_output_inputs, output_inputs. rewrite map_map. cbn [fst]. rewrite map_id.
  apply meta_order_nodup.
Qed.
