(* Non-vacuity for the C19 theorems. *)
From V Require Import Common.Base C18.Pieces C19.Metafile C19.MetafileProofs.

Definition ex_prefix : bytes := [80;81;82;83].
Definition ex_key_c1 : bytes := ex_prefix ++ [67;48;48;48;48;48;48;48;49].
Definition ex_path (k i : Z) : bytes := [46;47;120;45;72;46;106;115].     (* ./x-H.js *)
Definition ex_segs : list segment :=
  [(None, [47;47;32;97;10]); (Some 3, [105;40] ++ ex_key_c1 ++ [41;59;10]); (None, [10]); (Some 5, [120;10]); (Some 3, [121;10])].

(* the hypothesis of inputs_sum_le_total holds here: splitting the whole = gluing the splits *)
Example ex_clean : break_output ex_prefix 1 2 (joined ex_segs) = Some (pieces_of_segs ex_prefix 1 2 ex_segs).
Proof. vm_compute. reflexivity. Qed.
Example ex_inputs : output_inputs ex_prefix 1 2 ex_path ex_segs = [(3, 15); (5, 2)].
Proof. vm_compute. reflexivity. Qed.
Example ex_total : total_bytes ex_prefix 1 2 ex_path ex_segs [] = 23.
Proof. vm_compute. reflexivity. Qed.
Example ex_paths_nonempty : forall k i, is_ref k = true -> ex_path k i <> [].
Proof. intros; discriminate. Qed.
Example ex_outs : list_outputs [] [([97], [1]); ([98], []); ([97], [2]); ([98], [3])] = [([97], [1]); ([98], [3])].
Proof. vm_compute. reflexivity. Qed.
